/* k8.c -- multi-threaded white-box driver (properties C08 / C09 / C04(b)).
 *
 *   k8 <dbdir> <scenario-file> [key=value ...]
 *     seed= mode= yield= sleep= (permille) spur= (permille) pct_d= pct_k= abs=0|1 timeout= deadline= (s) reopen=0|1
 *     keys=k1,k2,... (point-read after the run)  write_buffer= max_file_size= block_size= mmap= compression= paranoid=
 *
 * Runs the per-thread operation lists of a SCENARIO on the real lcdb (pthread build)
 * under a perturbed schedule and prints
 *   INV <tid> <opid> <clock> <op text>      one per invoked operation
 *   RET <tid> <opid> <clock> <result>       one per returned operation
 *   GRP <n> leader=<tid> first=<seq> n=<count> members=<tid>:<opid>:<cnt>,...
 *                                           the group commit as built by the queue head (white box:
 *                                           --wrap=ldb_batch_set_sequence, called under db->mutex)
 *   A <n> <tid> <how> q=... ls=.. imm=.. bgs=.. bge=.. man=.. sd=.. l0=.. logn=.. cv=..   (abs=1)
 *                                           abstract state of the DB at every point where db->mutex
 *                                           changes hands: how = L (just acquired), U (about to unlock),
 *                                           W (about to cond_wait, cv names the condition), R (re-acquired
 *                                           after a wait); E lines record signals/broadcasts issued while
 *                                           holding db->mutex.
 *   FINAL / FINALGET / CLOSED / REOPEN      state after all threads joined, after close, after reopen
 *   STUCK ...                               watchdog report (exit code 3)
 * The logical clock is one global counter incremented atomically at every INV and RET.
 *
 * Interposition (link with -Wl,--wrap=...): pthread_mutex_lock/unlock, pthread_cond_wait/signal/
 * broadcast, pthread_create, ldb_batch_set_sequence, and the I/O calls write/fsync/fdatasync/
 * rename/unlink/open/pread/read (schedule points only).
 *
 * Schedule perturbation (seeded, per-thread PRNG):
 *   mode=0 none; mode=1 random sched_yield / short nanosleep at wrapped calls;
 *   mode=2 PCT-style priorities: every thread has a priority, d-1 change points lower the priority
 *          of the thread that hits them; a thread at a wrapped call yields (bounded) while a
 *          higher-priority thread is runnable.  Priorities only bias yields: no thread ever waits
 *          unboundedly for another one, so the perturbation itself cannot deadlock;
 *   mode=3 both.   spur=<permille>: pthread_cond_wait returns spuriously (unlock; yield; lock).
 *
 * Scenario file:  "T <tid>" starts the list of thread <tid>; then one op per line:
 *   put <key> <tag> <len> [sync]      value = tag '|' deterministic padding, total length len
 *   del <key> [sync]
 *   batch <p:key:tag:len|d:key>,... [sync]
 *   get <key>
 *   snap <slot> / sget <slot> <key> / rel <slot>
 *   iter <islot> <slot|->  / iscan <islot>     (iscan walks first..end and destroys the iterator)
 *   flush | crange <level> <begin|-> <end|-> | compact <begin|-> <end|-> | backup <name> | sleep <usec>
 *   holdmutex   (self-test of the watchdog: locks db->mutex for ever)
 * Keys and tags are [A-Za-z0-9_.]+ tokens.
 * Self-tests of the detector: dropsig=<n> suppresses the n-th signal on a writer's condition variable,
 * dropbc=<n> suppresses every broadcast of background_work_finished from the n-th on. */
#include "db_impl.c"
#include "common.h"
#include <pthread.h>
#include <sched.h>
#include <time.h>
#include <stdarg.h>
#include <errno.h>
#include <unistd.h>
#include <fcntl.h>
#include <sys/stat.h>
#include <sys/types.h>

/* ------------------------------------------------------------------ real symbols */
int __real_pthread_mutex_lock(pthread_mutex_t *m);
int __real_pthread_mutex_unlock(pthread_mutex_t *m);
int __real_pthread_cond_wait(pthread_cond_t *c, pthread_mutex_t *m);
int __real_pthread_cond_signal(pthread_cond_t *c);
int __real_pthread_cond_broadcast(pthread_cond_t *c);
int __real_pthread_create(pthread_t *t, const pthread_attr_t *a, void *(*f)(void *), void *arg);
void __real_ldb_batch_set_sequence(ldb_batch_t *batch, ldb__seqnum_t seq);
ssize_t __real_write(int fd, const void *buf, size_t n);
ssize_t __real_read(int fd, void *buf, size_t n);
ssize_t __real_pread(int fd, void *buf, size_t n, off_t off);
int __real_fsync(int fd);
int __real_fdatasync(int fd);
int __real_rename(const char *a, const char *b);
int __real_unlink(const char *p);
int __real_open(const char *path, int flags, ...);

/* ------------------------------------------------------------------ threads */
enum { W_RUN = 0, W_LOCK, W_WAIT, W_DONE, W_IDLE };
static const char *where_name[] = { "running", "mutex_lock", "cond_wait", "finished", "idle-or-joining" };

typedef struct { char *p; size_t n, cap; } sbuf;

typedef struct kth_s {
  int tid;                 /* 0..: scenario threads, 99: main, 100..: threads created by lcdb */
  int used;
  volatile int where;
  const void *volatile obj;
  volatile int alive;
  volatile int prio;
  int holds_db;
  uint64_t rng;
  long steps;
  char *slo, *shi;         /* stack range: maps a ldb_waiter_t (lives on the writer's stack) to its thread */
  volatile int cur_op;     /* opid being executed (-1 none) */
  const char *volatile cur_text;
  volatile int cur_wcount; /* entries of the batch being written by cur_op */
  char **ops; int nops;
  sbuf hist;
  const ldb_snapshot_t *snaps[8];
  ldb_iter_t *iters[8];
  pthread_t handle;
  void *(*start)(void *); void *start_arg;
  int in_get;              /* inside ldb_get: the lockwait perturbation applies to its first acquisition of db->mutex */
} kth_t;

#define MAXTH 64
static kth_t g_th[MAXTH];
static int g_nth = 0;              /* scenario threads */
static volatile int g_nbg = 0;     /* threads created through the wrapper */
static __thread kth_t *me = NULL;

static ldb_t *g_db = NULL;
static pthread_mutex_t *volatile g_dbmutex = NULL;
static pthread_cond_t *volatile g_bgcv = NULL;
static volatile int g_on = 0;
static char g_dir[1024];
static ldb_dbopt_t g_opt;

static volatile long g_clock = 0;
static volatile long g_progress = 0;
static volatile long g_step = 0;

/* parameters */
static uint64_t p_seed = 1;
static int p_mode = 1, p_yield = 60, p_sleep = 15, p_spur = 0, p_abs = 0, p_timeout = 10, p_deadline = 120;
static int p_pct_d = 3, p_pct_k = 4000, p_reopen = 1;
static long g_cp[16];
static char *p_keys = NULL;

static sbuf g_abs;                 /* appended only while holding db->mutex */
static sbuf g_main;                /* lines of the main thread (printed after the thread histories) */
static long g_absn = 0, g_grpn = 0;

static void sb_printf(sbuf *b, const char *fmt, ...) {
  va_list ap; int n;
  if (b->cap - b->n < 512) { b->cap = b->cap ? b->cap * 2 : 8192; b->p = realloc(b->p, b->cap); }
  for (;;) {
    va_start(ap, fmt);
    n = vsnprintf(b->p + b->n, b->cap - b->n, fmt, ap);
    va_end(ap);
    if ((size_t)n < b->cap - b->n) { b->n += n; return; }
    b->cap = b->cap * 2 + n; b->p = realloc(b->p, b->cap);
  }
}

static uint64_t rnd(uint64_t *s) {
  uint64_t z;
  *s += 0x9E3779B97F4A7C15ULL; z = *s;
  z = (z ^ (z >> 30)) * 0xBF58476D1CE4E5B9ULL;
  z = (z ^ (z >> 27)) * 0x94D049BB133111EBULL;
  return z ^ (z >> 31);
}

static void reg_stack(kth_t *t) {
  pthread_attr_t a; void *addr = NULL; size_t sz = 0;
  if (pthread_getattr_np(pthread_self(), &a) == 0) {
    pthread_attr_getstack(&a, &addr, &sz);
    pthread_attr_destroy(&a);
  }
  t->slo = (char *)addr; t->shi = (char *)addr + sz;
}

static int tid_of_addr(const void *p) {
  int i; const char *c = p;
  for (i = 0; i < MAXTH; i++)
    if (g_th[i].used && g_th[i].slo && c >= g_th[i].slo && c < g_th[i].shi) return g_th[i].tid;
  return -1;
}

static kth_t *th_of_tid(int tid) {
  int i;
  for (i = 0; i < MAXTH; i++) if (g_th[i].used && g_th[i].tid == tid) return &g_th[i];
  return NULL;
}

/* ------------------------------------------------------------------ schedule perturbation */
static int higher_runnable(void) {
  int i, p = me->prio;
  for (i = 0; i < MAXTH; i++) {
    kth_t *t = &g_th[i];
    if (t->used && t != me && t->alive && t->where == W_RUN && t->prio > p) return 1;
  }
  return 0;
}

static void short_sleep(long ns) {
  struct timespec ts; ts.tv_sec = 0; ts.tv_nsec = ns; nanosleep(&ts, NULL);
}

static void sched_point(void) {
  long k;
  if (!me || !g_on) return;
  __atomic_add_fetch(&g_progress, 1, __ATOMIC_RELAXED);
  me->steps++;
  k = __atomic_fetch_add(&g_step, 1, __ATOMIC_RELAXED);
  if (p_mode & 2) {
    int i, n;
    for (i = 0; i < p_pct_d - 1 && i < 16; i++)
      if (g_cp[i] == k) me->prio = -(i + 1);      /* change point: drop below every initial priority */
    for (n = 0; n < 60 && higher_runnable(); n++) {
      if (n < 40) sched_yield(); else short_sleep(20000);
    }
  }
  if (p_mode & 1) {
    unsigned r = (unsigned)(rnd(&me->rng) % 1000);
    if (r < (unsigned)p_yield) sched_yield();
    else if (r < (unsigned)(p_yield + p_sleep)) short_sleep(1000 + (long)(rnd(&me->rng) % 200000));
  }
}

/* ------------------------------------------------------------------ abstract-state observation */
static const char *cv_name(const void *cv, char *tmp) {
  int t;
  if (cv == NULL) return "-";
  if (cv == (const void *)g_bgcv) return "bg";
  t = tid_of_addr(cv);
  if (t >= 0) { sprintf(tmp, "w%d", t); return tmp; }
  return "other";
}

/* coverage counters (updated under db->mutex) */
static long n_switch = 0, n_bgdone = 0, n_bgwait = 0, n_wwait = 0, n_grp_multi = 0, n_grp = 0, n_l0max = 0, n_verchg = 0;
static volatile long n_spur = 0, n_dropped = 0;
static uint64_t last_logn = 0; static int last_bgs = 0; static const void *last_ver = NULL;
#define MAXBK 64
static struct { char path[1300]; int tid, opid; } g_backups[MAXBK]; static int g_nbackups = 0;
static int p_preload_mb = 0; /* before the run: this many MB are written into the log only, recovered into many level-0 tables by a reopen with the small write buffer, and the database is reopened once more (see main) */
static int p_lockwait = 0;   /* usec: now and then a thread sleeps right BEFORE it takes db->mutex (a reader that captured something before locking holds it for that long) */
static int p_poolwait = 0;   /* usec: every wait on a condition variable other than the DB's is preceded by a sleep (the waiter holds its mutex): widens the check-then-wait window of the thread pool */
static int p_failsync = 0;   /* fault injection: the n-th fsync/fdatasync of a table file fails with EIO (0 = off) */
static volatile long n_tsync = 0; static unsigned char g_istable[4096];
static volatile long n_logsync = 0; static unsigned char g_islog[4096];   /* fsyncs of write-ahead logs (group-commit durability, C02) */
static int p_dropsig = 0, p_dropbc = 0; static volatile long n_wsig = 0, n_bgbc = 0;

/* REQUIRES: db->mutex held by the calling thread */
static void observe(char how, const void *cv) {
  ldb_t *db = g_db; ldb_waiter_t *w; int first = 1; char tmp[32];
  if (db == NULL) return;
  if (how == 'U' || how == 'W') {
    if (last_logn != 0 && db->logfile_number != last_logn) n_switch++;
    last_logn = db->logfile_number;
    if (last_bgs && !db->background_compaction_scheduled) n_bgdone++;
    last_bgs = db->background_compaction_scheduled;
    if ((long)db->versions->current->files[0].length > n_l0max) n_l0max = (long)db->versions->current->files[0].length;
    if (last_ver != NULL && last_ver != (const void *)db->versions->current) n_verchg++;
    last_ver = db->versions->current;
    if (how == 'W') { if (cv == (const void *)g_bgcv) n_bgwait++; else n_wwait++; }
  }
  if (!p_abs) return;
  sb_printf(&g_abs, "A %ld %d %c q=", g_absn++, me->tid, how);
  for (w = db->writers.head; w != NULL; w = w->next) {
    sb_printf(&g_abs, "%s%d:%d:%d:%d", first ? "" : ",", tid_of_addr(w), w->done, w->sync, w->batch != NULL);
    first = 0;
  }
  if (first) sb_printf(&g_abs, ".");
  sb_printf(&g_abs, " ls=%llx imm=%d bgs=%d bge=%d man=%d sd=%d l0=%d logn=%llu cv=%s\n",
            (unsigned long long)db->versions->last_sequence, db->imm != NULL,
            db->background_compaction_scheduled, db->bg_error, db->manual_compaction != NULL,
            (int)ldb_atomic_load(&db->shutting_down, ldb_order_acquire),
            (int)db->versions->current->files[0].length,
            (unsigned long long)db->logfile_number, cv_name(cv, tmp));
}

/* group commit as built by the queue head; runs under db->mutex */
void __wrap_ldb_batch_set_sequence(ldb_batch_t *batch, ldb__seqnum_t seq) {
  __real_ldb_batch_set_sequence(batch, seq);
  if (me && g_on && me->holds_db && g_db != NULL && g_db->writers.head != NULL) {
    int total = ldb_batch_count(batch), acc = 0, first = 1, nm = 0; ldb_waiter_t *w;
    sb_printf(&g_abs, "GRP %ld leader=%d first=%llx n=%d members=", g_grpn++, me->tid, (unsigned long long)seq, total);
    for (w = g_db->writers.head; w != NULL && acc < total; w = w->next) {
      int c, t; kth_t *th;
      if (w->batch == NULL) continue;
      c = ldb_batch_count(w->batch); t = tid_of_addr(w); th = th_of_tid(t);
      if (acc + c > total) break;
      sb_printf(&g_abs, "%s%d:%d:%d:%d", first ? "" : ",", t, th ? th->cur_op : -1, c, w->sync ? 1 : 0);
      first = 0; acc += c; nm++;
    }
    sb_printf(&g_abs, " lsc=%ld queue=", (long)__atomic_load_n(&n_logsync, __ATOMIC_SEQ_CST));
    first = 1;
    for (w = g_db->writers.head; w != NULL; w = w->next) {      /* the whole writer queue as the leader saw it (Group.v) */
      sb_printf(&g_abs, "%s%d:%lx:%d:%d", first ? "" : ",", tid_of_addr(w), (unsigned long)(w->batch ? ldb_batch_size(w->batch) : 0),
                w->sync ? 1 : 0, w->batch != NULL);
      first = 0;
    }
    sb_printf(&g_abs, "\n");
    n_grp++; if (nm > 1) n_grp_multi++;
  }
}

/* ------------------------------------------------------------------ wrappers */
#define IS_DB(m) ((m) == g_dbmutex && g_dbmutex != NULL)

int __wrap_pthread_mutex_lock(pthread_mutex_t *m) {
  int r;
  if (!me || !g_on) return __real_pthread_mutex_lock(m);
  sched_point();
  if (p_lockwait > 0 && IS_DB(m) && me->in_get == 1 && (rnd(&me->rng) % 2) == 0) {
    struct timespec ts; me->in_get = 2; ts.tv_sec = 0; ts.tv_nsec = (long)p_lockwait * 1000L; nanosleep(&ts, NULL);
  }
  me->obj = m; me->where = W_LOCK;
  r = __real_pthread_mutex_lock(m);
  me->where = W_RUN;
  __atomic_add_fetch(&g_progress, 1, __ATOMIC_RELAXED);
  if (IS_DB(m)) { me->holds_db = 1; observe('L', NULL); }
  return r;
}

int __wrap_pthread_mutex_unlock(pthread_mutex_t *m) {
  int r;
  if (!me || !g_on) return __real_pthread_mutex_unlock(m);
  if (IS_DB(m)) { observe('U', NULL); me->holds_db = 0; }
  r = __real_pthread_mutex_unlock(m);
  sched_point();
  return r;
}

int __wrap_pthread_cond_wait(pthread_cond_t *c, pthread_mutex_t *m) {
  int r, db;
  if (!me || !g_on) return __real_pthread_cond_wait(c, m);
  db = IS_DB(m);
  if (db) { observe('W', c); me->holds_db = 0; }
  __atomic_add_fetch(&g_progress, 1, __ATOMIC_RELAXED);
  if (p_spur > 0 && (int)(rnd(&me->rng) % 1000) < p_spur) {
    /* spurious wake-up (allowed by POSIX): the caller must re-check its predicate */
    __atomic_add_fetch(&n_spur, 1, __ATOMIC_RELAXED);
    __real_pthread_mutex_unlock(m);
    sched_yield();
    me->obj = m; me->where = W_LOCK;
    __real_pthread_mutex_lock(m);
    me->where = W_RUN;
    r = 0;
  } else {
    if (!db && p_poolwait > 0) { struct timespec ts; ts.tv_sec = 0; ts.tv_nsec = (long)p_poolwait * 1000L; nanosleep(&ts, NULL); }
    me->obj = c; me->where = W_WAIT;
    r = __real_pthread_cond_wait(c, m);
    me->where = W_RUN;
  }
  __atomic_add_fetch(&g_progress, 1, __ATOMIC_RELAXED);
  if (db) { me->holds_db = 1; observe('R', c); }
  return r;
}

static void note_signal(char kind, pthread_cond_t *c) {
  char tmp[32];
  if (p_abs && me->holds_db) sb_printf(&g_abs, "E %ld %d %c %s\n", g_absn++, me->tid, kind, cv_name(c, tmp));
}

int __wrap_pthread_cond_signal(pthread_cond_t *c) {
  if (!me || !g_on) return __real_pthread_cond_signal(c);
  sched_point();
  note_signal('S', c);
  if (p_dropsig > 0 && c != g_bgcv && tid_of_addr(c) >= 0 &&
      __atomic_add_fetch(&n_wsig, 1, __ATOMIC_SEQ_CST) == p_dropsig) { n_dropped++; return 0; }  /* self-test: lost wake-up */
  return __real_pthread_cond_signal(c);
}

int __wrap_pthread_cond_broadcast(pthread_cond_t *c) {
  if (!me || !g_on) return __real_pthread_cond_broadcast(c);
  sched_point();
  note_signal('B', c);
  /* self-test: a lost wake-up of a writer, whichever primitive the library uses to wake it */
  if (p_dropsig > 0 && c != g_bgcv && tid_of_addr(c) >= 0 &&
      __atomic_add_fetch(&n_wsig, 1, __ATOMIC_SEQ_CST) == p_dropsig) { n_dropped++; return 0; }
  if (p_dropbc > 0 && c == g_bgcv &&
      __atomic_add_fetch(&n_bgbc, 1, __ATOMIC_SEQ_CST) >= p_dropbc) { n_dropped++; return 0; }  /* self-test: lost broadcasts */
  return __real_pthread_cond_broadcast(c);
}

static pthread_mutex_t g_reg = PTHREAD_MUTEX_INITIALIZER;

static kth_t *alloc_thread(int tid) {
  int i; kth_t *t = NULL;
  __real_pthread_mutex_lock(&g_reg);
  for (i = 0; i < MAXTH; i++) if (!g_th[i].used) { t = &g_th[i]; break; }
  if (t) {
    memset(t, 0, sizeof(*t));
    t->tid = tid; t->where = W_IDLE; t->cur_op = -1; t->cur_text = "";
    t->rng = p_seed * 0x9E3779B97F4A7C15ULL + (uint64_t)tid * 0xD1B54A32D192ED03ULL + 12345;
    t->prio = 1 + (int)(rnd(&t->rng) % 1000);
    t->used = 1;
  }
  __real_pthread_mutex_unlock(&g_reg);
  return t;
}

static void *tramp(void *arg) {
  kth_t *t = arg; void *r;
  me = t; reg_stack(t); t->alive = 1; t->where = W_RUN;
  r = t->start(t->start_arg);
  t->where = W_DONE; t->alive = 0;
  return r;
}

int __wrap_pthread_create(pthread_t *th, const pthread_attr_t *a, void *(*f)(void *), void *arg) {
  kth_t *t;
  if (!me || !g_on) return __real_pthread_create(th, a, f, arg);
  sched_point();
  t = alloc_thread(100 + __atomic_fetch_add(&g_nbg, 1, __ATOMIC_SEQ_CST));
  if (!t) return __real_pthread_create(th, a, f, arg);
  t->start = f; t->start_arg = arg;
  return __real_pthread_create(th, a, tramp, t);
}

ssize_t __wrap_write(int fd, const void *buf, size_t n) { sched_point(); return __real_write(fd, buf, n); }
ssize_t __wrap_read(int fd, void *buf, size_t n) { sched_point(); return __real_read(fd, buf, n); }
ssize_t __wrap_pread(int fd, void *buf, size_t n, off_t off) { sched_point(); return __real_pread(fd, buf, n, off); }
static int fail_this_sync(int fd) {
  if (g_on && p_failsync > 0 && fd >= 0 && fd < 4096 && g_istable[fd] &&
      __atomic_add_fetch(&n_tsync, 1, __ATOMIC_SEQ_CST) == p_failsync) { errno = EIO; return 1; }
  return 0;
}
static void note_sync(int fd, int r) { if (r == 0 && fd >= 0 && fd < 4096 && g_islog[fd]) __atomic_add_fetch(&n_logsync, 1, __ATOMIC_SEQ_CST); }
int __wrap_fsync(int fd) { int r; sched_point(); if (fail_this_sync(fd)) return -1; r = __real_fsync(fd); note_sync(fd, r); return r; }
int __wrap_fdatasync(int fd) { int r; sched_point(); if (fail_this_sync(fd)) return -1; r = __real_fdatasync(fd); note_sync(fd, r); return r; }
int __wrap_rename(const char *a, const char *b) { sched_point(); return __real_rename(a, b); }
int __wrap_unlink(const char *p) { sched_point(); return __real_unlink(p); }
int __wrap_open(const char *path, int flags, ...) {
  mode_t mode = 0; va_list ap;
  if (flags & O_CREAT) { va_start(ap, flags); mode = va_arg(ap, int); va_end(ap); }
  sched_point();
  {
    int fd = __real_open(path, flags, mode); size_t n = strlen(path);
    if (fd >= 0 && fd < 4096) g_istable[fd] = (n > 4 && !strcmp(path + n - 4, ".ldb") && (flags & (O_WRONLY | O_RDWR))) ? 1 : 0;
    if (fd >= 0 && fd < 4096) g_islog[fd] = (n > 4 && !strcmp(path + n - 4, ".log") && (flags & (O_WRONLY | O_RDWR))) ? 1 : 0;
    return fd;
  }
}

/* ------------------------------------------------------------------ values */
static uint8_t pad_byte(unsigned h, size_t i) { return (uint8_t)((h + i * 7 + (i >> 8)) & 255); }
static unsigned tag_hash(const char *tag, size_t n) {
  unsigned h = 2166136261u; size_t i;
  for (i = 0; i < n; i++) h = (h ^ (uint8_t)tag[i]) * 16777619u;
  return h;
}
static uint8_t *make_value(const char *tag, size_t len, size_t *outlen) {
  size_t tl = strlen(tag), i; unsigned h = tag_hash(tag, tl); uint8_t *p;
  if (len < tl + 1) len = tl + 1;
  p = malloc(len);
  memcpy(p, tag, tl); p[tl] = '|';
  for (i = tl + 1; i < len; i++) p[i] = pad_byte(h, i);
  *outlen = len;
  return p;
}
/* prints "tag:len" or "corrupt" */
static void sb_value(sbuf *b, const uint8_t *p, size_t n) {
  const uint8_t *bar = n ? memchr(p, '|', n) : NULL; size_t tl, i; unsigned h;
  if (!bar || bar == p || (size_t)(bar - p) > 40) { sb_printf(b, "corrupt(len=%lu)", (unsigned long)n); return; }
  tl = bar - p; h = tag_hash((const char *)p, tl);
  for (i = 0; i < tl; i++) {
    int c = p[i];
    if (!((c >= 'a' && c <= 'z') || (c >= 'A' && c <= 'Z') || (c >= '0' && c <= '9') || c == '_' || c == '.')) {
      sb_printf(b, "corrupt(tag)"); return;
    }
  }
  for (i = tl + 1; i < n; i++) if (p[i] != pad_byte(h, i)) { sb_printf(b, "corrupt(%.*s@%lu)", (int)tl, p, (unsigned long)i); return; }
  sb_printf(b, "%.*s:%lu", (int)tl, p, (unsigned long)n);
}

/* ------------------------------------------------------------------ operations */
static long tick(void) { long c = __atomic_add_fetch(&g_clock, 1, __ATOMIC_SEQ_CST); __atomic_add_fetch(&g_progress, 1, __ATOMIC_RELAXED); return c; }

static ldb_slice_t sl(const char *s) { return ldb_slice((const uint8_t *)s, strlen(s)); }

static int parse_batch(ldb_batch_t *b, const char *spec) {
  const char *p = spec; int n = 0;
  while (*p) {
    const char *e = strchr(p, ','); size_t len = e ? (size_t)(e - p) : strlen(p);
    char item[256]; char *f[4]; int nf = 0; char *q;
    if (len >= sizeof(item)) return -1;
    memcpy(item, p, len); item[len] = 0;
    for (q = item; nf < 4; ) { f[nf++] = q; q = strchr(q, ':'); if (!q) break; *q++ = 0; }
    if (f[0][0] == 'p' && nf == 4) {
      size_t vl; uint8_t *v = make_value(f[2], strtoul(f[3], NULL, 10), &vl);
      ldb_slice_t ks = sl(f[1]), vs = ldb_slice(v, vl);
      ldb_batch_put(b, &ks, &vs); free(v); n++;
    } else if (f[0][0] == 'd' && nf == 2) {
      ldb_slice_t ks = sl(f[1]); ldb_batch_del(b, &ks); n++;
    } else return -1;
    if (!e) break;
    p = e + 1;
  }
  return n;
}

static void scan_iter(sbuf *b, ldb_iter_t *it) {
  int first = 1;
  for (ldb_iter_first(it); ldb_iter_valid(it); ldb_iter_next(it)) {
    ldb_slice_t k = ldb_iter_key(it), v = ldb_iter_value(it);
    sb_printf(b, "%s%.*s=", first ? "" : ",", (int)k.size, (const char *)k.data);
    sb_value(b, v.data, v.size);
    first = 0;
  }
  if (first) sb_printf(b, ".");
  sb_printf(b, " status=%d", ldb_iter_status(it));
}

static void run_op(kth_t *t, int opid, char *line) {
  char *a[8]; char text[4096]; int n; long c; sbuf *h = &t->hist;
  snprintf(text, sizeof(text), "%s", line);
  n = split_line(line, a, 8);
  if (n == 0) return;
  t->cur_text = a[0];
  if (!strcmp(a[0], "sleep")) { short_sleep(1000L * atol(n > 1 ? a[1] : "100")); return; }
  t->cur_wcount = 0;
  t->cur_op = opid;
  c = tick();
  sb_printf(h, "INV %d %d %ld %s\n", t->tid, opid, c, text);
  if (!strcmp(a[0], "put") && n >= 4) {
    size_t vl; uint8_t *v = make_value(a[2], strtoul(a[3], NULL, 10), &vl);
    ldb_slice_t ks = sl(a[1]), vs = ldb_slice(v, vl); int rc;
    ldb_writeopt_t wo = *ldb_writeopt_default; wo.sync = (n >= 5 && !strcmp(a[4], "sync"));
    t->cur_wcount = 1;
    rc = ldb_put(g_db, &ks, &vs, &wo);
    c = tick(); sb_printf(h, "RET %d %d %ld %d\n", t->tid, opid, c, rc); free(v);
  } else if (!strcmp(a[0], "del") && n >= 2) {
    ldb_slice_t ks = sl(a[1]); int rc;
    ldb_writeopt_t wo = *ldb_writeopt_default; wo.sync = (n >= 3 && !strcmp(a[2], "sync"));
    t->cur_wcount = 1;
    rc = ldb_del(g_db, &ks, &wo);
    c = tick(); sb_printf(h, "RET %d %d %ld %d\n", t->tid, opid, c, rc);
  } else if (!strcmp(a[0], "batch") && n >= 2) {
    ldb_batch_t b; int rc, cnt; ldb_writeopt_t wo = *ldb_writeopt_default;
    wo.sync = (n >= 3 && !strcmp(a[2], "sync"));
    ldb_batch_init(&b);
    cnt = parse_batch(&b, a[1]);
    if (cnt < 0) { fprintf(stderr, "bad batch spec: %s\n", text); exit(2); }
    t->cur_wcount = cnt;
    rc = ldb_write(g_db, &b, &wo);
    c = tick(); sb_printf(h, "RET %d %d %ld %d\n", t->tid, opid, c, rc);
    ldb_batch_clear(&b);
  } else if ((!strcmp(a[0], "get") && n >= 2) || (!strcmp(a[0], "sget") && n >= 3)) {
    int snap = a[0][0] == 's'; const char *key = snap ? a[2] : a[1];
    ldb_slice_t ks = sl(key), val; int rc; ldb_readopt_t ro = *ldb_readopt_default;
    if (snap) ro.snapshot = t->snaps[atoi(a[1]) & 7];
    t->in_get = snap ? 0 : 1;
    rc = ldb_get(g_db, &ks, &val, &ro);
    t->in_get = 0;
    c = tick();
    sb_printf(h, "RET %d %d %ld ", t->tid, opid, c);
    if (rc == LDB_OK) { sb_value(h, val.data, val.size); ldb_free(val.data); }
    else if (rc == LDB_NOTFOUND) sb_printf(h, "notfound");
    else sb_printf(h, "err%d", rc);
    sb_printf(h, "\n");
  } else if (!strcmp(a[0], "snap") && n >= 2) {
    int s = atoi(a[1]) & 7; const ldb_snapshot_t *sn;
    if (t->snaps[s]) ldb_release(g_db, t->snaps[s]);
    sn = ldb_snapshot(g_db); t->snaps[s] = sn;
    c = tick(); sb_printf(h, "RET %d %d %ld seq=%llx\n", t->tid, opid, c, (unsigned long long)sn->sequence);
  } else if (!strcmp(a[0], "rel") && n >= 2) {
    int s = atoi(a[1]) & 7;
    if (t->snaps[s]) { ldb_release(g_db, t->snaps[s]); t->snaps[s] = NULL; }
    c = tick(); sb_printf(h, "RET %d %d %ld 0\n", t->tid, opid, c);
  } else if (!strcmp(a[0], "iter") && n >= 3) {
    int i = atoi(a[1]) & 7; ldb_readopt_t ro = *ldb_iteropt_default;
    if (a[2][0] != '-') ro.snapshot = t->snaps[atoi(a[2]) & 7];
    if (t->iters[i]) ldb_iter_destroy(t->iters[i]);
    t->iters[i] = ldb_iterator(g_db, &ro);
    c = tick(); sb_printf(h, "RET %d %d %ld 0\n", t->tid, opid, c);
  } else if (!strcmp(a[0], "iscan") && n >= 2) {
    int i = atoi(a[1]) & 7;
    if (t->iters[i]) {
      sbuf tmp; memset(&tmp, 0, sizeof(tmp));
      scan_iter(&tmp, t->iters[i]);
      ldb_iter_destroy(t->iters[i]); t->iters[i] = NULL;
      c = tick(); sb_printf(h, "RET %d %d %ld %s\n", t->tid, opid, c, tmp.p ? tmp.p : "");
      free(tmp.p);
    } else { c = tick(); sb_printf(h, "RET %d %d %ld noiter\n", t->tid, opid, c); }
  } else if (!strcmp(a[0], "flush")) {
    int rc = ldb_test_compact_memtable(g_db);
    c = tick(); sb_printf(h, "RET %d %d %ld %d\n", t->tid, opid, c, rc);
  } else if (!strcmp(a[0], "crange") && n >= 4) {
    ldb_slice_t b = sl(a[2]), e = sl(a[3]);
    ldb_test_compact_range(g_db, atoi(a[1]), a[2][0] == '-' ? NULL : &b, a[3][0] == '-' ? NULL : &e);
    c = tick(); sb_printf(h, "RET %d %d %ld 0\n", t->tid, opid, c);
  } else if (!strcmp(a[0], "compact") && n >= 3) {
    ldb_slice_t b = sl(a[1]), e = sl(a[2]);
    ldb_compact(g_db, a[1][0] == '-' ? NULL : &b, a[2][0] == '-' ? NULL : &e);
    c = tick(); sb_printf(h, "RET %d %d %ld 0\n", t->tid, opid, c);
  } else if (!strcmp(a[0], "backup") && n >= 2) {
    char path[1200]; int rc;
    snprintf(path, sizeof(path), "%s_bk_%s", g_dir, a[1]);
    rc = ldb_backup(g_db, path);
    c = tick(); sb_printf(h, "RET %d %d %ld %d\n", t->tid, opid, c, rc);
    if (rc == LDB_OK) {
      int slot = __atomic_fetch_add(&g_nbackups, 1, __ATOMIC_SEQ_CST);
      if (slot < MAXBK) { snprintf(g_backups[slot].path, sizeof(g_backups[slot].path), "%s", path); g_backups[slot].tid = t->tid; g_backups[slot].opid = opid; }
    }
  } else if (!strcmp(a[0], "holdmutex")) {
    /* self-test of the watchdog: take db->mutex and never release it */
    ldb_mutex_lock(&g_db->mutex);
    c = tick(); sb_printf(h, "RET %d %d %ld 0\n", t->tid, opid, c);
  } else {
    fprintf(stderr, "bad op: %s\n", text); exit(2);
  }
  t->cur_op = -1;
}

static pthread_barrier_t g_start;

static void *thread_main(void *arg) {
  kth_t *t = arg; int i;
  me = t; reg_stack(t);
  t->alive = 1; t->where = W_RUN;
  pthread_barrier_wait(&g_start);
  for (i = 0; i < t->nops; i++) run_op(t, i, t->ops[i]);
  /* release what the scenario left open (iterators before snapshots) */
  for (i = 0; i < 8; i++) if (t->iters[i]) { ldb_iter_destroy(t->iters[i]); t->iters[i] = NULL; }
  for (i = 0; i < 8; i++) if (t->snaps[i]) { ldb_release(g_db, t->snaps[i]); t->snaps[i] = NULL; }
  t->cur_text = "";
  t->where = W_DONE; t->alive = 0;
  __atomic_add_fetch(&g_progress, 1, __ATOMIC_RELAXED);
  return NULL;
}

/* ------------------------------------------------------------------ output + watchdog */
static volatile int g_finished = 0;
static const char *volatile g_phase = "init";

static void dump_all(void) {
  int i;
  for (i = 0; i < MAXTH; i++) if (g_th[i].used && g_th[i].hist.n) fwrite(g_th[i].hist.p, 1, g_th[i].hist.n, stdout);
  if (g_abs.n) fwrite(g_abs.p, 1, g_abs.n, stdout);
  if (g_main.n) fwrite(g_main.p, 1, g_main.n, stdout);
}

static const char *obj_name(const void *o, char *tmp) {
  int t;
  if (o == NULL) return "-";
  if (o == (const void *)g_dbmutex) return "db.mutex";
  if (o == (const void *)g_bgcv) return "db.background_work_finished_signal";
  t = tid_of_addr(o);
  if (t >= 0) { sprintf(tmp, "writer%d.cv", t); return tmp; }
  return "other(pool/cache)";
}

static void report_stuck(const char *why) {
  int i; char tmp[64];
  g_on = 0;
  dump_all();
  printf("STUCK phase=%s reason=%s clock=%ld\n", g_phase, why, g_clock);
  for (i = 0; i < MAXTH; i++) {
    kth_t *t = &g_th[i];
    if (!t->used) continue;
    printf("STUCK-THREAD tid=%d in=%s obj=%s op=%d:%s\n", t->tid, where_name[t->where],
           t->where == W_LOCK || t->where == W_WAIT ? obj_name(t->obj, tmp) : "-", t->cur_op, t->cur_text ? t->cur_text : "");
  }
  fflush(stdout);
  _exit(3);
}

static void *monitor(void *arg) {
  long last = -1; int idle_ms = 0, total_ms = 0;
  (void)arg;
  while (!g_finished) {
    struct timespec ts; long p;
    ts.tv_sec = 0; ts.tv_nsec = 20000000; nanosleep(&ts, NULL);
    total_ms += 20;
    p = g_progress;
    if (p == last) idle_ms += 20; else { idle_ms = 0; last = p; }
    if (idle_ms >= p_timeout * 1000) report_stuck("no-progress");
    if (total_ms >= p_deadline * 1000) report_stuck("deadline");
  }
  return NULL;
}

/* ------------------------------------------------------------------ scenario */
static void load_scenario(const char *path) {
  FILE *f = fopen(path, "r"); char *line = NULL; size_t cap = 0; kth_t *cur = NULL; int capops = 0;
  if (!f) { perror(path); exit(2); }
  while (getline(&line, &cap, f) > 0) {
    size_t l = strlen(line);
    while (l && (line[l - 1] == '\n' || line[l - 1] == '\r' || line[l - 1] == ' ')) line[--l] = 0;
    if (l == 0 || line[0] == '#') continue;
    if (line[0] == 'T' && line[1] == ' ') {
      cur = alloc_thread(atoi(line + 2));
      if (!cur) { fprintf(stderr, "too many threads\n"); exit(2); }
      g_nth++; capops = 0;
      continue;
    }
    if (!cur) { fprintf(stderr, "op before T\n"); exit(2); }
    if (cur->nops == capops) { capops = capops ? capops * 2 : 32; cur->ops = realloc(cur->ops, capops * sizeof(char *)); }
    cur->ops[cur->nops++] = strdup(line);
  }
  free(line); fclose(f);
}

static void parse_params(int argc, char **argv) {
  int i;
  g_opt = *ldb_dbopt_default;
  g_opt.create_if_missing = 1;
  g_opt.compression = LDB_NO_COMPRESSION;
  g_opt.write_buffer_size = 64 * 1024;
  for (i = 3; i < argc; i++) {
    char *eq = strchr(argv[i], '='); long v;
    if (!eq) continue;
    *eq = 0; v = strtol(eq + 1, NULL, 10);
    if (!strcmp(argv[i], "seed")) p_seed = strtoull(eq + 1, NULL, 10);
    else if (!strcmp(argv[i], "mode")) p_mode = v;
    else if (!strcmp(argv[i], "yield")) p_yield = v;
    else if (!strcmp(argv[i], "sleep")) p_sleep = v;
    else if (!strcmp(argv[i], "spur")) p_spur = v;
    else if (!strcmp(argv[i], "abs")) p_abs = v;
    else if (!strcmp(argv[i], "timeout")) p_timeout = v;
    else if (!strcmp(argv[i], "deadline")) p_deadline = v;
    else if (!strcmp(argv[i], "pct_d")) p_pct_d = v;
    else if (!strcmp(argv[i], "pct_k")) p_pct_k = v;
    else if (!strcmp(argv[i], "reopen")) p_reopen = v;
    else if (!strcmp(argv[i], "failsync")) p_failsync = v;
    else if (!strcmp(argv[i], "poolwait")) p_poolwait = v;
    else if (!strcmp(argv[i], "lockwait")) p_lockwait = v;
    else if (!strcmp(argv[i], "preload_mb")) p_preload_mb = v;
    else if (!strcmp(argv[i], "reuse_logs")) g_opt.reuse_logs = v;
    else if (!strcmp(argv[i], "dropsig")) p_dropsig = v;
    else if (!strcmp(argv[i], "dropbc")) p_dropbc = v;
    else if (!strcmp(argv[i], "keys")) p_keys = strdup(eq + 1);
    else if (!strcmp(argv[i], "write_buffer")) g_opt.write_buffer_size = v;
    else if (!strcmp(argv[i], "max_file_size")) g_opt.max_file_size = v;
    else if (!strcmp(argv[i], "block_size")) g_opt.block_size = v;
    else if (!strcmp(argv[i], "mmap")) g_opt.use_mmap = v;
    else if (!strcmp(argv[i], "compression")) g_opt.compression = v ? LDB_SNAPPY_COMPRESSION : LDB_NO_COMPRESSION;
    else if (!strcmp(argv[i], "paranoid")) g_opt.paranoid_checks = v;
  }
}

/* every successful ldb_backup of the run is opened after the close and dumped: BACKUP <tid> <opid> rc=<open rc> <scan> */
static void dump_backups(void) {
  int i, n = g_nbackups < MAXBK ? g_nbackups : MAXBK;
  for (i = 0; i < n; i++) {
    ldb_dbopt_t o = g_opt; ldb_t *db = NULL; int rc;
    o.create_if_missing = 0; o.paranoid_checks = 1;
    rc = ldb_open(g_backups[i].path, &o, &db);
    if (rc != LDB_OK) { sb_printf(&g_main, "BACKUP %d %d rc=%d . status=-1\n", g_backups[i].tid, g_backups[i].opid, rc); continue; }
    {
      ldb_iter_t *it = ldb_iterator(db, NULL); sbuf b; memset(&b, 0, sizeof(b));
      scan_iter(&b, it); ldb_iter_destroy(it);
      sb_printf(&g_main, "BACKUP %d %d rc=0 %s\n", g_backups[i].tid, g_backups[i].opid, b.p ? b.p : ""); free(b.p);
    }
    ldb_close(db);
  }
}

static void final_dump(const char *label) {
  ldb_iter_t *it = ldb_iterator(g_db, NULL); sbuf b; memset(&b, 0, sizeof(b));
  scan_iter(&b, it); ldb_iter_destroy(it);
  sb_printf(&g_main, "%s %s\n", label, b.p ? b.p : ""); free(b.p);
}

static void final_gets(void) {
  sbuf b; char *p, *save = NULL, *dup;
  memset(&b, 0, sizeof(b));
  if (!p_keys) { sb_printf(&g_main, "FINALGET .\n"); return; }
  dup = strdup(p_keys);
  for (p = strtok_r(dup, ",", &save); p; p = strtok_r(NULL, ",", &save)) {
    ldb_slice_t ks = sl(p), val; int rc = ldb_get(g_db, &ks, &val, NULL);
    sb_printf(&b, ",%s=", p);
    if (rc == LDB_OK) { sb_value(&b, val.data, val.size); ldb_free(val.data); }
    else if (rc == LDB_NOTFOUND) sb_printf(&b, "notfound");
    else sb_printf(&b, "err%d", rc);
  }
  sb_printf(&g_main, "FINALGET %s\n", b.p ? b.p + 1 : "."); free(b.p); free(dup);
}

int main(int argc, char **argv) {
  int i, rc; kth_t *mt; pthread_t mon; long c;
  if (argc < 3) { fprintf(stderr, "usage: k8 <dbdir> <scenario> [k=v...]\n"); return 2; }
  snprintf(g_dir, sizeof(g_dir), "%s", argv[1]);
  parse_params(argc, argv);
  setvbuf(stdout, NULL, _IOFBF, 1 << 20);
  load_scenario(argv[2]);
  {
    uint64_t r = p_seed ^ 0xABCDEF1234567ULL;
    for (i = 0; i < 16; i++) g_cp[i] = (long)(rnd(&r) % (uint64_t)(p_pct_k > 0 ? p_pct_k : 1));
  }
  mt = alloc_thread(99); me = mt; reg_stack(mt); mt->alive = 1; mt->where = W_RUN; mt->prio = 500;
  if (p_preload_mb > 0) {
    /* many level-0 tables at open: (1) p_preload_mb MB go into the write-ahead log only (64 MiB buffer), (2) a reopen with the
       run's small buffer makes recovery spill one level-0 table per buffer-full, closed at once, (3) the run's own open follows
       (with reuse_logs=1 nothing is written by it): whoever must schedule the pending compaction has to do so */
    ldb_dbopt_t o = g_opt; ldb_t *d0 = NULL; int j; char kb[32]; char *vb = malloc(100000);
    o.write_buffer_size = 64 << 20; o.reuse_logs = 0;
    rc = ldb_open(g_dir, &o, &d0);
    if (rc != LDB_OK) { printf("OPEN-FAILED %d\n", rc); return 4; }
    memset(vb, 'p', 100000);
    for (j = 0; j < p_preload_mb * 10; j++) {
      ldb_slice_t k, v; sprintf(kb, "zpre%05d", j); k = ldb_slice(kb, strlen(kb)); v = ldb_slice(vb, 100000);
      ldb_put(d0, &k, &v, NULL);
    }
    free(vb); ldb_close(d0);
    o = g_opt; o.reuse_logs = 0; d0 = NULL;
    rc = ldb_open(g_dir, &o, &d0);
    if (rc != LDB_OK) { printf("OPEN-FAILED %d\n", rc); return 4; }
    ldb_close(d0);
  }
  rc = ldb_open(g_dir, &g_opt, &g_db);
  if (rc != LDB_OK) { printf("OPEN-FAILED %d\n", rc); return 4; }
  g_dbmutex = &g_db->mutex.handle;
  g_bgcv = &g_db->background_work_finished_signal.handle;
  __real_pthread_create(&mon, NULL, monitor, NULL);
  pthread_barrier_init(&g_start, NULL, g_nth + 1);
  g_on = 1;
  g_phase = "run";
  for (i = 0; i < MAXTH; i++)
    if (g_th[i].used && g_th[i].tid < 99) __real_pthread_create(&g_th[i].handle, NULL, thread_main, &g_th[i]);
  pthread_barrier_wait(&g_start);
  mt->where = W_IDLE;   /* main is only joining: not a runnable competitor for PCT */
  for (i = 0; i < MAXTH; i++)
    if (g_th[i].used && g_th[i].tid < 99) pthread_join(g_th[i].handle, NULL);
  mt->where = W_RUN;
  g_phase = "final";
  sb_printf(&g_main, "JOINED %ld lsc=%ld\n", g_clock, (long)n_logsync);
  final_dump("FINAL");
  final_gets();
  g_phase = "close";
  mt->cur_text = "close";
  c = tick(); sb_printf(&g_main, "INV 99 0 %ld close\n", c);
  ldb_close(g_db);
  g_dbmutex = NULL; g_bgcv = NULL; g_db = NULL;
  c = tick(); sb_printf(&g_main, "RET 99 0 %ld 0\n", c);
  sb_printf(&g_main, "CLOSED\n");
  g_on = 0;
  dump_backups();
  if (p_reopen) {
    g_phase = "reopen";
    rc = ldb_open(g_dir, &g_opt, &g_db);
    if (rc != LDB_OK) sb_printf(&g_main, "REOPEN-FAILED %d\n", rc);
    else { final_dump("REOPEN"); ldb_close(g_db); g_db = NULL; }
  }
  g_finished = 1;
  pthread_join(mon, NULL);
  dump_all();
  printf("DONE threads=%d bg=%d steps=%ld groups=%ld multi=%ld switches=%ld bgdone=%ld bgwait=%ld wwait=%ld l0max=%ld versions=%ld spurious=%ld\n",
         g_nth, g_nbg, g_step, n_grp, n_grp_multi, n_switch, n_bgdone, n_bgwait, n_wwait, n_l0max, n_verchg, n_spur);
  fflush(stdout);
  return 0;
}
