/* k1_table.h -- K1 commands for the SSTable layer (blocks, bloom/filter block,
 * Snappy, table builder/reader).  Same line protocol as ocaml/cmd_table.ml.
 * Hand-written glue: conversions and calls into lcdb only.
 *
 * entries:  k=v,k=v,...   ("." = none; k, v are byte-string arguments)
 * script:   F | L | S<bytes> | N | P  comma separated ("." = empty)
 * opts:     block_size,restart_interval,compression,filter_bits,comparator,
 *           paranoid_checks,verify_checksums,cache,mmap   (hex numbers)
 * status:   ok | corruption | ioerr (LDB_IOERR, EINVAL, ENOMEM) | rc<n>
 * Table files live in $K1_TMPDIR (default /tmp). */
#ifndef VERIF_K1_TABLE_H
#define VERIF_K1_TABLE_H
#include <errno.h>
#include <unistd.h>
#include "util/bloom.h"
#include "util/cache.h"
#include "util/comparator.h"
#include "util/env.h"
#include "util/hash.h"
#include "util/options.h"
#include "util/snappy.h"
#include "table/block.h"
#include "table/block_builder.h"
#include "table/filter_block.h"
#include "table/format.h"
#include "table/iterator.h"
#include "table/table.h"
#include "table/table_builder.h"
#include "dbformat.h"

static const char *kt_status(int rc) {
  static char buf[32];
  if (rc == LDB_OK) return "ok";
  if (rc == LDB_CORRUPTION) return "corruption";
  if (rc == LDB_IOERR || rc == EINVAL || rc == ENOMEM) return "ioerr";
  sprintf(buf, "rc%d", rc);
  return buf;
}

/* exact-size copy so that a sanitizer sees reads past the end */
static uint8_t *kt_exact(const vbytes *b) {
  uint8_t *p = malloc(b->n ? b->n : 1);
  if (b->n) memcpy(p, b->p, b->n);
  return p;
}

typedef struct { vbytes *k, *v; size_t n; } kt_entries;

static kt_entries kt_parse_entries(const char *s) {
  kt_entries e; size_t cap = 16; const char *p = s;
  e.k = malloc(cap * sizeof(vbytes)); e.v = malloc(cap * sizeof(vbytes)); e.n = 0;
  if (s[0] == '.' && s[1] == 0) return e;
  for (;;) {
    const char *c = strchr(p, ',');
    size_t len = c ? (size_t)(c - p) : strlen(p);
    const char *q = memchr(p, '=', len);
    if (e.n == cap) { cap *= 2; e.k = realloc(e.k, cap * sizeof(vbytes)); e.v = realloc(e.v, cap * sizeof(vbytes)); }
    if (!q) { fprintf(stderr, "bad entry\n"); exit(2); }
    e.k[e.n] = parse_bytes_n(p, (size_t)(q - p));
    e.v[e.n] = parse_bytes_n(q + 1, len - (size_t)(q - p) - 1);
    e.n++;
    if (!c) break;
    p = c + 1;
  }
  return e;
}
static void kt_free_entries(kt_entries e) {
  size_t i; for (i = 0; i < e.n; i++) { free(e.k[i].p); free(e.v[i].p); }
  free(e.k); free(e.v);
}

static void kt_put_kv(const ldb_slice_t *k, const ldb_slice_t *v) {
  put_hex(stdout, k->data, k->size); putchar('='); put_hex(stdout, v->data, v->size);
}

/* ---- comparators / policies ---- */
static ldb_comparator_t kt_ikc; static int kt_ikc_ready = 0;
static const ldb_comparator_t *kt_cmp(int id) {
  if (id == 0) return ldb_bytewise_comparator;
  if (!kt_ikc_ready) { ldb_ikc_init(&kt_ikc, ldb_bytewise_comparator); kt_ikc_ready = 1; }
  return &kt_ikc;
}
typedef struct { ldb_bloom_t *user; ldb_bloom_t ifp; const ldb_bloom_t *policy; } kt_policy;
static void kt_policy_init(kt_policy *p, int cmp, int bits) {
  p->user = NULL; p->policy = NULL;
  if (bits > 0) {
    p->user = ldb_bloom_create(bits);
    if (cmp) { ldb_ifp_init(&p->ifp, p->user); p->policy = &p->ifp; }
    else p->policy = p->user;
  }
}
static void kt_policy_clear(kt_policy *p) { if (p->user) ldb_bloom_destroy(p->user); }

/* ---- iterator scripts ---- */
static void kt_run_script(ldb_iter_t *it, const char *script) {
  const char *p = script; int first = 1;
  if (!(script[0] == '.' && script[1] == 0)) {
    for (;;) {
      const char *c = strchr(p, ',');
      size_t len = c ? (size_t)(c - p) : strlen(p);
      switch (p[0]) {
        case 'F': ldb_iter_first(it); break;
        case 'L': ldb_iter_last(it); break;
        case 'N': if (ldb_iter_valid(it)) ldb_iter_next(it); break;
        case 'P': if (ldb_iter_valid(it)) ldb_iter_prev(it); break;
        case 'S': {
          vbytes t = parse_bytes_n(p + 1, len - 1); uint8_t *tp = kt_exact(&t);
          ldb_slice_t ts = ldb_slice(tp, t.n);
          ldb_iter_seek(it, &ts); free(tp); free(t.p); break;
        }
        default: fprintf(stderr, "bad script op\n"); exit(2);
      }
      if (!first) putchar(',');
      first = 0;
      if (ldb_iter_valid(it)) {
        ldb_slice_t k = ldb_iter_key(it), v = ldb_iter_value(it);
        kt_put_kv(&k, &v);
      } else putchar('!');
      if (!c) break;
      p = c + 1;
    }
  }
  if (first) putchar('.');
  printf(" %s", kt_status(ldb_iter_status(it)));
}

/* ---- blocks ---- */
static void kt_block_build(char **a) {
  ldb_dbopt_t opt = *ldb_dbopt_default; ldb_blockgen_t bb; kt_entries e = kt_parse_entries(a[2]);
  ldb_slice_t out; size_t i;
  opt.comparator = ldb_bytewise_comparator;
  opt.block_restart_interval = (int)parse_num(a[1]);
  ldb_blockgen_init(&bb, &opt);
  for (i = 0; i < e.n; i++) {
    ldb_slice_t k = ldb_slice(e.k[i].p, e.k[i].n), v = ldb_slice(e.v[i].p, e.v[i].n);
    ldb_blockgen_add(&bb, &k, &v);
  }
  printf("%lx ", (unsigned long)ldb_blockgen_size_estimate(&bb));
  out = ldb_blockgen_finish(&bb);
  put_hex(stdout, out.data, out.size);
  ldb_blockgen_clear(&bb); kt_free_entries(e);
}

static void kt_block_iter(char **a) {
  vbytes b = parse_bytes(a[2]); uint8_t *data = kt_exact(&b);
  ldb_contents_t c; ldb_block_t block; ldb_iter_t *it;
  c.data = ldb_slice(data, b.n); c.cachable = 0; c.heap_allocated = 0;
  ldb_block_init(&block, &c);
  it = ldb_blockiter_create(&block, kt_cmp((int)parse_num(a[1])));
  kt_run_script(it, a[3]);
  ldb_iter_destroy(it);
  free(data); free(b.p);
}

/* ---- bloom / filter block ---- */
static void kt_bloom_build(char **a) {
  ldb_bloom_t *bl = ldb_bloom_create((int)parse_num(a[1])); vlist l = parse_list(a[2]);
  ldb_slice_t *keys = malloc((l.n + 1) * sizeof(ldb_slice_t)); ldb_buffer_t dst; size_t i;
  for (i = 0; i < l.n; i++) keys[i] = ldb_slice(l.v[i].p, l.v[i].n);
  ldb_buffer_init(&dst);
  ldb_bloom_build(bl, &dst, keys, l.n);
  put_hex(stdout, dst.data, dst.size);
  ldb_buffer_clear(&dst); free(keys); free_list(l); ldb_bloom_destroy(bl);
}
static void kt_bloom_match(char **a) {
  vbytes f = parse_bytes(a[1]), k = parse_bytes(a[2]); uint8_t *fp = kt_exact(&f), *kp = kt_exact(&k);
  ldb_slice_t fs = ldb_slice(fp, f.n), ks = ldb_slice(kp, k.n);
  printf("%d", ldb_bloom_match(ldb_bloom_default, &fs, &ks) ? 1 : 0);
  free(fp); free(kp); free(f.p); free(k.p);
}
/* filter_build <cmp> <bits> <off;keys/off;keys/...> */
static void kt_filter_build(char **a) {
  kt_policy pol; ldb_filtergen_t fb; const char *p = a[3]; ldb_slice_t out;
  kt_policy_init(&pol, (int)parse_num(a[1]), (int)parse_num(a[2]));
  ldb_filtergen_init(&fb, pol.policy);
  if (!(p[0] == '.' && p[1] == 0)) {
    for (;;) {
      const char *c = strchr(p, '/'); size_t len = c ? (size_t)(c - p) : strlen(p);
      char *g = malloc(len + 1), *semi; vlist l; size_t i;
      memcpy(g, p, len); g[len] = 0;
      semi = strchr(g, ';'); *semi = 0;
      ldb_filtergen_start_block(&fb, parse_num(g));
      l = parse_list(semi + 1);
      for (i = 0; i < l.n; i++) { ldb_slice_t k = ldb_slice(l.v[i].p, l.v[i].n); ldb_filtergen_add_key(&fb, &k); }
      free_list(l); free(g);
      if (!c) break;
      p = c + 1;
    }
  }
  out = ldb_filtergen_finish(&fb);
  put_hex(stdout, out.data, out.size);
  ldb_filtergen_clear(&fb); kt_policy_clear(&pol);
}
/* filter_match <cmp> <filterblock> <offset> <key> */
static void kt_filter_match(char **a) {
  kt_policy pol; vbytes f = parse_bytes(a[2]), k = parse_bytes(a[4]); uint8_t *fp = kt_exact(&f), *kp = kt_exact(&k);
  ldb_slice_t fs = ldb_slice(fp, f.n), ks = ldb_slice(kp, k.n); ldb_filter_t fr;
  kt_policy_init(&pol, (int)parse_num(a[1]), 10);
  ldb_filter_init(&fr, pol.policy, &fs);
  printf("%d", ldb_filter_matches(&fr, parse_num(a[3]), &ks) ? 1 : 0);
  kt_policy_clear(&pol); free(fp); free(kp); free(f.p); free(k.p);
}

/* ---- snappy ---- */
static void kt_snappy_decode(char **a) {
  vbytes b = parse_bytes(a[1]); uint8_t *xp = kt_exact(&b), *z; size_t zn;
  if (!snappy_decode_size(&zn, xp, b.n)) { printf("fail"); }
  else if ((z = malloc(zn ? zn : 1)) == NULL) { printf("enomem"); }
  else {
    if (snappy_decode(z, xp, b.n)) { printf("ok "); put_hex(stdout, z, zn); }
    else printf("fail");
    free(z);
  }
  free(xp); free(b.p);
}
static void kt_snappy_encode(char **a) {
  vbytes b = parse_bytes(a[1]); uint8_t *xp = kt_exact(&b), *z; size_t max, n;
  if (!snappy_encode_size(&max, b.n)) { printf("fail"); }
  else { z = malloc(max); n = snappy_encode(z, xp, b.n); put_hex(stdout, z, n); free(z); }
  free(xp); free(b.p);
}

/* ---- tables ---- */
typedef struct {
  ldb_dbopt_t db; ldb_readopt_t rd; kt_policy pol; ldb_lru_t *cache; int mmap;
} kt_opts;

static void kt_opts_parse(kt_opts *o, const char *s) {
  unsigned long f[9]; int i = 0; const char *p = s;
  memset(f, 0, sizeof(f));
  while (i < 9) { f[i++] = strtoul(p, NULL, 16); p = strchr(p, ','); if (!p) break; p++; }
  o->db = *ldb_dbopt_default;
  o->db.block_size = f[0];
  o->db.block_restart_interval = (int)f[1];
  o->db.compression = f[2] ? LDB_SNAPPY_COMPRESSION : LDB_NO_COMPRESSION;
  kt_policy_init(&o->pol, (int)f[4], (int)f[3]);
  o->db.filter_policy = o->pol.policy;
  o->db.comparator = kt_cmp((int)f[4]);
  o->db.paranoid_checks = (int)f[5];
  o->rd = *ldb_readopt_default;
  o->rd.verify_checksums = (int)f[6];
  o->cache = f[7] ? ldb_lru_create(f[7] == 1 ? (1 << 20) : f[7]) : NULL;
  o->db.block_cache = o->cache;
  o->mmap = (int)f[8];
  o->db.use_mmap = o->mmap;
}
static void kt_opts_clear(kt_opts *o) {
  if (o->cache) ldb_lru_destroy(o->cache);
  kt_policy_clear(&o->pol);
}

static void kt_tmpname(char *buf, size_t size) {
  static unsigned long counter = 0;
  const char *d = getenv("K1_TMPDIR");
  snprintf(buf, size, "%s/k1t_%ld_%lu.ldb", (d && d[0]) ? d : "/tmp", (long)getpid(), counter++);
}

static void kt_table_build(char **a) {
  kt_opts o; kt_entries e = kt_parse_entries(a[2]); char path[512]; ldb_wfile_t *wf; ldb_tablegen_t *tb;
  size_t i; int rc; FILE *f; uint8_t *buf; long sz;
  kt_opts_parse(&o, a[1]); kt_tmpname(path, sizeof(path));
  if ((rc = ldb_truncfile_create(path, &wf)) != LDB_OK) { printf("EXC create rc%d", rc); goto done; }
  tb = ldb_tablegen_create(&o.db, wf);
  for (i = 0; i < e.n; i++) {
    ldb_slice_t k = ldb_slice(e.k[i].p, e.k[i].n), v = ldb_slice(e.v[i].p, e.v[i].n);
    ldb_tablegen_add(tb, &k, &v);
  }
  rc = ldb_tablegen_finish(tb);
  if (rc == LDB_OK) rc = ldb_wfile_close(wf);
  ldb_wfile_destroy(wf);
  if (rc != LDB_OK) { printf("EXC build rc%d", rc); ldb_tablegen_destroy(tb); unlink(path); goto done; }
  f = fopen(path, "rb"); fseek(f, 0, SEEK_END); sz = ftell(f); fseek(f, 0, SEEK_SET);
  buf = malloc(sz + 1);
  if (fread(buf, 1, sz, f) != (size_t)sz) { printf("EXC readback"); }
  else if ((uint64_t)sz != ldb_tablegen_size(tb)) { printf("EXC size %ld vs %lu", sz, (unsigned long)ldb_tablegen_size(tb)); }
  else put_hex(stdout, buf, sz);
  fclose(f); free(buf); ldb_tablegen_destroy(tb); unlink(path);
done:
  kt_free_entries(e); kt_opts_clear(&o);
}

typedef struct { kt_opts o; char path[512]; ldb_rfile_t *rf; ldb_table_t *table; int rc; } kt_tbl;

/* write the bytes to a file and open it as a table; returns 0 (and prints open:<status>) on failure */
static int kt_table_open(kt_tbl *t, const char *opts, const char *filehex) {
  vbytes b = parse_bytes(filehex); FILE *f;
  kt_opts_parse(&t->o, opts); kt_tmpname(t->path, sizeof(t->path));
  t->rf = NULL; t->table = NULL;
  f = fopen(t->path, "wb");
  if (!f || fwrite(b.p, 1, b.n, f) != b.n) { printf("EXC write"); if (f) fclose(f); free(b.p); return 0; }
  fclose(f);
  t->rc = ldb_randfile_create(t->path, &t->rf, t->o.mmap);
  if (t->rc != LDB_OK && t->o.mmap) t->rc = ldb_randfile_create(t->path, &t->rf, 0);  /* empty file cannot be mapped */
  if (t->rc != LDB_OK) { printf("EXC randfile rc%d", t->rc); free(b.p); return 0; }
  t->rc = ldb_table_open(&t->o.db, t->rf, b.n, &t->table);
  free(b.p);
  if (t->rc != LDB_OK) { printf("open:%s", kt_status(t->rc)); return 0; }
  return 1;
}
static void kt_table_close(kt_tbl *t) {
  if (t->table) ldb_table_destroy(t->table);
  if (t->rf) ldb_rfile_destroy(t->rf);
  unlink(t->path);
  kt_opts_clear(&t->o);
}

static void kt_collect(ldb_iter_t *it, int forward) {
  int first = 1;
  while (ldb_iter_valid(it)) {
    ldb_slice_t k = ldb_iter_key(it), v = ldb_iter_value(it);
    if (!first) putchar(',');
    first = 0;
    kt_put_kv(&k, &v);
    if (forward) ldb_iter_next(it); else ldb_iter_prev(it);
  }
  if (first) putchar('.');
  printf(" %s", kt_status(ldb_iter_status(it)));
}

static void kt_table_scan(char **a, int both) {
  kt_tbl t;
  if (kt_table_open(&t, a[1], a[2])) {
    ldb_iter_t *it = ldb_tableiter_create(t.table, &t.o.rd);
    ldb_iter_first(it); kt_collect(it, 1);
    if (both) { putchar(' '); ldb_iter_last(it); kt_collect(it, 0); }
    ldb_iter_destroy(it);
  }
  kt_table_close(&t);
}

static void kt_table_iter(char **a) {
  kt_tbl t;
  if (kt_table_open(&t, a[1], a[2])) {
    ldb_iter_t *it = ldb_tableiter_create(t.table, &t.o.rd);
    kt_run_script(it, a[3]);
    ldb_iter_destroy(it);
  }
  kt_table_close(&t);
}

typedef struct { int called; ldb_buffer_t k, v; } kt_saver;
static void kt_save(void *arg, const ldb_slice_t *k, const ldb_slice_t *v) {
  kt_saver *s = arg;
  s->called++;
  ldb_buffer_set(&s->k, k->data, k->size);
  ldb_buffer_set(&s->v, v->data, v->size);
}

static void kt_table_get(char **a) {
  kt_tbl t;
  if (kt_table_open(&t, a[1], a[2])) {
    vlist keys = parse_list(a[3]); size_t i;
    for (i = 0; i < keys.n; i++) {
      kt_saver s; uint8_t *kp = kt_exact(&keys.v[i]); ldb_slice_t ks = ldb_slice(kp, keys.v[i].n); int rc;
      s.called = 0; ldb_buffer_init(&s.k); ldb_buffer_init(&s.v);
      rc = ldb_table_internal_get(t.table, &t.o.rd, &ks, &s, kt_save);
      if (i) putchar(',');
      if (s.called) kt_put_kv(&s.k, &s.v); else putchar('!');
      printf("/%s", kt_status(rc));
      ldb_buffer_clear(&s.k); ldb_buffer_clear(&s.v); free(kp);
    }
    if (keys.n == 0) putchar('.');
    free_list(keys);
  }
  kt_table_close(&t);
}

static int run_table(int argc, char **a) {
  const char *c = a[0];
  if (!strcmp(c, "block_build") && argc == 3) kt_block_build(a);
  else if (!strcmp(c, "block_iter") && argc == 4) kt_block_iter(a);
  else if (!strcmp(c, "hash") && argc == 3) {
    vbytes b = parse_bytes(a[2]); uint8_t *p = kt_exact(&b);
    printf("%lx", (unsigned long)ldb_hash(p, b.n, (uint32_t)parse_num(a[1]))); free(p); free(b.p);
  }
  else if (!strcmp(c, "bloom_build") && argc == 3) kt_bloom_build(a);
  else if (!strcmp(c, "bloom_match") && argc == 3) kt_bloom_match(a);
  else if (!strcmp(c, "filter_build") && argc == 4) kt_filter_build(a);
  else if (!strcmp(c, "filter_match") && argc == 5) kt_filter_match(a);
  else if (!strcmp(c, "snappy_decode") && argc == 2) kt_snappy_decode(a);
  else if (!strcmp(c, "snappy_encode") && argc == 2) kt_snappy_encode(a);
  else if (!strcmp(c, "table_build") && argc == 3) kt_table_build(a);
  else if (!strcmp(c, "table_scan") && argc == 3) kt_table_scan(a, 1);
  else if (!strcmp(c, "table_entries") && argc == 3) kt_table_scan(a, 0);
  else if (!strcmp(c, "table_iter") && argc == 4) kt_table_iter(a);
  else if (!strcmp(c, "table_get") && argc == 4) kt_table_get(a);
  else return 0;
  return 1;
}
#endif
