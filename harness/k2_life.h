/* k2_life.h -- lifecycle commands of the history driver k2.c (property C20):
 *   lock2            second ldb_open of the open directory (must fail); the record lock on
 *                    LOCK is probed from a forked child before and after
 *   backup <n>       ldb_backup(g_db, "<dir>.bak<n>"), then open the backup as a separate
 *                    database, scan it, close it
 *   bscan <n>        open backup n again, scan, close
 *   copydb <n>       close; ldb_copy(dir, "<dir>.cp<n>"); reopen; open the copy, scan, close
 *   wrongcmp         close; list dir; ldb_open with the OTHER comparator; list dir; reopen
 *   failopen         close; ldb_open with error_if_exists=1; reopen
 * Everything the validator (checks/k2lib.py) needs is printed before the RET line.
 * Included by k2.c after do_open/do_close; hand-written glue. */
#ifndef VERIF_K2_LIFE_H
#define VERIF_K2_LIFE_H
#include <fcntl.h>
#include <unistd.h>
#include <sys/wait.h>
#include <sys/stat.h>
#include <dirent.h>

/* 1: a record lock on <dir>/LOCK is held by this process (another process would be refused),
 * 0: not held, < 0: could not probe.  The child only opens the file read-only and asks
 * F_GETLK: locks are per process, so this does not disturb the parent's lock. */
static int life_lock_probe(void) {
  pid_t p; int st; char path[1200];
  snprintf(path, sizeof(path), "%s/LOCK", g_dir);
  fflush(stdout);
  p = fork();
  if (p < 0) return -1;
  if (p == 0) {
    struct flock fl; int fd = open(path, O_RDONLY);
    if (fd < 0) _exit(3);
    memset(&fl, 0, sizeof(fl)); fl.l_type = F_WRLCK; fl.l_whence = SEEK_SET;
    if (fcntl(fd, F_GETLK, &fl) != 0) _exit(4);
    _exit(fl.l_type == F_UNLCK ? 0 : 1);
  }
  if (waitpid(p, &st, 0) < 0 || !WIFEXITED(st)) return -1;
  st = WEXITSTATUS(st);
  return st <= 1 ? st : -st;
}

/* open the database in [dir] through a separate handle (no creation), print a full
 * forward scan in the format of the `scan` command, close it */
static void life_scan_other(const char *prefix, const char *dir) {
  ldb_dbopt_t o = g_opt; ldb_t *db = NULL; int rc;
  o.create_if_missing = 0; o.error_if_exists = 0;
  g_quiet++;
  rc = ldb_open(dir, &o, &db);
  printf("%s open=%d ", prefix, rc);
  if (rc == LDB_OK) {
    ldb_readopt_t ro = ro_default(); ldb_iter_t *it = ldb_iterator(db, &ro); int first = 1;
    for (ldb_iter_first(it); ldb_iter_valid(it); ldb_iter_next(it)) {
      if (!first) putchar(',');
      first = 0; print_entry(it);
    }
    if (first) putchar('.');
    printf(" status=%d\n", ldb_iter_status(it));
    ldb_iter_destroy(it);
    ldb_close(db);
  } else {
    printf("! status=-1\n");
  }
  g_quiet--;
}

static int life_dir_exists(const char *dir) {
  struct stat st;
  return stat(dir, &st) == 0 && S_ISDIR(st.st_mode);
}

/* names, sizes and a checksum (FNV-1a 64) of every file except LOG, LOG.old, LOCK */
static void life_lsdir(void) {
  DIR *d = opendir(g_dir); struct dirent *e; char *names[4096]; int n = 0, i;
  printf("LSDIR");
  if (d) {
    while ((e = readdir(d)) != NULL && n < 4096)
      if (strcmp(e->d_name, ".") && strcmp(e->d_name, "..") && strcmp(e->d_name, "LOG") &&
          strcmp(e->d_name, "LOG.old") && strcmp(e->d_name, "LOCK")) names[n++] = strdup(e->d_name);
    closedir(d);
  }
  qsort(names, n, sizeof(char *), cmp_names);
  for (i = 0; i < n; i++) {
    char path[1400]; struct stat st; FILE *f;
    snprintf(path, sizeof(path), "%s/%s", g_dir, names[i]);
    if (stat(path, &st) != 0) printf(" %s:gone", names[i]);
    else if (!S_ISREG(st.st_mode)) printf(" %s:dir", names[i]);
    else {
      unsigned long long h = 1469598103934665603ULL; unsigned long long len = 0; int c;
      f = fopen(path, "rb");
      if (f) { while ((c = getc(f)) != EOF) { h = (h ^ (unsigned long long)(unsigned char)c) * 1099511628211ULL; len++; } fclose(f); }
      printf(" %s:%llu:%llx:%llu", names[i], (unsigned long long)st.st_size, h & 0xffffffffffffffffULL, len);
    }
    free(names[i]);
  }
  if (n == 0) printf(" .");
  printf("\n");
}

static void life_ret_open(int rc) {
  printf("RET %d vnext=%llu lastseq=%llx\n", rc, g_db ? (unsigned long long)g_db->versions->next_file_number : 0ULL,
         g_db ? (unsigned long long)g_db->versions->last_sequence : 0ULL);
}

/* returns 1 if the command was one of ours (and has printed its RET line) */
static int life_cmd(int n, char **a) {
  char other[1200];
  if (!strcmp(a[0], "lock2")) {
    ldb_t *db2 = NULL; int rc, before, after;
    if (g_db == NULL) { printf("RET closed\n"); return 1; }
    before = life_lock_probe();
    g_quiet++;
    rc = ldb_open(g_dir, &g_opt, &db2);
    if (rc == LDB_OK && db2 != NULL) ldb_close(db2);      /* must not happen */
    g_quiet--;
    after = life_lock_probe();
    printf("LOCK2 rc=%d held_before=%d held_after=%d\n", rc, before, after);
    printf("RET 0\n");
    return 1;
  }
  if (!strcmp(a[0], "backup") && n >= 2) {
    int rc, drc;
    if (g_db == NULL) { printf("RET closed\n"); return 1; }
    snprintf(other, sizeof(other), "%s.bak%d", g_dir, atoi(a[1]));
    drc = ldb_destroy(other, &g_opt);
    g_nogc++; rc = ldb_backup(g_db, other); g_nogc--;
    printf("BACKUP rc=%d destroy_old=%d\n", rc, drc);
    if (rc == LDB_OK) life_scan_other("BSCAN", other);
    printf("RET %d\n", rc);
    return 1;
  }
  if (!strcmp(a[0], "rebackup") && n >= 2) {
    /* backup onto a target that ALREADY holds an earlier backup (no destroy first): refused or not, the earlier
       backup must not be damaged; and a backup onto the source's own directory must be refused */
    int rc, src;
    if (g_db == NULL) { printf("RET closed\n"); return 1; }
    snprintf(other, sizeof(other), "%s.bak%d", g_dir, atoi(a[1]));
    g_nogc++; rc = ldb_backup(g_db, other);
    src = ldb_backup(g_db, g_dir); g_nogc--;
    printf("REBACKUP rc=%d self=%d\n", rc, src);
    if (life_dir_exists(other)) life_scan_other("BSCAN", other);
    else printf("BSCAN none\n");
    printf("RET 0\n");
    return 1;
  }
  if (!strcmp(a[0], "recopy") && n >= 2) {
    /* ldb_copy onto an existing database: must be refused, leave the target intact and the source unlocked */
    int rc0 = 0, rc, orc, held;
    do_close();
    snprintf(other, sizeof(other), "%s.cp%d", g_dir, atoi(a[1]));
    g_nogc++;
    if (!life_dir_exists(other)) rc0 = ldb_copy(g_dir, other, &g_opt);
    rc = ldb_copy(g_dir, other, &g_opt);
    g_nogc--;
    held = life_lock_probe();
    printf("RECOPY first=%d rc=%d held_after=%d\n", rc0, rc, held);
    orc = do_open();
    life_scan_other("COPYSCAN", other);
    life_ret_open(orc);
    return 1;
  }
  if (!strcmp(a[0], "bscan") && n >= 2) {
    snprintf(other, sizeof(other), "%s.bak%d", g_dir, atoi(a[1]));
    if (life_dir_exists(other)) life_scan_other("BSCAN", other);
    else printf("BSCAN none\n");
    printf("RET 0\n");
    return 1;
  }
  if (!strcmp(a[0], "copydb") && n >= 2) {
    int rc, orc, drc;
    do_close();
    snprintf(other, sizeof(other), "%s.cp%d", g_dir, atoi(a[1]));
    drc = ldb_destroy(other, &g_opt);
    g_nogc++; rc = ldb_copy(g_dir, other, &g_opt); g_nogc--;
    printf("COPY rc=%d destroy_old=%d\n", rc, drc);
    orc = do_open();                                      /* EDIT lines of the source as usual */
    if (rc == LDB_OK) life_scan_other("COPYSCAN", other);
    life_ret_open(orc);
    return 1;
  }
  if (!strcmp(a[0], "wrongcmp")) {
    ldb_dbopt_t o = g_opt; ldb_t *db2 = NULL; int rc, orc;
    do_close();
    life_lsdir();
    o.create_if_missing = 0; o.error_if_exists = 0;
    o.comparator = (g_cmp_kind == 1) ? ldb_bytewise_comparator : &g_rev;
    {
      /* variants: 0 = a comparator with an unrelated name; 1 = the stored name plus a suffix; 2 = a strict prefix of the stored name
         (both with a DIFFERENT order): names must match exactly */
      static ldb_comparator_t wc; static char wname[200];
      int variant = n >= 2 ? atoi(a[1]) : 0;
      const char *cur = g_opt.comparator ? g_opt.comparator->name : ldb_bytewise_comparator->name; size_t len = strlen(cur);
      if (variant == 1 || variant == 2) {
        wc = (g_cmp_kind == 1) ? *ldb_bytewise_comparator : g_rev;
        if (variant == 1) snprintf(wname, sizeof(wname), "%s.v2", cur);
        else { snprintf(wname, sizeof(wname), "%s", cur); wname[len > 4 ? len - 3 : len] = 0; }
        wc.name = wname; wc.user_comparator = NULL;
        o.comparator = &wc;
      }
    }
    g_quiet++;
    rc = ldb_open(g_dir, &o, &db2);
    if (rc == LDB_OK && db2 != NULL) ldb_close(db2);      /* must not happen */
    g_quiet--;
    printf("WRONGCMP rc=%d\n", rc);
    life_lsdir();
    orc = do_open();
    life_ret_open(orc);
    return 1;
  }
  if (!strcmp(a[0], "failopen")) {
    ldb_dbopt_t o = g_opt; ldb_t *db2 = NULL; int rc, orc;
    do_close();
    o.error_if_exists = 1;
    g_quiet++;
    rc = ldb_open(g_dir, &o, &db2);
    if (rc == LDB_OK && db2 != NULL) ldb_close(db2);      /* must not happen */
    g_quiet--;
    printf("FAILOPEN rc=%d\n", rc);
    orc = do_open();
    life_ret_open(orc);
    return 1;
  }
  return 0;
}
#endif
