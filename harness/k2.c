/* k2.c -- history driver (tie K2): runs an operation history on the real lcdb
 * (no-pthread build: compactions run synchronously inside the API calls) and
 * prints a trace of everything the engine did: every version edit as it is
 * installed (via -Wl,--wrap=ldb_versions_apply), the decoded contents of every
 * new table file, every API result, and the layout at quiescent points.
 * White-box: the implementation translation unit is included. */
#include "db_impl.c"
#include "dumpfile.h"
#include "common.h"
#include <sys/resource.h>
#include "iowrap.h"
#include <dirent.h>
#include <sys/stat.h>

static ldb_t *g_db = NULL;
static char g_dir[1024];
static ldb_dbopt_t g_opt;
static ldb_lru_t *g_cache = NULL;
static ldb_bloom_t *g_bloom = NULL;
static int g_cmp_kind = 0;
static int g_tablehex = 0;  /* print the raw bytes of new tables up to this size */
static int g_verify = 0;   /* verify_checksums for every read */
#define MAXSNAP 256
static const ldb_snapshot_t *g_snaps[MAXSNAP];
static int g_nsnaps = 0;
#define MAXITER 64
static ldb_iter_t *g_iters[MAXITER];

/* ---- reverse bytewise comparator with no-op separator hooks ---- */
static int rev_compare(const ldb_comparator_t *c, const ldb_slice_t *x, const ldb_slice_t *y) {
  size_t n = x->size < y->size ? x->size : y->size; int r = n ? memcmp(x->data, y->data, n) : 0;
  (void)c;
  if (r == 0) r = (x->size < y->size) ? -1 : (x->size > y->size) ? 1 : 0;
  return -r;
}
static void rev_sep(const ldb_comparator_t *c, ldb_slice_t *s, const ldb_slice_t *l) { (void)c; (void)s; (void)l; }
static void rev_succ(const ldb_comparator_t *c, ldb_slice_t *k) { (void)c; (void)k; }
static ldb_comparator_t g_rev = { "verif.ReverseBytewise", rev_compare, rev_sep, rev_succ, NULL, NULL };

/* ---- ASCII case-insensitive comparator: different byte strings name the same key ---- */
static int ci_fold(int c) { return (c >= 65 && c <= 90) ? c + 32 : c; }
static int ci_compare(const ldb_comparator_t *c, const ldb_slice_t *x, const ldb_slice_t *y) {
  size_t n = x->size < y->size ? x->size : y->size, i;
  (void)c;
  for (i = 0; i < n; i++) {
    int a = ci_fold(((const uint8_t *)x->data)[i]), b = ci_fold(((const uint8_t *)y->data)[i]);
    if (a != b) return a < b ? -1 : 1;
  }
  return (x->size < y->size) ? -1 : (x->size > y->size) ? 1 : 0;
}
static ldb_comparator_t g_ci = { "verif.CaseInsensitive", ci_compare, rev_sep, rev_succ, NULL, NULL };

/* ---- printing ---- */
static void put_val(FILE *f, const uint8_t *p, size_t n) {
  size_t i; unsigned seed;
  if (n == 0) { fputc('-', f); return; }
  seed = p[0];
  for (i = 0; i < n; i++) if (p[i] != pattern_byte(seed, i)) break;
  if (i == n) fprintf(f, "@%lu:%u", (unsigned long)n, seed);
  else put_hex(f, p, n);
}

static void put_ikey(FILE *f, const ldb_slice_t *ik) {
  ldb_pkey_t pk;
  if (!ldb_pkey_import(&pk, ik)) { fprintf(f, "BAD"); put_hex(f, ik->data, ik->size); return; }
  put_hex(f, pk.user_key.data, pk.user_key.size);
  fprintf(f, ":%llx:%d", (unsigned long long)pk.sequence, (int)pk.type);
}

static void dump_table(ldb_tables_t *cache, uint64_t number, uint64_t size) {
  ldb_iter_t *it = ldb_tables_iterate(cache, ldb_readopt_default, number, size, NULL);
  int first = 1;
  printf("TABLE %llu %llu ", (unsigned long long)number, (unsigned long long)size);
  for (ldb_iter_first(it); ldb_iter_valid(it); ldb_iter_next(it)) {
    ldb_slice_t k = ldb_iter_key(it), v = ldb_iter_value(it);
    if (!first) putchar(',');
    first = 0;
    put_ikey(stdout, &k); putchar(':'); put_val(stdout, v.data, v.size);
  }
  if (first) putchar('.');
  printf(" status=%d\n", ldb_iter_status(it));
  ldb_iter_destroy(it);
}

#ifndef K3
/* K2_UNLINK_DELAY_US: every unlink sleeps first (pthread builds: widens the window between the
 * garbage collector's decision and its unlink, during which the background thread runs).
 * K2_SNAP_DIR: right after a write-ahead log has been unlinked the database directory is copied to
 * <K2_SNAP_DIR>/<n>_<calls completed before the unlink>: a process-crash image taken at that moment (the only
 * concurrent file mutation of a one-client run is the client appending to the current log: any prefix of it is
 * a legal crash state, and every call completed BEFORE the unlink is entirely inside the copy). */
#include <unistd.h>
#include <dirent.h>
#include <fcntl.h>
#include <sys/stat.h>
static volatile long g_calls_done = 0;
static int g_nsnap = 0;
int __real_unlink(const char *p);
static void k2_snapshot_dir(const char *snaproot, long done) {
  char dst[1400], a[1400], b[2000]; DIR *d; struct dirent *e; static char buf[1 << 16];
  snprintf(dst, sizeof(dst), "%s/%d_%ld", snaproot, g_nsnap++, done);
  mkdir(snaproot, 0755); mkdir(dst, 0755);
  d = opendir(g_dir);
  if (!d) return;
  while ((e = readdir(d)) != NULL) {
    int in, out; ssize_t n;
    if (e->d_name[0] == '.' || !strcmp(e->d_name, "LOCK") || !strcmp(e->d_name, "LOG") || !strcmp(e->d_name, "LOG.old")) continue;
    snprintf(a, sizeof(a), "%s/%s", g_dir, e->d_name); snprintf(b, sizeof(b), "%s/%s", dst, e->d_name);
    in = open(a, O_RDONLY); if (in < 0) continue;
    out = open(b, O_WRONLY | O_CREAT | O_TRUNC, 0644);
    if (out >= 0) { while ((n = read(in, buf, sizeof(buf))) > 0) if (write(out, buf, n) != n) break; close(out); }
    close(in);
  }
  closedir(d);
}
int __wrap_unlink(const char *p) {
  static long delay = -1; static const char *snap = NULL; static int init = 0;
  size_t l = strlen(p); int r; long done = g_calls_done;
  if (!init) { const char *e = getenv("K2_UNLINK_DELAY_US"); delay = e ? atol(e) : 0; snap = getenv("K2_SNAP_DIR"); init = 1; }
  if (delay > 0) usleep((useconds_t)delay);
  r = __real_unlink(p);
  if (r == 0 && snap && g_nsnap < 60 && l > 4 && !strcmp(p + l - 4, ".log") && !strncmp(p, g_dir, strlen(g_dir)))
    k2_snapshot_dir(snap, done);
  return r;
}
#endif

/* ---- deferred observation output ----
 * The observers below can run in the MIDDLE of a command that is printing its own result line (a seek compaction
 * triggered by an iterator's read sampling runs inline in the no-thread build): what they print goes to a memory stream
 * and is written out after the command's RET line (still before the next CALL line, so it belongs to the same call). */
static FILE *g_defer_fp = NULL; static char *g_defer_buf = NULL; static size_t g_defer_len = 0;
static FILE *defer_begin(void) {
  FILE *saved = stdout;
  if (g_defer_fp == NULL) g_defer_fp = open_memstream(&g_defer_buf, &g_defer_len);
  if (g_defer_fp != NULL) stdout = g_defer_fp;
  return saved;
}
static void defer_end(FILE *saved) { fflush(stdout); stdout = saved; }
static void defer_flush(void) {
  if (g_defer_fp == NULL) return;
  fclose(g_defer_fp); g_defer_fp = NULL;
  if (g_defer_len) fwrite(g_defer_buf, 1, g_defer_len, stdout);
  free(g_defer_buf); g_defer_buf = NULL; g_defer_len = 0;
}

/* ---- observation of every obsolete-file collection (ldb_remove_obsolete_files) ----
 * The collector calls ldb_versions_add_files(versions, &live) [live already holds pending_outputs], then
 * ldb_get_children, then ldb_remove_file for every name it decided to drop. Printed as
 *   GC live=<n,..> log=<n> prev=<n> man=<n> dir=<hex,..>     and     GCRM <hex name>
 * and replayed on the model of the collector (coq/theories/Gc.v) by checks/k2lib.py. */
void __real_ldb_versions_add_files(ldb_versions_t *vset, rb_set64_t *live);
int __real_ldb_get_children(const char *path, char ***out);
int __real_ldb_remove_file(const char *filename);
static int g_gc_phase = 0;     /* 1: add_files seen (state printed), 2: listing printed, removals are the collector's */
static int g_gc_off = -1;
static int g_quiet_flag_ptr_is_zero(void);
static int gc_watch(void) {
  if (g_gc_off < 0) g_gc_off = getenv("K2_NOEDIT") != NULL;
  return !g_gc_off && g_quiet_flag_ptr_is_zero();
}
typedef struct { char *p; size_t cap, len; } gcbuf_t;
static gcbuf_t g_gc_state, g_gc_list;
static int g_gc_have_state = 0, g_gc_have_list = 0;
static int g_nogc = 0;        /* > 0 while ldb_backup / ldb_copy run: they list the directory after add_files too */
static void gc_put(gcbuf_t *b, const char *fmt, unsigned long long v) {
  if (b->len + 64 > b->cap) { b->cap = b->cap ? b->cap * 2 : 4096; b->p = realloc(b->p, b->cap); }
  b->len += (size_t)sprintf(b->p + b->len, fmt, v);
}
static void gc_puts(gcbuf_t *b, const char *str) {
  size_t n = strlen(str);
  while (b->len + n + 8 > b->cap) { b->cap = b->cap ? b->cap * 2 : 4096; b->p = realloc(b->p, b->cap); }
  memcpy(b->p + b->len, str, n + 1); b->len += n;
}
/* the collector needs the live set and the directory listing, in either order: the event is printed when both are there */
static void gc_emit(const char *order) {
  FILE *saved = defer_begin();
  printf("%s dir=%s order=%s\n", g_gc_state.p, g_gc_list.len ? g_gc_list.p : ".", order);
  defer_end(saved);
  g_gc_have_state = g_gc_have_list = 0;
  g_gc_phase = 2;
}
void __wrap_ldb_versions_add_files(ldb_versions_t *vset, rb_set64_t *live) {
  __real_ldb_versions_add_files(vset, live);
  g_gc_phase = 0;
  if (gc_watch() && !g_nogc) {
    rb_iter_t it; int first = 1;
    g_gc_state.len = 0;
    gc_put(&g_gc_state, "GC live=%.0llu", 0);
    rb_set64_each(live, it) { gc_put(&g_gc_state, first ? "%llu" : ",%llu", (unsigned long long)rb_key_ui(it)); first = 0; }
    if (first) gc_put(&g_gc_state, ".%.0llu", 0);
    gc_put(&g_gc_state, " log=%llu", (unsigned long long)vset->log_number);
    gc_put(&g_gc_state, " prev=%llu", (unsigned long long)vset->prev_log_number);
    gc_put(&g_gc_state, " man=%llu", (unsigned long long)vset->manifest_file_number);
    g_gc_have_state = 1;
    if (g_gc_have_list) gc_emit("ls");      /* listing first: recovery's missing-file check, or a collector that lists first */
  } else {
    g_gc_have_state = g_gc_have_list = 0;
  }
}
int __wrap_ldb_get_children(const char *path, char ***out) {
  int len = __real_ldb_get_children(path, out);
  if (gc_watch() && !g_nogc && len >= 0) {
    int i; size_t j; char hx[4];
    g_gc_list.len = 0; gc_puts(&g_gc_list, "");
    for (i = 0; i < len; i++) {
      const char *nm = (*out)[i];
      if (i) gc_puts(&g_gc_list, ",");
      for (j = 0; nm[j]; j++) { sprintf(hx, "%02x", (unsigned char)nm[j]); gc_puts(&g_gc_list, hx); }
    }
    g_gc_have_list = 1;
    if (g_gc_have_state) gc_emit("sl");
    else g_gc_phase = 0;
  }
  return len;
}
int __wrap_ldb_remove_file(const char *filename) {
  if (g_gc_phase == 2) {
    const char *b = strrchr(filename, '/'); size_t j; FILE *saved = defer_begin();
    b = b ? b + 1 : filename;
    printf("GCRM ");
    for (j = 0; b[j]; j++) printf("%02x", (unsigned char)b[j]);
    printf("\n");
    defer_end(saved);
  }
  return __real_ldb_remove_file(filename);
}

/* ---- observation of every installed edit ---- */
int __real_ldb_versions_apply(ldb_versions_t *vset, ldb_edit_t *edit, ldb_mutex_t *mu);
static int g_quiet = 0;    /* > 0 while a second handle (backup/copy/failed open, k2_life.h) is at work: its edits are not the history's */
static int g_quiet_flag_ptr_is_zero(void) { return g_quiet == 0; }
int __wrap_ldb_versions_apply(ldb_versions_t *vset, ldb_edit_t *edit, ldb_mutex_t *mu) {
  rb_iter_t it; size_t i; int rc; int first;
  uint64_t snap = vset->last_sequence;
  g_gc_phase = 0; g_gc_have_state = g_gc_have_list = 0;
  static int noedit = -1;
  if (noedit < 0) noedit = getenv("K2_NOEDIT") != NULL;   /* threaded runs: the background thread's edits would interleave with RET lines */
  if (g_quiet || noedit) return __real_ldb_versions_apply(vset, edit, mu);
  if (g_db != NULL && !ldb_snaplist_empty(&g_db->snapshots))
    snap = ldb_snaplist_oldest(&g_db->snapshots)->sequence;
  rc = __real_ldb_versions_apply(vset, edit, mu);
  {
  FILE *saved_out = defer_begin();
  printf("EDIT rc=%d snap=%llx del=", rc, (unsigned long long)snap);
  first = 1;
  rb_set_each(&edit->deleted_files, it) {
    const file_entry_t *e = rb_key_ptr(it);
    printf("%s%d:%llu", first ? "" : ",", e->level, (unsigned long long)e->number); first = 0;
  }
  if (first) putchar('.');
  printf(" add=");
  for (i = 0; i < edit->new_files.length; i++) {
    const meta_entry_t *e = edit->new_files.items[i];
    ldb_slice_t s = e->meta.smallest, l = e->meta.largest;
    printf("%s%d:%llu:%llu:", i ? "," : "", e->level, (unsigned long long)e->meta.number, (unsigned long long)e->meta.file_size);
    put_ikey(stdout, &s); putchar('/'); put_ikey(stdout, &l);
  }
  if (edit->new_files.length == 0) putchar('.');
  printf(" haslog=%d lognum=%llu prevlog=%llu nextfile=%llu lastseq=%llx vnext=%llu manifest=%llu\n",
         edit->has_log_number, (unsigned long long)edit->log_number, (unsigned long long)edit->prev_log_number,
         (unsigned long long)edit->next_file_number, (unsigned long long)edit->last_sequence,
         (unsigned long long)vset->next_file_number, (unsigned long long)vset->manifest_file_number);
  for (i = 0; i < edit->new_files.length; i++) {
    const meta_entry_t *e = edit->new_files.items[i];
    dump_table(vset->table_cache, e->meta.number, e->meta.file_size);
    if (g_tablehex > 0 && e->meta.file_size <= (uint64_t)g_tablehex) {
      /* raw bytes of small tables, for the independent decode by the extracted model reader */
      char fname[LDB_PATH_MAX]; FILE *f;
      if (ldb_table_filename(fname, sizeof(fname), vset->dbname, e->meta.number) && (f = fopen(fname, "rb")) != NULL) {
        uint8_t *buf = malloc(e->meta.file_size + 1); size_t n = fread(buf, 1, e->meta.file_size, f);
        printf("TABLEHEX %llu ", (unsigned long long)e->meta.number); put_hex(stdout, buf, n); putchar('\n');
        free(buf); fclose(f);
      }
    }
  }
  defer_end(saved_out);
  }
  return rc;
}

static int cmp_names(const void *a, const void *b) { return strcmp(*(char *const *)a, *(char *const *)b); }

static void print_dir(void) {
  DIR *d = opendir(g_dir); struct dirent *e; char *names[4096]; int n = 0, i;
  printf("DIR");
  if (d) {
    while ((e = readdir(d)) != NULL && n < 4096)
      if (strcmp(e->d_name, ".") && strcmp(e->d_name, "..")) names[n++] = strdup(e->d_name);
    closedir(d);
  }
  qsort(names, n, sizeof(char *), cmp_names);
  for (i = 0; i < n; i++) { printf(" %s", names[i]); free(names[i]); }
  printf("\n");
}

static void print_layout(void) {
  int level; size_t i; ldb_version_t *v;
  if (g_db == NULL) { printf("LAYOUT closed\n"); print_dir(); return; }
  v = g_db->versions->current;
  printf("LAYOUT lastseq=%llx nextfile=%llu lognum=%llu prevlog=%llu manifest=%llu logfile=%llu imm=%d",
         (unsigned long long)g_db->versions->last_sequence, (unsigned long long)g_db->versions->next_file_number,
         (unsigned long long)g_db->versions->log_number, (unsigned long long)g_db->versions->prev_log_number,
         (unsigned long long)g_db->versions->manifest_file_number, (unsigned long long)g_db->logfile_number,
         g_db->imm != NULL);
  for (level = 0; level < LDB_NUM_LEVELS; level++) {
    printf(" L%d=", level);
    if (v->files[level].length == 0) putchar('.');
    for (i = 0; i < v->files[level].length; i++) {
      ldb_filemeta_t *f = v->files[level].items[i];
      ldb_slice_t s = f->smallest, l = f->largest;
      printf("%s%llu:%llu:", i ? "," : "", (unsigned long long)f->number, (unsigned long long)f->file_size);
      put_ikey(stdout, &s); putchar('/'); put_ikey(stdout, &l);
    }
  }
  printf("\n");
  {
    /* the bytes of the current MANIFEST (at most 64 KiB), for the replay by the extracted
       model of ldb_versions_recover (ManifestReplay.v); read through stdio */
    char fname[LDB_PATH_MAX]; FILE *f;
    if (ldb_desc_filename(fname, sizeof(fname), g_dir, g_db->versions->manifest_file_number) && (f = fopen(fname, "rb")) != NULL) {
      static uint8_t mbuf[65537]; size_t n = fread(mbuf, 1, sizeof(mbuf), f);
      fclose(f);
      if (n <= 65536) {
        printf("MANIFESTHEX %llu ", (unsigned long long)g_db->versions->manifest_file_number);
        put_hex(stdout, mbuf, n); putchar('\n');
      }
    }
  }
  print_dir();
}

/* ---- options from argv: key=value ---- */
static void parse_opts(int argc, char **argv) {
  int i;
  g_opt = *ldb_dbopt_default;
  g_opt.create_if_missing = 1;
  g_opt.compression = LDB_NO_COMPRESSION;
  for (i = 2; i < argc; i++) {
    char *eq = strchr(argv[i], '='); long v;
    if (!eq) continue;
    *eq = 0; v = strtol(eq + 1, NULL, 10);
    if (!strcmp(argv[i], "write_buffer")) g_opt.write_buffer_size = v;
    else if (!strcmp(argv[i], "block_size")) g_opt.block_size = v;
    else if (!strcmp(argv[i], "restart")) g_opt.block_restart_interval = v;
    else if (!strcmp(argv[i], "max_file_size")) g_opt.max_file_size = v;
    else if (!strcmp(argv[i], "compression")) g_opt.compression = v ? LDB_SNAPPY_COMPRESSION : LDB_NO_COMPRESSION;
    else if (!strcmp(argv[i], "bloom")) { if (v > 0) { g_bloom = ldb_bloom_create(v); g_opt.filter_policy = g_bloom; } else g_opt.filter_policy = NULL; }
    else if (!strcmp(argv[i], "cache")) { if (v >= 0) { g_cache = ldb_lru_create(v); g_opt.block_cache = g_cache; } }
    else if (!strcmp(argv[i], "mmap")) g_opt.use_mmap = v;
    else if (!strcmp(argv[i], "reuse_logs")) g_opt.reuse_logs = v;
    else if (!strcmp(argv[i], "paranoid")) g_opt.paranoid_checks = v;
    else if (!strcmp(argv[i], "verify")) g_verify = v;
    else if (!strcmp(argv[i], "tablehex")) g_tablehex = v;
    else if (!strcmp(argv[i], "max_open_files")) g_opt.max_open_files = v;
    else if (!strcmp(argv[i], "nofile")) { struct rlimit rl; rl.rlim_cur = rl.rlim_max = (rlim_t)v; setrlimit(RLIMIT_NOFILE, &rl); }   /* before the env reads the limit */
    else if (!strcmp(argv[i], "comparator")) { g_cmp_kind = v; if (v == 1) g_opt.comparator = &g_rev; else if (v == 2) g_opt.comparator = &g_ci; }
  }
}

static ldb_readopt_t ro_default(void) { ldb_readopt_t ro = *ldb_readopt_default; ro.verify_checksums = g_verify; return ro; }

static const ldb_snapshot_t *snap_arg(const char *s) {
  if (s[0] == '-') return NULL;
  return g_snaps[atoi(s)];
}

static void print_entry(ldb_iter_t *it) {
  ldb_slice_t k = ldb_iter_key(it), v = ldb_iter_value(it);
  put_hex(stdout, k.data, k.size); putchar(':'); put_val(stdout, v.data, v.size);
}

static void run_script(ldb_iter_t *it, const char *script) {
  vlist unused; const char *p = script; int first = 1;
  (void)unused;
  while (*p) {
    const char *e = strchr(p, ','); size_t len = e ? (size_t)(e - p) : strlen(p);
    char opc = p[0]; int skipped = 0;
    if (opc == 'F') ldb_iter_first(it);
    else if (opc == 'L') ldb_iter_last(it);
    else if (opc == 'N') { if (ldb_iter_valid(it)) ldb_iter_next(it); else skipped = 1; }
    else if (opc == 'P') { if (ldb_iter_valid(it)) ldb_iter_prev(it); else skipped = 1; }
    else {
      vbytes b = parse_bytes_n(p + 1, len - 1); ldb_slice_t t = ldb_slice(b.p, b.n);
      if (opc == 'S') ldb_iter_seek(it, &t);
      else if (opc == 'G') ldb_iter_seek_ge(it, &t);
      else if (opc == 'T') ldb_iter_seek_gt(it, &t);
      else if (opc == 'E') ldb_iter_seek_le(it, &t);
      else if (opc == 'B') ldb_iter_seek_lt(it, &t);
      free(b.p);
    }
    if (!first) putchar(' ');
    first = 0;
    if (skipped) putchar('~');
    else if (ldb_iter_valid(it)) print_entry(it);
    else putchar('!');
    if (!e) break;
    p = e + 1;
  }
  printf(" status=%d", ldb_iter_status(it));
}

static int do_open(void) {
  int rc; g_db = NULL;
  rc = ldb_open(g_dir, &g_opt, &g_db);
  if (rc != LDB_OK) g_db = NULL;
  return rc;
}

static void do_close(void) {
  int i;
  if (!g_db) return;
  for (i = 0; i < MAXITER; i++) if (g_iters[i]) { ldb_iter_destroy(g_iters[i]); g_iters[i] = NULL; }
  for (i = 0; i < g_nsnaps; i++) if (g_snaps[i]) { ldb_release(g_db, g_snaps[i]); g_snaps[i] = NULL; }
  ldb_close(g_db); g_db = NULL;
}

#include "k2_life.h"   /* lifecycle commands (C20): lock2 backup bscan copydb wrongcmp failopen */

int main(int argc, char **argv) {
  char *line = NULL; size_t cap = 0; char *a[16]; long callno = 0;
  if (argc < 2) return 2;
  snprintf(g_dir, sizeof(g_dir), "%s", argv[1]);
  parse_opts(argc, argv);
  setvbuf(stdout, NULL, _IOFBF, 1 << 20);
  k3_init(g_dir);
  while (getline(&line, &cap, stdin) > 0) {
    int n = split_line(line, a, 16);
    if (n == 0) continue;
    g_gc_phase = 0; g_gc_have_state = g_gc_have_list = 0;
    printf("CALL %ld %s\n", callno, a[0]);
    k3_mark('A', callno, a[0]);
    callno++;
#ifdef K3
    if (!strcmp(a[0], "fail") && n >= 5) {
      k3fail_at = k3calls + atol(a[1]); k3fail_errno = atoi(a[2]); k3fail_persistent = atoi(a[3]); k3fail_partial = atoi(a[4]);
      printf("RET 0\n"); k3_mark('Z', callno - 1, "fail"); continue;
    }
    if (!strcmp(a[0], "nofail")) {
      k3fail_at = -1; k3fail_persistent = 0; printf("RET failed=%ld\n", k3failed); k3_mark('Z', callno - 1, "nofail"); continue;
    }
#endif
    if (!strcmp(a[0], "open")) {
      int rc = do_open();
      printf("RET %d vnext=%llu lastseq=%llx\n", rc, g_db ? (unsigned long long)g_db->versions->next_file_number : 0ULL,
             g_db ? (unsigned long long)g_db->versions->last_sequence : 0ULL);
    } else if (!strcmp(a[0], "close")) {
      do_close(); printf("RET 0\n");
    } else if (!strcmp(a[0], "reopen")) {
      int rc; do_close(); rc = do_open();
      printf("RET %d vnext=%llu lastseq=%llx\n", rc, g_db ? (unsigned long long)g_db->versions->next_file_number : 0ULL,
             g_db ? (unsigned long long)g_db->versions->last_sequence : 0ULL);
    } else if (!strcmp(a[0], "repair") && n >= 2) {
      /* lose / damage the metadata, repair, open */
      int variant = atoi(a[1]), rc; char path[1200]; DIR *d; struct dirent *e;
      do_close();
      d = opendir(g_dir);
      if (d) {
        while ((e = readdir(d)) != NULL) {
          int is_manifest = strncmp(e->d_name, "MANIFEST-", 9) == 0, is_current = strcmp(e->d_name, "CURRENT") == 0;
          snprintf(path, sizeof(path), "%s/%s", g_dir, e->d_name);
          if ((variant == 0 || variant == 4) && (is_manifest || is_current)) unlink(path);
          else if (variant == 4 && strlen(e->d_name) > 4 && !strcmp(e->d_name + strlen(e->d_name) - 4, ".ldb") && (e->d_name[5] & 1)) {
            /* legacy table suffix: every table with an odd number becomes NNNNNN.sst */
            char to[1200]; snprintf(to, sizeof(to), "%s/%s", g_dir, e->d_name); memcpy(to + strlen(to) - 3, "sst", 3); rename(path, to);
          }
          else if (variant == 1 && is_manifest) { struct stat st; if (stat(path, &st) == 0) truncate(path, st.st_size / 2); }
          else if (variant == 2 && is_current) { FILE *f = fopen(path, "w"); if (f) { fputs("MANIFEST-999999\n", f); fclose(f); } }
          else if (variant == 3 && is_manifest) { FILE *f = fopen(path, "r+"); if (f) { fseek(f, 9, SEEK_SET); fputc(0x5a, f); fclose(f); } }
        }
        closedir(d);
      }
      rc = ldb_repair(g_dir, &g_opt);
      printf("REPAIR rc=%d\n", rc);
      print_dir();
      rc = do_open();
      printf("RET %d vnext=%llu lastseq=%llx\n", rc, g_db ? (unsigned long long)g_db->versions->next_file_number : 0ULL,
             g_db ? (unsigned long long)g_db->versions->last_sequence : 0ULL);
    } else if (life_cmd(n, a)) {
      /* handled (and RET printed) by harness/k2_life.h */
    } else if (!strcmp(a[0], "dumpall")) {
      /* ldb_dump_file (dumpfile.c) on every file of the directory, output discarded: must terminate with a status */
      DIR *d = opendir(g_dir); struct dirent *e; char path[1200]; FILE *sink = fopen("/dev/null", "w"); int nf = 0, bad = 0;
      if (d) {
        while ((e = readdir(d)) != NULL) {
          if (e->d_name[0] == '.') continue;
          snprintf(path, sizeof(path), "%s/%s", g_dir, e->d_name);
          nf++; if (ldb_dump_file(path, sink) != LDB_OK) bad++;
        }
        closedir(d);
      }
      if (sink) fclose(sink);
      printf("RET dumped=%d errors=%d\n", nf, bad);
    } else if (!strcmp(a[0], "fds")) {
      /* number of open file descriptors of this process (descriptor leaks) */
      DIR *d = opendir("/proc/self/fd"); struct dirent *e; int nfd = 0;
      if (d) { while ((e = readdir(d)) != NULL) if (e->d_name[0] != '.') nfd++; closedir(d); nfd--; /* the DIR itself */ }
      printf("RET %d\n", nfd);
    } else if (!strcmp(a[0], "layout")) {
      print_layout(); printf("RET 0\n");
    } else if (g_db == NULL) {
      printf("RET closed\n");
    } else if (!strcmp(a[0], "put") && n >= 3) {
      vbytes k = parse_bytes(a[1]), v = parse_bytes(a[2]); ldb_slice_t ks = ldb_slice(k.p, k.n), vs = ldb_slice(v.p, v.n);
      ldb_writeopt_t wo = *ldb_writeopt_default; wo.sync = (n >= 4 && a[3][0] == '1');
      printf("RET %d\n", ldb_put(g_db, &ks, &vs, &wo)); free(k.p); free(v.p);
    } else if (!strcmp(a[0], "del") && n >= 2) {
      vbytes k = parse_bytes(a[1]); ldb_slice_t ks = ldb_slice(k.p, k.n);
      ldb_writeopt_t wo = *ldb_writeopt_default; wo.sync = (n >= 3 && a[2][0] == '1');
      printf("RET %d\n", ldb_del(g_db, &ks, &wo)); free(k.p);
    } else if (!strcmp(a[0], "batch") && n >= 2) {
      ldb_batch_t b; const char *p = a[1]; ldb_writeopt_t wo = *ldb_writeopt_default;
      wo.sync = (n >= 3 && a[2][0] == '1');
      ldb_batch_init(&b);
      while (*p && *p != '.') {
        const char *e = strchr(p, ','); size_t len = e ? (size_t)(e - p) : strlen(p);
        if (p[0] == 'p') {
          const char *c = memchr(p, ':', len);
          vbytes k = parse_bytes_n(p + 1, c - p - 1), v = parse_bytes_n(c + 1, len - (c + 1 - p));
          ldb_slice_t ks = ldb_slice(k.p, k.n), vs = ldb_slice(v.p, v.n);
          ldb_batch_put(&b, &ks, &vs); free(k.p); free(v.p);
        } else {
          vbytes k = parse_bytes_n(p + 1, len - 1); ldb_slice_t ks = ldb_slice(k.p, k.n);
          ldb_batch_del(&b, &ks); free(k.p);
        }
        if (!e) break;
        p = e + 1;
      }
      printf("RET %d\n", ldb_write(g_db, &b, &wo)); ldb_batch_clear(&b);
    } else if (!strcmp(a[0], "get") && n >= 3) {
      vbytes k = parse_bytes(a[1]); ldb_slice_t ks = ldb_slice(k.p, k.n), val; int rc;
      ldb_readopt_t ro = ro_default(); ro.snapshot = snap_arg(a[2]);
      if (n >= 4) ro.verify_checksums = (a[3][0] == '1');
      rc = ldb_get(g_db, &ks, &val, &ro);
      if (rc == LDB_OK) { printf("RET found "); put_val(stdout, val.data, val.size); putchar('\n'); ldb_free(val.data); }
      else if (rc == LDB_NOTFOUND) printf("RET notfound\n");
      else printf("RET err %d\n", rc);
      free(k.p);
    } else if (!strcmp(a[0], "has") && n >= 3) {
      vbytes k = parse_bytes(a[1]); ldb_slice_t ks = ldb_slice(k.p, k.n); int rc;
      ldb_readopt_t ro = ro_default(); ro.snapshot = snap_arg(a[2]);
      rc = ldb_has(g_db, &ks, &ro);
      printf("RET %s\n", rc == LDB_OK ? "found" : rc == LDB_NOTFOUND ? "notfound" : "err"); free(k.p);
    } else if (!strcmp(a[0], "snap")) {
      if (g_nsnaps < MAXSNAP) {
        const ldb_snapshot_t *s = ldb_snapshot(g_db); g_snaps[g_nsnaps] = s;
        printf("RET snap %d %llx\n", g_nsnaps, (unsigned long long)s->sequence); g_nsnaps++;
      } else printf("RET full\n");
    } else if (!strcmp(a[0], "release") && n >= 2) {
      int i = atoi(a[1]);
      if (i < g_nsnaps && g_snaps[i]) { printf("RET released %llx\n", (unsigned long long)g_snaps[i]->sequence); ldb_release(g_db, g_snaps[i]); g_snaps[i] = NULL; }
      else printf("RET nosnap\n");
    } else if (!strcmp(a[0], "plant") && n >= 2) {
      /* an orphan table as a crashed process leaves it: a table-named file numbered AHEAD of the file-number
         allocator (allocated in memory, never recorded in the MANIFEST); the next collector run must remove it */
      char pth[1200]; FILE *pf; unsigned long long num = (unsigned long long)g_db->versions->next_file_number + strtoull(a[1], NULL, 10);
      snprintf(pth, sizeof(pth), "%s/%06llu.ldb", g_dir, num);
      pf = fopen(pth, "wb");
      if (pf) { fputs("orphan table left by a crashed compaction", pf); fclose(pf); }
      printf("RET %d num=%llu\n", pf ? 0 : -1, num);
    } else if (!strcmp(a[0], "flush")) {
      printf("RET %d\n", ldb_test_compact_memtable(g_db));
    } else if (!strcmp(a[0], "crange") && n >= 4) {
      vbytes b = parse_bytes(a[2][0] == '*' ? "-" : a[2]), e = parse_bytes(a[3][0] == '*' ? "-" : a[3]);
      ldb_slice_t bs = ldb_slice(b.p, b.n), es = ldb_slice(e.p, e.n);
      ldb_test_compact_range(g_db, atoi(a[1]), a[2][0] == '*' ? NULL : &bs, a[3][0] == '*' ? NULL : &es);
      printf("RET 0\n"); free(b.p); free(e.p);
    } else if (!strcmp(a[0], "compact") && n >= 3) {
      vbytes b = parse_bytes(a[1][0] == '*' ? "-" : a[1]), e = parse_bytes(a[2][0] == '*' ? "-" : a[2]);
      ldb_slice_t bs = ldb_slice(b.p, b.n), es = ldb_slice(e.p, e.n);
      ldb_compact(g_db, a[1][0] == '*' ? NULL : &bs, a[2][0] == '*' ? NULL : &es);
      printf("RET 0\n"); free(b.p); free(e.p);
    } else if ((!strcmp(a[0], "scan") || !strcmp(a[0], "rscan")) && n >= 2) {
      ldb_readopt_t ro = ro_default(); ldb_iter_t *it; int first = 1, fwd = a[0][0] == 's';
      ro.snapshot = snap_arg(a[1]);
      it = ldb_iterator(g_db, &ro);
      printf("RET ");
      for (fwd ? ldb_iter_first(it) : ldb_iter_last(it); ldb_iter_valid(it); fwd ? ldb_iter_next(it) : ldb_iter_prev(it)) {
        if (!first) putchar(',');
        first = 0; print_entry(it);
      }
      if (first) putchar('.');
      printf(" status=%d\n", ldb_iter_status(it));
      ldb_iter_destroy(it);
    } else if (!strcmp(a[0], "iter") && n >= 3) {
      ldb_readopt_t ro = ro_default(); ldb_iter_t *it;
      ro.snapshot = snap_arg(a[1]);
      it = ldb_iterator(g_db, &ro);
      printf("RET "); run_script(it, a[2]); putchar('\n');
      ldb_iter_destroy(it);
    } else if (!strcmp(a[0], "iopen") && n >= 3) {
      int id = atoi(a[1]) % MAXITER; ldb_readopt_t ro = ro_default();
      ro.snapshot = snap_arg(a[2]);
      if (g_iters[id]) ldb_iter_destroy(g_iters[id]);
      g_iters[id] = ldb_iterator(g_db, &ro);
      printf("RET opened %llx\n", (unsigned long long)g_db->versions->last_sequence);
    } else if (!strcmp(a[0], "istep") && n >= 3) {
      int id = atoi(a[1]) % MAXITER;
      if (g_iters[id]) { printf("RET "); run_script(g_iters[id], a[2]); putchar('\n'); }
      else printf("RET noiter\n");
    } else if (!strcmp(a[0], "iclose") && n >= 2) {
      int id = atoi(a[1]) % MAXITER;
      if (g_iters[id]) { ldb_iter_destroy(g_iters[id]); g_iters[id] = NULL; }
      printf("RET 0\n");
    } else if (!strcmp(a[0], "prop") && n >= 2) {
      char *v = NULL;
      if (ldb_property(g_db, a[1], &v)) { char *c; for (c = v; *c; c++) if (*c == '\n') *c = '|'; printf("RET %s\n", v); ldb_free(v); }
      else printf("RET none\n");
    } else {
      printf("RET badcmd\n");
    }
    defer_flush();
    fflush(stdout);
    k3_mark('Z', callno - 1, a[0]);
#ifndef K3
    g_calls_done = callno;
#endif
  }
  k3_mark('A', callno, "exit-close");
  do_close();
  k3_mark('Z', callno, "exit-close");
#ifdef K3
  printf("SITES %ld\n", k3calls);
#endif
  if (g_cache) ldb_lru_destroy(g_cache);
  if (g_bloom) ldb_bloom_destroy(g_bloom);
  return 0;
}
