/* k1_life.h -- K1 command for ldb_destroy (property C20):
 *   destroy_case <names> [<lost names>]      names: comma separated hex, "." = none
 * creates a scratch directory under $K1_TMPDIR holding those (empty) files and, when the
 * second argument is present, a subdirectory "lost" holding those; runs ldb_destroy;
 * prints what is left: the sorted names (hex, "." = none) or "gone" when the directory
 * itself was removed; with a lost subdirectory "<top> | <lost or gone>" (the name "lost"
 * itself is not listed in <top>).  Same format as ocaml/cmd_life.ml.
 * Hand-written glue: file creation, listing, printing only. */
#ifndef VERIF_K1_LIFE_H
#define VERIF_K1_LIFE_H
#include <dirent.h>
#include <fcntl.h>
#include <unistd.h>
#include <sys/stat.h>
#include "db_impl.h"

static int life_cmp(const void *a, const void *b) { return strcmp(*(char *const *)a, *(char *const *)b); }

/* returns 0 when the directory does not exist */
static int life_list(const char *dir, const char *skip, int remove_all) {
  DIR *d = opendir(dir); struct dirent *e; char *names[8192]; int n = 0, i;
  if (!d) return 0;
  while ((e = readdir(d)) != NULL && n < 8192)
    if (strcmp(e->d_name, ".") && strcmp(e->d_name, "..")) names[n++] = strdup(e->d_name);
  closedir(d);
  qsort(names, n, sizeof(char *), life_cmp);
  if (remove_all) {
    for (i = 0; i < n; i++) { char p[2048]; snprintf(p, sizeof(p), "%s/%s", dir, names[i]); if (unlink(p) != 0) rmdir(p); free(names[i]); }
    return 1;
  }
  {
    int first = 1;
    for (i = 0; i < n; i++) {
      if (skip == NULL || strcmp(names[i], skip)) {
        if (!first) putchar(',');
        first = 0; put_hex(stdout, (const uint8_t *)names[i], strlen(names[i]));
      }
      free(names[i]);
    }
    if (first) putchar('.');
  }
  return 1;
}

static int life_create(const char *dir, vlist l) {
  size_t i;
  for (i = 0; i < l.n; i++) {
    char p[2048]; int fd;
    if (l.v[i].n == 0 || l.v[i].n > 200 || memchr(l.v[i].p, 0, l.v[i].n) || memchr(l.v[i].p, '/', l.v[i].n)) return 0;
    l.v[i].p[l.v[i].n] = 0;
    snprintf(p, sizeof(p), "%s/%s", dir, (const char *)l.v[i].p);
    fd = open(p, O_WRONLY | O_CREAT | O_EXCL, 0644);
    if (fd < 0) return 0;
    close(fd);
  }
  return 1;
}

static void life_destroy_case(int argc, char **a) {
  static long counter = 0;
  const char *base = getenv("K1_TMPDIR"); char dir[1024], lost[1100];
  vlist top = parse_list(a[1]), sub; int have_lost = argc == 3, ok;
  if (!base) { printf("EXC no K1_TMPDIR"); free_list(top); return; }
  snprintf(dir, sizeof(dir), "%s/dc%ld_%ld", base, (long)getpid(), counter++);
  snprintf(lost, sizeof(lost), "%s/lost", dir);
  if (mkdir(dir, 0755) != 0) { printf("EXC mkdir"); free_list(top); return; }
  ok = life_create(dir, top);
  if (ok && have_lost) {
    sub = parse_list(a[2]);
    ok = mkdir(lost, 0755) == 0 && life_create(lost, sub);
    free_list(sub);
  }
  if (!ok) printf("EXC name");
  else {
    int rc = ldb_destroy(dir, NULL);
    if (rc != LDB_OK) printf("EXC destroy rc=%d", rc);
    else if (!life_list(dir, have_lost ? "lost" : NULL, 0)) printf("gone");
    else if (have_lost) { printf(" | "); if (!life_list(lost, NULL, 0)) printf("gone"); }
  }
  /* clean up whatever is left */
  life_list(lost, NULL, 1); rmdir(lost);
  life_list(dir, NULL, 1); rmdir(dir);
  free_list(top);
}

static int run_life(int argc, char **a) {
  if (!strcmp(a[0], "destroy_case") && (argc == 2 || argc == 3)) { life_destroy_case(argc, a); return 1; }
  return 0;
}
#endif
