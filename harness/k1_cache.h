/* k1_cache.h -- K1 command for the LRU cache (src/util/cache.c):
 *   lru <capacity> <script>
 * script: comma list ("." = empty) of
 *   i<key>:<val>:<charge>  ldb_lru_insert, the handle goes to the next slot
 *   l<key>                 ldb_lru_lookup, the handle (or a miss) goes to the next slot
 *   r<n>                   ldb_lru_release of the handle in slot n (no-op on an empty slot)
 *   e<key>                 ldb_lru_erase
 *   p                      ldb_lru_prune
 *   u                      ldb_lru_usage
 *   n                      ldb_lru_id
 * (key: hex bytes, "-" empty; numbers lowercase hex; slots count inserts and lookups from 0).
 * output: comma list of the observations in the order they happen:
 *   h<val> (hit, ldb_lru_value) | m (miss) | u<usage> | n<id> | d<key>:<val> (a deleter call);
 * after the script "|", then every handle still held is released (slot order), "|", then
 * ldb_lru_destroy.  Same format as ocaml/cmd_cache.ml.
 * Hand-written glue: parsing, printing, the slot array. */
#ifndef VERIF_K1_CACHE_H
#define VERIF_K1_CACHE_H
#include "util/cache.h"
#include "util/slice.h"

static int kc_first;
static void kc_sep(void) { if (!kc_first) putchar(','); kc_first = 0; }

static void kc_deleter(const ldb_slice_t *key, void *value) {
  kc_sep(); putchar('d'); put_hex(stdout, key->data, key->size);
  printf(":%llx", (unsigned long long)(uintptr_t)value);
}

static void kc_lru(char **a) {
  size_t capacity = (size_t)parse_num(a[1]);
  ldb_lru_t *lru = ldb_lru_create(capacity);
  const char *p = a[2];
  ldb_entry_t **slots = NULL; size_t nslots = 0, cap = 0, i;
  kc_first = 1;
  if (!(p[0] == '.' && p[1] == 0)) {
    for (;;) {
      const char *c = strchr(p, ',');
      size_t len = c ? (size_t)(c - p) : strlen(p);
      if (nslots == cap) { cap = cap ? cap * 2 : 64; slots = realloc(slots, cap * sizeof(*slots)); }
      switch (p[0]) {
        case 'i': {
          const char *c1 = memchr(p, ':', len); const char *c2;
          vbytes k; ldb_slice_t ks; uint64_t val, charge;
          if (!c1) { fprintf(stderr, "bad insert\n"); exit(2); }
          c2 = memchr(c1 + 1, ':', len - (size_t)(c1 + 1 - p));
          if (!c2) { fprintf(stderr, "bad insert\n"); exit(2); }
          k = parse_bytes_n(p + 1, (size_t)(c1 - p - 1));
          val = strtoull(c1 + 1, NULL, 16); charge = strtoull(c2 + 1, NULL, 16);
          ks = ldb_slice(k.p, k.n);
          slots[nslots++] = ldb_lru_insert(lru, &ks, (void *)(uintptr_t)val, (size_t)charge, kc_deleter);
          free(k.p);
          break;
        }
        case 'l': {
          vbytes k = parse_bytes_n(p + 1, len - 1); ldb_slice_t ks = ldb_slice(k.p, k.n);
          ldb_entry_t *h = ldb_lru_lookup(lru, &ks);
          slots[nslots++] = h;
          kc_sep();
          if (h) printf("h%llx", (unsigned long long)(uintptr_t)ldb_lru_value(h)); else putchar('m');
          free(k.p);
          break;
        }
        case 'r': {
          size_t n = (size_t)strtoull(p + 1, NULL, 16);
          if (n < nslots && slots[n]) { ldb_lru_release(lru, slots[n]); slots[n] = NULL; }
          break;
        }
        case 'e': {
          vbytes k = parse_bytes_n(p + 1, len - 1); ldb_slice_t ks = ldb_slice(k.p, k.n);
          ldb_lru_erase(lru, &ks); free(k.p);
          break;
        }
        case 'p': ldb_lru_prune(lru); break;
        case 'u': kc_sep(); printf("u%llx", (unsigned long long)ldb_lru_usage(lru)); break;
        case 'n': kc_sep(); printf("n%llx", (unsigned long long)ldb_lru_id(lru)); break;
        default: fprintf(stderr, "bad lru op\n"); exit(2);
      }
      if (!c) break;
      p = c + 1;
    }
  }
  kc_sep(); putchar('|');
  for (i = 0; i < nslots; i++)
    if (slots[i]) { ldb_lru_release(lru, slots[i]); slots[i] = NULL; }
  kc_sep(); putchar('|');
  ldb_lru_destroy(lru);
  free(slots);
}

static int run_cache(int argc, char **a) {
  if (!strcmp(a[0], "lru") && argc == 3) { kc_lru(a); return 1; }
  return 0;
}
#endif
