/* k1.c -- byte-exact differential driver (tie K1): runs lcdb's C codecs on the
 * cases read from stdin and prints one result line per case, in the same
 * format as the extracted Coq model's driver (ocaml/driver.ml). */
#include "common.h"
#include "util/buffer.h"
#include "util/coding.h"
#include "util/crc32c.h"
#include "util/slice.h"
#include "util/status.h"
#include "log_format.h"
#include "log_reader.h"
#include "log_writer.h"

#include "k1_ext.h"

/* ---- log reader reporter ---- */
typedef struct { ldb_reporter_t base; FILE *out; int first; } rep_t;
static void rep_corruption(ldb_reporter_t *r, size_t bytes, int status) {
  rep_t *x = (rep_t *)r;
  (void)status;
  fprintf(x->out, "%sD%lx", x->first ? "" : " ", (unsigned long)bytes);
  x->first = 0;
}

static void cmd_logwrite(char **a) {
  ldb_writer_t lw; ldb_buffer_t dst; vlist l = parse_list(a[2]); size_t i;
  ldb_buffer_init(&dst);
  ldb_writer_init(&lw, NULL, parse_num(a[1]));
  lw.dst = &dst;
  for (i = 0; i < l.n; i++) {
    ldb_slice_t s = ldb_slice(l.v[i].p, l.v[i].n);
    ldb_writer_add_record(&lw, &s);
  }
  put_hex(stdout, dst.data, dst.size);
  ldb_buffer_clear(&dst); free_list(l);
}

static void cmd_logread(char **a) {
  ldb_reader_t lr; rep_t rep; vbytes b = parse_bytes(a[2]);
  ldb_slice_t src = ldb_slice(b.p, b.n), rec; ldb_buffer_t scratch;
  memset(&rep, 0, sizeof(rep));
  rep.base.corruption = rep_corruption; rep.out = stdout; rep.first = 1;
  ldb_buffer_init(&scratch);
  ldb_reader_init(&lr, NULL, &rep.base, (int)parse_num(a[1]), 0);
  lr.src = &src;
  while (ldb_reader_read_record(&lr, &rec, &scratch)) {
    fprintf(stdout, "%sR", rep.first ? "" : " ");
    put_hex(stdout, rec.data, rec.size);
    rep.first = 0;
  }
  if (rep.first) fputc('.', stdout);
  ldb_reader_clear(&lr); ldb_buffer_clear(&scratch); free(b.p);
}

static int run(int argc, char **a) {
  const char *c = a[0];
  uint8_t tmp[16];
  if (!strcmp(c, "varint32_write") && argc == 2) {
    uint8_t *e = ldb_varint32_write(tmp, (uint32_t)parse_num(a[1])); put_hex(stdout, tmp, e - tmp);
  } else if (!strcmp(c, "varint64_write") && argc == 2) {
    uint8_t *e = ldb_varint64_write(tmp, parse_num(a[1])); put_hex(stdout, tmp, e - tmp);
  } else if (!strcmp(c, "varint32_size") && argc == 2) {
    printf("%lx", (unsigned long)ldb_varint32_size((uint32_t)parse_num(a[1])));
  } else if (!strcmp(c, "varint64_size") && argc == 2) {
    printf("%lx", (unsigned long)ldb_varint64_size(parse_num(a[1])));
  } else if (!strcmp(c, "varint32_read") && argc == 2) {
    vbytes b = parse_bytes(a[1]); const uint8_t *p = b.p; size_t n = b.n; uint32_t v;
    if (ldb_varint32_read(&v, &p, &n)) { printf("ok %lx ", (unsigned long)v); put_hex(stdout, p, n); }
    else printf("fail");
    free(b.p);
  } else if (!strcmp(c, "varint64_read") && argc == 2) {
    vbytes b = parse_bytes(a[1]); const uint8_t *p = b.p; size_t n = b.n; uint64_t v;
    if (ldb_varint64_read(&v, &p, &n)) { printf("ok %llx ", (unsigned long long)v); put_hex(stdout, p, n); }
    else printf("fail");
    free(b.p);
  } else if (!strcmp(c, "fixed32") && argc == 2) {
    ldb_fixed32_write(tmp, (uint32_t)parse_num(a[1])); put_hex(stdout, tmp, 4);
  } else if (!strcmp(c, "fixed64") && argc == 2) {
    ldb_fixed64_write(tmp, parse_num(a[1])); put_hex(stdout, tmp, 8);
  } else if (!strcmp(c, "slice_read") && argc == 2) {
    vbytes b = parse_bytes(a[1]); ldb_slice_t in = ldb_slice(b.p, b.n), z;
    if (ldb_slice_slurp(&z, &in)) { printf("ok "); put_hex(stdout, z.data, z.size); putchar(' '); put_hex(stdout, in.data, in.size); }
    else printf("fail");
    free(b.p);
  } else if (!strcmp(c, "crc") && argc == 2) {
    vbytes b = parse_bytes(a[1]); printf("%lx", (unsigned long)ldb_crc32c_value(b.p, b.n)); free(b.p);
  } else if (!strcmp(c, "crc_al") && argc == 3) {
    /* same CRC, data placed at a chosen alignment (exercises the word-at-a-time paths) */
    vbytes b = parse_bytes(a[2]); size_t al = (size_t)parse_num(a[1]) & 63;
    uint8_t *raw = malloc(b.n + 128); uint8_t *p = raw + (64 - ((uintptr_t)raw & 63)) + al;
    memcpy(p, b.p, b.n);
    printf("%lx", (unsigned long)ldb_crc32c_value(p, b.n)); free(raw); free(b.p);
  } else if (!strcmp(c, "crc_extend") && argc == 3) {
    vbytes b = parse_bytes(a[2]);
    printf("%lx", (unsigned long)ldb_crc32c_extend((uint32_t)parse_num(a[1]), b.p, b.n)); free(b.p);
  } else if (!strcmp(c, "crc_mask") && argc == 2) {
    printf("%lx", (unsigned long)ldb_crc32c_mask((uint32_t)parse_num(a[1])));
  } else if (!strcmp(c, "crc_unmask") && argc == 2) {
    printf("%lx", (unsigned long)ldb_crc32c_unmask((uint32_t)parse_num(a[1])));
  } else if (!strcmp(c, "logwrite") && argc == 3) {
    cmd_logwrite(a);
  } else if (!strcmp(c, "logread") && argc == 3) {
    cmd_logread(a);
  } else if (!run_ext(argc, a)) {
    printf("EXC unknown-cmd");
  }
  return 0;
}

int main(void) {
  char *line = NULL; size_t cap = 0; char *argv[16];
  ldb_crc32c_init();
  while (getline(&line, &cap, stdin) > 0) {
    int argc = split_line(line, argv, 16);
    if (argc == 0) continue;
    run(argc, argv);
    putchar('\n');
  }
  fflush(stdout);
  return 0;
}
