/* k10.c -- multi-threaded workload driver for property C10 (one handle shared by
 * threads without data races).  Self-contained; public API only.
 *
 *   k10 <dir> <seed> <scenario> <nthreads> <nops>
 *
 * N threads hammer ONE handle: put / del / write-batch / get / has / iterate
 * (each iterator used by one thread) / snapshot / release / compact-range /
 * property / approximate-sizes / backup.  One snapshot taken before the
 * threads start is read by all of them and released after the joins.  The
 * handle is closed after the last join, then reopened (paranoid) and scanned.
 * Small write buffer and values of 0.2..6 KiB: memtable switches, level-0
 * flushes and background compactions run concurrently with the operations.
 *
 * Scenarios: 0 mixed; 1 write-heavy + memtable readers (skiplist);
 * 2 snapshots/iterators; 3 compaction/backup/property; 4 tiny block cache and
 * few open files (table-cache eviction, reads of files being retired);
 * 6 more table files (~200 one-key tables made before the threads start) than the table cache holds (64), read-heavy;
 * 5 TWO handles (two databases) in one process, half of the threads on each: whatever the library
 * keeps in storage of static duration is shared between them (Snappy always on in this scenario).
 *
 * Built with -fsanitize=thread (and address): the sanitizer is the oracle.
 * Exit 0 = workload finished; 3 = a read returned bytes that were never written.
 */
#include <stdio.h>
#include <stdlib.h>
#include <string.h>
#include <stdint.h>
#include <pthread.h>
#include <lcdb.h>

#define NKEYS 600
#define MAXT 16

typedef struct { uint64_t s; } rng_t;
static uint64_t rnd(rng_t *r) {
  uint64_t z;
  r->s += 0x9E3779B97F4A7C15ull; z = r->s;
  z = (z ^ (z >> 30)) * 0xBF58476D1CE4E5B9ull;
  z = (z ^ (z >> 27)) * 0x94D049BB133111EBull;
  return z ^ (z >> 31);
}
static unsigned below(rng_t *r, unsigned n) { return n ? (unsigned)(rnd(r) % n) : 0; }

typedef struct {
  ldb_t *db;
  const ldb_snapshot_t *shared_snap;
  const char *dir;
  uint64_t seed;
  int scenario, tid, nops;
  long gets, hits, writes, iters, steps, snaps, compacts, props, backups, bad;
} worker_t;

/* schedule perturbation inside the library (link with -Wl,--wrap=ldb_table_internal_get): every few table lookups the
 * reading thread pauses before it touches the table object, which gives the other threads time to evict that table
 * from the table cache -- harmless as long as the reader pins its cache entry until the lookup is over */
#include <unistd.h>
struct ldb_table_s; struct ldb_readopt_s; struct ldb_slice_s;
int __real_ldb_table_internal_get(struct ldb_table_s *table, const struct ldb_readopt_s *options, const struct ldb_slice_s *k,
                                  void *arg, void (*handle_result)(void *, const struct ldb_slice_s *, const struct ldb_slice_s *));
static volatile int g_pause_reads = 0; static volatile unsigned g_read_ctr = 0;
int __wrap_ldb_table_internal_get(struct ldb_table_s *table, const struct ldb_readopt_s *options, const struct ldb_slice_s *k,
                                  void *arg, void (*handle_result)(void *, const struct ldb_slice_s *, const struct ldb_slice_s *)) {
  if (g_pause_reads && (__atomic_fetch_add(&g_read_ctr, 1, __ATOMIC_RELAXED) % 5) == 0) usleep(150);
  return __real_ldb_table_internal_get(table, options, k, arg, handle_result);
}

static int mkkey(char *buf, unsigned k) { return sprintf(buf, "key%06u", k); }

/* value = key bytes, then a tag byte repeated; verifiable without shared state */
static size_t mkval(char *buf, const char *key, int klen, rng_t *r) {
  size_t n = 200 + below(r, below(r, 8) == 0 ? 6000 : 1200);
  unsigned char tag = (unsigned char)('a' + below(r, 26));
  memcpy(buf, key, klen);
  memset(buf + klen, tag, n - klen);
  return n;
}

static int valok(const ldb_slice_t *key, const ldb_slice_t *val) {
  size_t i; const unsigned char *p = val->data;
  if (val->size < key->size + 1 || memcmp(p, key->data, key->size) != 0) return 0;
  for (i = key->size + 1; i < val->size; i++)
    if (p[i] != p[key->size]) return 0;
  return 1;
}

static const int MIX[7][10] = {
  /* put del batch get iter snap compact prop sizes backup */
  { 30, 6, 8, 30, 8, 6, 2, 4, 4, 2 },
  { 45, 8, 12, 30, 3, 1, 0, 1, 0, 0 },
  { 20, 4, 6, 20, 25, 20, 1, 2, 2, 0 },
  { 30, 5, 8, 15, 5, 3, 10, 10, 8, 6 },
  { 25, 5, 6, 45, 12, 3, 2, 1, 1, 0 },
  { 45, 6, 10, 20, 5, 3, 3, 2, 2, 0 },       /* 5: two handles, write-heavy (flushes and compactions on both) */
  { 0, 0, 0, 85, 13, 1, 0, 1, 0, 0 },        /* 6: many more table files than table-cache entries, read-heavy: constant eviction under readers */
};

static void *worker(void *arg) {
  worker_t *w = arg;
  rng_t r; char kb[32], kb2[32]; char *vb = malloc(8192);
  const ldb_snapshot_t *snaps[4] = {0, 0, 0, 0};
  int i, total = 0, op;
  r.s = w->seed * 1000003u + (uint64_t)w->tid * 7919u + 17;
  for (i = 0; i < 10; i++) total += MIX[w->scenario][i];
  for (op = 0; op < w->nops; op++) {
    int x = (int)below(&r, total), c = 0;
    ldb_slice_t key, val;
    int klen;
    while (x >= MIX[w->scenario][c]) { x -= MIX[w->scenario][c]; c++; }
    klen = mkkey(kb, below(&r, NKEYS));
    key = ldb_slice(kb, klen);
    switch (c) {
    case 0: {
      val = ldb_slice(vb, mkval(vb, kb, klen, &r));
      ldb_put(w->db, &key, &val, NULL); w->writes++;
      break;
    }
    case 1:
      ldb_del(w->db, &key, NULL); w->writes++;
      break;
    case 2: {
      ldb_batch_t b; int n = 1 + below(&r, 12), j;
      ldb_batch_init(&b);
      for (j = 0; j < n; j++) {
        klen = mkkey(kb, below(&r, NKEYS)); key = ldb_slice(kb, klen);
        if (below(&r, 5) == 0) ldb_batch_del(&b, &key);
        else { val = ldb_slice(vb, mkval(vb, kb, klen, &r)); ldb_batch_put(&b, &key, &val); }
      }
      ldb_write(w->db, &b, NULL); w->writes++;
      ldb_batch_clear(&b);
      break;
    }
    case 3: {
      ldb_readopt_t ro = *ldb_readopt_default;
      int which = (int)below(&r, 6), rc;
      if (which == 0) ro.snapshot = w->shared_snap;
      else if (which == 1 && snaps[0]) ro.snapshot = snaps[0];
      ro.fill_cache = (int)below(&r, 2);
      ro.verify_checksums = (int)below(&r, 2);
      if (below(&r, 8) == 0) { ldb_has(w->db, &key, &ro); w->gets++; break; }
      rc = ldb_get(w->db, &key, &val, &ro); w->gets++;
      if (rc == LDB_OK) {
        w->hits++;
        if (!valok(&key, &val)) w->bad++;
        ldb_free(val.data);
      }
      break;
    }
    case 4: {
      ldb_readopt_t ro = *ldb_iteropt_default;
      ldb_iter_t *it; int n = 5 + below(&r, 60), back = (int)below(&r, 3) == 0;
      if (below(&r, 4) == 0) ro.snapshot = w->shared_snap;
      else if (below(&r, 3) == 0 && snaps[1]) ro.snapshot = snaps[1];
      it = ldb_iterator(w->db, &ro); w->iters++;
      if (below(&r, 6) == 0) { if (back) ldb_iter_last(it); else ldb_iter_first(it); }
      else ldb_iter_seek(it, &key);
      while (n-- > 0 && ldb_iter_valid(it)) {
        ldb_slice_t k = ldb_iter_key(it), v = ldb_iter_value(it);
        if (!valok(&k, &v)) w->bad++;
        w->steps++;
        if (below(&r, 16) == 0) back = !back;
        if (back) ldb_iter_prev(it); else ldb_iter_next(it);
        if (w->scenario != 6 && (n & 15) == 0 && below(&r, 4) == 0) {       /* writes while the iterator is open */
          klen = mkkey(kb2, below(&r, NKEYS)); key = ldb_slice(kb2, klen);
          val = ldb_slice(vb, mkval(vb, kb2, klen, &r));
          ldb_put(w->db, &key, &val, NULL); w->writes++;
        }
      }
      ldb_iter_destroy(it);
      break;
    }
    case 5: {
      int s = (int)below(&r, 4);
      if (snaps[s]) { ldb_release(w->db, snaps[s]); snaps[s] = NULL; }
      else { snaps[s] = ldb_snapshot(w->db); w->snaps++; }
      break;
    }
    case 6: {
      klen = mkkey(kb2, below(&r, NKEYS));
      val = ldb_slice(kb2, klen);
      if (below(&r, 4) == 0) ldb_compact(w->db, NULL, NULL);
      else if (memcmp(kb, kb2, klen) <= 0) ldb_compact(w->db, &key, &val);
      else ldb_compact(w->db, &val, &key);
      w->compacts++;
      break;
    }
    case 7: {
      static const char *P[] = { "leveldb.stats", "leveldb.sstables", "leveldb.num-files-at-level0",
                                 "leveldb.num-files-at-level1", "leveldb.approximate-memory-usage", "leveldb.nope" };
      char *v = NULL;
      if (ldb_property(w->db, P[below(&r, 6)], &v)) ldb_free(v);
      w->props++;
      break;
    }
    case 8: {
      ldb_range_t rg[2]; uint64_t sz[2];
      klen = mkkey(kb2, below(&r, NKEYS));
      rg[0].start = ldb_slice("key000000", 9); rg[0].limit = key;
      rg[1].start = ldb_slice(kb2, klen); rg[1].limit = ldb_slice("key999999", 9);
      ldb_approximate_sizes(w->db, rg, 2, sz);
      w->props++;
      break;
    }
    case 9: {
      char path[1200];
      sprintf(path, "%s/bak-%d-%d", w->dir, w->tid, op);
      ldb_backup(w->db, path); w->backups++;
      break;
    }
    }
  }
  for (i = 0; i < 4; i++) if (snaps[i]) ldb_release(w->db, snaps[i]);
  free(vb);
  return NULL;
}

int main(int argc, char **argv) {
  char path[1100]; pthread_t th[MAXT]; worker_t ws[MAXT];
  ldb_dbopt_t opt = *ldb_dbopt_default;
  ldb_lru_t *cache = NULL;
  ldb_t *db, *db2 = NULL; int rc, i, nthreads, nops, scenario; uint64_t seed;
  long g = 0, h = 0, wr = 0, it = 0, st = 0, sn = 0, cp = 0, pr = 0, bk = 0, bad = 0, rows = 0;
  char *v = NULL; int l0 = -1;
  if (argc < 6) { fprintf(stderr, "usage: k10 dir seed scenario nthreads nops\n"); return 2; }
  seed = strtoull(argv[2], 0, 10); scenario = atoi(argv[3]) % 7; nthreads = atoi(argv[4]); nops = atoi(argv[5]);
  if (nthreads < 1) nthreads = 1; if (nthreads > MAXT) nthreads = MAXT;
  sprintf(path, "%s/db", argv[1]);
  opt.create_if_missing = 1;
  opt.write_buffer_size = 64 * 1024;
  opt.max_file_size = 1 << 20;
  opt.block_size = 1024;
  opt.compression = (seed & 1) ? LDB_SNAPPY_COMPRESSION : LDB_NO_COMPRESSION;
  opt.filter_policy = (seed & 2) ? ldb_bloom_default : NULL;
  opt.use_mmap = (seed & 4) ? 1 : 0;
  if (scenario == 4 || scenario == 6) {
    cache = ldb_lru_create(16 * 1024); opt.block_cache = cache;
    opt.max_open_files = 20;
  }
  if (scenario == 5) opt.compression = LDB_SNAPPY_COMPRESSION;
  rc = ldb_open(path, &opt, &db);
  if (rc != LDB_OK) { printf("K10 open failed: %s\n", ldb_strerror(rc)); return 2; }
  if (scenario == 5) {
    char path2[1100]; sprintf(path2, "%s/db2", argv[1]);
    rc = ldb_open(path2, &opt, &db2);
    if (rc != LDB_OK) { printf("K10 open (second handle) failed: %s\n", ldb_strerror(rc)); return 2; }
  }
  if (scenario == 6) g_pause_reads = 1;
  if (scenario == 6) { /* one tiny table per key: put + compact of exactly that key (flush, then pushed down by trivial moves) */
    rng_t r; char kb[32], *vb = malloc(8192); r.s = seed ^ 0x66;
    for (i = 0; i < 200; i++) {
      int klen = mkkey(kb, (unsigned)(i * 3) % NKEYS); ldb_slice_t k = ldb_slice(kb, klen), val;
      val = ldb_slice(vb, mkval(vb, kb, klen, &r)); ldb_put(db, &k, &val, NULL);
      ldb_compact(db, &k, &k);
    }
    free(vb);
  }
  if (scenario != 6)
  { /* some data before the threads start, and the shared snapshot */
    rng_t r; char kb[32], *vb = malloc(8192); r.s = seed;
    for (i = 0; i < 300; i++) {
      int klen = mkkey(kb, below(&r, NKEYS)); ldb_slice_t k = ldb_slice(kb, klen), val;
      val = ldb_slice(vb, mkval(vb, kb, klen, &r)); ldb_put(db, &k, &val, NULL);
    }
    free(vb);
  }
  memset(ws, 0, sizeof(ws));
  ws[0].shared_snap = ldb_snapshot(db);
  for (i = 0; i < nthreads; i++) {
    ws[i].db = (db2 != NULL && (i & 1)) ? db2 : db; ws[i].shared_snap = (db2 != NULL && (i & 1)) ? NULL : ws[0].shared_snap; ws[i].dir = argv[1]; ws[i].seed = seed;
    ws[i].scenario = scenario; ws[i].tid = i; ws[i].nops = nops;
    pthread_create(&th[i], NULL, worker, &ws[i]);
  }
  for (i = 0; i < nthreads; i++) pthread_join(th[i], NULL);
  ldb_release(db, ws[0].shared_snap);
  if (ldb_property(db, "leveldb.num-files-at-level0", &v)) { l0 = atoi(v); ldb_free(v); }
  v = NULL;
  if (ldb_property(db, "leveldb.sstables", &v)) {
    char *p = v; while ((p = strchr(p, '\n')) != NULL) { rows++; p++; }
    ldb_free(v);
  }
  ldb_close(db);
  if (db2 != NULL) ldb_close(db2);
  for (i = 0; i < nthreads; i++) {
    g += ws[i].gets; h += ws[i].hits; wr += ws[i].writes; it += ws[i].iters; st += ws[i].steps;
    sn += ws[i].snaps; cp += ws[i].compacts; pr += ws[i].props; bk += ws[i].backups; bad += ws[i].bad;
  }
  { /* reopen and scan */
    ldb_iter_t *iter; long n = 0; ldb_readopt_t ro = *ldb_iteropt_default;
    opt.paranoid_checks = 1; ro.verify_checksums = 1;
    rc = ldb_open(path, &opt, &db);
    if (rc != LDB_OK) { printf("K10 reopen failed: %s\n", ldb_strerror(rc)); return 3; }
    iter = ldb_iterator(db, &ro);
    for (ldb_iter_first(iter); ldb_iter_valid(iter); ldb_iter_next(iter)) {
      ldb_slice_t k = ldb_iter_key(iter), val = ldb_iter_value(iter);
      if (!valok(&k, &val)) bad++;
      n++;
    }
    if (ldb_iter_status(iter) != LDB_OK) bad++;
    ldb_iter_destroy(iter);
    ldb_close(db);
    printf("K10 done threads=%d writes=%ld gets=%ld hits=%ld iters=%ld steps=%ld snaps=%ld compacts=%ld props=%ld backups=%ld l0=%d tablelines=%ld final=%ld bad=%ld\n",
           nthreads, wr, g, h, it, st, sn, cp, pr, bk, l0, rows, n, bad);
  }
  if (cache) ldb_lru_destroy(cache);
  return bad ? 3 : 0;
}
