/* k1_skiplist.h -- K1 commands for the memtable layer (src/skiplist.c, src/memtable.c):
 *
 *   skiplist <seed> <keys> <script>
 *     a real ldb_skiplist_t over an arena with ldb_bytewise_comparator; list->rnd is re-seeded
 *     with ldb_rand_init(&list->rnd, seed) right after ldb_skiplist_init (which seeds it with
 *     0xdeadbeef: pass deadbeef for the stock behaviour); the keys (comma list of hex strings,
 *     "." none; stored length-prefixed as the skiplist expects) are inserted in order; then the
 *     iterator script (F | L | S<key> | N | P, "." none; N and P are skipped when not valid).
 *     output: <heights> <max_height> <levels> <visited>
 *       heights : one hex digit per inserted node, insertion order ("." none), read from the
 *                 structure (number of levels whose chain contains the node)
 *       levels  : for level 0 .. max_height-1 the chain of node numbers (hex, 1 = first insert),
 *                 comma separated, "." for an empty level, levels separated by "/"
 *       visited : key (hex) or "!" after every script op, comma separated ("." none)
 *     White box: the node layout of skiplist.c (key pointer + next[] array) is mirrored here.
 *
 *   memtable <cmp> <adds> <gets> <script>
 *     cmp: 0 bytewise, 1 reverse bytewise, 2 ASCII case-insensitive user comparator
 *     adds: comma list of <seq>:<type>:<key>:<value> (ldb_memtable_add), "." none
 *     gets: comma list of <key>:<seq> (ldb_lkey_init + ldb_memtable_get), "." none
 *     script: as above over ldb_memiter_create (seek targets are internal keys)
 *     output: <gets> <visited>   gets: v<value> | d | n ; visited: <ikey>=<value> | !
 *
 * Same formats as ocaml/cmd_skiplist.ml.  Hand-written glue: parsing, printing, the walk. */
#ifndef VERIF_K1_SKIPLIST_H
#define VERIF_K1_SKIPLIST_H
#include "util/arena.h"
#include "util/buffer.h"
#include "util/coding.h"
#include "util/comparator.h"
#include "util/port.h"
#include "util/random.h"
#include "util/slice.h"
#include "util/status.h"
#include "table/iterator.h"
#include "dbformat.h"
#include "memtable.h"
#include "skiplist.h"

/* mirror of struct ldb_skipnode_s (private to skiplist.c) */
typedef struct kz_node_s { const uint8_t *key; struct kz_node_s *next[1]; } kz_node_t;

static void kz_skiplist(char **a) {
  ldb_arena_t arena; ldb_skiplist_t list; ldb_mutex_t mu; ldb_skipiter_t it;
  vlist keys = parse_list(a[2]); const uint8_t **stored; int *height; size_t i; int l, maxh;
  const char *p = a[3]; int first = 1;
  ldb_arena_init(&arena); ldb_mutex_init(&mu);
  ldb_skiplist_init(&list, ldb_bytewise_comparator, &arena, &mu);
  ldb_rand_init(&list.rnd, (uint32_t)parse_num(a[1]));
  stored = malloc((keys.n + 1) * sizeof(*stored)); height = calloc(keys.n + 1, sizeof(int));
  for (i = 0; i < keys.n; i++) {
    uint8_t *buf = ldb_arena_alloc(&arena, keys.v[i].n + 5), *zp;
    zp = ldb_varint32_write(buf, (uint32_t)keys.v[i].n);
    if (keys.v[i].n) memcpy(zp, keys.v[i].p, keys.v[i].n);
    stored[i] = buf;
    ldb_skiplist_insert(&list, buf);
  }
#ifdef LDB_HAVE_ATOMICS
  maxh = (int)ldb_atomic_load(&list.max_height, ldb_order_relaxed);
#else
  maxh = list.max_height;
#endif
  /* heights from the structure */
  for (l = 0; l < maxh; l++) {
    kz_node_t *x = ((kz_node_t *)list.head)->next[l];
    for (; x != NULL; x = x->next[l])
      for (i = 0; i < keys.n; i++) if (stored[i] == x->key) { height[i]++; break; }
  }
  if (keys.n == 0) putchar('.');
  for (i = 0; i < keys.n; i++) printf("%x", height[i]);
  printf(" %x ", maxh);
  for (l = 0; l < maxh; l++) {
    kz_node_t *x = ((kz_node_t *)list.head)->next[l]; int f = 1;
    if (l) putchar('/');
    if (x == NULL) putchar('.');
    for (; x != NULL; x = x->next[l]) {
      for (i = 0; i < keys.n; i++) if (stored[i] == x->key) break;
      printf("%s%lx", f ? "" : ",", (unsigned long)(i + 1)); f = 0;
    }
  }
  putchar(' ');
  ldb_skipiter_init(&it, &list);
  if (!(p[0] == '.' && p[1] == 0)) {
    for (;;) {
      const char *c = strchr(p, ',');
      size_t len = c ? (size_t)(c - p) : strlen(p);
      switch (p[0]) {
        case 'F': ldb_skipiter_first(&it); break;
        case 'L': ldb_skipiter_last(&it); break;
        case 'N': if (ldb_skipiter_valid(&it)) ldb_skipiter_next(&it); break;
        case 'P': if (ldb_skipiter_valid(&it)) ldb_skipiter_prev(&it); break;
        case 'S': {
          vbytes t = parse_bytes_n(p + 1, len - 1); uint8_t *buf = malloc(t.n + 5), *zp;
          zp = ldb_varint32_write(buf, (uint32_t)t.n);
          if (t.n) memcpy(zp, t.p, t.n);
          ldb_skipiter_seek(&it, buf); free(buf); free(t.p); break;
        }
        default: fprintf(stderr, "bad script op\n"); exit(2);
      }
      if (!first) putchar(',');
      first = 0;
      if (ldb_skipiter_valid(&it)) {
        ldb_slice_t k = ldb_slice_decode(ldb_skipiter_key(&it)); put_hex(stdout, k.data, k.size);
      } else putchar('!');
      if (!c) break;
      p = c + 1;
    }
  }
  if (first) putchar('.');
  free(stored); free(height); free_list(keys);
  ldb_arena_clear(&arena); ldb_mutex_destroy(&mu);
}

/* ---- user comparators (same as harness/k2.c) ---- */
static int kz_rev_compare(const ldb_comparator_t *c, const ldb_slice_t *x, const ldb_slice_t *y) {
  size_t n = x->size < y->size ? x->size : y->size; int r = n ? memcmp(x->data, y->data, n) : 0;
  (void)c;
  if (r == 0) r = (x->size < y->size) ? -1 : (x->size > y->size) ? 1 : 0;
  return -r;
}
static int kz_fold(int c) { return (c >= 65 && c <= 90) ? c + 32 : c; }
static int kz_ci_compare(const ldb_comparator_t *c, const ldb_slice_t *x, const ldb_slice_t *y) {
  size_t n = x->size < y->size ? x->size : y->size, i;
  (void)c;
  for (i = 0; i < n; i++) {
    int a = kz_fold(((const uint8_t *)x->data)[i]), b = kz_fold(((const uint8_t *)y->data)[i]);
    if (a != b) return a < b ? -1 : 1;
  }
  return (x->size < y->size) ? -1 : (x->size > y->size) ? 1 : 0;
}
static ldb_comparator_t kz_rev = { "verif.ReverseBytewise", kz_rev_compare, NULL, NULL, NULL, NULL };
static ldb_comparator_t kz_ci = { "verif.CaseInsensitive", kz_ci_compare, NULL, NULL, NULL, NULL };

/* split "a:b:c:d" (fields of at most n) in place on a copy; returns the field count */
static int kz_fields(const char *s, size_t len, char *copy, char **f, int n) {
  int k = 0; size_t i;
  memcpy(copy, s, len); copy[len] = 0;
  f[k++] = copy;
  for (i = 0; i < len && k < n; i++) if (copy[i] == ':') { copy[i] = 0; f[k++] = copy + i + 1; }
  return k;
}

static void kz_memtable(char **a) {
  int sel = (int)parse_num(a[1]);
  const ldb_comparator_t *user = sel == 1 ? &kz_rev : sel == 2 ? &kz_ci : ldb_bytewise_comparator;
  ldb_comparator_t ikc; ldb_memtable_t *mt; const char *p; int first;
  char *copy = malloc(strlen(a[2]) + strlen(a[3]) + 2); char *f[4];
  ldb_ikc_init(&ikc, user);
  mt = ldb_memtable_create(&ikc); ldb_memtable_ref(mt);
  p = a[2];
  if (!(p[0] == '.' && p[1] == 0)) {
    for (;;) {
      const char *c = strchr(p, ',');
      size_t len = c ? (size_t)(c - p) : strlen(p);
      vbytes k, v; ldb_slice_t ks, vs;
      if (kz_fields(p, len, copy, f, 4) != 4) { fprintf(stderr, "bad add\n"); exit(2); }
      k = parse_bytes(f[2]); v = parse_bytes(f[3]);
      ks = ldb_slice(k.p, k.n); vs = ldb_slice(v.p, v.n);
      ldb_memtable_add(mt, (ldb_seqnum_t)parse_num(f[0]), (ldb_valtype_t)parse_num(f[1]), &ks, &vs);
      free(k.p); free(v.p);
      if (!c) break;
      p = c + 1;
    }
  }
  p = a[3]; first = 1;
  if (!(p[0] == '.' && p[1] == 0)) {
    for (;;) {
      const char *c = strchr(p, ',');
      size_t len = c ? (size_t)(c - p) : strlen(p);
      vbytes k; ldb_slice_t ks; ldb_lkey_t lk; ldb_buffer_t val; int status = LDB_OK;
      if (kz_fields(p, len, copy, f, 2) != 2) { fprintf(stderr, "bad get\n"); exit(2); }
      k = parse_bytes(f[0]); ks = ldb_slice(k.p, k.n);
      ldb_buffer_init(&val);
      ldb_lkey_init(&lk, &ks, (ldb_seqnum_t)parse_num(f[1]));
      if (!first) putchar(',');
      first = 0;
      if (ldb_memtable_get(mt, &lk, &val, &status)) {
        if (status == LDB_NOTFOUND) putchar('d');
        else { putchar('v'); put_hex(stdout, val.data, val.size); }
      } else putchar('n');
      ldb_lkey_clear(&lk); ldb_buffer_clear(&val); free(k.p);
      if (!c) break;
      p = c + 1;
    }
  }
  if (first) putchar('.');
  putchar(' ');
  {
    ldb_iter_t *it = ldb_memiter_create(mt);
    p = a[4]; first = 1;
    if (!(p[0] == '.' && p[1] == 0)) {
      for (;;) {
        const char *c = strchr(p, ',');
        size_t len = c ? (size_t)(c - p) : strlen(p);
        switch (p[0]) {
          case 'F': ldb_iter_first(it); break;
          case 'L': ldb_iter_last(it); break;
          case 'N': if (ldb_iter_valid(it)) ldb_iter_next(it); break;
          case 'P': if (ldb_iter_valid(it)) ldb_iter_prev(it); break;
          case 'S': {
            vbytes t = parse_bytes_n(p + 1, len - 1); ldb_slice_t ts = ldb_slice(t.p, t.n);
            ldb_iter_seek(it, &ts); free(t.p); break;
          }
          default: fprintf(stderr, "bad script op\n"); exit(2);
        }
        if (!first) putchar(',');
        first = 0;
        if (ldb_iter_valid(it)) {
          ldb_slice_t k = ldb_iter_key(it), v = ldb_iter_value(it);
          put_hex(stdout, k.data, k.size); putchar('='); put_hex(stdout, v.data, v.size);
        } else putchar('!');
        if (!c) break;
        p = c + 1;
      }
    }
    if (first) putchar('.');
    ldb_iter_destroy(it);
  }
  free(copy);
  ldb_memtable_unref(mt);
}

static int run_skiplist(int argc, char **a) {
  if (!strcmp(a[0], "skiplist") && argc == 4) { kz_skiplist(a); return 1; }
  if (!strcmp(a[0], "memtable") && argc == 5) { kz_memtable(a); return 1; }
  return 0;
}
#endif
