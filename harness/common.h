/* common.h -- argument parsing shared by the C drivers (hand-written glue).
 * Same line protocol as ocaml/driver.ml: numbers are lowercase hex, byte
 * strings hex ("-" empty) or "@<len>:<seed>" patterns. */
#ifndef VERIF_COMMON_H
#define VERIF_COMMON_H
#include <stdio.h>
#include <stdlib.h>
#include <string.h>
#include <stdint.h>

typedef struct { uint8_t *p; size_t n; } vbytes;

static int hexval(int c) {
  if (c >= '0' && c <= '9') return c - '0';
  if (c >= 'a' && c <= 'f') return c - 'a' + 10;
  if (c >= 'A' && c <= 'F') return c - 'A' + 10;
  fprintf(stderr, "bad hex char %c\n", c); exit(2);
}

static uint8_t pattern_byte(unsigned seed, size_t i) {
  return (uint8_t)((seed + i * 31 + (i / 251)) & 255);
}

/* parse token [s, s+len) into a malloc'ed buffer (never NULL) */
static vbytes parse_bytes_n(const char *s, size_t len) {
  vbytes b; size_t i;
  if (len == 1 && s[0] == '-') { b.p = malloc(1); b.n = 0; return b; }
  if (s[0] == '@') {
    unsigned long l = strtoul(s + 1, NULL, 10);
    const char *c = memchr(s, ':', len);
    unsigned seed = c ? (unsigned)strtoul(c + 1, NULL, 10) : 0;
    b.p = malloc(l + 1); b.n = l;
    for (i = 0; i < l; i++) b.p[i] = pattern_byte(seed, i);
    return b;
  }
  b.n = len / 2; b.p = malloc(b.n + 1);
  for (i = 0; i < b.n; i++) b.p[i] = (uint8_t)(hexval(s[2*i]) * 16 + hexval(s[2*i+1]));
  return b;
}
static vbytes parse_bytes(const char *s) { return parse_bytes_n(s, strlen(s)); }

static uint64_t parse_num(const char *s) { return strtoull(s, NULL, 16); }

static void put_hex(FILE *f, const uint8_t *p, size_t n) {
  static const char *d = "0123456789abcdef";
  size_t i;
  if (n == 0) { fputc('-', f); return; }
  for (i = 0; i < n; i++) { fputc(d[p[i] >> 4], f); fputc(d[p[i] & 15], f); }
}

/* split a comma list ("." = empty list) */
typedef struct { vbytes *v; size_t n; } vlist;
static vlist parse_list(const char *s) {
  vlist l; size_t cap = 8; const char *p = s;
  l.v = malloc(cap * sizeof(vbytes)); l.n = 0;
  if (s[0] == '.' && s[1] == 0) return l;
  for (;;) {
    const char *e = strchr(p, ',');
    size_t len = e ? (size_t)(e - p) : strlen(p);
    if (l.n == cap) { cap *= 2; l.v = realloc(l.v, cap * sizeof(vbytes)); }
    l.v[l.n++] = parse_bytes_n(p, len);
    if (!e) break;
    p = e + 1;
  }
  return l;
}
static void free_list(vlist l) { size_t i; for (i = 0; i < l.n; i++) free(l.v[i].p); free(l.v); }

/* tokenise a line in place; returns argc */
static int split_line(char *line, char **argv, int max) {
  int n = 0; char *p = line;
  while (*p) {
    while (*p == ' ' || *p == '\n' || *p == '\r') p++;
    if (!*p) break;
    if (n < max) argv[n++] = p;
    while (*p && *p != ' ' && *p != '\n' && *p != '\r') p++;
    if (*p) *p++ = 0;
  }
  return n;
}
#endif
