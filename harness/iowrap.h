/* iowrap.h -- link-time interposition of the libc calls lcdb's unix env makes
 * (tie K3).  Built only into the k3 binary (-DK3 and -Wl,--wrap=...).
 * Records every call that touches the database directory into $K3_TRACE, keeps a
 * shadow copy of every byte written (so that crash images can be materialised for any
 * trace point), and can inject a failure into the n-th intercepted call. */
#ifndef VERIF_IOWRAP_H
#define VERIF_IOWRAP_H
#ifdef K3
#include <errno.h>
#include <fcntl.h>
#include <stdarg.h>
#include <sys/mman.h>
#include <sys/stat.h>
#include <unistd.h>

#define K3_MAXFD 4096
typedef struct { int used; int id; int isdir; int writable; int shadow; char path[600]; } k3fd_t;
static k3fd_t k3fds[K3_MAXFD];
static FILE *k3tr = NULL;
static char k3root[600];       /* database directory prefix being traced */
static char k3shadow[600];
static int k3nextid = 0;
static long k3calls = 0;       /* intercepted calls so far (fault injection counter) */
static long k3fail_at = -1;    /* fail the call with this index ... */
static int k3fail_errno = EIO;
static int k3fail_persistent = 0;
static int k3fail_partial = 0; /* a failing write first writes half of its buffer */
static long k3failed = 0;
static int k3logidx = 0;     /* K3_LOGIDX: log the index of every intercepted call (fault-site map) */

int __real_open(const char *path, int flags, ...);
int __real_close(int fd);
ssize_t __real_write(int fd, const void *buf, size_t n);
ssize_t __real_read(int fd, void *buf, size_t n);
ssize_t __real_pread(int fd, void *buf, size_t n, off_t off);
int __real_fsync(int fd);
int __real_fdatasync(int fd);
int __real_rename(const char *a, const char *b);
int __real_unlink(const char *p);
int __real_mkdir(const char *p, mode_t m);
int __real_link(const char *a, const char *b);
void *__real_mmap(void *addr, size_t len, int prot, int flags, int fd, off_t off);

static int k3_tracked(const char *p) { return k3tr && k3root[0] && strncmp(p, k3root, strlen(k3root)) == 0; }
static const char *k3_rel(const char *p) { const char *r = p + strlen(k3root); while (*r == '/') r++; return *r ? r : "."; }

static void k3_init(const char *root) {
  const char *t = getenv("K3_TRACE"), *s = getenv("K3_SHADOW"), *f = getenv("K3_FAIL");
  snprintf(k3root, sizeof(k3root), "%s", root);
  if (t) k3tr = fopen(t, "w");
  if (s) { snprintf(k3shadow, sizeof(k3shadow), "%s", s); __real_mkdir(s, 0755); }
  k3logidx = getenv("K3_LOGIDX") != NULL;
  if (f) { /* "<index>:<errno>:<persistent>:<partial>" */
    sscanf(f, "%ld:%d:%d:%d", &k3fail_at, &k3fail_errno, &k3fail_persistent, &k3fail_partial);
  }
}

static void k3_mark(char kind, long n, const char *text) {
  if (k3tr) { fprintf(k3tr, "%c %ld %s\n", kind, n, text); fflush(k3tr); }
}

/* returns 1 if this call must fail */
static int k3_should_fail(const char *what, const char *path) {
  long idx;
  if (!k3tr) return 0;
  idx = k3calls++;
  if (k3logidx) { fprintf(k3tr, "I %ld %s %s\n", idx, what, path); fflush(k3tr); }
  if (k3fail_at >= 0 && (idx == k3fail_at || (k3fail_persistent && idx > k3fail_at))) {
    k3failed++;
    fprintf(k3tr, "F %ld %s %s errno=%d\n", idx, what, path, k3fail_errno); fflush(k3tr);
    errno = k3fail_errno;
    return 1;
  }
  return 0;
}

int __wrap_open(const char *path, int flags, ...) {
  mode_t mode = 0; int fd; va_list ap;
  if (flags & O_CREAT) { va_start(ap, flags); mode = va_arg(ap, int); va_end(ap); }
  if (k3_tracked(path) && k3_should_fail("open", k3_rel(path))) return -1;
  fd = __real_open(path, flags, mode);
  if (fd >= 0 && fd < K3_MAXFD) {
    k3fd_t *e = &k3fds[fd];
    memset(e, 0, sizeof(*e));
    if (k3_tracked(path)) {
      struct stat st;
      e->used = 1; e->shadow = -1;
      snprintf(e->path, sizeof(e->path), "%s", k3_rel(path));
      e->isdir = (fstat(fd, &st) == 0 && S_ISDIR(st.st_mode));
      e->writable = (flags & (O_WRONLY | O_RDWR)) != 0;
      if (e->writable) {
        char sp[700]; long size = (long)st.st_size;
        e->id = k3nextid++;
        if (k3shadow[0]) {
          snprintf(sp, sizeof(sp), "%s/%d", k3shadow, e->id);
          e->shadow = __real_open(sp, O_WRONLY | O_CREAT | O_TRUNC, 0644);
        }
        if (flags & O_APPEND) {
          /* re-opened for append (log / MANIFEST reuse): the shadow starts with the present content */
          if (e->shadow >= 0 && size > 0) {
            int rfd = __real_open(path, O_RDONLY); char buf[65536]; ssize_t n;
            if (rfd >= 0) { while ((n = __real_read(rfd, buf, sizeof(buf))) > 0) __real_write(e->shadow, buf, n); __real_close(rfd); }
          }
          fprintf(k3tr, "C %d %s a %ld\n", e->id, e->path, size);
        } else {
          fprintf(k3tr, "C %d %s t 0\n", e->id, e->path);
        }
        fflush(k3tr);
      }
    }
  }
  return fd;
}

int __wrap_close(int fd) {
  if (fd >= 0 && fd < K3_MAXFD && k3fds[fd].used) {
    k3fd_t *e = &k3fds[fd];
    if (e->writable) {
      if (k3_should_fail("close", e->path)) { /* the descriptor is released anyway */
        if (e->shadow >= 0) __real_close(e->shadow);
        e->used = 0; __real_close(fd); errno = k3fail_errno; return -1;
      }
      fprintf(k3tr, "X %d %s\n", e->id, e->path); fflush(k3tr);
      if (e->shadow >= 0) __real_close(e->shadow);
    }
    e->used = 0;
  }
  return __real_close(fd);
}

ssize_t __wrap_write(int fd, const void *buf, size_t n) {
  ssize_t r;
  if (fd >= 0 && fd < K3_MAXFD && k3fds[fd].used && k3fds[fd].writable) {
    k3fd_t *e = &k3fds[fd];
    if (k3_should_fail("write", e->path)) {
      if (k3fail_partial == 2 && n > 1) {
        /* a legal SHORT write: half of the bytes are written and that count is returned (no error) */
        size_t h = n / 2;
        r = __real_write(fd, buf, h);
        if (r > 0) { if (e->shadow >= 0) __real_write(e->shadow, buf, r); fprintf(k3tr, "W %d %ld %s short\n", e->id, (long)r, e->path); fflush(k3tr); }
        return r;
      }
      if (k3fail_partial && n > 1) {
        size_t h = n / 2; int se = errno;
        r = __real_write(fd, buf, h);
        if (r > 0) { if (e->shadow >= 0) __real_write(e->shadow, buf, r); fprintf(k3tr, "W %d %ld %s partial\n", e->id, (long)r, e->path); fflush(k3tr); }
        errno = se;
      }
      return -1;
    }
    r = __real_write(fd, buf, n);
    if (r > 0) {
      if (e->shadow >= 0) __real_write(e->shadow, buf, r);
      fprintf(k3tr, "W %d %ld %s\n", e->id, (long)r, e->path); fflush(k3tr);
    }
    return r;
  }
  return __real_write(fd, buf, n);
}

ssize_t __wrap_read(int fd, void *buf, size_t n) {
  if (fd >= 0 && fd < K3_MAXFD && k3fds[fd].used && !k3fds[fd].isdir && k3_should_fail("read", k3fds[fd].path)) return -1;
  return __real_read(fd, buf, n);
}

ssize_t __wrap_pread(int fd, void *buf, size_t n, off_t off) {
  if (fd >= 0 && fd < K3_MAXFD && k3fds[fd].used && k3_should_fail("pread", k3fds[fd].path)) return -1;
  return __real_pread(fd, buf, n, off);
}

void *__wrap_mmap(void *addr, size_t len, int prot, int flags, int fd, off_t off) {
  if (fd >= 0 && fd < K3_MAXFD && k3fds[fd].used && k3_should_fail("mmap", k3fds[fd].path)) return MAP_FAILED;
  return __real_mmap(addr, len, prot, flags, fd, off);
}

static int k3_sync(int fd, int data) {
  if (fd >= 0 && fd < K3_MAXFD && k3fds[fd].used) {
    k3fd_t *e = &k3fds[fd];
    if (k3_should_fail("fsync", e->path)) return -1;
    if (e->isdir) fprintf(k3tr, "D %s\n", e->path);
    else if (e->writable) fprintf(k3tr, "S %d %s\n", e->id, e->path);
    fflush(k3tr);
  }
  return data ? __real_fdatasync(fd) : __real_fsync(fd);
}
int __wrap_fsync(int fd) { return k3_sync(fd, 0); }
int __wrap_fdatasync(int fd) { return k3_sync(fd, 1); }

int __wrap_rename(const char *a, const char *b) {
  int r;
  if (k3_tracked(a) && k3_should_fail("rename", k3_rel(a))) return -1;
  r = __real_rename(a, b);
  if (r == 0 && k3_tracked(a)) { fprintf(k3tr, "R %s %s\n", k3_rel(a), k3_rel(b)); fflush(k3tr); }
  return r;
}

int __wrap_unlink(const char *p) {
  int r;
  if (k3_tracked(p) && k3_should_fail("unlink", k3_rel(p))) return -1;
  r = __real_unlink(p);
  if (r == 0 && k3_tracked(p)) { fprintf(k3tr, "U %s\n", k3_rel(p)); fflush(k3tr); }
  return r;
}

int __wrap_mkdir(const char *p, mode_t m) {
  int r;
  if (k3_tracked(p) && k3_should_fail("mkdir", k3_rel(p))) return -1;
  r = __real_mkdir(p, m);
  if (r == 0 && k3_tracked(p)) { fprintf(k3tr, "M %s\n", k3_rel(p)); fflush(k3tr); }
  return r;
}

int __wrap_link(const char *a, const char *b) {
  int r;
  if (k3_tracked(a) && k3_should_fail("link", k3_rel(a))) return -1;
  r = __real_link(a, b);
  if (r == 0 && k3_tracked(a)) { fprintf(k3tr, "L %s %s\n", k3_rel(a), b); fflush(k3tr); }
  return r;
}
#else
#define k3_init(x) ((void)0)
#define k3_mark(a, b, c) ((void)0)
#endif
#endif
