/* k1_meta.h -- K1 commands for the metadata codecs: write batch, internal keys
 * and comparators, version edits, file names.  Output formats are identical to
 * ocaml/cmd_meta.ml.  Hand-written glue: parsing and printing only. */
#ifndef VERIF_K1_META_H
#define VERIF_K1_META_H
#include "util/buffer.h"
#include "util/coding.h"
#include "util/comparator.h"
#include "util/rbt.h"
#include "util/slice.h"
#include "util/status.h"
#include "util/strutil.h"
#include "util/vector.h"
#include "dbformat.h"
#include "filename.h"
#include "version_edit.h"
#include "write_batch.h"

/* ---- sub-token helpers: fields separated by ':' inside a ','-separated list ---- */
static size_t meta_fields(const char *s, size_t len, const char **f, size_t *fl, size_t max) {
  size_t n = 0, i, st = 0;
  for (i = 0; i <= len; i++) {
    if (i == len || s[i] == ':') {
      if (n < max) { f[n] = s + st; fl[n] = i - st; }
      n++; st = i + 1;
    }
  }
  return n;
}
static uint64_t meta_num_n(const char *s, size_t len) {
  char tmp[40]; if (len > 39) len = 39;
  memcpy(tmp, s, len); tmp[len] = 0;
  return strtoull(tmp, NULL, 16);
}
static void meta_die(const char *m) { fprintf(stderr, "k1_meta: %s\n", m); exit(2); }

/* ---- batch ---- */
static void meta_batch_build(char **a) {
  ldb_batch_t b; const char *p = a[2]; ldb_slice_t c;
  ldb_batch_init(&b);
  ldb_batch_set_sequence(&b, parse_num(a[1]));
  if (!(p[0] == '.' && p[1] == 0)) {
    for (;;) {
      const char *e = strchr(p, ','); size_t len = e ? (size_t)(e - p) : strlen(p);
      const char *f[2]; size_t fl[2]; size_t nf;
      if (len < 1) meta_die("empty op");
      nf = meta_fields(p + 1, len - 1, f, fl, 2);
      if (p[0] == 'p' && nf == 2) {
        vbytes k = parse_bytes_n(f[0], fl[0]), v = parse_bytes_n(f[1], fl[1]);
        ldb_slice_t ks = ldb_slice(k.p, k.n), vs = ldb_slice(v.p, v.n);
        ldb_batch_put(&b, &ks, &vs); free(k.p); free(v.p);
      } else if (p[0] == 'd' && nf == 1) {
        vbytes k = parse_bytes_n(f[0], fl[0]); ldb_slice_t ks = ldb_slice(k.p, k.n);
        ldb_batch_del(&b, &ks); free(k.p);
      } else meta_die("bad op");
      if (!e) break;
      p = e + 1;
    }
  }
  c = ldb_batch_contents(&b);
  put_hex(stdout, c.data, c.size);
  ldb_batch_clear(&b);
}

typedef struct { char *s; size_t n, cap; int count; } meta_sb;
static void sb_putc(meta_sb *b, int c) {
  if (b->n + 1 >= b->cap) { b->cap = b->cap ? b->cap * 2 : 256; b->s = realloc(b->s, b->cap); }
  b->s[b->n++] = (char)c;
}
static void sb_hex(meta_sb *b, const uint8_t *p, size_t n) {
  static const char *d = "0123456789abcdef"; size_t i;
  if (n == 0) { sb_putc(b, '-'); return; }
  for (i = 0; i < n; i++) { sb_putc(b, d[p[i] >> 4]); sb_putc(b, d[p[i] & 15]); }
}
static void meta_h_put(ldb_handler_t *h, const ldb_slice_t *k, const ldb_slice_t *v) {
  meta_sb *b = h->state;
  if (b->count++) sb_putc(b, ',');
  sb_putc(b, 'p'); sb_hex(b, k->data, k->size); sb_putc(b, ':'); sb_hex(b, v->data, v->size);
}
static void meta_h_del(ldb_handler_t *h, const ldb_slice_t *k) {
  meta_sb *b = h->state;
  if (b->count++) sb_putc(b, ',');
  sb_putc(b, 'd'); sb_hex(b, k->data, k->size);
}

static void meta_batch_iter(char **a) {
  vbytes x = parse_bytes(a[1]); ldb_batch_t b; ldb_handler_t h; meta_sb sb; int rc;
  memset(&sb, 0, sizeof(sb));
  /* the batch aliases the input bytes (as ldb_batch_set_contents would copy them,
     but that asserts size >= 12; iterate itself handles short input) */
  b.rep.data = x.p; b.rep.size = x.n; b.rep.alloc = 0;
  h.state = &sb; h.number = 0; h.put = meta_h_put; h.del = meta_h_del;
  rc = ldb_batch_iterate(&b, &h);
  if (rc == LDB_OK) printf("ok ");
  else if (rc == LDB_CORRUPTION) printf("corrupt ");
  else printf("rc%d ", rc);
  if (sb.count == 0) putchar('.');
  else fwrite(sb.s, 1, sb.n, stdout);
  free(sb.s); free(x.p);
}

static void meta_batch_load(ldb_batch_t *b, vbytes x) {
  ldb_slice_t s = ldb_slice(x.p, x.n);
  ldb_batch_init(b);
  ldb_batch_set_contents(b, &s);
}

/* ---- internal keys / comparators ---- */
static ldb_comparator_t meta_ikc;
static int meta_ikc_ready = 0;
static const ldb_comparator_t *meta_get_ikc(void) {
  if (!meta_ikc_ready) { ldb_ikc_init(&meta_ikc, ldb_bytewise_comparator); meta_ikc_ready = 1; }
  return &meta_ikc;
}
static int meta_sign(int r) { return r < 0 ? -1 : (r > 0 ? 1 : 0); }

/* ---- edits ---- */
static void meta_dump_edit(const ldb_edit_t *e) {
  rb_iter_t it; size_t i; int first;
  printf("c=");
  if (e->has_comparator) put_hex(stdout, e->comparator.data, e->comparator.size); else printf("none");
  if (e->has_log_number) printf(" l=%llx", (unsigned long long)e->log_number); else printf(" l=none");
  if (e->has_prev_log_number) printf(" p=%llx", (unsigned long long)e->prev_log_number); else printf(" p=none");
  if (e->has_next_file_number) printf(" n=%llx", (unsigned long long)e->next_file_number); else printf(" n=none");
  if (e->has_last_sequence) printf(" s=%llx", (unsigned long long)e->last_sequence); else printf(" s=none");
  printf(" cp=");
  if (e->compact_pointers.length == 0) putchar('.');
  for (i = 0; i < e->compact_pointers.length; i++) {
    const ikey_entry_t *en = e->compact_pointers.items[i];
    printf("%s%x:", i ? "," : "", (unsigned)en->level); put_hex(stdout, en->key.data, en->key.size);
  }
  printf(" del=");
  first = 1;
  rb_set_each(&e->deleted_files, it) {
    const file_entry_t *en = rb_key_ptr(it);
    printf("%s%x:%llx", first ? "" : ",", (unsigned)en->level, (unsigned long long)en->number);
    first = 0;
  }
  if (first) putchar('.');
  printf(" new=");
  if (e->new_files.length == 0) putchar('.');
  for (i = 0; i < e->new_files.length; i++) {
    const meta_entry_t *en = e->new_files.items[i]; const ldb_filemeta_t *m = &en->meta;
    printf("%s%x:%llx:%llx:", i ? "," : "", (unsigned)en->level,
           (unsigned long long)m->number, (unsigned long long)m->file_size);
    put_hex(stdout, m->smallest.data, m->smallest.size); putchar(':');
    put_hex(stdout, m->largest.data, m->largest.size);
  }
}

/* spec: c<hex> l<num> p<num> n<num> s<num> k<lvl>:<key> d<lvl>:<num>
   a<lvl>:<num>:<size>:<smallest>:<largest>, applied left to right through the C API */
static void meta_edit_from_spec(ldb_edit_t *e, const char *p) {
  ldb_edit_init(e);
  if (p[0] == '.' && p[1] == 0) return;
  for (;;) {
    const char *q = strchr(p, ','); size_t len = q ? (size_t)(q - p) : strlen(p);
    const char *f[5]; size_t fl[5]; size_t nf;
    if (len < 1) meta_die("empty item");
    nf = meta_fields(p + 1, len - 1, f, fl, 5);
    switch (p[0]) {
    case 'c': {
      vbytes c = parse_bytes_n(f[0], fl[0]); c.p[c.n] = 0;   /* parse_bytes_n allocates n+1 */
      ldb_edit_set_comparator_name(e, (const char *)c.p); free(c.p); break; }
    case 'l': ldb_edit_set_log_number(e, meta_num_n(f[0], fl[0])); break;
    case 'p': ldb_edit_set_prev_log_number(e, meta_num_n(f[0], fl[0])); break;
    case 'n': ldb_edit_set_next_file(e, meta_num_n(f[0], fl[0])); break;
    case 's': ldb_edit_set_last_sequence(e, meta_num_n(f[0], fl[0])); break;
    case 'k': {
      vbytes k; ldb_ikey_t ik;
      if (nf != 2) meta_die("bad k item");
      k = parse_bytes_n(f[1], fl[1]); ik = ldb_slice(k.p, k.n);
      ldb_edit_set_compact_pointer(e, (int)meta_num_n(f[0], fl[0]), &ik); free(k.p); break; }
    case 'd':
      if (nf != 2) meta_die("bad d item");
      ldb_edit_remove_file(e, (int)meta_num_n(f[0], fl[0]), meta_num_n(f[1], fl[1])); break;
    case 'a': {
      vbytes s, l; ldb_ikey_t sk, lk;
      if (nf != 5) meta_die("bad a item");
      s = parse_bytes_n(f[3], fl[3]); l = parse_bytes_n(f[4], fl[4]);
      sk = ldb_slice(s.p, s.n); lk = ldb_slice(l.p, l.n);
      ldb_edit_add_file(e, (int)meta_num_n(f[0], fl[0]), meta_num_n(f[1], fl[1]),
                        meta_num_n(f[2], fl[2]), &sk, &lk);
      free(s.p); free(l.p); break; }
    default: meta_die("bad item");
    }
    if (!q) break;
    p = q + 1;
  }
}

static int run_meta(int argc, char **a) {
  const char *c = a[0];
  if (!strcmp(c, "batch_build") && argc == 3) {
    meta_batch_build(a);
  } else if (!strcmp(c, "batch_iter") && argc == 2) {
    meta_batch_iter(a);
  } else if (!strcmp(c, "batch_hdr") && argc == 2) {
    vbytes x = parse_bytes(a[1]);
    if (x.n < 12) printf("short");
    else { ldb_batch_t b; meta_batch_load(&b, x);
           printf("%llx %lx", (unsigned long long)ldb_batch_sequence(&b),
                  (unsigned long)(uint32_t)ldb_batch_count(&b));
           ldb_batch_clear(&b); }
    free(x.p);
  } else if (!strcmp(c, "batch_append") && argc == 3) {
    vbytes x = parse_bytes(a[1]), y = parse_bytes(a[2]);
    if (x.n < 12 || y.n < 12) printf("short");
    else { ldb_batch_t b1, b2; ldb_slice_t r;
           meta_batch_load(&b1, x); meta_batch_load(&b2, y);
           ldb_batch_append(&b1, &b2); r = ldb_batch_contents(&b1);
           put_hex(stdout, r.data, r.size); ldb_batch_clear(&b1); ldb_batch_clear(&b2); }
    free(x.p); free(y.p);
  } else if (!strcmp(c, "batch_setseq") && argc == 3) {
    vbytes x = parse_bytes(a[1]);
    if (x.n < 12) printf("short");
    else { ldb_batch_t b; ldb_slice_t r; meta_batch_load(&b, x);
           ldb_batch_set_sequence(&b, parse_num(a[2])); r = ldb_batch_contents(&b);
           put_hex(stdout, r.data, r.size); ldb_batch_clear(&b); }
    free(x.p);
  } else if (!strcmp(c, "ikey_encode") && argc == 4) {
    vbytes k = parse_bytes(a[1]); ldb_slice_t ks = ldb_slice(k.p, k.n); ldb_ikey_t ik;
    ldb_ikey_init(&ik);
    ldb_ikey_set(&ik, &ks, parse_num(a[2]), (ldb_valtype_t)parse_num(a[3]));
    put_hex(stdout, ik.data, ik.size); ldb_ikey_clear(&ik); free(k.p);
  } else if (!strcmp(c, "ikey_parse") && argc == 2) {
    vbytes k = parse_bytes(a[1]); ldb_slice_t ks = ldb_slice(k.p, k.n); ldb_pkey_t pk;
    if (ldb_pkey_import(&pk, &ks)) {
      put_hex(stdout, pk.user_key.data, pk.user_key.size);
      printf(" %llx %x", (unsigned long long)pk.sequence, (unsigned)pk.type);
    } else printf("fail");
    free(k.p);
  } else if (!strcmp(c, "ikey_cmp") && argc == 3) {
    vbytes x = parse_bytes(a[1]), y = parse_bytes(a[2]);
    if (x.n < 8 || y.n < 8) printf("short");
    else { ldb_slice_t xs = ldb_slice(x.p, x.n), ys = ldb_slice(y.p, y.n);
           const ldb_comparator_t *ikc = meta_get_ikc();
           printf("%d", meta_sign(ldb_compare(ikc, &xs, &ys))); }
    free(x.p); free(y.p);
  } else if (!strcmp(c, "ucmp") && argc == 3) {
    vbytes x = parse_bytes(a[1]), y = parse_bytes(a[2]);
    ldb_slice_t xs = ldb_slice(x.p, x.n), ys = ldb_slice(y.p, y.n);
    printf("%d", meta_sign(ldb_compare(ldb_bytewise_comparator, &xs, &ys)));
    free(x.p); free(y.p);
  } else if (!strcmp(c, "lkey") && argc == 3) {
    vbytes k = parse_bytes(a[1]); ldb_slice_t ks = ldb_slice(k.p, k.n), s; ldb_lkey_t lk;
    ldb_lkey_init(&lk, &ks, parse_num(a[2]));
    s = ldb_lkey_memtable_key(&lk); put_hex(stdout, s.data, s.size); putchar(' ');
    s = ldb_lkey_internal_key(&lk); put_hex(stdout, s.data, s.size); putchar(' ');
    s = ldb_lkey_user_key(&lk); put_hex(stdout, s.data, s.size);
    ldb_lkey_clear(&lk); free(k.p);
  } else if ((!strcmp(c, "sep") || !strcmp(c, "isep")) && argc == 3) {
    vbytes x = parse_bytes(a[1]), y = parse_bytes(a[2]); int internal = (c[0] == 'i');
    if (internal && (x.n < 8 || y.n < 8)) printf("short");
    else { const ldb_comparator_t *cmp = internal ? meta_get_ikc() : ldb_bytewise_comparator;
           ldb_buffer_t st; ldb_slice_t lim = ldb_slice(y.p, y.n);
           ldb_buffer_init(&st); ldb_buffer_set(&st, x.p, x.n);
           ldb_shortest_separator(cmp, &st, &lim);
           put_hex(stdout, st.data, st.size); ldb_buffer_clear(&st); }
    free(x.p); free(y.p);
  } else if ((!strcmp(c, "succ") || !strcmp(c, "isucc")) && argc == 2) {
    vbytes x = parse_bytes(a[1]); int internal = (c[0] == 'i');
    if (internal && x.n < 8) printf("short");
    else { const ldb_comparator_t *cmp = internal ? meta_get_ikc() : ldb_bytewise_comparator;
           ldb_buffer_t st; ldb_buffer_init(&st); ldb_buffer_set(&st, x.p, x.n);
           ldb_short_successor(cmp, &st);
           put_hex(stdout, st.data, st.size); ldb_buffer_clear(&st); }
    free(x.p);
  } else if ((!strcmp(c, "edit_import") || !strcmp(c, "edit_roundtrip")) && argc == 2) {
    vbytes x = parse_bytes(a[1]); ldb_slice_t src = ldb_slice(x.p, x.n); ldb_edit_t e;
    ldb_edit_init(&e);
    if (!ldb_edit_import(&e, &src)) printf("fail");
    else if (c[5] == 'i') meta_dump_edit(&e);
    else { ldb_buffer_t out; ldb_buffer_init(&out); ldb_edit_export(&out, &e);
           put_hex(stdout, out.data, out.size); ldb_buffer_clear(&out); }
    ldb_edit_clear(&e); free(x.p);
  } else if ((!strcmp(c, "edit_build") || !strcmp(c, "edit_build_dump")) && argc == 2) {
    ldb_edit_t e; meta_edit_from_spec(&e, a[1]);
    if (c[10] == '_') meta_dump_edit(&e);
    else { ldb_buffer_t out; ldb_buffer_init(&out); ldb_edit_export(&out, &e);
           put_hex(stdout, out.data, out.size); ldb_buffer_clear(&out); }
    ldb_edit_clear(&e);
  } else if (!strcmp(c, "parse_filename") && argc == 2) {
    vbytes x = parse_bytes(a[1]); ldb_filetype_t t; uint64_t n;
    x.p[x.n] = 0;
    if (ldb_parse_filename(&t, &n, (const char *)x.p)) printf("%x %llx", (unsigned)t, (unsigned long long)n);
    else printf("none");
    free(x.p);
  } else if (!strcmp(c, "make_name") && argc == 3) {
    char buf[256]; uint64_t n = parse_num(a[2]); int ok = 0;
    switch ((int)parse_num(a[1])) {
    case 0: ok = ldb_log_filename(buf, sizeof(buf), "d", n); break;
    case 1: ok = ldb_table_filename(buf, sizeof(buf), "d", n); break;
    case 2: ok = ldb_sstable_filename(buf, sizeof(buf), "d", n); break;
    case 3: ok = ldb_desc_filename(buf, sizeof(buf), "d", n); break;
    case 4: ok = ldb_temp_filename(buf, sizeof(buf), "d", n); break;
    case 5: ok = ldb_current_filename(buf, sizeof(buf), "d"); break;
    case 6: ok = ldb_lock_filename(buf, sizeof(buf), "d"); break;
    case 7: ok = ldb_info_filename(buf, sizeof(buf), "d"); break;
    default: ok = ldb_oldinfo_filename(buf, sizeof(buf), "d"); break;
    }
    if (!ok || strncmp(buf, "d/", 2)) printf("EXC name");
    else put_hex(stdout, (const uint8_t *)buf + 2, strlen(buf + 2));
  } else if (!strcmp(c, "decode_int") && argc == 2) {
    vbytes x = parse_bytes(a[1]); const char *p; uint64_t v;
    x.p[x.n] = 0; p = (const char *)x.p;
    if (ldb_decode_int(&v, &p)) { printf("%llx ", (unsigned long long)v); put_hex(stdout, (const uint8_t *)p, strlen(p)); }
    else printf("fail");
    free(x.p);
  } else {
    return 0;
  }
  return 1;
}
#endif
