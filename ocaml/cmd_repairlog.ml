(* cmd_repairlog.ml -- the extracted salvage loop of ldb_repair's convert_log_to_table (RepairLog.v, property C19).
   salvage_case <record hex>,<record hex>,...     (log records in file order; "." = none)
       -> "<key hex>=<value hex>,..." sorted by key: the newest (highest sequence) live value per key, deleted keys omitted
          then " ok=<per record 1/0>"
   Hand-written glue: parsing, the newest-per-key fold and printing only. *)
open Model
open Glue

let run (toks : string list) : string option =
  match toks with
  | ["salvage_case"; recs] ->
      let rs = list_arg recs in
      let ents = salvage rs in
      let tbl : (string, (string * string option)) Hashtbl.t = Hashtbl.create 64 in
      List.iter (fun (seq, op) ->
        let sq = hex_of_n seq in
        let (k, v) = match op with BPut (k, v) -> (hex_of_bytes k, Some (hex_of_bytes v)) | BDel k -> (hex_of_bytes k, None) in
        let newer = match Hashtbl.find_opt tbl k with
          | None -> true
          | Some (s0, _) -> String.length sq > String.length s0 || (String.length sq = String.length s0 && sq >= s0) in
        if newer then Hashtbl.replace tbl k (sq, v)) ents;
      let live = Hashtbl.fold (fun k (_, v) acc -> match v with Some x -> (k, x) :: acc | None -> acc) tbl [] in
      let live = List.sort compare live in
      let body = match live with [] -> "." | _ -> String.concat "," (List.map (fun (k, v) -> k ^ "=" ^ v) live) in
      Some (body ^ " ok=" ^ String.concat "" (List.map (fun r -> if record_ok r then "1" else "0") rs))
  | _ -> None
