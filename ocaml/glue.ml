(* glue.ml -- conversions between the line protocol and the extracted datatypes.
   One case per input line: "<cmd> <arg> ..."; one result line per case.
   Numbers are lowercase hex; byte strings are hex ("-" = empty) or a
   pattern "@<len>:<seed>" (decimal) expanded identically by the C driver.
   Hand-written glue (trusted base): conversions only, no logic. *)
open Model

(* ---- conversions ---- *)
let rec pos_of_int (i : int) : positive =
  if i = 1 then XH
  else if i land 1 = 1 then XI (pos_of_int (i lsr 1))
  else XO (pos_of_int (i lsr 1))
let n_of_int (i : int) : n = if i = 0 then N0 else Npos (pos_of_int i)
let rec int_of_pos = function
  | XH -> 1 | XO p -> 2 * int_of_pos p | XI p -> 2 * int_of_pos p + 1
let int_of_n = function N0 -> 0 | Npos p -> int_of_pos p

(* byte table so that byte values are shared *)
let byte_tab = Array.init 256 n_of_int

let hexval c = match c with
  | '0'..'9' -> Char.code c - 48
  | 'a'..'f' -> Char.code c - 87
  | 'A'..'F' -> Char.code c - 55
  | _ -> failwith "bad hex"

(* arbitrary-size hex number -> N (bitwise) *)
let n_of_hex (s : string) : n =
  (* bits, most significant first *)
  let bits = ref [] in
  String.iter (fun c -> let v = hexval c in
    bits := (v land 1 = 1) :: (v land 2 = 2) :: (v land 4 = 4) :: (v land 8 = 8) :: !bits) s;
  let msb_first = List.rev !bits in
  let rec strip = function false :: r -> strip r | l -> l in
  match strip msb_first with
  | [] -> N0
  | _ :: rest -> Npos (List.fold_left (fun acc b -> if b then XI acc else XO acc) XH rest)

let hex_of_n (x : n) : string =
  match x with
  | N0 -> "0"
  | Npos p ->
      let rec bits p acc = match p with
        | XH -> true :: acc
        | XO q -> bits q (false :: acc)
        | XI q -> bits q (true :: acc) in
      (* acc built low-to-high means head is highest? we cons low bits first, so final list is high-to-low reversed *)
      let rec lowfirst p = match p with
        | XH -> [true] | XO q -> false :: lowfirst q | XI q -> true :: lowfirst q in
      ignore bits;
      let l = Array.of_list (lowfirst p) in
      let nb = Array.length l in
      let nd = (nb + 3) / 4 in
      let buf = Bytes.create nd in
      for d = 0 to nd - 1 do
        let v = ref 0 in
        for k = 0 to 3 do
          let i = d * 4 + k in
          if i < nb && l.(i) then v := !v lor (1 lsl k)
        done;
        Bytes.set buf (nd - 1 - d) "0123456789abcdef".[!v]
      done;
      Bytes.to_string buf

let pattern_byte seed i = (seed + i * 31 + (i / 251)) land 255

let bytes_of_arg (s : string) : n list =
  if s = "-" then []
  else if s.[0] = '@' then begin
    match String.split_on_char ':' (String.sub s 1 (String.length s - 1)) with
    | [l; sd] ->
        let len = int_of_string l and seed = int_of_string sd in
        let rec go i acc = if i < 0 then acc else go (i - 1) (byte_tab.(pattern_byte seed i) :: acc) in
        go (len - 1) []
    | _ -> failwith "bad pattern"
  end else begin
    let n = String.length s / 2 in
    let rec go i acc =
      if i < 0 then acc
      else go (i - 1) (byte_tab.(hexval s.[2*i] * 16 + hexval s.[2*i+1]) :: acc) in
    go (n - 1) []
  end

let hex_of_bytes (l : n list) : string =
  match l with
  | [] -> "-"
  | _ ->
    let b = Buffer.create 64 in
    List.iter (fun x -> let v = int_of_n x in
      Buffer.add_char b "0123456789abcdef".[(v lsr 4) land 15];
      Buffer.add_char b "0123456789abcdef".[v land 15]) l;
    Buffer.contents b

let list_arg (s : string) : n list list =
  if s = "." then [] else List.map bytes_of_arg (String.split_on_char ',' s)

let bool_arg s = (s <> "0")


let rec nat_of_int (i : int) : nat = if i <= 0 then O else S (nat_of_int (i - 1))
let rec int_of_nat = function O -> 0 | S n -> 1 + int_of_nat n
let chars_of_string (s : string) : n list =
  List.init (String.length s) (fun i -> byte_tab.(Char.code s.[i]))
let string_of_chars (l : n list) : string =
  String.concat "" (List.map (fun x -> String.make 1 (Char.chr (int_of_n x))) l)
