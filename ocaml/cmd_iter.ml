(* cmd_iter.ml -- commands running the MODEL iterator (DbIter over Merger over the
   runs of the current engine-model state, tie K2 for C07).  Conversions only:
   the script is parsed into the extracted [cmd] type and run by the extracted
   [run_script] / [run_state]; the output is the text harness/k2.c prints. *)
open Model
open Glue

let cmd_of (t : string) : n list cmd =
  let arg () = bytes_of_arg (String.sub t 1 (String.length t - 1)) in
  match t.[0] with
  | 'F' -> CFirst
  | 'L' -> CLast
  | 'N' -> CNext
  | 'P' -> CPrev
  | 'S' -> CSeek (arg ())
  | 'G' -> CSeekGe (arg ())
  | 'T' -> CSeekGt (arg ())
  | 'E' -> CSeekLe (arg ())
  | 'B' -> CSeekLt (arg ())
  | _ -> failwith ("bad script op " ^ t)

let script_of (s : string) = List.map cmd_of (String.split_on_char ',' s)

let obs_str = function
  | OSkip -> "~"
  | OInvalid -> "!"
  | OAt (k, v) -> hex_of_bytes k ^ ":" ^ Cmd_engine.val_str v

(* long-lived model iterators: id -> (operations closed over the state at open time, iterator state) *)
let iters : (int, (entry mstate dstate, n list, n list * n list) iter_ops * entry mstate dstate ref) Hashtbl.t =
  Hashtbl.create 16

let open_iter q =
  let s = !Cmd_engine.st in
  (db_iter_ops !Cmd_engine.ucmp s (Cmd_engine.q_arg q), db_iter_init s)

let run (toks : string list) : string option =
  match toks with
  | ["e_iter"; q; script] ->
      let (ops, st0) = open_iter q in
      Some (String.concat " " (List.map obs_str (run_script ops st0 (script_of script))))
  | ["e_iopen"; id; q] ->
      let (ops, st0) = open_iter q in
      Hashtbl.replace iters (int_of_string id mod 64) (ops, ref st0); Some "ok"
  | ["e_istep"; id; script] ->
      (match Hashtbl.find_opt iters (int_of_string id mod 64) with
       | None -> Some "noiter"
       | Some (ops, st) ->
           let sc = script_of script in
           let out = run_script ops !st sc in
           st := run_state ops !st sc;
           Some (String.concat " " (List.map obs_str out)))
  | ["e_iclose"; id] -> Hashtbl.remove iters (int_of_string id mod 64); Some "ok"
  | ["e_iclear"] -> Hashtbl.reset iters; Some "ok"
  | _ -> None
