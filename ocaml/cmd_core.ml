(* cmd_core.ml -- commands for Base / Varint / Crc32c / LogFormat *)
open Model
open Glue

let run (toks : string list) : string option =
  match toks with
  | ["varint32_write"; x] -> Some (hex_of_bytes (varint32_write (n_of_hex x)))
  | ["varint64_write"; x] -> Some (hex_of_bytes (varint64_write (n_of_hex x)))
  | ["varint32_size"; x] -> Some (hex_of_n (varint32_size (n_of_hex x)))
  | ["varint64_size"; x] -> Some (hex_of_n (varint64_size (n_of_hex x)))
  | ["varint32_read"; b] ->
      Some (match varint32_read (bytes_of_arg b) with
       | Some (v, rest) -> Printf.sprintf "ok %s %s" (hex_of_n v) (hex_of_bytes rest)
       | None -> "fail")
  | ["varint64_read"; b] ->
      Some (match varint64_read (bytes_of_arg b) with
       | Some (v, rest) -> Printf.sprintf "ok %s %s" (hex_of_n v) (hex_of_bytes rest)
       | None -> "fail")
  | ["fixed32"; x] -> Some (hex_of_bytes (le32 (n_of_hex x)))
  | ["fixed64"; x] -> Some (hex_of_bytes (le64 (n_of_hex x)))
  | ["slice_read"; b] ->
      Some (match slice_read (bytes_of_arg b) with
       | Some (s, rest) -> Printf.sprintf "ok %s %s" (hex_of_bytes s) (hex_of_bytes rest)
       | None -> "fail")
  | ["crc_al"; _; b] -> Some (hex_of_n (crc_value (bytes_of_arg b)))
  | ["crc"; b] -> Some (hex_of_n (crc_value (bytes_of_arg b)))
  | ["crc_extend"; init; b] -> Some (hex_of_n (crc_extend (n_of_hex init) (bytes_of_arg b)))
  | ["crc_mask"; x] -> Some (hex_of_n (crc_mask (n_of_hex x)))
  | ["crc_unmask"; x] -> Some (hex_of_n (crc_unmask (n_of_hex x)))
  | ["logwrite"; len0; recs] ->
      Some (hex_of_bytes (write_log_from (n_of_hex len0) (list_arg recs)))
  | ["logread"; ck; b] ->
      let evs = read_log_events (bool_arg ck) (bytes_of_arg b) in
      let parts = List.map (function
        | Rec r -> "R" ^ hex_of_bytes r
        | Drop n -> "D" ^ hex_of_n n) evs in
      Some (if parts = [] then "." else String.concat " " parts)
  | _ -> None
