(* cmd_meta.ml -- commands for Batch / IKey / Edit / Filename (metadata codecs).
   Hand-written glue: argument parsing and printing only. *)
open Model
open Glue

let split c s = String.split_on_char c s
let tl1 s = String.sub s 1 (String.length s - 1)

(* ---- batch ---- *)
let op_of_string (s : string) : bop =
  if s = "" then failwith "empty op" else
  match s.[0] with
  | 'p' -> (match split ':' (tl1 s) with
            | [k; v] -> BPut (bytes_of_arg k, bytes_of_arg v)
            | _ -> failwith "bad put op")
  | 'd' -> BDel (bytes_of_arg (tl1 s))
  | _ -> failwith "bad op"

let ops_of_arg (s : string) : bop list =
  if s = "." then [] else List.map op_of_string (split ',' s)

let string_of_op = function
  | BPut (k, v) -> "p" ^ hex_of_bytes k ^ ":" ^ hex_of_bytes v
  | BDel k -> "d" ^ hex_of_bytes k

let string_of_ops = function
  | [] -> "."
  | l -> String.concat "," (List.map string_of_op l)

let string_of_bstatus = function BOk -> "ok" | _ -> "corrupt"

let rec len_ge l n = n <= 0 || (match l with [] -> false | _ :: r -> len_ge r (n - 1))

(* ---- edit ---- *)
let opt_num = function None -> "none" | Some n -> hex_of_n n
let opt_bytes = function None -> "none" | Some b -> hex_of_bytes b
let list_or_dot f = function [] -> "." | l -> String.concat "," (List.map f l)

let dump_edit (e : edit) : string =
  Printf.sprintf "c=%s l=%s p=%s n=%s s=%s cp=%s del=%s new=%s"
    (opt_bytes e.e_comparator) (opt_num e.e_log_number) (opt_num e.e_prev_log_number)
    (opt_num e.e_next_file_number) (opt_num e.e_last_sequence)
    (list_or_dot (fun (l, k) -> hex_of_n l ^ ":" ^ hex_of_bytes k) e.e_compact_pointers)
    (list_or_dot (fun (l, n) -> hex_of_n l ^ ":" ^ hex_of_n n) e.e_deleted_files)
    (list_or_dot (fun f -> String.concat ":" [hex_of_n f.nf_level; hex_of_n f.nf_number;
                                              hex_of_n f.nf_size; hex_of_bytes f.nf_smallest;
                                              hex_of_bytes f.nf_largest]) e.e_new_files)

(* spec item: c<hex> l<num> p<num> n<num> s<num> k<lvl>:<key> d<lvl>:<num>
   a<lvl>:<num>:<size>:<smallest>:<largest>; applied left to right *)
let apply_item (e : edit) (s : string) : edit =
  if s = "" then failwith "empty item" else
  let r = tl1 s in
  match s.[0] with
  | 'c' -> edit_set_comparator e (bytes_of_arg r)
  | 'l' -> edit_set_log_number e (n_of_hex r)
  | 'p' -> edit_set_prev_log_number e (n_of_hex r)
  | 'n' -> edit_set_next_file e (n_of_hex r)
  | 's' -> edit_set_last_sequence e (n_of_hex r)
  | 'k' -> (match split ':' r with
            | [l; k] -> edit_set_compact_pointer e (n_of_hex l) (bytes_of_arg k)
            | _ -> failwith "bad k item")
  | 'd' -> (match split ':' r with
            | [l; n] -> edit_remove_file e (n_of_hex l) (n_of_hex n)
            | _ -> failwith "bad d item")
  | 'a' -> (match split ':' r with
            | [l; n; z; a; b] ->
                edit_add_file e { nf_level = n_of_hex l; nf_number = n_of_hex n; nf_size = n_of_hex z;
                                  nf_smallest = bytes_of_arg a; nf_largest = bytes_of_arg b }
            | _ -> failwith "bad a item")
  | _ -> failwith "bad item"

let edit_of_spec (s : string) : edit =
  if s = "." then edit_empty else List.fold_left apply_item edit_empty (split ',' s)

let sign_of = function Lt -> "-1" | Eq -> "0" | Gt -> "1"

let run (toks : string list) : string option =
  match toks with
  | ["batch_build"; seq; ops] ->
      Some (hex_of_bytes (batch_build (n_of_hex seq) (ops_of_arg ops)))
  | ["batch_iter"; b] ->
      let (ops, st) = batch_iterate (bytes_of_arg b) in
      Some (string_of_bstatus st ^ " " ^ string_of_ops ops)
  | ["batch_hdr"; b] ->
      let b = bytes_of_arg b in
      Some (if not (len_ge b 12) then "short"
            else hex_of_n (batch_sequence b) ^ " " ^ hex_of_n (batch_count b))
  | ["batch_append"; b1; b2] ->
      let b1 = bytes_of_arg b1 and b2 = bytes_of_arg b2 in
      Some (if not (len_ge b1 12 && len_ge b2 12) then "short"
            else hex_of_bytes (batch_append b1 b2))
  | ["batch_setseq"; b; seq] ->
      let b = bytes_of_arg b in
      Some (if not (len_ge b 12) then "short"
            else hex_of_bytes (batch_set_sequence b (n_of_hex seq)))
  | ["ikey_encode"; k; seq; ty] ->
      Some (hex_of_bytes (ikey_encode (bytes_of_arg k) (n_of_hex seq) (n_of_hex ty)))
  | ["ikey_parse"; k] ->
      Some (match ikey_parse (bytes_of_arg k) with
            | None -> "fail"
            | Some ((u, seq), ty) ->
                Printf.sprintf "%s %s %s" (hex_of_bytes u) (hex_of_n seq) (hex_of_n ty))
  | ["ikey_cmp"; a; b] ->
      let a = bytes_of_arg a and b = bytes_of_arg b in
      Some (if not (len_ge a 8 && len_ge b 8) then "short" else sign_of (ikey_compare a b))
  | ["ucmp"; a; b] -> Some (sign_of (bytes_compare (bytes_of_arg a) (bytes_of_arg b)))
  | ["lkey"; k; seq] ->
      let k = bytes_of_arg k and seq = n_of_hex seq in
      Some (Printf.sprintf "%s %s %s" (hex_of_bytes (lkey_memtable_key k seq))
              (hex_of_bytes (lkey_internal_key k seq)) (hex_of_bytes (lkey_user_key k seq)))
  | ["sep"; a; b] -> Some (hex_of_bytes (shortest_separator (bytes_of_arg a) (bytes_of_arg b)))
  | ["succ"; a] -> Some (hex_of_bytes (short_successor (bytes_of_arg a)))
  | ["isep"; a; b] ->
      let a = bytes_of_arg a and b = bytes_of_arg b in
      Some (if not (len_ge a 8 && len_ge b 8) then "short"
            else hex_of_bytes (ikc_shortest_separator a b))
  | ["isucc"; a] ->
      let a = bytes_of_arg a in
      Some (if not (len_ge a 8) then "short" else hex_of_bytes (ikc_short_successor a))
  | ["edit_import"; b] ->
      Some (match edit_import (bytes_of_arg b) with None -> "fail" | Some e -> dump_edit e)
  | ["edit_roundtrip"; b] ->
      Some (match edit_roundtrip (bytes_of_arg b) with None -> "fail" | Some o -> hex_of_bytes o)
  | ["edit_build"; spec] -> Some (hex_of_bytes (edit_export (edit_of_spec spec)))
  | ["edit_build_dump"; spec] -> Some (dump_edit (edit_of_spec spec))
  | ["parse_filename"; name] ->
      Some (match parse_filename (bytes_of_arg name) with
            | None -> "none"
            | Some (t, n) -> hex_of_n (ftype_code t) ^ " " ^ hex_of_n n)
  | ["make_name"; kind; num] -> Some (hex_of_bytes (make_name (n_of_hex kind) (n_of_hex num)))
  | ["decode_int"; s] ->
      Some (match decode_int (bytes_of_arg s) with
            | None -> "fail"
            | Some (x, rest) -> hex_of_n x ^ " " ^ hex_of_bytes rest)
  | _ -> None
