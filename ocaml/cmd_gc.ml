(* cmd_gc.ml -- the extracted collector model (Gc.v, property C13).
   gc_case <live: hex numbers, comma separated | "."> <log_number hex> <prev_log hex> <manifest hex> <names: hex byte strings | ".">
       -> "keep=<names in listing order> rm=<names in listing order>"   ("." = none)
   Hand-written glue: parsing and printing only. *)
open Model
open Glue

let nums (s : string) : n list =
  if s = "." then [] else List.map n_of_hex (String.split_on_char ',' s)

let fmt (l : n list list) : string =
  match l with [] -> "." | _ -> String.concat "," (List.map hex_of_bytes l)

let run (toks : string list) : string option =
  match toks with
  | ["gc_case"; live; lg; prev; man; names] ->
      let st = { g_live = nums live; g_log = n_of_hex lg; g_prevlog = n_of_hex prev; g_manifest = n_of_hex man } in
      let dir = list_arg names in
      Some ("keep=" ^ fmt (gc st dir) ^ " rm=" ^ fmt (gc_removed st dir))
  | _ -> None
