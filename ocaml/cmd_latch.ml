(* cmd_latch.ml -- the extracted model of the write-path error latch (WriteLatch.v).
   latch_case <sync(0|1):app(o|p|n):syncok(0|1)>,...   the write calls of one session, in order
       -> "acks=<0/1 per call> bg=<0|1> mem=<n> rec=<n>"
   Hand-written glue: parsing and printing only. *)
open Model
open Glue

let parse_op (i : int) (s : string) : lwop =
  match String.split_on_char ':' s with
  | [sy; a; so] ->
      { lw_id = n_of_hex (Printf.sprintf "%x" (i + 1)); lw_sync = (sy = "1");
        lw_app = (match a with "o" -> WlAOk | "p" -> WlAPartial | "n" -> WlANone | _ -> failwith "bad app");
        lw_sync_ok = (so = "1") }
  | _ -> failwith "bad op"

let run (toks : string list) : string option =
  match toks with
  | ["latch_case"; q] ->
      let os = if q = "." then [] else List.mapi parse_op (String.split_on_char ',' q) in
      let (((acks, b), m), r) = latch_case os in
      Some (Printf.sprintf "acks=%s bg=%d mem=%d rec=%d"
              (String.concat "" (List.map (fun a -> if a then "1" else "0") acks))
              (if b then 1 else 0) (List.length m) (List.length r))
  | _ -> None
