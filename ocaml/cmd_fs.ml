(* cmd_fs.ml -- commands driving the extracted FsModel (L1 file/crash model, tie K3).
   Hand-written glue: parsing and printing only.

   trace  : events separated by ';' ("." = empty trace, "=" = the trace stored by fs_load)
     C/<f>  create          W/<f>/<payload>  record appended      S/<f>  fsync     D  fsync dir
     R/<f>/<f> rename       U/<f> unlink     A/<id>/<sync>/<wops> call begins     Z/<id>/<ok> call returns
   file   : L<n> log, T<n> table, M<n> MANIFEST, X<n> n.dbtmp, CUR   (n decimal)
   payload: b<seqhex>=<wops> | e<items> | t<entries> | c<n>
     wops    as in cmd_engine: p<khex>:<valtok>,d<khex>  ("." none)
     items   l<n>,p<n>,n<n>,s<hex>,+<lvl>.<n>,-<lvl>.<n>  (any subset, "" = empty edit)
     entries <khex>:<seqhex>:<type>:<valtok>,...  ("." none)
   image  : files separated by ';' : <f>=<payload>|<payload>...   ("." = empty directory) *)
open Model
open Glue

let split c s = if s = "" then [] else String.split_on_char c s
let dec s = n_of_int (int_of_string s)
let sdec x = string_of_int (int_of_n x)
let tl1 s = String.sub s 1 (String.length s - 1)

let fname_of (s : string) : fname =
  if s = "CUR" then FCurrent else
  let n = dec (tl1 s) in
  match s.[0] with
  | 'L' -> FLog n | 'T' -> FTable n | 'M' -> FManifest n | 'X' -> FTmp n
  | _ -> failwith ("bad file " ^ s)

let fname_str = function
  | FLog n -> "L" ^ sdec n | FTable n -> "T" ^ sdec n | FManifest n -> "M" ^ sdec n
  | FTmp n -> "X" ^ sdec n | FCurrent -> "CUR"

let wops_of = Cmd_engine.wops_arg
let wops_str (l : wop list) : string =
  if l = [] then "." else
  String.concat "," (List.map (function
    | WPut (k, v) -> "p" ^ hex_of_bytes k ^ ":" ^ Cmd_engine.val_str v
    | WDel k -> "d" ^ hex_of_bytes k) l)

let edit_of (s : string) : medit =
  let e = ref { me_new = []; me_del = []; me_log = None; me_prev = None; me_next = None; me_last = None } in
  let lf t = match String.split_on_char '.' t with
    | [l; n] -> (nat_of_int (int_of_string l), dec n)
    | _ -> failwith "bad file item" in
  List.iter (fun it ->
    let r = tl1 it in
    match it.[0] with
    | 'l' -> e := { !e with me_log = Some (dec r) }
    | 'p' -> e := { !e with me_prev = Some (dec r) }
    | 'n' -> e := { !e with me_next = Some (dec r) }
    | 's' -> e := { !e with me_last = Some (n_of_hex r) }
    | '+' -> e := { !e with me_new = !e.me_new @ [lf r] }
    | '-' -> e := { !e with me_del = !e.me_del @ [lf r] }
    | _ -> failwith "bad edit item") (split ',' s);
  !e

let edit_str (e : medit) : string =
  let o c f = function Some x -> [c ^ f x] | None -> [] in
  let lf c (l, n) = c ^ string_of_int (int_of_nat l) ^ "." ^ sdec n in
  String.concat "," (o "l" sdec e.me_log @ o "p" sdec e.me_prev @ o "n" sdec e.me_next @ o "s" hex_of_n e.me_last
                     @ List.map (lf "+") e.me_new @ List.map (lf "-") e.me_del)

let payload_of (s : string) : payload =
  let r = tl1 s in
  match s.[0] with
  | 'b' -> let i = String.index r '=' in
           PBatch (n_of_hex (String.sub r 0 i), wops_of (String.sub r (i + 1) (String.length r - i - 1)))
  | 'e' -> PEdit (edit_of r)
  | 't' -> PTable (if r = "" then [] else Cmd_engine.entries_arg r)
  | 'c' -> PCurrent (dec r)
  | _ -> failwith "bad payload"

let payload_str = function
  | PBatch (s, ops) -> "b" ^ hex_of_n s ^ "=" ^ wops_str ops
  | PEdit e -> "e" ^ edit_str e
  | PTable es -> "t" ^ (if es = [] then "." else String.concat "," (List.map Cmd_engine.entry_str es))
  | PCurrent m -> "c" ^ sdec m

let ev_of (s : string) : fev =
  match String.split_on_char '/' s with
  | ["C"; f] -> ECreate (fname_of f)
  | ["W"; f; p] -> EAppend (fname_of f, payload_of p)
  | ["S"; f] -> ESync (fname_of f)
  | ["D"] -> ESyncDir
  | ["R"; a; b] -> ERename (fname_of a, fname_of b)
  | ["U"; f] -> EUnlink (fname_of f)
  | ["A"; id; sy; ops] -> ECall (dec id, wops_of ops, sy <> "0")
  | ["Z"; id; ok] -> EAck (dec id, ok <> "0")
  | _ -> failwith ("bad event " ^ (if String.length s > 40 then String.sub s 0 40 else s))

let loaded : fev list ref = ref []
let trace_of (s : string) : fev list =
  if s = "=" then !loaded else if s = "." then [] else List.map ev_of (split ';' s)

let image_str (img : image) : string =
  if img = [] then "." else
  String.concat ";" (List.map (fun (f, recs) -> fname_str f ^ "=" ^ String.concat "|" (List.map payload_str recs)) img)

let image_of_arg (s : string) : image =
  if s = "." then [] else
  List.map (fun t ->
    let i = String.index t '=' in
    (fname_of (String.sub t 0 i),
     List.map payload_of (split '|' (String.sub t (i + 1) (String.length t - i - 1))))) (split ';' s)

let rec take n l = if n <= 0 then [] else match l with [] -> [] | x :: r -> x :: take (n - 1) r

let rstate_str (s : rstate) : string =
  Printf.sprintf "ok m=%s log=%s next=%s last=%s tables=%s segs=%s"
    (sdec s.r_manifest) (sdec s.r_log) (sdec s.r_next) (hex_of_n s.r_last)
    (if s.r_tables = [] then "." else String.concat "," (List.map (fun (n, _) -> sdec n) s.r_tables))
    (if s.r_segs = [] then "." else
     String.concat "|" (List.map (fun (n, bs) ->
       sdec n ^ ":" ^ String.concat "," (List.map (fun (q, _) -> hex_of_n q) bs)) s.r_segs))

let present (s : rstate) (keys : string) : string =
  String.concat "," (List.map (fun k ->
    match contents s (bytes_of_arg k) with Some _ -> "1" | None -> "0") (split ',' keys))

let rule_name i = "R" ^ sdec i

let run (toks : string list) : string option =
  match toks with
  | ["fs_load"; tr] -> loaded := trace_of tr; Some ("ok " ^ string_of_int (List.length !loaded))
  | ["fs_wf"; tr] ->
      Some (match first_violation (trace_of tr) with
        | None -> "ok"
        | Some (r, i) -> Printf.sprintf "fail %s %s" (rule_name r) (sdec i))
  | ["fs_wf_bool"; tr] -> Some (if wf_protocol (trace_of tr) then "true" else "false")
  | ["fs_recover"; img] ->
      Some (match recover (image_of_arg img) with None -> "fail" | Some s -> rstate_str s)
  | ["fs_written_image"; tr; p] ->
      Some (image_str (written_image (take (int_of_string p) (trace_of tr))))
  | ["fs_recover_written"; tr; p] ->
      Some (match recover (written_image (take (int_of_string p) (trace_of tr))) with
        | None -> "fail" | Some s -> rstate_str s)
  (* which of the given keys have a live value after recovering the written image at p *)
  | ["fs_present_written"; tr; p; keys] ->
      Some (match recover (written_image (take (int_of_string p) (trace_of tr))) with
        | None -> "fail" | Some s -> "ok " ^ present s keys)
  (* the representative power-failure images at p: for each, recovery verdict and key presence *)
  | ["fs_present_rep"; tr; p; keys] ->
      Some (String.concat " " (List.map (fun img ->
        match iget img FCurrent with
        | None -> "nodb"
        | Some _ -> (match recover img with None -> "fail" | Some s -> present s keys))
        (rep_images (take (int_of_string p) (trace_of tr)))))
  | ["fs_contents"; img; keys] ->
      Some (match recover (image_of_arg img) with
        | None -> "fail"
        | Some s -> String.concat "," (List.map (fun k ->
            match contents s (bytes_of_arg k) with
            | Some v -> Cmd_engine.val_str v | None -> "!") (split ',' keys)))
  | _ -> None
