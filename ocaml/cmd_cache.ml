(* cmd_cache.ml -- command for Cache.v (the LRU cache model):
     lru <capacity> <script>
   script ops: i<key>:<val>:<charge> | l<key> | r<n> | e<key> | p | u | n   ("." = empty script)
   output: h<val> | m | u<usage> | n<id> | d<key>:<val> | "|"   (comma separated), see harness/k1_cache.h.
   Hand-written glue: parsing and printing only. *)
open Model
open Glue

let cop_arg (op : string) : cop =
  let rest () = String.sub op 1 (String.length op - 1) in
  match op.[0] with
  | 'i' -> (match String.split_on_char ':' (rest ()) with
            | [k; v; ch] -> CInsert (bytes_of_arg k, n_of_hex v, n_of_hex ch)
            | _ -> failwith "bad insert")
  | 'l' -> CLookup (bytes_of_arg (rest ()))
  | 'r' -> CRelease (nat_of_int (int_of_string ("0x" ^ rest ())))
  | 'e' -> CErase (bytes_of_arg (rest ()))
  | 'p' -> CPrune
  | 'u' -> CUsage
  | 'n' -> CNewId
  | _ -> failwith "bad lru op"

let cobs_str = function
  | OHit v -> "h" ^ hex_of_n v
  | OMiss -> "m"
  | OUsage u -> "u" ^ hex_of_n u
  | ONewId i -> "n" ^ hex_of_n i
  | ODel (k, v) -> "d" ^ hex_of_bytes k ^ ":" ^ hex_of_n v
  | OSep -> "|"

let run (toks : string list) : string option =
  match toks with
  | ["lru"; cap; script] ->
      let ops = if script = "." then [] else List.map cop_arg (String.split_on_char ',' script) in
      Some (String.concat "," (List.map cobs_str (lru_script (n_of_hex cap) ops)))
  | _ -> None
