(* cmd_table.ml -- commands for Block / Filter / Snappy / TableFormat.
   Hand-written glue: argument parsing and printing only.
   entries: k=v,k=v ("." none); script: F|L|S<bytes>|N|P comma separated;
   opts: block_size,restart_interval,compression,filter_bits,comparator,
         paranoid,verify,cache,mmap (hex; cache and mmap are ignored by the model) *)
open Model
open Glue

let split_on c s = String.split_on_char c s

let entries_arg (s : string) : (n list * n list) list =
  if s = "." then []
  else List.map (fun kv ->
    match String.index_opt kv '=' with
    | Some i -> (bytes_of_arg (String.sub kv 0 i),
                 bytes_of_arg (String.sub kv (i + 1) (String.length kv - i - 1)))
    | None -> failwith "bad entry") (split_on ',' s)

let script_arg (s : string) : iop list =
  if s = "." then []
  else List.map (fun op ->
    match op.[0] with
    | 'F' -> IFirst | 'L' -> ILast | 'N' -> INext | 'P' -> IPrev
    | 'S' -> ISeek (bytes_of_arg (String.sub op 1 (String.length op - 1)))
    | _ -> failwith "bad script op") (split_on ',' s)

let status_str = function SOk -> "ok" | SCorruption -> "corruption" | SIoerr -> "ioerr"

let kv_str (k, v) = hex_of_bytes k ^ "=" ^ hex_of_bytes v
let obs_str = function Some e -> kv_str e | None -> "!"
let entries_str = function [] -> "." | es -> String.concat "," (List.map kv_str es)
let steps_str = function [] -> "." | os -> String.concat "," (List.map obs_str os)

type opts = { bs : n; ri : n; comp : n; bits : n; cmp : n; paranoid : bool; verify : bool }
let opts_arg (s : string) : opts =
  let f = Array.make 9 "0" in
  List.iteri (fun i x -> if i < 9 then f.(i) <- x) (split_on ',' s);
  { bs = n_of_hex f.(0); ri = n_of_hex f.(1); comp = n_of_hex f.(2); bits = n_of_hex f.(3);
    cmp = n_of_hex f.(4); paranoid = f.(5) <> "0"; verify = f.(6) <> "0" }

let groups_arg (s : string) : (n * n list list) list =
  if s = "." then []
  else List.map (fun g ->
    match split_on ';' g with
    | [off; keys] -> (n_of_hex off, list_arg keys)
    | _ -> failwith "bad group") (split_on '/' s)

let bool_res = function Ok true -> "1" | Ok false -> "0" | OOB -> "OOB"

let run (toks : string list) : string option =
  match toks with
  | ["block_build"; interval; es] ->
      let b = bb_add_all (n_of_hex interval) bb_empty (entries_arg es) in
      Some (hex_of_n (bb_estimate b) ^ " " ^ hex_of_bytes (bb_finish b))
  | ["block_iter"; cmp; b; script] ->
      Some (match block_run_i (n_of_hex cmp) (bytes_of_arg b) (script_arg script) with
        | Ok (os, st) -> steps_str os ^ " " ^ status_str st
        | OOB -> "OOB")
  | ["hash"; seed; b] -> Some (hex_of_n (ldb_hash (bytes_of_arg b) (n_of_hex seed)))
  | ["bloom_build"; bits; keys] -> Some (hex_of_bytes (bloom_build (n_of_hex bits) (list_arg keys)))
  | ["bloom_match"; f; k] -> Some (bool_res (bloom_match (bytes_of_arg f) (bytes_of_arg k)))
  | ["filter_build"; cmp; bits; groups] ->
      Some (hex_of_bytes (filter_block_build_i (n_of_hex cmp) (n_of_hex bits) (groups_arg groups)))
  | ["filter_match"; cmp; f; off; k] ->
      Some (bool_res (filter_block_matches_i (n_of_hex cmp) (bytes_of_arg f) (n_of_hex off) (bytes_of_arg k)))
  | ["snappy_decode"; b] ->
      let x = bytes_of_arg b in
      Some (match snappy_decode_size x with
        | None -> "fail"
        | Some _ ->
          (match snappy_decode x with
           | Ok (Some u) -> "ok " ^ hex_of_bytes u
           | Ok None -> "fail"
           | OOB -> "OOB"))
  | ["snappy_encode"; b] -> Some (hex_of_bytes (snappy_encode (bytes_of_arg b)))
  | ["table_build"; o; es] ->
      let o = opts_arg o in
      Some (hex_of_bytes (table_build_i o.cmp o.bits snappy_encode o.bs o.ri o.comp (entries_arg es)))
  | ["table_scan"; o; file] ->
      let o = opts_arg o in
      Some (match table_scan_i o.cmp o.bits o.paranoid o.verify (bytes_of_arg file) with
        | OOB -> "OOB"
        | Ok (Inl st) -> "open:" ^ status_str st
        | Ok (Inr ((fw, fs), (bw, bs))) ->
            entries_str fw ^ " " ^ status_str fs ^ " " ^ entries_str bw ^ " " ^ status_str bs)
  | ["table_entries"; o; file] ->
      let o = opts_arg o in
      Some (match table_entries_i o.cmp o.bits o.paranoid o.verify (bytes_of_arg file) with
        | OOB -> "OOB"
        | Ok (Inl st) -> "open:" ^ status_str st   (* also used for a block error: valid tables only *)
        | Ok (Inr es) -> entries_str es ^ " ok")
  | ["table_iter"; o; file; script] ->
      let o = opts_arg o in
      Some (match table_run_i o.cmp o.bits o.paranoid o.verify (bytes_of_arg file) (script_arg script) with
        | OOB -> "OOB"
        | Ok (Inl st) -> "open:" ^ status_str st
        | Ok (Inr (os, st)) -> steps_str os ^ " " ^ status_str st)
  | ["table_get"; o; file; keys] ->
      let o = opts_arg o in
      Some (match table_lookups_i o.cmp o.bits o.paranoid o.verify (bytes_of_arg file) (list_arg keys) with
        | OOB -> "OOB"
        | Ok (Inl st) -> "open:" ^ status_str st
        | Ok (Inr []) -> "."
        | Ok (Inr gs) -> String.concat "," (List.map (fun (f, st) -> obs_str f ^ "/" ^ status_str st) gs))
  | _ -> None
