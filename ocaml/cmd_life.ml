(* cmd_life.ml -- commands over the extracted Lifecycle.v model (property C20).
   destroy_case <names> [<lost names>]   names: comma separated hex ("." = none)
       -> what ldb_destroy leaves: sorted names ("." none) or "gone"; with a lost
          subdirectory: "<top> | <lost>"
   l_init | l_open <dir> | l_failed <dir> | l_close <dir>   the lock state machine
   open_cmp <stored> <requested>         status code of the comparator check (decimal)
   Hand-written glue: parsing and printing only. *)
open Model
open Glue

let lst : lk_state ref = ref lk_init

let fmt_names (l : n list list) : string =
  match l with
  | [] -> "."
  | _ -> String.concat "," (List.sort compare (List.map hex_of_bytes l))

let res_str = function
  | ROpened h -> "opened " ^ hex_of_n h
  | RLocked -> "locked"
  | RFailed -> "failed"
  | RClosed -> "closed"
  | RNoHandle -> "nohandle"

let lstep_cmd (o : lk_op) : string =
  let (s', r) = lk_step !lst o in
  lst := s'; res_str r ^ " open=" ^ string_of_int (List.length (open_dirs s'))

let run (toks : string list) : string option =
  match toks with
  | ["destroy_case"; names] ->
      Some (match destroy_tree (list_arg names) None with
            | None -> "gone"
            | Some (top, _) -> fmt_names top)
  | ["destroy_case"; names; lost] ->
      Some (match destroy_tree (list_arg names) (Some (list_arg lost)) with
            | None -> "gone"
            | Some (top, l) ->
                fmt_names top ^ " | " ^ (match l with None -> "gone" | Some x -> fmt_names x))
  | ["l_init"] -> lst := lk_init; Some "ok"
  | ["l_open"; d] -> Some (lstep_cmd (LOpen (chars_of_string d)))
  | ["l_failed"; d] -> Some (lstep_cmd (LFailedOpen (chars_of_string d)))
  | ["l_close"; d] -> Some (lstep_cmd (LClose (chars_of_string d)))
  | ["open_cmp"; stored; requested] ->
      let name s = if s = "bytewise" then name_bytewise else if s = "reverse" then name_reverse else bytes_of_arg s in
      let (st, ()) = open_with_comparator () [edit_set_comparator edit_empty (name stored)] (name requested) in
      Some (string_of_int (int_of_n (status_code st)))
  | _ -> None
