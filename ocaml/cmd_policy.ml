(* cmd_policy.ml -- commands over the extracted replicas of lcdb's compaction input
   selection (Policy.v), evaluated on the CURRENT engine-model state (Cmd_engine.st):
     p_manual <L> <begin|*> <end|*>  every (inputs[0];inputs[1]) ldb_versions_compact_range can select:
                                     keep in 1..n, expand in {0,1}; "in0nums/in1nums|..." (replica order)
     p_picked <L> <seednum>          every selection of ldb_versions_pick_compaction for that seed file
     p_lastkey <num>                 user key of the largest key of table <num> (manual compaction: next begin)
     p_flushlevels                   levels ldb_version_pick_level_for_memtable_output can return for imm
   Conversions only, no logic. *)
open Model
open Glue

let opt_key (s : string) : n list option = if s = "*" then None else Some (bytes_of_arg s)
let nums (fs : file list) : string =
  if fs = [] then "." else String.concat "," (List.map (fun f -> string_of_int (int_of_n f.fnum)) fs)
let sel_str ((a, b) : file list * file list) : string = nums a ^ "/" ^ nums b
let add_uniq (out : string list ref) (s : string) = if not (List.mem s !out) then out := s :: !out

let run (toks : string list) : string option =
  let st = !Cmd_engine.st and u = !Cmd_engine.ucmp in
  match toks with
  | ["p_manual"; l; b; e] ->
      let ln = nat_of_int (int_of_string l) in
      let n = max 1 (List.length (level_files st.levels ln)) in
      let out = ref [] in
      for keep = 1 to n do
        List.iter (fun ex -> add_uniq out (sel_str (manual_inputs u st ln (opt_key b) (opt_key e) (nat_of_int keep) ex)))
          [false; true]
      done;
      Some (String.concat "|" (List.rev !out))
  | ["p_picked"; l; seed] ->
      let ln = nat_of_int (int_of_string l) in
      let out = ref [] in
      List.iter (fun ex -> add_uniq out (sel_str (picked_inputs u st ln (n_of_int (int_of_string seed)) ex))) [false; true];
      Some (String.concat "|" (List.rev !out))
  | ["p_lastkey"; num] ->
      Some (match Cmd_engine.find_file (int_of_string num) with
        | Some f -> (match List.rev f.fents with e :: _ -> hex_of_bytes e.ek | [] -> "nokey")
        | None -> "nofile")
  | ["p_flushlevels"] ->
      Some (match st.imm with
        | Some (e0 :: r) ->
            let hi = (match List.rev r with e :: _ -> e.ek | [] -> e0.ek) in
            let out = ref [] in
            List.iter (fun (g0, g1) ->
              let gp lv = if lv = O then g0 else g1 in
              add_uniq out (string_of_int (int_of_nat (pick_level_for_memtable_output u st.levels e0.ek hi gp))))
              [(false, false); (false, true); (true, false); (true, true)];
            String.concat "," (List.rev !out)
        | _ -> ".")
  | _ -> None
