(* cmd_engine.ml -- stateful commands driving the extracted Engine model (tie K2).
   Values are opaque tokens: the token text itself is the model's value. *)
open Model
open Glue

let st : state ref = ref init_state
let saved : state ref = ref init_state
let ucmp : (n list -> n list -> comparison) ref = ref bytes_compare
let rev_cmp a b = bytes_compare b a

let key_arg = bytes_of_arg
let val_arg (s : string) : n list = if s = "-" then [] else chars_of_string s
let val_str (v : n list) : string = if v = [] then "-" else string_of_chars v
let hexn = hex_of_n
let nums_arg (s : string) : n list =
  if s = "." then [] else List.map (fun x -> n_of_int (int_of_string x)) (String.split_on_char ',' s)
let nats_arg (s : string) : nat list =
  if s = "." then [] else List.map (fun x -> nat_of_int (int_of_string x)) (String.split_on_char ',' s)
let hexnums_arg (s : string) : n list =
  if s = "." then [] else List.map n_of_hex (String.split_on_char ',' s)

let wops_arg (s : string) : wop list =
  if s = "." then [] else
  List.map (fun t ->
    if t.[0] = 'p' then
      let i = String.index t ':' in
      WPut (key_arg (String.sub t 1 (i - 1)), val_arg (String.sub t (i + 1) (String.length t - i - 1)))
    else WDel (key_arg (String.sub t 1 (String.length t - 1)))) (String.split_on_char ',' s)

let entry_str (e : entry) : string =
  Printf.sprintf "%s:%s:%d:%s" (hex_of_bytes e.ek) (hexn e.es) (if e.et then 1 else 0) (val_str e.ev)

(* entry token: khex:seqhex:type:valtok  (valtok may itself contain ':' as in @10:1) *)
let entry_of (t : string) : entry =
  match String.split_on_char ':' t with
  | k :: s :: ty :: rest -> { ek = key_arg k; es = n_of_hex s; et = (ty = "1"); ev = val_arg (String.concat ":" rest) }
  | _ -> failwith ("bad entry " ^ t)
let entries_arg (s : string) : entry list =
  if s = "." then [] else List.map entry_of (String.split_on_char ',' s)

let lookup_str = function
  | Some v -> "found " ^ val_str v
  | None -> "notfound"

let q_arg s = if s = "-" then !st.last_seq else n_of_hex s

let set o = match o with Some s -> st := s; "ok" | None -> "fail"

let files_of_level l = level_files !st.levels (nat_of_int l)
let find_file num =
  let rec go = function [] -> None | fs :: r ->
    (match List.filter (fun f -> int_of_n f.fnum = num) fs with f :: _ -> Some f | [] -> go r) in
  go !st.levels

let run (toks : string list) : string option =
  match toks with
  | ["e_init"; c] -> ucmp := (if c = "1" then rev_cmp else if c = "2" then ci_compare else bytes_compare); st := init_state; Some "ok"
  | ["e_write"; ops] -> st := do_write !ucmp !st (wops_arg ops); Some ("ok " ^ hexn !st.last_seq)
  | ["e_switch"] -> Some (set (do_switch !st))
  | ["e_flush"; lvl; num; nf] ->
      Some (set (do_flush !ucmp !st (nat_of_int (int_of_string lvl)) (n_of_int (int_of_string num)) (n_of_int (int_of_string nf))))
  | ["e_compact"; l; in0; in1; cuts; outs; nf] ->
      let c = { c_level = nat_of_int (int_of_string l); c_in0 = nums_arg in0; c_in1 = nums_arg in1;
                c_cuts = nats_arg cuts; c_outs = nums_arg outs; c_nf = n_of_int (int_of_string nf) } in
      if compaction_guard !ucmp !st c then Some (set (do_compact !ucmp !st c)) else Some "fail guard"
  | ["e_kept"; l; in0; in1] ->
      let c = { c_level = nat_of_int (int_of_string l); c_in0 = nums_arg in0; c_in1 = nums_arg in1;
                c_cuts = []; c_outs = []; c_nf = N0 } in
      Some (String.concat "," (List.map entry_str (compaction_kept !ucmp !st c)))
  | ["e_move"; l; num] -> Some (set (do_move !ucmp !st (nat_of_int (int_of_string l)) (n_of_int (int_of_string num))))
  | ["e_snapshot"] -> st := do_snapshot !st; Some ("ok " ^ hexn !st.last_seq)
  | ["e_release"; q] -> Some (set (do_release !st (n_of_hex q)))
  | ["e_reopen"; bounds; nums; nf] ->
      Some (set (do_reopen !ucmp !st (hexnums_arg bounds) (nums_arg nums) (n_of_int (int_of_string nf))))
  | ["e_get"; k; q] -> Some (lookup_str (visible (get !ucmp !st (key_arg k) (q_arg q))))
  | ["e_spec"; k; q] -> Some (lookup_str (spec_get !ucmp !st (key_arg k) (q_arg q)))
  | ["e_file"; num] ->
      Some (match find_file (int_of_string num) with
        | Some f -> if f.fents = [] then "." else String.concat "," (List.map entry_str f.fents)
        | None -> "nofile")
  | ["e_layout"] ->
      let lv i fs = Printf.sprintf "L%d=%s" i
        (if fs = [] then "." else String.concat "," (List.map (fun f -> string_of_int (int_of_n f.fnum)) fs)) in
      Some (Printf.sprintf "lastseq=%s %s" (hexn !st.last_seq) (String.concat " " (List.mapi lv !st.levels)))
  | ["e_inv"] -> Some (if inv_b !ucmp !st then "true" else "false")
  | ["e_view"; q] ->
      let v = live_view !ucmp !st (q_arg q) in
      Some (if v = [] then "." else String.concat "," (List.map (fun (k, v) -> hex_of_bytes k ^ ":" ^ val_str v) v))
  | ["e_mem"] -> Some (String.concat "," (List.map entry_str !st.mem))
  | ["e_force"; dels; adds] ->
      (* install an observed edit verbatim: dels = lvl:num,... ; adds = lvl:num:entries;lvl:num:entries *)
      let s = !st in
      let lv = ref s.levels in
      if dels <> "." then List.iter (fun t ->
        match String.split_on_char ':' t with
        | [l; n] -> let l = nat_of_int (int_of_string l) in
            lv := set_level !lv l (remove_files (level_files !lv l) [n_of_int (int_of_string n)])
        | _ -> failwith "bad del") (String.split_on_char ',' dels);
      if adds <> "." then List.iter (fun t ->
        let i = String.index t ':' in let j = String.index_from t (i + 1) ':' in
        let l = nat_of_int (int_of_string (String.sub t 0 i)) in
        let num = n_of_int (int_of_string (String.sub t (i + 1) (j - i - 1))) in
        let es = entries_arg (String.sub t (j + 1) (String.length t - j - 1)) in
        lv := set_level !lv l (add_files !ucmp (level_files !lv l) [{ fnum = num; fents = es }]))
        (String.split_on_char ';' adds);
      st := { s with levels = !lv }; Some "ok"
  | ["e_repair"; nums; nf] -> Some (set (do_repair !ucmp !st (nums_arg nums) (n_of_int (int_of_string nf))))
  | ["e_where"; k; q] ->
      (* number of the table holding the newest visible entry of k (the spec answer), "mem", or "none" *)
      (match best !ucmp (all_entries !st) (key_arg k) (q_arg q) with
       | None -> Some "none"
       | Some e ->
         let holds f = List.exists (fun x -> x.es = e.es && !ucmp x.ek e.ek = Eq) f.fents in
         (match List.filter holds (List.concat !st.levels) with
          | f :: _ -> Some (string_of_int (int_of_n f.fnum))
          | [] -> Some "mem"))
  | ["e_nums"] -> Some (String.concat "," (List.map (fun f -> string_of_int (int_of_n f.fnum)) (List.concat !st.levels)))
  | ["e_save"] -> saved := !st; Some "ok"
  | ["e_restore"] -> st := !saved; Some "ok"
  | ["e_force_imm_none"] -> st := { !st with imm = None }; Some "ok"
  | ["e_force_nf"; nf] -> st := { !st with next_file = n_of_int (int_of_string nf) }; Some "ok"
  | _ -> None
