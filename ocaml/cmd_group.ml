(* cmd_group.ml -- the extracted model of ldb_build_batch_group (Group.v).
   group_case <size(hex):sync(0|1):hasbatch(0|1)>,...   the writer queue from its head
       -> "n=<entries covered> synced=<0|1> bytes=<hex>"
   Hand-written glue: parsing and printing only. *)
open Model
open Glue

let parse_w (s : string) : gw =
  match String.split_on_char ':' s with
  | [sz; sy; b] -> { gw_size = n_of_hex sz; gw_sync = (sy = "1"); gw_batch = (b = "1") }
  | _ -> failwith "bad writer"

let run (toks : string list) : string option =
  match toks with
  | ["group_case"; q] ->
      let ws = if q = "." then [] else List.map parse_w (String.split_on_char ',' q) in
      Some (Printf.sprintf "n=%d synced=%d bytes=%s" (int_of_nat (build_group ws))
              (if group_is_synced ws then 1 else 0) (hex_of_n (group_bytes ws)))
  | _ -> None
