(* cmd_lts.ml -- commands over the extracted concurrency model (Lts.v), tie for C08/C09.
     lts_check <obs> <obs> ...     observed abstract-state trace of harness/k8.c -> "ok <n>" | "fail <index> <code> <why>"
        obs = A;tid;how;queue;ls(hex);imm;bgs;bge;man;sd;l0;logn;cv   how in L U W R; queue = . | tid:done:sync:batch,...
            | E;tid;S|B;cv                                            cv = - | bg | w<tid> | other
     lts_inv <obs>                 abs_inv of one state
     lts_run <nthreads> <label> ...  run labels on the model from the initial state -> "ok <abstract state> store=<n> trace=<n>" | "fail <index>"
   Hand-written glue: conversions only. *)
open Model
open Glue

let why = function
  | 1 -> "queue changed other than push-self / pop-prefix-by-head"
  | 2 -> "last_sequence decreased"
  | 3 -> "last_sequence moved without the head popping its group"
  | 4 -> "popped follower or new head not signalled (waker obligation)"
  | 5 -> "memtable switch not by the queue head / without new log / without scheduled background call"
  | 6 -> "imm cleared by a non-background thread"
  | 7 -> "log number changed without a memtable switch"
  | 8 -> "background_compaction_scheduled cleared without broadcast or by a client thread"
  | 9 -> "background call scheduled while shutting down or after bg_error"
  | 10 -> "background call rescheduled itself without the final broadcast"
  | 11 -> "manual compaction registered by the background thread"
  | 12 -> "shutting_down reset"
  | 13 -> "bg_error reset"
  | 14 -> "bg_error set without broadcast"
  | 15 -> "level-0 count changed by a client thread"
  | 16 -> "writer waits on its cv while head or not queued"
  | 17 -> "wait on background_work_finished with no background call scheduled (no pending waker)"
  | 18 -> "wait on an unknown condition variable with db->mutex"
  | 30 -> "signal by a thread that does not hold the mutex"
  | 31 -> "signal outside a critical section"
  | 32 -> "release by a thread that is not the holder"
  | 33 -> "release without acquire"
  | 34 -> "two holders of db->mutex"
  | 35 -> "state changed while db->mutex was free"
  | 40 -> "abs_inv violated"
  | n -> "code " ^ string_of_int n

let tidn (s : string) : n = let i = int_of_string s in if i < 0 then n_of_int 999999 else n_of_int i
let cv_of (s : string) : cvid =
  if s = "-" then CvNone else if s = "bg" then CvBg
  else if String.length s > 1 && s.[0] = 'w' && s.[1] <> 'o' then CvW (tidn (String.sub s 1 (String.length s - 1)))
  else CvOther
let how_of = function "L" -> HL | "U" -> HU | "W" -> HW | "R" -> HR | s -> failwith ("bad how " ^ s)
let b01 s = s <> "0"
let queue_of (s : string) : aq list =
  if s = "." then [] else
  List.map (fun t -> match String.split_on_char ':' t with
    | [a; d; sy; b] -> { aq_tid = tidn a; aq_done = b01 d; aq_sync = b01 sy; aq_batch = b01 b }
    | _ -> failwith "bad queue entry") (String.split_on_char ',' s)
let abs_of_fields q ls imm bgs bge man sd l0 logn : absstate =
  { a_queue = queue_of q; a_ls = n_of_hex ls; a_imm = b01 imm; a_bgs = b01 bgs; a_bge = b01 bge; a_man = b01 man;
    a_sd = b01 sd; a_l0 = n_of_int (int_of_string l0); a_logn = n_of_int (int_of_string logn) }
let obs_of (tok : string) : aobs =
  match String.split_on_char ';' tok with
  | ["A"; t; h; q; ls; imm; bgs; bge; man; sd; l0; logn; cv] ->
      OState (tidn t, how_of h, abs_of_fields q ls imm bgs bge man sd l0 logn, cv_of cv)
  | ["E"; t; k; cv] -> OSig (tidn t, (k = "B"), cv_of cv)
  | _ -> failwith ("bad obs " ^ tok)

(* labels: we:t:sync:ops | fe:t | ww:t | ls:t:n | le:t | rw:t | sw:t | ll:t:full | lp:t | fd:t | fc:t | rc:t:k:src | rr:t:extra
           sn:t | rl:t:h | bs | bf | bc:l0:d | bx | bk | bn:extra | ms:t | ml:t | m2:t | cs:t | cc:t | sp:t
   ops = p<k>=<v>,d<k>,...   src = - | h *)
let ops_of (s : string) : lop list =
  if s = "." then [] else
  List.map (fun t ->
    if t.[0] = 'p' then
      let i = String.index t '=' in
      LPut (n_of_int (int_of_string (String.sub t 1 (i - 1))), n_of_int (int_of_string (String.sub t (i + 1) (String.length t - i - 1))))
    else LDel (n_of_int (int_of_string (String.sub t 1 (String.length t - 1))))) (String.split_on_char ',' s)
let nat s = nat_of_int (int_of_string s)
let label_of (tok : string) : label =
  match String.split_on_char ':' tok with
  | ["we"; t; sy; ops] -> WEnqueue (nat t, ops_of ops, b01 sy)
  | ["fe"; t] -> FEnqueue (nat t)
  | ["ww"; t] -> WWaitFollower (nat t)
  | ["ls"; t; n] -> WLeaderStart (nat t, nat n)
  | ["le"; t] -> WLeaderErr (nat t)
  | ["rw"; t] -> WRoomWait (nat t)
  | ["sw"; t] -> Switch (nat t)
  | ["ll"; t; f] -> WLeaderLog (nat t, b01 f)
  | ["lp"; t] -> WLeaderPublish (nat t)
  | ["fd"; t] -> WFollowerDone (nat t)
  | ["fc"; t] -> FlushCheck (nat t)
  | ["rc"; t; k; src] -> RCapture (nat t, n_of_int (int_of_string k), (if src = "-" then None else Some (nat src)))
  | ["rr"; t; e] -> RRead (nat t, b01 e)
  | ["sn"; t] -> Snap (nat t)
  | ["rl"; t; h] -> Release (nat t, nat h)
  | ["bs"] -> BgStart
  | ["bf"] -> BgFlush
  | ["bc"; l0; d] -> BgCompact (nat l0, b01 d)
  | ["bx"] -> BgFail
  | ["bk"] -> BgSkip
  | ["bn"; e] -> BgFinish (b01 e)
  | ["ms"; t] -> ManualStart (nat t)
  | ["ml"; t] -> ManualLoop (nat t)
  | ["m2"; t] -> Manual2 (nat t)
  | ["cs"; t] -> CloseStart (nat t)
  | ["cc"; t] -> CloseCheck (nat t)
  | ["sp"; t] -> Spurious (nat t)
  | _ -> failwith ("bad label " ^ tok)

let abs_str (a : absstate) : string =
  let q = if a.a_queue = [] then "." else String.concat "," (List.map (fun e ->
    Printf.sprintf "%d:%d:%d:%d" (int_of_n e.aq_tid) (if e.aq_done then 1 else 0) (if e.aq_sync then 1 else 0) (if e.aq_batch then 1 else 0)) a.a_queue) in
  Printf.sprintf "q=%s ls=%s imm=%d bgs=%d bge=%d man=%d sd=%d l0=%d" q (hex_of_n a.a_ls)
    (if a.a_imm then 1 else 0) (if a.a_bgs then 1 else 0) (if a.a_bge then 1 else 0) (if a.a_man then 1 else 0)
    (if a.a_sd then 1 else 0) (int_of_n a.a_l0)

let run (toks : string list) : string option =
  match toks with
  | "lts_check" :: obs ->
      let tr = List.map obs_of obs in
      (match check_trace tr with
       | None -> Some (Printf.sprintf "ok %d" (List.length tr))
       | Some (i, c) -> Some (Printf.sprintf "fail %d %d %s" (int_of_nat i) (int_of_nat c) (why (int_of_nat c))))
  | ["lts_inv"; o] ->
      (match obs_of o with OState (_, _, a, _) -> Some (if abs_inv a then "true" else "false") | _ -> Some "EXC not-a-state")
  | "lts_run" :: nth :: labels ->
      let n = int_of_string nth in
      let threads = List.init n (fun i -> nat_of_int i) in
      let rec go s i = function
        | [] -> Printf.sprintf "ok %s inv=%b store=%d trace=%d bgwait=%d" (abs_str (abs_of s)) (abs_inv (abs_of s))
                  (List.length (l_store s)) (List.length s.l_trace) (List.length (wait_set_bg s))
        | l :: r -> (match lts_step s (label_of l) with Some s' -> go s' (i + 1) r | None -> Printf.sprintf "fail %d %s" i l) in
      Some (go (lts_init threads) 0 labels)
  | _ -> None
