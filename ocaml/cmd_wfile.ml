(* cmd_wfile.ml -- commands over the extracted WFile.v model (C03/C02 rule R7).
   wfile_calls <m|f> <op> <op> ...
       first argument: m = the file is a MANIFEST (sync also fsyncs the directory), f = any other file
       ops (decimal numbers; payload bytes are zeros -- only sizes matter for the answer):
         a<len>   ldb_wfile_append of <len> bytes
         f        ldb_wfile_flush
         s        ldb_wfile_sync
         c        ldb_wfile_close
         o<off>   set the log writer's block offset (ldb_writer_init: length % 32768); initially 0
         r<len>   ldb_writer_add_record of a <len>-byte record at the current block offset
                  (expanded by the extracted add_record_ops into appends + flushes; updates the offset)
       -> the system calls the model predicts, in order ("." = none):
         w<len> write(2) of <len> bytes, S fsync/fdatasync, D directory fsync, X close;
          followed by " | buf=<bytes left in the buffer> off=<block offset>"
   Hand-written glue: parsing and printing only; the whole run is one call of the extracted wf_exec
   (= wf_run, WFileProofs.wf_exec_is_run); the calls printed are the wf_out of the final state. *)
open Model
open Glue

let zeros (len : int) : n list = List.init len (fun _ -> N0)

let num (s : string) : int = int_of_string (String.sub s 1 (String.length s - 1))

let run (toks : string list) : string option =
  match toks with
  | "wfile_calls" :: kind :: ops ->
      let off = ref N0 in
      let expand (t : string) : wfop list =
        if t = "f" then [WfFlush]
        else if t = "s" then [WfSync]
        else if t = "c" then [WfClose]
        else match t.[0] with
          | 'a' -> [WfAppend (zeros (num t))]
          | 'o' -> off := n_of_int (num t); []
          | 'r' -> let (l, off') = add_record_ops !off (zeros (num t)) in off := off'; l
          | _ -> failwith "bad wfile op" in
      let wops = List.concat (List.map expand ops) in
      let w = wf_exec (wf_init (kind = "m")) wops in
      let calls = w.wf_out in
      let show = function
        | WsWrite d -> "w" ^ string_of_int (int_of_n (nlen d))
        | WsFsync -> "S"
        | WsSyncDir -> "D"
        | WsClose -> "X" in
      let body = match calls with [] -> "." | _ -> String.concat " " (List.map show calls) in
      Some (Printf.sprintf "%s | buf=%d off=%d" body (int_of_n (nlen w.wf_buf)) (int_of_n !off))
  | _ -> None
