(* cmd_manifest.ml -- MANIFEST replay (ManifestReplay.v: replica of ldb_versions_recover).
   manifest_replay <cmpname-hex> <manifest-bytes-hex> [kind]
     kind = user comparator: 0 bytewise (default), 1 reverse bytewise, 2 ASCII case-insensitive
   answer: "err <status-hex>" or
     "ok log=<hex> prev=<hex> manifest=<hex> next=<hex> seq=<hex> marked=<hex> L0=<files> ... L6=<files> cp=<k0>,...,<k6>"
     <files> = "." or comma list of <number-hex>:<size-hex>:<smallest-ikey-hex>/<largest-ikey-hex>, in version order
   Hand-written glue: argument parsing and printing only. *)
open Model
open Glue

let kcmp_of (kind : string) =
  match kind with
  | "0" -> ikey_compare
  | "1" -> ikc_compare rev_compare
  | "2" -> ikc_compare ci_compare
  | _ -> failwith "bad comparator kind"

let file_str (f : filemeta) : string =
  Printf.sprintf "%s:%s:%s/%s" (hex_of_n f.f_number) (hex_of_n f.f_size)
    (hex_of_bytes f.f_smallest) (hex_of_bytes f.f_largest)

let level_str (fs : filemeta list) : string =
  match fs with [] -> "." | _ -> String.concat "," (List.map file_str fs)

let recovered_str (r : recovered) : string =
  Printf.sprintf "ok log=%s prev=%s manifest=%s next=%s seq=%s marked=%s %s cp=%s"
    (hex_of_n r.rv_log_number) (hex_of_n r.rv_prev_log_number)
    (hex_of_n r.rv_manifest_file_number) (hex_of_n r.rv_next_file_number)
    (hex_of_n r.rv_last_sequence) (hex_of_n r.rv_marked)
    (String.concat " " (List.mapi (fun i fs -> Printf.sprintf "L%d=%s" i (level_str fs)) r.rv_levels))
    (String.concat "," (List.map hex_of_bytes r.rv_compact))

let run (toks : string list) : string option =
  match toks with
  | "manifest_replay" :: name :: file :: rest ->
      let kind = (match rest with [] -> "0" | k :: _ -> k) in
      Some (match manifest_replay_with (kcmp_of kind) (bytes_of_arg name) (bytes_of_arg file) with
            | Inl rc -> "err " ^ hex_of_n rc
            | Inr r -> recovered_str r)
  | _ -> None
