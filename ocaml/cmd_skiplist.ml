(* cmd_skiplist.ml -- commands for Skiplist.v / Memtable.v:
     skiplist <seed> <keys> <script>
     memtable <cmp> <adds> <gets> <script>
   formats: see harness/k1_skiplist.h.  Hand-written glue: parsing and printing only. *)
open Model
open Glue

let sops_arg (s : string) : skop list =
  if s = "." then []
  else List.map (fun op ->
    match op.[0] with
    | 'F' -> SkFirst | 'L' -> SkLast | 'N' -> SkNext | 'P' -> SkPrev
    | 'S' -> SkSeek (bytes_of_arg (String.sub op 1 (String.length op - 1)))
    | _ -> failwith "bad script op") (String.split_on_char ',' s)

let hexi (i : int) = Printf.sprintf "%x" i
let list_str f = function [] -> "." | l -> String.concat "," (List.map f l)

let run (toks : string list) : string option =
  match toks with
  | ["skiplist"; seed; keys; script] ->
      let (((hs, maxh), levels), vis) = skiplist_script (n_of_hex seed) (list_arg keys) (sops_arg script) in
      let hs_s = match hs with [] -> "." | _ -> String.concat "" (List.map (fun h -> hexi (int_of_nat h)) hs) in
      let lv_s = String.concat "/" (List.map (list_str (fun n -> hexi (int_of_nat n))) levels) in
      let vis_s = list_str (function Some k -> hex_of_bytes k | None -> "!") vis in
      Some (hs_s ^ " " ^ hexi (int_of_nat maxh) ^ " " ^ lv_s ^ " " ^ vis_s)
  | ["memtable"; sel; adds; gets; script] ->
      let adds = if adds = "." then [] else List.map (fun s ->
        match String.split_on_char ':' s with
        | [q; t; k; v] -> (((n_of_hex q, n_of_hex t), bytes_of_arg k), bytes_of_arg v)
        | _ -> failwith "bad add") (String.split_on_char ',' adds) in
      let gets = if gets = "." then [] else List.map (fun s ->
        match String.split_on_char ':' s with
        | [k; q] -> (bytes_of_arg k, n_of_hex q)
        | _ -> failwith "bad get") (String.split_on_char ',' gets) in
      let (rs, vis) = memtable_script (n_of_hex sel) adds gets (sops_arg script) in
      let r_s = list_str (function Found v -> "v" ^ hex_of_bytes v | Deleted -> "d" | NotHere -> "n") rs in
      let vis_s = list_str (function Some (k, v) -> hex_of_bytes k ^ "=" ^ hex_of_bytes v | None -> "!") vis in
      Some (r_s ^ " " ^ vis_s)
  | _ -> None
