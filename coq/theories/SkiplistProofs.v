(* SkiplistProofs.v -- proofs of the theorem statements of SkiplistSpec.v about the
   skiplist model (Skiplist.v).  The invariant and its preservation by insertion are in
   SkiplistLemmas.v / SkiplistInv.v / SkiplistInvInsert.v. *)
From LCDB Require Import Skiplist SkiplistSpec SkiplistLemmas SkiplistInv SkiplistInvInsert.
Require Import Lia ZifyBool ZifyNat ZifyN.
Require Import List Arith.
Import ListNotations.
Local Open Scope nat_scope.

Section Proofs.
Variable K : Type.
Variable cmp : K -> K -> comparison.
Hypothesis Hord : cmp_order cmp.

(* ------------------------------------------------------------------ *)
(* contents and seek                                                    *)
(* ------------------------------------------------------------------ *)
Lemma wf_contents : forall sl order, wf K cmp sl order ->
  skiplist_contents sl = keys_of sl order.
Proof.
  intros sl order Hwf. unfold skiplist_contents.
  rewrite (wf_level_nodes K cmp sl order 0 Hwf) by (unfold MAX_HEIGHT; lia).
  rewrite (wf_level0 K cmp sl order Hwf). reflexivity.
Qed.

Lemma find_ge_keys : forall (sl : skiplist K) k A B,
  Forall (fun y => ka cmp sl k y = true) A -> Forall (fun y => ka cmp sl k y = false) B ->
  (forall y, In y B -> node_key sl y <> None) ->
  find (ge_key cmp k) (keys_of sl A ++ keys_of sl B) = key_at sl (hd_error B).
Proof.
  induction A as [|a A IH]; intros B HA HB Hkey.
  - cbn [keys_of app]. destruct B as [|b B']; [reflexivity|].
    cbn [keys_of hd_error key_at].
    destruct (node_key sl b) as [kb|] eqn:Hkb.
    + cbn [find]. unfold ge_key.
      assert (H1 : cmp kb k <> Lt).
      { apply (ka_false K cmp sl k b kb); [|exact Hkb]. inversion HB; auto. }
      destruct (cmp kb k); congruence.
    + exfalso. apply (Hkey b); auto. left; auto.
  - inversion HA as [|? ? Ha HA']; subst.
    apply ka_true in Ha. destruct Ha as (kx & Hkx & Hlt).
    cbn [keys_of]. rewrite Hkx. cbn [app find]. unfold ge_key at 1. rewrite Hlt.
    apply IH; auto.
Qed.

Theorem skiplist_contents_main : skiplist_contents_statement K cmp.
Proof.
  intros _ keys hs Hd Hh.
  destruct (build_wf K cmp Hord keys hs Hd Hh) as (order & Hwf & Hkeys & _).
  rewrite (wf_contents _ _ Hwf). exact Hkeys.
Qed.

Theorem skiplist_seek_main : skiplist_seek_statement K cmp.
Proof.
  intros _ keys hs Hd Hh k.
  destruct (build_wf K cmp Hord keys hs Hd Hh) as (order & Hwf & Hkeys & _).
  rewrite <- Hkeys.
  destruct (split_exists K cmp Hord (sl_build cmp keys hs) k order (wf_sorted _ _ _ _ Hwf))
    as (A & B & -> & HA & HB).
  rewrite (wf_find_ge K cmp _ A B k Hwf HA HB). cbn [fst].
  rewrite keys_of_app. symmetry. apply find_ge_keys; auto.
  intros y Hy. apply (wf_key _ _ _ _ Hwf). apply in_or_app; auto.
Qed.


(* ------------------------------------------------------------------ *)
(* levels                                                               *)
(* ------------------------------------------------------------------ *)
Theorem skiplist_levels_main : skiplist_levels_statement K cmp.
Proof.
  intros _ keys hs Hd Hh. cbv zeta.
  destruct (build_wf K cmp Hord keys hs Hd Hh) as (order & Hwf & Hkeys & Hlen & Hmap & Hmax).
  split; [|split; auto].
  intros l Hl.
  rewrite (wf_level_nodes K cmp _ order l Hwf Hl).
  rewrite (wf_level_nodes K cmp _ order 0 Hwf) by (unfold MAX_HEIGHT; lia).
  rewrite (wf_level0 K cmp _ order Hwf). reflexivity.
Qed.

(* ------------------------------------------------------------------ *)
(* find_lt, find_last                                                   *)
(* ------------------------------------------------------------------ *)
Lemma list_snoc_cases : forall {A} (l : list A), l = [] \/ exists l' x, l = l' ++ [x].
Proof.
  intros A l. destruct l as [|a l]; [left; reflexivity|right].
  destruct (@exists_last A (a :: l)) as (l' & x & H); [discriminate|]. eauto.
Qed.

Lemma find_skip : forall {A} (f : A -> bool) l1 l2,
  (forall x, In x l1 -> f x = false) -> find f (l1 ++ l2) = find f l2.
Proof.
  induction l1 as [|x l1 IH]; intros l2 H; cbn [app find]; auto.
  rewrite (H x (or_introl eq_refl)). apply IH. intros y Hy. apply H. right; auto.
Qed.

Lemma In_keys_of : forall (sl : skiplist K) c x, In x (keys_of sl c) ->
  exists y, In y c /\ node_key sl y = Some x.
Proof.
  induction c as [|z c IH]; intros x H; cbn [keys_of] in H; [contradiction|].
  destruct (node_key sl z) as [kz|] eqn:Hz.
  - destruct H as [<-|H].
    + exists z. split; [left; auto | auto].
    + destruct (IH x H) as (y & Hy & Hk). exists y. split; [right; auto | auto].
  - destruct (IH x H) as (y & Hy & Hk). exists y. split; [right; auto | auto].
Qed.

Lemma keys_of_length : forall (sl : skiplist K) c,
  (forall y, In y c -> node_key sl y <> None) -> length (keys_of sl c) = length c.
Proof.
  induction c as [|z c IH]; intros H; cbn [keys_of length]; auto.
  destruct (node_key sl z) eqn:Hz.
  - cbn [length]. f_equal. apply IH. intros y Hy. apply H. right; auto.
  - exfalso. apply (H z); auto. left; auto.
Qed.

Lemma keys_of_nth : forall (sl : skiplist K) c i n,
  (forall y, In y c -> node_key sl y <> None) ->
  nth_error c i = Some n -> node_key sl n = nth_error (keys_of sl c) i.
Proof.
  induction c as [|z c IH]; intros i n H Hn; [destruct i; discriminate|].
  cbn [keys_of]. destruct (node_key sl z) as [kz|] eqn:Hz.
  - destruct i as [|i]; cbn [nth_error] in *.
    + injection Hn as <-. exact Hz.
    + apply IH; auto. intros y Hy. apply H. right; auto.
  - exfalso. apply (H z); auto. left; auto.
Qed.

Lemma keys_A_lt : forall (sl : skiplist K) k A x,
  Forall (fun y => ka cmp sl k y = true) A -> In x (keys_of sl A) -> cmp x k = Lt.
Proof.
  intros sl k A x HA Hx. apply In_keys_of in Hx. destruct Hx as (y & Hy & Hk).
  rewrite Forall_forall in HA. destruct (ka_true K cmp sl k y (HA y Hy)) as (ky & Hky & Hlt).
  congruence.
Qed.

Lemma keys_B_ge : forall (sl : skiplist K) k B x,
  Forall (fun y => ka cmp sl k y = false) B -> In x (keys_of sl B) -> cmp x k <> Lt.
Proof.
  intros sl k B x HB Hx. apply In_keys_of in Hx. destruct Hx as (y & Hy & Hk).
  rewrite Forall_forall in HB. apply (ka_false K cmp sl k y x (HB y Hy) Hk).
Qed.

Lemma order_not_head : forall sl order y, wf K cmp sl order -> In y order -> y <> 0.
Proof.
  intros sl order y Hwf Hy ->. pose proof (wf_nodup _ _ _ _ Hwf) as Hnd.
  inversion Hnd; auto.
Qed.

Lemma find_lt_keys : forall sl k A B, wf K cmp sl (A ++ B) ->
  Forall (fun y => ka cmp sl k y = true) A -> Forall (fun y => ka cmp sl k y = false) B ->
  node_key sl (last (0 :: A) 0) = find (lt_key cmp k) (rev (keys_of sl (A ++ B))) /\
  (last (0 :: A) 0 = 0 <-> find (lt_key cmp k) (rev (keys_of sl (A ++ B))) = None).
Proof.
  intros sl k A B Hwf HA HB.
  rewrite keys_of_app, rev_app_distr.
  rewrite find_skip.
  2:{ intros x Hx. apply in_rev in Hx. unfold lt_key.
      pose proof (keys_B_ge sl k B x HB Hx) as H. destruct (cmp x k); congruence. }
  destruct (list_snoc_cases A) as [->|(A0 & p & ->)].
  - cbn [last keys_of rev find]. split; [exact (wf_hkey _ _ _ _ Hwf)|]. split; auto.
  - change (0 :: A0 ++ [p]) with ((0 :: A0) ++ [p]). rewrite last_last.
    assert (Hp : ka cmp sl k p = true).
    { rewrite Forall_forall in HA. apply HA. apply in_or_app. right. left. auto. }
    destruct (ka_true K cmp sl k p Hp) as (kp & Hkp & Hlt).
    rewrite keys_of_app. cbn [keys_of]. rewrite Hkp. rewrite rev_app_distr. cbn [rev app find].
    assert (Hltk : lt_key cmp k kp = true) by (unfold lt_key; rewrite Hlt; reflexivity).
    rewrite Hltk. split; [reflexivity|].
    split; [|discriminate]. intros H. exfalso.
    apply (order_not_head sl (( A0 ++ [p]) ++ B) p Hwf); auto.
    apply in_or_app. left. apply in_or_app. right. left. auto.
Qed.

Theorem skiplist_find_lt_main : skiplist_find_lt_statement K cmp.
Proof.
  intros _ keys hs Hd Hh. cbv zeta.
  destruct (build_wf K cmp Hord keys hs Hd Hh) as (order & Hwf & Hkeys & Hlen & _).
  rewrite <- Hkeys.
  split; [|split].
  - intros k.
    destruct (split_exists K cmp Hord (sl_build cmp keys hs) k order (wf_sorted _ _ _ _ Hwf))
      as (A & B & -> & HA & HB).
    rewrite (wf_find_lt K cmp _ A B k Hwf HA HB).
    apply find_lt_keys; auto.
  - rewrite (wf_find_last K cmp _ order Hwf).
    destruct (list_snoc_cases order) as [->|(o & p & ->)].
    + cbn [last keys_of rev hd_error]. exact (wf_hkey _ _ _ _ Hwf).
    + change (0 :: o ++ [p]) with ((0 :: o) ++ [p]). rewrite last_last.
      rewrite keys_of_app. cbn [keys_of].
      destruct (node_key (sl_build cmp keys hs) p) as [kp|] eqn:Hkp.
      * rewrite rev_app_distr. reflexivity.
      * exfalso. apply (wf_key _ _ _ _ Hwf p); auto. apply in_or_app. right. left. auto.
  - rewrite (wf_find_last K cmp _ order Hwf).
    destruct (list_snoc_cases order) as [->|(o & p & ->)].
    + cbn [last]. destruct keys; [tauto | cbn [length] in Hlen; lia].
    + change (0 :: o ++ [p]) with ((0 :: o) ++ [p]). rewrite last_last.
      split.
      * intros ->. exfalso. apply (order_not_head _ _ 0 Hwf); auto.
        apply in_or_app. right. left. auto.
      * intros ->. rewrite app_length in Hlen. cbn [length] in Hlen. lia.
Qed.

(* ------------------------------------------------------------------ *)
(* the iterator                                                         *)
(* ------------------------------------------------------------------ *)
Lemma nth_error_snoc_hd : forall {A} (l1 l2 : list A), nth_error (l1 ++ l2) (length l1) = hd_error l2.
Proof.
  intros A l1 l2. rewrite nth_error_app2 by lia. rewrite Nat.sub_diag. destruct l2; reflexivity.
Qed.

Lemma wf_next0 : forall sl l1 n l2, wf K cmp sl (l1 ++ n :: l2) -> node_next sl n 0 = hd_error l2.
Proof.
  intros sl l1 n l2 Hwf.
  assert (Hl : 0 < MAX_HEIGHT) by (unfold MAX_HEIGHT; lia).
  pose proof (wf_chain _ _ _ _ Hwf 0 Hl) as Hc.
  change (0 :: l1 ++ n :: l2) with ((0 :: l1) ++ n :: l2) in Hc.
  assert (Hn : In n (l1 ++ n :: l2)) by (apply in_or_app; right; left; auto).
  rewrite (next_in_full K sl 0 (0 :: l1) n l2 Hc).
  - f_equal. apply filter_true. intros y Hy. unfold lf. apply Nat.ltb_lt.
    assert (In y (l1 ++ n :: l2)) as Hin by (apply in_or_app; right; right; auto).
    pose proof (wf_ht _ _ _ _ Hwf y Hin). lia.
  - unfold lf. apply Nat.ltb_lt. pose proof (wf_ht _ _ _ _ Hwf n Hn). lia.
Qed.

Theorem skiplist_iterator_main : skiplist_iterator_statement K cmp.
Proof.
  intros _ keys hs Hd Hh. cbv zeta.
  destruct (build_wf K cmp Hord keys hs Hd Hh) as (order & Hwf & Hkeys & Hlen & _).
  rewrite <- Hkeys.
  rewrite (wf_level_nodes K cmp _ order 0 Hwf) by (unfold MAX_HEIGHT; lia).
  rewrite (wf_level0 K cmp _ order Hwf).
  set (sl := sl_build cmp keys hs) in *.
  pose proof (wf_key _ _ _ _ Hwf) as Hkey.
  split; [|split; [|split; [|split; [|split; [|split]]]]].
  - symmetry. apply keys_of_length. exact Hkey.
  - intros i n Hn. split.
    + apply (order_not_head sl order n Hwf). eapply nth_error_In; eauto.
    + apply keys_of_nth; auto.
  - unfold it_first.
    assert (Hl : 0 < MAX_HEIGHT) by (unfold MAX_HEIGHT; lia).
    pose proof (wf_chain _ _ _ _ Hwf 0 Hl) as Hc. rewrite filter_cons' in Hc.
    assert (H0 : lf sl 0 0 = true).
    { unfold lf. apply Nat.ltb_lt. rewrite (wf_hht _ _ _ _ Hwf). exact Hl. }
    rewrite H0 in Hc. destruct Hc as [Hn _]. rewrite Hn, (wf_level0 K cmp _ order Hwf).
    destruct order; reflexivity.
  - unfold it_last. rewrite (wf_find_last K cmp _ order Hwf).
    destruct (list_snoc_cases order) as [->|(o & p & ->)].
    + reflexivity.
    + change (0 :: o ++ [p]) with ((0 :: o) ++ [p]). rewrite last_last.
      rewrite app_length. cbn [length]. replace (length o + 1 - 1) with (length o) by lia.
      rewrite nth_error_snoc_hd. cbn [hd_error].
      assert (Hp : p <> 0).
      { apply (order_not_head sl _ p Hwf). apply in_or_app. right. left. auto. }
      destruct p; [congruence|reflexivity].
  - intros i n Hn. unfold it_next.
    destruct (nth_error_split order i Hn) as (l1 & l2 & -> & <-).
    rewrite (wf_next0 sl l1 n l2 Hwf).
    replace (l1 ++ n :: l2) with ((l1 ++ [n]) ++ l2) by (rewrite <- app_assoc; reflexivity).
    replace (S (length l1)) with (length (l1 ++ [n])) by (rewrite app_length; cbn [length]; lia).
    symmetry. apply nth_error_snoc_hd.
  - intros i n Hn. unfold it_prev.
    destruct (nth_error_split order i Hn) as (l1 & l2 & -> & <-).
    assert (Hnin : In n (l1 ++ n :: l2)) by (apply in_or_app; right; left; auto).
    destruct (node_key sl n) as [kn|] eqn:Hkn; [|exfalso; exact (Hkey n Hnin Hkn)].
    pose proof (wf_sorted _ _ _ _ Hwf) as Hs.
    apply srt_app in Hs. destruct Hs as (_ & Hs2 & Hs12). cbn [srt] in Hs2.
    destruct Hs2 as [Hn2 _].
    assert (HA : Forall (fun y => ka cmp sl kn y = true) l1).
    { rewrite Forall_forall in *. intros a Ha. specialize (Hs12 a Ha).
      inversion Hs12 as [|? ? Han _]; subst. unfold nlt in Han. rewrite Hkn in Han.
      destruct (node_key sl a) as [kx|] eqn:Hkx; [|contradiction].
      apply (ka_intro_true K cmp sl kn a kx); auto. }
    assert (HB : Forall (fun y => ka cmp sl kn y = false) (n :: l2)).
    { constructor.
      - apply (ka_intro_false K cmp sl kn n kn); auto. rewrite (co_refl _ _ Hord). discriminate.
      - rewrite Forall_forall in *. intros b Hb. specialize (Hn2 b Hb).
        unfold nlt in Hn2. rewrite Hkn in Hn2.
        destruct (node_key sl b) as [kb|] eqn:Hkb; [|contradiction].
        apply (ka_intro_false K cmp sl kn b kb); auto.
        rewrite (co_antisym _ _ Hord kb kn), Hn2. discriminate. }
    rewrite (wf_find_lt K cmp sl l1 (n :: l2) kn Hwf HA HB).
    destruct (list_snoc_cases l1) as [->|(l0 & p & ->)].
    + reflexivity.
    + change (0 :: l0 ++ [p]) with ((0 :: l0) ++ [p]). rewrite last_last.
      rewrite app_length. cbn [length]. replace (length l0 + 1) with (S (length l0)) by lia.
      rewrite <- !app_assoc. rewrite nth_error_snoc_hd. cbn [app hd_error].
      assert (Hp : p <> 0).
      { apply (order_not_head sl _ p Hwf). apply in_or_app. left. apply in_or_app. right. left. auto. }
      destruct p; [congruence|reflexivity].
  - intros k.
    destruct (split_exists K cmp Hord sl k order (wf_sorted _ _ _ _ Hwf)) as (A & B & -> & HA & HB).
    exists (length A). unfold it_seek.
    rewrite (wf_find_ge K cmp sl A B k Hwf HA HB). cbn [fst].
    assert (HlenA : length (keys_of sl A) = length A).
    { apply keys_of_length. intros y Hy. apply Hkey. apply in_or_app; auto. }
    rewrite keys_of_app.
    split; [|split].
    + symmetry. apply nth_error_snoc_hd.
    + intros j x Hj Hx. rewrite nth_error_app1 in Hx by lia.
      apply nth_error_In in Hx. eapply keys_A_lt; eauto.
    + intros x Hx. rewrite <- HlenA, nth_error_snoc_hd in Hx.
      apply (keys_B_ge sl k B x HB). destruct (keys_of sl B); [discriminate|].
      cbn [hd_error] in Hx. injection Hx as ->. left; auto.
Qed.

End Proofs.

Theorem skiplist_contents : forall K cmp, skiplist_contents_statement K cmp.
Proof. intros K cmp Hord. exact (skiplist_contents_main K cmp Hord Hord). Qed.
Print Assumptions skiplist_contents.

Theorem skiplist_seek : forall K cmp, skiplist_seek_statement K cmp.
Proof. intros K cmp Hord. exact (skiplist_seek_main K cmp Hord Hord). Qed.
Print Assumptions skiplist_seek.

Theorem skiplist_levels : forall K cmp, skiplist_levels_statement K cmp.
Proof. intros K cmp Hord. exact (skiplist_levels_main K cmp Hord Hord). Qed.
Print Assumptions skiplist_levels.

Theorem skiplist_find_lt : forall K cmp, skiplist_find_lt_statement K cmp.
Proof. intros K cmp Hord. exact (skiplist_find_lt_main K cmp Hord Hord). Qed.
Print Assumptions skiplist_find_lt.

Theorem skiplist_iterator : forall K cmp, skiplist_iterator_statement K cmp.
Proof. intros K cmp Hord. exact (skiplist_iterator_main K cmp Hord Hord). Qed.
Print Assumptions skiplist_iterator.
