(** Hb.v -- a small axiomatic happens-before model (property C10).

    An execution is a finite list of events; the position in the list is a
    global order consistent with program order.  On top of it:
      sb  = same-thread order,
      sw  = unlock -> next lock of the same mutex,
            release write -> acquire read that reads from it (direct rf only),
            fork -> first event of the child, last event of the child -> join,
      hb  = (sb U sw)^+.
    A race is a pair of conflicting accesses (same location, different
    threads, one a write, one non-atomic) unordered by hb.

    The second half defines the FACT TABLE interface: a list of access classes
    (what the translator bin/facts_c10.py extracts from the C sources), the
    boolean consistency check [check_facts], and [execution_of F ex]: every
    access of [ex] belongs to a class of F and respects the guard declared
    for that class.  [execution_of] is the TRUSTED part of the C10 argument:
    it assumes that the executions of the C code are the executions whose
    accesses respect the declared guards (the translator reads the guards off
    the source text: lock regions, memory-order arguments).  The theorems in
    HbProofs.v turn "the declared discipline is consistent" into "no races". *)
Require Import List Arith Bool Lia Relations String.
Import ListNotations.

Definition tid := nat.
Definition loc := nat.

Inductive mo := NonAtomic | Relaxed | Acquire | Release | AcqRel | SeqCst.

(** Read-modify-write operations (fetch_add, ...) are modelled as atomic
    [Write]s: for race detection only "is it a write, is it atomic" matters. *)
Inductive kind := Read | Write | Lock | Unlock | Fork (c : tid) | Join (c : tid).

Record event := mkEvent {
  e_tid : tid;
  e_kind : kind;
  e_loc : loc;            (* data location, or the mutex for Lock/Unlock *)
  e_mo : mo;
  e_rf : option nat       (* for reads of atomic locations: index of the write read from *)
}.

Definition execution := list event.
Definition ev (ex : execution) (i : nat) : option event := nth_error ex i.

Definition is_rel (m : mo) : bool :=
  match m with Release | AcqRel | SeqCst => true | _ => false end.
Definition is_acq (m : mo) : bool :=
  match m with Acquire | AcqRel | SeqCst => true | _ => false end.
Definition mo_atomic (m : mo) : bool :=
  match m with NonAtomic => false | _ => true end.

Definition kind_is_read (k : kind) : bool := match k with Read => true | _ => false end.
Definition kind_is_write (k : kind) : bool := match k with Write => true | _ => false end.
Definition kind_is_access (k : kind) : bool := match k with Read | Write => true | _ => false end.
Definition is_access (e : event) : bool := kind_is_access (e_kind e).

Definition is_lock_on (m : loc) (e : event) : bool :=
  match e_kind e with Lock => Nat.eqb (e_loc e) m | _ => false end.
Definition is_unlock_on (m : loc) (e : event) : bool :=
  match e_kind e with Unlock => Nat.eqb (e_loc e) m | _ => false end.

(** ** Mutex semantics *)

Definition step (m : loc) (h : option tid) (e : event) : option tid :=
  if is_lock_on m e then Some (e_tid e)
  else if is_unlock_on m e then None
  else h.

(** [holder ex m n] = the thread holding mutex [m] after the first [n] events,
    i.e. just before event number [n]. *)
Definition holder (ex : execution) (m : loc) (n : nat) : option tid :=
  fold_left (step m) (firstn n ex) None.

(** Per mutex, Lock and Unlock alternate and the unlocker is the holder. *)
Definition wf_mutex (ex : execution) : Prop :=
  forall n e, ev ex n = Some e ->
    (e_kind e = Lock -> holder ex (e_loc e) n = None) /\
    (e_kind e = Unlock -> holder ex (e_loc e) n = Some (e_tid e)).

(** Reads-from points to an earlier write of the same location. *)
Definition wf_rf (ex : execution) : Prop :=
  forall j ej w, ev ex j = Some ej -> e_kind ej = Read -> e_rf ej = Some w ->
    w < j /\ exists ew, ev ex w = Some ew /\ e_kind ew = Write /\ e_loc ew = e_loc ej.

(** ** sb, sw, hb *)

Definition sb (ex : execution) (i j : nat) : Prop :=
  i < j /\ exists ei ej, ev ex i = Some ei /\ ev ex j = Some ej /\ e_tid ei = e_tid ej.

Definition sw_mutex (ex : execution) (i j : nat) (ei ej : event) : Prop :=
  e_kind ei = Unlock /\ e_kind ej = Lock /\ e_loc ei = e_loc ej /\
  (forall k ek, i < k < j -> ev ex k = Some ek -> is_lock_on (e_loc ei) ek = false).

Definition sw_rf (i : nat) (ei ej : event) : Prop :=
  e_kind ei = Write /\ e_kind ej = Read /\ e_loc ei = e_loc ej /\
  is_rel (e_mo ei) = true /\ is_acq (e_mo ej) = true /\ e_rf ej = Some i.

Definition sw_fork (ex : execution) (j : nat) (ei ej : event) : Prop :=
  exists c, e_kind ei = Fork c /\ e_tid ej = c /\
    (forall k ek, k < j -> ev ex k = Some ek -> e_tid ek <> c).

Definition sw_join (ex : execution) (i : nat) (ei ej : event) : Prop :=
  exists c, e_kind ej = Join c /\ e_tid ei = c /\
    (forall k ek, i < k -> ev ex k = Some ek -> e_tid ek <> c).

Definition sw (ex : execution) (i j : nat) : Prop :=
  i < j /\ exists ei ej, ev ex i = Some ei /\ ev ex j = Some ej /\
    (sw_mutex ex i j ei ej \/ sw_rf i ei ej \/ sw_fork ex j ei ej \/ sw_join ex i ei ej).

Definition hb1 (ex : execution) (i j : nat) : Prop := sb ex i j \/ sw ex i j.
Definition hb (ex : execution) : nat -> nat -> Prop := clos_trans nat (hb1 ex).

(** ** Races *)

Definition conflict (ei ej : event) : Prop :=
  is_access ei = true /\ is_access ej = true /\
  e_loc ei = e_loc ej /\ e_tid ei <> e_tid ej /\
  (e_kind ei = Write \/ e_kind ej = Write) /\
  (e_mo ei = NonAtomic \/ e_mo ej = NonAtomic).

Definition race (ex : execution) (i j : nat) : Prop :=
  exists ei ej, ev ex i = Some ei /\ ev ex j = Some ej /\ i <> j /\
    conflict ei ej /\ ~ hb ex i j /\ ~ hb ex j i.

Definition race_free (ex : execution) : Prop := forall i j, ~ race ex i j.

(** ** Disciplines (for the stand-alone theorems) *)

(** Every access to [x] outside the phase [init] (initialisation before
    publication / teardown after the last join) holds mutex [m]. *)
Definition guarded_by (ex : execution) (init : nat -> bool) (x m : loc) : Prop :=
  forall i e, ev ex i = Some e -> is_access e = true -> e_loc e = x ->
    init i = false -> holder ex m i = Some (e_tid e).

(** Publication of a fresh object whose fields are the locations [fld]:
    thread [t0] writes the fields before the Release store number [w]; the
    fields are never written again; any other thread reads a field only after
    an Acquire load that reads from a Release store [wr] which is [w] itself
    or happens after [w] (e.g. a later insert linking a newer node in front). *)
Definition published_object (ex : execution) (fld : loc -> bool) (t0 : tid) (w : nat) : Prop :=
  (exists ew, ev ex w = Some ew /\ e_tid ew = t0 /\ e_kind ew = Write /\ is_rel (e_mo ew) = true) /\
  forall i e, ev ex i = Some e -> is_access e = true -> fld (e_loc e) = true ->
    (e_tid e = t0 /\ (i < w \/ e_kind e = Read)) \/
    (e_kind e = Read /\
     exists r er wr ewr, r < i /\ ev ex r = Some er /\ e_tid er = e_tid e /\
       e_kind er = Read /\ is_acq (e_mo er) = true /\ e_rf er = Some wr /\
       ev ex wr = Some ewr /\ is_rel (e_mo ewr) = true /\ (wr = w \/ hb ex w wr)).

(** Locations accessed only atomically. *)
Definition only_atomic (ex : execution) (x : loc) : Prop :=
  forall i e, ev ex i = Some e -> is_access e = true -> e_loc e = x -> mo_atomic (e_mo e) = true.

(** ** Fact tables *)

(** Guards.  [GLock ms]: the access is made while holding one mutex of every
    lock class in [ms] (the instance protecting that concrete location).
    The writer-queue protocol of db_impl.c ("the thread at the head of
    db->writers owns the log and the right to insert into db->mem") is a lock
    class of its own, a virtual mutex whose Lock/Unlock are the moments a
    thread becomes / stops being the queue head (both happen inside
    db->mutex critical sections); accesses by the queue head outside
    db->mutex are [GLock [Q]], written GQueueHead in the generated table. *)
Inductive guard :=
| GLock (ms : list nat)
| GPublishedBy (p : nat)      (* field of an object published through pointer class p *)
| GAtomic
| GThreadLocal
| GInit.                      (* exclusive phase: before the handle is shared / after the last join *)

Inductive role := RPlain | RPublish | RTraverse.

Record access_class := mkClass {
  ac_name : string;
  ac_loc : nat;         (* location class *)
  ac_kind : kind;       (* Read or Write *)
  ac_mo : mo;
  ac_guard : guard;
  ac_role : role        (* RPublish: the store that makes an object reachable;
                           RTraverse: a load through which readers reach objects *)
}.

Definition locks_of (g : guard) : list nat := match g with GLock ms => ms | _ => [] end.
Definition is_init (g : guard) : bool := match g with GInit => true | _ => false end.

Definition share_lock (a b : access_class) : bool :=
  existsb (fun m => existsb (Nat.eqb m) (locks_of (ac_guard b))) (locks_of (ac_guard a)).
Definition same_pub (a b : access_class) : bool :=
  match ac_guard a, ac_guard b with GPublishedBy p, GPublishedBy q => Nat.eqb p q | _, _ => false end.
Definition both_tl (a b : access_class) : bool :=
  match ac_guard a, ac_guard b with GThreadLocal, GThreadLocal => true | _, _ => false end.

(** Two classes on the same location class are compatible when no pair of
    their accesses from different threads can race. *)
Definition pair_ok (a b : access_class) : bool :=
  is_init (ac_guard a) || is_init (ac_guard b)
  || (negb (kind_is_write (ac_kind a)) && negb (kind_is_write (ac_kind b)))
  || (mo_atomic (ac_mo a) && mo_atomic (ac_mo b))
  || share_lock a b || both_tl a b || same_pub a b.

Definition class_wf (a : access_class) : bool :=
  kind_is_access (ac_kind a)
  && match ac_guard a with GAtomic => mo_atomic (ac_mo a) | _ => true end
  && match ac_role a with
     | RPublish => kind_is_write (ac_kind a) && is_rel (ac_mo a)
     | RTraverse => kind_is_read (ac_kind a) && is_acq (ac_mo a)
     | RPlain => true
     end.

Definition role_eqb (r s : role) : bool :=
  match r, s with RPlain, RPlain | RPublish, RPublish | RTraverse, RTraverse => true | _, _ => false end.

(** A published class needs a publishing store and a traversal load on its pointer class. *)
Definition pub_ok (F : list access_class) (a : access_class) : bool :=
  match ac_guard a with
  | GPublishedBy p =>
      existsb (fun b => Nat.eqb (ac_loc b) p && role_eqb (ac_role b) RPublish) F &&
      existsb (fun b => Nat.eqb (ac_loc b) p && role_eqb (ac_role b) RTraverse) F
  | _ => true
  end.

Definition pairs_ok (F : list access_class) : bool :=
  forallb (fun a => forallb (fun b => negb (Nat.eqb (ac_loc a) (ac_loc b)) || pair_ok a b) F) F.

Definition check_facts (F : list access_class) : bool :=
  forallb class_wf F && forallb (pub_ok F) F && pairs_ok F.

(** Diagnosis (evaluated by the check when [check_facts] is false). *)
Definition bad_classes (F : list access_class) : list string :=
  map ac_name (filter (fun a => negb (class_wf a && pub_ok F a)) F).
Definition bad_pairs (F : list access_class) : list (string * string) :=
  flat_map (fun a => map (fun b => (ac_name a, ac_name b))
     (filter (fun b => Nat.eqb (ac_loc a) (ac_loc b) && negb (pair_ok a b)) F)) F.

(** ** Executions of a fact table *)

Record interp := mkInterp {
  i_lcl : loc -> nat;          (* location class of a concrete location *)
  i_mu : nat -> loc -> loc;    (* the mutex instance of lock class M protecting concrete location x *)
  i_lab : nat -> access_class; (* class of the access event number i *)
  i_pub : loc -> nat           (* for a published location: index of its publication store *)
}.

Definition matches_class (I : interp) (e : event) (a : access_class) : Prop :=
  i_lcl I (e_loc e) = ac_loc a /\ e_kind e = ac_kind a /\ e_mo e = ac_mo a.

Definition published (ex : execution) (I : interp) (i : nat) (e : event) : Prop :=
  exists ew, ev ex (i_pub I (e_loc e)) = Some ew /\ e_kind ew = Write /\
    ac_role (i_lab I (i_pub I (e_loc e))) = RPublish /\
    ((e_tid e = e_tid ew /\ (i < i_pub I (e_loc e) \/ e_kind e = Read)) \/
     (e_kind e = Read /\
      exists r er wr, r < i /\ ev ex r = Some er /\ e_tid er = e_tid e /\
        e_kind er = Read /\ ac_role (i_lab I r) = RTraverse /\ e_rf er = Some wr /\
        ac_role (i_lab I wr) = RPublish /\
        (wr = i_pub I (e_loc e) \/ hb ex (i_pub I (e_loc e)) wr))).

Definition respects (ex : execution) (I : interp) (i : nat) (e : event) (a : access_class) : Prop :=
  match ac_guard a with
  | GLock ms => forall M, In M ms -> holder ex (i_mu I M (e_loc e)) i = Some (e_tid e)
  | GAtomic => True
  | GThreadLocal =>
      forall j ej, ev ex j = Some ej -> is_access ej = true -> e_loc ej = e_loc e -> e_tid ej = e_tid e
  | GInit =>
      forall j ej, ev ex j = Some ej -> is_access ej = true -> e_loc ej = e_loc e ->
        e_tid ej <> e_tid e -> hb ex i j \/ hb ex j i
  | GPublishedBy _ => published ex I i e
  end.

(** TRUSTED: the executions of the C code are among these. *)
Definition execution_of (F : list access_class) (ex : execution) : Prop :=
  wf_mutex ex /\ wf_rf ex /\
  exists I, forall i e, ev ex i = Some e -> is_access e = true ->
    In (i_lab I i) F /\ matches_class I e (i_lab I i) /\ respects ex I i e (i_lab I i).
