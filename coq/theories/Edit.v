(* Edit.v -- model of src/version_edit.c: ldb_edit_t, its setters,
   ldb_edit_export and ldb_edit_import (the MANIFEST record payload).
   Tags: 1 comparator, 2 log number, 3 next file number, 4 last sequence,
   5 compact pointer, 6 deleted file, 7 new file, 9 prev log number.
   Definitions only. *)
From LCDB Require Export Base Varint.
Local Open Scope N_scope.

Definition TAG_COMPARATOR : N := 1.
Definition TAG_LOG_NUMBER : N := 2.
Definition TAG_NEXT_FILE_NUMBER : N := 3.
Definition TAG_LAST_SEQUENCE : N := 4.
Definition TAG_COMPACT_POINTER : N := 5.
Definition TAG_DELETED_FILE : N := 6.
Definition TAG_NEW_FILE : N := 7.
Definition TAG_PREV_LOG_NUMBER : N := 9.

Definition EDIT_NUM_LEVELS : N := 7.     (* LDB_NUM_LEVELS *)

(* meta_entry_t: level + the serialized fields of ldb_filemeta_t *)
Record newfile := mkNewFile {
  nf_level : N;
  nf_number : N;
  nf_size : N;
  nf_smallest : bytes;     (* encoded internal key *)
  nf_largest : bytes
}.

(* ldb_edit_t.  [has_x] flag + value are merged into an option.
   e_deleted models the red-black set ordered by (level, number): the setters keep
   it strictly sorted; edit_export canonicalises an arbitrary list the same way. *)
Record edit := mkEdit {
  e_comparator : option bytes;
  e_log_number : option N;
  e_prev_log_number : option N;
  e_next_file_number : option N;
  e_last_sequence : option N;
  e_compact_pointers : list (N * bytes);     (* (level, internal key) *)
  e_deleted_files : list (N * N);            (* (level, number) *)
  e_new_files : list newfile
}.

(* ldb_edit_init / ldb_edit_reset *)
Definition edit_empty : edit := mkEdit None None None None None [] [] [].

(* ---- deleted-file set: file_entry_compare + rb_set_put ---- *)
Definition fe_compare (a b : N * N) : comparison :=
  match N.compare (fst a) (fst b) with
  | Eq => N.compare (snd a) (snd b)
  | c => c
  end.

Fixpoint set_insert (x : N * N) (l : list (N * N)) : list (N * N) :=
  match l with
  | [] => [x]
  | y :: r =>
      match fe_compare x y with
      | Lt => x :: l
      | Eq => l                      (* rb_set_put returns 0: entry already present *)
      | Gt => y :: set_insert x r
      end
  end.

(* the in-order traversal of the set built by inserting the elements of l in order *)
Definition canon_deleted (l : list (N * N)) : list (N * N) :=
  fold_left (fun s x => set_insert x s) l [].

(* ---- setters (ldb_edit_set_*, ldb_edit_add_file, ldb_edit_remove_file) ---- *)
Definition edit_set_comparator (e : edit) (name : bytes) : edit :=
  mkEdit (Some name) (e_log_number e) (e_prev_log_number e) (e_next_file_number e)
         (e_last_sequence e) (e_compact_pointers e) (e_deleted_files e) (e_new_files e).
Definition edit_set_log_number (e : edit) (n : N) : edit :=
  mkEdit (e_comparator e) (Some n) (e_prev_log_number e) (e_next_file_number e)
         (e_last_sequence e) (e_compact_pointers e) (e_deleted_files e) (e_new_files e).
Definition edit_set_prev_log_number (e : edit) (n : N) : edit :=
  mkEdit (e_comparator e) (e_log_number e) (Some n) (e_next_file_number e)
         (e_last_sequence e) (e_compact_pointers e) (e_deleted_files e) (e_new_files e).
Definition edit_set_next_file (e : edit) (n : N) : edit :=
  mkEdit (e_comparator e) (e_log_number e) (e_prev_log_number e) (Some n)
         (e_last_sequence e) (e_compact_pointers e) (e_deleted_files e) (e_new_files e).
Definition edit_set_last_sequence (e : edit) (n : N) : edit :=
  mkEdit (e_comparator e) (e_log_number e) (e_prev_log_number e) (e_next_file_number e)
         (Some n) (e_compact_pointers e) (e_deleted_files e) (e_new_files e).
(* ldb_vector_push *)
Definition edit_set_compact_pointer (e : edit) (level : N) (key : bytes) : edit :=
  mkEdit (e_comparator e) (e_log_number e) (e_prev_log_number e) (e_next_file_number e)
         (e_last_sequence e) (e_compact_pointers e ++ [(level, key)]) (e_deleted_files e)
         (e_new_files e).
Definition edit_remove_file (e : edit) (level number : N) : edit :=
  mkEdit (e_comparator e) (e_log_number e) (e_prev_log_number e) (e_next_file_number e)
         (e_last_sequence e) (e_compact_pointers e)
         (set_insert (level, number) (e_deleted_files e)) (e_new_files e).
Definition edit_add_file (e : edit) (f : newfile) : edit :=
  mkEdit (e_comparator e) (e_log_number e) (e_prev_log_number e) (e_next_file_number e)
         (e_last_sequence e) (e_compact_pointers e) (e_deleted_files e)
         (e_new_files e ++ [f]).

(* the edit with the deleted-file list replaced by its canonical form *)
Definition edit_canon (e : edit) : edit :=
  mkEdit (e_comparator e) (e_log_number e) (e_prev_log_number e) (e_next_file_number e)
         (e_last_sequence e) (e_compact_pointers e) (canon_deleted (e_deleted_files e))
         (e_new_files e).

(* ---- ldb_edit_export ---- *)
Definition export_scalar (tag : N) (v : option N) : bytes :=
  match v with
  | Some n => varint32_write tag ++ varint64_write n
  | None => []
  end.

Definition export_compact (p : N * bytes) : bytes :=
  varint32_write TAG_COMPACT_POINTER ++ varint32_write (fst p) ++ slice_write (snd p).

Definition export_deleted (p : N * N) : bytes :=
  varint32_write TAG_DELETED_FILE ++ varint32_write (fst p) ++ varint64_write (snd p).

Definition export_newfile (f : newfile) : bytes :=
  varint32_write TAG_NEW_FILE ++ varint32_write (nf_level f) ++
  varint64_write (nf_number f) ++ varint64_write (nf_size f) ++
  slice_write (nf_smallest f) ++ slice_write (nf_largest f).

Definition edit_export (e : edit) : bytes :=
  (match e_comparator e with
   | Some c => varint32_write TAG_COMPARATOR ++ slice_write c
   | None => []
   end) ++
  export_scalar TAG_LOG_NUMBER (e_log_number e) ++
  export_scalar TAG_PREV_LOG_NUMBER (e_prev_log_number e) ++
  export_scalar TAG_NEXT_FILE_NUMBER (e_next_file_number e) ++
  export_scalar TAG_LAST_SEQUENCE (e_last_sequence e) ++
  flat_map export_compact (e_compact_pointers e) ++
  flat_map export_deleted (canon_deleted (e_deleted_files e)) ++
  flat_map export_newfile (e_new_files e).

(* ---- ldb_edit_import ---- *)
(* ldb_level_slurp: varint32 < LDB_NUM_LEVELS *)
Definition level_read (input : bytes) : option (N * bytes) :=
  match varint32_read input with
  | None => None
  | Some (v, rest) => if EDIT_NUM_LEVELS <=? v then None else Some (v, rest)
  end.

(* one iteration of the while loop: read a tag and its payload, update the edit *)
Definition import_step (input : bytes) (e : edit) : option (bytes * edit) :=
  match varint32_read input with
  | None => None
  | Some (tag, r) =>
    if tag =? TAG_COMPARATOR then
      match slice_read r with
      | None => None
      | Some (s, r1) => Some (r1, edit_set_comparator e s)
      end
    else if tag =? TAG_LOG_NUMBER then
      match varint64_read r with
      | None => None
      | Some (n, r1) => Some (r1, edit_set_log_number e n)
      end
    else if tag =? TAG_PREV_LOG_NUMBER then
      match varint64_read r with
      | None => None
      | Some (n, r1) => Some (r1, edit_set_prev_log_number e n)
      end
    else if tag =? TAG_NEXT_FILE_NUMBER then
      match varint64_read r with
      | None => None
      | Some (n, r1) => Some (r1, edit_set_next_file e n)
      end
    else if tag =? TAG_LAST_SEQUENCE then
      match varint64_read r with
      | None => None
      | Some (n, r1) => Some (r1, edit_set_last_sequence e n)
      end
    else if tag =? TAG_COMPACT_POINTER then
      match level_read r with
      | None => None
      | Some (level, r1) =>
        match slice_read r1 with
        | None => None
        | Some (key, r2) =>
            if nlen key <? 8 then None
            else Some (r2, edit_set_compact_pointer e level key)
        end
      end
    else if tag =? TAG_DELETED_FILE then
      match level_read r with
      | None => None
      | Some (level, r1) =>
        match varint64_read r1 with
        | None => None
        | Some (number, r2) => Some (r2, edit_remove_file e level number)
        end
      end
    else if tag =? TAG_NEW_FILE then
      match level_read r with
      | None => None
      | Some (level, r1) =>
        match varint64_read r1 with
        | None => None
        | Some (number, r2) =>
          match varint64_read r2 with
          | None => None
          | Some (file_size, r3) =>
            match slice_read r3 with
            | None => None
            | Some (smallest, r4) =>
              match slice_read r4 with
              | None => None
              | Some (largest, r5) =>
                  if (nlen smallest <? 8) || (nlen largest <? 8) then None
                  else Some (r5, edit_add_file e
                                   (mkNewFile level number file_size smallest largest))
              end
            end
          end
        end
      end
    else None
  end.

(* while (input.size > 0).  Fuel: every iteration consumes at least the tag byte. *)
Fixpoint import_loop (fuel : nat) (input : bytes) (e : edit) : option edit :=
  match input with
  | [] => Some e
  | _ :: _ =>
    match fuel with
    | O => None            (* unreachable with fuel >= length input *)
    | S f =>
      match import_step input e with
      | None => None
      | Some (rest, e') => import_loop f rest e'
      end
    end
  end.

Definition edit_import (src : bytes) : option edit :=
  import_loop (length src) src edit_empty.

(* import then export (what a MANIFEST rewrite does) *)
Definition edit_roundtrip (src : bytes) : option bytes :=
  match edit_import src with
  | Some e => Some (edit_export e)
  | None => None
  end.

(* ---- well-formedness of an edit (precondition of the round-trip theorem) ---- *)
Definition wf_u64 (n : N) : bool := n <? 18446744073709551616.
Definition wf_opt_u64 (o : option N) : bool :=
  match o with Some n => wf_u64 n | None => true end.
Definition wf_str (s : bytes) : bool := nlen s <? 4294967296.
Definition wf_key (k : bytes) : bool := (8 <=? nlen k) && (nlen k <? 4294967296).
Definition wf_level (l : N) : bool := l <? EDIT_NUM_LEVELS.

Definition wf_newfile (f : newfile) : bool :=
  wf_level (nf_level f) && wf_u64 (nf_number f) && wf_u64 (nf_size f) &&
  wf_key (nf_smallest f) && wf_key (nf_largest f).

Definition wf_edit (e : edit) : bool :=
  (match e_comparator e with Some c => wf_str c | None => true end) &&
  wf_opt_u64 (e_log_number e) && wf_opt_u64 (e_prev_log_number e) &&
  wf_opt_u64 (e_next_file_number e) && wf_opt_u64 (e_last_sequence e) &&
  forallb (fun p => wf_level (fst p) && wf_key (snd p)) (e_compact_pointers e) &&
  forallb (fun p => wf_level (fst p) && wf_u64 (snd p)) (e_deleted_files e) &&
  forallb wf_newfile (e_new_files e).
