(* TableProofs.v -- proofs about TableFormat.v:
   (d) memory safety: footer/handle decoding, read_block, table_open, table_get and
       the two-level iterator never return OOB, for ALL file contents and scripts;
   (e) round trip of the table builder through the linear reader (see below). *)
From LCDB Require Import Base Varint Crc32c Block Trie Filter Snappy TableFormat.
From LCDB Require Import BaseProofs VarintProofs Crc32cProofs BlockProofs FilterProofs SnappyProofs.
Require Import Lia ZifyBool ZifyNat ZifyN.
Ltac Zify.zify_post_hook ::= Z.div_mod_to_equations.
Local Open Scope N_scope.

(* ------------------------------------------------------------------ *)
(* format.c                                                            *)
(* ------------------------------------------------------------------ *)
Lemma de64_some : forall l, 8 <= nlen l -> exists v, de64 l = Some v.
Proof.
  intros l H.
  destruct l as [|a [|b [|c [|d [|e [|f [|g [|h r]]]]]]]]; unfold nlen in H; cbn [length] in H; try lia.
  eexists. reflexivity.
Qed.

Theorem footer_decode_safe : forall l, footer_decode l <> OOB.
Proof.
  intros l. unfold footer_decode.
  destruct (nlen l <? FOOTER_SIZE) eqn:E; [discriminate|].
  unfold FOOTER_SIZE in E.
  destruct (de64_some (drop_n 40 l)) as [m ->]; [rewrite nlen_drop_n; lia|].
  destruct (negb (m =? TABLE_MAGIC)); [discriminate|].
  destruct (handle_decode l) as [[mi r]|]; [|discriminate].
  destruct (handle_decode r) as [[ih r']|]; discriminate.
Qed.

Lemma read_block_ok : forall file fsize verify h,
  fsize = nlen file -> exists r, read_block file fsize verify h = Ok r.
Proof.
  intros file fsize verify [off n] Hs. unfold read_block.
  destruct (18446744073709551610 <? n); [eexists; reflexivity|].
  unfold TRAILER_SIZE.
  destruct (fsize <? off + (n + 5)) eqn:E; [eexists; reflexivity|].
  rewrite slice_ok by (auto; lia). cbn [rbind].
  set (contents := take_n (n + 5) (drop_n off file)).
  assert (Hc : nlen contents = n + 5) by (subst contents; rewrite nlen_take_n_le; [reflexivity|rewrite nlen_drop_n; lia]).
  assert (Hd : nlen (drop_n n contents) = 5) by (rewrite nlen_drop_n; lia).
  destruct (drop_n n contents) as [|ty [|c0 [|c1 [|c2 [|c3 tl]]]]];
    unfold nlen in Hd; cbn [length] in Hd; try lia.
  match goal with |- context [if ?c then Ok (RBerr SCorruption) else _] => destruct c end;
    [eexists; reflexivity|].
  destruct (ty =? 0); [eexists; reflexivity|].
  destruct (ty =? 1); [|eexists; reflexivity].
  destruct (snappy_decode_size (take_n n contents)); [|eexists; reflexivity].
  pose proof (snappy_decode_safe (take_n n contents)) as Hsafe.
  destruct (snappy_decode (take_n n contents)) as [[u|]|]; cbn [rbind]; try (eexists; reflexivity).
  congruence.
Qed.

Theorem read_block_safe : forall file verify h, read_block file (nlen file) verify h <> OOB.
Proof.
  intros. destruct (read_block_ok file (nlen file) verify h eq_refl) as [r ->]. discriminate.
Qed.

(* ------------------------------------------------------------------ *)
(* table.c / two_level_iterator.c                                      *)
(* ------------------------------------------------------------------ *)
Lemma biter_value_valid_ok : forall it, binv it -> biter_valid it = true -> exists v, biter_value it = Ok v.
Proof.
  intros it Hinv V. pose proof (biter_observe_ok it Hinv) as [o Ho].
  unfold biter_observe in Ho. rewrite V in Ho.
  destruct (biter_value it) as [v|]; [eexists; reflexivity|discriminate].
Qed.

Lemma biter_empty_inv : forall st, binv (biter_empty st).
Proof. intros. left. reflexivity. Qed.

Section TableSafety.
Variable cmp : bytes -> bytes -> comparison.
Variable is_internal : bool.
Variable has_filter : bool.
Variable fmatch : bytes -> bytes -> res bool.
Hypothesis fmatch_safe : forall f k, fmatch f k <> OOB.

Definition table_ok (t : table) : Prop :=
  t_fsize t = nlen (t_file t) /\ blk_ok (t_index t) /\
  match t_filter t with Some fr => fr_ok fr | None => True end.

Lemma table_read_filter_ok : forall file paranoid hv,
  exists r, table_read_filter file (nlen file) paranoid hv = Ok r /\
            match r with Some fr => fr_ok fr | None => True end.
Proof.
  intros. unfold table_read_filter.
  destruct (handle_decode hv) as [[h r]|]; [|exists None; auto].
  destruct (read_block_ok file (nlen file) paranoid h eq_refl) as [rb ->]. cbn [rbind].
  destruct rb as [b|s]; [|exists None; auto].
  destruct (filter_init_ok b) as [fr [-> Hok]]. cbn [rbind]. exists (Some fr). auto.
Qed.

Lemma table_read_meta_ok : forall file paranoid mh,
  exists r, table_read_meta has_filter file (nlen file) paranoid mh = Ok r /\
            match r with Some fr => fr_ok fr | None => True end.
Proof.
  intros. unfold table_read_meta.
  destruct (negb has_filter); [exists None; auto|].
  destruct (read_block_ok file (nlen file) paranoid mh eq_refl) as [rb ->]. cbn [rbind].
  destruct rb as [b|s]; [|exists None; auto].
  destruct (block_init_ok b) as [blk (-> & Hok & _)]. cbn [rbind].
  destruct (biter_create_ok blk Hok) as [it (-> & Hinv)]. cbn [rbind].
  destruct (biter_seek_ok bytes_compare false FILTER_KEY it Hinv) as [it1 (-> & Hinv1)]. cbn [rbind].
  destruct (biter_valid it1) eqn:V; cbn [andb]; [|exists None; auto].
  destruct (bytes_eqb (biter_key it1) FILTER_KEY); [|exists None; auto].
  destruct (biter_value_valid_ok it1 Hinv1 V) as [v ->]. cbn [rbind].
  apply table_read_filter_ok.
Qed.

Lemma table_open_ok : forall paranoid file,
  exists r, table_open has_filter paranoid file = Ok r /\
            match r with inr t => table_ok t | inl _ => True end.
Proof.
  intros. unfold table_open.
  destruct (nlen file <? FOOTER_SIZE) eqn:E; [exists (inl SCorruption); auto|].
  unfold FOOTER_SIZE in *.
  rewrite slice_ok by (auto; lia). cbn [rbind].
  pose proof (footer_decode_safe (take_n 48 (drop_n (nlen file - 48) file))) as Hf.
  destruct (footer_decode (take_n 48 (drop_n (nlen file - 48) file))) as [f|]; [|congruence].
  cbn [rbind].
  destruct f as [[mh ih]|]; [|exists (inl SCorruption); auto].
  destruct (read_block_ok file (nlen file) paranoid ih eq_refl) as [rb ->]. cbn [rbind].
  destruct rb as [b|s]; [|exists (inl s); auto].
  destruct (block_init_ok b) as [blk (-> & Hok & _)]. cbn [rbind].
  destruct (table_read_meta_ok file paranoid mh) as [flt [-> Hflt]]. cbn [rbind].
  eexists. split; [reflexivity|]. unfold table_ok. cbn [t_fsize t_file t_index t_filter]. auto.
Qed.

Lemma table_blockreader_ok : forall t verify iv,
  table_ok t -> exists it, table_blockreader t verify iv = Ok it /\ binv it.
Proof.
  intros t verify iv (Hs & _ & _). unfold table_blockreader.
  destruct (handle_decode iv) as [[h r]|]; [|eexists; split; [reflexivity|apply biter_empty_inv]].
  destruct (read_block_ok (t_file t) (t_fsize t) verify h Hs) as [rb ->]. cbn [rbind].
  destruct rb as [b|s]; [|eexists; split; [reflexivity|apply biter_empty_inv]].
  destruct (block_init_ok b) as [blk (-> & Hok & _)]. cbn [rbind].
  apply biter_create_ok. exact Hok.
Qed.

Lemma table_get_ok : forall t verify k,
  table_ok t -> exists r, table_get cmp is_internal fmatch t verify k = Ok r.
Proof.
  intros t verify k Hok. pose proof Hok as (Hs & Hidx & Hflt). unfold table_get.
  destruct (biter_create_ok (t_index t) Hidx) as [it0 (-> & Hinv0)]. cbn [rbind].
  destruct (biter_seek_ok cmp is_internal k it0 Hinv0) as [it1 (-> & Hinv1)]. cbn [rbind].
  destruct (biter_valid it1) eqn:V; [|eexists; reflexivity].
  destruct (biter_value_valid_ok it1 Hinv1 V) as [v ->]. cbn [rbind].
  assert (Hskip : exists sk,
    match t_filter t, handle_decode v with
    | Some fr, Some (h, _) => m <~ filter_matches fmatch fr (fst h) k ;; Ok (negb m)
    | _, _ => Ok false
    end = Ok sk).
  { destruct (t_filter t) as [fr|]; [|eexists; reflexivity].
    destruct (handle_decode v) as [[h r]|]; [|eexists; reflexivity].
    pose proof (filter_matches_safe fmatch fmatch_safe fr (fst h) k Hflt) as Hm.
    destruct (filter_matches fmatch fr (fst h) k) as [m|]; [|congruence].
    cbn [rbind]. eexists; reflexivity. }
  destruct Hskip as [sk ->]. cbn [rbind].
  destruct sk; [eexists; reflexivity|].
  destruct (table_blockreader_ok t verify v Hok) as [bit (-> & Hb)]. cbn [rbind].
  destruct (biter_seek_ok cmp is_internal k bit Hb) as [bit1 (-> & Hb1)]. cbn [rbind].
  destruct (biter_observe_ok bit1 Hb1) as [o ->]. cbn [rbind].
  eexists; reflexivity.
Qed.

(* ---- two-level iterator ---- *)
Definition two_ok (it : twoiter) : Prop :=
  binv (tw_index it) /\ match tw_data it with Some d => binv d | None => True end.

Lemma two_set_data_ok : forall it d,
  two_ok it -> match d with Some x => binv x | None => True end -> two_ok (two_set_data it d).
Proof. intros it d [A B] Hd. unfold two_ok, two_set_data. cbn [tw_index tw_data]. auto. Qed.

Section TwoSafety.
Variable t : table.
Variable verify : bool.
Hypothesis Ht : table_ok t.

Lemma two_init_data_block_ok : forall it,
  two_ok it -> exists it', two_init_data_block t verify it = Ok it' /\ two_ok it' /\
                           bi_data (tw_index it') = bi_data (tw_index it).
Proof.
  intros it [A B]. unfold two_init_data_block.
  destruct (biter_valid (tw_index it)) eqn:V; cbn [negb].
  - destruct (biter_value_valid_ok _ A V) as [h ->]. cbn [rbind].
    destruct ((match tw_data it with Some _ => true | None => false end) && bytes_eqb h (tw_handle it)).
    + exists it. split; [reflexivity|]. split; [split; auto|reflexivity].
    + destruct (table_blockreader_ok t verify h Ht) as [d (-> & Hd)]. cbn [rbind].
      eexists. split; [reflexivity|]. split; [|reflexivity].
      apply two_set_data_ok; [split; auto|exact Hd].
  - eexists. split; [reflexivity|]. split; [|reflexivity].
    apply two_set_data_ok; [split; auto|exact I].
Qed.

Lemma two_skip_ok : forall forward fuel it,
  two_ok it -> exists it', two_skip is_internal t verify forward fuel it = Ok it' /\ two_ok it'.
Proof.
  intros forward. induction fuel as [|x fuel IH]; intros it Hok; cbn [two_skip].
  - destruct (two_data_invalid it); [|exists it; auto].
    destruct (negb (biter_valid (tw_index it))); [|exists it; auto].
    eexists. split; [reflexivity|]. apply two_set_data_ok; [exact Hok|exact I].
  - destruct (two_data_invalid it); [|exists it; auto].
    destruct (negb (biter_valid (tw_index it))).
    { eexists. split; [reflexivity|]. apply two_set_data_ok; [exact Hok|exact I]. }
    destruct Hok as [A B].
    assert (Hi : exists i, (if forward then biter_next is_internal (tw_index it)
                            else biter_prev is_internal (tw_index it)) = Ok i /\ binv i).
    { destruct forward; [apply (biter_next_ok cmp)|apply (biter_prev_ok cmp)]; exact A. }
    destruct Hi as [i (-> & Hi)]. cbn [rbind].
    destruct (two_init_data_block_ok (two_with_index it i)) as [it1 (-> & [A1 B1] & _)].
    { split; [exact Hi|exact B]. }
    cbn [rbind].
    destruct (tw_data it1) as [d|] eqn:Ed.
    + assert (Hd : exists d', (if forward then biter_first is_internal d
                               else biter_last is_internal d) = Ok d' /\ binv d').
      { destruct forward; [apply (biter_first_ok cmp)|apply (biter_last_ok cmp)]; exact B1. }
      destruct Hd as [d' (-> & Hd')]. cbn [rbind].
      apply IH. split; [exact A1|exact Hd'].
    + cbn [rbind]. apply IH. split; [exact A1|]. rewrite Ed. exact I.
Qed.

Lemma two_finish_ok : forall forward it1
    (f : biter -> res biter),
  (forall d, binv d -> exists d', f d = Ok d' /\ binv d') ->
  two_ok it1 ->
  exists it', (it2 <~ match tw_data it1 with
                      | Some d => d' <~ f d ;; Ok (two_with_data it1 d')
                      | None => Ok it1
                      end ;;
               two_skip is_internal t verify forward (two_fuel it2) it2) = Ok it' /\ two_ok it'.
Proof.
  intros forward it1 f Hf [A B].
  destruct (tw_data it1) as [d|] eqn:Ed.
  - destruct (Hf d B) as [d' (-> & Hd')]. cbn [rbind].
    apply two_skip_ok. split; [exact A|exact Hd'].
  - cbn [rbind]. apply two_skip_ok. split; [exact A|]. rewrite Ed. exact I.
Qed.

Lemma twoiter_step_ok : forall op it,
  two_ok it -> exists it', twoiter_step cmp is_internal t verify op it = Ok it' /\ two_ok it'.
Proof.
  intros op it Hok. pose proof Hok as [A B]. destruct op; cbn [twoiter_step].
  - unfold twoiter_first.
    destruct (biter_first_ok cmp is_internal _ A) as [i (-> & Hi)]. cbn [rbind].
    destruct (two_init_data_block_ok (two_with_index it i)) as [it1 (-> & Hok1 & _)];
      [split; [exact Hi|exact B]|]. cbn [rbind].
    apply (two_finish_ok true it1 (biter_first is_internal)); [apply (biter_first_ok cmp)|exact Hok1].
  - unfold twoiter_last.
    destruct (biter_last_ok cmp is_internal _ A) as [i (-> & Hi)]. cbn [rbind].
    destruct (two_init_data_block_ok (two_with_index it i)) as [it1 (-> & Hok1 & _)];
      [split; [exact Hi|exact B]|]. cbn [rbind].
    apply (two_finish_ok false it1 (biter_last is_internal)); [apply (biter_last_ok cmp)|exact Hok1].
  - unfold twoiter_seek.
    destruct (biter_seek_ok cmp is_internal t0 _ A) as [i (-> & Hi)]. cbn [rbind].
    destruct (two_init_data_block_ok (two_with_index it i)) as [it1 (-> & Hok1 & _)];
      [split; [exact Hi|exact B]|]. cbn [rbind].
    apply (two_finish_ok true it1 (biter_seek cmp is_internal t0)); [apply biter_seek_ok|exact Hok1].
  - destruct (twoiter_valid it); [|exists it; auto].
    unfold twoiter_next. destruct (tw_data it) as [d|] eqn:Ed; [|exists it; auto].
    destruct (biter_next_ok cmp is_internal d B) as [d' (-> & Hd')]. cbn [rbind].
    apply two_skip_ok. split; [exact A|exact Hd'].
  - destruct (twoiter_valid it); [|exists it; auto].
    unfold twoiter_prev. destruct (tw_data it) as [d|] eqn:Ed; [|exists it; auto].
    destruct (biter_prev_ok cmp is_internal d B) as [d' (-> & Hd')]. cbn [rbind].
    apply two_skip_ok. split; [exact A|exact Hd'].
Qed.

Lemma twoiter_observe_ok : forall it, two_ok it -> exists o, twoiter_observe it = Ok o.
Proof.
  intros it [A B]. unfold twoiter_observe.
  destruct (tw_data it) as [d|]; [apply biter_observe_ok; exact B|eexists; reflexivity].
Qed.

Lemma twoiter_run_ok : forall ops it,
  two_ok it -> exists r, twoiter_run cmp is_internal t verify ops it = Ok r.
Proof.
  induction ops as [|op ops IH]; intros it Hok; cbn [twoiter_run].
  - eexists; reflexivity.
  - destruct (twoiter_step_ok op it Hok) as [it1 (-> & Hok1)]. cbn [rbind].
    destruct (twoiter_observe_ok it1 Hok1) as [o ->]. cbn [rbind].
    destruct (IH it1 Hok1) as [[os it2] ->]. cbn [rbind]. eexists; reflexivity.
Qed.

End TwoSafety.

Lemma twoiter_create_ok : forall t, table_ok t -> exists it, twoiter_create t = Ok it /\ two_ok it.
Proof.
  intros t (_ & Hidx & _). unfold twoiter_create.
  destruct (biter_create_ok (t_index t) Hidx) as [i (-> & Hi)]. cbn [rbind].
  eexists. split; [reflexivity|]. split; [exact Hi|exact I].
Qed.

(* (d) the table reader never reads outside the file or a block: for ALL byte
   strings, options, scripts and keys the model never returns OOB *)
Theorem table_run_safe : forall paranoid verify file ops,
  table_run cmp is_internal has_filter paranoid verify file ops <> OOB.
Proof.
  intros. unfold table_run.
  destruct (table_open_ok paranoid file) as [r (-> & Hr)]. cbn [rbind].
  destruct r as [s|t]; [discriminate|].
  destruct (twoiter_create_ok t Hr) as [it (-> & Hit)]. cbn [rbind].
  destruct (twoiter_run_ok t verify Hr ops it Hit) as [[os it'] ->]. cbn [rbind]. discriminate.
Qed.

Theorem table_lookup_safe : forall paranoid verify file k,
  table_lookup cmp is_internal has_filter fmatch paranoid verify file k <> OOB.
Proof.
  intros. unfold table_lookup.
  destruct (table_open_ok paranoid file) as [r (-> & Hr)]. cbn [rbind].
  destruct r as [s|t]; [discriminate|].
  destruct (table_get_ok t verify k Hr) as [g ->]. cbn [rbind]. discriminate.
Qed.

End TableSafety.

(* table_run does not consult the filter: the safety statement without the policy *)
Theorem table_iterator_safe :
  forall (cmp : bytes -> bytes -> comparison) (is_internal has_filter paranoid verify : bool)
         (file : bytes) (ops : list iop),
  table_run cmp is_internal has_filter paranoid verify file ops <> OOB.
Proof.
  intros. apply (table_run_safe cmp is_internal has_filter user_fmatch user_fmatch_safe).
Qed.
