(* DbIter.v -- replica of src/db_iter.c (ldb_dbiter_t) over an abstract internal
   iterator, and the DB iterator of an engine state.

   Fields of the C struct kept: iter, sequence (the section variable q),
   saved_key, saved_value, direction, valid.  Not modelled: status (the internal
   iterator of the model never fails and parse_key always succeeds on entries),
   rnd / bytes_until_read_sampling (read sampling only schedules compactions).

   The loops of the C code run on a fuel that bounds the number of entries the
   internal iterator can step over; DbIterProofs.v shows the fuel used is enough.
   Definitions only. *)
From LCDB Require Import Base Cursor IKey Engine Merger.
Local Open Scope N_scope.

Section DbIter.
Variable ucmp : bytes -> bytes -> comparison.
Context {St : Type}.
Variable I : iter_ops St itarget entry.    (* iter->iter *)
Variable fuel : nat.
Variable q : N.                            (* iter->sequence *)

Record dstate := mkD {
  d_it : St;
  d_dir : direction;
  d_valid : bool;
  d_skey : bytes;       (* saved_key *)
  d_sval : bytes        (* saved_value *)
}.

Definition d_init (it : St) : dstate := mkD it Forward false [] [].

(* find_next_user_entry(iter, skipping, skip) where skip aliases saved_key.
   REQUIRES the internal iterator to be valid, so the do-while is a while.
   Returns the internal iterator and [valid]; saved_key is reset on both exits. *)
Fixpoint find_next_loop (n : nat) (it : St) (skipping : bool) (skip : bytes) : St * bool :=
  match n with
  | O => (it, false)
  | S n' =>
      match i_get I it with
      | None => (it, false)
      | Some e =>
          if es e <=? q then
            if et e then
              if skipping && ule ucmp (ek e) skip then
                find_next_loop n' (i_next I it) skipping skip      (* entry hidden *)
              else (it, true)
            else find_next_loop n' (i_next I it) true (ek e)       (* deletion: skip this key *)
          else find_next_loop n' (i_next I it) skipping skip
      end
  end.

Definition find_next_user_entry (st : dstate) (it : St) (skipping : bool) (skip : bytes) : dstate :=
  let '(it', v) := find_next_loop fuel it skipping skip in
  mkD it' (d_dir st) v [] (d_sval st).

(* find_prev_user_entry: value_type is modelled by [have] (true = LDB_TYPE_VALUE) *)
Fixpoint find_prev_loop (n : nat) (it : St) (have : bool) (skey sval : bytes)
  : St * bool * bytes * bytes :=
  match n with
  | O => (it, have, skey, sval)
  | S n' =>
      match i_get I it with
      | None => (it, have, skey, sval)
      | Some e =>
          if es e <=? q then
            if have && ult ucmp (ek e) skey then (it, have, skey, sval)   (* break *)
            else if et e then find_prev_loop n' (i_prev I it) true (ek e) (ev e)
            else find_prev_loop n' (i_prev I it) false [] []
          else find_prev_loop n' (i_prev I it) have skey sval
      end
  end.

Definition find_prev_user_entry (it : St) (skey sval : bytes) : dstate :=
  let '(it', have, skey', sval') := find_prev_loop fuel it false skey sval in
  if have then mkD it' Reverse true skey' sval'
  else mkD it' Forward false [] [].

Definition d_first (st : dstate) : dstate :=
  let it := i_first I (d_it st) in
  let st1 := mkD it Forward (d_valid st) (d_skey st) [] in
  match i_get I it with
  | Some _ => find_next_user_entry st1 it false (d_skey st)
  | None => mkD it Forward false (d_skey st) []
  end.

Definition d_last (st : dstate) : dstate :=
  let it := i_last I (d_it st) in
  find_prev_user_entry it (d_skey st) [].

(* saved_key holds the encoded internal key (target, sequence, VALTYPE_SEEK) *)
Definition d_seek (t : bytes) (st : dstate) : dstate :=
  let skey := ikey_encode t q VALTYPE_SEEK in
  let it := i_seek I (t, q) (d_it st) in
  let st1 := mkD it Forward (d_valid st) skey [] in
  match i_get I it with
  | Some _ => find_next_user_entry st1 it false skey
  | None => mkD it Forward false skey []
  end.

(* ldb_dbiter_next.  REQUIRES valid (C asserts); in FORWARD direction the internal
   iterator is then valid too -- should it not be, the state is left unchanged *)
Definition d_next (st : dstate) : dstate :=
  match d_dir st with
  | Reverse =>
      (* iter is pointing just before the entries for key(): advance into the range *)
      let it := match i_get I (d_it st) with
                | None => i_first I (d_it st)
                | Some _ => i_next I (d_it st)
                end in
      let st1 := mkD it Forward (d_valid st) (d_skey st) (d_sval st) in
      match i_get I it with
      | None => mkD it Forward false [] (d_sval st)
      | Some _ => find_next_user_entry st1 it true (d_skey st)
      end
  | Forward =>
      match i_get I (d_it st) with
      | None => st
      | Some e =>
          let skey := ek e in
          let it := i_next I (d_it st) in
          let st1 := mkD it Forward (d_valid st) skey (d_sval st) in
          match i_get I it with
          | None => mkD it Forward false [] (d_sval st)
          | Some _ => find_next_user_entry st1 it true skey
          end
      end
  end.

(* the for(;;) of ldb_dbiter_prev: step back until the user key changes *)
Fixpoint back_loop (n : nat) (it : St) (skey : bytes) : St * bool :=
  match n with
  | O => (it, false)
  | S n' =>
      let it' := i_prev I it in
      match i_get I it' with
      | None => (it', false)
      | Some e => if ult ucmp (ek e) skey then (it', true) else back_loop n' it' skey
      end
  end.

Definition d_prev (st : dstate) : dstate :=
  match d_dir st with
  | Forward =>
      match i_get I (d_it st) with
      | None => st
      | Some e =>
          let skey := ek e in
          let '(it, found) := back_loop fuel (d_it st) skey in
          if found then find_prev_user_entry it skey (d_sval st)
          else mkD it Forward false [] []
      end
  | Reverse => find_prev_user_entry (d_it st) (d_skey st) (d_sval st)
  end.

(* ldb_dbiter_valid / key / value *)
Definition d_get (st : dstate) : option (bytes * bytes) :=
  if d_valid st then
    match d_dir st with
    | Forward => match i_get I (d_it st) with Some e => Some (ek e, ev e) | None => None end
    | Reverse => Some (d_skey st, d_sval st)
    end
  else None.

(* the iterator's comparator is the user comparator *)
Definition kvcmp (o : bytes * bytes) (t : bytes) : comparison := ucmp (fst o) t.

Definition dbiter_ops : iter_ops dstate bytes (bytes * bytes) :=
  mkIter d_first d_last d_seek d_next d_prev d_get kvcmp.

End DbIter.

(* ---------------------------------------------------------------- ldb_iterator(db, options) *)
Section DbIterator.
Variable ucmp : bytes -> bytes -> comparison.

Definition total_len (runs : list (list entry)) : nat := length (concat runs).

(* every loop steps over each entry at most once *)
Definition iter_fuel (runs : list (list entry)) : nat := S (S (total_len runs)).

Definition db_iter_ops (s : state) (q : N) :=
  dbiter_ops ucmp (internal_ops ucmp) (iter_fuel (runs_of s)) q.

Definition db_iter_init (s : state) : dstate :=
  d_init (m_init (runs_of s)).

(* the specification side: a cursor over the live view *)
Definition kvge (t : bytes) (o : bytes * bytes) : bool :=
  match ucmp (fst o) t with Lt => false | _ => true end.

Definition view_cursor (v : list (bytes * bytes)) : iter_ops cursor bytes (bytes * bytes) :=
  cursor_ops kvge (kvcmp ucmp) v.

End DbIterator.
