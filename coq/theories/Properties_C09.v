(* Properties_C09.v -- C09 "no deadlock, lost wake-up or stuck call under any schedule", for the concurrency model Lts.v
   (writer queue with per-writer condition variables and group commit, make_room_for_write stalls, background call,
   manual compaction, flush request, close).  Model-level statements under the atomicity assumptions (A1)-(A6) of Lts.v;
   the tie to the implementation is checks/c09.py (watchdog over sampled schedules of the real pthread build). *)
From Coq Require Import List NArith Bool Arith.
Import ListNotations.
From LCDB Require Import Lts LtsProofs.

(* Deadlock freedom: in every reachable state in which some client thread is inside a call (or the background thread has
   work), a step is enabled that is neither the start of a new call nor a spurious wake-up. *)
Theorem C09_no_deadlock : forall th s, reachable th s -> busy s ->
  exists l, progress_label l = true /\ enabled s l.
Proof. exact no_deadlock. Qed.
Print Assumptions C09_no_deadlock.

(* Every thread in a wait set has a pending waker: a writer waits on its own condition variable only while it is queued
   and not the head (a done writer is never waiting); a thread waits on background_work_finished only while a background
   call is scheduled or running. *)
Theorem C09_waker_obligation : forall th s, reachable th s -> waker_obligation s.
Proof. exact waker_invariant. Qed.
Print Assumptions C09_waker_obligation.

(* ... and the wakers deliver: every background call ends with a broadcast after which nobody waits for background work, *)
Theorem C09_background_call_ends_with_broadcast : forall s e s', lts_step s (BgFinish e) = Some s' ->
  forall t, waits_bg (l_pc s' t) = false.
Proof. exact bg_call_ends_with_broadcast. Qed.
Print Assumptions C09_background_call_ends_with_broadcast.

(* recording a background error broadcasts too, *)
Theorem C09_background_error_is_broadcast : forall s s', lts_step s BgFail = Some s' ->
  forall t, waits_bg (l_pc s' t) = false.
Proof. exact bg_error_is_broadcast. Qed.
Print Assumptions C09_background_error_is_broadcast.

(* and a writer popped by a group leader is neither waiting nor still testing the queue: it was marked done and signalled. *)
Theorem C09_publish_wakes_group : forall th s t s', reachable th s -> lts_step s (WLeaderPublish t) = Some s' ->
  forall x, in_queue (l_queue s) x = true -> in_queue (l_queue s') x = false -> l_pc s' x <> PWaitCv /\ l_pc s' x <> PCheck.
Proof. exact publish_wakes_group. Qed.
Print Assumptions C09_publish_wakes_group.
