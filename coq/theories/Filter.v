(* Filter.v -- model of src/util/hash.c (ldb_hash), src/util/bloom.c (the
   builtin bloom filter policy "leveldb.BuiltinBloomFilter2") and
   src/table/filter_block.c (filter block builder and reader).
   Definitions only; proofs are in FilterProofs.v. *)
From LCDB Require Export Base Varint Block Trie.
Local Open Scope N_scope.

(* ------------------------------------------------------------------ *)
(* ldb_hash (util/hash.c); data is uint8_t so there is no sign quirk   *)
(* ------------------------------------------------------------------ *)
Definition HASH_M : N := 3332679571.    (* 0xc6a4a793 *)

Fixpoint hash_loop (l : bytes) (h : N) : N :=
  match l with
  | a :: b :: c :: d :: rest =>
      let w := a + 256 * b + 65536 * c + 16777216 * d in
      let h1 := (h + w) mod two32 in
      let h2 := (h1 * HASH_M) mod two32 in
      hash_loop rest (N.lxor h2 (h2 / 65536))
  | [a; b; c] =>
      let h1 := (h + c * 65536) mod two32 in
      let h2 := (h1 + b * 256) mod two32 in
      let h3 := (h2 + a) mod two32 in
      let h4 := (h3 * HASH_M) mod two32 in
      N.lxor h4 (h4 / 16777216)
  | [a; b] =>
      let h2 := (h + b * 256) mod two32 in
      let h3 := (h2 + a) mod two32 in
      let h4 := (h3 * HASH_M) mod two32 in
      N.lxor h4 (h4 / 16777216)
  | [a] =>
      let h3 := (h + a) mod two32 in
      let h4 := (h3 * HASH_M) mod two32 in
      N.lxor h4 (h4 / 16777216)
  | [] => h
  end.

Definition ldb_hash (data : bytes) (seed : N) : N :=
  hash_loop data (N.lxor seed ((nlen data * HASH_M) mod two32)).

(* bloom_hash *)
Definition bloom_hash (key : bytes) : N := ldb_hash key 3164544308.  (* 0xbc9f1d34 *)

(* ------------------------------------------------------------------ *)
(* Bloom filter (util/bloom.c), for an arbitrary 32-bit hash function  *)
(* ------------------------------------------------------------------ *)

(* ldb_bloom_init: k = (size_t)(bits_per_key * 0.69) clamped to [1, 30].
   For 0 <= bits_per_key the truncated double product equals
   bits*69/100 whenever that is below 30 (no multiple of 100 below 44). *)
Definition bloom_k (bits_per_key : N) : N :=
  let k := bits_per_key * 69 / 100 in
  if k <? 1 then 1 else if 30 <? k then 30 else k.

(* rotate right 17 bits *)
Definition bloom_delta (h : N) : N := h / 131072 + (h mod 131072) * 32768.

Section Bloom.
Variable hashf : bytes -> N.

(* the probe loop of bloom_add *)
Fixpoint bloom_add_loop (k : nat) (nbits h delta : N) (t : trie) : trie :=
  match k with
  | O => t
  | S k' =>
      let pos := h mod nbits in
      let t' := tset (pos / 8) (N.lor (tget (pos / 8) t) (2 ^ (pos mod 8))) t in
      bloom_add_loop k' nbits ((h + delta) mod two32) delta t'
  end.

Definition bloom_add (k nbits : N) (t : trie) (key : bytes) : trie :=
  let h := hashf key in
  bloom_add_loop (N.to_nat k) nbits h (bloom_delta h) t.

(* bloom_size *)
Definition bloom_bytes (bits_per_key n : N) : N :=
  let bits := n * bits_per_key in
  let bits := if bits <? 64 then 64 else bits in
  (bits + 7) / 8.

(* bloom_build: the bytes appended to dst *)
Definition bloom_build_with (bits_per_key : N) (keys : list bytes) : bytes :=
  let k := bloom_k bits_per_key in
  let nbytes := bloom_bytes bits_per_key (nlen keys) in
  let t := fold_left (bloom_add k (nbytes * 8)) keys TLeaf in
  tcells (N.to_nat nbytes) 0 t ++ [k].

(* the probe loop of bloom_match *)
Fixpoint bloom_match_loop (k : nat) (filter : bytes) (nbits h delta : N) : res bool :=
  match k with
  | O => Ok true
  | S k' =>
      let pos := h mod nbits in
      match nth_error filter (N.to_nat (pos / 8)) with
      | None => OOB
      | Some byte =>
          if N.testbit byte (pos mod 8)
          then bloom_match_loop k' filter nbits ((h + delta) mod two32) delta
          else Ok false
      end
  end.

(* bloom_match *)
Definition bloom_match_with (filter key : bytes) : res bool :=
  let len := nlen filter in
  if len <? 2 then Ok false
  else
    match nth_error filter (N.to_nat (len - 1)) with
    | None => OOB
    | Some k =>
        if 30 <? k then Ok true
        else
          let h := hashf key in
          bloom_match_loop (N.to_nat k) filter ((len - 1) * 8) h (bloom_delta h)
    end.

End Bloom.

Definition bloom_build := bloom_build_with bloom_hash.
Definition bloom_match := bloom_match_with bloom_hash.

(* ------------------------------------------------------------------ *)
(* Filter block (table/filter_block.c)                                 *)
(* ------------------------------------------------------------------ *)
Definition FILTER_BASE_LG : N := 11.
Definition FILTER_BASE : N := 2048.

Section FilterBlock.
(* the policy: build appends a filter for a list of keys; matches tests one *)
Variable fbuild : list bytes -> bytes.
Variable fmatch : bytes -> bytes -> res bool.

Record fbuilder := mk_fb {
  fb_keys : list bytes;      (* pending keys, most recent first *)
  fb_chunks : list bytes;    (* result, most recent chunk first *)
  fb_rsize : N;              (* result.size *)
  fb_offsets : list N;       (* filter_offsets, most recent first *)
  fb_noffsets : N
}.

Definition fb_empty : fbuilder := mk_fb [] [] 0 [] 0.

(* ldb_filtergen_generate *)
Definition fb_generate (f : fbuilder) : fbuilder :=
  match fb_keys f with
  | [] => mk_fb [] (fb_chunks f) (fb_rsize f) (fb_rsize f :: fb_offsets f) (fb_noffsets f + 1)
  | _ :: _ =>
      let flt := fbuild (rev (fb_keys f)) in
      mk_fb [] (flt :: fb_chunks f) (fb_rsize f + nlen flt)
            (fb_rsize f :: fb_offsets f) (fb_noffsets f + 1)
  end.

(* ldb_filtergen_start_block: while (filter_index > filter_offsets.length) generate *)
Definition fb_start_block (f : fbuilder) (block_offset : N) : fbuilder :=
  let filter_index := block_offset / FILTER_BASE in
  N.iter (filter_index - fb_noffsets f) fb_generate f.

(* ldb_filtergen_add_key *)
Definition fb_add_key (f : fbuilder) (key : bytes) : fbuilder :=
  mk_fb (key :: fb_keys f) (fb_chunks f) (fb_rsize f) (fb_offsets f) (fb_noffsets f).

(* ldb_filtergen_finish *)
Definition fb_finish (f : fbuilder) : bytes :=
  let f1 := match fb_keys f with [] => f | _ :: _ => fb_generate f end in
  concat (rev (fb_chunks f1))
  ++ flat_map le32 (rev (fb_offsets f1))
  ++ le32 (fb_rsize f1)
  ++ [FILTER_BASE_LG].

(* reader *)
Record freader := mk_fr {
  fr_data : bytes;
  fr_size : N;       (* real length of fr_data *)
  fr_offset : N;     (* fr->offset - fr->data (= last_word) *)
  fr_num : N;
  fr_base_lg : N
}.

(* ldb_filter_init *)
Definition filter_init (contents : bytes) : res freader :=
  let n := nlen contents in
  if n <? 5 then Ok (mk_fr contents n 0 0 0)
  else
    match nth_error contents (N.to_nat (n - 1)) with
    | None => OOB
    | Some lastb =>
        let base_lg := lastb mod 64 in
        last_word <~ read32 contents n (n - 5) ;;
        if n - 5 <? last_word then Ok (mk_fr contents n 0 0 base_lg)
        else Ok (mk_fr contents n last_word ((n - 5 - last_word) / 4) base_lg)
    end.

(* ldb_filter_matches *)
Definition filter_matches (fr : freader) (block_offset : N) (key : bytes) : res bool :=
  let index := block_offset / 2 ^ fr_base_lg fr in
  if index <? fr_num fr then
    start <~ read32 (fr_data fr) (fr_size fr) (fr_offset fr + index * 4) ;;
    limit <~ read32 (fr_data fr) (fr_size fr) (fr_offset fr + index * 4 + 4) ;;
    if (start <=? limit) && (limit <=? fr_offset fr) then
      flt <~ slice (fr_data fr) (fr_size fr) start (limit - start) ;;
      fmatch flt key
    else if start =? limit then Ok false   (* Empty filters do not match any keys. *)
    else Ok true
  else Ok true.   (* Errors are treated as potential matches. *)

(* build a whole filter block from groups (block_offset, keys of that block):
   start_block(offset) add_key* ... finish -- as the table builder does *)
Definition fb_add_group (f : fbuilder) (g : N * list bytes) : fbuilder :=
  fold_left fb_add_key (snd g) (fb_start_block f (fst g)).
Definition filter_block_build (groups : list (N * list bytes)) : bytes :=
  fb_finish (fold_left fb_add_group groups fb_empty).

Definition filter_block_matches (blockbytes : bytes) (block_offset : N) (key : bytes) : res bool :=
  fr <~ filter_init blockbytes ;;
  filter_matches fr block_offset key.

End FilterBlock.

(* ------------------------------------------------------------------ *)
(* The two policies used by lcdb tables                                *)
(* ------------------------------------------------------------------ *)
(* user policy ldb_bloom_create(bits) *)
Definition user_fbuild (bits : N) (keys : list bytes) : bytes := bloom_build bits keys.
Definition user_fmatch (filter key : bytes) : res bool := bloom_match filter key.

(* internal filter policy (ldb_ifp_*, dbformat.c): strips the 8-byte tag *)
Definition strip_tag (k : bytes) : bytes := take_n (nlen k - 8) k.
Definition internal_fbuild (bits : N) (keys : list bytes) : bytes :=
  bloom_build bits (map strip_tag keys).
Definition internal_fmatch (filter key : bytes) : res bool :=
  bloom_match filter (strip_tag key).
