(* PolicyFlush.v -- the level chosen by the replica of
   ldb_version_pick_level_for_memtable_output (Policy.v) always passes the guard
   [flush_level_ok] of the engine model's flush step (Engine.v). *)
From LCDB Require Import Base Engine EngineSpec EngineStepsBase EngineStepsInv Policy PolicyBase.
From Coq Require Import Sorting.Sorted.
Require Import Lia ZifyBool ZifyNat ZifyN.
Local Open Scope N_scope.

Section PF.
Variable ucmp : bytes -> bytes -> comparison.
Context {TO : total_order ucmp}.

Notation ueq := (Engine.ueq ucmp).
Notation ult := (Engine.ult ucmp).
Notation ilt := (Engine.ilt ucmp).
Notation icmp := (Engine.icmp ucmp).
Notation FOK := (EngineStepsInv.FOK ucmp).
Notation FB := (EngineStepsInv.FB ucmp).

(* ------------------------------------------------------------ helpers *)
Lemma existsb_false_iff {A} (p : A -> bool) (l : list A) :
  existsb p l = false <-> forall x, In x l -> p x = false.
Proof.
  induction l as [|a l IH]; cbn [existsb In].
  - split; auto. intros _ x [].
  - rewrite orb_false_iff, IH. split.
    + intros [H1 H2] x [Hx|Hx]; subst; auto.
    + intros H. split; auto.
Qed.

Lemma ult_le_trans a b c : ucmp a b = Lt -> ucmp b c <> Gt -> ucmp a c = Lt.
Proof.
  intros H1 H2. pose proof ((ucmp_trans3 ucmp) a b c) as H3. rewrite H1 in H3.
  destruct (ucmp b c) eqn:E; auto. congruence.
Qed.

Lemma ule_lt_trans a b c : ucmp a b <> Gt -> ucmp b c = Lt -> ucmp a c = Lt.
Proof.
  intros H1 H2. pose proof ((ucmp_trans3 ucmp) a b c) as H3. rewrite H2 in H3.
  destruct (ucmp a b) eqn:E; auto. congruence.
Qed.

(* overlaps_user over the total accessors *)
Lemma overlaps_user_FOK lo hi f : FOK f ->
  overlaps_user ucmp lo hi f = negb (ult (ek (lg f)) lo) && negb (ult hi (ek (sm f))).
Proof.
  intros Hf. unfold overlaps_user. rewrite (FOK_sm ucmp f Hf), (FOK_lg ucmp f Hf). reflexivity.
Qed.

(* ------------------------------------------------------------ level 0 *)
Lemma overlap_in_level_0 lvls lo hi :
  overlap_in_level ucmp lvls 0 lo hi = existsb (overlaps_user ucmp lo hi) (level_files lvls 0).
Proof.
  unfold overlap_in_level. change (0 =? 0)%nat with true. cbv iota.
  induction (level_files lvls 0) as [|f r IH]; cbn [existsb]; auto.
  rewrite IH. f_equal. unfold overlaps_user.
  destruct (fsmallest f) as [a|]; auto. destruct (flargest f) as [b|]; auto.
  rewrite (ugt_ult ucmp), negb_orb. reflexivity.
Qed.

(* ------------------------------------------------------------ level >= 1 *)
Lemma find_file_false (fs : list file) lo hi :
  (forall f, In f fs -> FOK f) ->
  StronglySorted FB fs ->
  match find (fun f => match flargest f with Some b => negb (ult (ek b) lo) | None => false end) fs with
  | None => false
  | Some f => match fsmallest f with Some a => negb (ult hi (ek a)) | None => false end
  end = false ->
  existsb (overlaps_user ucmp lo hi) fs = false.
Proof.
  induction fs as [|f r IH]; intros Hok Hs H; auto.
  assert (Hf : FOK f) by (apply Hok; left; auto).
  assert (Hokr : forall g, In g r -> FOK g) by (intros g Hg; apply Hok; right; auto).
  inversion Hs as [|f' r' Hsr Hfr]; subst.
  cbn [find] in H. rewrite (FOK_lg ucmp f Hf) in H.
  cbn [existsb]. apply orb_false_iff.
  destruct (negb (ult (ek (lg f)) lo)) eqn:EP.
  - (* f is the found file: the range ends before f starts *)
    rewrite (FOK_sm ucmp f Hf) in H. apply negb_false_iff in H.
    split.
    + rewrite (overlaps_user_FOK lo hi f Hf), H. cbn [negb]. apply andb_false_r.
    + apply existsb_false_iff. intros g Hg.
      assert (HG : FOK g) by (apply Hokr; auto).
      rewrite (overlaps_user_FOK lo hi g HG).
      rewrite Forall_forall in Hfr. specialize (Hfr g Hg).
      pose proof (proj1 (FB_sm_lg ucmp f g Hf HG) Hfr) as Hlt.
      pose proof (ilt_ukey ucmp (lg f) (sm g) Hlt) as Hle.
      pose proof (sm_lg_user ucmp f Hf) as Hsl.
      apply (ult_iff ucmp) in H.
      assert (H1 : ucmp hi (ek (lg f)) = Lt) by (eapply ult_le_trans; eauto).
      assert (H2 : ucmp hi (ek (sm g)) = Lt) by (eapply ult_le_trans; eauto).
      apply (ult_iff ucmp) in H2. rewrite H2. cbn [negb]. apply andb_false_r.
  - (* f ends before the range starts *)
    split.
    + rewrite (overlaps_user_FOK lo hi f Hf), EP. reflexivity.
    + apply IH; auto.
Qed.

Lemma overlap_in_level_false lvls i lo hi :
  (forall f, In f (level_files lvls i) -> FOK f) ->
  ((1 <= i)%nat -> StronglySorted FB (level_files lvls i)) ->
  overlap_in_level ucmp lvls i lo hi = false ->
  existsb (overlaps_user ucmp lo hi) (level_files lvls i) = false.
Proof.
  intros Hok Hs H. destruct i as [|i].
  - rewrite overlap_in_level_0 in H. exact H.
  - unfold overlap_in_level in H. change (S i =? 0)%nat with false in H. cbv iota in H.
    apply find_file_false; auto. apply Hs. lia.
Qed.

(* ------------------------------------------------------------ no_overlap_upto *)
Definition NOV (lvls : list (list file)) (lo hi : bytes) (n : nat) : Prop :=
  forall i, (i <= n)%nat -> existsb (overlaps_user ucmp lo hi) (level_files lvls i) = false.

Lemma no_overlap_upto_intro lvls lo hi n :
  NOV lvls lo hi n -> no_overlap_upto ucmp lvls lo hi n = true.
Proof.
  unfold NOV. revert lvls. induction n as [|n IH]; intros lvls H.
  - destruct lvls as [|fs r]; cbn [no_overlap_upto]; auto.
    specialize (H 0%nat (le_n 0)). unfold level_files in H. cbn [nth] in H.
    rewrite H. reflexivity.
  - destruct lvls as [|fs r]; cbn [no_overlap_upto]; auto.
    apply andb_true_iff. split.
    + assert (H0 : (0 <= S n)%nat) by lia.
      specialize (H 0%nat H0). unfold level_files in H. cbn [nth] in H.
      rewrite H. reflexivity.
    + apply IH. intros i Hi.
      assert (Hi' : (S i <= S n)%nat) by lia.
      specialize (H (S i) Hi'). unfold level_files in H. cbn [nth] in H. exact H.
Qed.

(* ------------------------------------------------------------ the loop *)
Lemma pick_level_loop_inv fuel lvls lo hi gp level :
  (forall i f, In f (level_files lvls i) -> FOK f) ->
  (forall i, (1 <= i)%nat -> StronglySorted FB (level_files lvls i)) ->
  (level <= 2)%nat -> NOV lvls lo hi level ->
  (pick_level_loop ucmp fuel lvls lo hi gp level <= 2)%nat /\
  NOV lvls lo hi (pick_level_loop ucmp fuel lvls lo hi gp level).
Proof.
  intros Hok Hs. revert level. induction fuel as [|n IH]; intros level Hl Hn.
  - cbn [pick_level_loop]. auto.
  - cbn [pick_level_loop].
    destruct (level <? MAX_MEM_COMPACT_LEVEL)%nat eqn:E1; [|auto].
    destruct (overlap_in_level ucmp lvls (level + 1) lo hi) eqn:E2; [auto|].
    destruct ((level + 2 <? NUM_LEVELS)%nat && gp level) eqn:E3; [auto|].
    change MAX_MEM_COMPACT_LEVEL with 2%nat in E1.
    apply IH.
    + lia.
    + intros i Hi.
      assert (Hc : (i <= level)%nat \/ i = (level + 1)%nat) by lia.
      destruct Hc as [Hc|Hc].
      * apply Hn; auto.
      * subst i. apply overlap_in_level_false; auto. apply Hok.
Qed.

Lemma pick_level_ok lvls lo hi gp :
  (forall i f, In f (level_files lvls i) -> FOK f) ->
  (forall i, (1 <= i)%nat -> StronglySorted FB (level_files lvls i)) ->
  pick_level_for_memtable_output ucmp lvls lo hi gp = 0%nat \/
  ((pick_level_for_memtable_output ucmp lvls lo hi gp <= 2)%nat /\
   NOV lvls lo hi (pick_level_for_memtable_output ucmp lvls lo hi gp)).
Proof.
  intros Hok Hs. unfold pick_level_for_memtable_output.
  destruct (overlap_in_level ucmp lvls 0 lo hi) eqn:E0; [left; reflexivity|].
  right. apply pick_level_loop_inv; auto.
  intros i Hi. assert (i = 0)%nat by lia. subst i.
  rewrite <- overlap_in_level_0. exact E0.
Qed.

Theorem flush_policy_ok s e0 r gp :
  inv_b ucmp s = true -> imm s = Some (e0 :: r) ->
  flush_level_ok ucmp (levels s) (e0 :: r)
    (pick_level_for_memtable_output ucmp (levels s) (ek e0) (ek (last r e0)) gp) = true.
Proof.
  intros HI _. apply (inv_b_SInv ucmp) in HI.
  unfold flush_level_ok. cbv zeta.
  destruct (pick_level_ok (levels s) (ek e0) (ek (last r e0)) gp
              (si_fok ucmp s HI) (si_lsort ucmp s HI)) as [H|[H1 H2]].
  - rewrite H. reflexivity.
  - apply orb_true_iff. right. apply andb_true_iff. split.
    + change MAX_MEM_COMPACT_LEVEL with 2%nat. apply Nat.leb_le. exact H1.
    + apply no_overlap_upto_intro. exact H2.
Qed.

End PF.
