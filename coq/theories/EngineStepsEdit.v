(* EngineStepsEdit.v -- the common shape of compaction and trivial move: files leave
   level L (and level L+1) and new files enter level L+1. *)
From LCDB Require Import Base Engine EngineSpec EngineStepsBase EngineStepsInv EngineStepsBasic EngineStepsLevels.
From Coq Require Import Sorting.Sorted Permutation.
Require Import Lia ZifyBool ZifyNat ZifyN.
Local Open Scope N_scope.

Definition edit_state (s : state) (L : nat) (r0 new1 : list file) (nf : N) : state :=
  mkS (mem s) (imm s) (set_level (set_level (levels s) L r0) (S L) new1)
      (last_seq s) (snaps s) nf (hist s).

Section Edit.
Variable ucmp : bytes -> bytes -> comparison.
Context {TO : total_order ucmp}.

Notation ueq := (Engine.ueq ucmp).
Notation ilt := (Engine.ilt ucmp).
Notation Srt := (EngineStepsBase.Srt ucmp).
Notation NO := (EngineStepsBase.NO ucmp).
Notation Cmp := (EngineStepsBase.Cmp ucmp).
Notation KD := (EngineStepsBase.KD ucmp).
Notation SInv := (EngineStepsInv.SInv ucmp).
Notation Rec := (EngineStepsInv.Rec ucmp).
Notation FOK := (EngineStepsInv.FOK ucmp).
Notation FB := (EngineStepsInv.FB ucmp).
Notation FC := (EngineStepsInv.FC ucmp).

Lemma select_In fs nums f : In f (select_files fs nums) <-> In f fs /\ has_num nums f = true.
Proof. unfold select_files. apply filter_In. Qed.

Lemma remove_In fs nums f : In f (remove_files fs nums) <-> In f fs /\ has_num nums f = false.
Proof. unfold remove_files. rewrite filter_In, negb_true_iff. tauto. Qed.

Lemma select_or_remove fs nums f : In f fs -> In f (select_files fs nums) \/ In f (remove_files fs nums).
Proof.
  intros H. rewrite select_In, remove_In. destruct (has_num nums f); auto.
Qed.

Lemma remove_files_nil fs : remove_files fs [] = fs.
Proof.
  unfold remove_files. induction fs as [|f r IH]; cbn [filter]; auto.
  cbn [has_num existsb negb]. f_equal. exact IH.
Qed.

Definition lvl_place (L : nat) (f : file) : place :=
  match L with O => PF0 (fnum f) | S _ => PLv L end.

Lemma in_level_place s L f e :
  In f (level_files (levels s) L) -> In e (fents f) -> at_place s (lvl_place L f) e.
Proof.
  intros Hf He. destruct L as [|L]; cbn.
  - eauto.
  - split. lia. eauto.
Qed.

Definition in_level (L : nat) (p : place) : Prop :=
  match p with PF0 _ => L = 0%nat | PLv i => i = L | _ => False end.

Section WithEdit.
Variables (s : state) (L : nat) (in0 in1 : list N) (outs : list file) (nf : N).
Hypothesis HI : SInv s.
Hypothesis HL : (S L < NUM_LEVELS)%nat.

Let lvL := level_files (levels s) L.
Let lvL1 := level_files (levels s) (S L).
Let r0 := remove_files lvL in0.
Let r1 := remove_files lvL1 in1.
Let i0 := select_files lvL in0.
Let i1 := select_files lvL1 in1.
Let s' := edit_state s L r0 (add_files ucmp r1 outs) nf.

Lemma edit_level_files i :
  level_files (levels s') i =
  if (i =? S L)%nat then add_files ucmp r1 outs
  else if (i =? L)%nat then r0 else level_files (levels s) i.
Proof.
  pose proof (si_len _ _ HI) as Hlen.
  unfold s', edit_state. cbn [levels].
  rewrite level_files_set; [|rewrite set_level_length; lia].
  destruct (i =? S L)%nat; auto. apply level_files_set. lia.
Qed.

Lemma edit_file_cases i f :
  In f (level_files (levels s') i) ->
  (In f (level_files (levels s) i) /\ (i = L -> In f r0) /\ (i = S L -> In f r1))
  \/ (i = S L /\ In f outs).
Proof.
  rewrite edit_level_files.
  destruct (i =? S L)%nat eqn:E1.
  - apply Nat.eqb_eq in E1. subst i. intros H. apply add_files_In in H. destruct H as [H|H]; auto.
    left. split; [|split]; auto; try lia.
    apply remove_In in H. apply H.
  - apply Nat.eqb_neq in E1. destruct (i =? L)%nat eqn:E2.
    + apply Nat.eqb_eq in E2. subst i. intros H. left. split; [|split]; auto; try lia.
      apply remove_In in H. apply H.
    + apply Nat.eqb_neq in E2. intros H. left. split; [|split]; auto; lia.
Qed.

Lemma edit_place p e :
  at_place s' p e ->
  (at_place s p e /\ (in_level L p -> In e (level_entries r0)))
  \/ (p = PLv (S L) /\ In e (level_entries outs)).
Proof.
  destruct p as [| |n|i]; cbn [at_place in_level].
  - intros H. left. split; [exact H|tauto].
  - intros H. left. split; [exact H|tauto].
  - intros (f & Hf & Hn & He). apply edit_file_cases in Hf.
    destruct Hf as [(Hf & H0 & _)|[Hc _]]; [|discriminate].
    left. split; eauto. intros E. apply level_entries_In. exists f. split; auto.
  - intros (Hi & f & Hf & He). apply edit_file_cases in Hf.
    destruct Hf as [(Hf & H0 & _)|[Hc Hf]].
    + left. split; eauto. intros E. apply level_entries_In. exists f. split; auto.
    + right. subst i. split; auto. apply level_entries_In. eauto.
Qed.

Lemma edit_all_entries e :
  In e (all_entries s') <->
  In e (mem s) \/ In e (imm_run s)
  \/ (exists i f, i <> L /\ i <> S L /\ In f (level_files (levels s) i) /\ In e (fents f))
  \/ In e (level_entries r0) \/ In e (level_entries r1) \/ In e (level_entries outs).
Proof.
  rewrite all_entries_In. change (mem s') with (mem s). change (imm_run s') with (imm_run s).
  split.
  - intros [H|[H|(i & f & Hf & He)]]; auto.
    right; right. rewrite edit_level_files in Hf.
    destruct (i =? S L)%nat eqn:E1.
    + apply add_files_In in Hf. right; right. destruct Hf as [Hf|Hf]; [right|left];
        apply level_entries_In; eauto.
    + destruct (i =? L)%nat eqn:E2.
      * right; left. apply level_entries_In; eauto.
      * left. exists i, f. repeat split; auto; lia.
  - intros [H|[H|[(i & f & H1 & H2 & Hf & He)|[H|[H|H]]]]]; auto; right; right.
    + exists i, f. split; auto. rewrite edit_level_files.
      replace (i =? S L)%nat with false by lia. replace (i =? L)%nat with false by lia. auto.
    + apply level_entries_In in H. destruct H as (f & Hf & He). exists L, f. split; auto.
      rewrite edit_level_files. replace (L =? S L)%nat with false by lia.
      rewrite Nat.eqb_refl. auto.
    + apply level_entries_In in H. destruct H as (f & Hf & He). exists (S L), f. split; auto.
      rewrite edit_level_files. rewrite Nat.eqb_refl. apply add_files_In. auto.
    + apply level_entries_In in H. destruct H as (f & Hf & He). exists (S L), f. split; auto.
      rewrite edit_level_files. rewrite Nat.eqb_refl. apply add_files_In. auto.
Qed.

Hypothesis Houts_ok : Forall FOK outs.
Hypothesis Houts_sorted : StronglySorted FB outs.
Hypothesis Houts_from :
  forall e, In e (level_entries outs) -> In e (level_entries i0) \/ In e (level_entries i1).
Hypothesis Hguard0 : NO (level_entries r0) (level_entries i0).
Hypothesis Hdisj : forall f g, In f outs -> In g r1 -> FC f g.
Hypothesis Hnd : NoDup (map fnum outs).
Hypothesis Hnums : forall f, In f outs ->
  fnum f < nf /\ forall j g, In g (level_files (set_level (levels s) L r0) j) -> fnum g <> fnum f.
Hypothesis Hnf : next_file s <= nf.

Lemma edit_sub e : In e (all_entries s') -> In e (all_entries s).
Proof.
  rewrite edit_all_entries, (all_entries_In s).
  intros [H|[H|[(i & f & H1 & H2 & Hf & He)|[H|[H|H]]]]]; auto.
  - right; right; eauto.
  - apply level_entries_In in H. destruct H as (f & Hf & He). apply remove_In in Hf.
    right; right. exists L, f. tauto.
  - apply level_entries_In in H. destruct H as (f & Hf & He). apply remove_In in Hf.
    right; right. exists (S L), f. tauto.
  - apply Houts_from in H. destruct H as [H|H]; apply level_entries_In in H;
      destruct H as (f & Hf & He); apply select_In in Hf; right; right.
    + exists L, f. tauto.
    + exists (S L), f. tauto.
Qed.

Lemma edit_Rec : Rec s'.
Proof.
  intros p p' o m Hlt Ho Hm Hk.
  apply edit_place in Ho. apply edit_place in Hm.
  destruct Ho as [[Ho Ho']|[-> Ho]]; destruct Hm as [[Hm Hm']|[-> Hm]].
  - eapply (si_rec _ _ HI); eauto.
  - apply Houts_from in Hm. destruct Hm as [Hm|Hm].
    + apply level_entries_In in Hm. destruct Hm as (f0 & Hf0 & Hm0).
      assert (Hin0: In m (level_entries i0)) by (apply level_entries_In; eauto).
      apply select_In in Hf0. destruct Hf0 as [Hf0 _].
      pose proof (in_level_place s L f0 m Hf0 Hm0) as Hpm.
      destruct p as [| |n|i]; cbn [place_lt in_level] in *.
      * apply (si_rec _ _ HI PMem (lvl_place L f0) o m); auto; try (destruct L; exact I).
      * apply (si_rec _ _ HI PImm (lvl_place L f0) o m); auto; try (destruct L; exact I).
      * destruct L as [|L'].
        -- apply (Hguard0 o m); auto.
        -- apply (si_rec _ _ HI (PF0 n) (lvl_place (S L') f0) o m); auto; try exact I.
      * destruct (Nat.eq_dec i L) as [->|Hne].
        -- apply (Hguard0 o m); auto.
        -- pose proof Ho as [Hi1 _]. destruct L as [|L']; [lia|].
           apply (si_rec _ _ HI (PLv i) (lvl_place (S L') f0) o m); auto.
           cbn. lia.
    + apply level_entries_In in Hm. destruct Hm as (f1 & Hf1 & Hm1).
      apply select_In in Hf1. destruct Hf1 as [Hf1 _].
      apply (si_rec _ _ HI p (PLv (S L)) o m); auto. cbn. split. lia. eauto.
  - destruct p' as [| |n|j]; cbn [place_lt] in Hlt; try contradiction.
    apply Houts_from in Ho. destruct Ho as [Ho|Ho];
      apply level_entries_In in Ho; destruct Ho as (f0 & Hf0 & Ho0);
      apply select_In in Hf0; destruct Hf0 as [Hf0 _].
    + pose proof (in_level_place s L f0 o Hf0 Ho0) as Hpo.
      apply (si_rec _ _ HI (lvl_place L f0) (PLv j) o m); auto.
      destruct L; cbn. exact I. lia.
    + apply (si_rec _ _ HI (PLv (S L)) (PLv j) o m); auto. cbn. split. lia. eauto.
  - cbn in Hlt. lia.
Qed.

Lemma edit_SInv : SInv s'.
Proof.
  pose proof (si_len _ _ HI) as Hlen.
  assert (Hr0: forall f, In f r0 -> In f lvL). { intros f H. apply remove_In in H. apply H. }
  assert (Hr1: forall f, In f r1 -> In f lvL1). { intros f H. apply remove_In in H. apply H. }
  assert (Hfok: forall i f, In f (level_files (levels s') i) -> FOK f).
  { intros i f Hf. apply edit_file_cases in Hf. destruct Hf as [(Hf & _)|[_ Hf]].
    - eapply (si_fok _ _ HI); eauto.
    - rewrite Forall_forall in Houts_ok. auto. }
  constructor.
  - unfold s', edit_state. cbn [levels]. rewrite !set_level_length. exact Hlen.
  - exact (si_mem _ _ HI).
  - exact (si_imm _ _ HI).
  - exact Hfok.
  - intros i Hi. rewrite edit_level_files.
    destruct (i =? S L)%nat eqn:E1.
    + apply (add_files_SS ucmp); auto.
      * apply Forall_forall. intros f Hf. apply (si_fok _ _ HI (S L) f). auto.
      * apply SS_filter. apply (si_lsort _ _ HI). lia.
      * apply SS_FOP in Houts_sorted. eapply FOP_impl; [|exact Houts_sorted].
        intros x y _ _ H. left. exact H.
    + destruct (i =? L)%nat eqn:E2.
      * apply SS_filter. apply Nat.eqb_eq in E2. subst i. apply (si_lsort _ _ HI). auto.
      * apply (si_lsort _ _ HI). auto.
  - exact edit_Rec.
  - intros e He. apply (si_seq _ _ HI). apply edit_sub. exact He.
  - intros i f Hf. change (next_file s') with nf.
    apply edit_file_cases in Hf. destruct Hf as [(Hf & _)|[_ Hf]].
    + pose proof (si_num _ _ HI i f Hf). lia.
    + apply Hnums; auto.
  - unfold s', edit_state. cbn [levels].
    assert (HND1: ND (set_level (levels s) L r0)).
    { apply ND_set_level; auto. apply (si_nd _ _ HI). lia.
      apply NoDup_map_filter. apply (si_nd _ _ HI). }
    apply ND_set_level; auto.
    + rewrite set_level_length. lia.
    + eapply Permutation_NoDup.
      * apply Permutation_map. symmetry. apply add_files_Perm.
      * rewrite map_app. apply NoDup_app_iff. split; [auto|]. split.
        -- apply NoDup_map_filter. apply (si_nd _ _ HI).
        -- intros n Hn1 Hn2. apply in_map_iff in Hn1. destruct Hn1 as (f & Hfn & Hf).
           apply in_map_iff in Hn2. destruct Hn2 as (g & Hgn & Hg).
           destruct (Hnums f Hf) as [_ Hfr]. apply (Hfr (S L) g); [|congruence].
           rewrite level_files_set_neq; [|lia]. auto.
    + intros f Hf. apply add_files_In in Hf. destruct Hf as [Hf|Hf].
      * right. intros j g _ Hg. apply (proj2 (Hnums f Hf) j g); auto.
      * left. rewrite level_files_set_neq; [|lia]. auto.
  - exact (si_snap _ _ HI).
  - exact (si_snsort _ _ HI).
Qed.

End WithEdit.

End Edit.
