(* ManifestBuilderProofs.v -- the version builder of ManifestReplay.v
   (builder_apply / builder_save_to): accumulating a sequence of edits in ONE
   builder and saving once (what ldb_versions_recover does) gives the same
   version as applying the edits one at a time, each on top of the previous
   version (what ldb_versions_apply did when the edits were written), provided
   no file number is added twice to a level. *)
From LCDB Require Import Base Edit IKey ManifestReplay.
From LCDB Require Import BaseProofs IKeyProofs.
From Coq Require Import Sorted Permutation.
Require Import Lia ZifyBool ZifyNat ZifyN.
Local Open Scope N_scope.

(* ------------------------------------------------------------------ *)
(* What is needed of the internal-key comparator                       *)
(* ------------------------------------------------------------------ *)
Record kcmp_ok (kcmp : bytes -> bytes -> comparison) : Prop := {
  kc_antisym : forall a b, kcmp a b = CompOpp (kcmp b a);
  kc_trans : forall a b c, kcmp a b = Lt -> kcmp b c = Lt -> kcmp a c = Lt;
  kc_eq : forall a b, kcmp a b = Eq -> forall c, kcmp a c = kcmp b c
}.

Lemma ikey_compare_ok : kcmp_ok ikey_compare.
Proof.
  constructor.
  - exact ikey_compare_antisym.
  - exact ikey_compare_lt_trans.
  - intros a b Hab c. unfold ikey_compare in *.
    destruct (bytes_compare (ikey_user a) (ikey_user b)) eqn:Hu; try discriminate Hab.
    apply bytes_compare_eq_iff in Hu. apply N.compare_eq_iff in Hab.
    rewrite Hu, Hab. reflexivity.
Qed.

(* ------------------------------------------------------------------ *)
(* Generic facts about strictly sorted lists                           *)
(* ------------------------------------------------------------------ *)
Section SortedLists.
Context {A : Type} (lt : A -> A -> Prop).
Hypothesis lt_irrefl : forall a, ~ lt a a.
Hypothesis lt_trans : forall a b c, lt a b -> lt b c -> lt a c.

Lemma ssorted_app : forall l1 l2,
  StronglySorted lt l1 -> StronglySorted lt l2 ->
  (forall x y, In x l1 -> In y l2 -> lt x y) ->
  StronglySorted lt (l1 ++ l2).
Proof.
  induction l1 as [|a l1 IH]; intros l2 H1 H2 Hc; cbn [app].
  - exact H2.
  - inversion H1 as [|a' l' Hs Hf]; subst. constructor.
    + apply IH; [exact Hs|exact H2|]. intros x y Hx Hy. apply Hc; [right; exact Hx|exact Hy].
    + apply Forall_app. split; [exact Hf|].
      apply Forall_forall. intros y Hy. apply Hc; [left; reflexivity|exact Hy].
Qed.

Lemma ssorted_app_inv : forall l1 l2,
  StronglySorted lt (l1 ++ l2) ->
  StronglySorted lt l1 /\ StronglySorted lt l2 /\ (forall x y, In x l1 -> In y l2 -> lt x y).
Proof.
  induction l1 as [|a l1 IH]; intros l2 H; cbn [app] in H.
  - split; [constructor|]. split; [exact H|]. intros x y [].
  - inversion H as [|a' l' Hs Hf]; subst. destruct (IH _ Hs) as (S1 & S2 & Hc).
    apply Forall_app in Hf. destruct Hf as [Hf1 Hf2].
    split; [constructor; assumption|]. split; [exact S2|].
    intros x y [Hx|Hx] Hy.
    + subst x. rewrite Forall_forall in Hf2. apply Hf2. exact Hy.
    + apply Hc; assumption.
Qed.

Lemma ssorted_filter : forall (p : A -> bool) l,
  StronglySorted lt l -> StronglySorted lt (filter p l).
Proof.
  intros p. induction l as [|a l IH]; intros H; cbn [filter].
  - constructor.
  - inversion H as [|a' l' Hs Hf]; subst. destruct (p a) eqn:Hp.
    + constructor; [apply IH; exact Hs|].
      apply Forall_forall. intros y Hy. apply filter_In in Hy.
      rewrite Forall_forall in Hf. apply Hf. apply Hy.
    + apply IH. exact Hs.
Qed.

(* a strictly sorted list is determined by its members *)
Lemma ssorted_unique : forall l1 l2,
  StronglySorted lt l1 -> StronglySorted lt l2 ->
  (forall x, In x l1 <-> In x l2) -> l1 = l2.
Proof.
  induction l1 as [|a l1 IH]; intros l2 H1 H2 Hm.
  - destruct l2 as [|b l2]; [reflexivity|]. exfalso. apply (proj2 (Hm b)). left. reflexivity.
  - destruct l2 as [|b l2]; [exfalso; apply (proj1 (Hm a)); left; reflexivity|].
    inversion H1 as [|a' l1' Hs1 Hf1]; subst. inversion H2 as [|b' l2' Hs2 Hf2]; subst.
    rewrite Forall_forall in Hf1, Hf2.
    assert (Hab : a = b).
    { destruct (proj1 (Hm a) (or_introl eq_refl)) as [Hba|Hin]; [symmetry; exact Hba|].
      destruct (proj2 (Hm b) (or_introl eq_refl)) as [Hba|Hin2]; [exact Hba|].
      exfalso. apply (lt_irrefl a). apply (lt_trans a b a); [apply Hf1; exact Hin2|apply Hf2; exact Hin]. }
    subst b. f_equal. apply IH; [exact Hs1|exact Hs2|].
    intros x. split; intros Hx.
    + destruct (proj1 (Hm x) (or_intror Hx)) as [Hax|Hin]; [|exact Hin].
      subst x. exfalso. apply (lt_irrefl a). apply Hf1. exact Hx.
    + destruct (proj2 (Hm x) (or_intror Hx)) as [Hax|Hin]; [|exact Hin].
      subst x. exfalso. apply (lt_irrefl a). apply Hf2. exact Hx.
Qed.

End SortedLists.

(* ------------------------------------------------------------------ *)
(* by_smallest_key is a strict order; Eq forces equal file numbers     *)
(* ------------------------------------------------------------------ *)
Section Builder.
Variable kcmp : bytes -> bytes -> comparison.
Hypothesis Hk : kcmp_ok kcmp.

Notation bs := (by_smallest kcmp).
Definition flt (x y : filemeta) : Prop := bs x y = Lt.
Notation sorted := (StronglySorted flt).

Lemma bs_antisym : forall a b, bs a b = CompOpp (bs b a).
Proof.
  intros a b. unfold by_smallest. rewrite (kc_antisym _ Hk (f_smallest a) (f_smallest b)).
  destruct (kcmp (f_smallest b) (f_smallest a)); cbn [CompOpp]; try reflexivity.
  apply N.compare_antisym.
Qed.

Lemma bs_eq_num : forall a b, bs a b = Eq -> f_number a = f_number b.
Proof.
  intros a b H. unfold by_smallest in H.
  destruct (kcmp (f_smallest a) (f_smallest b)); try discriminate H.
  apply N.compare_eq_iff. exact H.
Qed.

Lemma kc_eq_r : forall a b, kcmp a b = Eq -> forall c, kcmp c a = kcmp c b.
Proof.
  intros a b H c. rewrite (kc_antisym _ Hk c a), (kc_antisym _ Hk c b).
  rewrite (kc_eq _ Hk a b H c). reflexivity.
Qed.

Lemma flt_trans : forall a b c, flt a b -> flt b c -> flt a c.
Proof.
  unfold flt, by_smallest. intros a b c H1 H2.
  destruct (kcmp (f_smallest a) (f_smallest b)) eqn:Hab; try discriminate H1;
  destruct (kcmp (f_smallest b) (f_smallest c)) eqn:Hbc; try discriminate H2;
  cbv beta iota in H1, H2.
  - rewrite (kc_eq _ Hk _ _ Hab), Hbc.
    rewrite N.compare_lt_iff in H1, H2 |- *. lia.
  - rewrite (kc_eq _ Hk _ _ Hab), Hbc. reflexivity.
  - rewrite <- (kc_eq_r _ _ Hbc), Hab. reflexivity.
  - rewrite (kc_trans _ Hk _ _ _ Hab Hbc). reflexivity.
Qed.

Lemma flt_irrefl : forall a, ~ flt a a.
Proof.
  unfold flt. intros a H. pose proof (bs_antisym a a) as Ha. rewrite H in Ha. discriminate Ha.
Qed.

Lemma bs_gt_flt : forall a b, bs a b = Gt -> flt b a.
Proof. unfold flt. intros a b H. rewrite bs_antisym, H. reflexivity. Qed.

(* different numbers: one is strictly before the other *)
Lemma bs_total_num : forall a b, f_number a <> f_number b -> flt a b \/ flt b a.
Proof.
  intros a b Hn. destruct (bs a b) eqn:Hab.
  - exfalso. apply Hn. apply bs_eq_num. exact Hab.
  - left. exact Hab.
  - right. apply bs_gt_flt. exact Hab.
Qed.

(* ------------------------------------------------------------------ *)
(* fset_insert (rb_set_put on added_files)                             *)
(* ------------------------------------------------------------------ *)
Lemma fset_insert_in : forall f l x, In x (fset_insert kcmp f l) -> x = f \/ In x l.
Proof.
  intros f. induction l as [|g l IH]; intros x H; cbn [fset_insert] in H.
  - destruct H as [H|[]]. left. symmetry. exact H.
  - destruct (bs f g) eqn:Hfg.
    + right. exact H.
    + destruct H as [H|H]; [left; symmetry; exact H|right; exact H].
    + destruct H as [H|H]; [right; left; exact H|].
      destruct (IH _ H) as [Hx|Hx]; [left; exact Hx|right; right; exact Hx].
Qed.

Lemma fset_insert_old : forall f l x, In x l -> In x (fset_insert kcmp f l).
Proof.
  intros f. induction l as [|g l IH]; intros x H; [destruct H|].
  cbn [fset_insert]. destruct (bs f g) eqn:Hfg.
  - exact H.
  - right. exact H.
  - destruct H as [H|H]; [left; exact H|right; apply IH; exact H].
Qed.

Lemma fset_insert_new : forall f l,
  (forall g, In g l -> f_number g <> f_number f) -> In f (fset_insert kcmp f l).
Proof.
  intros f. induction l as [|g l IH]; intros Hn; cbn [fset_insert].
  - left. reflexivity.
  - destruct (bs f g) eqn:Hfg.
    + exfalso. apply (Hn g (or_introl eq_refl)). symmetry. apply bs_eq_num. exact Hfg.
    + left. reflexivity.
    + right. apply IH. intros h Hh. apply Hn. right. exact Hh.
Qed.

Lemma fset_insert_sorted : forall f l, sorted l -> sorted (fset_insert kcmp f l).
Proof.
  intros f. induction l as [|g l IH]; intros Hs; cbn [fset_insert].
  - constructor; [constructor|constructor].
  - inversion Hs as [|g' l' Hs' Hf]; subst. destruct (bs f g) eqn:Hfg.
    + exact Hs.
    + constructor; [exact Hs|]. constructor; [exact Hfg|].
      rewrite Forall_forall in Hf |- *. intros y Hy. apply (flt_trans f g y); [exact Hfg|apply Hf; exact Hy].
    + constructor; [apply IH; exact Hs'|].
      apply Forall_forall. intros y Hy. apply fset_insert_in in Hy. destruct Hy as [Hy|Hy].
      * subst y. apply bs_gt_flt. exact Hfg.
      * rewrite Forall_forall in Hf. apply Hf. exact Hy.
Qed.

Definition ins_all (adds : list filemeta) (a : list filemeta) : list filemeta :=
  fold_left (fun acc f => fset_insert kcmp f acc) adds a.

Lemma ins_all_sorted : forall adds a, sorted a -> sorted (ins_all adds a).
Proof.
  induction adds as [|f adds IH]; intros a Hs; cbn [ins_all fold_left].
  - exact Hs.
  - apply IH. apply fset_insert_sorted. exact Hs.
Qed.

Lemma ins_all_in : forall adds a x, In x (ins_all adds a) -> In x a \/ In x adds.
Proof.
  induction adds as [|f adds IH]; intros a x H; cbn [ins_all fold_left] in H.
  - left. exact H.
  - destruct (IH _ _ H) as [Hx|Hx].
    + apply fset_insert_in in Hx. destruct Hx as [Hx|Hx]; [right; left; symmetry; exact Hx|left; exact Hx].
    + right. right. exact Hx.
Qed.

Lemma ins_all_old : forall adds a x, In x a -> In x (ins_all adds a).
Proof.
  induction adds as [|f adds IH]; intros a x H; cbn [ins_all fold_left].
  - exact H.
  - apply IH. apply fset_insert_old. exact H.
Qed.

(* fresh numbers: every added file is a member afterwards *)
Lemma ins_all_new : forall adds a x,
  NoDup (map f_number adds) ->
  (forall f g, In f adds -> In g a -> f_number g <> f_number f) ->
  In x adds -> In x (ins_all adds a).
Proof.
  induction adds as [|f adds IH]; intros a x Hnd Hfr Hx; [destruct Hx|].
  cbn [ins_all fold_left]. cbn [map] in Hnd. inversion Hnd as [|n ns Hnot Hnd']; subst.
  destruct Hx as [Hx|Hx].
  - subst x. apply ins_all_old. apply fset_insert_new. intros g Hg. apply (Hfr f g); [left; reflexivity|exact Hg].
  - apply IH; [exact Hnd'| |exact Hx].
    intros f' g Hf' Hg. apply fset_insert_in in Hg. destruct Hg as [Hg|Hg].
    + subst g. intros Heq. apply Hnot. rewrite Heq. apply in_map. exact Hf'.
    + apply (Hfr f' g); [right; exact Hf'|exact Hg].
Qed.

(* ------------------------------------------------------------------ *)
(* builder_save_to for one level = filter (not deleted) o merge        *)
(* ------------------------------------------------------------------ *)
Fixpoint merge_files (base added : list filemeta) : list filemeta :=
  match added with
  | [] => base
  | a :: added' => let (lo, hi) := span_lt kcmp a base in lo ++ a :: merge_files hi added'
  end.

Definition keep (d : list N) (f : filemeta) : bool := negb (dset_has (f_number f) d).

Lemma flat_map_maybe_add : forall d l, flat_map (maybe_add d) l = filter (keep d) l.
Proof.
  intros d. induction l as [|x l IH]; [reflexivity|].
  cbn [flat_map filter]. rewrite IH. unfold maybe_add, keep.
  destruct (dset_has (f_number x) d); reflexivity.
Qed.

Lemma save_level_filter : forall d added base,
  save_level kcmp d base added = filter (keep d) (merge_files base added).
Proof.
  intros d. induction added as [|a added IH]; intros base; cbn [save_level merge_files].
  - apply flat_map_maybe_add.
  - destruct (span_lt kcmp a base) as [lo hi] eqn:Hsp.
    rewrite filter_app. cbn [filter]. rewrite flat_map_maybe_add, IH.
    f_equal. unfold maybe_add, keep. destruct (dset_has (f_number a) d); reflexivity.
Qed.

Lemma span_lt_spec : forall a base lo hi,
  span_lt kcmp a base = (lo, hi) ->
  base = lo ++ hi /\ (forall x, In x lo -> flt x a) /\
  match hi with [] => True | h :: _ => bs h a <> Lt end.
Proof.
  intros a. induction base as [|b base IH]; intros lo hi H; cbn [span_lt] in H.
  - inversion H; subst. split; [reflexivity|]. split; [intros x []|exact I].
  - destruct (bs b a) eqn:Hba.
    + inversion H; subst. split; [reflexivity|]. split; [intros x []|]. rewrite Hba. discriminate.
    + destruct (span_lt kcmp a base) as [lo' hi'] eqn:Hsp. inversion H; subst.
      destruct (IH _ _ eq_refl) as (Hb & Hlo & Hhi).
      split; [cbn [app]; f_equal; exact Hb|]. split; [|exact Hhi].
      intros x [Hx|Hx]; [subst x; exact Hba|apply Hlo; exact Hx].
    + inversion H; subst. split; [reflexivity|]. split; [intros x []|]. rewrite Hba. discriminate.
Qed.

Lemma merge_files_in : forall added base x,
  In x (merge_files base added) <-> In x base \/ In x added.
Proof.
  induction added as [|a added IH]; intros base x; cbn [merge_files].
  - split; [intros H; left; exact H|intros [H|[]]; exact H].
  - destruct (span_lt kcmp a base) as [lo hi] eqn:Hsp.
    destruct (span_lt_spec _ _ _ _ Hsp) as (Hb & _ & _). subst base.
    rewrite !in_app_iff. cbn [In]. rewrite IH. tauto.
Qed.

Lemma merge_files_sorted : forall added base,
  sorted base -> sorted added ->
  (forall b a, In b base -> In a added -> f_number b <> f_number a) ->
  sorted (merge_files base added).
Proof.
  induction added as [|a added IH]; intros base Hb Ha Hne; cbn [merge_files].
  - exact Hb.
  - destruct (span_lt kcmp a base) as [lo hi] eqn:Hsp.
    destruct (span_lt_spec _ _ _ _ Hsp) as (Hbase & Hlo & Hhi). subst base.
    apply (ssorted_app_inv flt) in Hb. destruct Hb as (Slo & Shi & Hcross).
    inversion Ha as [|a' l' Sa Fa]; subst. rewrite Forall_forall in Fa.
    (* a is before everything in hi *)
    assert (Hahi : forall y, In y hi -> flt a y).
    { destruct hi as [|h hi']; [intros y []|].
      assert (Hah : flt a h).
      { destruct (bs_total_num h a) as [H|H].
        - apply Hne; [apply in_or_app; right; left; reflexivity|left; reflexivity].
        - exfalso. apply Hhi. exact H.
        - exact H. }
      inversion Shi as [|h' l'' Sh Fh]; subst. rewrite Forall_forall in Fh.
      intros y [Hy|Hy]; [subst y; exact Hah|apply (flt_trans a h y); [exact Hah|apply Fh; exact Hy]]. }
    assert (Hrest : sorted (merge_files hi added)).
    { apply IH; [exact Shi|exact Sa|].
      intros b a0 Hb0 Ha0. apply Hne; [apply in_or_app; right; exact Hb0|right; exact Ha0]. }
    assert (Harest : forall y, In y (merge_files hi added) -> flt a y).
    { intros y Hy. apply merge_files_in in Hy. destruct Hy as [Hy|Hy]; [apply Hahi; exact Hy|apply Fa; exact Hy]. }
    apply (ssorted_app flt); [exact Slo| |].
    + constructor; [exact Hrest|]. apply Forall_forall. exact Harest.
    + intros x y Hx [Hy|Hy].
      * subst y. apply Hlo. exact Hx.
      * apply (flt_trans x a y); [apply Hlo; exact Hx|apply Harest; exact Hy].
Qed.


(* ------------------------------------------------------------------ *)
(* rb_set64: membership after put / del                                *)
(* ------------------------------------------------------------------ *)
Lemma dset_has_put : forall n m d, dset_has n (dset_put m d) = (n =? m) || dset_has n d.
Proof.
  intros n m d. unfold dset_put. destruct (dset_has m d) eqn:Hm.
  - destruct (n =? m) eqn:Hnm; [|reflexivity].
    apply N.eqb_eq in Hnm. subst n. rewrite Hm. reflexivity.
  - unfold dset_has. cbn [existsb]. reflexivity.
Qed.

Lemma dset_has_del : forall n m d, dset_has n (dset_del m d) = negb (n =? m) && dset_has n d.
Proof.
  intros n m. induction d as [|x d IH].
  - cbn. rewrite andb_false_r. reflexivity.
  - unfold dset_del in *. cbn [filter]. unfold dset_has in *. cbn [existsb].
    destruct (x =? m) eqn:Hxm; cbn [negb].
    + rewrite IH. destruct (n =? m) eqn:Hnm; cbn [negb andb]; [reflexivity|].
      destruct (n =? x) eqn:Hnx; [lia|reflexivity].
    + cbn [existsb]. rewrite IH. destruct (n =? x) eqn:Hnx; cbn [orb].
      * destruct (n =? m) eqn:Hnm; [lia|reflexivity].
      * reflexivity.
Qed.

Definition put_all (dels : list N) (d : list N) : list N :=
  fold_left (fun acc n => dset_put n acc) dels d.
Definition del_all (ns : list N) (d : list N) : list N :=
  fold_left (fun acc n => dset_del n acc) ns d.

Lemma has_put_all : forall n dels d,
  dset_has n (put_all dels d) = existsb (N.eqb n) dels || dset_has n d.
Proof.
  intros n. induction dels as [|m dels IH]; intros d; cbn [put_all fold_left existsb].
  - reflexivity.
  - fold (put_all dels (dset_put m d)). rewrite IH, dset_has_put.
    destruct (n =? m), (existsb (N.eqb n) dels), (dset_has n d); reflexivity.
Qed.

Lemma has_del_all : forall n ns d,
  dset_has n (del_all ns d) = negb (existsb (N.eqb n) ns) && dset_has n d.
Proof.
  intros n. induction ns as [|m ns IH]; intros d; cbn [del_all fold_left existsb].
  - reflexivity.
  - fold (del_all ns (dset_del m d)). rewrite IH, dset_has_del.
    destruct (n =? m), (existsb (N.eqb n) ns), (dset_has n d); reflexivity.
Qed.

Lemma NoDup_app_disjoint : forall (a b : list N), NoDup (a ++ b) -> forall n, In n a -> In n b -> False.
Proof.
  induction a as [|x a IH]; intros b H n Ha Hb; [destruct Ha|].
  cbn [app] in H. inversion H as [|x' l' Hnot Hnd]; subst. destruct Ha as [Ha|Ha].
  - subst x. apply Hnot. apply in_or_app. right. exact Hb.
  - apply (IH b Hnd n Ha Hb).
Qed.

Lemma NoDup_app_parts : forall (a b : list N), NoDup (a ++ b) -> NoDup a /\ NoDup b.
Proof.
  induction a as [|x a IH]; intros b H; cbn [app] in H.
  - split; [constructor|exact H].
  - inversion H as [|x' l' Hnot Hnd]; subst. destruct (IH b Hnd) as [Ha Hb].
    split; [|exact Hb]. constructor; [|exact Ha].
    intros Hin. apply Hnot. apply in_or_app. left. exact Hin.
Qed.

(* ------------------------------------------------------------------ *)
(* One level, one edit: accumulating in the builder = applying on top  *)
(* ------------------------------------------------------------------ *)
Lemma level_step : forall B D A dels adds,
  sorted B -> sorted A ->
  (forall b a, In b B -> In a A -> f_number b <> f_number a) ->
  NoDup (map f_number adds) ->
  (forall f x, In f adds -> In x B \/ In x A -> f_number x <> f_number f) ->
  save_level kcmp (del_all (map f_number adds) (put_all dels D)) B (ins_all adds A) =
  save_level kcmp (del_all (map f_number adds) (put_all dels []))
             (save_level kcmp D B A) (ins_all adds []).
Proof.
  intros B D A dels adds SB SA Hcross Hnd Hfresh.
  rewrite !save_level_filter.
  assert (HinA : forall x, In x (ins_all adds A) <-> In x A \/ In x adds).
  { intros x. split; [apply ins_all_in|]. intros [H|H]; [apply ins_all_old; exact H|].
    apply ins_all_new; [exact Hnd| |exact H].
    intros f g Hf Hg. apply (Hfresh f g Hf). right. exact Hg. }
  assert (HinE : forall x, In x (ins_all adds []) <-> In x adds).
  { intros x. split.
    - intros H. apply ins_all_in in H. destruct H as [[]|H]. exact H.
    - intros H. apply ins_all_new; [exact Hnd|intros f g _ []|exact H]. }
  apply (ssorted_unique flt flt_irrefl flt_trans).
  - apply ssorted_filter. apply merge_files_sorted; [exact SB|apply ins_all_sorted; exact SA|].
    intros b a Hb Ha. apply HinA in Ha. destruct Ha as [Ha|Ha].
    + apply Hcross; assumption.
    + apply (Hfresh a b Ha). left. exact Hb.
  - apply ssorted_filter. apply merge_files_sorted.
    + apply ssorted_filter. apply merge_files_sorted; assumption.
    + apply ins_all_sorted. constructor.
    + intros b a Hb Ha. apply filter_In in Hb. destruct Hb as [Hb _].
      apply merge_files_in in Hb. apply HinE in Ha. apply (Hfresh a b Ha). exact Hb.
  - intros x. rewrite !filter_In, !merge_files_in, filter_In, merge_files_in, HinA, HinE.
    unfold keep. rewrite !has_del_all, !has_put_all.
    set (E := existsb (N.eqb (f_number x)) (map f_number adds)).
    assert (Hadd : In x adds -> E = true).
    { intros H. apply existsb_exists. exists (f_number x). split; [apply in_map; exact H|apply N.eqb_refl]. }
    assert (Hold : In x B \/ In x A -> E = false).
    { intros H. destruct E eqn:HE; [|reflexivity]. exfalso.
      apply existsb_exists in HE. destruct HE as (n & Hn & Heq). apply N.eqb_eq in Heq.
      apply in_map_iff in Hn. destruct Hn as (f & Hf & Hfin). apply (Hfresh f x Hfin H). congruence. }
    cbn [dset_has existsb]. rewrite orb_false_r.
    destruct E, (existsb (N.eqb (f_number x)) dels), (dset_has (f_number x) D);
      cbn [negb andb orb]; intuition congruence.
Qed.

(* ------------------------------------------------------------------ *)
(* The seven levels                                                    *)
(* ------------------------------------------------------------------ *)
Lemma length_upd_nth : forall {X} n (f : X -> X) l, length (upd_nth n f l) = length l.
Proof.
  intros X n f l. revert n. induction l as [|x l IH]; intros n; [destruct n; reflexivity|].
  destruct n; cbn [upd_nth length]; [reflexivity|]. rewrite IH. reflexivity.
Qed.

Lemma nth_upd_nth : forall {X} n (f : X -> X) ls l d,
  (l < length ls)%nat ->
  nth l (upd_nth n f ls) d = if Nat.eqb n l then f (nth l ls d) else nth l ls d.
Proof.
  intros X n f ls. revert n. induction ls as [|x ls IH]; intros n l d Hl; [cbn in Hl; lia|].
  destruct n as [|n]; destruct l as [|l]; cbn [upd_nth nth Nat.eqb]; try reflexivity.
  apply IH. cbn [length] in Hl. lia.
Qed.

Definition at_level {X} (lv : X -> N) (l : nat) (x : X) : bool := Nat.eqb (N.to_nat (lv x)) l.
Definition dels_at (l : nat) (e : edit) : list N :=
  map snd (filter (at_level fst l) (e_deleted_files e)).
Definition adds_at (l : nat) (e : edit) : list filemeta :=
  map meta_of (filter (at_level nf_level l) (e_new_files e)).

Definition lvl_apply (dels : list N) (adds : list filemeta) (st : level_state) : level_state :=
  mkLS (del_all (map f_number adds) (put_all dels (ls_deleted st))) (ins_all adds (ls_added st)).

Definition apply_levels (ls : list level_state) (e : edit) : list level_state :=
  fold_left (apply_newfile kcmp) (e_new_files e) (fold_left apply_deleted (e_deleted_files e) ls).

Lemma length_fold_deleted : forall ds ls, length (fold_left apply_deleted ds ls) = length ls.
Proof.
  induction ds as [|p ds IH]; intros ls; cbn [fold_left]; [reflexivity|].
  rewrite IH. unfold apply_deleted. apply length_upd_nth.
Qed.

Lemma length_fold_newfile : forall nfs ls, length (fold_left (apply_newfile kcmp) nfs ls) = length ls.
Proof.
  induction nfs as [|p nfs IH]; intros ls; cbn [fold_left]; [reflexivity|].
  rewrite IH. unfold apply_newfile. apply length_upd_nth.
Qed.

Lemma length_apply_levels : forall ls e, length (apply_levels ls e) = length ls.
Proof. intros. unfold apply_levels. rewrite length_fold_newfile, length_fold_deleted. reflexivity. Qed.

Lemma nth_fold_deleted : forall l ds ls,
  (l < length ls)%nat ->
  nth l (fold_left apply_deleted ds ls) ls_empty =
  mkLS (put_all (map snd (filter (at_level fst l) ds)) (ls_deleted (nth l ls ls_empty)))
       (ls_added (nth l ls ls_empty)).
Proof.
  intros l. induction ds as [|p ds IH]; intros ls Hl; cbn [fold_left filter map].
  - cbn [put_all fold_left]. destruct (nth l ls ls_empty); reflexivity.
  - rewrite IH by (unfold apply_deleted; rewrite length_upd_nth; exact Hl).
    unfold apply_deleted at 1 2. rewrite nth_upd_nth by exact Hl.
    unfold at_level at 2. destruct (Nat.eqb (N.to_nat (fst p)) l) eqn:Hp; cbn [map ls_deleted ls_added].
    + unfold at_level. cbn [put_all fold_left]. reflexivity.
    + reflexivity.
Qed.

Lemma nth_fold_newfile : forall l nfs ls,
  (l < length ls)%nat ->
  nth l (fold_left (apply_newfile kcmp) nfs ls) ls_empty =
  lvl_apply [] (map meta_of (filter (at_level nf_level l) nfs)) (nth l ls ls_empty).
Proof.
  intros l. induction nfs as [|p nfs IH]; intros ls Hl; cbn [fold_left filter map].
  - unfold lvl_apply. cbn [map put_all del_all ins_all fold_left]. destruct (nth l ls ls_empty); reflexivity.
  - rewrite IH by (unfold apply_newfile; rewrite length_upd_nth; exact Hl).
    unfold apply_newfile at 1. rewrite nth_upd_nth by exact Hl.
    unfold at_level at 2. destruct (Nat.eqb (N.to_nat (nf_level p)) l) eqn:Hp; cbn [map].
    + unfold lvl_apply. cbn [map put_all del_all ins_all fold_left ls_deleted ls_added meta_of f_number].
      reflexivity.
    + reflexivity.
Qed.

Lemma nth_apply_levels : forall l ls e,
  (l < length ls)%nat ->
  nth l (apply_levels ls e) ls_empty = lvl_apply (dels_at l e) (adds_at l e) (nth l ls ls_empty).
Proof.
  intros l ls e Hl. unfold apply_levels.
  rewrite nth_fold_newfile by (rewrite length_fold_deleted; exact Hl).
  rewrite nth_fold_deleted by exact Hl.
  unfold lvl_apply, dels_at, adds_at. cbn [ls_deleted ls_added put_all fold_left]. reflexivity.
Qed.

Lemma length_save_levels : forall ls base, length (save_levels kcmp base ls) = length ls.
Proof.
  induction ls as [|st ls IH]; intros base; cbn [save_levels length]; [reflexivity|].
  rewrite IH. reflexivity.
Qed.

Lemma nth_save_levels : forall ls base l,
  (l < length ls)%nat ->
  nth l (save_levels kcmp base ls) [] =
  save_level kcmp (ls_deleted (nth l ls ls_empty)) (nth l base []) (ls_added (nth l ls ls_empty)).
Proof.
  induction ls as [|st ls IH]; intros base l Hl; [cbn in Hl; lia|].
  cbn [save_levels]. destruct l as [|l]; cbn [nth].
  - destruct base; reflexivity.
  - rewrite IH by (cbn [length] in Hl; lia). destruct base as [|b base]; cbn [tl nth]; [|reflexivity].
    destruct l; reflexivity.
Qed.

Lemma nth_repeat_any : forall {X} (a : X) m l, nth l (repeat a m) a = a.
Proof.
  intros X a. induction m as [|m IH]; intros l; cbn [repeat]; destruct l; cbn [nth]; auto.
Qed.

(* the relation between the accumulating builder [ls] over the recovery base
   [B] and the version [L] obtained edit by edit; [used l] over-approximates the
   file numbers present at level l *)
Definition Rel (ls : list level_state) (B L : list (list filemeta)) (used : nat -> list N) : Prop :=
  length ls = NLEVELS /\ length L = NLEVELS /\
  forall l, (l < NLEVELS)%nat ->
    let st := nth l ls ls_empty in
    nth l L [] = save_level kcmp (ls_deleted st) (nth l B []) (ls_added st) /\
    sorted (nth l B []) /\ sorted (ls_added st) /\
    (forall b a, In b (nth l B []) -> In a (ls_added st) -> f_number b <> f_number a) /\
    (forall x, In x (nth l B []) \/ In x (ls_added st) -> In (f_number x) (used l)).

Definition nums_at (l : nat) (e : edit) : list N := map f_number (adds_at l e).

Definition step_levels (L : list (list filemeta)) (e : edit) : list (list filemeta) :=
  save_levels kcmp L (apply_levels (repeat ls_empty NLEVELS) e).

Lemma Rel_step : forall ls B L used e,
  Rel ls B L used ->
  (forall l, (l < NLEVELS)%nat -> NoDup (nums_at l e) /\
             (forall n, In n (used l) -> In n (nums_at l e) -> False)) ->
  Rel (apply_levels ls e) B (step_levels L e) (fun l => used l ++ nums_at l e).
Proof.
  intros ls B L used e (Hlen & HlenL & HR) Hfr.
  split; [rewrite length_apply_levels; exact Hlen|].
  split; [unfold step_levels; rewrite length_save_levels, length_apply_levels; apply repeat_length|].
  intros l Hl. destruct (HR l Hl) as (HL & SB & SA & Hcross & Hused).
  destruct (Hfr l Hl) as (Hnd & Hdisj).
  assert (Hfresh : forall f x, In f (adds_at l e) -> In x (nth l B []) \/ In x (ls_added (nth l ls ls_empty)) ->
                               f_number x <> f_number f).
  { intros f x Hf Hx Heq. apply (Hdisj (f_number x)); [apply Hused; exact Hx|].
    rewrite Heq. unfold nums_at. apply in_map. exact Hf. }
  assert (HinA : forall x, In x (ins_all (adds_at l e) (ls_added (nth l ls ls_empty))) ->
                           In x (ls_added (nth l ls ls_empty)) \/ In x (adds_at l e)).
  { intros x. apply ins_all_in. }
  cbv zeta. rewrite nth_apply_levels by (rewrite Hlen; exact Hl).
  unfold lvl_apply. cbn [ls_deleted ls_added].
  split; [|split; [exact SB|split; [apply ins_all_sorted; exact SA|split]]].
  - unfold step_levels.
    rewrite nth_save_levels by (rewrite length_apply_levels, repeat_length; exact Hl).
    rewrite nth_apply_levels by (rewrite repeat_length; exact Hl).
    rewrite nth_repeat_any. unfold lvl_apply. cbn [ls_deleted ls_added ls_empty].
    rewrite HL. symmetry. apply level_step; assumption.
  - intros b a Hb Ha. apply HinA in Ha. destruct Ha as [Ha|Ha].
    + apply Hcross; assumption.
    + apply (Hfresh a b Ha). left. exact Hb.
  - intros x [Hx|Hx].
    + apply in_or_app. left. apply Hused. left. exact Hx.
    + apply HinA in Hx. apply in_or_app. destruct Hx as [Hx|Hx].
      * left. apply Hused. right. exact Hx.
      * right. unfold nums_at. apply in_map. exact Hx.
Qed.

Lemma Rel_final : forall ls B L used, Rel ls B L used -> save_levels kcmp B ls = L.
Proof.
  intros ls B L used (Hlen & HlenL & HR).
  apply (nth_ext _ _ [] []).
  - rewrite length_save_levels, Hlen, HlenL. reflexivity.
  - intros l Hl. rewrite length_save_levels, Hlen in Hl.
    rewrite nth_save_levels by (rewrite Hlen; exact Hl).
    destruct (HR l Hl) as (HL & _). symmetry. exact HL.
Qed.

(* freshness of the file numbers added by a sequence of edits, level by level *)
Definition fresh_from (used : nat -> list N) (es : list edit) : Prop :=
  forall l, (l < NLEVELS)%nat -> NoDup (used l ++ flat_map (nums_at l) es).

Theorem builder_fold_levels : forall es ls B L used,
  Rel ls B L used -> fresh_from used es ->
  save_levels kcmp B (fold_left apply_levels es ls) = fold_left step_levels es L.
Proof.
  induction es as [|e es IH]; intros ls B L used HR Hfr; cbn [fold_left].
  - apply (Rel_final _ _ _ _ HR).
  - apply (IH _ _ _ (fun l => used l ++ nums_at l e)).
    + apply Rel_step; [exact HR|]. intros l Hl. specialize (Hfr l Hl). cbn [flat_map] in Hfr.
      split.
      * apply NoDup_app_parts in Hfr. destruct Hfr as [_ Hfr].
        apply NoDup_app_parts in Hfr. apply Hfr.
      * intros n H1 H2. apply (NoDup_app_disjoint _ _ Hfr n H1). apply in_or_app. left. exact H2.
    + intros l Hl. specialize (Hfr l Hl). cbn [flat_map] in Hfr. rewrite <- app_assoc. exact Hfr.
Qed.

(* the initial relation: an empty builder over a base whose levels are sorted *)
Lemma flat_map_maybe_add_nil : forall l, flat_map (maybe_add []) l = l.
Proof. induction l as [|x l IH]; [reflexivity|]. cbn [flat_map maybe_add dset_has existsb app]. rewrite IH. reflexivity. Qed.

Lemma Rel_init : forall B,
  length B = NLEVELS -> (forall l, (l < NLEVELS)%nat -> sorted (nth l B [])) ->
  Rel (repeat ls_empty NLEVELS) B B (fun l => map f_number (nth l B [])).
Proof.
  intros B Hlen HS. split; [apply repeat_length|]. split; [exact Hlen|].
  intros l Hl. cbv zeta. rewrite nth_repeat_any. cbn [ls_empty ls_deleted ls_added save_level].
  split; [symmetry; apply flat_map_maybe_add_nil|]. split; [apply HS; exact Hl|].
  split; [constructor|]. split; [intros b a _ []|].
  intros x [Hx|[]]. apply in_map. exact Hx.
Qed.

End Builder.
