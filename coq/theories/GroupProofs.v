(* GroupProofs.v -- properties of the group-commit selection rule (Group.v). *)
From Coq Require Import List NArith Bool Lia Arith.
From LCDB Require Import Group Lts.
Import ListNotations.
Local Open Scope N_scope.

Definition bytes_of (l : list gw) : N := fold_right (fun w a => gw_size w + a) 0 l.

Lemma grow_le : forall fsync maxs r size, (group_grow fsync maxs size r <= length r)%nat.
Proof.
  intros fsync maxs r. induction r as [|w r IH]; intros size; cbn [group_grow length]; [lia|].
  destruct (gw_sync w && negb fsync); [lia|].
  destruct (gw_batch w).
  - destruct (maxs <? size + gw_size w); [lia|]. specialize (IH (size + gw_size w)). lia.
  - specialize (IH size). lia.
Qed.

(* the group is a non-empty prefix of the queue *)
Theorem build_group_bounds : forall q, q <> [] -> (1 <= build_group q <= length q)%nat.
Proof.
  intros [|f r] H; [congruence|]. cbn [build_group length].
  pose proof (grow_le (gw_sync f) (group_max_size (gw_size f)) r (gw_size f)). lia.
Qed.

Lemma grow_sync : forall fsync maxs r size w,
  In w (firstn (group_grow fsync maxs size r) r) -> gw_sync w = true -> fsync = true.
Proof.
  intros fsync maxs r. induction r as [|x r IH]; intros size w Hin Hs; cbn [group_grow] in Hin.
  - destruct Hin.
  - destruct (gw_sync x && negb fsync) eqn:E; [destruct Hin|].
    assert (Hx : gw_sync x = true -> fsync = true).
    { intros Hx. rewrite Hx in E. destruct fsync; [reflexivity|discriminate]. }
    destruct (gw_batch x).
    + destruct (maxs <? size + gw_size x); [destruct Hin|].
      cbn [firstn] in Hin. destruct Hin as [Hin|Hin]; [subst x; auto|]. exact (IH _ _ Hin Hs).
    + cbn [firstn] in Hin. destruct Hin as [Hin|Hin]; [subst x; auto|]. exact (IH _ _ Hin Hs).
Qed.

(* C02: every sync=1 writer the group covers is led by a sync=1 leader, whose fsync of the log follows the append *)
Theorem group_sync_rule : forall q w,
  In w (firstn (build_group q) q) -> gw_sync w = true -> group_is_synced q = true.
Proof.
  intros [|f r] w Hin Hs; cbn [build_group firstn group_is_synced] in *; [destruct Hin|].
  destruct Hin as [Hin|Hin]; [subst f; exact Hs|].
  exact (grow_sync _ _ _ _ _ Hin Hs).
Qed.

Lemma grow_bytes : forall fsync maxs r size,
  size + bytes_of (filter gw_batch (firstn (group_grow fsync maxs size r) r)) <= N.max size maxs.
Proof.
  intros fsync maxs r. induction r as [|x r IH]; intros size; cbn [group_grow].
  - cbn. lia.
  - destruct (gw_sync x && negb fsync); [cbn; lia|].
    destruct (gw_batch x) eqn:Eb.
    + destruct (maxs <? size + gw_size x) eqn:El; [cbn; lia|].
      apply N.ltb_ge in El. cbn [firstn filter]. rewrite Eb. cbn [bytes_of fold_right].
      specialize (IH (size + gw_size x)). fold (bytes_of (filter gw_batch (firstn (group_grow fsync maxs (size + gw_size x) r) r))) in *.
      lia.
    + cbn [firstn filter]. rewrite Eb. exact (IH size).
Qed.

(* the group batch stays under the cap (or is the leader's own batch alone) *)
Theorem group_size_cap : forall f r, gw_batch f = true ->
  group_bytes (f :: r) <= N.max (gw_size f) (group_max_size (gw_size f)).
Proof.
  intros f r Hb. unfold group_bytes, group_members. cbn [build_group firstn filter]. rewrite Hb.
  cbn [fold_right].
  pose proof (grow_bytes (gw_sync f) (group_max_size (gw_size f)) r (gw_size f)) as H.
  unfold bytes_of in H. exact H.
Qed.

Lemma grow_stop : forall fsync maxs r size,
  let k := group_grow fsync maxs size r in
  (k < length r)%nat ->
  exists w, nth_error r k = Some w /\
    ((gw_sync w = true /\ fsync = false) \/
     (gw_batch w = true /\ maxs < size + bytes_of (filter gw_batch (firstn k r)) + gw_size w)).
Proof.
  intros fsync maxs r. induction r as [|x r IH]; intros size k Hk; subst k; cbn [group_grow length] in *; [lia|].
  destruct (gw_sync x && negb fsync) eqn:E.
  - exists x. split; [reflexivity|]. left. apply andb_true_iff in E. destruct E as [E1 E2].
    split; [exact E1|]. destruct fsync; [discriminate|reflexivity].
  - destruct (gw_batch x) eqn:Eb.
    + destruct (maxs <? size + gw_size x) eqn:El.
      * exists x. split; [reflexivity|]. right. split; [exact Eb|]. apply N.ltb_lt in El. cbn. lia.
      * assert (Hk' : (group_grow fsync maxs (size + gw_size x) r < length r)%nat) by lia.
        destruct (IH (size + gw_size x) Hk') as [w [Hn Hw]]. exists w. split; [exact Hn|].
        destruct Hw as [Hw|[Hw1 Hw2]]; [left; exact Hw|right; split; [exact Hw1|]].
        cbn [firstn filter]. rewrite Eb. cbn [bytes_of fold_right].
        fold (bytes_of (filter gw_batch (firstn (group_grow fsync maxs (size + gw_size x) r) r))). lia.
    + assert (Hk' : (group_grow fsync maxs size r < length r)%nat) by lia.
      destruct (IH size Hk') as [w [Hn Hw]]. exists w. split; [exact Hn|].
      destruct Hw as [Hw|[Hw1 Hw2]]; [left; exact Hw|right; split; [exact Hw1|]].
      cbn [firstn filter]. rewrite Eb. exact Hw2.
Qed.

(* the group is maximal: it stops only at a sync writer behind a non-sync leader, or at a batch that would exceed the cap *)
Theorem group_maximal : forall f r, gw_batch f = true ->
  let n := build_group (f :: r) in
  (n < length (f :: r))%nat ->
  exists w, nth_error (f :: r) n = Some w /\
    ((gw_sync w = true /\ gw_sync f = false) \/
     (gw_batch w = true /\ group_max_size (gw_size f) < group_bytes (f :: r) + gw_size w)).
Proof.
  intros f r Hb n Hn. subst n. cbn [build_group length] in *.
  assert (Hk : (group_grow (gw_sync f) (group_max_size (gw_size f)) (gw_size f) r < length r)%nat) by lia.
  destruct (grow_stop _ _ _ _ Hk) as [w [Hw1 Hw2]]. exists w. split; [exact Hw1|].
  destruct Hw2 as [H|[H1 H2]]; [left; exact H|right; split; [exact H1|]].
  unfold group_bytes, group_members. cbn [build_group firstn filter]. rewrite Hb. cbn [fold_right].
  unfold bytes_of in H2. exact H2.
Qed.

(* everything the leader acknowledges was merged: the covered entries that have a batch ARE the members *)
Theorem group_members_are_covered : forall q w,
  In w (group_members q) <-> In w (firstn (build_group q) q) /\ gw_batch w = true.
Proof. intros q w. unfold group_members. apply filter_In. Qed.

(* ---- the choice satisfies the guard of the transition system of Lts.v ---- *)
Definition view_of (sz : qent -> N) (e : qent) : gw :=
  mkGW (sz e) (q_sync e) (match q_batch e with Some _ => true | None => false end).

Lemma grow_group_ok : forall sz hs maxs r size,
  forallb (fun e => implb (q_sync e) hs) (firstn (group_grow hs maxs size (map (view_of sz) r)) r) = true.
Proof.
  intros sz hs maxs r. induction r as [|x r IH]; intros size; cbn [map group_grow]; [reflexivity|].
  cbn [view_of gw_sync gw_batch gw_size].
  destruct (q_sync x && negb hs) eqn:E; [reflexivity|].
  assert (Hx : implb (q_sync x) hs = true).
  { destruct (q_sync x), hs; cbn in *; congruence. }
  destruct (q_batch x).
  - destruct (maxs <? size + sz x); [reflexivity|]. cbn [firstn forallb]. rewrite Hx. apply IH.
  - cbn [firstn forallb]. rewrite Hx. apply IH.
Qed.

Theorem build_group_satisfies_lts_guard : forall sz h r b,
  q_batch h = Some b ->
  group_ok (h :: r) (build_group (map (view_of sz) (h :: r))) = true.
Proof.
  intros sz h r b Hb. cbn [map build_group group_ok]. rewrite Hb.
  set (k := group_grow (gw_sync (view_of sz h)) (group_max_size (gw_size (view_of sz h))) (gw_size (view_of sz h)) (map (view_of sz) r)).
  assert (Hk : (k <= length r)%nat).
  { subst k. pose proof (grow_le (gw_sync (view_of sz h)) (group_max_size (gw_size (view_of sz h))) (map (view_of sz) r) (gw_size (view_of sz h))) as H.
    rewrite map_length in H. exact H. }
  replace (S k - 1)%nat with k by lia.
  assert (H1 : (1 <=? S k)%nat = true) by reflexivity.
  assert (H2 : (S k <=? length (h :: r))%nat = true) by (apply Nat.leb_le; cbn [length]; lia).
  assert (H3 : forallb (fun e => implb (q_sync e) (q_sync h)) (firstn k r) = true)
    by (subst k; cbn [view_of gw_sync]; apply grow_group_ok).
  rewrite H1, H2, H3. reflexivity.
Qed.

(* non-vacuity / regression examples, evaluated *)
Example group_example_sync_stops :
  build_group [mkGW 100 false true; mkGW 50 false true; mkGW 10 true true; mkGW 10 false true] = 2%nat.
Proof. reflexivity. Qed.
Example group_example_cap :
  build_group [mkGW 16 false true; mkGW 200000 false true; mkGW 10 false true] = 1%nat.
Proof. vm_compute. reflexivity. Qed.
Example group_example_flush_request :
  build_group [mkGW 16 true true; mkGW 0 false false; mkGW 30 true true] = 3%nat /\
  group_bytes [mkGW 16 true true; mkGW 0 false false; mkGW 30 true true] = 46.
Proof. vm_compute. split; reflexivity. Qed.
