(* Properties_C07.v -- C07: "An iterator yields exactly the live keys of the view
   fixed at its creation (or of its snapshot), each once, in comparator order with
   matching values; after any mix of first, last, seek, seek_ge/gt/le/lt, next and
   prev it is positioned on the entry a sorted map dictates, and forward and backward
   traversals agree with each other and with point lookups."

   Model: Merger.v (replica of table/merger.c), DbIter.v (replica of db_iter.c and of
   the compositions of table/iterator.c via Cursor.v), tied to the implementation by
   checks/k2lib.py (every iterator script run on lcdb is also run on the extracted
   model iterator).  Statements only; proofs in DbIterProofs.v, MergerProofs.v,
   IteratorProofs.v, LiveViewProofs.v, EngineRead.v. *)
From LCDB Require Import Base Cursor CursorProofs Engine EngineSpec EngineRead Merger MergerProofs
                         DbIter LiveViewProofs DbIterProofs IteratorProofs.

(* the DB iterator of a state (db_iter.c over merger.c over memtable, immutable
   memtable, level-0 files and level iterators) answers every script -- observations
   are "key:value", "invalid", or "skipped" -- as a cursor over the live view does *)
Theorem C07_iterator : forall ucmp, total_order ucmp -> forall s q script,
  inv_b ucmp s = true ->
  run_script (db_iter_ops ucmp s q) (db_iter_init s) script =
  run_script (view_cursor ucmp (live_view ucmp s q)) None script.
Proof. exact C07_iterator_thm. Qed.
Print Assumptions C07_iterator.

(* ... and as a sorted map dictates: seek/seek_ge = first key >= target, seek_gt =
   first key > target, seek_le = last key <= target, seek_lt = last key < target,
   next / prev = neighbouring positions, first / last = the ends *)
Theorem C07_iterator_sorted_map : forall ucmp, total_order ucmp -> forall s q script,
  inv_b ucmp s = true ->
  run_script (db_iter_ops ucmp s q) (db_iter_init s) script =
  map_script (kvcmp ucmp) (live_view ucmp s q) None script.
Proof. exact C07_iterator_sorted_map_thm. Qed.
Print Assumptions C07_iterator_sorted_map.

(* each key once, in strictly increasing comparator order *)
Theorem C07_view_strictly_sorted : forall ucmp, total_order ucmp -> forall s q,
  inv_b ucmp s = true -> SrtBy (klt ucmp) (live_view ucmp s q).
Proof. exact live_view_strictly_sorted. Qed.
Print Assumptions C07_view_strictly_sorted.

(* the view the iterator walks and point lookups agree *)
Theorem C07_get_agrees_with_iterator : forall ucmp, total_order ucmp -> forall s k q v,
  inv_b ucmp s = true ->
  ((exists k', ucmp k' k = Eq /\ In (k', v) (live_view ucmp s q)) <->
   visible (get ucmp s k q) = Some v).
Proof. exact iterator_agrees_with_get. Qed.
Print Assumptions C07_get_agrees_with_iterator.

(* db_iter.c alone: over ANY strictly sorted run of internal entries (direction
   switches, deletions, overwritten and too-new entries) *)
Theorem C07_dbiter_is_view_cursor : forall ucmp, total_order ucmp -> forall es q fuel,
  sorted_run ucmp es = true -> (length es + 2 <= fuel)%nat ->
  simulates (dbiter_ops ucmp (cursor_ops (itge ucmp) (itcmp ucmp) es) fuel q) (d_init None)
            (view_cursor ucmp (live_of_sorted ucmp q None es)) None.
Proof. exact dbiter_is_view_cursor. Qed.
Print Assumptions C07_dbiter_is_view_cursor.

(* merger.c alone: over strictly sorted runs with pairwise distinct internal keys *)
Theorem C07_merger_is_cursor : forall ucmp, total_order ucmp -> forall runs,
  runs_ok ucmp runs ->
  simulates (internal_ops ucmp) (m_init runs)
            (cursor_ops (itge ucmp) (itcmp ucmp) (sort_entries ucmp (concat runs))) None.
Proof. exact merger_is_cursor. Qed.
Print Assumptions C07_merger_is_cursor.

(* the exact read path returns the newest visible entry *)
Theorem C07_get_is_newest_visible : forall ucmp, total_order ucmp -> forall s k q,
  inv_b ucmp s = true -> get ucmp s k q = result_of (best ucmp (all_entries s) k q).
Proof. exact get_correct. Qed.
Print Assumptions C07_get_is_newest_visible.
