(* LogFormatProofs.v -- proofs about the log writer / reader model of
   LogFormat.v: writer state is the file length mod BLOCK, write/read round
   trip, reading any byte-prefix of a written log, structural no-invention for
   arbitrary files, the zero-header silent-drop witness, and fuel adequacy of
   the three fuelled fixpoints.

   The four basic codec facts used by the round-trip / cut theorems (proved in
   BaseProofs.v / Crc32cProofs.v) are hypotheses of Section WithCodecFacts
   here; LogFormatClosed.v instantiates them and re-states the theorems closed.
   Items 1 (write_log_app), 4 (no invention), 5 (zero header) and all fuel
   adequacy lemmas are closed in this file. *)
From LCDB Require Import Base Crc32c LogFormat.
From Coq Require Import Lia ZifyBool ZifyNat ZifyN.
Local Open Scope N_scope.

Ltac Zify.zify_post_hook ::= Z.div_mod_to_equations.

#[local] Arguments N.mul : simpl never.
#[local] Arguments N.add : simpl never.
#[local] Arguments N.sub : simpl never.
#[local] Arguments N.div : simpl never.
#[local] Arguments N.modulo : simpl never.
#[local] Arguments N.ltb : simpl never.
#[local] Arguments N.eqb : simpl never.
#[local] Arguments N.to_nat : simpl never.
#[local] Arguments N.of_nat : simpl never.

(* ------------------------------------------------------------------ *)
(* Constants                                                           *)
(* ------------------------------------------------------------------ *)

Lemma BLOCK_eq : BLOCK = 32768.
Proof. reflexivity. Qed.
Lemma HEADER_eq : HEADER = 7.
Proof. reflexivity. Qed.

#[local] Arguments BLOCK : simpl never.
#[local] Arguments HEADER : simpl never.
#[local] Arguments crc_value : simpl never.
#[local] Arguments crc_extend : simpl never.
#[local] Arguments crc_mask : simpl never.
#[local] Arguments crc_unmask : simpl never.
#[local] Arguments phys_record : simpl never.

(* lia with the two constants revealed *)
Ltac blia := rewrite ?BLOCK_eq, ?HEADER_eq in *; lia.

(* ------------------------------------------------------------------ *)
(* nlen / take_n / drop_n                                              *)
(* ------------------------------------------------------------------ *)

Lemma nlen_nil : forall A, nlen (@nil A) = 0.
Proof. reflexivity. Qed.

Lemma nlen_cons : forall A (x : A) l, nlen (x :: l) = 1 + nlen l.
Proof. intros. unfold nlen. cbn [length]. lia. Qed.

Lemma nlen_app : forall A (a b : list A), nlen (a ++ b) = nlen a + nlen b.
Proof. intros. unfold nlen. rewrite app_length. lia. Qed.

Lemma nlen_length : forall A (l : list A), N.to_nat (nlen l) = length l.
Proof. intros. unfold nlen. lia. Qed.

Lemma nlen_take : forall A n (l : list A), nlen (take_n n l) = N.min n (nlen l).
Proof. intros. unfold nlen, take_n. rewrite firstn_length. lia. Qed.

Lemma nlen_drop : forall A n (l : list A), nlen (drop_n n l) = nlen l - n.
Proof. intros. unfold nlen, drop_n. rewrite skipn_length. lia. Qed.

Lemma nlen_repeat : forall A (x : A) n, nlen (repeat x n) = N.of_nat n.
Proof. intros. unfold nlen. rewrite repeat_length. reflexivity. Qed.

Lemma take_drop : forall A n (l : list A), take_n n l ++ drop_n n l = l.
Proof. intros. apply firstn_skipn. Qed.

Lemma take_all : forall A n (l : list A), nlen l <= n -> take_n n l = l.
Proof. intros A n l H. unfold take_n. apply firstn_all2. unfold nlen in H. lia. Qed.

Lemma drop_all : forall A n (l : list A), nlen l <= n -> drop_n n l = [].
Proof. intros A n l H. unfold drop_n. apply skipn_all2. unfold nlen in H. lia. Qed.

Lemma take_0 : forall A (l : list A), take_n 0 l = [].
Proof. reflexivity. Qed.

Lemma drop_0 : forall A (l : list A), drop_n 0 l = l.
Proof. reflexivity. Qed.

Lemma take_app_exact : forall A (a b : list A), take_n (nlen a) (a ++ b) = a.
Proof.
  intros. unfold take_n. rewrite nlen_length.
  rewrite firstn_app, Nat.sub_diag, firstn_all. cbn [firstn]. apply app_nil_r.
Qed.

Lemma drop_app_exact : forall A (a b : list A), drop_n (nlen a) (a ++ b) = b.
Proof.
  intros. unfold drop_n. rewrite nlen_length.
  rewrite skipn_app, Nat.sub_diag, skipn_all. reflexivity.
Qed.

Lemma take_app_ge : forall A k (a b : list A),
  nlen a <= k -> take_n k (a ++ b) = a ++ take_n (k - nlen a) b.
Proof.
  intros A k a b H. unfold take_n. rewrite firstn_app.
  rewrite firstn_all2 by (unfold nlen in H; lia).
  do 2 f_equal. unfold nlen. lia.
Qed.

Lemma drop_app_ge : forall A k (a b : list A),
  nlen a <= k -> drop_n k (a ++ b) = drop_n (k - nlen a) b.
Proof.
  intros A k a b H. unfold drop_n. rewrite skipn_app.
  rewrite skipn_all2 by (unfold nlen in H; lia).
  cbn [app]. f_equal. unfold nlen. lia.
Qed.

Lemma wf_bytes_app_iff : forall a b,
  wf_bytes (a ++ b) = true <-> wf_bytes a = true /\ wf_bytes b = true.
Proof. intros. unfold wf_bytes. rewrite forallb_app, andb_true_iff. reflexivity. Qed.

Lemma wf_bytes_take : forall n l, wf_bytes l = true -> wf_bytes (take_n n l) = true.
Proof.
  intros n l H. rewrite <- (take_drop _ n l) in H.
  apply wf_bytes_app_iff in H. tauto.
Qed.

Lemma wf_bytes_drop : forall n l, wf_bytes l = true -> wf_bytes (drop_n n l) = true.
Proof.
  intros n l H. rewrite <- (take_drop _ n l) in H.
  apply wf_bytes_app_iff in H. tauto.
Qed.

(* ------------------------------------------------------------------ *)
(* parse_block: one-step unfolding, fuel adequacy                      *)
(* ------------------------------------------------------------------ *)

Lemma parse_block_S : forall f c e buf,
  parse_block (S f) c e buf =
    if nlen buf <? HEADER then (if e then [PEof] else [])
    else match buf with
      | c0 :: c1 :: c2 :: c3 :: a :: b :: ty :: body =>
          let len := a + 256 * b in
          if nlen buf <? HEADER + len then
            (if e then [PEof] else [PBad (Some (nlen buf))])
          else if (ty =? T_ZERO) && (len =? 0) then
            PBad None :: (if e then [PEof] else [])
          else
            let payload := take_n len body in
            let expect := crc_unmask (c0 + 256 * c1 + 65536 * c2 + 16777216 * c3) in
            let actual := crc_value (ty :: payload) in
            if c && negb (actual =? expect) then
              PBad (Some (nlen buf)) :: (if e then [PEof] else [])
            else
              PRec ty payload :: parse_block f c e (drop_n len body)
      | _ => []
      end.
Proof. reflexivity. Qed.

Lemma parse_block_0 : forall c e buf, parse_block 0 c e buf = [].
Proof. reflexivity. Qed.

Local Opaque parse_block.

(* Fuel adequacy: any fuel exceeding the buffer length gives the same answer,
   i.e. the [O] branch of [parse_block] is never reached from [phys_events]. *)
Lemma parse_block_fuel_indep : forall f1 f2 c e buf,
  (length buf < f1)%nat -> (length buf < f2)%nat ->
  parse_block f1 c e buf = parse_block f2 c e buf.
Proof.
  induction f1 as [|f1 IH]; intros f2 c e buf H1 H2; [lia|].
  destruct f2 as [|f2]; [lia|].
  rewrite !parse_block_S.
  destruct (nlen buf <? HEADER); [reflexivity|].
  destruct buf as [|c0 [|c1 [|c2 [|c3 [|a [|b [|ty body]]]]]]]; try reflexivity.
  cbv zeta.
  destruct (_ <? _); [reflexivity|].
  destruct (_ && _); [reflexivity|].
  destruct (_ && _); [reflexivity|].
  f_equal. apply IH; unfold drop_n; rewrite skipn_length; cbn [length] in *; lia.
Qed.

Lemma parse_block_fuel_ok : forall f c e buf,
  (length buf < f)%nat ->
  parse_block f c e buf = parse_block (S (length buf)) c e buf.
Proof. intros. apply parse_block_fuel_indep; lia. Qed.

(* fuel-free view *)
Definition parse (c e : bool) (buf : bytes) : list pev :=
  parse_block (S (length buf)) c e buf.

Lemma parse_short : forall c e buf,
  nlen buf < HEADER -> parse c e buf = if e then [PEof] else [].
Proof.
  intros c e buf H. unfold parse. rewrite parse_block_S.
  destruct (nlen buf <? HEADER) eqn:E; [reflexivity|lia].
Qed.

Lemma parse_cons7 : forall c e c0 c1 c2 c3 a b ty body size,
  size = 7 + nlen body ->
  parse c e (c0 :: c1 :: c2 :: c3 :: a :: b :: ty :: body) =
    let len := a + 256 * b in
    if size <? HEADER + len then
      (if e then [PEof] else [PBad (Some size)])
    else if (ty =? T_ZERO) && (len =? 0) then
      PBad None :: (if e then [PEof] else [])
    else
      let payload := take_n len body in
      let expect := crc_unmask (c0 + 256 * c1 + 65536 * c2 + 16777216 * c3) in
      let actual := crc_value (ty :: payload) in
      if c && negb (actual =? expect) then
        PBad (Some size) :: (if e then [PEof] else [])
      else
        PRec ty payload :: parse c e (drop_n len body).
Proof.
  intros c e c0 c1 c2 c3 a b ty body size Hs.
  assert (Hn : nlen (c0 :: c1 :: c2 :: c3 :: a :: b :: ty :: body) = size).
  { rewrite !nlen_cons. lia. }
  unfold parse at 1. rewrite parse_block_S. rewrite Hn.
  destruct (size <? HEADER) eqn:E; [blia|]. clear E.
  cbv zeta.
  destruct (_ <? _); [reflexivity|].
  destruct (_ && _); [reflexivity|].
  destruct (_ && _); [reflexivity|].
  f_equal. unfold parse. apply parse_block_fuel_indep.
  - unfold drop_n. rewrite skipn_length. cbn [length]. lia.
  - lia.
Qed.

(* proper prefix of anything shorter than a header, at eof *)
Lemma parse_eof_short : forall c buf, nlen buf < HEADER -> parse c true buf = [PEof].
Proof. intros. rewrite parse_short by assumption. reflexivity. Qed.

Lemma parse_zeros : forall c k, N.of_nat k < HEADER -> parse c false (repeat 0 k) = [].
Proof. intros. rewrite parse_short by (rewrite nlen_repeat; assumption). reflexivity. Qed.

(* ------------------------------------------------------------------ *)
(* split_blocks: one-step unfolding, fuel adequacy                     *)
(* ------------------------------------------------------------------ *)

Lemma split_blocks_S : forall f file,
  split_blocks (S f) file =
    if nlen (take_n BLOCK file) <? BLOCK then [(take_n BLOCK file, true)]
    else (take_n BLOCK file, false) :: split_blocks f (drop_n BLOCK file).
Proof. reflexivity. Qed.

Lemma split_blocks_0 : forall file, split_blocks 0 file = [].
Proof. reflexivity. Qed.

Local Opaque split_blocks.

Lemma split_blocks_fuel_indep : forall f1 f2 file,
  nlen file / BLOCK < N.of_nat f1 -> nlen file / BLOCK < N.of_nat f2 ->
  split_blocks f1 file = split_blocks f2 file.
Proof.
  induction f1 as [|f1 IH]; intros f2 file H1 H2; [blia|].
  destruct f2 as [|f2]; [blia|].
  rewrite !split_blocks_S.
  destruct (nlen (take_n BLOCK file) <? BLOCK) eqn:E; [reflexivity|].
  f_equal. rewrite nlen_take in E.
  apply IH; rewrite nlen_drop; blia.
Qed.

(* Fuel adequacy: the fuel used by [phys_events] is enough, more changes nothing. *)
Lemma split_blocks_fuel_ok : forall f file,
  nlen file / BLOCK < N.of_nat f ->
  split_blocks f file = split_blocks (S (N.to_nat (nlen file / BLOCK))) file.
Proof. intros. apply split_blocks_fuel_indep; blia. Qed.

Lemma phys_events_unfold : forall c file,
  phys_events c file =
    if nlen file <? BLOCK then parse c true file
    else parse c false (take_n BLOCK file) ++ phys_events c (drop_n BLOCK file).
Proof.
  intros c file. unfold phys_events at 1. rewrite split_blocks_S.
  rewrite nlen_take.
  destruct (nlen file <? BLOCK) eqn:E.
  - destruct (N.min BLOCK (nlen file) <? BLOCK) eqn:E2; [|lia].
    cbn [flat_map fst snd]. rewrite app_nil_r.
    rewrite take_all by lia. reflexivity.
  - destruct (N.min BLOCK (nlen file) <? BLOCK) eqn:E2; [lia|].
    cbn [flat_map fst snd]. f_equal.
    unfold phys_events. f_equal.
    apply split_blocks_fuel_indep; rewrite nlen_drop; blia.
Qed.

(* ------------------------------------------------------------------ *)
(* Reading from the middle of a block                                  *)
(* ------------------------------------------------------------------ *)

(* Physical events of the rest of a file when the reader's current block
   started [off] bytes before [file]. *)
Definition pe_at (c : bool) (off : N) (file : bytes) : list pev :=
  let k := BLOCK - off in
  if nlen file <? k then parse c true file
  else parse c false (take_n k file) ++ phys_events c (drop_n k file).

Lemma pe_at_0 : forall c file, pe_at c 0 file = phys_events c file.
Proof.
  intros. unfold pe_at. rewrite N.sub_0_r. symmetry. apply phys_events_unfold.
Qed.

Lemma pe_at_BLOCK : forall c file, pe_at c BLOCK file = phys_events c file.
Proof.
  intros. unfold pe_at. rewrite N.sub_diag.
  destruct (nlen file <? 0) eqn:E; [lia|].
  rewrite take_0, drop_0. rewrite parse_short by (rewrite nlen_nil; blia).
  reflexivity.
Qed.

Lemma pe_at_nil : forall c off, off <= BLOCK -> pe_at c off [] = [PEof].
Proof.
  intros c off H. unfold pe_at. rewrite nlen_nil.
  destruct (0 <? BLOCK - off) eqn:E.
  - apply parse_eof_short. rewrite nlen_nil. blia.
  - rewrite take_0 || (rewrite take_all by (rewrite nlen_nil; lia)).
    rewrite drop_all by (rewrite nlen_nil; lia).
    rewrite parse_short by (rewrite nlen_nil; blia).
    rewrite phys_events_unfold. rewrite nlen_nil.
    destruct (0 <? BLOCK) eqn:E2; [|blia].
    cbn [app]. apply parse_eof_short. rewrite nlen_nil. blia.
Qed.

(* a trailer of < 7 zero bytes is skipped *)
Lemma pe_at_pad : forall c off rest,
  off <= BLOCK -> BLOCK - off < HEADER ->
  pe_at c off (repeat 0 (N.to_nat (BLOCK - off)) ++ rest) = pe_at c 0 rest.
Proof.
  intros c off rest H1 H2. rewrite pe_at_0. unfold pe_at.
  remember (BLOCK - off) as k eqn:Ek.
  assert (Hz : parse c false (repeat 0 (N.to_nat k)) = []) by (apply parse_zeros; lia).
  assert (Hk : nlen (repeat 0 (N.to_nat k)) = k) by (rewrite nlen_repeat; lia).
  remember (repeat 0 (N.to_nat k)) as z eqn:Ez. clear Ez.
  rewrite nlen_app, Hk.
  destruct (k + nlen rest <? k) eqn:E; [lia|].
  rewrite <- Hk. rewrite take_app_exact, drop_app_exact.
  rewrite Hz. reflexivity.
Qed.

(* any proper prefix of the trailer, or the whole trailer, at end of file *)
Lemma pe_at_pad_prefix : forall c off n,
  off <= BLOCK -> BLOCK - off < HEADER -> (n <= N.to_nat (BLOCK - off))%nat ->
  pe_at c off (repeat 0 n) = [PEof].
Proof.
  intros c off n H1 H2 H3.
  rewrite <- (app_nil_r (repeat 0 n)).
  destruct (Nat.eq_dec n (N.to_nat (BLOCK - off))) as [->|Hne].
  - rewrite pe_at_pad by assumption. apply pe_at_nil. blia.
  - rewrite app_nil_r. unfold pe_at. rewrite nlen_repeat.
    destruct (N.of_nat n <? BLOCK - off) eqn:E; [|lia].
    apply parse_eof_short. rewrite nlen_repeat. lia.
Qed.

Lemma crc_mask_lt32 : forall c, crc_mask c < 4294967296.
Proof. intros. unfold crc_mask. apply N.mod_lt. discriminate. Qed.


Definition is_wtype (ty : N) : Prop := ty = T_FULL \/ ty = T_FIRST \/ ty = T_MIDDLE \/ ty = T_LAST.

Lemma is_wtype_bounds : forall ty, is_wtype ty -> ty < 256 /\ ty <> 0.
Proof. unfold is_wtype, T_FULL, T_FIRST, T_MIDDLE, T_LAST. intros. lia. Qed.

Lemma nlen_phys_record : forall ty p, nlen (phys_record ty p) = HEADER + nlen p.
Proof.
  intros. unfold phys_record, le32. rewrite !nlen_app, !nlen_cons, nlen_nil. blia.
Qed.


(* a cut strictly inside a physical record, at end of file *)
Lemma parse_phys_prefix : forall c ty p n,
  (n < length (phys_record ty p))%nat ->
  parse c true (firstn n (phys_record ty p)) = [PEof].
Proof.
  intros c ty p n Hn.
  assert (Hl : length (phys_record ty p) = (7 + length p)%nat).
  { pose proof (nlen_phys_record ty p) as H. unfold nlen in H. blia. }
  rewrite Hl in Hn.
  destruct (Nat.lt_ge_cases n 7) as [Hlt|Hge].
  - apply parse_eof_short. unfold nlen. rewrite firstn_length. blia.
  - replace n with (7 + (n - 7))%nat by lia.
    unfold phys_record, le32. cbn [app Nat.add firstn].
    rewrite (parse_cons7 _ _ _ _ _ _ _ _ _ _ (7 + nlen (firstn (n - 7) p)) eq_refl).
    cbv zeta.
    replace (nlen p mod 256 + 256 * (nlen p / 256)) with (nlen p) by lia.
    destruct (_ <? _) eqn:E; [reflexivity|].
    unfold nlen in E. rewrite firstn_length in E. blia.
Qed.


Lemma pe_at_phys_prefix : forall c off ty p n,
  off + HEADER + nlen p <= BLOCK -> (n < length (phys_record ty p))%nat ->
  pe_at c off (firstn n (phys_record ty p)) = [PEof].
Proof.
  intros c off ty p n Hfit Hn. unfold pe_at.
  pose proof (nlen_phys_record ty p) as Hl.
  assert (Hf : nlen (firstn n (phys_record ty p)) = N.of_nat n).
  { unfold nlen. rewrite firstn_length. lia. }
  rewrite Hf. unfold nlen in Hl, Hfit.
  destruct (N.of_nat n <? BLOCK - off) eqn:E; [|lia].
  apply parse_phys_prefix. assumption.
Qed.

(* ------------------------------------------------------------------ *)
(* logical: the transitions used by well-formed logs                   *)
(* ------------------------------------------------------------------ *)

Lemma logical_eof : forall evs i s, logical (PEof :: evs) i s = [].
Proof. reflexivity. Qed.
Lemma logical_full : forall p evs s, logical (PRec T_FULL p :: evs) false s = Rec p :: logical evs false [].
Proof. reflexivity. Qed.
Lemma logical_first : forall p evs s, logical (PRec T_FIRST p :: evs) false s = logical evs true p.
Proof. reflexivity. Qed.
Lemma logical_middle : forall p evs s, logical (PRec T_MIDDLE p :: evs) true s = logical evs true (s ++ p).
Proof. reflexivity. Qed.
Lemma logical_last : forall p evs s, logical (PRec T_LAST p :: evs) true s = Rec (s ++ p) :: logical evs false [].
Proof. reflexivity. Qed.

Lemma frag_type_wtype : forall b e, is_wtype (frag_type b e).
Proof. intros [|] [|]; unfold is_wtype; cbn [frag_type]; tauto. Qed.

(* ------------------------------------------------------------------ *)
(* Writer: the parts of one loop iteration                             *)
(* ------------------------------------------------------------------ *)

Definition off1_of (off : N) : N := if BLOCK - off <? HEADER then 0 else off.
Definition pad_of (off : N) : bytes :=
  if BLOCK - off <? HEADER then repeat 0 (N.to_nat (BLOCK - off)) else [].
Definition avail_of (off : N) : N := BLOCK - off1_of off - HEADER.
Definition flen_of (off : N) (data : bytes) : N :=
  if nlen data <? avail_of off then nlen data else avail_of off.

Lemma add_record_step_eq : forall off b data,
  add_record_step off b data =
    (pad_of off ++ phys_record (frag_type b (nlen data =? flen_of off data))
                               (take_n (flen_of off data) data),
     off1_of off + HEADER + flen_of off data,
     if nlen data =? flen_of off data then None
     else Some (drop_n (flen_of off data) data)).
Proof. reflexivity. Qed.

Lemma add_record_loop_eq : forall fuel off b data,
  add_record_loop fuel off b data =
    if nlen data =? flen_of off data then
      (pad_of off ++ phys_record (frag_type b true) (take_n (flen_of off data) data),
       off1_of off + HEADER + flen_of off data)
    else
      match fuel with
      | O => (pad_of off ++ phys_record (frag_type b false) (take_n (flen_of off data) data),
              off1_of off + HEADER + flen_of off data)
      | S f =>
        ((pad_of off ++ phys_record (frag_type b false) (take_n (flen_of off data) data)) ++
           fst (add_record_loop f (off1_of off + HEADER + flen_of off data) false
                                (drop_n (flen_of off data) data)),
         snd (add_record_loop f (off1_of off + HEADER + flen_of off data) false
                                (drop_n (flen_of off data) data)))
      end.
Proof.
  intros fuel off b data.
  destruct fuel; cbn [add_record_loop]; rewrite add_record_step_eq; cbv beta iota zeta;
    destruct (nlen data =? flen_of off data); try reflexivity.
  destruct (add_record_loop _ _ _ _); reflexivity.
Qed.

Local Opaque add_record_loop.
#[local] Arguments add_record : simpl never.
#[local] Arguments add_record_step : simpl never.

Lemma off1_of_BLOCK : off1_of BLOCK = 0.
Proof. reflexivity. Qed.
Lemma pad_of_BLOCK : pad_of BLOCK = [].
Proof. reflexivity. Qed.
Lemma off1_of_0 : off1_of 0 = 0.
Proof. reflexivity. Qed.
Lemma pad_of_0 : pad_of 0 = [].
Proof. reflexivity. Qed.
Lemma avail_of_BLOCK : avail_of BLOCK = 32761.
Proof. reflexivity. Qed.

Ltac step_arith off :=
  unfold flen_of, avail_of, off1_of in *;
  destruct (BLOCK - off <? HEADER) eqn:?;
  repeat match goal with
  | H : context [if ?x <? ?y then _ else _] |- _ => destruct (x <? y) eqn:?
  | |- context [if ?x <? ?y then _ else _] => destruct (x <? y) eqn:?
  end; blia.

Lemma step_off_le : forall off data,
  off <= BLOCK -> off1_of off + HEADER + flen_of off data <= BLOCK.
Proof. intros off data H. step_arith off. Qed.

Lemma step_flen_le : forall off data, flen_of off data <= nlen data.
Proof. intros off data. step_arith off. Qed.

Lemma step_end : forall off data,
  (nlen data =? flen_of off data) = true -> flen_of off data = nlen data.
Proof. intros off data H. lia. Qed.

Lemma step_not_end : forall off data,
  off <= BLOCK -> (nlen data =? flen_of off data) = false ->
  off1_of off + HEADER + flen_of off data = BLOCK /\ avail_of off < nlen data /\ flen_of off data = avail_of off.
Proof.
  intros off data H E.
  assert (avail_of off < nlen data /\ flen_of off data = avail_of off) as [H1 H2].
  { unfold flen_of in *. destruct (nlen data <? avail_of off) eqn:E2; lia. }
  repeat split; try assumption. rewrite H2. clear - H. step_arith off.
Qed.

Lemma pe_at_padof : forall c off Y,
  off <= BLOCK -> pe_at c off (pad_of off ++ Y) = pe_at c (off1_of off) Y.
Proof.
  intros c off Y H. unfold pad_of, off1_of.
  destruct (BLOCK - off <? HEADER) eqn:E; [|reflexivity].
  apply pe_at_pad; [assumption|lia].
Qed.

Lemma nlen_pad_of : forall off, off <= BLOCK ->
  off + nlen (pad_of off) = off1_of off \/ off + nlen (pad_of off) = BLOCK /\ off1_of off = 0.
Proof.
  intros off H. unfold pad_of, off1_of.
  destruct (BLOCK - off <? HEADER) eqn:E.
  - right. rewrite nlen_repeat. lia.
  - left. rewrite nlen_nil. lia.
Qed.

(* ------------------------------------------------------------------ *)
(* Fuel adequacy of add_record_loop                                    *)
(* ------------------------------------------------------------------ *)

(* [fuel] iterations after the first are enough for [data] at offset [off] *)
Definition fuel_enough (fuel : nat) (off : N) (data : bytes) : Prop :=
  nlen data <= avail_of off + 32761 * N.of_nat fuel.

Lemma add_record_fuel_enough : forall off data,
  fuel_enough (add_record_fuel data) off data.
Proof.
  intros. unfold fuel_enough, add_record_fuel. lia.
Qed.

Lemma fuel_enough_next : forall f off data,
  off <= BLOCK -> fuel_enough (S f) off data ->
  (nlen data =? flen_of off data) = false ->
  fuel_enough f (off1_of off + HEADER + flen_of off data) (drop_n (flen_of off data) data).
Proof.
  intros f off data H G E.
  destruct (step_not_end off data H E) as (H1 & H2 & H3).
  unfold fuel_enough in *. rewrite H1, avail_of_BLOCK, nlen_drop, H3. lia.
Qed.

Lemma fuel_enough_0 : forall off data,
  fuel_enough 0 off data -> (nlen data =? flen_of off data) = true.
Proof.
  intros off data G. unfold fuel_enough in G. unfold flen_of.
  destruct (nlen data <? avail_of off) eqn:E; lia.
Qed.

(* With enough fuel the result does not depend on the fuel: the [O] branch of
   [add_record_loop] with pending data is never taken. *)
Lemma add_record_loop_fuel_indep : forall f1 f2 off b data,
  off <= BLOCK -> fuel_enough f1 off data -> fuel_enough f2 off data ->
  add_record_loop f1 off b data = add_record_loop f2 off b data.
Proof.
  induction f1 as [|f1 IH]; intros f2 off b data H G1 G2;
    rewrite (add_record_loop_eq _ off), (add_record_loop_eq f2 off).
  - rewrite (fuel_enough_0 _ _ G1). reflexivity.
  - destruct (nlen data =? flen_of off data) eqn:E; [reflexivity|].
    destruct f2 as [|f2].
    + rewrite (fuel_enough_0 _ _ G2) in E. discriminate.
    + rewrite (IH f2); [reflexivity| | |].
      * apply step_off_le; assumption.
      * apply fuel_enough_next; assumption.
      * apply fuel_enough_next; assumption.
Qed.

Lemma add_record_fuel_ok : forall fuel off data,
  off <= BLOCK -> (add_record_fuel data <= fuel)%nat ->
  add_record_loop fuel off true data = add_record off data.
Proof.
  intros fuel off data H Hf. unfold add_record.
  apply add_record_loop_fuel_indep; [assumption| |apply add_record_fuel_enough].
  pose proof (add_record_fuel_enough off data) as G. unfold fuel_enough in *. lia.
Qed.

Lemma loop_off_le : forall fuel off b data,
  off <= BLOCK -> snd (add_record_loop fuel off b data) <= BLOCK.
Proof.
  induction fuel as [|f IH]; intros off b data H; rewrite add_record_loop_eq;
    destruct (nlen data =? flen_of off data); cbn [snd]; try (apply step_off_le; assumption).
  apply IH. apply step_off_le; assumption.
Qed.


(* ------------------------------------------------------------------ *)
(* Cutting inside one loop iteration                                  *)
(* ------------------------------------------------------------------ *)

Lemma firstn_repeat_le : forall A (x : A) n m, (n <= m)%nat -> firstn n (repeat x m) = repeat x n.
Proof.
  intros A x n. induction n as [|n IH]; intros m H; [reflexivity|].
  destruct m as [|m]; [lia|]. cbn [repeat firstn]. f_equal. apply IH. lia.
Qed.

Lemma cut_step : forall c off ty p tail n i s,
  off <= BLOCK -> off1_of off + HEADER + nlen p <= BLOCK ->
  (n < length (pad_of off ++ phys_record ty p))%nat ->
  logical (pe_at c off (firstn n (pad_of off ++ phys_record ty p ++ tail))) i s = [].
Proof.
  intros c off ty p tail n i s H Hfit Hn.
  rewrite app_length in Hn.
  rewrite firstn_app.
  destruct (Nat.lt_ge_cases n (length (pad_of off))) as [Hlt|Hge].
  - replace (n - length (pad_of off))%nat with 0%nat by lia.
    cbn [firstn]. rewrite app_nil_r.
    unfold pad_of in *. destruct (BLOCK - off <? HEADER) eqn:E; [|cbn [length] in Hlt; lia].
    rewrite repeat_length in Hlt.
    rewrite firstn_repeat_le by lia.
    rewrite pe_at_pad_prefix by lia. reflexivity.
  - rewrite firstn_all2 by assumption.
    rewrite pe_at_padof by assumption.
    rewrite firstn_app.
    replace (n - length (pad_of off) - length (phys_record ty p))%nat with 0%nat by lia.
    cbn [firstn]. rewrite app_nil_r.
    rewrite pe_at_phys_prefix by (assumption || lia). reflexivity.
Qed.


(* ------------------------------------------------------------------ *)
(* Sequences of records                                                *)
(* ------------------------------------------------------------------ *)

Lemma write_records_nil : forall off, write_records off [] = [].
Proof. reflexivity. Qed.

Lemma write_records_cons : forall off r rs,
  write_records off (r :: rs) =
    fst (add_record off r) ++ write_records (snd (add_record off r)) rs.
Proof. intros. cbn [write_records]. destruct (add_record off r); reflexivity. Qed.

Local Opaque write_records.

(* block offset after writing [rs] starting at block offset [off] *)
Fixpoint final_off (off : N) (rs : list bytes) : N :=
  match rs with
  | [] => off
  | r :: rs' => final_off (snd (add_record off r)) rs'
  end.

Lemma write_records_app : forall rs1 rs2 off,
  write_records off (rs1 ++ rs2) =
    write_records off rs1 ++ write_records (final_off off rs1) rs2.
Proof.
  induction rs1 as [|r rs1 IH]; intros rs2 off; cbn [app final_off].
  - rewrite write_records_nil. reflexivity.
  - rewrite !write_records_cons, IH, app_assoc. reflexivity.
Qed.

Lemma add_record_off_le : forall off r, off <= BLOCK -> snd (add_record off r) <= BLOCK.
Proof. intros. unfold add_record. apply loop_off_le. assumption. Qed.

Lemma final_off_le : forall rs off, off <= BLOCK -> final_off off rs <= BLOCK.
Proof.
  induction rs as [|r rs IH]; intros off H; cbn [final_off]; [assumption|].
  apply IH. apply add_record_off_le. assumption.
Qed.

(* the block offset tracks the number of bytes written, modulo BLOCK *)
Lemma hd_len : forall off ty data,
  off <= BLOCK ->
  (off + nlen (pad_of off ++ phys_record ty (take_n (flen_of off data) data))) mod BLOCK =
  (off1_of off + HEADER + flen_of off data) mod BLOCK.
Proof.
  intros off ty data H.
  rewrite nlen_app, nlen_phys_record, nlen_take.
  pose proof (step_flen_le off data) as Hfl.
  replace (N.min (flen_of off data) (nlen data)) with (flen_of off data) by lia.
  destruct (nlen_pad_of off H) as [E|[E1 E2]].
  - f_equal. lia.
  - rewrite E2.
    replace (off + (nlen (pad_of off) + (HEADER + flen_of off data)))
      with (0 + HEADER + flen_of off data + 1 * BLOCK) by lia.
    apply N.mod_add. discriminate.
Qed.

Lemma loop_len : forall fuel off b data,
  off <= BLOCK ->
  (off + nlen (fst (add_record_loop fuel off b data))) mod BLOCK =
  snd (add_record_loop fuel off b data) mod BLOCK.
Proof.
  induction fuel as [|f IH]; intros off b data H; rewrite add_record_loop_eq;
    destruct (nlen data =? flen_of off data); cbn [fst snd]; try (apply hd_len; assumption).
  rewrite nlen_app, N.add_assoc.
  rewrite <- N.add_mod_idemp_l by discriminate.
  rewrite hd_len by assumption.
  rewrite N.add_mod_idemp_l by discriminate.
  apply IH. apply step_off_le. assumption.
Qed.

Lemma write_records_len : forall rs off,
  off <= BLOCK ->
  (off + nlen (write_records off rs)) mod BLOCK = final_off off rs mod BLOCK.
Proof.
  induction rs as [|r rs IH]; intros off H; cbn [final_off].
  - rewrite write_records_nil, nlen_nil, N.add_0_r. reflexivity.
  - rewrite write_records_cons, nlen_app, N.add_assoc.
    rewrite <- N.add_mod_idemp_l by discriminate.
    unfold add_record at 1. rewrite loop_len by assumption. fold (add_record off r).
    rewrite N.add_mod_idemp_l by discriminate.
    apply IH. apply add_record_off_le. assumption.
Qed.

(* block offsets BLOCK and 0 behave identically *)
Lemma add_record_loop_BLOCK : forall fuel b data,
  add_record_loop fuel BLOCK b data = add_record_loop fuel 0 b data.
Proof.
  intros. rewrite (add_record_loop_eq fuel BLOCK), (add_record_loop_eq fuel 0).
  reflexivity.
Qed.

Lemma write_records_BLOCK : forall rs, write_records BLOCK rs = write_records 0 rs.
Proof.
  intros [|r rs]; [rewrite !write_records_nil; reflexivity|].
  rewrite !write_records_cons. unfold add_record.
  rewrite add_record_loop_BLOCK. reflexivity.
Qed.

Lemma write_records_mod : forall off rs,
  off <= BLOCK -> write_records off rs = write_records (off mod BLOCK) rs.
Proof.
  intros off rs H. destruct (N.eq_dec off BLOCK) as [->|Hne].
  - rewrite N.mod_same by discriminate. apply write_records_BLOCK.
  - rewrite N.mod_small by lia. reflexivity.
Qed.

(* 1. The writer's only state is the file length modulo BLOCK. *)
Theorem write_log_from_app : forall len0 rs1 rs2,
  write_log_from len0 (rs1 ++ rs2) =
    write_log_from len0 rs1 ++
    write_log_from (len0 + nlen (write_log_from len0 rs1)) rs2.
Proof.
  intros len0 rs1 rs2. unfold write_log_from.
  assert (Hlt : len0 mod BLOCK <= BLOCK).
  { pose proof (N.mod_lt len0 BLOCK). rewrite BLOCK_eq in *. lia. }
  rewrite write_records_app. f_equal.
  rewrite write_records_mod by (apply final_off_le; assumption).
  rewrite <- write_records_len by assumption.
  rewrite N.add_mod_idemp_l by discriminate. reflexivity.
Qed.

Theorem write_log_app : forall rs1 rs2,
  write_log (rs1 ++ rs2) = write_log rs1 ++ write_log_from (nlen (write_log rs1)) rs2.
Proof. intros. unfold write_log. rewrite write_log_from_app. reflexivity. Qed.

(* ------------------------------------------------------------------ *)
(* Helpers for the reader theorems                                    *)
(* ------------------------------------------------------------------ *)

Definition wf_recs (rs : list bytes) : Prop := Forall (fun r => wf_bytes r = true) rs.




Lemma write_log_eq : forall rs, write_log rs = write_records 0 rs.
Proof. reflexivity. Qed.









(* ------------------------------------------------------------------ *)
(* Reader on written logs.  Everything in this Section depends on four *)
(* basic codec facts (proved in BaseProofs.v / Crc32cProofs.v), taken  *)
(* as Section hypotheses; LogFormatClosed.v instantiates them.         *)
(* ------------------------------------------------------------------ *)

Section WithCodecFacts.

Hypothesis crc_unmask_mask : forall c, c < 4294967296 -> crc_unmask (crc_mask c) = c.
Hypothesis crc_extend_bound : forall init data,
  init < 4294967296 -> wf_bytes data = true -> crc_extend init data < 4294967296.
Hypothesis crc_value_cons : forall ty payload,
  ty < 256 -> crc_extend (crc_value [ty]) payload = crc_value (ty :: payload).
Hypothesis de32_le32 : forall x rest,
  x < 4294967296 -> de32 (le32 x ++ rest) = Some x.

(* the header's CRC field verifies *)
Lemma header_crc_ok : forall ty p,
  ty < 256 -> wf_bytes p = true ->
  let x := crc_mask (crc_extend (crc_value [ty]) p) in
  crc_unmask (x mod 256 + 256 * ((x / 256) mod 256) + 65536 * ((x / 65536) mod 256)
              + 16777216 * ((x / 16777216) mod 256)) = crc_value (ty :: p).
Proof.
  intros ty p Hty Hp x.
  pose proof (de32_le32 x [] (crc_mask_lt32 _)) as E.
  unfold le32, de32 in E. cbn [app] in E. injection E as E. rewrite E.
  subst x. rewrite crc_unmask_mask.
  - apply crc_value_cons; assumption.
  - apply crc_extend_bound; [|assumption].
    apply crc_extend_bound; [lia|].
    unfold wf_bytes, is_byte. cbn [forallb].
    destruct (ty <? 256) eqn:E2; [reflexivity|lia].
Qed.

(* parsing one physical record emitted by the writer *)
Lemma parse_phys : forall c e ty p buf,
  is_wtype ty -> wf_bytes p = true ->
  parse c e (phys_record ty p ++ buf) = PRec ty p :: parse c e buf.
Proof.
  intros c e ty p buf Hty Hp.
  apply is_wtype_bounds in Hty. destruct Hty as [Hty Hty0].
  pose proof (header_crc_ok ty p Hty Hp) as Hcrc. cbv zeta in Hcrc.
  unfold phys_record, le32. cbn [app].
  rewrite (parse_cons7 _ _ _ _ _ _ _ _ _ _ (7 + nlen (p ++ buf)) eq_refl).
  cbv zeta.
  replace (nlen p mod 256 + 256 * (nlen p / 256)) with (nlen p) by lia.
  rewrite nlen_app.
  destruct (7 + (nlen p + nlen buf) <? HEADER + nlen p) eqn:E1; [blia|].
  destruct (ty =? T_ZERO) eqn:E2; [unfold T_ZERO in E2; lia|].
  cbn [andb].
  rewrite take_app_exact, drop_app_exact.
  rewrite Hcrc, N.eqb_refl. cbn [negb]. rewrite andb_false_r.
  reflexivity.
Qed.

(* one physical record in the current block *)
Lemma pe_at_phys : forall c off ty p rest,
  is_wtype ty -> wf_bytes p = true -> off + HEADER + nlen p <= BLOCK ->
  pe_at c off (phys_record ty p ++ rest) = PRec ty p :: pe_at c (off + HEADER + nlen p) rest.
Proof.
  intros c off ty p rest Hty Hp Hfit. unfold pe_at.
  pose proof (nlen_phys_record ty p) as Hl.
  rewrite nlen_app, Hl.
  destruct (HEADER + nlen p + nlen rest <? BLOCK - off) eqn:E1.
  - destruct (nlen rest <? BLOCK - (off + HEADER + nlen p)) eqn:E2; [|lia].
    apply parse_phys; assumption.
  - destruct (nlen rest <? BLOCK - (off + HEADER + nlen p)) eqn:E2; [lia|].
    rewrite take_app_ge, drop_app_ge by lia.
    rewrite parse_phys by assumption. rewrite Hl.
    replace (BLOCK - off - (HEADER + nlen p)) with (BLOCK - (off + HEADER + nlen p)) by lia.
    reflexivity.
Qed.

(* Reading back one record *)
Lemma loop_read : forall c fuel off b data scratch X,
  off <= BLOCK -> wf_bytes data = true -> fuel_enough fuel off data ->
  (b = true -> scratch = []) ->
  logical (pe_at c off (fst (add_record_loop fuel off b data) ++ X)) (negb b) scratch =
    Rec (scratch ++ data) ::
    logical (pe_at c (snd (add_record_loop fuel off b data)) X) false [].
Proof.
  intros c. induction fuel as [|f IH]; intros off b data scratch X H Hwf G Hb;
    rewrite add_record_loop_eq.
  - rewrite (fuel_enough_0 _ _ G). cbn [fst snd].
    pose proof (step_end _ _ (fuel_enough_0 _ _ G)) as Hfl.
    pose proof (step_off_le off data H) as Hle.
    rewrite Hfl in *. rewrite take_all by lia.
    rewrite <- app_assoc, pe_at_padof by assumption.
    rewrite pe_at_phys by (try apply frag_type_wtype; assumption).
    destruct b; cbn [frag_type negb].
    + rewrite (Hb eq_refl). apply logical_full.
    + apply logical_last.
  - destruct (nlen data =? flen_of off data) eqn:E; cbn [fst snd].
    + pose proof (step_end _ _ E) as Hfl.
      pose proof (step_off_le off data H) as Hle.
      rewrite Hfl in *. rewrite take_all by lia.
      rewrite <- app_assoc, pe_at_padof by assumption.
      rewrite pe_at_phys by (try apply frag_type_wtype; assumption).
      destruct b; cbn [frag_type negb].
      * rewrite (Hb eq_refl). apply logical_full.
      * apply logical_last.
    + pose proof (step_off_le off data H) as Hle.
      pose proof (step_flen_le off data) as Hfl.
      assert (Ht : nlen (take_n (flen_of off data) data) = flen_of off data).
      { rewrite nlen_take. lia. }
      rewrite <- !app_assoc, pe_at_padof by assumption.
      rewrite pe_at_phys;
        [|apply frag_type_wtype|apply wf_bytes_take; assumption|rewrite Ht; assumption].
      rewrite Ht.
      assert (Hnext : logical
        (PRec (frag_type b false) (take_n (flen_of off data) data)
         :: pe_at c (off1_of off + HEADER + flen_of off data)
              (fst (add_record_loop f (off1_of off + HEADER + flen_of off data) false
                      (drop_n (flen_of off data) data)) ++ X)) (negb b) scratch =
        logical (pe_at c (off1_of off + HEADER + flen_of off data)
              (fst (add_record_loop f (off1_of off + HEADER + flen_of off data) false
                      (drop_n (flen_of off data) data)) ++ X)) (negb false)
              (scratch ++ take_n (flen_of off data) data)).
      { destruct b; cbn [frag_type negb].
        - rewrite (Hb eq_refl). apply logical_first.
        - apply logical_middle. }
      rewrite Hnext. rewrite IH.
      * rewrite <- app_assoc, take_drop. reflexivity.
      * assumption.
      * apply wf_bytes_drop; assumption.
      * apply fuel_enough_next; assumption.
      * discriminate.
Qed.

(* Reading a record that was cut short *)
Lemma loop_read_cut : forall c fuel off b data scratch n,
  off <= BLOCK -> wf_bytes data = true -> fuel_enough fuel off data ->
  (b = true -> scratch = []) ->
  (n < length (fst (add_record_loop fuel off b data)))%nat ->
  logical (pe_at c off (firstn n (fst (add_record_loop fuel off b data)))) (negb b) scratch = [].
Proof.
  intros c. induction fuel as [|f IH]; intros off b data scratch n H Hwf G Hb;
    rewrite add_record_loop_eq.
  - rewrite (fuel_enough_0 _ _ G). cbn [fst]. intros Hn.
    pose proof (step_off_le off data H) as Hle.
    pose proof (step_flen_le off data) as Hfl.
    rewrite <- (app_nil_r (phys_record _ _)). apply cut_step; try assumption.
    rewrite nlen_take. lia.
  - pose proof (step_off_le off data H) as Hle.
    pose proof (step_flen_le off data) as Hfl.
    assert (Ht : nlen (take_n (flen_of off data) data) = flen_of off data).
    { rewrite nlen_take. lia. }
    destruct (nlen data =? flen_of off data) eqn:E; cbn [fst]; intros Hn.
    + rewrite <- (app_nil_r (phys_record _ _)). apply cut_step; try assumption.
      rewrite Ht. assumption.
    + set (hd := pad_of off ++ phys_record (frag_type b false) (take_n (flen_of off data) data)) in *.
      destruct (Nat.lt_ge_cases n (length hd)) as [Hlt|Hge].
      * subst hd. rewrite <- app_assoc. apply cut_step; try assumption.
        rewrite Ht. assumption.
      * rewrite firstn_app, firstn_all2 by assumption.
        rewrite app_length in Hn.
        subst hd. rewrite <- !app_assoc, pe_at_padof by assumption.
        rewrite pe_at_phys;
          [|apply frag_type_wtype|apply wf_bytes_take; assumption|rewrite Ht; assumption].
        rewrite Ht.
        match goal with |- logical (_ :: ?evs) _ _ = _ =>
          assert (Hnext : logical
            (PRec (frag_type b false) (take_n (flen_of off data) data) :: evs) (negb b) scratch =
            logical evs (negb false) (scratch ++ take_n (flen_of off data) data))
        end.
        { destruct b; cbn [frag_type negb].
          - rewrite (Hb eq_refl). apply logical_first.
          - apply logical_middle. }
        rewrite Hnext. apply IH.
        -- assumption.
        -- apply wf_bytes_drop; assumption.
        -- apply fuel_enough_next; assumption.
        -- discriminate.
        -- rewrite app_length in *. lia.
Qed.

Lemma add_record_read : forall c off r X,
  off <= BLOCK -> wf_bytes r = true ->
  logical (pe_at c off (fst (add_record off r) ++ X)) false [] =
    Rec r :: logical (pe_at c (snd (add_record off r)) X) false [].
Proof.
  intros c off r X H Hwf. unfold add_record.
  pose proof (loop_read c (add_record_fuel r) off true r [] X H Hwf
                (add_record_fuel_enough off r) (fun _ => eq_refl)) as L.
  cbn [negb app] in L. exact L.
Qed.

Lemma add_record_read_cut : forall c off r n,
  off <= BLOCK -> wf_bytes r = true -> (n < length (fst (add_record off r)))%nat ->
  logical (pe_at c off (firstn n (fst (add_record off r)))) false [] = [].
Proof.
  intros c off r n H Hwf Hn. unfold add_record in *.
  pose proof (loop_read_cut c (add_record_fuel r) off true r [] n H Hwf
                (add_record_fuel_enough off r) (fun _ => eq_refl) Hn) as L.
  cbn [negb] in L. exact L.
Qed.

Lemma write_records_read : forall c rs off,
  off <= BLOCK -> wf_recs rs ->
  logical (pe_at c off (write_records off rs)) false [] = map Rec rs.
Proof.
  intros c. induction rs as [|r rs IH]; intros off H Hwf.
  - rewrite write_records_nil, pe_at_nil by assumption. reflexivity.
  - inversion Hwf as [|? ? Hr Hrs]; subst.
    rewrite write_records_cons, add_record_read by assumption.
    cbn [map]. f_equal. apply IH; [apply add_record_off_le|]; assumption.
Qed.

(* ------------------------------------------------------------------ *)
(* 2. Round trip                                                      *)
(* ------------------------------------------------------------------ *)

Theorem read_write_roundtrip_events : forall c rs,
  wf_recs rs -> read_log_events c (write_log rs) = map Rec rs.
Proof.
  intros c rs Hwf. unfold read_log_events. rewrite write_log_eq, <- pe_at_0.
  apply write_records_read; [blia|assumption].
Qed.

Theorem read_write_roundtrip : forall rs,
  Forall (fun r => wf_bytes r = true) rs -> read_log (write_log rs) = map Rec rs.
Proof. intros. apply read_write_roundtrip_events. assumption. Qed.

(* a log closed after [rs1] and reopened for append *)
Theorem read_write_roundtrip_reopen : forall rs1 rs2,
  Forall (fun r => wf_bytes r = true) (rs1 ++ rs2) ->
  read_log (write_log rs1 ++ write_log_from (nlen (write_log rs1)) rs2) = map Rec (rs1 ++ rs2).
Proof. intros. rewrite <- write_log_app. apply read_write_roundtrip. assumption. Qed.

(* ------------------------------------------------------------------ *)
(* 3. Reading any byte-prefix of a written log                        *)
(* ------------------------------------------------------------------ *)

Lemma read_cut_gen : forall c rs off n,
  off <= BLOCK -> wf_recs rs -> (n <= length (write_records off rs))%nat ->
  exists k,
    logical (pe_at c off (firstn n (write_records off rs))) false [] = map Rec (firstn k rs) /\
    (length (write_records off (firstn k rs)) <= n)%nat /\
    ((k < length rs)%nat -> (n < length (write_records off (firstn (S k) rs)))%nat).
Proof.
  intros c. induction rs as [|r rs IH]; intros off n H Hwf Hn.
  - exists 0%nat. rewrite write_records_nil in *. cbn [length] in Hn.
    replace n with 0%nat by lia. cbn [firstn map length].
    rewrite write_records_nil, pe_at_nil by assumption.
    repeat split; cbn [length]; lia.
  - inversion Hwf as [|? ? Hr Hrs]; subst.
    rewrite write_records_cons in *. rewrite app_length in Hn.
    set (out := fst (add_record off r)) in *.
    set (off' := snd (add_record off r)) in *.
    assert (Hoff' : off' <= BLOCK) by (apply add_record_off_le; assumption).
    destruct (Nat.lt_ge_cases n (length out)) as [Hlt|Hge].
    + exists 0%nat. cbn [firstn map].
      rewrite firstn_app. replace (n - length out)%nat with 0%nat by lia.
      cbn [firstn]. rewrite app_nil_r.
      subst out. rewrite add_record_read_cut by assumption.
      rewrite ?firstn_cons, ?firstn_O, write_records_cons, !write_records_nil, app_nil_r.
      repeat split; cbn [length]; lia.
    + destruct (IH off' (n - length out)%nat Hoff' Hrs) as (k & Hk1 & Hk2 & Hk3); [lia|].
      exists (S k).
      rewrite firstn_app, firstn_all2 by assumption.
      subst out off'. rewrite add_record_read by assumption.
      rewrite !firstn_cons, !write_records_cons, !app_length. cbn [map length].
      rewrite Hk1. repeat split; [lia|].
      intros Hlen. assert (Hlen' : (k < length rs)%nat) by lia.
      specialize (Hk3 Hlen'). lia.
Qed.

Theorem read_cut_events : forall c rs n,
  wf_recs rs -> (n <= length (write_log rs))%nat ->
  exists k,
    read_log_events c (firstn n (write_log rs)) = map Rec (firstn k rs) /\
    (length (write_log (firstn k rs)) <= n)%nat /\
    ((k < length rs)%nat -> (n < length (write_log (firstn (S k) rs)))%nat).
Proof.
  intros c rs n Hwf Hn. unfold read_log_events.
  rewrite write_log_eq in Hn.
  destruct (read_cut_gen c rs 0 n) as (k & H1 & H2 & H3); [blia|assumption|assumption|].
  exists k. rewrite !write_log_eq. rewrite <- pe_at_0. auto.
Qed.

Theorem read_cut : forall rs n,
  Forall (fun r => wf_bytes r = true) rs -> (n <= length (write_log rs))%nat ->
  exists k,
    read_log (firstn n (write_log rs)) = map Rec (firstn k rs) /\
    (length (write_log (firstn k rs)) <= n)%nat /\
    (k < length rs -> n < length (write_log (firstn (S k) rs)))%nat.
Proof. intros. apply read_cut_events; assumption. Qed.

Corollary read_cut_prefix : forall rs n,
  Forall (fun r => wf_bytes r = true) rs -> (n <= length (write_log rs))%nat ->
  exists k, read_log (firstn n (write_log rs)) = map Rec (firstn k rs).
Proof.
  intros rs n H Hn. destruct (read_cut rs n H Hn) as (k & Hk & _). exists k. exact Hk.
Qed.

End WithCodecFacts.

(* ------------------------------------------------------------------ *)
(* 4. Structural no-invention, for arbitrary files                     *)
(* ------------------------------------------------------------------ *)

Definition payloads_of (evs : list pev) : list bytes :=
  flat_map (fun e => match e with PRec _ p => [p] | _ => [] end) evs.

(* payloads of the physical records of [f] accepted (CRC verified) by the reader *)
Definition verified_payloads (f : bytes) : list bytes :=
  payloads_of (phys_events true f).

Lemma In_payloads_of : forall evs ty p, In (PRec ty p) evs -> In p (payloads_of evs).
Proof.
  intros evs ty p H. unfold payloads_of. apply in_flat_map.
  exists (PRec ty p). split; [assumption|]. left. reflexivity.
Qed.

Lemma not_In_Rec_drop : forall r (b : bool) n,
  In (Rec r) (if b then [Drop n] else []) -> False.
Proof. intros r [|] n H; cbn [In] in H; [destruct H as [H|[]]; discriminate|assumption]. Qed.

Lemma logical_no_invention : forall (P : bytes -> Prop) evs i scratch r,
  (forall ty p, In (PRec ty p) evs -> P p) ->
  (exists fs, scratch = concat fs /\ Forall P fs) ->
  In (Rec r) (logical evs i scratch) ->
  exists frags, r = concat frags /\ Forall P frags.
Proof.
  intros P. induction evs as [|ev evs IH]; intros i scratch r HP Hs Hin;
    cbn [logical] in Hin; [destruct Hin|].
  assert (HP' : forall ty p, In (PRec ty p) evs -> P p).
  { intros ty p H. apply (HP ty p). right. assumption. }
  assert (Hnil : exists fs : list bytes, [] = concat fs /\ Forall P fs).
  { exists []. split; [reflexivity|constructor]. }
  destruct ev as [ty p|rep|]; [| |destruct Hin].
  - assert (Pp : P p) by (apply (HP ty p); left; reflexivity).
    assert (Hone : exists fs : list bytes, p = concat fs /\ Forall P fs).
    { exists [p]. split; [cbn [concat]; rewrite app_nil_r; reflexivity|].
      constructor; [assumption|constructor]. }
    assert (Happ : exists fs : list bytes, scratch ++ p = concat fs /\ Forall P fs).
    { destruct Hs as (fs & -> & Hfs). exists (fs ++ [p]). split.
      - rewrite concat_app. cbn [concat]. rewrite app_nil_r. reflexivity.
      - apply Forall_app. split; [assumption|]. constructor; [assumption|constructor]. }
    destruct (ty =? T_FULL).
    { apply in_app_or in Hin. destruct Hin as [Hin|Hin];
        [exfalso; eapply not_In_Rec_drop; eassumption|].
      destruct Hin as [Hin|Hin]; [injection Hin as <-; assumption|].
      refine (IH _ _ _ HP' _ Hin); assumption. }
    destruct (ty =? T_FIRST).
    { apply in_app_or in Hin. destruct Hin as [Hin|Hin];
        [exfalso; eapply not_In_Rec_drop; eassumption|].
      refine (IH _ _ _ HP' _ Hin); assumption. }
    destruct (ty =? T_MIDDLE).
    { destruct i.
      - refine (IH _ _ _ HP' _ Hin); assumption.
      - destruct Hin as [Hin|Hin]; [discriminate|]. refine (IH _ _ _ HP' _ Hin); assumption. }
    destruct (ty =? T_LAST).
    { destruct i.
      - destruct Hin as [Hin|Hin]; [injection Hin as <-; assumption|].
        refine (IH _ _ _ HP' _ Hin); assumption.
      - destruct Hin as [Hin|Hin]; [discriminate|]. refine (IH _ _ _ HP' _ Hin); assumption. }
    destruct (ty =? 5); [destruct Hin|].
    destruct (ty =? 6).
    { apply in_app_or in Hin. destruct Hin as [Hin|Hin];
        [exfalso; eapply not_In_Rec_drop; eassumption|].
      refine (IH _ _ _ HP' _ Hin); assumption. }
    destruct Hin as [Hin|Hin]; [discriminate|]. refine (IH _ _ _ HP' _ Hin); assumption.
  - apply in_app_or in Hin. destruct Hin as [Hin|Hin].
    { destruct rep; cbn [In] in Hin; [destruct Hin as [Hin|[]]; discriminate|destruct Hin]. }
    apply in_app_or in Hin. destruct Hin as [Hin|Hin];
      [exfalso; eapply not_In_Rec_drop; eassumption|].
    destruct i; refine (IH _ _ _ HP' _ Hin); assumption.
Qed.

(* Every record returned by the reader, on ANY byte string, is a concatenation
   of payloads of physical records that the physical layer accepted. *)
Theorem read_log_no_invention_structural : forall f r,
  In (Rec r) (read_log f) ->
  exists frags, r = concat frags /\ Forall (fun p => In p (verified_payloads f)) frags.
Proof.
  intros f r H. unfold read_log, read_log_events in H.
  eapply logical_no_invention; [| |exact H].
  - intros ty p Hin. unfold verified_payloads. eapply In_payloads_of. eassumption.
  - exists []. split; [reflexivity|constructor].
Qed.

(* ------------------------------------------------------------------ *)
(* 5. A single-bit flip that loses every record without any report     *)
(* ------------------------------------------------------------------ *)

Definition zh_rs : list bytes := [ [] ; [104;101;108;108;111] ; [119;111;114;108;100] ].
Definition zh_f : bytes := write_log zh_rs.
Definition zh_f' : bytes := firstn 6 zh_f ++ [0] ++ skipn 7 zh_f.

Lemma zero_header_reads_nothing : read_log zh_f' = [].
Proof. vm_compute. reflexivity. Qed.

Theorem zero_header_silent_refuted :
  exists rs f',
    Forall (fun r => wf_bytes r = true) rs /\
    length f' = length (write_log rs) /\
    (f' = firstn 6 (write_log rs) ++ [0] ++ skipn 7 (write_log rs) /\
     nth 6 (write_log rs) 0 = 1) /\
    records_of (read_log f') <> rs /\
    drops_of (read_log f') = [].
Proof.
  exists zh_rs, zh_f'. split; [|split; [|split; [split|split]]].
  - repeat constructor.
  - vm_compute. reflexivity.
  - reflexivity.
  - vm_compute. reflexivity.
  - vm_compute. discriminate.
  - vm_compute. reflexivity.
Qed.

(* ------------------------------------------------------------------ *)
(* 4b. What "verified" means: every physical record accepted by the    *)
(* reader (checksum on) is a contiguous header ++ payload substring of *)
(* the file whose stored (masked) CRC matches type ++ payload.         *)
(* ------------------------------------------------------------------ *)

Definition is_verified_substring (f : bytes) (ty : N) (p : bytes) : Prop :=
  exists pre c0 c1 c2 c3 a b post,
    f = pre ++ [c0; c1; c2; c3; a; b; ty] ++ p ++ post /\
    a + 256 * b = nlen p /\
    crc_value (ty :: p) = crc_unmask (c0 + 256 * c1 + 65536 * c2 + 16777216 * c3).

Ltac no_prec H :=
  cbn [In] in H; repeat (destruct H as [H|H]; try discriminate); try contradiction.

Lemma parse_block_verified : forall fuel e buf ty p,
  In (PRec ty p) (parse_block fuel true e buf) -> is_verified_substring buf ty p.
Proof.
  induction fuel as [|f IH]; intros e buf ty p H.
  - rewrite parse_block_0 in H. destruct H.
  - rewrite parse_block_S in H.
    destruct (nlen buf <? HEADER); [destruct e; no_prec H|].
    destruct buf as [|c0 [|c1 [|c2 [|c3 [|a [|b [|ty0 body]]]]]]]; try (destruct H).
    cbv zeta in H.
    destruct (nlen _ <? HEADER + (a + 256 * b)) eqn:E1; [destruct e; no_prec H|].
    destruct ((ty0 =? T_ZERO) && (a + 256 * b =? 0)); [destruct e; no_prec H|].
    destruct (true && negb (_ =? _)) eqn:E3; [destruct e; no_prec H|].
    cbn [andb] in E3.
    destruct H as [H|H].
    + injection H as -> <-.
      exists [], c0, c1, c2, c3, a, b, (drop_n (a + 256 * b) body).
      split; [cbn [app]; rewrite take_drop; reflexivity|].
      rewrite !nlen_cons in E1. split.
      * rewrite nlen_take. blia.
      * destruct (_ =? _) eqn:E4 in E3; [|discriminate]. lia.
    + destruct (IH _ _ _ _ H) as (pre & d0 & d1 & d2 & d3 & a' & b' & post & Hb & Hl & Hc).
      exists (c0 :: c1 :: c2 :: c3 :: a :: b :: ty0 :: take_n (a + 256 * b) body ++ pre),
             d0, d1, d2, d3, a', b', post.
      split; [|split; assumption].
      cbn [app]. do 7 f_equal. rewrite <- app_assoc.
      cbn [app] in Hb. rewrite <- Hb. symmetry. apply take_drop.
Qed.

Lemma split_blocks_sub : forall fuel file blk e,
  In (blk, e) (split_blocks fuel file) -> exists pre post, file = pre ++ blk ++ post.
Proof.
  induction fuel as [|f IH]; intros file blk e H.
  - rewrite split_blocks_0 in H. destruct H.
  - rewrite split_blocks_S in H.
    pose proof (take_drop _ BLOCK file) as Htd.
    remember (take_n BLOCK file) as t eqn:Et.
    remember (drop_n BLOCK file) as d eqn:Ed. clear Et Ed.
    destruct (nlen t <? BLOCK).
    + destruct H as [H|[]]. inversion H; subst.
      exists [], d. reflexivity.
    + destruct H as [H|H].
      * inversion H; subst. exists [], d. reflexivity.
      * destruct (IH _ _ _ H) as (pre & post & E).
        exists (t ++ pre), post.
        rewrite <- app_assoc, <- E. symmetry. assumption.
Qed.

Theorem phys_events_verified : forall f ty p,
  In (PRec ty p) (phys_events true f) -> is_verified_substring f ty p.
Proof.
  intros f ty p H. unfold phys_events in H. apply in_flat_map in H.
  destruct H as ([blk e] & Hblk & Hin). cbn [fst snd] in Hin.
  apply parse_block_verified in Hin.
  apply split_blocks_sub in Hblk. destruct Hblk as (pre & post & ->).
  destruct Hin as (pre' & c0 & c1 & c2 & c3 & a & b & post' & -> & Hl & Hc).
  exists (pre ++ pre'), c0, c1, c2, c3, a, b, (post' ++ post).
  split; [|split; assumption].
  rewrite <- !app_assoc. reflexivity.
Qed.

Theorem verified_payloads_spec : forall f p,
  In p (verified_payloads f) -> exists ty, is_verified_substring f ty p.
Proof.
  intros f p H. unfold verified_payloads, payloads_of in H.
  apply in_flat_map in H. destruct H as (ev & Hev & Hin).
  destruct ev as [ty q| |]; cbn [In] in Hin; try contradiction.
  destruct Hin as [->|[]]. exists ty. apply phys_events_verified. assumption.
Qed.
