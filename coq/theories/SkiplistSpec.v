(* SkiplistSpec.v -- Prop-level vocabulary and theorem STATEMENTS for the skiplist model
   (Skiplist.v).  No proofs here; every [..._statement] is proved in SkiplistProofs.v.

   The statements hold for ANY comparator that is a total order (with a possibly
   non-trivial equivalence [cmp a b = Eq], as lcdb's comparators), ANY sequence of pairwise
   inequivalent keys and ANY heights in 1..12: the skiplist is a sorted list. *)
From LCDB Require Export Skiplist.
Local Open Scope N_scope.

Section Spec.
Variable K : Type.
Variable cmp : K -> K -> comparison.

(* what lcdb requires of a comparator (EngineSpec.total_order, for an arbitrary key type) *)
Record cmp_order : Prop := {
  co_refl    : forall a, cmp a a = Eq;
  co_eq      : forall a b, cmp a b = Eq -> forall c, cmp a c = cmp b c /\ cmp c a = cmp c b;
  co_antisym : forall a b, cmp a b = CompOpp (cmp b a);
  co_trans   : forall a b c, cmp a b = Lt -> cmp b c = Lt -> cmp a c = Lt
}.

(* the sorted-list reference: insertion of k before the first element greater than k
   (the shape of Engine.insert_sorted) *)
Fixpoint insert_key (k : K) (l : list K) : list K :=
  match l with
  | [] => [k]
  | x :: r => match cmp k x with Lt => k :: l | _ => x :: insert_key k r end
  end.
Definition sort_keys (keys : list K) : list K := fold_left (fun acc k => insert_key k acc) keys [].

(* REQUIRES of ldb_skiplist_insert: nothing that compares equal is in the list *)
Fixpoint keys_distinct (keys : list K) : Prop :=
  match keys with
  | [] => True
  | k :: r => Forall (fun x => cmp k x <> Eq) r /\ keys_distinct r
  end.

Definition heights_ok (keys : list K) (hs : list nat) : Prop :=
  length hs = length keys /\ Forall (fun h => (1 <= h <= MAX_HEIGHT)%nat) hs.

(* first key >= k / last key < k in a list *)
Definition ge_key (k x : K) : bool := match cmp x k with Lt => false | _ => true end.
Definition lt_key (k x : K) : bool := match cmp x k with Lt => true | _ => false end.

Definition key_at (sl : skiplist K) (o : option nat) : option K :=
  match o with Some n => node_key sl n | None => None end.

(* level 0 lists exactly the inserted keys, sorted *)
Definition skiplist_contents_statement : Prop :=
  cmp_order -> forall keys hs, keys_distinct keys -> heights_ok keys hs ->
  skiplist_contents (sl_build cmp keys hs) = sort_keys keys.

(* every level is the level below restricted to the taller nodes (hence a sublist of it),
   the nodes have the heights they were given, and max_height is the largest of them *)
Definition skiplist_levels_statement : Prop :=
  cmp_order -> forall keys hs, keys_distinct keys -> heights_ok keys hs ->
  let sl := sl_build cmp keys hs in
  (forall l, (l < MAX_HEIGHT)%nat ->
     level_nodes sl l = filter (fun n => (l <? node_height sl n)%nat) (level_nodes sl 0)) /\
  map (node_height sl) (seq 1 (length keys)) = hs /\
  sl_maxh sl = fold_right Nat.max 1%nat hs.

(* find_greater_or_equal returns the first key >= k of the sorted list *)
Definition skiplist_seek_statement : Prop :=
  cmp_order -> forall keys hs, keys_distinct keys -> heights_ok keys hs ->
  forall k, key_at (sl_build cmp keys hs) (fst (find_ge cmp (sl_build cmp keys hs) k))
            = find (ge_key k) (sort_keys keys).

(* find_less_than returns the last key < k (the head, which has no key, when there is none);
   find_last the last key *)
Definition skiplist_find_lt_statement : Prop :=
  cmp_order -> forall keys hs, keys_distinct keys -> heights_ok keys hs ->
  let sl := sl_build cmp keys hs in
  (forall k, node_key sl (find_lt cmp sl k) = find (lt_key k) (rev (sort_keys keys)) /\
             (find_lt cmp sl k = O <-> find (lt_key k) (rev (sort_keys keys)) = None)) /\
  node_key sl (find_last sl) = hd_error (rev (sort_keys keys)) /\
  (find_last sl = O <-> keys = []).

(* the iterator moves as a position in the sorted list.  [order] = the nodes of level 0;
   position i of [order] carries the i-th sorted key. *)
Definition skiplist_iterator_statement : Prop :=
  cmp_order -> forall keys hs, keys_distinct keys -> heights_ok keys hs ->
  let sl := sl_build cmp keys hs in
  let order := level_nodes sl 0 in
  let sorted := sort_keys keys in
  length order = length sorted /\
  (forall i n, nth_error order i = Some n -> n <> O /\ node_key sl n = nth_error sorted i) /\
  it_first sl = nth_error order 0 /\
  it_last sl = nth_error order (length order - 1) /\
  (forall i n, nth_error order i = Some n -> it_next sl n = nth_error order (S i)) /\
  (forall i n, nth_error order i = Some n ->
     it_prev cmp sl n = match i with O => None | S j => nth_error order j end) /\
  (forall k, exists i, it_seek cmp sl k = nth_error order i /\
     (forall j x, (j < i)%nat -> nth_error sorted j = Some x -> cmp x k = Lt) /\
     (forall x, nth_error sorted i = Some x -> cmp x k <> Lt)).

End Spec.

Arguments cmp_order {K}.
Arguments insert_key {K}.
Arguments sort_keys {K}.
Arguments keys_distinct {K}.
Arguments heights_ok {K}.
Arguments ge_key {K}.
Arguments lt_key {K}.
Arguments key_at {K}.
