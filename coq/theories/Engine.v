(* Engine.v -- L2 model of lcdb's storage engine (db_impl.c, version_set.c,
   memtable.c as a sorted list, builder.c, snapshot.h) over abstract entries.

   A table file is its sorted list of entries (justified by the table codec
   theorems, C16); the memtable skiplist is a sorted list with insertion.
   The read path [get] is an exact replica of ldb_get -> ldb_memtable_get ->
   ldb_version_get.  Structural steps (flush, compaction, trivial move, reopen)
   carry INPUT-side guards only; what they produce is computed by the replica
   of lcdb's algorithm (drop rules (A)/(B), output placement).  Which inputs
   are chosen, when, and where outputs are cut are free parameters (they
   depend on sizes, scores and seek counters that the model leaves open).

   Definitions only; proofs are in EngineProofs*.v. *)
From LCDB Require Export Base.
Local Open Scope N_scope.

Record entry := mkE { ek : bytes; es : N; et : bool; ev : bytes }.
(* et = true: value (LDB_TYPE_VALUE), false: deletion *)

Inductive lookup := Found (v : bytes) | Deleted | NotHere.

Record file := mkF { fnum : N; fents : list entry }.

Record state := mkS {
  mem : list entry;                (* sorted by internal key *)
  imm : option (list entry);
  levels : list (list file);       (* 7 levels *)
  last_seq : N;
  snaps : list N;                  (* live snapshot sequences, oldest first *)
  next_file : N;
  hist : list entry                (* ghost: every entry ever written, newest first *)
}.

Definition NUM_LEVELS : nat := 7.
Definition MAX_MEM_COMPACT_LEVEL : nat := 2.

Section WithComparator.
(* the user comparator (bytewise, reverse, custom); a total order in the proofs *)
Variable ucmp : bytes -> bytes -> comparison.

Definition ueq (a b : bytes) : bool := match ucmp a b with Eq => true | _ => false end.
Definition ult (a b : bytes) : bool := match ucmp a b with Lt => true | _ => false end.
Definition ule (a b : bytes) : bool := match ucmp a b with Gt => false | _ => true end.

(* internal key order: user key ascending, sequence descending *)
Definition icmp (a b : entry) : comparison :=
  match ucmp (ek a) (ek b) with
  | Eq => N.compare (es b) (es a)
  | c => c
  end.
Definition ilt (a b : entry) : bool := match icmp a b with Lt => true | _ => false end.

(* entry >= lookup target (k, q): first position a seek for (k, q, SEEK) lands on *)
Definition ge_target (k : bytes) (q : N) (e : entry) : bool :=
  match ucmp (ek e) k with
  | Lt => false
  | Gt => true
  | Eq => es e <=? q
  end.

(* ---------------------------------------------------------------- read path *)
(* seek in a sorted run, then the user-key test of save_value / ldb_memtable_get *)
Definition seek_ge (l : list entry) (k : bytes) (q : N) : option entry :=
  find (ge_target k q) l.

Definition result_of_entry (e : entry) : lookup := if et e then Found (ev e) else Deleted.

Definition get_in_run (l : list entry) (k : bytes) (q : N) : lookup :=
  match seek_ge l k q with
  | Some e => if ueq (ek e) k then result_of_entry e else NotHere
  | None => NotHere
  end.

(* file metadata derived from content *)
Definition fsmallest (f : file) : option entry := hd_error (fents f).
Definition flargest (f : file) : option entry :=
  match fents f with [] => None | e :: r => Some (last r e) end.

(* user key within [smallest.user_key, largest.user_key] (level-0 candidate test) *)
Definition in_user_range (f : file) (k : bytes) : bool :=
  match fsmallest f, flargest f with
  | Some a, Some b => ule (ek a) k && ule k (ek b)
  | _, _ => false
  end.

(* newest_first: sort by file number descending (insertion sort) *)
Fixpoint insert_newest (f : file) (l : list file) : list file :=
  match l with
  | [] => [f]
  | g :: r => if fnum g <? fnum f then f :: l else g :: insert_newest f r
  end.
Definition sort_newest (l : list file) : list file := fold_right insert_newest [] l.

Fixpoint search_files (fs : list file) (k : bytes) (q : N) : lookup :=
  match fs with
  | [] => NotHere
  | f :: r =>
      match get_in_run (fents f) k q with
      | NotHere => search_files r k q
      | x => x
      end
  end.

(* find_file: first file whose largest key >= target (binary search in C) *)
Definition largest_ge_target (k : bytes) (q : N) (f : file) : bool :=
  match flargest f with Some e => ge_target k q e | None => false end.

Definition level_get (fs : list file) (k : bytes) (q : N) : lookup :=
  match find (largest_ge_target k q) fs with
  | None => NotHere
  | Some f =>
      match fsmallest f with
      | Some a => if ult k (ek a) then NotHere else get_in_run (fents f) k q
      | None => NotHere
      end
  end.

Fixpoint deeper_get (lvls : list (list file)) (k : bytes) (q : N) : lookup :=
  match lvls with
  | [] => NotHere
  | fs :: r =>
      match level_get fs k q with
      | NotHere => deeper_get r k q
      | x => x
      end
  end.

Definition version_get (lvls : list (list file)) (k : bytes) (q : N) : lookup :=
  match lvls with
  | [] => NotHere
  | l0 :: deeper =>
      match search_files (sort_newest (filter (fun f => in_user_range f k) l0)) k q with
      | NotHere => deeper_get deeper k q
      | x => x
      end
  end.

Definition imm_run (s : state) : list entry :=
  match imm s with Some im => im | None => [] end.

Definition get (s : state) (k : bytes) (q : N) : lookup :=
  match get_in_run (mem s) k q with
  | NotHere =>
      match get_in_run (imm_run s) k q with
      | NotHere => version_get (levels s) k q
      | x => x
      end
  | x => x
  end.

(* what the API returns: value or not-found *)
Definition visible (r : lookup) : option bytes :=
  match r with Found v => Some v | _ => None end.

(* ---------------------------------------------------------------- specification side *)
(* newest entry for user key k with sequence <= q in an arbitrary collection *)
Definition matches (k : bytes) (q : N) (e : entry) : bool := ueq (ek e) k && (es e <=? q).

Definition newer (e : entry) (acc : option entry) : option entry :=
  match acc with
  | None => Some e
  | Some a => if es a <? es e then Some e else acc
  end.

Definition best (l : list entry) (k : bytes) (q : N) : option entry :=
  fold_right (fun e acc => if matches k q e then newer e acc else acc) None l.

Definition result_of (o : option entry) : lookup :=
  match o with Some e => result_of_entry e | None => NotHere end.

Definition level_entries (fs : list file) : list entry := concat (map fents fs).

Definition all_entries (s : state) : list entry :=
  mem s ++ imm_run s ++ concat (map level_entries (levels s)).

(* the sorted-map specification of a read at sequence q *)
Definition spec_get (s : state) (k : bytes) (q : N) : option bytes :=
  visible (result_of (best (hist s) k q)).

(* ---------------------------------------------------------------- sorted runs *)
Fixpoint insert_sorted (e : entry) (l : list entry) : list entry :=
  match l with
  | [] => [e]
  | x :: r => if ilt e x then e :: l else x :: insert_sorted e r
  end.

Definition sort_entries (l : list entry) : list entry := fold_right insert_sorted [] l.

Fixpoint sorted_run (l : list entry) : bool :=
  match l with
  | [] => true
  | x :: r => (match r with [] => true | y :: _ => ilt x y end) && sorted_run r
  end.

(* ---------------------------------------------------------------- writes *)
Inductive wop := WPut (k v : bytes) | WDel (k : bytes).

Fixpoint batch_entries (seq : N) (b : list wop) : list entry :=
  match b with
  | [] => []
  | WPut k v :: r => mkE k seq true v :: batch_entries (seq + 1) r
  | WDel k :: r => mkE k seq false [] :: batch_entries (seq + 1) r
  end.

Definition do_write (s : state) (b : list wop) : state :=
  let es' := batch_entries (last_seq s + 1) b in
  mkS (fold_left (fun m e => insert_sorted e m) es' (mem s)) (imm s) (levels s)
      (last_seq s + nlen b) (snaps s) (next_file s) (rev es' ++ hist s).

(* memtable switch in ldb_make_room_for_write: needs imm == NULL *)
Definition do_switch (s : state) : option state :=
  match imm s with
  | Some _ => None
  | None => Some (mkS [] (Some (mem s)) (levels s) (last_seq s) (snaps s) (next_file s) (hist s))
  end.

(* ---------------------------------------------------------------- version editing *)
Definition level_files (lvls : list (list file)) (L : nat) : list file := nth L lvls [].

Fixpoint set_level (lvls : list (list file)) (L : nat) (fs : list file) : list (list file) :=
  match lvls, L with
  | [], _ => []
  | _ :: r, O => fs :: r
  | x :: r, S L' => x :: set_level r L' fs
  end.

Definition has_num (nums : list N) (f : file) : bool := existsb (N.eqb (fnum f)) nums.

Definition remove_files (fs : list file) (nums : list N) : list file :=
  filter (fun f => negb (has_num nums f)) fs.
Definition select_files (fs : list file) (nums : list N) : list file :=
  filter (has_num nums) fs.

(* builder_save_to: files of a level kept ordered by smallest key *)
Definition file_before (a b : file) : bool :=
  match fsmallest a, fsmallest b with
  | Some x, Some y => ilt x y
  | _, _ => false
  end.
Fixpoint insert_file (f : file) (l : list file) : list file :=
  match l with
  | [] => [f]
  | g :: r => if file_before f g then f :: l else g :: insert_file f r
  end.
Definition add_files (fs : list file) (news : list file) : list file :=
  fold_left (fun acc f => insert_file f acc) news fs.

(* user-key range overlap (some_file_overlaps_range with both bounds given) *)
Definition overlaps_user (lo hi : bytes) (f : file) : bool :=
  match fsmallest f, flargest f with
  | Some a, Some b => negb (ult (ek b) lo) && negb (ult hi (ek a))
  | _, _ => false
  end.

(* ---------------------------------------------------------------- flush *)
(* guard of ldb_version_pick_level_for_memtable_output: level 0, or no overlap
   with level 0 and with levels 1..lvl, lvl <= MAX_MEM_COMPACT_LEVEL
   (the grandparent-bytes heuristic may only stop earlier) *)
Fixpoint no_overlap_upto (lvls : list (list file)) (lo hi : bytes) (n : nat) : bool :=
  match n, lvls with
  | O, fs :: _ => negb (existsb (overlaps_user lo hi) fs)
  | S n', fs :: r => negb (existsb (overlaps_user lo hi) fs) && no_overlap_upto r lo hi n'
  | _, [] => true
  end.

Definition flush_level_ok (lvls : list (list file)) (run : list entry) (lvl : nat) : bool :=
  match run with
  | [] => true
  | e0 :: r =>
      let lo := ek e0 in let hi := ek (last r e0) in
      (lvl =? 0)%nat || ((lvl <=? MAX_MEM_COMPACT_LEVEL)%nat && no_overlap_upto lvls lo hi lvl)
  end.

Definition fresh_num (s : state) (n : N) : bool := next_file s <=? n.

(* ldb_compact_memtable: imm -> one table at level lvl (no file if imm is empty) *)
Definition do_flush (s : state) (lvl : nat) (num nf : N) : option state :=
  match imm s with
  | None => None
  | Some im =>
      if fresh_num s num && (num <? nf) && flush_level_ok (levels s) im lvl && (lvl <? NUM_LEVELS)%nat then
        let lv' := match im with
                   | [] => levels s
                   | _ => set_level (levels s) lvl (insert_file (mkF num im) (level_files (levels s) lvl))
                   end in
        Some (mkS (mem s) None lv' (last_seq s) (snaps s) nf (hist s))
      else None
  end.

(* ---------------------------------------------------------------- compaction *)
Definition smallest_snapshot (s : state) : N :=
  match snaps s with
  | [] => last_seq s
  | q :: _ => q                   (* ldb_snaplist_oldest *)
  end.

(* ldb_compaction_is_base_level_for_key: no file in levels >= L+2 whose user range contains k *)
Definition is_base_level (lvls : list (list file)) (L : nat) (k : bytes) : bool :=
  negb (existsb (fun fs => existsb (fun f => in_user_range f k) fs) (skipn (L + 2) lvls)).

(* the drop loop of ldb_do_compaction_work over the merged input *)
Fixpoint compact_entries (snap : N) (base : bytes -> bool) (prev : option (bytes * N))
                         (l : list entry) : list entry :=
  match l with
  | [] => []
  | e :: r =>
      let hidden := match prev with
                    | Some (k, s) => ueq (ek e) k && (s <=? snap)        (* rule (A) *)
                    | None => false
                    end in
      let drop := hidden || (negb (et e) && (es e <=? snap) && base (ek e)) in   (* rule (B) *)
      (if drop then [] else [e]) ++ compact_entries snap base (Some (ek e, es e)) r
  end.

Fixpoint split_at (cuts : list nat) (l : list entry) : list (list entry) :=
  match cuts with
  | [] => match l with [] => [] | _ => [l] end
  | c :: cs => match l with
               | [] => []
               | _ => firstn c l :: split_at cs (skipn c l)
               end
  end.

Fixpoint zip_files (nums : list N) (runs : list (list entry)) : option (list file) :=
  match nums, runs with
  | [], [] => Some []
  | n :: ns, r :: rs => match zip_files ns rs with Some fs => Some (mkF n r :: fs) | None => None end
  | _, _ => None
  end.

(* every entry of user key k in [outside] is newer than every entry of k in [moving] *)
Definition newer_outside (outside moving : list entry) : bool :=
  forallb (fun o => forallb (fun m => negb (ueq (ek o) (ek m)) || (es m <? es o)) moving) outside.

(* a file lies entirely before or after the merged run in internal-key order *)
Definition file_disjoint_from (merged : list entry) (f : file) : bool :=
  match merged, fsmallest f, flargest f with
  | m0 :: mr, Some a, Some b => ilt b m0 || ilt (last mr m0) a
  | [], _, _ => true
  | _, _, _ => false
  end.

Fixpoint strictly_increasing (l : list N) : bool :=
  match l with
  | [] => true
  | x :: r => (match r with [] => true | y :: _ => x <? y end) && strictly_increasing r
  end.

Definition all_in (nums : list N) (fs : list file) : bool :=
  forallb (fun n => existsb (fun f => fnum f =? n) fs) nums.

Record compaction := mkC {
  c_level : nat;
  c_in0 : list N;          (* file numbers chosen in level L  *)
  c_in1 : list N;          (* file numbers chosen in level L+1 *)
  c_cuts : list nat;       (* entry counts of the outputs but the last *)
  c_outs : list N;         (* numbers of the output files *)
  c_nf : N                 (* next_file afterwards *)
}.

Definition compaction_inputs (s : state) (c : compaction) : list file * list file :=
  (select_files (level_files (levels s) (c_level c)) (c_in0 c),
   select_files (level_files (levels s) (S (c_level c))) (c_in1 c)).

Definition compaction_merged (s : state) (c : compaction) : list entry :=
  let '(i0, i1) := compaction_inputs s c in
  sort_entries (level_entries i0 ++ level_entries i1).

Definition compaction_kept (s : state) (c : compaction) : list entry :=
  compact_entries (smallest_snapshot s) (is_base_level (levels s) (c_level c)) None
                  (compaction_merged s c).

(* input-side guards *)
Definition compaction_guard (s : state) (c : compaction) : bool :=
  let L := c_level c in
  let lv := levels s in
  let '(i0, i1) := compaction_inputs s c in
  let merged := compaction_merged s c in
  (S L <? NUM_LEVELS)%nat
  && negb (match c_in0 c with [] => true | _ => false end)
  && all_in (c_in0 c) (level_files lv L) && all_in (c_in1 c) (level_files lv (S L))
  (* closure of the level-L selection: what stays behind is newer (level-0 overlap
     closure / add_boundary_inputs) *)
  && newer_outside (level_entries (remove_files (level_files lv L) (c_in0 c))) (level_entries i0)
  (* completeness of the level-(L+1) selection *)
  && forallb (file_disjoint_from merged) (remove_files (level_files lv (S L)) (c_in1 c))
  && newer_outside (level_entries (remove_files (level_files lv (S L)) (c_in1 c))) merged
  (* fresh output numbers *)
  && forallb (fresh_num s) (c_outs c) && strictly_increasing (c_outs c)
  && forallb (fun n => n <? c_nf c) (c_outs c) && (next_file s <=? c_nf c)
  (* an output file is only opened when there is an entry to put into it *)
  && forallb (fun n => (0 <? n)%nat) (c_cuts c).

Definition do_compact (s : state) (c : compaction) : option state :=
  if compaction_guard s c then
    let L := c_level c in
    let runs := split_at (c_cuts c) (compaction_kept s c) in
    match zip_files (c_outs c) runs with
    | None => None
    | Some outs =>
        let lv1 := set_level (levels s) L (remove_files (level_files (levels s) L) (c_in0 c)) in
        let lv2 := set_level lv1 (S L)
                     (add_files (remove_files (level_files (levels s) (S L)) (c_in1 c)) outs) in
        Some (mkS (mem s) (imm s) lv2 (last_seq s) (snaps s) (c_nf c) (hist s))
    end
  else None.

(* trivial move: one file of level L re-registered at level L+1 *)
Definition move_guard (s : state) (L : nat) (n : N) : bool :=
  let lv := levels s in
  let i0 := select_files (level_files lv L) [n] in
  (S L <? NUM_LEVELS)%nat
  && all_in [n] (level_files lv L)
  && newer_outside (level_entries (remove_files (level_files lv L) [n])) (level_entries i0)
  && forallb (file_disjoint_from (level_entries i0)) (level_files lv (S L))
  && newer_outside (level_entries (level_files lv (S L))) (level_entries i0).

Definition do_move (s : state) (L : nat) (n : N) : option state :=
  if move_guard s L n then
    let lv := levels s in
    let i0 := select_files (level_files lv L) [n] in
    let lv1 := set_level lv L (remove_files (level_files lv L) [n]) in
    let lv2 := set_level lv1 (S L) (add_files (level_files lv (S L)) i0) in
    Some (mkS (mem s) (imm s) lv2 (last_seq s) (snaps s) (next_file s) (hist s))
  else None.

(* ---------------------------------------------------------------- snapshots *)
Definition do_snapshot (s : state) : state :=
  mkS (mem s) (imm s) (levels s) (last_seq s) (snaps s ++ [last_seq s]) (next_file s) (hist s).

Fixpoint remove_first (q : N) (l : list N) : option (list N) :=
  match l with
  | [] => None
  | x :: r => if x =? q then Some r
              else match remove_first q r with Some r' => Some (x :: r') | None => None end
  end.

Definition do_release (s : state) (q : N) : option state :=
  match remove_first q (snaps s) with
  | None => None
  | Some sn => Some (mkS (mem s) (imm s) (levels s) (last_seq s) sn (next_file s) (hist s))
  end.

(* ---------------------------------------------------------------- close + reopen *)
(* ldb_recover: the unflushed entries (imm, mem) are replayed from the logs in
   sequence order into a fresh memtable, which is written to a NEW LEVEL-0 table
   whenever it exceeds the write buffer, and at the end unless the log is reused.
   [bounds] are the last sequence numbers of the chunks that became tables (ascending),
   [nums] their file numbers; entries above the last bound stay in the memtable. *)
Definition pending_entries (s : state) : list entry :=
  match imm s with
  | Some im => fold_right insert_sorted (mem s) im
  | None => mem s
  end.

Definition chunk (lo hi : N) (l : list entry) : list entry :=
  filter (fun e => (lo <? es e) && (es e <=? hi)) l.

Fixpoint reopen_files (lo : N) (bounds nums : list N) (pend : list entry) : option (list file * N) :=
  match bounds, nums with
  | [], [] => Some ([], lo)
  | b :: bs, n :: ns =>
      if lo <? b then
        match reopen_files b bs ns pend with
        | Some (fs, top) => Some (mkF n (chunk lo b pend) :: fs, top)
        | None => None
        end
      else None
  | _, _ => None
  end.

Definition min_seq_or (d : N) (l : list entry) : N := fold_right (fun e m => N.min (es e) m) d l.

Definition do_reopen (s : state) (bounds nums : list N) (nf : N) : option state :=
  let pend := pending_entries s in
  (* The file-number counter restarts from what the MANIFEST recorded, which can be BELOW the
     in-memory counter of the previous incarnation (numbers handed out after the last edit,
     e.g. for the current log, were never recorded).  What recovery does guarantee -- and what
     the level-0 recency order needs -- is that new tables are numbered above every existing
     table (each table's creation was followed by an edit recording a larger next_file). *)
  if forallb (fun n => forallb (fun f => fnum f <? n) (concat (levels s))) nums
     && strictly_increasing nums && forallb (fun n => n <? nf) nums
     && forallb (fun f => fnum f <? nf) (concat (levels s))
     && forallb (fun b => b <=? last_seq s) bounds
  then
    match reopen_files 0 bounds nums pend with
    | None => None
    | Some (fs, top) =>
        (* every chunk below [top] is non-empty by construction of the C code; empty
           chunks produce no file (meta.file_size == 0) *)
        let fs' := filter (fun f => match fents f with [] => false | _ => true end) fs in
        let rest := filter (fun e => top <? es e) pend in
        Some (mkS rest None (set_level (levels s) 0 (add_files (level_files (levels s) 0) fs'))
                  (last_seq s) [] nf (hist s))
    end
  else None.

(* ---------------------------------------------------------------- operations and runs *)
Inductive op :=
| OWrite (b : list wop)
| OSwitch
| OFlush (lvl : nat) (num nf : N)
| OCompact (c : compaction)
| OMove (L : nat) (n : N)
| OSnapshot
| ORelease (q : N)
| OReopen (bounds nums : list N) (nf : N).

Definition step (s : state) (o : op) : option state :=
  match o with
  | OWrite b => Some (do_write s b)
  | OSwitch => do_switch s
  | OFlush lvl num nf => do_flush s lvl num nf
  | OCompact c => do_compact s c
  | OMove L n => do_move s L n
  | OSnapshot => Some (do_snapshot s)
  | ORelease q => do_release s q
  | OReopen bounds nums nf => do_reopen s bounds nums nf
  end.

Fixpoint run (s : state) (ops : list op) : option state :=
  match ops with
  | [] => Some s
  | o :: r => match step s o with Some s' => run s' r | None => None end
  end.

Definition init_state : state :=
  mkS [] None (repeat [] NUM_LEVELS) 0 [] 2 [].

(* ---------------------------------------------------------------- invariant (boolean, executable) *)
Definition file_ok (f : file) : bool :=
  negb (match fents f with [] => true | _ => false end) && sorted_run (fents f).

(* levels >= 1: files ordered and disjoint in internal-key order *)
Fixpoint level_sorted (fs : list file) : bool :=
  match fs with
  | [] => true
  | f :: r =>
      (match r with
       | [] => true
       | g :: _ => match flargest f, fsmallest g with Some a, Some b => ilt a b | _, _ => false end
       end) && level_sorted r
  end.

(* places in search order; an entry of a user key in an earlier place is newer *)
Definition places (s : state) : list (list entry) :=
  mem s :: imm_run s
        :: map fents (sort_newest (level_files (levels s) 0))
        ++ map level_entries (skipn 1 (levels s)).

Fixpoint recency (ps : list (list entry)) : bool :=
  match ps with
  | [] => true
  | p :: r => forallb (fun p' => newer_outside p p') r && recency r
  end.

Definition nodup_nums (fs : list file) : bool :=
  let fix go (l : list file) :=
    match l with
    | [] => true
    | f :: r => negb (existsb (fun g => fnum g =? fnum f) r) && go r
    end in go fs.

Fixpoint sorted_le (l : list N) : bool :=
  match l with
  | [] => true
  | x :: r => (match r with [] => true | y :: _ => x <=? y end) && sorted_le r
  end.

Definition inv_b (s : state) : bool :=
  (length (levels s) =? NUM_LEVELS)%nat
  && sorted_run (mem s)
  && (match imm s with Some im => sorted_run im | None => true end)
  && forallb (forallb file_ok) (levels s)
  && forallb level_sorted (skipn 1 (levels s))
  && recency (places s)
  && forallb (fun e => es e <=? last_seq s) (all_entries s)
  && forallb (fun f => fnum f <? next_file s) (concat (levels s))
  && nodup_nums (concat (levels s))
  && forallb (fun q => q <=? last_seq s) (snaps s)
  && sorted_le (snaps s).

(* views compared at one sequence for a given key list (run-time check used by K2
   when an observed step is not an instance of [op]) *)
Definition same_view (a b : state) (keys : list bytes) (q : N) : bool :=
  forallb (fun k => match visible (get a k q), visible (get b k q) with
                    | Some x, Some y => bytes_eqb x y
                    | None, None => true
                    | _, _ => false
                    end) keys.

(* the full sorted live view at sequence q (what a DB iterator yields) *)
Fixpoint live_of_sorted (q : N) (prev : option bytes) (l : list entry) : list (bytes * bytes) :=
  match l with
  | [] => []
  | e :: r =>
      if es e <=? q then
        let same := match prev with Some k => ueq (ek e) k | None => false end in
        if same then live_of_sorted q prev r
        else (if et e then [(ek e, ev e)] else []) ++ live_of_sorted q (Some (ek e)) r
      else live_of_sorted q prev r
  end.

Definition live_view (s : state) (q : N) : list (bytes * bytes) :=
  live_of_sorted q None (sort_entries (all_entries s)).

End WithComparator.
