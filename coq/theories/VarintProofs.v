(* VarintProofs.v -- proofs about Varint.v: varint32/64 write/read round trips,
   sizes, well-formedness, reader consumption, length-prefixed slices. *)
From LCDB Require Import Base Varint BaseProofs.
From Coq Require Import Lia ZifyBool ZifyNat ZifyN.
Local Open Scope N_scope.

Ltac Zify.zify_post_hook ::= Z.div_mod_to_equations.

#[local] Arguments N.mul : simpl never.
#[local] Arguments N.add : simpl never.
#[local] Arguments N.div : simpl never.
#[local] Arguments N.modulo : simpl never.
#[local] Arguments N.ltb : simpl never.
#[local] Arguments N.leb : simpl never.
#[local] Arguments N.pow : simpl never.

Lemma two32_pow : two32 = 2 ^ 32.
Proof. reflexivity. Qed.
Lemma two64_pow : two64 = 2 ^ 64.
Proof. reflexivity. Qed.

(* 128^k with a nat exponent: convenient for fuel inductions. *)
Fixpoint pow128 (k : nat) : N :=
  match k with O => 1 | S k' => 128 * pow128 k' end.

Lemma pow128_pos : forall k, 0 < pow128 k.
Proof. induction k as [|k IH]; cbn [pow128]; lia. Qed.

Lemma pow128_5 : pow128 5 = 34359738368.
Proof. reflexivity. Qed.
Lemma pow128_10 : pow128 10 = 1180591620717411303424.
Proof. reflexivity. Qed.

(* resolve a boolean comparison by lia *)
Ltac ltb_true e c :=
  replace (e <? c) with true by (symmetry; apply N.ltb_lt; lia).
Ltac ltb_false e c :=
  replace (e <? c) with false by (symmetry; apply N.ltb_ge; lia).
Ltac leb_true e c :=
  replace (e <=? c) with true by (symmetry; apply N.leb_le; lia).
Ltac leb_false e c :=
  replace (e <=? c) with false by (symmetry; apply N.leb_gt; lia).

(* list equality, elementwise by lia *)
Ltac list_eq_lia :=
  repeat (apply (f_equal2 (@cons N)); [lia|]); try reflexivity.

Lemma nlen_cons : forall (A : Type) (a : A) l, nlen (a :: l) = 1 + nlen l.
Proof. intros A a l. unfold nlen. cbn [length]. lia. Qed.

Lemma nlen_nil : forall (A : Type), nlen (@nil A) = 0.
Proof. reflexivity. Qed.

Lemma nlen_app : forall (A : Type) (a b : list A), nlen (a ++ b) = nlen a + nlen b.
Proof. intros A a b. unfold nlen. rewrite app_length. lia. Qed.

(* ------------------------------------------------------------------ *)
(* Writers                                                             *)
(* ------------------------------------------------------------------ *)

(* Extra fuel does not change the output once fuel is sufficient. *)
Lemma varint_write_fuel_mono : forall f f' x,
  x < pow128 (S f) -> (f <= f')%nat ->
  varint_write_fuel f x = varint_write_fuel f' x.
Proof.
  induction f as [|f IH]; intros f' x Hx Hle.
  - cbn [pow128] in Hx.
    destruct f' as [|f']; [reflexivity|].
    cbn [varint_write_fuel]. ltb_true x 128.
    f_equal. apply N.mod_small. lia.
  - destruct f' as [|f']; [lia|].
    cbn [varint_write_fuel].
    destruct (x <? 128) eqn:Hlt; [reflexivity|].
    f_equal. apply IH; [|lia].
    change (pow128 (S (S f))) with (128 * pow128 (S f)) in Hx.
    remember (pow128 (S f)) as p. lia.
Qed.

Lemma varint32_write_fuel4 : forall x,
  x < 4294967296 -> varint32_write x = varint_write_fuel 4 x.
Proof.
  intros x Hx. unfold varint32_write. cbn [varint_write_fuel].
  destruct (x <? 128) eqn:H1; [reflexivity|].
  apply N.ltb_ge in H1.
  destruct (x <? 16384) eqn:H2.
  { apply N.ltb_lt in H2. ltb_true (x / 128) 128. list_eq_lia. }
  apply N.ltb_ge in H2. ltb_false (x / 128) 128.
  destruct (x <? 2097152) eqn:H3.
  { apply N.ltb_lt in H3. ltb_true (x / 128 / 128) 128. list_eq_lia. }
  apply N.ltb_ge in H3. ltb_false (x / 128 / 128) 128.
  destruct (x <? 268435456) eqn:H4.
  { apply N.ltb_lt in H4. ltb_true (x / 128 / 128 / 128) 128. list_eq_lia. }
  apply N.ltb_ge in H4. ltb_false (x / 128 / 128 / 128) 128.
  list_eq_lia.
Qed.

Lemma varint32_write_eq_varint64 : forall x,
  x < 4294967296 -> varint32_write x = varint64_write x.
Proof.
  intros x Hx. rewrite varint32_write_fuel4 by exact Hx.
  unfold varint64_write. apply varint_write_fuel_mono; [|lia].
  rewrite pow128_5. lia.
Qed.

(* ---- lengths / sizes ---- *)
Lemma varint32_write_length_gen : forall x,
  nlen (varint32_write x) = varint32_size x.
Proof.
  intros x. unfold varint32_write, varint32_size.
  destruct (x <? 128); [reflexivity|].
  destruct (x <? 16384); [reflexivity|].
  destruct (x <? 2097152); [reflexivity|].
  destruct (x <? 268435456); reflexivity.
Qed.

Lemma varint32_size_bound : forall x, 1 <= varint32_size x <= 5.
Proof.
  intros x. unfold varint32_size.
  destruct (x <? 128); [lia|].
  destruct (x <? 16384); [lia|].
  destruct (x <? 2097152); [lia|].
  destruct (x <? 268435456); lia.
Qed.

Lemma varint32_write_length : forall x,
  x < 4294967296 -> nlen (varint32_write x) = varint32_size x.
Proof. intros x _. apply varint32_write_length_gen. Qed.

Lemma varint32_write_length_le : forall x,
  x < 4294967296 -> 1 <= nlen (varint32_write x) <= 5.
Proof. intros x _. rewrite varint32_write_length_gen. apply varint32_size_bound. Qed.

Lemma varint_write_fuel_length : forall f x,
  nlen (varint_write_fuel f x) = varint64_size_fuel f x.
Proof.
  induction f as [|f IH]; intros x; cbn [varint_write_fuel varint64_size_fuel].
  - reflexivity.
  - destruct (x <? 128); [reflexivity|].
    rewrite nlen_cons, IH. reflexivity.
Qed.

Lemma varint64_size_fuel_bound : forall f x,
  1 <= varint64_size_fuel f x <= N.of_nat (S f).
Proof.
  induction f as [|f IH]; intros x; cbn [varint64_size_fuel].
  - lia.
  - destruct (x <? 128); [lia|]. specialize (IH (x / 128)). lia.
Qed.

Lemma varint64_write_length_gen : forall x,
  nlen (varint64_write x) = varint64_size x.
Proof. intros x. apply varint_write_fuel_length. Qed.

Lemma varint64_write_length : forall x,
  x < 18446744073709551616 -> nlen (varint64_write x) = varint64_size x.
Proof. intros x _. apply varint64_write_length_gen. Qed.

Lemma varint64_write_fuel9 : forall x,
  x < 18446744073709551616 -> varint64_write x = varint_write_fuel 9 x.
Proof.
  intros x Hx. unfold varint64_write. symmetry.
  apply varint_write_fuel_mono; [|lia]. rewrite pow128_10. lia.
Qed.

Lemma varint64_write_length_le : forall x,
  x < 18446744073709551616 -> 1 <= nlen (varint64_write x) <= 10.
Proof.
  intros x Hx. rewrite varint64_write_fuel9 by exact Hx.
  rewrite varint_write_fuel_length.
  pose proof (varint64_size_fuel_bound 9 x) as Hb. lia.
Qed.

Lemma varint64_size_le : forall x,
  x < 18446744073709551616 -> 1 <= varint64_size x <= 10.
Proof.
  intros x Hx. rewrite <- varint64_write_length_gen.
  apply varint64_write_length_le. exact Hx.
Qed.

Lemma varint32_size_eq_varint64 : forall x,
  x < 4294967296 -> varint32_size x = varint64_size x.
Proof.
  intros x Hx. rewrite <- varint32_write_length_gen, <- varint64_write_length_gen.
  rewrite varint32_write_eq_varint64 by exact Hx. reflexivity.
Qed.

(* ---- well-formedness of written bytes ---- *)
Lemma varint_write_fuel_wf : forall f x, wf_bytes (varint_write_fuel f x) = true.
Proof.
  induction f as [|f IH]; intros x; cbn [varint_write_fuel].
  - apply wf_bytes_cons. split; [lia|reflexivity].
  - destruct (x <? 128) eqn:Hlt.
    + apply N.ltb_lt in Hlt. apply wf_bytes_cons. split; [lia|reflexivity].
    + apply wf_bytes_cons. split; [lia|apply IH].
Qed.

Lemma varint64_write_wf_gen : forall x, wf_bytes (varint64_write x) = true.
Proof. intros x. apply varint_write_fuel_wf. Qed.

Lemma varint64_write_wf : forall x,
  x < 18446744073709551616 -> wf_bytes (varint64_write x) = true.
Proof. intros x _. apply varint64_write_wf_gen. Qed.

Lemma varint32_write_wf : forall x,
  x < 4294967296 -> wf_bytes (varint32_write x) = true.
Proof.
  intros x Hx. rewrite varint32_write_eq_varint64 by exact Hx.
  apply varint64_write_wf_gen.
Qed.

(* ------------------------------------------------------------------ *)
(* Round trips                                                         *)
(* ------------------------------------------------------------------ *)

Lemma varint_read_loop_cons : forall k width mult acc b rest,
  varint_read_loop (S k) width mult acc (b :: rest) =
  if 128 <=? b
  then varint_read_loop k width (mult * 128)
         (acc + ((b mod 128) * mult) mod width) rest
  else Some (acc + (b * mult) mod width, rest).
Proof. reflexivity. Qed.

Lemma varint_read_loop_write : forall k f width mult acc x rest,
  x < pow128 (S k) -> (k <= f)%nat -> x * mult < width ->
  varint_read_loop (S k) width mult acc (varint_write_fuel f x ++ rest)
  = Some (acc + x * mult, rest).
Proof.
  induction k as [|k IH]; intros f width mult acc x rest Hx Hkf Hw.
  - cbn [pow128] in Hx.
    assert (Hlist : varint_write_fuel f x = [x]).
    { destruct f as [|f]; cbn [varint_write_fuel].
      - f_equal. apply N.mod_small. lia.
      - ltb_true x 128. reflexivity. }
    rewrite Hlist. cbn [app]. rewrite varint_read_loop_cons.
    leb_false 128 x. rewrite N.mod_small by exact Hw. reflexivity.
  - destruct f as [|f]; [lia|].
    cbn [varint_write_fuel].
    destruct (x <? 128) eqn:Hlt.
    + apply N.ltb_lt in Hlt. cbn [app]. rewrite varint_read_loop_cons.
      leb_false 128 x. rewrite N.mod_small by exact Hw. reflexivity.
    + apply N.ltb_ge in Hlt. rewrite <- app_comm_cons. rewrite varint_read_loop_cons.
      leb_true 128 (x mod 128 + 128).
      assert (Hq : 128 * (x / 128) <= x) by (apply N.mul_div_le; discriminate).
      assert (Hdm : x = 128 * (x / 128) + x mod 128) by (apply N.div_mod; discriminate).
      assert (Hr : x mod 128 <= x) by lia.
      assert (Hqm : x / 128 * (mult * 128) <= x * mult).
      { replace (x / 128 * (mult * 128)) with (128 * (x / 128) * mult) by ring.
        apply N.mul_le_mono_r. exact Hq. }
      assert (Hrm : x mod 128 * mult <= x * mult).
      { apply N.mul_le_mono_r. exact Hr. }
      rewrite IH.
      * f_equal. f_equal.
        replace ((x mod 128 + 128) mod 128) with (x mod 128) by lia.
        rewrite N.mod_small by lia.
        rewrite Hdm at 3. ring.
      * change (pow128 (S (S k))) with (128 * pow128 (S k)) in Hx.
        remember (pow128 (S k)) as p. lia.
      * lia.
      * lia.
Qed.

Theorem varint32_read_write : forall x rest,
  x < 4294967296 -> varint32_read (varint32_write x ++ rest) = Some (x, rest).
Proof.
  intros x rest Hx. rewrite varint32_write_fuel4 by exact Hx.
  unfold varint32_read.
  rewrite (varint_read_loop_write 4 4 two32 1 0 x rest).
  - f_equal. f_equal. lia.
  - rewrite pow128_5. lia.
  - lia.
  - unfold two32. lia.
Qed.

Theorem varint64_read_write : forall x rest,
  x < 18446744073709551616 -> varint64_read (varint64_write x ++ rest) = Some (x, rest).
Proof.
  intros x rest Hx. unfold varint64_read, varint64_write.
  rewrite (varint_read_loop_write 9 10 two64 1 0 x rest).
  - f_equal. f_equal. lia.
  - rewrite pow128_10. lia.
  - lia.
  - unfold two64. lia.
Qed.

(* ------------------------------------------------------------------ *)
(* Readers: consumption and value bound                                *)
(* ------------------------------------------------------------------ *)

Lemma varint_read_loop_consumes : forall k width mult acc l v rest,
  varint_read_loop k width mult acc l = Some (v, rest) ->
  exists pre, l = pre ++ rest /\ (1 <= length pre <= k)%nat.
Proof.
  induction k as [|k IH]; intros width mult acc l v rest Hrd;
    cbn [varint_read_loop] in Hrd; [discriminate Hrd|].
  destruct l as [|b l']; [discriminate Hrd|].
  destruct (128 <=? b) eqn:Hb.
  - apply IH in Hrd. destruct Hrd as [pre [Heq Hlen]].
    exists (b :: pre). split.
    + rewrite Heq. reflexivity.
    + cbn [length]. lia.
  - injection Hrd as Hv Hrest. subst l'.
    exists [b]. split; [reflexivity|]. cbn [length]. lia.
Qed.

Lemma last_contrib_bound : forall acc b mult m,
  0 < mult -> 0 < m -> acc < mult ->
  acc + (b * mult) mod (mult * m) < mult * m.
Proof.
  intros acc b mult m Hmult Hm Hacc.
  rewrite (N.mul_comm b mult).
  rewrite N.mul_mod_distr_l by lia.
  assert (Hr : b mod m < m) by (apply N.mod_lt; lia).
  assert (Hle : mult * (b mod m + 1) <= mult * m).
  { apply N.mul_le_mono_l. lia. }
  rewrite N.mul_add_distr_l, N.mul_1_r in Hle. lia.
Qed.

Lemma varint_read_loop_bound : forall k width mult acc c l v rest,
  0 < mult -> 0 < c -> width = mult * (pow128 k * c) -> acc < mult ->
  varint_read_loop (S k) width mult acc l = Some (v, rest) ->
  v < width.
Proof.
  induction k as [|k IH]; intros width mult acc c l v rest Hmult Hc Hw Hacc Hrd;
    cbn [varint_read_loop] in Hrd;
    (destruct l as [|b l']; [discriminate Hrd|]);
    destruct (128 <=? b) eqn:Hb.
  - discriminate Hrd.
  - injection Hrd as Hv Hrest. subst v. rewrite Hw.
    apply last_contrib_bound; try assumption.
    pose proof (pow128_pos 0) as Hp. apply N.mul_pos_pos; assumption.
  - eapply (IH width (mult * 128) _ c); [| exact Hc | | | exact Hrd].
    + lia.
    + rewrite Hw. cbn [pow128]. ring.
    + assert (Hle : (b mod 128 * mult) mod width <= b mod 128 * mult).
      { apply N.mod_le. rewrite Hw.
        pose proof (pow128_pos (S k)) as Hp.
        assert (Hpc : 0 < pow128 (S k) * c) by (apply N.mul_pos_pos; assumption).
        assert (Hall : 0 < mult * (pow128 (S k) * c)) by (apply N.mul_pos_pos; assumption).
        lia. }
      assert (Hbm : b mod 128 * mult <= 127 * mult).
      { apply N.mul_le_mono_r. lia. }
      lia.
  - injection Hrd as Hv Hrest. subst v. rewrite Hw.
    apply last_contrib_bound; try assumption.
    pose proof (pow128_pos (S k)) as Hp. apply N.mul_pos_pos; assumption.
Qed.

Theorem varint32_read_spec_gen : forall l v rest,
  varint32_read l = Some (v, rest) ->
  v < 4294967296 /\
  exists pre, l = pre ++ rest /\ (1 <= length pre <= 5)%nat.
Proof.
  intros l v rest Hrd. unfold varint32_read in Hrd. split.
  - change 4294967296 with two32.
    apply (varint_read_loop_bound 4 two32 1 0 16 l v rest); try lia.
    + reflexivity.
    + exact Hrd.
  - eapply varint_read_loop_consumes. exact Hrd.
Qed.

Theorem varint64_read_spec_gen : forall l v rest,
  varint64_read l = Some (v, rest) ->
  v < 18446744073709551616 /\
  exists pre, l = pre ++ rest /\ (1 <= length pre <= 10)%nat.
Proof.
  intros l v rest Hrd. unfold varint64_read in Hrd. split.
  - change 18446744073709551616 with two64.
    apply (varint_read_loop_bound 9 two64 1 0 2 l v rest); try lia.
    + reflexivity.
    + exact Hrd.
  - eapply varint_read_loop_consumes. exact Hrd.
Qed.

(* The requested statements (the wf hypothesis is not needed). *)
Theorem varint32_read_spec : forall l v rest,
  wf_bytes l = true ->
  varint32_read l = Some (v, rest) ->
  v < 4294967296 /\
  exists pre, l = pre ++ rest /\ (1 <= length pre <= 5)%nat.
Proof. intros l v rest _ Hrd. apply varint32_read_spec_gen. exact Hrd. Qed.

Theorem varint64_read_spec : forall l v rest,
  wf_bytes l = true ->
  varint64_read l = Some (v, rest) ->
  v < 18446744073709551616 /\
  exists pre, l = pre ++ rest /\ (1 <= length pre <= 10)%nat.
Proof. intros l v rest _ Hrd. apply varint64_read_spec_gen. exact Hrd. Qed.

(* The remaining input of a successful read is well formed if the input was. *)
Lemma varint32_read_rest_wf : forall l v rest,
  wf_bytes l = true -> varint32_read l = Some (v, rest) -> wf_bytes rest = true.
Proof.
  intros l v rest Hwf Hrd. apply varint32_read_spec_gen in Hrd.
  destruct Hrd as [_ [pre [Heq _]]]. subst l.
  apply wf_bytes_app in Hwf. apply Hwf.
Qed.

Lemma varint64_read_rest_wf : forall l v rest,
  wf_bytes l = true -> varint64_read l = Some (v, rest) -> wf_bytes rest = true.
Proof.
  intros l v rest Hwf Hrd. apply varint64_read_spec_gen in Hrd.
  destruct Hrd as [_ [pre [Heq _]]]. subst l.
  apply wf_bytes_app in Hwf. apply Hwf.
Qed.

(* ------------------------------------------------------------------ *)
(* Length-prefixed slices                                              *)
(* ------------------------------------------------------------------ *)

Lemma take_n_nlen_app : forall (s rest : bytes), take_n (nlen s) (s ++ rest) = s.
Proof.
  intros s rest. unfold take_n, nlen. rewrite Nat2N.id.
  induction s as [|a s IH]; cbn [length app firstn].
  - reflexivity.
  - rewrite IH. reflexivity.
Qed.

Lemma drop_n_nlen_app : forall (s rest : bytes), drop_n (nlen s) (s ++ rest) = rest.
Proof.
  intros s rest. unfold drop_n, nlen. rewrite Nat2N.id.
  induction s as [|a s IH]; cbn [length app skipn].
  - reflexivity.
  - exact IH.
Qed.

Theorem slice_read_write : forall s rest,
  nlen s < 4294967296 -> slice_read (slice_write s ++ rest) = Some (s, rest).
Proof.
  intros s rest Hlen. unfold slice_read, slice_write.
  rewrite <- app_assoc.
  rewrite varint32_read_write by exact Hlen.
  rewrite nlen_app. ltb_false (nlen s + nlen rest) (nlen s).
  rewrite take_n_nlen_app, drop_n_nlen_app. reflexivity.
Qed.

(* Versions stated with 2^32 / 2^64. *)
Corollary varint32_read_write_pow : forall x rest,
  x < 2 ^ 32 -> varint32_read (varint32_write x ++ rest) = Some (x, rest).
Proof. intros x rest Hx. rewrite pow2_32 in Hx. apply varint32_read_write; exact Hx. Qed.

Corollary varint64_read_write_pow : forall x rest,
  x < 2 ^ 64 -> varint64_read (varint64_write x ++ rest) = Some (x, rest).
Proof. intros x rest Hx. rewrite pow2_64 in Hx. apply varint64_read_write; exact Hx. Qed.

Corollary slice_read_write_pow : forall s rest,
  nlen s < 2 ^ 32 -> slice_read (slice_write s ++ rest) = Some (s, rest).
Proof. intros s rest Hx. rewrite pow2_32 in Hx. apply slice_read_write; exact Hx. Qed.

Print Assumptions varint32_read_write.
Print Assumptions varint64_read_write.
Print Assumptions varint64_read_spec.
Print Assumptions slice_read_write.
