(* Properties_C13b.v -- theorems for property C13, collector part: the model of
   ldb_remove_obsolete_files (Gc.v) unlinks exactly the names nobody needs.
   Statements only; the proofs are in GcProofs.v and GcEngine.v. *)
From Coq Require Import List NArith.
From LCDB Require Import Base Filename Engine EngineSpec EngineRead EngineSteps EngineTop Gc GcProofs GcEngine.
Import ListNotations.
Local Open Scope N_scope.

(* the keep decision is `needed`, on every name *)
Theorem C13_keep_iff_needed : forall st name, gc_keeps st name = true <-> needed st name.
Proof. exact gc_keeps_needed. Qed.
Print Assumptions C13_keep_iff_needed.

(* exactly: survivors are the needed entries of the listing, unlinked are the others *)
Theorem C13_collection_exact : forall st dir name,
  (In name (gc st dir) <-> In name dir /\ needed st name) /\
  (In name (gc_removed st dir) <-> In name dir /\ ~ needed st name).
Proof. exact gc_exact. Qed.
Print Assumptions C13_collection_exact.

Theorem C13_collection_partitions : forall st dir name,
  In name dir -> (In name (gc st dir) /\ ~ In name (gc_removed st dir)) \/
                 (~ In name (gc st dir) /\ In name (gc_removed st dir)).
Proof. exact gc_partition. Qed.
Print Assumptions C13_collection_partitions.

Theorem C13_collection_idempotent : forall st dir,
  gc st (gc st dir) = gc st dir /\ gc_removed st (gc st dir) = [].
Proof. exact gc_idempotent. Qed.
Print Assumptions C13_collection_idempotent.

(* tables: kept while ANY referenced version (iterator, snapshot read, current) lists them ... *)
Theorem C13_pinned_tables_kept : forall st pending pinned v n dir,
  g_live st = live_of pending pinned -> In v pinned -> In n v -> n < U64 ->
  (In (table_name n) dir -> In (table_name n) (gc st dir)) /\
  (In (sstable_name n) dir -> In (sstable_name n) (gc st dir)).
Proof. exact gc_keeps_pinned_tables. Qed.
Print Assumptions C13_pinned_tables_kept.

(* ... or while a running flush / compaction is still writing them ... *)
Theorem C13_pending_outputs_kept : forall st pending pinned n dir,
  g_live st = live_of pending pinned -> In n pending -> n < U64 ->
  (In (table_name n) dir -> In (table_name n) (gc st dir)) /\
  (In (temp_name n) dir -> In (temp_name n) (gc st dir)).
Proof. exact gc_keeps_pending_outputs. Qed.
Print Assumptions C13_pending_outputs_kept.

(* ... and unlinked as soon as nobody does *)
Theorem C13_unreferenced_tables_removed : forall st pending pinned n dir,
  g_live st = live_of pending pinned -> ~ In n pending ->
  (forall v, In v pinned -> ~ In n v) -> n < U64 ->
  ~ In (table_name n) (gc st dir) /\ ~ In (sstable_name n) (gc st dir) /\
  (In (table_name n) dir -> In (table_name n) (gc_removed st dir)).
Proof. exact gc_removes_unreferenced_tables. Qed.
Print Assumptions C13_unreferenced_tables_removed.

(* write-ahead logs *)
Theorem C13_logs_kept_from_log_number : forall st n dir,
  n < U64 -> g_log st <= n \/ n = g_prevlog st ->
  In (log_name n) dir -> In (log_name n) (gc st dir).
Proof. exact gc_keeps_current_logs. Qed.
Print Assumptions C13_logs_kept_from_log_number.

Theorem C13_old_logs_removed : forall st n dir,
  n < U64 -> n < g_log st -> n <> g_prevlog st ->
  ~ In (log_name n) (gc st dir) /\ (In (log_name n) dir -> In (log_name n) (gc_removed st dir)).
Proof. exact gc_removes_old_logs. Qed.
Print Assumptions C13_old_logs_removed.

(* descriptors, fixed names, foreign files *)
Theorem C13_manifest_kept : forall st n dir,
  n < U64 -> g_manifest st <= n -> In (desc_name n) dir -> In (desc_name n) (gc st dir).
Proof. exact gc_keeps_manifest. Qed.
Print Assumptions C13_manifest_kept.

Theorem C13_old_manifests_removed : forall st n dir,
  n < U64 -> n < g_manifest st -> ~ In (desc_name n) (gc st dir).
Proof. exact gc_removes_old_manifests. Qed.
Print Assumptions C13_old_manifests_removed.

Theorem C13_fixed_names_kept : forall st dir name,
  In name [current_name; lock_name; info_name; oldinfo_name] -> In name dir -> In name (gc st dir).
Proof. exact gc_keeps_fixed_names. Qed.
Print Assumptions C13_fixed_names_kept.

Theorem C13_foreign_files_untouched : forall st dir name,
  parse_filename name = None -> In name dir -> In name (gc st dir).
Proof. exact gc_keeps_foreign_names. Qed.
Print Assumptions C13_foreign_files_untouched.

(* pinning more never removes more *)
Theorem C13_collection_monotone : forall st st' dir name,
  (forall n, In n (g_live st) -> In n (g_live st')) ->
  g_log st' <= g_log st -> g_prevlog st' = g_prevlog st -> g_manifest st' <= g_manifest st ->
  In name (gc st dir) -> In name (gc st' dir).
Proof. exact gc_monotone. Qed.
Print Assumptions C13_collection_monotone.

(* any number of collections: needed throughout => still there; gone => some collection saw it unneeded *)
Theorem C13_always_needed_survives : forall sts dir name,
  In name dir -> (forall st, In st sts -> needed st name) -> In name (gc_run sts dir).
Proof. exact gc_run_keeps_always_needed. Qed.
Print Assumptions C13_always_needed_survives.

Theorem C13_removed_only_when_unneeded : forall sts dir name,
  In name dir -> ~ In name (gc_run sts dir) -> exists st, In st sts /\ ~ needed st name.
Proof. exact gc_run_only_removes_unneeded. Qed.
Print Assumptions C13_removed_only_when_unneeded.

(* on the engine model: tables of a referenced reachable version survive; a dropped table goes *)
Theorem C13_referenced_version_survives : forall ucmp, total_order ucmp ->
  forall ops s st pending others dir f,
  run ucmp init_state ops = Some s ->
  next_file s <= U64 ->
  g_live st = live_of pending (version_numbers s :: others) ->
  In f (concat (levels s)) ->
  In (table_name (fnum f)) dir -> In (table_name (fnum f)) (gc st dir).
Proof. exact gc_keeps_referenced_version. Qed.
Print Assumptions C13_referenced_version_survives.

Theorem C13_dropped_table_removed : forall s s' st dir n,
  ~ In n (version_numbers s') -> In n (version_numbers s) -> n < U64 ->
  g_live st = live_of [] [version_numbers s'] ->
  In (table_name n) dir ->
  In (table_name n) (gc_removed st dir) /\ ~ In (table_name n) (gc st dir).
Proof. exact gc_removes_dropped_table. Qed.
Print Assumptions C13_dropped_table_removed.
