(* Properties_C01.v -- theorems for property C01 (a lookup returns the most recent write).
   Statements only; the proofs are in EngineTop.v (built on EngineRead.v, EngineSteps.v).
   [written 0 ops] lists the entries of the OWrite operations of [ops] in write order with
   the sequence numbers lcdb assigns; [map_after] replays a list of entries as a sequential
   map (put = bind, delete = unbind, keys compared with the user comparator). *)
From LCDB Require Import Base Engine EngineSpec EngineRead EngineSteps EngineTop.
From Coq Require Import Sorting.Sorted.
Local Open Scope N_scope.

Theorem C01_init_empty : forall ucmp k q, get ucmp init_state k q = NotHere.
Proof. intros. reflexivity. Qed.
Print Assumptions C01_init_empty.

(* after any sequence of puts, deletes, batches, memtable switches, flushes, compactions,
   trivial moves, snapshots, releases and reopens, a lookup at the latest sequence returns
   the value of the most recent write to that key, or not-found *)
Theorem C01_get_latest : forall ucmp, total_order ucmp -> forall ops s,
  run ucmp init_state ops = Some s ->
  forall k, visible (get ucmp s k (last_seq s)) = map_after ucmp (written 0 ops) k.
Proof. exact get_latest. Qed.
Print Assumptions C01_get_latest.

Theorem C01_get_at_any_state : forall ucmp, total_order ucmp -> forall ops s,
  run ucmp init_state ops = Some s ->
  forall k, visible (get ucmp s k (last_seq s)) = spec_get ucmp s k (last_seq s).
Proof. exact get_at_any_state. Qed.
Print Assumptions C01_get_at_any_state.

(* at any readable sequence q (a live snapshot or the latest): the writes up to q *)
Theorem C01_get_at_seq : forall ucmp, total_order ucmp -> forall ops s,
  run ucmp init_state ops = Some s ->
  forall k q, readable s q ->
  visible (get ucmp s k q) = map_after ucmp (filter (fun e => es e <=? q) (written 0 ops)) k.
Proof. exact get_at_seq. Qed.
Print Assumptions C01_get_at_seq.

(* the ghost history of the model is the write history, newest first *)
Theorem C01_history_is_write_history : forall ucmp ops s,
  run ucmp init_state ops = Some s ->
  hist s = rev (written 0 ops) /\ last_seq s = total_writes ops.
Proof. exact run_hist_init. Qed.
Print Assumptions C01_history_is_write_history.

Theorem C01_run_hist : forall ucmp ops s s',
  run ucmp s ops = Some s' ->
  hist s' = rev (written (last_seq s) ops) ++ hist s /\
  last_seq s' = last_seq s + total_writes ops.
Proof. exact run_hist. Qed.
Print Assumptions C01_run_hist.

(* sequence numbers are assigned in strictly increasing order, above the starting one *)
Theorem C01_written_increasing : forall ops seq,
  ForallOrdPairs (fun x y => es x < es y) (written seq ops) /\
  forall e, In e (written seq ops) -> seq < es e <= seq + total_writes ops.
Proof. intros ops seq. split. exact (written_incr ops seq). exact (written_range ops seq). Qed.
Print Assumptions C01_written_increasing.

(* reading a history with increasing sequences, newest = most recent write *)
Theorem C01_newest_is_last_write : forall ucmp l k q,
  ForallOrdPairs (fun x y => es x < es y) l -> (forall e, In e l -> es e <= q) ->
  visible (result_of (best ucmp (rev l) k q)) = map_after ucmp l k.
Proof. exact best_rev_map_after. Qed.
Print Assumptions C01_newest_is_last_write.

Theorem C01_spec_is_last_write : forall ucmp ops s k q,
  run ucmp init_state ops = Some s -> last_seq s <= q ->
  spec_get ucmp s k q = map_after ucmp (written 0 ops) k.
Proof. exact spec_is_last_write. Qed.
Print Assumptions C01_spec_is_last_write.

(* non-vacuity: the concrete run of EngineTop.Example (writes, snapshots, flush to level 2
   and level 0, compaction with a tombstone, releases, reopen) *)
Theorem C01_example : forall k,
  run bytes_compare init_state Example.all_ops = Some Example.s3 /\
  visible (get bytes_compare Example.s3 k 7)
  = map_after bytes_compare (written 0 Example.all_ops) k.
Proof. intros k. split. exact Example.run_all. exact (Example.c01_instance k). Qed.
Print Assumptions C01_example.
