(* Properties_C01.v -- placeholder: theorems land with EngineProofs. *)
From LCDB Require Import Engine.
Theorem C01_init_empty : forall ucmp k q, get ucmp init_state k q = NotHere.
Proof. intros. reflexivity. Qed.
Print Assumptions C01_init_empty.
