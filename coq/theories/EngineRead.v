(* EngineRead.v -- the read path of the engine model returns the newest visible
   entry: in every state satisfying the executable invariant [inv_b],
   [get] (the replica of ldb_get -> ldb_memtable_get -> ldb_version_get) equals
   [result_of (best (all_entries s) k q)].

   Structure:
     1. comparators: bytes_compare and its reverse are total orders
     2. order facts for ucmp / icmp / ge_target
     3. [is_best]: membership-based, strict characterisation of [best]
     4. a seek in a strictly sorted run finds the best entry of the run
     5. concatenation / first hit over places ordered by recency
     6. level 0: range pre-filter and newest-first order
     7. levels >= 1: find_file + seek = seek in the concatenation
     8. assembly: get_correct, get_view
     9. non-vacuity: a concrete state *)
From LCDB Require Import Base BaseProofs Engine EngineSpec.
Require Import Lia ZifyBool ZifyNat ZifyN Sorted.
Local Open Scope N_scope.

(* ------------------------------------------------------------------ 1. comparators *)
Lemma bytes_compare_total : total_order bytes_compare.
Proof.
  constructor.
  - apply bytes_compare_refl.
  - intros a b H c. apply bytes_compare_eq_iff in H. subst b. split; reflexivity.
  - apply bytes_compare_antisym.
  - apply bytes_compare_lt_trans.
Qed.

Lemma rev_compare_total : total_order (fun a b => bytes_compare b a).
Proof.
  constructor.
  - intros a. apply bytes_compare_refl.
  - intros a b H c. apply bytes_compare_eq_iff in H. subst b. split; reflexivity.
  - intros a b. apply bytes_compare_antisym.
  - intros a b c H1 H2. exact (bytes_compare_lt_trans c b a H2 H1).
Qed.

(* ------------------------------------------------------------------ plain list helpers *)
Lemma last_cons {A} (r : list A) (x y : A) : last (y :: r) x = last r y.
Proof.
  revert x y. induction r as [|z r IH]; intros x y.
  - reflexivity.
  - change (last (y :: z :: r) x) with (last (z :: r) x).
    rewrite (IH x z), (IH y z). reflexivity.
Qed.

Lemma last_in {A} (r : list A) (x : A) : In (last r x) (x :: r).
Proof.
  revert x. induction r as [|y r IH]; intros x.
  - left. reflexivity.
  - rewrite last_cons. right. apply IH.
Qed.

Lemma find_app_some {A} (P : A -> bool) (l1 l2 : list A) (x : A) :
  find P l1 = Some x -> find P (l1 ++ l2) = Some x.
Proof.
  induction l1 as [|y l1 IH]; cbn [find app]; intros H.
  - discriminate.
  - destruct (P y); [exact H|apply IH; exact H].
Qed.

Lemma find_app_none {A} (P : A -> bool) (l1 l2 : list A) :
  (forall x, In x l1 -> P x = false) -> find P (l1 ++ l2) = find P l2.
Proof.
  induction l1 as [|y l1 IH]; cbn [find app]; intros H.
  - reflexivity.
  - rewrite (H y (or_introl eq_refl)). apply IH. intros x Hx. apply H. right. exact Hx.
Qed.

Lemma Forall2_map_same {A B C} (R : B -> C -> Prop) (f : A -> B) (g : A -> C) (l : list A) :
  (forall x, In x l -> R (f x) (g x)) -> Forall2 R (map f l) (map g l).
Proof.
  induction l as [|x l IH]; intros H; cbn [map].
  - constructor.
  - constructor.
    + apply H. left. reflexivity.
    + apply IH. intros y Hy. apply H. right. exact Hy.
Qed.

(* ------------------------------------------------------------------ lookups: first non-NotHere *)
Definition pick (r1 r2 : lookup) : lookup :=
  match r1 with Found v => Found v | Deleted => Deleted | NotHere => r2 end.

Definition first_found (rs : list lookup) : lookup := fold_right pick NotHere rs.

Lemma first_found_cons r rs : first_found (r :: rs) = pick r (first_found rs).
Proof. reflexivity. Qed.

Lemma first_found_app a b : first_found (a ++ b) = pick (first_found a) (first_found b).
Proof.
  induction a as [|r a IH]; cbn [app].
  - reflexivity.
  - rewrite !first_found_cons, IH. destruct r; reflexivity.
Qed.

Lemma first_found_filter {A} (g : A -> lookup) (P : A -> bool) (l : list A) :
  (forall x, In x l -> P x = false -> g x = NotHere) ->
  first_found (map g (filter P l)) = first_found (map g l).
Proof.
  induction l as [|x l IH]; intros H; cbn [filter map].
  - reflexivity.
  - assert (IH' : first_found (map g (filter P l)) = first_found (map g l)).
    { apply IH. intros y Hy. apply H. right. exact Hy. }
    destruct (P x) eqn:HP.
    + cbn [map]. rewrite !first_found_cons, IH'. reflexivity.
    + rewrite first_found_cons, (H x (or_introl eq_refl) HP), IH'. reflexivity.
Qed.

Lemma result_of_entry_hit e : result_of_entry e <> NotHere.
Proof. unfold result_of_entry. destruct (et e); discriminate. Qed.

Lemma result_of_first (oa ob : option entry) :
  result_of (match oa with Some e => Some e | None => ob end) = pick (result_of oa) (result_of ob).
Proof.
  destruct oa as [e|]; cbn [result_of]; [|reflexivity].
  unfold result_of_entry. destruct (et e); reflexivity.
Qed.

(* ------------------------------------------------------------------ newest-first order of level 0 *)
Definition fdesc (a b : file) : Prop := fnum b <= fnum a.

Lemma insert_newest_in f l g : In g (insert_newest f l) <-> g = f \/ In g l.
Proof.
  induction l as [|h r IH]; cbn [insert_newest].
  - cbn [In]. split; intros [H|H]; auto.
  - destruct (fnum h <? fnum f).
    + cbn [In]. split; intros H; intuition auto.
    + cbn [In]. rewrite IH. split; intros H; intuition auto.
Qed.

Lemma sort_newest_in l g : In g (sort_newest l) <-> In g l.
Proof.
  induction l as [|f l IH].
  - reflexivity.
  - change (sort_newest (f :: l)) with (insert_newest f (sort_newest l)).
    rewrite insert_newest_in, IH. cbn [In]. split; intros [H|H]; auto.
Qed.

Lemma insert_newest_sorted f l :
  StronglySorted fdesc l -> StronglySorted fdesc (insert_newest f l).
Proof.
  induction l as [|g r IH]; intros HS; cbn [insert_newest].
  - constructor; constructor.
  - apply StronglySorted_inv in HS. destruct HS as [HSr Hall].
    destruct (fnum g <? fnum f) eqn:E.
    + constructor.
      * constructor; assumption.
      * constructor.
        -- unfold fdesc. lia.
        -- rewrite Forall_forall in *. intros x Hx. specialize (Hall x Hx). unfold fdesc in *. lia.
    + constructor.
      * apply IH. exact HSr.
      * rewrite Forall_forall in *. intros x Hx. apply insert_newest_in in Hx.
        destruct Hx as [->|Hx]; [unfold fdesc; lia|apply Hall; exact Hx].
Qed.

Lemma sort_newest_sorted l : StronglySorted fdesc (sort_newest l).
Proof.
  induction l as [|f l IH].
  - constructor.
  - change (sort_newest (f :: l)) with (insert_newest f (sort_newest l)).
    apply insert_newest_sorted. exact IH.
Qed.

Lemma insert_newest_head f l :
  (forall x, In x l -> fnum x < fnum f) -> insert_newest f l = f :: l.
Proof.
  intros H. destruct l as [|y t]; cbn [insert_newest]; [reflexivity|].
  assert (E : fnum y <? fnum f = true) by (specialize (H y (or_introl eq_refl)); lia).
  rewrite E. reflexivity.
Qed.

Lemma filter_insert_newest (P : file -> bool) f l :
  StronglySorted fdesc l ->
  filter P (insert_newest f l) = if P f then insert_newest f (filter P l) else filter P l.
Proof.
  induction l as [|g r IH]; intros HS.
  - cbn [insert_newest filter]. destruct (P f); reflexivity.
  - apply StronglySorted_inv in HS. destruct HS as [HSr Hall].
    cbn [insert_newest]. destruct (fnum g <? fnum f) eqn:E.
    + change (filter P (f :: g :: r)) with (if P f then f :: filter P (g :: r) else filter P (g :: r)).
      destruct (P f); [|reflexivity].
      symmetry. apply insert_newest_head. intros x Hx. apply filter_In in Hx. destruct Hx as [Hx _].
      destruct Hx as [<-|Hx]; [lia|].
      rewrite Forall_forall in Hall. specialize (Hall x Hx). unfold fdesc in Hall. lia.
    + change (filter P (g :: insert_newest f r))
        with (if P g then g :: filter P (insert_newest f r) else filter P (insert_newest f r)).
      rewrite (IH HSr).
      change (filter P (g :: r)) with (if P g then g :: filter P r else filter P r).
      destruct (P g); destruct (P f); try reflexivity.
      cbn [insert_newest]. rewrite E. reflexivity.
Qed.

Lemma sort_newest_filter (P : file -> bool) l :
  sort_newest (filter P l) = filter P (sort_newest l).
Proof.
  induction l as [|f l IH].
  - reflexivity.
  - change (sort_newest (f :: l)) with (insert_newest f (sort_newest l)).
    rewrite (filter_insert_newest P f _ (sort_newest_sorted l)).
    cbn [filter]. destruct (P f).
    + change (sort_newest (f :: filter P l)) with (insert_newest f (sort_newest (filter P l))).
      rewrite IH. reflexivity.
    + exact IH.
Qed.

Lemma in_level_entries e fs :
  In e (level_entries fs) <-> exists f, In f fs /\ In e (fents f).
Proof.
  unfold level_entries. rewrite in_concat. split.
  - intros (l & Hl & He). apply in_map_iff in Hl. destruct Hl as (f & <- & Hf).
    exists f. split; assumption.
  - intros (f & Hf & He). exists (fents f). split; [apply in_map; exact Hf|exact He].
Qed.

Lemma in_sorted_l0 e l0 :
  In e (concat (map fents (sort_newest l0))) <-> In e (level_entries l0).
Proof.
  change (concat (map fents (sort_newest l0))) with (level_entries (sort_newest l0)).
  rewrite !in_level_entries. split; intros (f & Hf & He); exists f; split; try exact He.
  - apply sort_newest_in. exact Hf.
  - apply sort_newest_in. exact Hf.
Qed.

(* ================================================================== *)
Section Read.
Variable ucmp : bytes -> bytes -> comparison.
Hypothesis TO : total_order ucmp.

(* ------------------------------------------------------------------ 2. order facts *)
Lemma ucmp_refl a : ucmp a a = Eq.
Proof. apply (to_refl ucmp TO). Qed.

Lemma ucmp_eq_l a b c : ucmp a b = Eq -> ucmp a c = ucmp b c.
Proof. intros H. apply (to_eq ucmp TO a b H c). Qed.

Lemma ucmp_eq_r a b c : ucmp a b = Eq -> ucmp c a = ucmp c b.
Proof. intros H. apply (to_eq ucmp TO a b H c). Qed.

Lemma ucmp_gt_lt a b : ucmp a b = Gt -> ucmp b a = Lt.
Proof. intros H. rewrite (to_antisym ucmp TO b a), H. reflexivity. Qed.

Lemma ucmp_lt_gt a b : ucmp a b = Lt -> ucmp b a = Gt.
Proof. intros H. rewrite (to_antisym ucmp TO b a), H. reflexivity. Qed.

Lemma ucmp_eq_sym a b : ucmp a b = Eq -> ucmp b a = Eq.
Proof. intros H. rewrite (to_antisym ucmp TO b a), H. reflexivity. Qed.

Lemma ucmp_lt_trans a b c : ucmp a b = Lt -> ucmp b c = Lt -> ucmp a c = Lt.
Proof. apply (to_trans ucmp TO). Qed.

Lemma ueq_spec a b : ueq ucmp a b = true <-> ucmp a b = Eq.
Proof. unfold ueq. destruct (ucmp a b); split; intros H; congruence. Qed.

Lemma ilt_spec a b :
  ilt ucmp a b = true <->
  (ucmp (ek a) (ek b) = Lt \/ (ucmp (ek a) (ek b) = Eq /\ es b < es a)).
Proof.
  unfold ilt, icmp. destruct (ucmp (ek a) (ek b)) eqn:E.
  - destruct (es b ?= es a) eqn:C.
    + apply N.compare_eq_iff in C. split; [discriminate|]. intros [H|[_ H]]; [discriminate|lia].
    + apply N.compare_lt_iff in C. split; [|reflexivity]. intros _. right. split; [reflexivity|exact C].
    + apply N.compare_gt_iff in C. split; [discriminate|]. intros [H|[_ H]]; [discriminate|lia].
  - split; [|reflexivity]. intros _. left. reflexivity.
  - split; [discriminate|]. intros [H|[H _]]; discriminate.
Qed.

Lemma ge_target_spec k q e :
  ge_target ucmp k q e = true <->
  (ucmp (ek e) k = Gt \/ (ucmp (ek e) k = Eq /\ es e <= q)).
Proof.
  unfold ge_target. destruct (ucmp (ek e) k) eqn:E.
  - split.
    + intros H. right. split; [reflexivity|lia].
    + intros [H|[_ H]]; [discriminate|lia].
  - split; [discriminate|]. intros [H|[H _]]; discriminate.
  - split; [|reflexivity]. intros _. left. reflexivity.
Qed.

Lemma matches_spec k q e :
  matches ucmp k q e = true <-> (ucmp (ek e) k = Eq /\ es e <= q).
Proof.
  unfold matches. rewrite andb_true_iff, ueq_spec. split; intros [H1 H2]; split; try exact H1; lia.
Qed.

Lemma matches_key_ne k q e : ucmp (ek e) k <> Eq -> matches ucmp k q e = false.
Proof.
  intros H. destruct (matches ucmp k q e) eqn:M; [|reflexivity].
  apply matches_spec in M. destruct M as [M _]. contradiction.
Qed.

Lemma ilt_trans a b c : ilt ucmp a b = true -> ilt ucmp b c = true -> ilt ucmp a c = true.
Proof.
  rewrite !ilt_spec. intros [Hab|[Hab Sab]] [Hbc|[Hbc Sbc]].
  - left. eapply ucmp_lt_trans; eassumption.
  - left. rewrite <- (ucmp_eq_r _ _ (ek a) Hbc). exact Hab.
  - left. rewrite (ucmp_eq_l _ _ (ek c) Hab). exact Hbc.
  - right. split; [|lia]. rewrite (ucmp_eq_l _ _ (ek c) Hab). exact Hbc.
Qed.

(* user keys never decrease along the internal order *)
Lemma key_gt_mono k x e : ucmp (ek x) k = Gt -> ilt ucmp x e = true -> ucmp (ek e) k = Gt.
Proof.
  intros Hx Hlt. apply ilt_spec in Hlt. destruct Hlt as [Hlt|[Heq _]].
  - apply ucmp_lt_gt. eapply ucmp_lt_trans; [apply ucmp_gt_lt; exact Hx|exact Hlt].
  - rewrite <- (ucmp_eq_l _ _ k Heq). exact Hx.
Qed.

Lemma key_lt_mono k b e : ucmp (ek b) k = Lt -> ilt ucmp e b = true -> ucmp (ek e) k = Lt.
Proof.
  intros Hb Hlt. apply ilt_spec in Hlt. destruct Hlt as [Hlt|[Heq _]].
  - eapply ucmp_lt_trans; eassumption.
  - rewrite (ucmp_eq_l _ _ k Heq). exact Hb.
Qed.

(* once a seek target is passed it stays passed *)
Lemma ge_target_mono k q x y :
  ilt ucmp x y = true -> ge_target ucmp k q x = true -> ge_target ucmp k q y = true.
Proof.
  intros Hlt Hge. apply ge_target_spec. apply ge_target_spec in Hge.
  destruct Hge as [Hgt|[Hxk Hs]].
  - left. eapply key_gt_mono; eassumption.
  - apply ilt_spec in Hlt. destruct Hlt as [Hlt|[Heq Hs']].
    + left. apply ucmp_lt_gt. rewrite <- (ucmp_eq_l _ _ (ek y) Hxk). exact Hlt.
    + right. split; [|lia]. rewrite <- (ucmp_eq_l _ _ k Heq). exact Hxk.
Qed.

(* ------------------------------------------------------------------ sorted runs *)
Lemma sorted_run_cons2 x y r :
  sorted_run ucmp (x :: y :: r) = ilt ucmp x y && sorted_run ucmp (y :: r).
Proof. reflexivity. Qed.

Lemma sorted_run_cons x r :
  sorted_run ucmp (x :: r) = true ->
  sorted_run ucmp r = true /\ forall y, In y r -> ilt ucmp x y = true.
Proof.
  revert x. induction r as [|y r IH]; intros x H.
  - split; [reflexivity|]. intros y [].
  - rewrite sorted_run_cons2 in H. apply andb_prop in H. destruct H as [Hxy Hs].
    split; [exact Hs|]. destruct (IH y Hs) as [_ Hall].
    intros z [<-|Hz]; [exact Hxy|].
    eapply ilt_trans; [exact Hxy|]. apply Hall. exact Hz.
Qed.

Lemma sorted_last x r :
  sorted_run ucmp (x :: r) = true ->
  forall e, In e (x :: r) -> e = last r x \/ ilt ucmp e (last r x) = true.
Proof.
  revert x. induction r as [|y r IH]; intros x Hs e Hin.
  - destruct Hin as [<-|[]]. left. reflexivity.
  - rewrite last_cons. apply sorted_run_cons in Hs. destruct Hs as [Hs' Hall].
    destruct Hin as [<-|Hin].
    + right. assert (Hxy : ilt ucmp x y = true) by (apply Hall; left; reflexivity).
      destruct (IH y Hs' y (or_introl eq_refl)) as [E|Hlt].
      * rewrite <- E. exact Hxy.
      * eapply ilt_trans; eassumption.
    + apply IH; assumption.
Qed.

Lemma sorted_run_app l1 y l2 :
  sorted_run ucmp l1 = true -> sorted_run ucmp (y :: l2) = true ->
  match l1 with [] => True | x :: t => ilt ucmp (last t x) y = true end ->
  sorted_run ucmp (l1 ++ y :: l2) = true.
Proof.
  induction l1 as [|x t IH]; intros H1 H2 H3.
  - exact H2.
  - destruct t as [|z t'].
    + cbn [app]. rewrite sorted_run_cons2. cbn [last] in H3. rewrite H3, H2. reflexivity.
    + cbn [app]. rewrite sorted_run_cons2. rewrite sorted_run_cons2 in H1.
      apply andb_prop in H1. destruct H1 as [Hxz Hs]. rewrite Hxz. cbn [andb].
      rewrite last_cons in H3. exact (IH Hs H2 H3).
Qed.

(* keys outside [first.user_key, last.user_key] do not occur in a sorted run *)
Lemma nokey_low k a t :
  sorted_run ucmp (a :: t) = true -> ucmp (ek a) k = Gt ->
  forall e, In e (a :: t) -> ueq ucmp (ek e) k = false.
Proof.
  intros Hs Hgt e Hin. apply sorted_run_cons in Hs. destruct Hs as [_ Hall].
  unfold ueq. destruct Hin as [<-|Hin].
  - rewrite Hgt. reflexivity.
  - rewrite (key_gt_mono k a e Hgt (Hall e Hin)). reflexivity.
Qed.

Lemma nokey_high k a t :
  sorted_run ucmp (a :: t) = true -> ucmp (ek (last t a)) k = Lt ->
  forall e, In e (a :: t) -> ueq ucmp (ek e) k = false.
Proof.
  intros Hs Hlt e Hin. unfold ueq.
  destruct (sorted_last a t Hs e Hin) as [->|Hl].
  - rewrite Hlt. reflexivity.
  - rewrite (key_lt_mono k _ e Hlt Hl). reflexivity.
Qed.

(* ------------------------------------------------------------------ 3. is_best *)
(* membership-based, strict: the chosen entry is strictly newer than any other match *)
Definition is_best (l : list entry) (k : bytes) (q : N) (o : option entry) : Prop :=
  match o with
  | None => forall e, In e l -> matches ucmp k q e = false
  | Some e => In e l /\ matches ucmp k q e = true /\
              forall e', In e' l -> matches ucmp k q e' = true -> e' = e \/ es e' < es e
  end.

Lemma best_cons x l k q :
  best ucmp (x :: l) k q =
  if matches ucmp k q x then newer x (best ucmp l k q) else best ucmp l k q.
Proof. reflexivity. Qed.

Lemma best_weak l k q :
  match best ucmp l k q with
  | None => forall e, In e l -> matches ucmp k q e = false
  | Some e => In e l /\ matches ucmp k q e = true /\
              forall e', In e' l -> matches ucmp k q e' = true -> es e' <= es e
  end.
Proof.
  induction l as [|x l IH].
  - cbn. intros e [].
  - rewrite best_cons. revert IH.
    destruct (best ucmp l k q) as [b|]; intros IH; destruct (matches ucmp k q x) eqn:Hm.
    + destruct IH as (Hin & Hmb & Hmax). cbn [newer]. destruct (es b <? es x) eqn:Hlt.
      * split; [left; reflexivity|]. split; [exact Hm|].
        intros e' [<-|Hin'] Hm'; [lia|]. specialize (Hmax e' Hin' Hm'). lia.
      * split; [right; exact Hin|]. split; [exact Hmb|].
        intros e' [<-|Hin'] Hm'; [lia|]. apply Hmax; assumption.
    + destruct IH as (Hin & Hmb & Hmax).
      split; [right; exact Hin|]. split; [exact Hmb|].
      intros e' [<-|Hin'] Hm'; [congruence|]. apply Hmax; assumption.
    + cbn [newer]. split; [left; reflexivity|]. split; [exact Hm|].
      intros e' [<-|Hin'] Hm'; [lia|]. rewrite (IH e' Hin') in Hm'. discriminate.
    + intros e [<-|Hin]; [exact Hm|apply IH; exact Hin].
Qed.

Lemma best_unique l k q o : is_best l k q o -> best ucmp l k q = o.
Proof.
  intros H. generalize (best_weak l k q).
  destruct (best ucmp l k q) as [b|]; intros W; destruct o as [e|]; unfold is_best in H.
  - destruct W as (Hin & Hm & Hmax). destruct H as (Hin' & Hm' & Hstrict).
    destruct (Hstrict b Hin Hm) as [->|Hlt]; [reflexivity|].
    specialize (Hmax e Hin' Hm'). lia.
  - destruct W as (Hin & Hm & _). rewrite (H b Hin) in Hm. discriminate.
  - destruct H as (Hin & Hm & _). rewrite (W e Hin) in Hm. discriminate.
  - reflexivity.
Qed.

Lemma is_best_ext l l' k q o :
  (forall e, In e l <-> In e l') -> is_best l k q o -> is_best l' k q o.
Proof.
  intros Hext H. destruct o as [e|]; unfold is_best in *.
  - destruct H as (Hin & Hm & Hs). split; [apply Hext; exact Hin|]. split; [exact Hm|].
    intros e' Hin' Hm'. apply Hs; [apply Hext; exact Hin'|exact Hm'].
  - intros e Hin. apply H. apply Hext. exact Hin.
Qed.

Lemma is_best_cons_nomatch x l k q o :
  matches ucmp k q x = false -> is_best l k q o -> is_best (x :: l) k q o.
Proof.
  intros Hx H. destruct o as [e|]; unfold is_best in *.
  - destruct H as (Hin & Hm & Hs). split; [right; exact Hin|]. split; [exact Hm|].
    intros e' [<-|Hin'] Hm'; [congruence|]. apply Hs; assumption.
  - intros e [<-|Hin]; [exact Hx|apply H; exact Hin].
Qed.

(* every k-entry of a is newer than every k-entry of b *)
Definition newer_out (a b : list entry) : Prop :=
  forall o m, In o a -> In m b -> ucmp (ek o) (ek m) = Eq -> es m < es o.

Lemma newer_outside_spec a b : newer_outside ucmp a b = true <-> newer_out a b.
Proof.
  unfold newer_outside, newer_out. rewrite forallb_forall. split.
  - intros H o m Ho Hm Heq. specialize (H o Ho). rewrite forallb_forall in H.
    specialize (H m Hm). unfold ueq in H. rewrite Heq in H. cbn [negb orb] in H. lia.
  - intros H o Ho. apply forallb_forall. intros m Hm. unfold ueq.
    destruct (ucmp (ek o) (ek m)) eqn:E; cbn [negb orb]; try reflexivity.
    specialize (H o m Ho Hm E). lia.
Qed.

Lemma is_best_app a b k q oa ob :
  is_best a k q oa -> is_best b k q ob -> newer_out a b ->
  is_best (a ++ b) k q (match oa with Some e => Some e | None => ob end).
Proof.
  intros Ha Hb Hn. destruct oa as [e|].
  - unfold is_best in Ha |- *. destruct Ha as (Hin & Hm & Hs).
    split; [apply in_or_app; left; exact Hin|]. split; [exact Hm|].
    intros e' Hin' Hm'. apply in_app_or in Hin'. destruct Hin' as [Hin'|Hin'].
    + apply Hs; assumption.
    + right. apply (Hn e e' Hin Hin').
      apply matches_spec in Hm. apply matches_spec in Hm'.
      destruct Hm as [Hk _]. destruct Hm' as [Hk' _].
      rewrite (ucmp_eq_l _ _ (ek e') Hk). apply ucmp_eq_sym. exact Hk'.
  - destruct ob as [e|]; unfold is_best in *.
    + destruct Hb as (Hin & Hm & Hs).
      split; [apply in_or_app; right; exact Hin|]. split; [exact Hm|].
      intros e' Hin' Hm'. apply in_app_or in Hin'. destruct Hin' as [Hin'|Hin'].
      * rewrite (Ha e' Hin') in Hm'. discriminate.
      * apply Hs; assumption.
    + intros e Hin. apply in_app_or in Hin. destruct Hin as [Hin|Hin]; [apply Ha|apply Hb]; exact Hin.
Qed.

(* ------------------------------------------------------------------ 4. seek in a sorted run *)
Definition seek_hit (l : list entry) (k : bytes) (q : N) : option entry :=
  match seek_ge ucmp l k q with
  | Some e => if ueq ucmp (ek e) k then Some e else None
  | None => None
  end.

Lemma get_in_run_seek_hit l k q : get_in_run ucmp l k q = result_of (seek_hit l k q).
Proof.
  unfold get_in_run, seek_hit. destruct (seek_ge ucmp l k q) as [e|]; [|reflexivity].
  destruct (ueq ucmp (ek e) k); reflexivity.
Qed.

Lemma seek_hit_cons x r k q :
  seek_hit (x :: r) k q =
  if ge_target ucmp k q x then (if ueq ucmp (ek x) k then Some x else None) else seek_hit r k q.
Proof.
  unfold seek_hit, seek_ge. cbn [find]. destruct (ge_target ucmp k q x); reflexivity.
Qed.

Lemma seek_hit_best l k q : sorted_run ucmp l = true -> is_best l k q (seek_hit l k q).
Proof.
  induction l as [|x r IH]; intros Hs.
  - cbn. intros e [].
  - apply sorted_run_cons in Hs. destruct Hs as [Hr Hall].
    rewrite seek_hit_cons. destruct (ge_target ucmp k q x) eqn:Hge.
    + destruct (ueq ucmp (ek x) k) eqn:Hu.
      * apply ueq_spec in Hu. apply ge_target_spec in Hge.
        destruct Hge as [Hgt|[_ Hle]]; [congruence|].
        unfold is_best. split; [left; reflexivity|].
        split; [apply matches_spec; split; assumption|].
        intros e' [<-|Hin] Hm'; [left; reflexivity|]. right.
        apply matches_spec in Hm'. destruct Hm' as [Hk' _].
        specialize (Hall e' Hin). apply ilt_spec in Hall.
        assert (Heq : ucmp (ek x) (ek e') = Eq).
        { rewrite (ucmp_eq_l _ _ (ek e') Hu). apply ucmp_eq_sym. exact Hk'. }
        destruct Hall as [Hlt|[_ Hlt]]; [congruence|exact Hlt].
      * assert (Hgt : ucmp (ek x) k = Gt).
        { apply ge_target_spec in Hge. destruct Hge as [Hgt|[Heq _]]; [exact Hgt|].
          apply ueq_spec in Heq. congruence. }
        unfold is_best. intros e [<-|Hin]; apply matches_key_ne.
        -- congruence.
        -- rewrite (key_gt_mono k x e Hgt (Hall e Hin)). discriminate.
    + apply is_best_cons_nomatch; [|apply IH; exact Hr].
      destruct (matches ucmp k q x) eqn:Hm; [|reflexivity].
      apply matches_spec in Hm.
      assert (ge_target ucmp k q x = true) by (apply ge_target_spec; right; exact Hm).
      congruence.
Qed.

(* key lemma 2 of the LSM argument *)
Lemma get_in_run_best l k q :
  sorted_run ucmp l = true -> get_in_run ucmp l k q = result_of (best ucmp l k q).
Proof.
  intros Hs. rewrite get_in_run_seek_hit. f_equal. symmetry.
  apply best_unique. apply seek_hit_best. exact Hs.
Qed.

Lemma get_in_run_nokey l k q :
  (forall e, In e l -> ueq ucmp (ek e) k = false) -> get_in_run ucmp l k q = NotHere.
Proof.
  intros H. unfold get_in_run, seek_ge.
  destruct (find (ge_target ucmp k q) l) as [e|] eqn:F; [|reflexivity].
  apply find_some in F. destruct F as [Hin _]. rewrite (H e Hin). reflexivity.
Qed.

(* ------------------------------------------------------------------ 5. first hit over places *)
Definition hit_spec (l : list entry) (k : bytes) (q : N) (r : lookup) : Prop :=
  exists o, is_best l k q o /\ r = result_of o.

Lemma hit_spec_run l k q :
  sorted_run ucmp l = true -> hit_spec l k q (get_in_run ucmp l k q).
Proof.
  intros Hs. exists (seek_hit l k q). split; [apply seek_hit_best; exact Hs|apply get_in_run_seek_hit].
Qed.

Lemma hit_spec_app a b k q ra rb :
  hit_spec a k q ra -> hit_spec b k q rb -> newer_out a b ->
  hit_spec (a ++ b) k q (pick ra rb).
Proof.
  intros (oa & Ha & ->) (ob & Hb & ->) Hn.
  exists (match oa with Some e => Some e | None => ob end). split.
  - apply is_best_app; assumption.
  - symmetry. apply result_of_first.
Qed.

Lemma hit_spec_ext l l' k q r :
  (forall e, In e l <-> In e l') -> hit_spec l k q r -> hit_spec l' k q r.
Proof.
  intros Hext (o & Ho & ->). exists o. split; [eapply is_best_ext; eassumption|reflexivity].
Qed.

Lemma hit_spec_best l k q r : hit_spec l k q r -> r = result_of (best ucmp l k q).
Proof. intros (o & Ho & ->). rewrite (best_unique l k q o Ho). reflexivity. Qed.

Lemma recency_cons p r :
  recency ucmp (p :: r) = forallb (newer_outside ucmp p) r && recency ucmp r.
Proof. reflexivity. Qed.

(* key lemma 3: the first place with a hit wins *)
Lemma first_hit k q ps rs :
  Forall2 (fun p r => hit_spec p k q r) ps rs -> recency ucmp ps = true ->
  hit_spec (concat ps) k q (first_found rs).
Proof.
  induction 1 as [|p r ps rs Hpr HF IH]; intros Hrec.
  - exists None. split; [intros e []|reflexivity].
  - rewrite recency_cons in Hrec. apply andb_prop in Hrec. destruct Hrec as [Hp Hrec].
    rewrite first_found_cons. cbn [concat].
    apply hit_spec_app; [exact Hpr|apply IH; exact Hrec|].
    intros o m Ho Hm Heq. apply in_concat in Hm. destruct Hm as (p' & Hp' & Hm).
    rewrite forallb_forall in Hp. specialize (Hp p' Hp').
    apply newer_outside_spec in Hp. exact (Hp o m Ho Hm Heq).
Qed.

Lemma search_files_first_found fs k q :
  search_files ucmp fs k q = first_found (map (fun f => get_in_run ucmp (fents f) k q) fs).
Proof.
  induction fs as [|f r IH].
  - reflexivity.
  - cbn [search_files map]. rewrite first_found_cons, IH.
    destruct (get_in_run ucmp (fents f) k q); reflexivity.
Qed.

Lemma deeper_get_first_found lv k q :
  deeper_get ucmp lv k q = first_found (map (fun fs => level_get ucmp fs k q) lv).
Proof.
  induction lv as [|fs r IH].
  - reflexivity.
  - cbn [deeper_get map]. rewrite first_found_cons, IH.
    destruct (level_get ucmp fs k q); reflexivity.
Qed.

(* ------------------------------------------------------------------ 6/7. files *)
Lemma file_ok_parts f :
  file_ok ucmp f = true -> exists a t, fents f = a :: t /\ sorted_run ucmp (a :: t) = true.
Proof.
  unfold file_ok. intros H. apply andb_prop in H. destruct H as [Hne Hs].
  destruct (fents f) as [|a t]; [discriminate|]. exists a, t. split; [reflexivity|exact Hs].
Qed.

(* key lemma 4: the level-0 range test only discards files without the key *)
Lemma out_of_range_nohit f k q :
  file_ok ucmp f = true -> in_user_range ucmp f k = false ->
  get_in_run ucmp (fents f) k q = NotHere.
Proof.
  intros Hok Hr. destruct (file_ok_parts f Hok) as (a & t & Hf & Hs).
  apply get_in_run_nokey. rewrite Hf.
  unfold in_user_range, fsmallest, flargest in Hr. rewrite Hf in Hr. cbn [hd_error] in Hr.
  apply andb_false_iff in Hr. unfold ule in Hr. destruct Hr as [Hr|Hr].
  - destruct (ucmp (ek a) k) eqn:E; try discriminate. apply (nokey_low k a t Hs E).
  - destruct (ucmp k (ek (last t a))) eqn:E; try discriminate.
    apply (nokey_high k a t Hs (ucmp_gt_lt _ _ E)).
Qed.

Lemma level_get_cons f r k q :
  level_get ucmp (f :: r) k q =
  if largest_ge_target ucmp k q f then
    match fsmallest f with
    | Some a => if ult ucmp k (ek a) then NotHere else get_in_run ucmp (fents f) k q
    | None => NotHere
    end
  else level_get ucmp r k q.
Proof. unfold level_get. cbn [find]. destruct (largest_ge_target ucmp k q f); reflexivity. Qed.

(* key lemma 5a: find_file + seek in that file = seek in the concatenation *)
Lemma level_get_eq fs k q :
  (forall f, In f fs -> file_ok ucmp f = true) ->
  level_get ucmp fs k q = get_in_run ucmp (level_entries fs) k q.
Proof.
  induction fs as [|f r IH]; intros Hok.
  - reflexivity.
  - rewrite level_get_cons.
    destruct (file_ok_parts f (Hok f (or_introl eq_refl))) as (a & t & Hf & Hs).
    change (level_entries (f :: r)) with (fents f ++ level_entries r).
    unfold largest_ge_target, flargest, fsmallest. rewrite Hf. cbn [hd_error].
    destruct (ge_target ucmp k q (last t a)) eqn:Hge.
    + assert (Hfind : exists e, find (ge_target ucmp k q) (a :: t) = Some e).
      { destruct (find (ge_target ucmp k q) (a :: t)) as [e|] eqn:F; [exists e; reflexivity|].
        rewrite (find_none _ _ F (last t a) (last_in t a)) in Hge. discriminate. }
      destruct Hfind as [e He].
      assert (Hsame : get_in_run ucmp ((a :: t) ++ level_entries r) k q
                      = get_in_run ucmp (a :: t) k q).
      { unfold get_in_run, seek_ge. rewrite (find_app_some _ _ _ _ He), He. reflexivity. }
      rewrite Hsame.
      destruct (ult ucmp k (ek a)) eqn:Hult; [|reflexivity].
      symmetry. apply get_in_run_nokey. apply (nokey_low k a t Hs).
      unfold ult in Hult. destruct (ucmp k (ek a)) eqn:E; try discriminate.
      apply ucmp_lt_gt. exact E.
    + rewrite IH by (intros g Hg; apply Hok; right; exact Hg).
      unfold get_in_run, seek_ge. rewrite find_app_none; [reflexivity|].
      intros e He. destruct (ge_target ucmp k q e) eqn:E; [|reflexivity].
      destruct (sorted_last a t Hs e He) as [->|Hlt]; [congruence|].
      rewrite (ge_target_mono k q _ _ Hlt E) in Hge. discriminate.
Qed.

Lemma level_sorted_cons2 f g r :
  level_sorted ucmp (f :: g :: r) =
  (match flargest f, fsmallest g with Some a, Some b => ilt ucmp a b | _, _ => false end)
  && level_sorted ucmp (g :: r).
Proof. reflexivity. Qed.

(* key lemma 5b: a sorted, disjoint level is one strictly sorted run *)
Lemma level_entries_sorted fs :
  (forall f, In f fs -> file_ok ucmp f = true) -> level_sorted ucmp fs = true ->
  sorted_run ucmp (level_entries fs) = true.
Proof.
  induction fs as [|f r IH]; intros Hok Hls.
  - reflexivity.
  - destruct (file_ok_parts f (Hok f (or_introl eq_refl))) as (a & t & Hf & Hs).
    change (level_entries (f :: r)) with (fents f ++ level_entries r).
    destruct r as [|g r'].
    + change (level_entries []) with (@nil entry). rewrite app_nil_r, Hf. exact Hs.
    + destruct (file_ok_parts g (Hok g (or_intror (or_introl eq_refl)))) as (b & u & Hg & Hsg).
      rewrite level_sorted_cons2 in Hls. apply andb_prop in Hls. destruct Hls as [Hfg Hls].
      unfold flargest, fsmallest in Hfg. rewrite Hf, Hg in Hfg. cbn [hd_error] in Hfg.
      assert (Hrec : sorted_run ucmp (level_entries (g :: r')) = true).
      { apply IH; [intros h Hh; apply Hok; right; exact Hh|exact Hls]. }
      change (level_entries (g :: r')) with (fents g ++ level_entries r') in Hrec |- *.
      rewrite Hg in Hrec |- *. rewrite Hf.
      change ((b :: u) ++ level_entries r') with (b :: (u ++ level_entries r')) in Hrec |- *.
      apply sorted_run_app; [exact Hs|exact Hrec|exact Hfg].
Qed.

Lemma hit_spec_level fs k q :
  (forall f, In f fs -> file_ok ucmp f = true) -> level_sorted ucmp fs = true ->
  hit_spec (level_entries fs) k q (level_get ucmp fs k q).
Proof.
  intros Hok Hls. rewrite (level_get_eq fs k q Hok).
  apply hit_spec_run. apply level_entries_sorted; assumption.
Qed.

Lemma level_get_best fs k q :
  (forall f, In f fs -> file_ok ucmp f = true) -> level_sorted ucmp fs = true ->
  level_get ucmp fs k q = result_of (best ucmp (level_entries fs) k q).
Proof. intros Hok Hls. apply hit_spec_best. apply hit_spec_level; assumption. Qed.

(* ------------------------------------------------------------------ 8. assembly *)
Lemma inv_b_parts s : inv_b ucmp s = true ->
  (length (levels s) =? NUM_LEVELS)%nat = true /\
  sorted_run ucmp (mem s) = true /\
  (match imm s with Some im => sorted_run ucmp im | None => true end) = true /\
  forallb (forallb (file_ok ucmp)) (levels s) = true /\
  forallb (level_sorted ucmp) (skipn 1 (levels s)) = true /\
  recency ucmp (places s) = true /\
  forallb (fun e => es e <=? last_seq s) (all_entries s) = true /\
  forallb (fun f => fnum f <? next_file s) (concat (levels s)) = true /\
  nodup_nums (concat (levels s)) = true /\
  forallb (fun q => q <=? last_seq s) (snaps s) = true /\
  sorted_le (snaps s) = true.
Proof.
  unfold inv_b. intros H.
  apply andb_prop in H. destruct H as [H H11].
  apply andb_prop in H. destruct H as [H H10].
  apply andb_prop in H. destruct H as [H H9].
  apply andb_prop in H. destruct H as [H H8].
  apply andb_prop in H. destruct H as [H H7].
  apply andb_prop in H. destruct H as [H H6].
  apply andb_prop in H. destruct H as [H H5].
  apply andb_prop in H. destruct H as [H H4].
  apply andb_prop in H. destruct H as [H H3].
  apply andb_prop in H. destruct H as [H1 H2].
  repeat (split; [assumption|]). assumption.
Qed.

Lemma get_first_found s k q l0 deeper :
  levels s = l0 :: deeper ->
  get ucmp s k q =
  first_found (get_in_run ucmp (mem s) k q :: get_in_run ucmp (imm_run s) k q ::
               map (fun f => get_in_run ucmp (fents f) k q)
                   (sort_newest (filter (fun f => in_user_range ucmp f k) l0))
               ++ map (fun fs => level_get ucmp fs k q) deeper).
Proof.
  intros HL. unfold get, version_get. rewrite HL.
  rewrite search_files_first_found, deeper_get_first_found.
  rewrite !first_found_cons, first_found_app.
  reflexivity.
Qed.

(* the read path finds the strict best of all entries *)
Theorem get_hit s k q : inv_b ucmp s = true -> hit_spec (all_entries s) k q (get ucmp s k q).
Proof.
  intros Hinv. apply inv_b_parts in Hinv.
  destruct Hinv as (Hlen & Hmem & Himm & Hok & Hls & Hrec & _).
  destruct (levels s) as [|l0 deeper] eqn:HL; [discriminate|].
  assert (Hplaces : places s = mem s :: imm_run s :: map fents (sort_newest l0)
                                 ++ map level_entries deeper).
  { unfold places, level_files. rewrite HL. reflexivity. }
  cbn [skipn] in Hls. cbn [forallb] in Hok. apply andb_prop in Hok. destruct Hok as [Hok0 Hokd].
  rewrite forallb_forall in Hok0, Hokd, Hls.
  assert (Himm' : sorted_run ucmp (imm_run s) = true).
  { unfold imm_run. destruct (imm s); [exact Himm|reflexivity]. }
  rewrite (get_first_found s k q l0 deeper HL).
  (* drop the range pre-filter *)
  rewrite sort_newest_filter.
  assert (Hfilter :
    first_found (get_in_run ucmp (mem s) k q :: get_in_run ucmp (imm_run s) k q ::
                 map (fun f => get_in_run ucmp (fents f) k q)
                     (filter (fun f => in_user_range ucmp f k) (sort_newest l0))
                 ++ map (fun fs => level_get ucmp fs k q) deeper)
    = first_found (get_in_run ucmp (mem s) k q :: get_in_run ucmp (imm_run s) k q ::
                   map (fun f => get_in_run ucmp (fents f) k q) (sort_newest l0)
                   ++ map (fun fs => level_get ucmp fs k q) deeper)).
  { rewrite !first_found_cons, !first_found_app. rewrite first_found_filter; [reflexivity|].
    intros f Hf Hr. apply out_of_range_nohit; [|exact Hr].
    apply Hok0. apply sort_newest_in. exact Hf. }
  rewrite Hfilter.
  (* first hit over the places *)
  apply (hit_spec_ext (concat (places s))).
  { intros e. rewrite Hplaces. unfold all_entries. rewrite HL.
    cbn [concat map]. rewrite concat_app, !in_app_iff, in_sorted_l0. reflexivity. }
  rewrite Hplaces in Hrec |- *.
  apply first_hit; [|exact Hrec].
  constructor; [apply hit_spec_run; exact Hmem|].
  constructor; [apply hit_spec_run; exact Himm'|].
  apply Forall2_app.
  - apply Forall2_map_same. intros f Hf. apply hit_spec_run.
    apply (proj1 (sort_newest_in l0 f)) in Hf. specialize (Hok0 f Hf).
    destruct (file_ok_parts f Hok0) as (a & t & -> & Hs). exact Hs.
  - apply Forall2_map_same. intros fs Hfs. apply hit_spec_level.
    + specialize (Hokd fs Hfs). rewrite forallb_forall in Hokd. exact Hokd.
    + apply Hls. exact Hfs.
Qed.

Theorem get_correct : forall s k q,
  inv_b ucmp s = true ->
  get ucmp s k q = result_of (best ucmp (all_entries s) k q).
Proof. intros s k q Hinv. apply hit_spec_best. apply get_hit. exact Hinv. Qed.

Corollary get_view : forall s k q,
  inv_b ucmp s = true ->
  visible (get ucmp s k q) = view ucmp s k q.
Proof. intros s k q Hinv. unfold view. rewrite (get_correct s k q Hinv). reflexivity. Qed.

End Read.

(* ------------------------------------------------------------------ 9. non-vacuity *)
(* keys a b c d; "a" lives in the memtable, in two overlapping level-0 files, in
   level 1 and in level 2; "c" has a tombstone in the memtable above values in
   level 0 and level 2; "b" straddles the two level-1 files (sequence 7 ends file 7,
   sequence 6 starts file 8).  Level 0 is stored oldest file first, so the read
   path really has to reorder it. *)
Definition ka : bytes := [97].
Definition kb : bytes := [98].
Definition kc : bytes := [99].
Definition kd : bytes := [100].

Definition ex_state : state :=
  mkS [mkE ka 20 true [20]; mkE kc 19 false []]
      (Some [mkE kb 17 true [17]])
      [ [mkF 9 [mkE ka 12 false []; mkE kb 11 true [11]; mkE kc 10 true [10]];
         mkF 10 [mkE ka 15 true [15]; mkE kd 14 true [14]]];
        [mkF 7 [mkE ka 8 true [8]; mkE kb 7 true [7]];
         mkF 8 [mkE kb 6 true [6]; mkE kd 5 true [5]]];
        [mkF 4 [mkE ka 2 true [2]; mkE kc 1 true [1]]];
        []; []; []; [] ]
      20 [12; 18] 11 [].

Example ex_inv : inv_b bytes_compare ex_state = true.
Proof. vm_compute. reflexivity. Qed.

Example ex_a_latest : get bytes_compare ex_state ka 20 = Found [20].
Proof. vm_compute. reflexivity. Qed.
Example ex_a_l0_newest : get bytes_compare ex_state ka 16 = Found [15].
Proof. vm_compute. reflexivity. Qed.
Example ex_a_l0_tombstone : get bytes_compare ex_state ka 13 = Deleted.
Proof. vm_compute. reflexivity. Qed.
Example ex_a_l1 : get bytes_compare ex_state ka 9 = Found [8].
Proof. vm_compute. reflexivity. Qed.
Example ex_a_l2 : get bytes_compare ex_state ka 3 = Found [2].
Proof. vm_compute. reflexivity. Qed.
Example ex_a_before : get bytes_compare ex_state ka 1 = NotHere.
Proof. vm_compute. reflexivity. Qed.
Example ex_b_imm : get bytes_compare ex_state kb 20 = Found [17].
Proof. vm_compute. reflexivity. Qed.
Example ex_b_straddle_hi : get bytes_compare ex_state kb 7 = Found [7].
Proof. vm_compute. reflexivity. Qed.
Example ex_b_straddle_lo : get bytes_compare ex_state kb 6 = Found [6].
Proof. vm_compute. reflexivity. Qed.
Example ex_c_tombstone : get bytes_compare ex_state kc 20 = Deleted.
Proof. vm_compute. reflexivity. Qed.
Example ex_c_below_tombstone : get bytes_compare ex_state kc 18 = Found [10].
Proof. vm_compute. reflexivity. Qed.
Example ex_c_deep : get bytes_compare ex_state kc 5 = Found [1].
Proof. vm_compute. reflexivity. Qed.
Example ex_d : get bytes_compare ex_state kd 20 = Found [14].
Proof. vm_compute. reflexivity. Qed.
Example ex_absent : get bytes_compare ex_state [101] 20 = NotHere.
Proof. vm_compute. reflexivity. Qed.
Example ex_view_c : visible (get bytes_compare ex_state kc 20) = None.
Proof. vm_compute. reflexivity. Qed.

(* the theorem instantiated on the concrete state, for both comparators of lcdb *)
Example ex_get_correct : forall k q,
  get bytes_compare ex_state k q = result_of (best bytes_compare (all_entries ex_state) k q).
Proof. intros k q. apply (get_correct bytes_compare bytes_compare_total). exact ex_inv. Qed.

Theorem get_correct_bytewise : forall s k q,
  inv_b bytes_compare s = true ->
  get bytes_compare s k q = result_of (best bytes_compare (all_entries s) k q).
Proof. exact (get_correct bytes_compare bytes_compare_total). Qed.

Theorem get_correct_reverse : forall s k q,
  inv_b (fun a b => bytes_compare b a) s = true ->
  get (fun a b => bytes_compare b a) s k q
  = result_of (best (fun a b => bytes_compare b a) (all_entries s) k q).
Proof. exact (get_correct _ rev_compare_total). Qed.

Print Assumptions get_correct.
Print Assumptions get_view.
