(* Properties_C05.v -- C05: after a crash at any instant recovery succeeds and yields the
   in-order application of the issued batches minus at most a tail of each log segment.
   Record-level model FsModel.v, proofs FsProofs.v.  Covers every trace accepted by
   [wf_protocol]; batches of logs below the recovered log_number are [flushed]. *)
From LCDB Require Import Base LogFormat LogFormatClosed FsModel FsProofs.
Local Open Scope N_scope.

Theorem C05_log_cut_is_record_prefix : forall rs n,
  Forall (fun r => wf_bytes r = true) rs -> (n <= length (write_log rs))%nat ->
  exists k, read_log (firstn n (write_log rs)) = map Rec (firstn k rs).
Proof. exact read_cut_prefix. Qed.
Print Assumptions C05_log_cut_is_record_prefix.

Theorem C05_recovery_total_and_tail_only : forall tr, wf_protocol tr = true ->
  forall p img, crash_image (firstn p tr) img -> iget img FCurrent <> None ->
  exists s, recover img = Some s /\ per_segment_prefix (firstn p tr) s /\
    (forall n b, In b (log_batches (firstn p tr) n) -> n < r_log s -> flushed (firstn p tr) b).
Proof. exact FsProofs.C05_recovery_total_and_tail_only. Qed.
Print Assumptions C05_recovery_total_and_tail_only.

Theorem C05_rep_images_sound : forall tr img, In img (rep_images tr) -> crash_image tr img.
Proof. exact rep_images_sound. Qed.
Print Assumptions C05_rep_images_sound.
