(* TableBuildProofs.v -- (e) the table builder round-trips through the linear table
   reader: table_entries (table_build es) = Ok (inr es), for any comparator hooks
   (separator / successor), any filter policy, any compression function that the
   Snappy decoder inverts, any block size and restart interval.  No sortedness is
   needed for this direction (the linear reader never compares keys). *)
From LCDB Require Import Base Varint Crc32c Block Trie Filter Snappy TableFormat.
From LCDB Require Import BaseProofs VarintProofs Crc32cProofs BlockProofs FilterProofs SnappyProofs TableProofs.
Require Import Lia ZifyBool ZifyNat ZifyN.
Ltac Zify.zify_post_hook ::= Z.div_mod_to_equations.
Local Open Scope N_scope.

Definition file_of (chunks : list bytes) : bytes := concat (rev chunks).

Lemma file_of_cons : forall a c, file_of (a :: c) = file_of c ++ a.
Proof.
  intros. unfold file_of. cbn [rev]. rewrite concat_app. cbn [concat]. rewrite app_nil_r. reflexivity.
Qed.

(* ------------------------------------------------------------------ *)
(* handles and footer                                                  *)
(* ------------------------------------------------------------------ *)
Lemma handle_decode_encode : forall h rest,
  fst h < 18446744073709551616 -> snd h < 18446744073709551616 ->
  handle_decode (handle_encode h ++ rest) = Some (h, rest).
Proof.
  intros [o s] rest Ho Hs. cbn [fst snd] in *. unfold handle_decode, handle_encode. cbn [fst snd].
  rewrite <- app_assoc. rewrite varint64_read_write by exact Ho.
  rewrite varint64_read_write by exact Hs. reflexivity.
Qed.

Lemma handle_encode_length : forall h,
  fst h < 18446744073709551616 -> snd h < 18446744073709551616 ->
  2 <= nlen (handle_encode h) <= 20.
Proof.
  intros [o s] Ho Hs. cbn [fst snd] in *. unfold handle_encode. cbn [fst snd].
  rewrite nlen_app.
  pose proof (varint64_write_length_le o Ho). pose proof (varint64_write_length_le s Hs). lia.
Qed.

Lemma nlen_repeat : forall (x : N) n, nlen (repeat x n) = N.of_nat n.
Proof. intros. unfold nlen. rewrite repeat_length. reflexivity. Qed.

Lemma footer_encode_length : forall mi ih,
  fst mi < 18446744073709551616 -> snd mi < 18446744073709551616 ->
  fst ih < 18446744073709551616 -> snd ih < 18446744073709551616 ->
  nlen (footer_encode mi ih) = 48.
Proof.
  intros mi ih H1 H2 H3 H4. unfold footer_encode.
  pose proof (handle_encode_length mi H1 H2). pose proof (handle_encode_length ih H3 H4).
  rewrite !nlen_app, nlen_repeat. unfold nlen at 3. rewrite le64_length.
  unfold nlen in *. rewrite app_length in *. lia.
Qed.

Lemma footer_decode_encode : forall mi ih,
  fst mi < 18446744073709551616 -> snd mi < 18446744073709551616 ->
  fst ih < 18446744073709551616 -> snd ih < 18446744073709551616 ->
  footer_decode (footer_encode mi ih) = Ok (Some (mi, ih)).
Proof.
  intros mi ih H1 H2 H3 H4. unfold footer_decode.
  rewrite footer_encode_length by assumption. unfold FOOTER_SIZE.
  replace (48 <? 48) with false by lia.
  pose proof (handle_encode_length mi H1 H2). pose proof (handle_encode_length ih H3 H4).
  unfold footer_encode at 1.
  set (hs := handle_encode mi ++ handle_encode ih).
  assert (Hhs : (length hs <= 40)%nat).
  { subst hs. unfold nlen in *. rewrite app_length. lia. }
  rewrite app_assoc.
  rewrite drop_n_app_exact.
  2:{ rewrite nlen_app, nlen_repeat. unfold nlen. lia. }
  rewrite <- (app_nil_r (le64 TABLE_MAGIC)).
  rewrite de64_le64 by (unfold TABLE_MAGIC; lia).
  rewrite N.eqb_refl. cbn [negb].
  unfold footer_encode. subst hs. rewrite <- !app_assoc.
  rewrite handle_decode_encode by assumption.
  rewrite handle_decode_encode by assumption. reflexivity.
Qed.

(* ------------------------------------------------------------------ *)
(* stored blocks                                                       *)
(* ------------------------------------------------------------------ *)
Definition block_trailer (stored : bytes) (ty : N) : bytes :=
  ty :: le32 (crc_mask (crc_extend (crc_value stored) [ty])).

(* the file has, at handle h, a block whose uncompressed contents are [raw] *)
Definition stored_at (file : bytes) (h : handle) (raw : bytes) : Prop :=
  exists pre stored ty post,
    file = pre ++ (stored ++ block_trailer stored ty) ++ post /\
    nlen pre = fst h /\ nlen stored = snd h /\
    ((ty = 0 /\ stored = raw) \/
     (ty = 1 /\ snappy_decode_size stored <> None /\ snappy_decode stored = Ok (Some raw))).

Lemma nlen_block_trailer : forall stored ty, nlen (block_trailer stored ty) = 5.
Proof. intros. unfold block_trailer. rewrite nlen_cons. unfold nlen. rewrite le32_length. reflexivity. Qed.

Lemma stored_at_app : forall file h raw more,
  stored_at file h raw -> stored_at (file ++ more) h raw.
Proof.
  intros file h raw more (pre & stored & ty & post & Hf & H1 & H2 & H3).
  exists pre, stored, ty, (post ++ more). split; [|auto].
  rewrite Hf. rewrite <- !app_assoc. reflexivity.
Qed.

Lemma stored_at_bound : forall file h raw,
  stored_at file h raw -> fst h + snd h + 5 <= nlen file.
Proof.
  intros file h raw (pre & stored & ty & post & Hf & H1 & H2 & _).
  rewrite Hf, !nlen_app. unfold block_trailer. rewrite nlen_cons.
  unfold nlen at 3. rewrite le32_length. lia.
Qed.

Lemma wf_bytes_app_l : forall a b, wf_bytes (a ++ b) = true -> wf_bytes a = true.
Proof. intros a b H. apply wf_bytes_app in H. apply H. Qed.
Lemma wf_bytes_app_r : forall a b, wf_bytes (a ++ b) = true -> wf_bytes b = true.
Proof. intros a b H. apply wf_bytes_app in H. apply H. Qed.

Lemma read_block_stored : forall file h raw verify,
  stored_at file h raw -> wf_bytes file = true -> nlen file < 18446744073709551616 ->
  read_block file (nlen file) verify h = Ok (RBok raw).
Proof.
  intros file [off n] raw verify Hst Hwf Hlen.
  pose proof (stored_at_bound _ _ _ Hst) as Hb. cbn [fst snd] in Hb.
  destruct Hst as (pre & stored & ty & post & Hf & H1 & H2 & H3). cbn [fst snd] in H1, H2.
  unfold read_block.
  replace (18446744073709551610 <? n) with false by lia.
  unfold TRAILER_SIZE.
  replace (nlen file <? off + (n + 5)) with false by lia.
  rewrite slice_ok by (auto; lia). cbn [rbind].
  assert (Hc : take_n (n + 5) (drop_n off file) = stored ++ block_trailer stored ty).
  { rewrite Hf. rewrite drop_n_app_exact by (symmetry; exact H1).
    apply take_n_app_exact. rewrite nlen_app. unfold block_trailer. rewrite nlen_cons.
    unfold nlen at 2. rewrite le32_length. lia. }
  rewrite Hc.
  rewrite (take_n_app_exact stored (block_trailer stored ty) n) by (symmetry; exact H2).
  rewrite (drop_n_app_exact stored (block_trailer stored ty) n) by (symmetry; exact H2).
  assert (Hwfs : wf_bytes (stored ++ [ty]) = true).
  { rewrite Hf in Hwf. apply wf_bytes_app_r in Hwf. apply wf_bytes_app_l in Hwf.
    unfold block_trailer in Hwf.
    change (ty :: le32 (crc_mask (crc_extend (crc_value stored) [ty])))
      with ([ty] ++ le32 (crc_mask (crc_extend (crc_value stored) [ty]))) in Hwf.
    rewrite app_assoc in Hwf. apply wf_bytes_app_l in Hwf. exact Hwf. }
  set (crc := crc_extend (crc_value stored) [ty]).
  assert (Hcrc : crc < 4294967296).
  { subst crc. rewrite crc_value_app. apply crc_value_bound. exact Hwfs. }
  pose proof (crc_mask_bound crc) as Hm.
  unfold block_trailer. fold crc. unfold le32.
  set (m := crc_mask crc) in *.
  replace (m mod 256 + 256 * (m / 256 mod 256) + 65536 * (m / 65536 mod 256)
           + 16777216 * (m / 16777216 mod 256)) with m by lia.
  assert (Hbad : (if verify
                  then negb (crc_unmask m =? crc_value (take_n (n + 1)
                         (stored ++ [ty; m mod 256; m / 256 mod 256; m / 65536 mod 256; m / 16777216 mod 256])))
                  else false) = false).
  { destruct verify; [|reflexivity].
    change (stored ++ [ty; m mod 256; m / 256 mod 256; m / 65536 mod 256; m / 16777216 mod 256])
      with (stored ++ [ty] ++ [m mod 256; m / 256 mod 256; m / 65536 mod 256; m / 16777216 mod 256]).
    rewrite app_assoc. rewrite take_n_app_exact by (rewrite nlen_app, nlen_cons, nlen_nil; lia).
    subst m. rewrite crc_unmask_mask by exact Hcrc. subst crc. rewrite crc_value_app.
    rewrite N.eqb_refl. reflexivity. }
  rewrite Hbad.
  destruct H3 as [[-> ->]|(-> & Hsz & Hdec)].
  - reflexivity.
  - cbn [N.eqb]. destruct (snappy_decode_size stored); [|congruence].
    rewrite Hdec. reflexivity.
Qed.

(* ------------------------------------------------------------------ *)
(* block builder facts                                                 *)
(* ------------------------------------------------------------------ *)
Lemma bb_add_all_snoc : forall interval b es k v,
  bb_add_all interval b (es ++ [(k, v)]) = bb_add interval (bb_add_all interval b es) k v.
Proof. intros. unfold bb_add_all. rewrite fold_left_app. reflexivity. Qed.

Lemma bb_add_size_pos : forall interval b k v, 1 <= bb_size (bb_add interval b k v).
Proof.
  intros. unfold bb_add. cbn [bb_size].
  destruct (encode_entry_nonempty (if negb (bb_counter b <? interval) then 0 else shared_len (bb_last b) k) k v)
    as [a [t ->]]. rewrite nlen_cons. lia.
Qed.

Lemma bb_add_all_empty_iff : forall interval es,
  bb_is_empty (bb_add_all interval bb_empty es) = true <-> es = [].
Proof.
  intros interval es. split.
  - destruct es as [|e es] using rev_ind; [reflexivity|].
    destruct e as [k v]. rewrite bb_add_all_snoc. unfold bb_is_empty.
    pose proof (bb_add_size_pos interval (bb_add_all interval bb_empty es) k v). lia.
  - intros ->. reflexivity.
Qed.

Lemma concat_map_snd_app : forall (A B : Type) (l : list (A * list B)) x,
  concat (map snd (l ++ [x])) = concat (map snd l) ++ snd x.
Proof. intros. rewrite map_app, concat_app. cbn [map concat]. rewrite app_nil_r. reflexivity. Qed.

Section RoundTrip.
Variable is_internal : bool.
Variable sep : bytes -> bytes -> bytes.
Variable succ : bytes -> bytes.
Variable has_filter : bool.
Variable fbuild : list bytes -> bytes.
Variable compress : bytes -> bytes.
Variables block_size interval compression : N.

(* the Snappy decoder inverts the compression function wherever its output is kept *)
Hypothesis Hcompress : compression = 1 -> forall raw,
  nlen (compress raw) < nlen raw - nlen raw / 8 ->
  snappy_decode_size (compress raw) <> None /\ snappy_decode (compress raw) = Ok (Some raw).

(* keys: data keys satisfy dkey; index keys produced by the comparator hooks are
   short enough for a block entry and (for the internal comparator) >= 8 bytes *)
Variable dkey : bytes -> Prop.
Definition ikeyok (k : bytes) : Prop :=
  nlen k < 4294967296 /\ (is_internal = true -> 8 <= nlen k).
Hypothesis Hdkey : forall k, dkey k -> ikeyok k.
Hypothesis Hsep : forall a b, dkey a -> ikeyok (sep a b).
Hypothesis Hsucc : forall a, dkey a -> ikeyok (succ a).

Definition eok (e : entry) : Prop := wf_entry e /\ dkey (fst e).

Lemma write_raw_block_spec : forall chunks offset contents ty chunks' offset' h,
  write_raw_block chunks offset contents ty = (chunks', offset', h) ->
  offset = nlen (file_of chunks) ->
  file_of chunks' = file_of chunks ++ contents ++ block_trailer contents ty /\
  offset' = nlen (file_of chunks') /\ h = (offset, nlen contents).
Proof.
  intros chunks offset contents ty chunks' offset' h H Ho.
  unfold write_raw_block in H. inversion H; subst; clear H.
  rewrite !file_of_cons. rewrite <- app_assoc. split; [reflexivity|]. split; [|reflexivity].
  rewrite !nlen_app. unfold TRAILER_SIZE.
  change (ty :: le32 (crc_mask (crc_extend (crc_value contents) [ty]))) with (block_trailer contents ty).
  rewrite nlen_block_trailer. lia.
Qed.

Lemma write_block_spec : forall chunks offset b chunks' offset' h,
  write_block compress compression chunks offset b = (chunks', offset', h) ->
  offset = nlen (file_of chunks) ->
  (exists more, file_of chunks' = file_of chunks ++ more) /\
  offset' = nlen (file_of chunks') /\
  stored_at (file_of chunks') h (bb_finish b).
Proof.
  intros chunks offset b chunks' offset' h H Ho.
  unfold write_block in H.
  destruct (block_contents compress compression (bb_finish b)) as [contents ty] eqn:Ec.
  destruct (write_raw_block_spec _ _ _ _ _ _ _ H Ho) as (Hf & Ho' & Hh).
  split; [eexists; exact Hf|]. split; [exact Ho'|].
  exists (file_of chunks), contents, ty, []. rewrite app_nil_r.
  split; [exact Hf|]. subst h. cbn [fst snd]. split; [symmetry; exact Ho|]. split; [reflexivity|].
  unfold block_contents in Ec.
  destruct (compression =? 1) eqn:Ecomp.
  - destruct (nlen (compress (bb_finish b)) <? nlen (bb_finish b) - nlen (bb_finish b) / 8) eqn:E.
    + inversion Ec; subst. right. split; [reflexivity|]. apply Hcompress; [lia|lia].
    + inversion Ec; subst. left. auto.
  - inversion Ec; subst. left. auto.
Qed.

(* ---- invariant of the table builder ---- *)
Definition hkey (fb : handle * list entry) : bytes := handle_encode (fst fb).

Record tinv (t : tbuilder) (done : list entry) (flushed : list (handle * list entry))
            (cur idx : list entry) : Prop := {
  ti_off : tb_offset t = nlen (file_of (tb_chunks t));
  ti_done : done = concat (map snd flushed) ++ cur;
  ti_wf : Forall eok done;
  ti_data : tb_data t = bb_add_all interval bb_empty cur;
  ti_stored : Forall (fun fb => stored_at (file_of (tb_chunks t)) (fst fb) (block_build interval (snd fb))
                                /\ snd fb <> []) flushed;
  ti_index : tb_index t = bb_add_all 1 bb_empty idx;
  ti_pending : match tb_pending t with
               | None => map snd idx = map hkey flushed
               | Some h => cur = [] /\ exists fl' bes, flushed = fl' ++ [(h, bes)] /\ map snd idx = map hkey fl'
               end;
  ti_idxkeys : Forall ikeyok (map fst idx);
  ti_last : done <> [] -> dkey (tb_last_key t)
}.

Lemma tinv_empty : tinv (tb_empty fbuild) [] [] [] [].
Proof.
  constructor; cbn; auto. intros H; congruence.
Qed.

Lemma Forall_stored_app : forall (P : handle * list entry -> Prop) file more fl,
  Forall (fun fb => stored_at file (fst fb) (block_build interval (snd fb)) /\ snd fb <> []) fl ->
  Forall (fun fb => stored_at (file ++ more) (fst fb) (block_build interval (snd fb)) /\ snd fb <> []) fl.
Proof.
  intros P file more fl H. eapply Forall_impl; [|exact H].
  intros fb [A B]. split; [apply stored_at_app; exact A|exact B].
Qed.

Lemma tb_flush_inv : forall t done fl cur idx,
  tinv t done fl cur idx ->
  exists fl', tinv (tb_flush has_filter fbuild compress compression t) done fl' [] idx.
Proof.
  intros t done fl cur idx Hinv. unfold tb_flush.
  destruct (bb_is_empty (tb_data t)) eqn:E.
  - rewrite (ti_data _ _ _ _ _ Hinv) in E. apply bb_add_all_empty_iff in E. subst cur.
    exists fl. exact Hinv.
  - assert (Hcur : cur <> []).
    { intros ->. rewrite (ti_data _ _ _ _ _ Hinv) in E. cbn in E. discriminate. }
    destruct (write_block compress compression (tb_chunks t) (tb_offset t) (tb_data t))
      as [[chunks' offset'] h] eqn:Ew.
    destruct (write_block_spec _ _ _ _ _ _ Ew (ti_off _ _ _ _ _ Hinv)) as ([more Hmore] & Ho' & Hst).
    pose proof (ti_pending _ _ _ _ _ Hinv) as Hp.
    destruct (tb_pending t) as [hp|] eqn:Ep; [destruct Hp as [Hc _]; congruence|].
    exists (fl ++ [(h, cur)]).
    constructor; cbn [tb_offset tb_chunks tb_data tb_index tb_pending tb_last_key].
    + exact Ho'.
    + rewrite concat_map_snd_app. cbn [snd]. rewrite app_nil_r. apply (ti_done _ _ _ _ _ Hinv).
    + apply (ti_wf _ _ _ _ _ Hinv).
    + reflexivity.
    + apply Forall_app. split.
      * rewrite Hmore. apply (Forall_stored_app (fun _ => True)). apply (ti_stored _ _ _ _ _ Hinv).
      * constructor; [|constructor]. cbn [fst snd]. split; [|exact Hcur].
        rewrite (ti_data _ _ _ _ _ Hinv) in Hst. exact Hst.
    + apply (ti_index _ _ _ _ _ Hinv).
    + split; [reflexivity|]. exists fl, cur. split; [reflexivity|exact Hp].
    + apply (ti_idxkeys _ _ _ _ _ Hinv).
    + apply (ti_last _ _ _ _ _ Hinv).
Qed.

Lemma tb_add_inv : forall t done fl cur idx k v,
  tinv t done fl cur idx -> eok (k, v) ->
  exists fl' cur' idx',
    tinv (tb_add sep has_filter fbuild compress block_size interval compression t k v)
         (done ++ [(k, v)]) fl' cur' idx'.
Proof.
  intros t done fl cur idx k v Hinv Hk.
  unfold tb_add.
  set (index1 := match tb_pending t with
                 | Some h => bb_add 1 (tb_index t) (sep (tb_last_key t) k) (handle_encode h)
                 | None => tb_index t end).
  set (filter1 := if has_filter then fb_add_key (tb_filter t) k else tb_filter t).
  set (data1 := bb_add interval (tb_data t) k v).
  set (t1 := mk_tb (tb_chunks t) (tb_offset t) data1 index1 k filter1 None).
  assert (H1 : exists idx', tinv t1 (done ++ [(k, v)]) fl (cur ++ [(k, v)]) idx').
  { pose proof (ti_pending _ _ _ _ _ Hinv) as Hp.
    destruct (tb_pending t) as [hp|] eqn:Ep.
    - destruct Hp as [Hc (fl0 & bes & Hfl & Hidx)]. subst cur.
      exists (idx ++ [(sep (tb_last_key t) k, handle_encode hp)]).
      constructor; unfold t1; cbn [tb_offset tb_chunks tb_data tb_index tb_pending tb_last_key].
      + apply (ti_off _ _ _ _ _ Hinv).
      + rewrite (ti_done _ _ _ _ _ Hinv). rewrite app_nil_r. reflexivity.
      + apply Forall_app. split; [apply (ti_wf _ _ _ _ _ Hinv)|constructor; [exact Hk|constructor]].
      + subst data1. rewrite (ti_data _ _ _ _ _ Hinv). cbn [app]. reflexivity.
      + apply (ti_stored _ _ _ _ _ Hinv).
      + subst index1. rewrite (ti_index _ _ _ _ _ Hinv). rewrite bb_add_all_snoc. reflexivity.
      + rewrite Hfl, !map_app. f_equal; try reflexivity; exact Hidx.
      + rewrite map_app. apply Forall_app. split; [apply (ti_idxkeys _ _ _ _ _ Hinv)|].
        constructor; [|constructor]. cbn [fst]. apply Hsep. apply (ti_last _ _ _ _ _ Hinv).
        rewrite (ti_done _ _ _ _ _ Hinv), Hfl. rewrite concat_map_snd_app. cbn [snd].
        pose proof (ti_stored _ _ _ _ _ Hinv) as Hs. rewrite Hfl in Hs.
        apply Forall_app in Hs. destruct Hs as [_ Hs]. inversion Hs as [|? ? [_ Hne] _]; subst.
        cbn [snd] in Hne. intro Hnil. apply app_eq_nil in Hnil. destruct Hnil as [Hnil _].
        apply app_eq_nil in Hnil. destruct Hnil as [_ Hnil]. congruence.
      + intros _. apply Hk.
    - exists idx.
      constructor; unfold t1; cbn [tb_offset tb_chunks tb_data tb_index tb_pending tb_last_key].
      + apply (ti_off _ _ _ _ _ Hinv).
      + rewrite (ti_done _ _ _ _ _ Hinv). rewrite app_assoc. reflexivity.
      + apply Forall_app. split; [apply (ti_wf _ _ _ _ _ Hinv)|constructor; [exact Hk|constructor]].
      + subst data1. rewrite (ti_data _ _ _ _ _ Hinv). rewrite bb_add_all_snoc. reflexivity.
      + apply (ti_stored _ _ _ _ _ Hinv).
      + apply (ti_index _ _ _ _ _ Hinv).
      + exact Hp.
      + apply (ti_idxkeys _ _ _ _ _ Hinv).
      + intros _. apply Hk. }
  destruct H1 as [idx' H1].
  destruct (block_size <=? bb_estimate data1).
  - destruct (tb_flush_inv t1 _ _ _ _ H1) as [fl' Hf]. exists fl', [], idx'. exact Hf.
  - exists fl, (cur ++ [(k, v)]), idx'. exact H1.
Qed.

Lemma tb_add_all_inv : forall es t done fl cur idx,
  tinv t done fl cur idx -> Forall eok es ->
  exists fl' cur' idx',
    tinv (fold_left (fun t e => tb_add sep has_filter fbuild compress block_size interval compression
                                       t (fst e) (snd e)) es t)
         (done ++ es) fl' cur' idx'.
Proof.
  induction es as [|[k v] es IH]; intros t done fl cur idx Hinv Hes.
  - cbn [fold_left]. rewrite app_nil_r. eauto.
  - inversion Hes; subst. cbn [fold_left fst snd].
    destruct (tb_add_inv t done fl cur idx k v Hinv H1) as (fl1 & cur1 & idx1 & H').
    destruct (IH _ _ _ _ _ H' H2) as (fl2 & cur2 & idx2 & H'').
    exists fl2, cur2, idx2. rewrite <- app_assoc in H''. exact H''.
Qed.

(* ---- reading back ---- *)
Lemma table_entries_loop_flushed : forall file verify fl idx,
  wf_bytes file = true -> nlen file < 18446744073709551616 ->
  map snd idx = map hkey fl ->
  Forall (fun fb => stored_at file (fst fb) (block_build interval (snd fb)) /\
                    wf_entries (snd fb) /\ keys_ge8 is_internal (snd fb)) fl ->
  table_entries_loop is_internal file (nlen file) verify idx = Ok (inr (concat (map snd fl))).
Proof.
  intros file verify fl. induction fl as [|[h bes] fl IH]; intros idx Hwf Hlen Hmap Hst.
  - destruct idx; [reflexivity|discriminate].
  - destruct idx as [|[k hv] idx]; [discriminate|].
    cbn [map snd] in Hmap. inversion Hmap as [[Hhv Hrest]].
    inversion Hst as [|? ? (S1 & S2 & S3) Hst']; subst. cbn [fst snd] in *.
    cbn [table_entries_loop]. unfold hkey. cbn [fst].
    pose proof (stored_at_bound _ _ _ S1) as Hb.
    rewrite <- (app_nil_r (handle_encode h)).
    rewrite handle_decode_encode by lia.
    rewrite (read_block_stored file h _ verify S1 Hwf Hlen). cbn [rbind].
    rewrite block_entries_gen_build by assumption.
    rewrite (IH idx Hwf Hlen Hrest Hst'). cbn [rbind map concat snd]. reflexivity.
Qed.

Lemma Forall_concat_blocks : forall (P : entry -> Prop) (fl : list (handle * list entry)),
  Forall P (concat (map snd fl)) -> Forall (fun fb => Forall P (snd fb)) fl.
Proof.
  intros P fl. induction fl as [|fb fl IH]; intros H; [constructor|].
  cbn [map concat] in H. apply Forall_app in H. destruct H as [A B].
  constructor; [exact A|apply IH; exact B].
Qed.

Lemma length_blocks_le : forall (fl : list (handle * list entry)),
  Forall (fun fb => snd fb <> []) fl -> (length fl <= length (concat (map snd fl)))%nat.
Proof.
  induction fl as [|fb fl IH]; intros H; [cbn; lia|].
  inversion H; subst. cbn [map concat length]. rewrite app_length.
  destruct (snd fb); [congruence|]. cbn [length]. specialize (IH H3). lia.
Qed.

Lemma in_block_len : forall (fl : list (handle * list entry)) fb,
  In fb fl -> nlen (snd fb) <= nlen (concat (map snd fl)).
Proof.
  induction fl as [|x fl IH]; intros fb Hin; [destruct Hin|].
  cbn [map concat]. rewrite nlen_app. destruct Hin as [->|Hin]; [lia|].
  specialize (IH fb Hin). lia.
Qed.

Lemma nlen_le_of_length : forall (A B : Type) (a : list A) (b : list B),
  (length a <= length b)%nat -> nlen a <= nlen b.
Proof. intros. unfold nlen. lia. Qed.

(* (e) the table builder round-trips through the linear reader *)
Theorem table_entries_build : forall paranoid verify es,
  Forall eok es -> nlen es + 1 < 4294967296 ->
  let file := table_build sep succ has_filter fbuild compress block_size interval compression es in
  wf_bytes file = true -> nlen file < 18446744073709551616 ->
  table_entries is_internal has_filter paranoid verify file = Ok (inr es).
Proof.
  intros paranoid verify es Hes Hcount file Hwf Hlen.
  destruct (tb_add_all_inv es (tb_empty fbuild) [] [] [] [] tinv_empty Hes) as (fl0 & cur0 & idx0 & Hinv0).
  cbn [app] in Hinv0.
  set (t := fold_left (fun t e => tb_add sep has_filter fbuild compress block_size interval compression
                                         t (fst e) (snd e)) es (tb_empty fbuild)) in *.
  destruct (tb_flush_inv t _ _ _ _ Hinv0) as [fl Hinv].
  set (t1 := tb_flush has_filter fbuild compress compression t) in *.
  (* decompose tb_finish *)
  assert (Hfile : exists chunks4 mh ih idxF,
            file = file_of chunks4 ++ footer_encode mh ih /\
            stored_at (file_of chunks4) ih (block_build 1 idxF) /\
            (exists rawm, stored_at (file_of chunks4) mh rawm) /\
            (exists more, file_of chunks4 = file_of (tb_chunks t1) ++ more) /\
            map snd idxF = map hkey fl /\ Forall ikeyok (map fst idxF)).
  { subst file. unfold table_build, tb_finish. fold t. fold t1.
    set (X2 := if has_filter
               then write_raw_block (tb_chunks t1) (tb_offset t1) (fb_finish fbuild (tb_filter t1)) 0
               else (tb_chunks t1, tb_offset t1, (0, 0))).
    assert (H2 : exists chunks2 offset2 fh more2, X2 = (chunks2, offset2, fh) /\
                   file_of chunks2 = file_of (tb_chunks t1) ++ more2 /\ offset2 = nlen (file_of chunks2)).
    { subst X2. destruct has_filter.
      - destruct (write_raw_block (tb_chunks t1) (tb_offset t1) (fb_finish fbuild (tb_filter t1)) 0)
          as [[c2 o2] fh] eqn:E.
        destruct (write_raw_block_spec _ _ _ _ _ _ _ E (ti_off _ _ _ _ _ Hinv)) as (A & B & _).
        exists c2, o2, fh. eexists. split; [reflexivity|]. split; [exact A|exact B].
      - exists (tb_chunks t1), (tb_offset t1), (0, 0), []. split; [reflexivity|].
        rewrite app_nil_r. split; [reflexivity|apply (ti_off _ _ _ _ _ Hinv)]. }
    destruct H2 as (chunks2 & offset2 & fh & more2 & -> & Hf2 & Ho2).
    set (meta := if has_filter then bb_add interval bb_empty FILTER_KEY (handle_encode fh) else bb_empty).
    destruct (write_block compress compression chunks2 offset2 meta) as [[chunks3 offset3] mh] eqn:E3.
    destruct (write_block_spec _ _ _ _ _ _ E3 Ho2) as ([more3 Hf3] & Ho3 & Hst3).
    set (index1 := match tb_pending t1 with
                   | Some h => bb_add 1 (tb_index t1) (succ (tb_last_key t1)) (handle_encode h)
                   | None => tb_index t1 end).
    destruct (write_block compress compression chunks3 offset3 index1) as [[chunks4 offset4] ih] eqn:E4.
    destruct (write_block_spec _ _ _ _ _ _ E4 Ho3) as ([more4 Hf4] & Ho4 & Hst4).
    assert (Hidx : exists idxF, index1 = bb_add_all 1 bb_empty idxF /\
                     map snd idxF = map hkey fl /\ Forall ikeyok (map fst idxF)).
    { subst index1. pose proof (ti_pending _ _ _ _ _ Hinv) as Hp.
      destruct (tb_pending t1) as [hp|].
      - destruct Hp as [_ (fl' & bes & Hfl & Hmap)].
        exists (idx0 ++ [(succ (tb_last_key t1), handle_encode hp)]).
        split; [rewrite (ti_index _ _ _ _ _ Hinv), bb_add_all_snoc; reflexivity|].
        split.
        + rewrite Hfl, !map_app. f_equal; try reflexivity; exact Hmap.
        + rewrite map_app. apply Forall_app. split; [apply (ti_idxkeys _ _ _ _ _ Hinv)|].
          constructor; [|constructor]. cbn [fst]. apply Hsucc. apply (ti_last _ _ _ _ _ Hinv).
          rewrite (ti_done _ _ _ _ _ Hinv), Hfl, app_nil_r, concat_map_snd_app. cbn [snd].
          pose proof (ti_stored _ _ _ _ _ Hinv) as Hs. rewrite Hfl in Hs.
          apply Forall_app in Hs. destruct Hs as [_ Hs]. inversion Hs as [|? ? [_ Hne] _]; subst.
          cbn [snd] in Hne. intro Hnil. apply app_eq_nil in Hnil. destruct Hnil as [_ Hnil]. congruence.
      - exists idx0. split; [apply (ti_index _ _ _ _ _ Hinv)|]. split; [exact Hp|apply (ti_idxkeys _ _ _ _ _ Hinv)]. }
    destruct Hidx as (idxF & Hi1 & Hi2 & Hi3).
    exists chunks4, mh, ih, idxF.
    split; [exact (file_of_cons _ _)|].
    split; [rewrite Hi1 in Hst4; exact Hst4|].
    split; [eexists; rewrite Hf4; apply stored_at_app; exact Hst3|].
    split; [|split; [exact Hi2|exact Hi3]].
    exists (more2 ++ more3 ++ more4). rewrite Hf4, Hf3, Hf2, <- !app_assoc. reflexivity. }
  destruct Hfile as (chunks4 & mh & ih & idxF & Hfile & Hsti & [rawm Hstm] & [more Hmore] & Hmap & Hkeys).
  clearbody file.
  (* everything is stored in the final file *)
  assert (Hsti' : stored_at file ih (block_build 1 idxF)) by (rewrite Hfile; apply stored_at_app; exact Hsti).
  assert (Hstm' : stored_at file mh rawm) by (rewrite Hfile; apply stored_at_app; exact Hstm).
  pose proof (stored_at_bound _ _ _ Hsti') as Hbi. pose proof (stored_at_bound _ _ _ Hstm') as Hbm.
  assert (Hfoot : nlen (footer_encode mh ih) = 48) by (apply footer_encode_length; lia).
  assert (Hes_eq : es = concat (map snd fl)).
  { rewrite (ti_done _ _ _ _ _ Hinv), app_nil_r. reflexivity. }
  assert (Hblocks : Forall (fun fb => stored_at file (fst fb) (block_build interval (snd fb)) /\
                                      wf_entries (snd fb) /\ keys_ge8 is_internal (snd fb)) fl).
  { pose proof (ti_stored _ _ _ _ _ Hinv) as Hs.
    pose proof (Forall_concat_blocks eok fl) as Hc. rewrite <- Hes_eq in Hc. specialize (Hc Hes).
    apply Forall_forall. intros fb Hin.
    rewrite Forall_forall in Hs, Hc. specialize (Hs fb Hin). specialize (Hc fb Hin).
    destruct Hs as [S1 S2].
    split; [rewrite Hfile, Hmore, <- app_assoc; apply stored_at_app; exact S1|].
    pose proof (in_block_len fl fb Hin) as Hle. rewrite <- Hes_eq in Hle.
    split.
    - split; [eapply Forall_impl; [|exact Hc]; intros e [A _]; exact A|lia].
    - intros Hi. eapply Forall_impl; [|exact Hc]. intros e [_ B]. apply Hdkey in B. apply B. exact Hi. }
  (* the index block *)
  assert (Hnfl : nlen idxF <= nlen es).
  { pose proof (ti_stored _ _ _ _ _ Hinv) as Hs.
    pose proof (length_blocks_le fl (Forall_impl _ (fun fb H => proj2 H) Hs)) as Hl.
    rewrite <- Hes_eq in Hl.
    assert (length idxF = length fl).
    { assert (Hl2 : length (map snd idxF) = length (map hkey fl)) by (rewrite Hmap; reflexivity).
      rewrite !map_length in Hl2. exact Hl2. }
    unfold nlen. lia. }
  assert (Hidx_dec : block_entries_gen is_internal (block_build 1 idxF) = Some idxF).
  { apply block_entries_gen_build.
    - split; [|lia].
      apply Forall_forall. intros [k v] Hin. split; cbn [fst snd].
      + rewrite Forall_forall in Hkeys. apply (Hkeys k). apply (in_map fst) in Hin. exact Hin.
      + assert (Hv : In v (map hkey fl)) by (rewrite <- Hmap; apply (in_map snd) in Hin; exact Hin).
        apply in_map_iff in Hv. destruct Hv as [fb [<- Hfb]].
        rewrite Forall_forall in Hblocks. destruct (Hblocks fb Hfb) as [Sb _].
        pose proof (stored_at_bound _ _ _ Sb). unfold hkey.
        pose proof (handle_encode_length (fst fb)). lia.
    - intros Hi. apply Forall_forall. intros [k v] Hin. cbn [fst].
      rewrite Forall_forall in Hkeys. apply (Hkeys k); [|exact Hi]. apply (in_map fst) in Hin. exact Hin. }
  (* table_open *)
  unfold table_entries, table_open.
  assert (Hsz : nlen file = nlen (file_of chunks4) + 48) by (rewrite Hfile, nlen_app, Hfoot; reflexivity).
  unfold FOOTER_SIZE. replace (nlen file <? 48) with false by lia.
  rewrite slice_ok by (auto; lia). cbn [rbind].
  assert (Hfooter : take_n 48 (drop_n (nlen file - 48) file) = footer_encode mh ih).
  { rewrite Hfile at 2. rewrite drop_n_app_exact by lia.
    rewrite <- (app_nil_r (footer_encode mh ih)) at 1. apply take_n_app_exact. symmetry. exact Hfoot. }
  rewrite Hfooter. rewrite footer_decode_encode by lia. cbn [rbind].
  rewrite (read_block_stored file ih _ paranoid Hsti' Hwf Hlen). cbn [rbind].
  destruct (block_init_ok (block_build 1 idxF)) as [blk (-> & _ & Hdata)]. cbn [rbind].
  destruct (table_read_meta_ok has_filter file paranoid mh) as [flt [-> _]]. cbn [rbind].
  cbn [t_index t_file t_fsize]. rewrite Hdata, Hidx_dec.
  rewrite (table_entries_loop_flushed file verify fl idxF Hwf Hlen Hmap Hblocks).
  rewrite <- Hes_eq. reflexivity.
Qed.

End RoundTrip.

(* ------------------------------------------------------------------ *)
(* The hypotheses on the comparator hooks hold for the two lcdb         *)
(* comparators.                                                         *)
(* ------------------------------------------------------------------ *)
Lemma tbl_sep_len : forall a b, nlen (tbl_sep a b) <= nlen a.
Proof.
  induction a as [|x a IH]; intros b; cbn [tbl_sep]; [lia|].
  destruct b as [|y b]; [lia|].
  destruct (x =? y).
  - specialize (IH b). rewrite !nlen_cons. lia.
  - destruct ((x <? 255) && (x + 1 <? y)); rewrite ?nlen_cons, ?nlen_nil; lia.
Qed.

Lemma tbl_succ_len : forall a, nlen (tbl_succ a) <= nlen a.
Proof.
  induction a as [|x a IH]; cbn [tbl_succ]; [lia|].
  destruct (x =? 255); rewrite ?nlen_cons, ?nlen_nil; lia.
Qed.

Definition dkey_bytewise (k : bytes) : Prop := nlen k < 4294967296.
Definition dkey_internal (k : bytes) : Prop := nlen k < 4294967296 /\ 8 <= nlen k.

Lemma bytewise_hooks :
  (forall k, dkey_bytewise k -> ikeyok false k) /\
  (forall a b, dkey_bytewise a -> ikeyok false (tbl_sep a b)) /\
  (forall a, dkey_bytewise a -> ikeyok false (tbl_succ a)).
Proof.
  unfold dkey_bytewise, ikeyok. repeat split; intros; try discriminate; auto.
  - pose proof (tbl_sep_len a b). lia.
  - pose proof (tbl_succ_len a). lia.
Qed.

Lemma tbl_seek_tag_len : nlen tbl_seek_tag = 8.
Proof. reflexivity. Qed.

Lemma nlen_tbl_user_key : forall k, 8 <= nlen k -> nlen (tbl_user_key k) = nlen k - 8.
Proof. intros. unfold tbl_user_key. apply nlen_take_n_le. lia. Qed.

Lemma internal_hooks :
  (forall k, dkey_internal k -> ikeyok true k) /\
  (forall a b, dkey_internal a -> ikeyok true (tbl_isep a b)) /\
  (forall a, dkey_internal a -> ikeyok true (tbl_isucc a)).
Proof.
  unfold dkey_internal, ikeyok. split; [|split].
  - intros k [A B]. auto.
  - intros a b [A B]. unfold tbl_isep.
    destruct ((nlen (tbl_sep (tbl_user_key a) (tbl_user_key b)) <? nlen (tbl_user_key a))
              && bytes_ltb (tbl_user_key a) (tbl_sep (tbl_user_key a) (tbl_user_key b))) eqn:E.
    + apply andb_prop in E. destruct E as [E _].
      rewrite nlen_app, tbl_seek_tag_len. rewrite nlen_tbl_user_key in E by exact B.
      split; [lia|intros _; lia].
    + auto.
  - intros a [A B]. unfold tbl_isucc.
    destruct ((nlen (tbl_succ (tbl_user_key a)) <? nlen (tbl_user_key a))
              && bytes_ltb (tbl_user_key a) (tbl_succ (tbl_user_key a))) eqn:E.
    + apply andb_prop in E. destruct E as [E _].
      rewrite nlen_app, tbl_seek_tag_len. rewrite nlen_tbl_user_key in E by exact B.
      split; [lia|intros _; lia].
    + auto.
Qed.

(* round trip for the two driver instances (comparator id 0 / 1) *)
Theorem table_entries_build_bytewise :
  forall bits compress block_size interval compression paranoid verify es,
  (compression = 1 -> forall raw, nlen (compress raw) < nlen raw - nlen raw / 8 ->
     snappy_decode_size (compress raw) <> None /\ snappy_decode (compress raw) = Ok (Some raw)) ->
  Forall (fun e => nlen (fst e) < 4294967296 /\ nlen (snd e) < 4294967296) es ->
  nlen es + 1 < 4294967296 ->
  let file := table_build_i 0 bits compress block_size interval compression es in
  wf_bytes file = true -> nlen file < 18446744073709551616 ->
  table_entries_i 0 bits paranoid verify file = Ok (inr es).
Proof.
  intros bits compress block_size interval compression paranoid verify es Hc Hes Hn file Hwf Hlen.
  destruct bytewise_hooks as (H1 & H2 & H3).
  apply (table_entries_build false tbl_sep tbl_succ (inst_has_filter bits) (inst_fbuild 0 bits)
           compress block_size interval compression Hc dkey_bytewise H1 H2 H3); auto.
  eapply Forall_impl; [|exact Hes]. intros e [A B]. split; [split; assumption|exact A].
Qed.

Theorem table_entries_build_internal :
  forall bits compress block_size interval compression paranoid verify es,
  (compression = 1 -> forall raw, nlen (compress raw) < nlen raw - nlen raw / 8 ->
     snappy_decode_size (compress raw) <> None /\ snappy_decode (compress raw) = Ok (Some raw)) ->
  Forall (fun e => nlen (fst e) < 4294967296 /\ 8 <= nlen (fst e) /\ nlen (snd e) < 4294967296) es ->
  nlen es + 1 < 4294967296 ->
  let file := table_build_i 1 bits compress block_size interval compression es in
  wf_bytes file = true -> nlen file < 18446744073709551616 ->
  table_entries_i 1 bits paranoid verify file = Ok (inr es).
Proof.
  intros bits compress block_size interval compression paranoid verify es Hc Hes Hn file Hwf Hlen.
  destruct internal_hooks as (H1 & H2 & H3).
  apply (table_entries_build true tbl_isep tbl_isucc (inst_has_filter bits) (inst_fbuild 1 bits)
           compress block_size interval compression Hc dkey_internal H1 H2 H3); auto.
  eapply Forall_impl; [|exact Hes]. intros e (A & B & C). split; [split; assumption|split; assumption].
Qed.
