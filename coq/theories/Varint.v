(* Varint.v -- model of ldb_varint32/64_{write,read,size} (src/util/coding.h)
   and length-prefixed slices (src/util/slice.c, buffer.c).  Definitions only. *)
From LCDB Require Export Base.
Local Open Scope N_scope.

Definition two32 : N := 4294967296.
Definition two64 : N := 18446744073709551616.

(* ---- writers ---- *)
(* ldb_varint64_write: while (x >= 128) { emit x|128 ; x >>= 7 } emit x.
   Fuel 10 suffices for x < 2^64 (varint_write_fuel lemma). *)
Fixpoint varint_write_fuel (fuel : nat) (x : N) : bytes :=
  match fuel with
  | O => [x mod 128]   (* unreachable for x < 2^(7*(fuel0+1)) *)
  | S f => if x <? 128 then [x]
           else (x mod 128 + 128) :: varint_write_fuel f (x / 128)
  end.

Definition varint64_write (x : N) : bytes := varint_write_fuel 10 x.

(* ldb_varint32_write: explicit 5-way case split in C; same bytes. *)
Definition varint32_write (x : N) : bytes :=
  if x <? 128 then [x]
  else if x <? 16384 then [x mod 128 + 128; x / 128]
  else if x <? 2097152 then [x mod 128 + 128; (x / 128) mod 128 + 128; x / 16384]
  else if x <? 268435456 then
    [x mod 128 + 128; (x / 128) mod 128 + 128; (x / 16384) mod 128 + 128; x / 2097152]
  else
    [x mod 128 + 128; (x / 128) mod 128 + 128; (x / 16384) mod 128 + 128;
     (x / 2097152) mod 128 + 128; x / 268435456].

Definition varint32_size (x : N) : N :=
  if x <? 128 then 1 else if x <? 16384 then 2 else if x <? 2097152 then 3
  else if x <? 268435456 then 4 else 5.

Fixpoint varint64_size_fuel (fuel : nat) (x : N) : N :=
  match fuel with
  | O => 1
  | S f => if x <? 128 then 1 else 1 + varint64_size_fuel f (x / 128)
  end.
Definition varint64_size (x : N) : N := varint64_size_fuel 10 x.

(* ---- readers ---- *)
(* Common loop: for (shift = 0; shift <= maxshift && n > 0; shift += 7).
   [k] counts remaining iterations, [mult] = 2^shift, [width] = 2^32 or 2^64:
   the C code computes (byte << shift) in a [width]-bit unsigned, so the
   contribution is taken mod width (only matters on the last iteration).
   [result |= ...] is modelled as + because the contributions are bit-disjoint
   after the truncation (proved in VarintProofs). *)
Fixpoint varint_read_loop (k : nat) (width mult acc : N) (l : bytes)
  : option (N * bytes) :=
  match k with
  | O => None
  | S k' =>
      match l with
      | [] => None
      | b :: rest =>
          if 128 <=? b
          then varint_read_loop k' width (mult * 128)
                 (acc + ((b mod 128) * mult) mod width) rest
          else Some (acc + (b * mult) mod width, rest)
      end
  end.

(* ldb_varint32_read: 5 iterations (shift 0..28) *)
Definition varint32_read (l : bytes) : option (N * bytes) :=
  varint_read_loop 5 two32 1 0 l.
(* ldb_varint64_read: 10 iterations (shift 0..63) *)
Definition varint64_read (l : bytes) : option (N * bytes) :=
  varint_read_loop 10 two64 1 0 l.

(* ---- length-prefixed slices: ldb_slice_slurp / ldb_buffer_slice? (slice.c) ---- *)
Definition slice_write (s : bytes) : bytes := varint32_write (nlen s) ++ s.

Definition slice_read (l : bytes) : option (bytes * bytes) :=
  match varint32_read l with
  | None => None
  | Some (n, rest) =>
      if nlen rest <? n then None
      else Some (take_n n rest, drop_n n rest)
  end.
