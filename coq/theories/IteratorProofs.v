(* IteratorProofs.v -- the DB iterator of an engine state (db_iter.c over merger.c
   over the runs of the state) refines a cursor over the live view of the state.

     1. db_iter.c is parametric in its internal iterator (lifting of a simulation)
     2. the runs of a state satisfying inv_b are sorted and pairwise key-disjoint,
        and their concatenation is all_entries
     3. composition: C07_iterator
     4. on a strictly sorted view the compositions of table/iterator.c (seek_gt,
        seek_le, seek_lt) are what a sorted map dictates: C07_iterator_sorted_map
     5. iterator and point lookups agree *)
From LCDB Require Import Base Cursor CursorProofs Engine EngineSpec EngineRead EngineStepsBase
                         EngineStepsInv Merger MergerProofs DbIter LiveViewProofs DbIterProofs.
From Coq Require Import Sorting.Sorted Permutation.
Require Import Lia ZifyBool ZifyNat ZifyN.
Local Open Scope N_scope.

(* ------------------------------------------------------------------ 1. lifting *)
Section Lift.
Variable ucmp : bytes -> bytes -> comparison.
Context {Sa Sb : Type}.
Variable Ia : iter_ops Sa itarget entry.
Variable Ib : iter_ops Sb itarget entry.
Variable Ri : Sa -> Sb -> Prop.
Hypothesis B : bisim_t Ia Ib Ri.
Variable fuel : nat.
Variable q : N.

Definition liftR (d1 : @dstate Sa) (d2 : @dstate Sb) : Prop :=
  Ri (d_it d1) (d_it d2) /\ d_dir d1 = d_dir d2 /\ d_valid d1 = d_valid d2 /\
  d_skey d1 = d_skey d2 /\ d_sval d1 = d_sval d2.

Lemma lift_find_next n : forall a b sk skip, Ri a b ->
  Ri (fst (find_next_loop ucmp Ia q n a sk skip)) (fst (find_next_loop ucmp Ib q n b sk skip)) /\
  snd (find_next_loop ucmp Ia q n a sk skip) = snd (find_next_loop ucmp Ib q n b sk skip).
Proof.
  induction n as [|n IH]; intros a b sk skip H; cbn [find_next_loop].
  - cbn [fst snd]. auto.
  - rewrite <- (bt_get _ _ _ B a b H). destruct (i_get Ia a) as [e|]; [|cbn [fst snd]; auto].
    pose proof (bt_next _ _ _ B a b H) as Hn.
    destruct (es e <=? q); [|apply IH; exact Hn].
    destruct (et e); [|apply IH; exact Hn].
    destruct (sk && ule ucmp (ek e) skip); [apply IH; exact Hn|cbn [fst snd]; auto].
Qed.

Lemma lift_fnue st1 st2 a b sk skip :
  Ri a b -> d_dir st1 = d_dir st2 -> d_sval st1 = d_sval st2 ->
  liftR (find_next_user_entry ucmp Ia fuel q st1 a sk skip)
        (find_next_user_entry ucmp Ib fuel q st2 b sk skip).
Proof.
  intros H Hd Hv. unfold find_next_user_entry.
  destruct (lift_find_next fuel a b sk skip H) as [H1 H2].
  destruct (find_next_loop ucmp Ia q fuel a sk skip) as [a' v1].
  destruct (find_next_loop ucmp Ib q fuel b sk skip) as [b' v2].
  cbn [fst snd] in H1, H2. subst v2. unfold liftR. cbn [d_it d_dir d_valid d_skey d_sval]. auto.
Qed.

Definition rel4 (r1 : Sa * bool * bytes * bytes) (r2 : Sb * bool * bytes * bytes) : Prop :=
  Ri (fst (fst (fst r1))) (fst (fst (fst r2))) /\ snd (fst (fst r1)) = snd (fst (fst r2)) /\
  snd (fst r1) = snd (fst r2) /\ snd r1 = snd r2.

Lemma lift_find_prev n : forall a b have skey sval, Ri a b ->
  rel4 (find_prev_loop ucmp Ia q n a have skey sval) (find_prev_loop ucmp Ib q n b have skey sval).
Proof.
  induction n as [|n IH]; intros a b have skey sval H; cbn [find_prev_loop].
  - unfold rel4. cbn [fst snd]. auto.
  - rewrite <- (bt_get _ _ _ B a b H).
    destruct (i_get Ia a) as [e|]; [|unfold rel4; cbn [fst snd]; auto].
    pose proof (bt_prev _ _ _ B a b H) as Hp.
    destruct (es e <=? q); [|apply IH; exact Hp].
    destruct (have && ult ucmp (ek e) skey); [unfold rel4; cbn [fst snd]; auto|].
    destruct (et e); apply IH; exact Hp.
Qed.

Lemma lift_fpue a b skey sval :
  Ri a b ->
  liftR (find_prev_user_entry ucmp Ia fuel q a skey sval)
        (find_prev_user_entry ucmp Ib fuel q b skey sval).
Proof.
  intros H. unfold find_prev_user_entry.
  pose proof (lift_find_prev fuel a b false skey sval H) as H4. unfold rel4 in H4.
  destruct (find_prev_loop ucmp Ia q fuel a false skey sval) as [[[a' h1] k1] v1].
  destruct (find_prev_loop ucmp Ib q fuel b false skey sval) as [[[b' h2] k2] v2].
  cbn [fst snd] in H4. destruct H4 as (H1 & <- & <- & <-).
  destruct h1; unfold liftR; cbn [d_it d_dir d_valid d_skey d_sval]; auto.
Qed.

Lemma lift_back n : forall a b skey, Ri a b ->
  Ri (fst (back_loop ucmp Ia n a skey)) (fst (back_loop ucmp Ib n b skey)) /\
  snd (back_loop ucmp Ia n a skey) = snd (back_loop ucmp Ib n b skey).
Proof.
  induction n as [|n IH]; intros a b skey H; cbn [back_loop].
  - cbn [fst snd]. auto.
  - pose proof (bt_prev _ _ _ B a b H) as Hp. rewrite <- (bt_get _ _ _ B _ _ Hp).
    destruct (i_get Ia (i_prev Ia a)) as [e|]; [|cbn [fst snd]; auto].
    destruct (ult ucmp (ek e) skey); [cbn [fst snd]; auto|apply IH; exact Hp].
Qed.

Lemma liftR_mk a b dir v skey sval : Ri a b -> liftR (mkD a dir v skey sval) (mkD b dir v skey sval).
Proof. intros H. unfold liftR. cbn [d_it d_dir d_valid d_skey d_sval]. auto. Qed.

Theorem dbiter_lift :
  bisim_t (dbiter_ops ucmp Ia fuel q) (dbiter_ops ucmp Ib fuel q) liftR.
Proof.
  constructor; cbn [i_get i_first i_last i_seek i_next i_prev dbiter_ops].
  - (* get *)
    intros d1 d2 (Hi & Hd & Hv & Hk & Hs). unfold d_get. rewrite <- Hd, <- Hv, <- Hk, <- Hs.
    rewrite <- (bt_get _ _ _ B _ _ Hi). reflexivity.
  - (* first *)
    intros d1 d2 (Hi & Hd & Hv & Hk & Hs). unfold d_first.
    pose proof (bt_first _ _ _ B _ _ Hi) as H1. rewrite <- (bt_get _ _ _ B _ _ H1), <- Hk.
    destruct (i_get Ia (i_first Ia (d_it d1))).
    + apply lift_fnue; [exact H1|reflexivity|reflexivity].
    + apply liftR_mk. exact H1.
  - (* last *)
    intros d1 d2 (Hi & Hd & Hv & Hk & Hs). unfold d_last. rewrite <- Hk.
    apply lift_fpue. apply (bt_last _ _ _ B _ _ Hi).
  - (* seek *)
    intros t d1 d2 (Hi & Hd & Hv & Hk & Hs). unfold d_seek.
    pose proof (bt_seek _ _ _ B (t, q) _ _ Hi) as H1. rewrite <- (bt_get _ _ _ B _ _ H1).
    destruct (i_get Ia (i_seek Ia (t, q) (d_it d1))).
    + apply lift_fnue; [exact H1|reflexivity|reflexivity].
    + apply liftR_mk. exact H1.
  - (* next *)
    intros d1 d2 (Hi & Hd & Hv & Hk & Hs). unfold d_next. rewrite <- Hd, <- Hk, <- Hs, <- Hv.
    destruct (d_dir d1) eqn:Ed.
    + rewrite <- (bt_get _ _ _ B _ _ Hi). destruct (i_get Ia (d_it d1)) as [e|].
      * pose proof (bt_next _ _ _ B _ _ Hi) as H1. rewrite <- (bt_get _ _ _ B _ _ H1).
        destruct (i_get Ia (i_next Ia (d_it d1))).
        -- apply lift_fnue; [exact H1|reflexivity|reflexivity].
        -- apply liftR_mk. exact H1.
      * unfold liftR. repeat split; congruence.
    + rewrite <- (bt_get _ _ _ B _ _ Hi).
      assert (H1 : Ri (match i_get Ia (d_it d1) with
                       | Some _ => i_next Ia (d_it d1) | None => i_first Ia (d_it d1) end)
                      (match i_get Ia (d_it d1) with
                       | Some _ => i_next Ib (d_it d2) | None => i_first Ib (d_it d2) end)).
      { destruct (i_get Ia (d_it d1)); [apply (bt_next _ _ _ B _ _ Hi)|apply (bt_first _ _ _ B _ _ Hi)]. }
      rewrite <- (bt_get _ _ _ B _ _ H1).
      destruct (i_get Ia (match i_get Ia (d_it d1) with
                          | Some _ => i_next Ia (d_it d1) | None => i_first Ia (d_it d1) end)).
      * apply lift_fnue; [exact H1|reflexivity|reflexivity].
      * apply liftR_mk. exact H1.
  - (* prev *)
    intros d1 d2 (Hi & Hd & Hv & Hk & Hs). unfold d_prev. rewrite <- Hd, <- Hk, <- Hs.
    destruct (d_dir d1) eqn:Ed.
    + rewrite <- (bt_get _ _ _ B _ _ Hi). destruct (i_get Ia (d_it d1)) as [e|].
      * destruct (lift_back fuel _ _ (ek e) Hi) as [H1 H2].
        destruct (back_loop ucmp Ia fuel (d_it d1) (ek e)) as [a' f1].
        destruct (back_loop ucmp Ib fuel (d_it d2) (ek e)) as [b' f2].
        cbn [fst snd] in H1, H2. subst f2. destruct f1.
        -- apply lift_fpue. exact H1.
        -- apply liftR_mk. exact H1.
      * unfold liftR. repeat split; congruence.
    + apply lift_fpue. exact Hi.
Qed.

End Lift.

(* ------------------------------------------------------------------ 2. the runs of a state *)
Section Runs.
Variable ucmp : bytes -> bytes -> comparison.
Context {TO : total_order ucmp}.

Notation icmp := (Engine.icmp ucmp).

Lemma icmp_eq_iff a b : icmp a b = Eq <-> ucmp (ek a) (ek b) = Eq /\ es a = es b.
Proof.
  unfold Engine.icmp. destruct (ucmp (ek a) (ek b)).
  - rewrite N.compare_eq_iff. split; [intros H; split; [reflexivity|congruence]|intros [_ H]; congruence].
  - split; [discriminate|intros [H _]; discriminate].
  - split; [discriminate|intros [H _]; discriminate].
Qed.

(* no entry of one run has the internal key of an entry of the other *)
Definition Dj (r r' : list entry) : Prop := forall a b, In a r -> In b r' -> icmp a b <> Eq.

Lemma Dj_sym r r' : Dj r r' -> Dj r' r.
Proof.
  intros H a b Ha Hb E. apply (H b a Hb Ha). apply icmp_eq_iff in E. apply icmp_eq_iff.
  destruct E as [E1 E2]. split; [apply (ucmp_eq_sym ucmp); exact E1|congruence].
Qed.

Lemma Dj_places s p p' X Y :
  Rec ucmp s -> place_lt p p' ->
  (forall o, In o X -> at_place s p o) -> (forall m, In m Y -> at_place s p' m) ->
  Dj X Y /\ Dj Y X.
Proof.
  intros HR Hlt HX HY.
  assert (H : Dj X Y).
  { intros a b Ha Hb E. apply icmp_eq_iff in E. destruct E as [E1 E2].
    pose proof (HR p p' a b Hlt (HX a Ha) (HY b Hb) (proj2 (ueq_iff ucmp _ _) E1)) as H. lia. }
  split; [exact H|apply Dj_sym; exact H].
Qed.

Lemma concat_filter_nonempty (lv : list (list file)) :
  concat (map level_entries (filter nonempty_level lv)) = concat (map level_entries lv).
Proof.
  induction lv as [|fs r IH]; [reflexivity|].
  cbn [filter]. destruct fs as [|f fs']; cbn [nonempty_level map concat].
  - exact IH.
  - rewrite IH. reflexivity.
Qed.

Lemma concat_runs_of s : levels s <> [] -> concat (runs_of s) = all_entries s.
Proof.
  intros Hl. unfold runs_of, all_entries. destruct (levels s) as [|l0 rest] eqn:E; [congruence|].
  unfold level_files. cbn [nth skipn map concat]. rewrite !concat_app, concat_filter_nonempty.
  unfold imm_run. destruct (imm s); cbn [concat app]; rewrite ?app_nil_r; reflexivity.
Qed.

Lemma runs_of_ok s : SInv ucmp s -> runs_ok ucmp (runs_of s).
Proof.
  intros HI. pose proof (si_rec ucmp s HI) as HR.
  assert (Hlen : length (levels s) = NUM_LEVELS) by apply HI.
  (* places of the four groups *)
  assert (Pmem : forall o, In o (mem s) -> at_place s PMem o) by (intros o H; exact H).
  assert (Pimm : forall r, In r (match imm s with Some im => [im] | None => [] end) ->
                           forall o, In o r -> at_place s PImm o).
  { intros r Hr o Ho. cbn [at_place]. unfold imm_run. destruct (imm s); [|destruct Hr].
    destruct Hr as [<-|[]]. exact Ho. }
  assert (Pf0 : forall f, In f (level_files (levels s) 0) ->
                          forall o, In o (fents f) -> at_place s (PF0 (fnum f)) o).
  { intros f Hf o Ho. cbn [at_place]. exists f. auto. }
  assert (Pdeep : forall fs, In fs (skipn 1 (levels s)) ->
                  exists i, (1 <= i)%nat /\ fs = level_files (levels s) i /\
                            forall o, In o (level_entries fs) -> at_place s (PLv i) o).
  { intros fs Hfs. apply In_skip1_levels in Hfs. destruct Hfs as (i & Hi & Hil & <-).
    exists i. split; [exact Hi|]. split; [reflexivity|].
    intros o Ho. cbn [at_place]. split; [exact Hi|]. apply level_entries_In. exact Ho. }
  split.
  - (* every run is strictly sorted *)
    intros r Hr. apply (sorted_run_Srt ucmp). unfold runs_of in Hr.
    destruct Hr as [<-|Hr]; [apply HI|].
    apply in_app_or in Hr. destruct Hr as [Hr|Hr].
    { pose proof (si_imm ucmp s HI) as H. unfold imm_run in H.
      destruct (imm s); [|destruct Hr]. destruct Hr as [<-|[]]. exact H. }
    apply in_app_or in Hr. destruct Hr as [Hr|Hr].
    + apply in_map_iff in Hr. destruct Hr as (f & <- & Hf). apply (si_fok ucmp s HI 0%nat f Hf).
    + apply in_map_iff in Hr. destruct Hr as (fs & <- & Hfs). apply filter_In in Hfs.
      destruct Hfs as [Hfs _]. destruct (Pdeep fs Hfs) as (i & Hi & -> & _).
      apply level_entries_Srt.
      * apply Forall_forall. intros f Hf. apply (si_fok ucmp s HI i f Hf).
      * apply (si_lsort ucmp s HI i Hi).
  - (* runs are pairwise disjoint in internal keys *)
    assert (HF : ForallOrdPairs Dj (runs_of s)).
    { unfold runs_of. change (mem s :: ?x) with ([mem s] ++ x).
      apply FOP_app. split; [constructor; [constructor|constructor]|]. split.
      2:{ intros x y [<-|[]] Hy. apply in_app_or in Hy. destruct Hy as [Hy|Hy].
          - exact (proj1 (Dj_places s PMem PImm (mem s) y HR Logic.I Pmem (Pimm y Hy))).
          - apply in_app_or in Hy. destruct Hy as [Hy|Hy].
            + apply in_map_iff in Hy. destruct Hy as (f & <- & Hf).
              exact (proj1 (Dj_places s PMem (PF0 (fnum f)) (mem s) (fents f) HR Logic.I Pmem (Pf0 f Hf))).
            + apply in_map_iff in Hy. destruct Hy as (fs & <- & Hfs). apply filter_In in Hfs.
              destruct Hfs as [Hfs _]. destruct (Pdeep fs Hfs) as (i & Hi & _ & Hp).
              exact (proj1 (Dj_places s PMem (PLv i) (mem s) (level_entries fs) HR Logic.I Pmem Hp)). }
      apply FOP_app. split.
      { destruct (imm s); [constructor; [constructor|constructor]|constructor]. }
      split.
      2:{ intros x y Hx Hy. apply in_app_or in Hy. destruct Hy as [Hy|Hy].
          - apply in_map_iff in Hy. destruct Hy as (f & <- & Hf).
            exact (proj1 (Dj_places s PImm (PF0 (fnum f)) x (fents f) HR Logic.I (Pimm x Hx) (Pf0 f Hf))).
          - apply in_map_iff in Hy. destruct Hy as (fs & <- & Hfs). apply filter_In in Hfs.
            destruct Hfs as [Hfs _]. destruct (Pdeep fs Hfs) as (i & Hi & _ & Hp).
            exact (proj1 (Dj_places s PImm (PLv i) x (level_entries fs) HR Logic.I (Pimm x Hx) Hp)). }
      apply FOP_app. split; [|split].
      + (* level-0 files: distinct numbers *)
        apply FOP_map.
        pose proof (proj1 (NoDup_nums_FOP _) (proj1 (si_nd ucmp s HI) 0%nat)) as Hnd.
        eapply FOP_impl; [|exact Hnd]. intros f g Hf Hg Hne. cbv beta in Hne.
        destruct (N.lt_trichotomy (fnum f) (fnum g)) as [L|[E|L]]; [|congruence|].
        * exact (proj2 (Dj_places s (PF0 (fnum g)) (PF0 (fnum f)) (fents g) (fents f) HR L (Pf0 g Hg) (Pf0 f Hf))).
        * exact (proj1 (Dj_places s (PF0 (fnum f)) (PF0 (fnum g)) (fents f) (fents g) HR L (Pf0 f Hf) (Pf0 g Hg))).
      + (* deeper levels *)
        apply FOP_map. apply FOP_filter.
        apply (FOP_nth _ []). intros i j Hij Hj.
        assert (Hn : forall k, nth k (skipn 1 (levels s)) [] = level_files (levels s) (S k)).
        { intros k. unfold level_files. destruct (levels s) as [|x r]; [destruct k; reflexivity|reflexivity]. }
        rewrite !Hn.
        refine (proj1 (Dj_places s (PLv (S i)) (PLv (S j))
                                 (level_entries (level_files (levels s) (S i)))
                                 (level_entries (level_files (levels s) (S j))) HR _ _ _));
          [cbn [place_lt]; lia| |].
        * intros o Ho. cbn [at_place]. split; [lia|]. apply level_entries_In. exact Ho.
        * intros o Ho. cbn [at_place]. split; [lia|]. apply level_entries_In. exact Ho.
      + intros x y Hx Hy. apply in_map_iff in Hx. destruct Hx as (f & <- & Hf).
        apply in_map_iff in Hy. destruct Hy as (fs & <- & Hfs). apply filter_In in Hfs.
        destruct Hfs as [Hfs _]. destruct (Pdeep fs Hfs) as (i & Hi & _ & Hp).
        exact (proj1 (Dj_places s (PF0 (fnum f)) (PLv i) (fents f) (level_entries fs) HR Logic.I (Pf0 f Hf) Hp)). }
    intros i j ri rj a b Hij Hi Hj Ha Hb.
    pose proof (proj1 (FOP_nth Dj [] (runs_of s)) HF) as Hn.
    assert (Hil : (i < length (runs_of s))%nat) by (apply nth_error_Some; congruence).
    assert (Hjl : (j < length (runs_of s))%nat) by (apply nth_error_Some; congruence).
    apply (nth_error_nth _ _ []) in Hi. apply (nth_error_nth _ _ []) in Hj.
    destruct (Nat.lt_trichotomy i j) as [L|[E|L]]; [|congruence|].
    + pose proof (Hn i j L Hjl) as H. rewrite Hi, Hj in H. exact (H a b Ha Hb).
    + pose proof (Hn j i L Hil) as H. rewrite Hi, Hj in H. exact (Dj_sym _ _ H a b Ha Hb).
Qed.

Lemma sort_entries_length l : length (sort_entries ucmp l) = length l.
Proof.
  induction l as [|a r IH]; [reflexivity|].
  change (sort_entries ucmp (a :: r)) with (insert_sorted ucmp a (sort_entries ucmp r)).
  rewrite (Permutation_length (insert_sorted_Perm ucmp a _)). cbn [length]. rewrite IH. reflexivity.
Qed.

(* ------------------------------------------------------------------ 3. composition *)
Theorem db_iterator_is_view_cursor s q :
  inv_b ucmp s = true ->
  simulates (db_iter_ops ucmp s q) (db_iter_init s)
            (view_cursor ucmp (live_view ucmp s q)) None.
Proof.
  intros Hinv. apply (inv_b_SInv ucmp) in Hinv. rename Hinv into HI.
  pose proof (runs_of_ok s HI) as Hok.
  assert (Hne : levels s <> []).
  { intros E. pose proof (si_len ucmp s HI) as H. rewrite E in H. discriminate. }
  unfold live_view. rewrite <- (concat_runs_of s Hne).
  set (runs := runs_of s) in *. set (L := sort_entries ucmp (concat runs)).
  destruct (@merger_is_cursor_bisim ucmp TO runs Hok) as (Rm & Hinit & HB).
  (* db_iter.c over the merger ~ db_iter.c over the cursor on the merge *)
  apply (simulates_trans (db_iter_ops ucmp s q)
           (dbiter_ops ucmp (cursor_ops (itge ucmp) (itcmp ucmp) L) (iter_fuel runs) q)
           (view_cursor ucmp (live_of_sorted ucmp q None L))
           (db_iter_init s) (d_init None) None).
  - apply (bisim_scripts _ _ (liftR Rm)).
    + apply bisim_t_bisim; [intros o t; reflexivity|].
      apply (dbiter_lift ucmp (internal_ops ucmp) (cursor_ops (itge ucmp) (itcmp ucmp) L) Rm HB).
    + unfold db_iter_init, d_init, liftR. cbn [d_it d_dir d_valid d_skey d_sval].
      split; [exact Hinit|auto].
  - (* ... ~ cursor over the live view of the merge *)
    apply (dbiter_is_view_cursor ucmp TO L q (iter_fuel runs)).
    + apply (@merged_sorted ucmp TO runs Hok).
    + unfold iter_fuel, total_len, L. rewrite sort_entries_length. lia.
Qed.

End Runs.

Theorem C07_iterator_thm :
  forall ucmp, total_order ucmp -> forall s q script,
  inv_b ucmp s = true ->
  run_script (db_iter_ops ucmp s q) (db_iter_init s) script =
  run_script (view_cursor ucmp (live_view ucmp s q)) None script.
Proof. intros ucmp TO s q script H. apply (@db_iterator_is_view_cursor ucmp TO s q H). Qed.

Print Assumptions C07_iterator_thm.

(* ------------------------------------------------------------------ 4. the sorted-map reading *)
(* On a view strictly sorted by user key, the compositions of table/iterator.c are
   what a sorted map dictates: seek_gt = first key above the target, seek_le = last
   key not above it, seek_lt = last key below it. *)
Section SortedMap.
Variable ucmp : bytes -> bytes -> comparison.
Context {TO : total_order ucmp}.
Variable V : list (bytes * bytes).
Hypothesis HsV : SrtBy (klt ucmp) V.

Notation klt := (LiveViewProofs.klt ucmp).
Notation VC := (view_cursor ucmp V).
Let ki := klt_irrefl ucmp.
Let kt := klt_trans ucmp.

Lemma kvge_is_ge t y : kvge ucmp t y = is_ge (kvcmp ucmp) t y.
Proof. reflexivity. Qed.

(* nothing of the view is at or above t *)
Lemma all_below t :
  c_seek (kvge ucmp t) V = None -> forall y, In y V -> ucmp (fst y) t = Lt.
Proof.
  intros F y Hy. pose proof (proj1 (c_seek_none _ V) F y Hy) as H. unfold kvge in H.
  destruct (ucmp (fst y) t); congruence.
Qed.

(* o is the least element of the view at or above t *)
Lemma least_ge t o :
  c_get V (c_seek (kvge ucmp t) V) = Some o ->
  In o V /\ ucmp (fst o) t <> Lt /\
  forall y, In y V -> ucmp (fst y) t <> Lt -> ucmp (fst y) (fst o) <> Lt.
Proof.
  intros G. destruct (c_seek_get V _ o G) as [Hin Hge]. split; [exact Hin|]. split.
  - unfold kvge in Hge. destruct (ucmp (fst o) t); congruence.
  - intros y Hy Hyt L.
    pose proof (c_seek_get_min klt ki kt V _ o HsV G y Hy) as H.
    assert (Hk : kvge ucmp t y = true) by (unfold kvge; destruct (ucmp (fst y) t); congruence).
    specialize (H Hk). unfold LiveViewProofs.klt in H. apply (ult_iff ucmp) in L. congruence.
Qed.

Lemma view_seek_gt t :
  it_seek_gt VC t None = c_seek (is_gt (kvcmp ucmp) t) V /\
  forall c, it_seek_gt VC t c = it_seek_gt VC t None.
Proof.
  split; [|reflexivity].
  unfold it_seek_gt. cbn [i_seek i_get i_cmp i_next view_cursor cursor_ops].
  destruct (c_get V (c_seek (kvge ucmp t) V)) as [o|] eqn:G.
  - destruct (least_ge t o G) as (Hin & Hge & Hmin). unfold kvcmp at 1.
    destruct (ucmp (fst o) t) eqn:E; [| congruence |].
    + (* the target is present: step over it *)
      rewrite (c_next_seek klt ki kt V _ o HsV G). apply c_seek_ext. intros y Hy.
      unfold LiveViewProofs.klt, is_gt, kvcmp, ult.
      rewrite (ucmp_eq_l ucmp _ _ (fst y) E). rewrite (ucmp_opp ucmp (fst y) t).
      destruct (ucmp t (fst y)); reflexivity.
    + (* already above the target *)
      apply c_seek_ext. intros y Hy. unfold kvge, is_gt, kvcmp.
      destruct (ucmp (fst y) t) eqn:Ey; try reflexivity. exfalso.
      apply (Hmin y Hy); [congruence|].
      rewrite (ucmp_eq_l ucmp _ _ (fst o) Ey). apply (ucmp_gt_lt ucmp). exact E.
  - assert (F : c_seek (kvge ucmp t) V = None).
    { apply (c_get_wf_none V); [apply c_seek_wf|exact G]. }
    rewrite F. symmetry. apply c_seek_none. intros y Hy.
    unfold is_gt, kvcmp. rewrite (all_below t F y Hy). reflexivity.
Qed.

Lemma view_seek_le t c : it_seek_le VC t c = c_seek_last (is_le (kvcmp ucmp) t) V.
Proof.
  unfold it_seek_le. cbn [i_seek i_get i_cmp i_prev i_last view_cursor cursor_ops].
  destruct (c_get V (c_seek (kvge ucmp t) V)) as [o|] eqn:G.
  - destruct (least_ge t o G) as (Hin & Hge & Hmin). unfold kvcmp at 1.
    destruct (ucmp (fst o) t) eqn:E; [| congruence |].
    + (* the target is present *)
      apply (cursor_eq klt ki kt V _ _ HsV); [apply c_seek_wf|apply c_seek_last_wf|].
      rewrite G. symmetry. apply (c_seek_last_max klt ki kt V _ o HsV Hin).
      * unfold is_le, kvcmp. rewrite E. reflexivity.
      * intros y Hy Py. unfold is_le, kvcmp in Py. unfold LiveViewProofs.klt, ult.
        rewrite (ucmp_eq_l ucmp _ _ (fst y) E). rewrite (ucmp_opp ucmp t (fst y)).
        destruct (ucmp (fst y) t); [reflexivity|reflexivity|discriminate].
    + (* above the target: step back *)
      rewrite (c_prev_seek klt ki kt V _ o HsV G). apply c_seek_last_ext. intros y Hy.
      unfold LiveViewProofs.klt, is_le, kvcmp, ult.
      destruct (ucmp (fst y) t) eqn:Ey.
      * rewrite (ucmp_eq_l ucmp _ _ (fst o) Ey). rewrite (proj1 (ucmp_gt_lt ucmp _ _) E). reflexivity.
      * pose proof (ucmp_trans3 ucmp (fst y) t (fst o)) as H3. rewrite Ey in H3.
        rewrite (proj1 (ucmp_gt_lt ucmp _ _) E) in H3. rewrite H3. reflexivity.
      * pose proof (Hmin y Hy ltac:(congruence)) as H. destruct (ucmp (fst y) (fst o)); congruence.
  - assert (F : c_seek (kvge ucmp t) V = None).
    { apply (c_get_wf_none V); [apply c_seek_wf|exact G]. }
    rewrite (c_last_seek V). apply c_seek_last_ext. intros y Hy.
    unfold is_le, kvcmp. rewrite (all_below t F y Hy). reflexivity.
Qed.

Lemma view_seek_lt t c : it_seek_lt VC t c = c_seek_last (is_lt (kvcmp ucmp) t) V.
Proof.
  unfold it_seek_lt. cbn [i_seek i_get i_prev i_last view_cursor cursor_ops].
  destruct (c_get V (c_seek (kvge ucmp t) V)) as [o|] eqn:G.
  - destruct (least_ge t o G) as (Hin & Hge & Hmin).
    rewrite (c_prev_seek klt ki kt V _ o HsV G). apply c_seek_last_ext. intros y Hy.
    unfold LiveViewProofs.klt, is_lt, kvcmp, ult.
    destruct (ucmp (fst y) t) eqn:Ey.
    + pose proof (Hmin y Hy ltac:(congruence)) as H. destruct (ucmp (fst y) (fst o)); congruence.
    + assert (H : ucmp (fst y) (fst o) = Lt); [|rewrite H; reflexivity].
      pose proof (ucmp_trans3 ucmp (fst y) t (fst o)) as H3. rewrite Ey in H3.
      destruct (ucmp t (fst o)) eqn:Eo; try exact H3.
      exfalso. apply Hge. apply (ucmp_gt_lt ucmp). exact Eo.
    + pose proof (Hmin y Hy ltac:(congruence)) as H. destruct (ucmp (fst y) (fst o)); congruence.
  - assert (F : c_seek (kvge ucmp t) V = None).
    { apply (c_get_wf_none V); [apply c_seek_wf|exact G]. }
    rewrite (c_last_seek V). apply c_seek_last_ext. intros y Hy.
    unfold is_lt, kvcmp. rewrite (all_below t F y Hy). reflexivity.
Qed.

Theorem view_scripts_are_map_scripts script : forall c,
  run_script VC c script = map_script (kvcmp ucmp) V c script.
Proof.
  induction script as [|x r IH]; intros c; [reflexivity|].
  cbn [run_script map_script].
  assert (Hstep : step_cmd VC c x = map_step (kvcmp ucmp) V c x).
  { destruct x as [| | | |t|t|t|t|t]; cbn [step_cmd map_step]; unfold observe, i_valid;
      cbn [i_first i_last i_seek i_next i_prev i_get view_cursor cursor_ops]; try reflexivity.
    - destruct (c_get V c); reflexivity.
    - destruct (c_get V c); reflexivity.
    - rewrite (proj2 (view_seek_gt t) c), (proj1 (view_seek_gt t)). reflexivity.
    - rewrite (view_seek_le t c). reflexivity.
    - rewrite (view_seek_lt t c). reflexivity. }
  rewrite Hstep. destruct (map_step (kvcmp ucmp) V c x) as [c' o]. f_equal. apply IH.
Qed.

End SortedMap.

Theorem C07_iterator_sorted_map_thm :
  forall ucmp, total_order ucmp -> forall s q script,
  inv_b ucmp s = true ->
  run_script (db_iter_ops ucmp s q) (db_iter_init s) script =
  map_script (kvcmp ucmp) (live_view ucmp s q) None script.
Proof.
  intros ucmp TO s q script H. rewrite (C07_iterator_thm ucmp TO s q script H).
  apply (@view_scripts_are_map_scripts ucmp TO).
  unfold live_view. apply (@live_view_sorted ucmp TO).
  apply (sorted_run_Srt ucmp). apply (inv_b_SInv ucmp) in H.
  assert (Hne : levels s <> []).
  { intros E. pose proof (si_len ucmp s H) as Hl. rewrite E in Hl. discriminate. }
  rewrite <- (concat_runs_of s Hne). apply (@merged_sorted ucmp TO). apply (@runs_of_ok ucmp TO). exact H.
Qed.

Print Assumptions C07_iterator_sorted_map_thm.

(* ------------------------------------------------------------------ 5. iterator and point lookups agree *)
Theorem iterator_agrees_with_get :
  forall ucmp, total_order ucmp -> forall s k q v,
  inv_b ucmp s = true ->
  ((exists k', ucmp k' k = Eq /\ In (k', v) (live_view ucmp s q)) <->
   visible (get ucmp s k q) = Some v).
Proof.
  intros ucmp TO s k q v Hinv.
  rewrite (get_correct ucmp TO s k q Hinv).
  pose proof Hinv as HI. apply (inv_b_SInv ucmp) in HI.
  assert (Hne : levels s <> []).
  { intros E. pose proof (si_len ucmp s HI) as Hl. rewrite E in Hl. discriminate. }
  assert (HsL : Srt ucmp (sort_entries ucmp (all_entries s))).
  { apply (sorted_run_Srt ucmp). rewrite <- (concat_runs_of s Hne).
    apply (@merged_sorted ucmp TO). apply (@runs_of_ok ucmp TO). exact HI. }
  remember (sort_entries ucmp (all_entries s)) as L eqn:EL.
  assert (HKD : KD ucmp (all_entries s)) by (apply (SInv_KD ucmp); exact HI).
  assert (Hlt : forall i j a b, (i < j)%nat -> nth_error L i = Some a -> nth_error L j = Some b ->
                                ilt ucmp a b = true).
  { apply (SrtBy_nth (ilt ucmp) (ilt_irrefl ucmp) (ilt_trans ucmp) L HsL). }
  unfold live_view. rewrite <- EL. split.
  - intros (k' & Ek & Hin). apply (live_lhead ucmp q L HsL) in Hin.
    destruct Hin as (i & e & (Hat & Ve & Te & Hbefore) & Hx). unfold kv in Hx. inversion Hx; subst k' v.
    assert (Hm : matches ucmp k q e = true).
    { apply (matches_iff ucmp). split; [apply (ueq_iff ucmp); exact Ek|]. unfold vis in Ve. lia. }
    rewrite (best_unique ucmp (all_entries s) k q e HKD).
    + cbn [result_of]. unfold result_of_entry. rewrite Te. reflexivity.
    + apply (sort_entries_In ucmp). rewrite <- EL. eapply nth_error_In. exact Hat.
    + exact Hm.
    + intros e' Hin' Hm'. apply (sort_entries_In ucmp) in Hin'. rewrite <- EL in Hin'. apply In_nth_error in Hin'.
      destruct Hin' as [i' Hi']. apply (matches_iff ucmp) in Hm'. destruct Hm' as [Hk' Hq'].
      assert (Ekk : ucmp (ek e') (ek e) = Eq).
      { apply (ueq_iff ucmp) in Hk'. rewrite (ucmp_eq_l ucmp _ _ (ek e) Hk').
        apply (ucmp_eq_sym ucmp). exact Ek. }
      destruct (Nat.lt_trichotomy i' i) as [Lt'|[->|Gt']].
      * exfalso. apply (Hbefore i' e' Lt' Hi'); [unfold vis; lia|exact Ekk].
      * assert (e' = e) by congruence. subst e'. lia.
      * pose proof (Hlt i i' e e' Gt' Hat Hi') as Hl.
        pose proof (ilt_ueq_seq ucmp e e' Hl (proj2 (ueq_iff ucmp _ _) (ucmp_eq_sym ucmp _ _ Ekk))). lia.
  - intros Hvis. pose proof (best_weak ucmp (all_entries s) k q) as Hb.
    destruct (best ucmp (all_entries s) k q) as [e|]; [|discriminate].
    destruct Hb as (Hin & Hm & Hmax). cbn [result_of] in Hvis. unfold result_of_entry in Hvis.
    destruct (et e) eqn:Te; [|discriminate]. cbn [visible] in Hvis. inversion Hvis; subst v.
    apply (matches_iff ucmp) in Hm. destruct Hm as [Hk Hq]. apply (ueq_iff ucmp) in Hk.
    exists (ek e). split; [exact Hk|].
    apply (live_lhead ucmp q L HsL). apply (sort_entries_In ucmp) in Hin. rewrite <- EL in Hin. apply In_nth_error in Hin.
    destruct Hin as [i Hi]. exists i, e. split; [|reflexivity].
    split; [exact Hi|]. split; [unfold vis; lia|]. split; [exact Te|].
    intros j e' Hj He' Ve' Ekk.
    assert (Hm' : matches ucmp k q e' = true).
    { apply (matches_iff ucmp). split; [|unfold vis in Ve'; lia]. apply (ueq_iff ucmp).
      rewrite (ucmp_eq_l ucmp _ _ k Ekk). exact Hk. }
    pose proof (Hmax e' ltac:(apply (sort_entries_In ucmp); rewrite <- EL; eapply nth_error_In; exact He') Hm') as Hle.
    pose proof (Hlt j i e' e Hj He' Hi) as Hl.
    pose proof (ilt_ueq_seq ucmp e' e Hl (proj2 (ueq_iff ucmp _ _) Ekk)). lia.
Qed.

Print Assumptions iterator_agrees_with_get.

(* the live view lists every key once, in strictly increasing comparator order *)
Theorem live_view_strictly_sorted :
  forall ucmp, total_order ucmp -> forall s q,
  inv_b ucmp s = true -> SrtBy (klt ucmp) (live_view ucmp s q).
Proof.
  intros ucmp TO s q H. unfold live_view. apply (@live_view_sorted ucmp TO).
  apply (sorted_run_Srt ucmp). apply (inv_b_SInv ucmp) in H.
  assert (Hne : levels s <> []).
  { intros E. pose proof (si_len ucmp s H) as Hl. rewrite E in Hl. discriminate. }
  rewrite <- (concat_runs_of s Hne). apply (@merged_sorted ucmp TO). apply (@runs_of_ok ucmp TO). exact H.
Qed.
