(* LiveViewProofs.v -- what [live_of_sorted] (the live view a DB iterator must
   yield) contains: per user key, the first entry with sequence <= q of a strictly
   sorted run, present iff it is a value; and the view is strictly sorted by user key. *)
From LCDB Require Import Base Cursor CursorProofs Engine EngineSpec EngineStepsBase.
From Coq Require Import Sorting.Sorted.
Require Import Lia ZifyBool ZifyNat ZifyN.
Local Open Scope N_scope.

Section Live.
Variable ucmp : bytes -> bytes -> comparison.
Context {TO : total_order ucmp}.
Variable q : N.

Notation ilt := (Engine.ilt ucmp).
Notation Srt := (EngineStepsBase.Srt ucmp).
Notation live := (live_of_sorted ucmp q).

Definition vis (e : entry) : bool := es e <=? q.
Definition kv (e : entry) : bytes * bytes := (ek e, ev e).
(* order of the view: by user key *)
Definition klt (a b : bytes * bytes) : bool := ult ucmp (fst a) (fst b).

Lemma klt_irrefl a : klt a a = false.
Proof. unfold klt, ult. rewrite (ucmp_refl ucmp). reflexivity. Qed.

Lemma klt_trans a b c : klt a b = true -> klt b c = true -> klt a c = true.
Proof. unfold klt. rewrite !(ult_iff ucmp). apply (ucmp_lt_trans ucmp). Qed.

(* every key of l is >= the key remembered in prev *)
Definition prev_ok (prev : option bytes) (l : list entry) : Prop :=
  forall k0, prev = Some k0 -> forall e, In e l -> ucmp (ek e) k0 <> Lt.

Lemma live_cons prev a r :
  live prev (a :: r) =
  if vis a then
    if match prev with Some k => ueq ucmp (ek a) k | None => false end then live prev r
    else (if et a then [kv a] else []) ++ live (Some (ek a)) r
  else live prev r.
Proof. reflexivity. Qed.

Lemma split_cons {A} (a : A) r l1 e l2 :
  a :: r = l1 ++ e :: l2 ->
  (l1 = [] /\ e = a /\ l2 = r) \/ (exists l1', l1 = a :: l1' /\ r = l1' ++ e :: l2).
Proof.
  destruct l1 as [|b l1']; cbn [app]; intros H; inversion H; subst.
  - left. auto.
  - right. exists l1'. auto.
Qed.

(* the emitted pairs, in split form *)
Definition emits (prev : option bytes) (l : list entry) (x : bytes * bytes) : Prop :=
  exists l1 e l2, l = l1 ++ e :: l2 /\ vis e = true /\ et e = true /\ x = kv e /\
    (forall e', In e' l1 -> vis e' = true -> ucmp (ek e') (ek e) <> Eq) /\
    (forall k0, prev = Some k0 -> ucmp (ek e) k0 <> Eq).

Lemma emits_skip prev a r x :
  (vis a = true -> forall e, In e r -> ucmp (ek a) (ek e) = Eq -> exists k0, prev = Some k0 /\ ucmp (ek e) k0 = Eq) ->
  (vis a = true -> et a = true -> exists k0, prev = Some k0 /\ ucmp (ek a) k0 = Eq) ->
  (emits prev (a :: r) x <-> emits prev r x).
Proof.
  intros Hrec Hself. split.
  - intros (l1 & e & l2 & Hl & Ve & Te & Hx & Hl1 & Hp).
    destruct (split_cons _ _ _ _ _ Hl) as [(-> & -> & ->)|(l1' & -> & ->)].
    + destruct (Hself Ve Te) as (k0 & Hk0 & E). exfalso. apply (Hp k0 Hk0). exact E.
    + exists l1', e, l2. split; [reflexivity|]. split; [exact Ve|]. split; [exact Te|]. split; [exact Hx|].
      split; [|exact Hp]. intros e' He'. apply Hl1. right. exact He'.
  - intros (l1 & e & l2 & -> & Ve & Te & Hx & Hl1 & Hp).
    exists (a :: l1), e, l2. split; [reflexivity|]. split; [exact Ve|]. split; [exact Te|]. split; [exact Hx|].
    split; [|exact Hp]. intros e' [<-|He'] Ve'; [|apply Hl1; assumption].
    intros E. destruct (Hrec Ve' e) as (k0 & Hk0 & E'); [apply in_or_app; right; left; reflexivity|exact E|].
    apply (Hp k0 Hk0). exact E'.
Qed.

Lemma live_emits l : forall prev x, Srt l -> prev_ok prev l ->
  (In x (live prev l) <-> emits prev l x).
Proof.
  induction l as [|a r IH]; intros prev x Hs Hp.
  - cbn. split; [intros []|]. intros (l1 & e & l2 & H & _). destruct l1; discriminate.
  - apply Srt_cons_inv in Hs. destruct Hs as [Hr Ha].
    assert (Hpr : prev_ok prev r).
    { intros k0 Hk0 e He. apply (Hp k0 Hk0). right. exact He. }
    rewrite live_cons. destruct (vis a) eqn:Va.
    + destruct (match prev with Some k => ueq ucmp (ek a) k | None => false end) eqn:Sm.
      * (* hidden by prev *)
        destruct prev as [k0|]; [|discriminate]. apply (ueq_iff ucmp) in Sm.
        rewrite (IH (Some k0) x Hr Hpr). symmetry. apply emits_skip.
        -- intros _ e He E. exists k0. split; [reflexivity|].
           rewrite <- (ucmp_eq_l ucmp _ _ k0 E). exact Sm.
        -- intros _ _. exists k0. split; [reflexivity|exact Sm].
      * (* first visible entry of its key *)
        assert (Hpa : prev_ok (Some (ek a)) r).
        { intros k1 Hk1 e He. inversion Hk1; subst k1. intros E.
          apply (ilt_ukey ucmp a e (Ha e He)). apply (ucmp_gt_lt ucmp). exact E. }
        assert (Hnot : forall k0, prev = Some k0 -> ucmp (ek a) k0 <> Eq).
        { intros k0 -> E. apply (ueq_iff ucmp) in E. congruence. }
        rewrite in_app_iff, (IH (Some (ek a)) x Hr Hpa). split.
        -- intros [Hx|Hx].
           ++ destruct (et a) eqn:Ta; [|destruct Hx]. destruct Hx as [<-|[]].
              exists [], a, r. split; [reflexivity|]. split; [exact Va|]. split; [exact Ta|].
              split; [reflexivity|]. split; [intros e' []|exact Hnot].
           ++ destruct Hx as (l1 & e & l2 & -> & Ve & Te & Hx & Hl1 & Hpe).
              exists (a :: l1), e, l2. split; [reflexivity|]. split; [exact Ve|]. split; [exact Te|].
              split; [exact Hx|]. split.
              ** intros e' [<-|He'] Ve'; [|apply Hl1; assumption].
                 intros E. apply (Hpe (ek a) eq_refl). apply (ucmp_eq_sym ucmp). exact E.
              ** intros k0 Hk0 E.
                 (* k0 <= ek a <= ek e, ek e == k0 forces ek a == k0 *)
                 assert (He : In e (l1 ++ e :: l2)) by (apply in_or_app; right; left; reflexivity).
                 assert (H1 : ucmp k0 (ek a) <> Gt).
                 { intros G. apply (Hp k0 Hk0 a (or_introl eq_refl)). apply (ucmp_gt_lt ucmp). exact G. }
                 assert (H2 : ucmp (ek a) (ek e) <> Gt) by (apply (ilt_ukey ucmp), Ha, He).
                 destruct (ukey_squeeze ucmp k0 (ek a) (ek e) H1 H2 (ucmp_eq_sym ucmp _ _ E)) as [E1 _].
                 apply (Hnot k0 Hk0). apply (ucmp_eq_sym ucmp). exact E1.
        -- intros (l1 & e & l2 & Hl & Ve & Te & Hx & Hl1 & Hpe).
           destruct (split_cons _ _ _ _ _ Hl) as [(-> & -> & ->)|(l1' & -> & ->)].
           ++ left. rewrite Te. left. symmetry. exact Hx.
           ++ right. exists l1', e, l2. split; [reflexivity|]. split; [exact Ve|]. split; [exact Te|].
              split; [exact Hx|]. split.
              ** intros e' He'. apply Hl1. right. exact He'.
              ** intros k1 Hk1 E. inversion Hk1; subst k1.
                 apply (Hl1 a (or_introl eq_refl) Va). apply (ucmp_eq_sym ucmp). exact E.
    + (* invisible *)
      rewrite (IH prev x Hr Hpr). symmetry. apply emits_skip.
      * intros V. congruence.
      * intros V. congruence.
Qed.

(* ---------------------------------------------------------------- the view is strictly sorted *)
Lemma live_sorted l : forall prev, Srt l -> prev_ok prev l -> SrtBy klt (live prev l).
Proof.
  induction l as [|a r IH]; intros prev Hs Hp.
  - constructor.
  - pose proof Hs as Hs0. apply Srt_cons_inv in Hs. destruct Hs as [Hr Ha].
    assert (Hpr : prev_ok prev r).
    { intros k0 Hk0 e He. apply (Hp k0 Hk0). right. exact He. }
    rewrite live_cons. destruct (vis a) eqn:Va; [|apply IH; assumption].
    destruct (match prev with Some k => ueq ucmp (ek a) k | None => false end) eqn:Sm; [apply IH; assumption|].
    assert (Hpa : prev_ok (Some (ek a)) r).
    { intros k1 Hk1 e He. inversion Hk1; subst k1. intros E.
      apply (ilt_ukey ucmp a e (Ha e He)). apply (ucmp_gt_lt ucmp). exact E. }
    destruct (et a); cbn [app]; [|apply IH; assumption].
    constructor; [apply IH; assumption|].
    apply Forall_forall. intros y Hy.
    apply (live_emits r (Some (ek a)) y Hr Hpa) in Hy.
    destruct Hy as (l1 & e & l2 & -> & _ & _ & -> & _ & Hpe).
    unfold klt, kv. cbn [fst]. apply (ult_iff ucmp).
    assert (He : In e (l1 ++ e :: l2)) by (apply in_or_app; right; left; reflexivity).
    pose proof (ilt_ukey ucmp a e (Ha e He)) as H1.
    pose proof (Hpe (ek a) eq_refl) as H2.
    destruct (ucmp (ek a) (ek e)) eqn:E; try congruence.
    exfalso. apply H2. apply (ucmp_eq_sym ucmp). exact E.
Qed.

End Live.

(* ------------------------------------------------------------------ index form, for a whole run *)
Section LiveIdx.
Variable ucmp : bytes -> bytes -> comparison.
Context {TO : total_order ucmp}.
Variable q : N.
Variable l : list entry.
Hypothesis Hs : EngineStepsBase.Srt ucmp l.

(* a live head: the first entry with sequence <= q of its user key, and it is a value *)
Definition lhead (i : nat) (e : entry) : Prop :=
  nth_error l i = Some e /\ vis q e = true /\ et e = true /\
  forall j e', (j < i)%nat -> nth_error l j = Some e' -> vis q e' = true -> ucmp (ek e') (ek e) <> Eq.

Theorem live_lhead x :
  In x (live_of_sorted ucmp q None l) <-> exists i e, lhead i e /\ x = kv e.
Proof.
  rewrite (live_emits ucmp q l None x Hs) by (intros k0 H; discriminate).
  split.
  - intros (l1 & e & l2 & Hl & Ve & Te & Hx & Hl1 & _).
    exists (length l1), e. split; [|exact Hx].
    split; [|split; [exact Ve|split; [exact Te|]]].
    + rewrite Hl, nth_error_app2 by lia. rewrite Nat.sub_diag. reflexivity.
    + intros j e' Hj He'. rewrite Hl, nth_error_app1 in He' by exact Hj.
      apply Hl1. eapply nth_error_In. exact He'.
  - intros (i & e & (Hi & Ve & Te & Hbefore) & Hx).
    destruct (nth_error_split l i Hi) as (l1 & l2 & Hl & Hlen).
    exists l1, e, l2. split; [exact Hl|]. split; [exact Ve|]. split; [exact Te|]. split; [exact Hx|].
    split; [|intros k0 H; discriminate].
    intros e' He'. apply In_nth_error in He'. destruct He' as [j Hj].
    assert (Hjl : (j < length l1)%nat) by (apply nth_error_Some; congruence).
    apply (Hbefore j e'); [lia|]. rewrite Hl, nth_error_app1 by exact Hjl. exact Hj.
Qed.

Theorem live_view_sorted : SrtBy (klt ucmp) (live_of_sorted ucmp q None l).
Proof. apply (live_sorted ucmp q l None Hs). intros k0 H. discriminate. Qed.

End LiveIdx.
