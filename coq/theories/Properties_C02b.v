(* Properties_C02b.v -- theorems for property C02 (and C04/C08), group-commit part: the
   model of ldb_build_batch_group (Group.v).  A sync=1 write is only ever merged into a group
   whose leader syncs the log; everything the leader acknowledges was merged; the group is a
   bounded, maximal prefix of the queue and an instance of the guard of the transition system
   of Lts.v.  Statements only; proofs in GroupProofs.v. *)
From Coq Require Import List NArith Bool.
From LCDB Require Import Group GroupProofs Lts.
Import ListNotations.
Local Open Scope N_scope.

Theorem C02_group_is_nonempty_prefix : forall q, q <> [] -> (1 <= build_group q <= length q)%nat.
Proof. exact build_group_bounds. Qed.
Print Assumptions C02_group_is_nonempty_prefix.

(* the durability rule *)
Theorem C02_sync_member_has_sync_leader : forall q w,
  In w (firstn (build_group q) q) -> gw_sync w = true -> group_is_synced q = true.
Proof. exact group_sync_rule. Qed.
Print Assumptions C02_sync_member_has_sync_leader.

(* acknowledged = merged *)
Theorem C04_group_members_are_the_covered_batches : forall q w,
  In w (group_members q) <-> In w (firstn (build_group q) q) /\ gw_batch w = true.
Proof. exact group_members_are_covered. Qed.
Print Assumptions C04_group_members_are_the_covered_batches.

Theorem C04_group_size_cap : forall f r, gw_batch f = true ->
  group_bytes (f :: r) <= N.max (gw_size f) (group_max_size (gw_size f)).
Proof. exact group_size_cap. Qed.
Print Assumptions C04_group_size_cap.

Theorem C04_group_maximal : forall f r, gw_batch f = true ->
  let n := build_group (f :: r) in
  (n < length (f :: r))%nat ->
  exists w, nth_error (f :: r) n = Some w /\
    ((gw_sync w = true /\ gw_sync f = false) \/
     (gw_batch w = true /\ group_max_size (gw_size f) < group_bytes (f :: r) + gw_size w)).
Proof. exact group_maximal. Qed.
Print Assumptions C04_group_maximal.

(* lcdb's deterministic choice is one of the groups the transition system of C08/C09 allows *)
Theorem C08_group_choice_satisfies_lts_guard : forall sz h r b,
  q_batch h = Some b ->
  group_ok (h :: r) (build_group (map (view_of sz) (h :: r))) = true.
Proof. exact build_group_satisfies_lts_guard. Qed.
Print Assumptions C08_group_choice_satisfies_lts_guard.
