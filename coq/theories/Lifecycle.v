(* Lifecycle.v -- model of lcdb's lifecycle operations (property C20):
     1. the lock taken by ldb_open and released by ldb_close / a failed open
        (src/db_impl.c ldb_recover, ldb_destroy_internal; src/util/env_unix_impl.h
        ldb_lock_file / ldb_unlock_file: an in-process table of locked files + an
        advisory lock of the operating system);
     2. ldb_destroy (src/db_impl.c): which names of a directory survive;
     3. ldb_backup / ldb_copy at the level of the engine model: the backup is what a
        recovery of the same files sees;
     4. the comparator check of ldb_versions_recover.
   Definitions only (executable); the proofs are in LifecycleProofs.v. *)
From LCDB Require Export Base Engine Filename Edit.
Local Open Scope N_scope.

(* ================================================================== 1. locks *)
(* A directory is identified by its name (lcdb: by the device/inode of its LOCK file). *)
Definition dir := bytes.

Definition dir_in (d : dir) (l : list dir) : bool := existsb (bytes_eqb d) l.

Fixpoint dir_remove (d : dir) (l : list dir) : list dir :=
  match l with
  | [] => []
  | x :: r => if bytes_eqb d x then r else x :: dir_remove d r
  end.

(* ---- 1a. one process: the lock table is the list of locked directories ---- *)
Record lk_state := mkL {
  locks : list dir;              (* ldb_lock_file's table: directories locked by this process *)
  handles : list (N * dir);      (* open database handles: identifier, directory *)
  next_handle : N }.

Definition lk_init : lk_state := mkL [] [] 0.

(* ldb_lock_file: fails when the directory is already in the table *)
Definition lock_file (d : dir) (l : list dir) : option (list dir) :=
  if dir_in d l then None else Some (d :: l).
(* ldb_unlock_file *)
Definition unlock_file (d : dir) (l : list dir) : list dir := dir_remove d l.

Inductive lk_result :=
| ROpened (h : N)      (* ldb_open returned LDB_OK and a handle *)
| RLocked              (* ldb_open failed in ldb_lock_file: nothing was acquired *)
| RFailed              (* ldb_open failed after taking the lock (error_if_exists, wrong comparator,
                          corruption ...): ldb_destroy_internal released the lock *)
| RClosed              (* ldb_close *)
| RNoHandle.           (* not a live handle *)

Fixpoint handle_dir (h : N) (hs : list (N * dir)) : option dir :=
  match hs with
  | [] => None
  | (h', d) :: r => if h =? h' then Some d else handle_dir h r
  end.

Fixpoint handle_remove (h : N) (hs : list (N * dir)) : list (N * dir) :=
  match hs with
  | [] => []
  | (h', d) :: r => if h =? h' then r else (h', d) :: handle_remove h r
  end.

(* ldb_open of directory d; [rest_ok] says whether everything after the lock succeeds *)
Definition lc_open_gen (rest_ok : bool) (s : lk_state) (d : dir) : lk_state * lk_result :=
  match lock_file d (locks s) with
  | None => (s, RLocked)
  | Some l' =>
      if rest_ok then (mkL l' ((next_handle s, d) :: handles s) (next_handle s + 1), ROpened (next_handle s))
      else (mkL (unlock_file d l') (handles s) (next_handle s), RFailed)
  end.

Definition lc_open := lc_open_gen true.
Definition lc_failed_open := lc_open_gen false.

(* ldb_close of a handle *)
Definition lc_close_handle (s : lk_state) (h : N) : lk_state * lk_result :=
  match handle_dir h (handles s) with
  | None => (s, RNoHandle)
  | Some d => (mkL (unlock_file d (locks s)) (handle_remove h (handles s)) (next_handle s), RClosed)
  end.

(* the handle open on directory d, if any *)
Fixpoint dir_handle (d : dir) (hs : list (N * dir)) : option N :=
  match hs with
  | [] => None
  | (h, d') :: r => if bytes_eqb d d' then Some h else dir_handle d r
  end.

(* close the handle that is open on d *)
Definition lc_close (s : lk_state) (d : dir) : lk_state * lk_result :=
  match dir_handle d (handles s) with
  | None => (s, RNoHandle)
  | Some h => lc_close_handle s h
  end.

Inductive lk_op :=
| LOpen (d : dir)            (* ldb_open that succeeds if it gets the lock *)
| LFailedOpen (d : dir)      (* ldb_open that fails after the lock attempt *)
| LClose (d : dir)           (* ldb_close of the handle open on d *)
| LCloseHandle (h : N).      (* ldb_close of handle h *)

Definition lk_step (s : lk_state) (o : lk_op) : lk_state * lk_result :=
  match o with
  | LOpen d => lc_open s d
  | LFailedOpen d => lc_failed_open s d
  | LClose d => lc_close s d
  | LCloseHandle h => lc_close_handle s h
  end.

Fixpoint lk_run (s : lk_state) (ops : list lk_op) : lk_state :=
  match ops with
  | [] => s
  | o :: r => lk_run (fst (lk_step s o)) r
  end.

Definition open_dirs (s : lk_state) : list dir := map snd (handles s).
Definition count_open (d : dir) (s : lk_state) : nat := length (filter (bytes_eqb d) (open_dirs s)).

(* ---- 1b. several processes and the advisory lock of the operating system ----
   ldb_lock_file (env_unix_impl.h, HAVE_SETLK = fcntl record locks, the variant every Linux
   build selects) as it was before fix 96e3fcf:
       fd = open(LOCK);  if ((dev,ino) in file_set) { errno = ENOLCK; goto fail; }
       if (fcntl(fd, F_SETLK, F_WRLCK) != 0) goto fail;  file_set += id;  return OK;
     fail: close(fd);
   POSIX: when a process closes ANY descriptor of a file, all record locks the process holds
   on that file are released.  [check_first = false] is that code; [check_first = true] is
   the repaired code, which stat()s the LOCK file and consults the table BEFORE opening it
   (no descriptor is opened and closed while the process holds the lock). *)
Record mp_state := mkP {
  p_table : list (N * dir);      (* (process, directory): the in-process tables file_set *)
  p_os : list (N * dir);         (* (process, directory): record locks granted by the OS *)
  p_handles : list (N * dir) }.  (* open database handles: (process, directory) *)

Definition mp_init : mp_state := mkP [] [] [].

Definition pd_eqb (a b : N * dir) : bool := (fst a =? fst b) && bytes_eqb (snd a) (snd b).
Definition pd_in (x : N * dir) (l : list (N * dir)) : bool := existsb (pd_eqb x) l.
Fixpoint pd_remove (x : N * dir) (l : list (N * dir)) : list (N * dir) :=
  match l with
  | [] => []
  | y :: r => if pd_eqb x y then r else y :: pd_remove x r
  end.
(* the OS refuses F_SETLK when ANOTHER process holds the lock *)
Definition os_conflict (p : N) (d : dir) (os : list (N * dir)) : bool :=
  existsb (fun y => negb (fst y =? p) && bytes_eqb d (snd y)) os.
(* close(fd) of a descriptor of d's LOCK file in process p: p's record locks on it are gone *)
Definition os_close (p : N) (d : dir) (os : list (N * dir)) : list (N * dir) :=
  filter (fun y => negb (pd_eqb (p, d) y)) os.

Inductive mp_op :=
| POpen (p : N) (d : dir)
| PClose (p : N) (d : dir).

Definition p_lock_file (check_first : bool) (s : mp_state) (p : N) (d : dir) : mp_state * bool :=
  if pd_in (p, d) (p_table s) then
    (if check_first then (s, false)
     else (mkP (p_table s) (os_close p d (p_os s)) (p_handles s), false))
  else if os_conflict p d (p_os s) then
    (mkP (p_table s) (os_close p d (p_os s)) (p_handles s), false)
  else (mkP ((p, d) :: p_table s) ((p, d) :: p_os s) (p_handles s), true).

Definition mp_step (check_first : bool) (s : mp_state) (o : mp_op) : mp_state * bool :=
  match o with
  | POpen p d =>
      let (s1, ok) := p_lock_file check_first s p d in
      if ok then (mkP (p_table s1) (p_os s1) ((p, d) :: p_handles s1), true) else (s1, false)
  | PClose p d =>
      if pd_in (p, d) (p_handles s) then
        (mkP (pd_remove (p, d) (p_table s)) (os_close p d (p_os s)) (pd_remove (p, d) (p_handles s)), true)
      else (s, false)
  end.

Fixpoint mp_run (check_first : bool) (s : mp_state) (ops : list mp_op) : mp_state :=
  match ops with
  | [] => s
  | o :: r => mp_run check_first (fst (mp_step check_first s o)) r
  end.

Definition p_count_open (d : dir) (s : mp_state) : nat :=
  length (filter (fun y => bytes_eqb d (snd y)) (p_handles s)).

(* ================================================================== 2. destroy *)
(* ldb_destroy removes every name of the directory that ldb_parse_filename accepts
   (LOCK at the end, after unlocking it) and nothing else *)
Definition owned (n : bytes) : bool :=
  match parse_filename n with None => false | Some _ => true end.

Definition destroy_remaining (names : list (list N)) : list (list N) :=
  filter (fun n => match parse_filename n with None => true | Some _ => false end) names.

Definition s_lost : bytes := [108;111;115;116].

(* the "lost" subdirectory (files set aside by ldb_repair): emptied of owned names and
   removed if that leaves it empty -- unless it holds a CURRENT (it is a database itself).
   None = the subdirectory is gone. *)
Definition destroy_lost (sub : list bytes) : option (list bytes) :=
  if existsb (bytes_eqb s_CURRENT) sub then Some sub
  else match destroy_remaining sub with [] => None | r => Some r end.

(* whole effect: [top] = names in the directory other than the subdirectory "lost",
   [lost] = its content if it exists.  None = the directory itself was removed. *)
Definition destroy_tree (top : list bytes) (lost : option (list bytes))
  : option (list bytes * option (list bytes)) :=
  let top' := destroy_remaining top in
  let lost' := match lost with None => None | Some sub => destroy_lost sub end in
  match top', lost' with
  | [], None => None
  | _, _ => Some (top', lost')
  end.

(* ================================================================== 3. backup / copy *)
(* ldb_backup copies the logs, the MANIFEST and CURRENT and links the live tables while
   holding the database mutex; ldb_copy does the same on a closed database.  Opening the
   result runs the recovery of ldb_open on the same files: at the level of Engine.v the
   backup is what a reopen of the same state sees.  [bounds nums nf] are the free
   parameters of recovery (where the replayed log is cut into level-0 tables, their
   numbers, the file-number counter). *)
Definition backup_state (ucmp : bytes -> bytes -> comparison) (s : state)
  (bounds nums : list N) (nf : N) : option state :=
  do_reopen ucmp s bounds nums nf.

(* Source and backup side by side: two databases, each with its own operations.
   [take_backup] leaves the source component untouched. *)
Record world := mkW { w_src : state; w_bak : state }.
Inductive world_op := WSrc (o : op) | WBak (o : op).

Definition take_backup (ucmp : bytes -> bytes -> comparison) (s : state)
  (bounds nums : list N) (nf : N) : option world :=
  match backup_state ucmp s bounds nums nf with
  | Some b => Some (mkW s b)
  | None => None
  end.

Definition wstep (ucmp : bytes -> bytes -> comparison) (w : world) (o : world_op) : option world :=
  match o with
  | WSrc o => match step ucmp (w_src w) o with Some s' => Some (mkW s' (w_bak w)) | None => None end
  | WBak o => match step ucmp (w_bak w) o with Some b' => Some (mkW (w_src w) b') | None => None end
  end.

Fixpoint wrun (ucmp : bytes -> bytes -> comparison) (w : world) (ops : list world_op) : option world :=
  match ops with
  | [] => Some w
  | o :: r => match wstep ucmp w o with Some w' => wrun ucmp w' r | None => None end
  end.

Fixpoint src_ops (ops : list world_op) : list op :=
  match ops with [] => [] | WSrc o :: r => o :: src_ops r | WBak _ :: r => src_ops r end.
Fixpoint bak_ops (ops : list world_op) : list op :=
  match ops with [] => [] | WBak o :: r => o :: bak_ops r | WSrc _ :: r => bak_ops r end.

(* ================================================================== 4. comparator check *)
(* ldb_versions_recover: every edit of the MANIFEST that names a comparator must name the
   one in the options (ldb_slice_equal), else LDB_INVALID *)
Definition open_check (stored requested : bytes) : bool := bytes_eqb stored requested.

Definition edits_check (edits : list edit) (requested : bytes) : bool :=
  forallb (fun e => match e_comparator e with Some c => open_check c requested | None => true end) edits.

Inductive open_status := OpenOk | OpenInvalid.
Definition LDB_INVALID : N := 30004.
Definition status_code (r : open_status) : N := match r with OpenOk => 0 | OpenInvalid => LDB_INVALID end.

(* the directory image is a parameter: the function has no means to change it *)
Definition open_with_comparator {Img : Type} (img : Img) (edits : list edit) (requested : bytes)
  : open_status * Img :=
  if edits_check edits requested then (OpenOk, img) else (OpenInvalid, img).

Definition name_bytewise : bytes :=    (* "leveldb.BytewiseComparator" *)
  [108;101;118;101;108;100;98;46;66;121;116;101;119;105;115;101;67;111;109;112;97;114;97;116;111;114].
Definition name_reverse : bytes :=     (* "verif.ReverseBytewise" (harness/k2.c) *)
  [118;101;114;105;102;46;82;101;118;101;114;115;101;66;121;116;101;119;105;115;101].
