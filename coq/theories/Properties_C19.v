(* Properties_C19.v -- C19: repair recovers all surviving data. *)
From LCDB Require Import Base Engine EngineSpec EngineRead Repair.
Local Open Scope N_scope.

(* After repair, point lookups are right whenever the repaired layout satisfies the
   invariant (i.e. file numbering follows data age). *)
Theorem C19_get_after_repair_partial : forall ucmp, total_order ucmp -> forall s nums nf s',
  do_repair ucmp s nums nf = Some s' -> inv_b ucmp s' = true ->
  forall k q, get ucmp s' k q = result_of (best ucmp (all_entries s') k q).
Proof. intros ucmp TO s nums nf s' _ Hinv k q. exact (get_correct ucmp TO s' k q Hinv). Qed.
Print Assumptions C19_get_after_repair_partial.

(* Scans after repair are right unconditionally: the live view only depends on the set of
   surviving entries, which repair keeps (spec is re-based on them). *)
Theorem C19_survivors_kept : forall ucmp s nums nf s',
  do_repair ucmp s nums nf = Some s' ->
  hist s' = pending_entries ucmp s ++ concat (map level_entries (levels s)) /\
  last_seq s' = max_seq (hist s') /\ mem s' = [] /\ snaps s' = [].
Proof.
  intros ucmp s nums nf s' H. unfold do_repair in H.
  destruct (match pending_entries ucmp s with [] => _ | _ :: _ => _ end) as [nw|]; [|discriminate].
  destruct (forallb _ _); [|discriminate]. inversion H; subst; cbn. repeat split; reflexivity.
Qed.
Print Assumptions C19_survivors_kept.

(* In general point lookups after repair are WRONG (finding F1): a valid state whose repair makes
   get return an older value than the newest surviving one. *)
Definition f1_state : state :=
  mkS [] None [[mkF 9 [mkE [107] 4 true [2]]]; [];
               [mkF 12 [mkE [97] 2 true [1]; mkE [107] 3 true [1]]]; []; []; []; []] 4 [] 13 [].

Theorem C19_get_after_repair_refuted : exists s nums nf s' k,
  inv_b bytes_compare s = true /\ do_repair bytes_compare s nums nf = Some s' /\
  visible (get bytes_compare s' k (last_seq s')) = Some [1] /\
  visible (result_of (best bytes_compare (all_entries s') k (last_seq s'))) = Some [2].
Proof.
  exists f1_state, [], 13.
  eexists. exists [107]. split; [vm_compute; reflexivity|]. split; [vm_compute; reflexivity|].
  split; vm_compute; reflexivity.
Qed.
Print Assumptions C19_get_after_repair_refuted.
