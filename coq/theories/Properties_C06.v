(* Properties_C06.v -- filled from EngineRead / EngineSteps when they land. *)
From LCDB Require Import Base Engine EngineSpec EngineRead.
Theorem C06_get_is_newest_visible : forall ucmp, total_order ucmp -> forall s k q,
  inv_b ucmp s = true -> get ucmp s k q = result_of (best ucmp (all_entries s) k q).
Proof. exact get_correct. Qed.
Print Assumptions C06_get_is_newest_visible.
