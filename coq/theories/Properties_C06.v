(* Properties_C06.v -- theorems for property C06 (snapshots are immutable views).
   Statements only; the proofs are in EngineRead.v and EngineTop.v.
   [snaps] is a multiset of live snapshot sequences: ORelease q removes ONE occurrence,
   OReopen drops all of them (handles do not survive a close). *)
From LCDB Require Import Base Engine EngineSpec EngineRead EngineSteps EngineTop.
Local Open Scope N_scope.

Theorem C06_get_is_newest_visible : forall ucmp, total_order ucmp -> forall s k q,
  inv_b ucmp s = true -> get ucmp s k q = result_of (best ucmp (all_entries s) k q).
Proof. exact get_correct. Qed.
Print Assumptions C06_get_is_newest_visible.

(* a snapshot taken in s1 keeps showing what s1 showed, whatever happens afterwards, as
   long as its sequence stays registered in every intermediate state *)
Theorem C06_snapshot_frozen : forall ucmp, total_order ucmp -> forall ops1 s1 ops2 s2,
  run ucmp init_state ops1 = Some s1 ->
  run ucmp (do_snapshot s1) ops2 = Some s2 ->
  (forall pre post s', ops2 = pre ++ post -> run ucmp (do_snapshot s1) pre = Some s' ->
                       In (last_seq s1) (snaps s')) ->
  forall k, visible (get ucmp s2 k (last_seq s1)) = visible (get ucmp s1 k (last_seq s1)).
Proof. exact snapshot_frozen. Qed.
Print Assumptions C06_snapshot_frozen.

(* ... which is the content of the writes that preceded the snapshot *)
Theorem C06_snapshot_shows_history : forall ucmp, total_order ucmp -> forall ops1 s1 ops2 s2,
  run ucmp init_state ops1 = Some s1 ->
  run ucmp (do_snapshot s1) ops2 = Some s2 ->
  (forall pre post s', ops2 = pre ++ post -> run ucmp (do_snapshot s1) pre = Some s' ->
                       In (last_seq s1) (snaps s')) ->
  forall k, visible (get ucmp s2 k (last_seq s1)) = map_after ucmp (written 0 ops1) k.
Proof. exact snapshot_shows_history. Qed.
Print Assumptions C06_snapshot_shows_history.

(* syntactic criterion: no reopen, and at most as many releases of that sequence as there
   were OTHER handles on it when the snapshot was taken *)
Theorem C06_snapshot_frozen_count : forall ucmp, total_order ucmp -> forall ops1 s1 ops2 s2,
  run ucmp init_state ops1 = Some s1 ->
  run ucmp (do_snapshot s1) ops2 = Some s2 ->
  no_reopen ops2 = true ->
  (releases (last_seq s1) ops2 <= cnt (last_seq s1) (snaps s1))%nat ->
  forall k, visible (get ucmp s2 k (last_seq s1)) = visible (get ucmp s1 k (last_seq s1)) /\
            visible (get ucmp s2 k (last_seq s1)) = map_after ucmp (written 0 ops1) k.
Proof. exact snapshot_frozen_count. Qed.
Print Assumptions C06_snapshot_frozen_count.

(* taking or releasing OTHER snapshots does not change what it observes *)
Theorem C06_other_snapshots_irrelevant : forall ucmp, total_order ucmp -> forall ops1 s1 ops2 s2,
  run ucmp init_state ops1 = Some s1 ->
  run ucmp (do_snapshot s1) ops2 = Some s2 ->
  no_reopen ops2 = true -> releases (last_seq s1) ops2 = O ->
  forall k, visible (get ucmp s2 k (last_seq s1)) = visible (get ucmp s1 k (last_seq s1)).
Proof. exact other_snapshots_irrelevant. Qed.
Print Assumptions C06_other_snapshots_irrelevant.

(* the general step form: from any state satisfying the invariants *)
Theorem C06_frozen_view : forall ucmp, total_order ucmp -> forall ops s s' q,
  Inv2 ucmp s -> q <= last_seq s -> run ucmp s ops = Some s' ->
  (forall pre post t, ops = pre ++ post -> run ucmp s pre = Some t -> In q (snaps t)) ->
  forall k, view ucmp s' k q = view ucmp s k q.
Proof. exact frozen_view. Qed.
Print Assumptions C06_frozen_view.

(* non-vacuity: in the run of EngineTop.Example the snapshot at sequence 2 is held across
   writes, two flushes, another snapshot taken and released, and a compaction *)
Theorem C06_example : forall k,
  run bytes_compare init_state Example.ops1 = Some Example.s1 /\
  run bytes_compare (do_snapshot Example.s1) Example.ops2 = Some Example.s2 /\
  visible (get bytes_compare Example.s2 k 2) = visible (get bytes_compare Example.s1 k 2) /\
  visible (get bytes_compare Example.s2 k 2) = map_after bytes_compare (written 0 Example.ops1) k.
Proof.
  intros k. split. exact Example.run1. split. exact Example.run2. exact (Example.c06_instance k).
Qed.
Print Assumptions C06_example.

(* the hypothesis cannot be dropped: after its release a compaction drops what only the
   snapshot could see *)
Theorem C06_released_snapshot_not_frozen :
  exists t1 t2,
    run bytes_compare init_state [OWrite [WPut Example.ka [1]]] = Some t1 /\
    run bytes_compare (do_snapshot t1) Example.rel_ops = Some t2 /\
    visible (get bytes_compare t1 Example.ka 1) = Some [1] /\
    visible (get bytes_compare t2 Example.ka 1) = None.
Proof. exact Example.released_snapshot_not_frozen. Qed.
Print Assumptions C06_released_snapshot_not_frozen.
