(* FilterBlockProofs.v -- (a, second half) the filter block never rejects a key that was
   added: a key added under a block offset matches at that offset, for any filter
   policy without false negatives, when the block offsets are issued in
   non-decreasing order of filter index (as the table builder does). *)
From LCDB Require Import Base Varint Block Trie Filter BaseProofs VarintProofs BlockProofs FilterProofs.
Require Import Lia ZifyBool ZifyNat ZifyN.
Ltac Zify.zify_post_hook ::= Z.div_mod_to_equations.
Local Open Scope N_scope.

(* ------------------------------------------------------------------ *)
(* encoded form of a list of per-index filters                         *)
(* ------------------------------------------------------------------ *)
Fixpoint psums (acc : N) (F : list bytes) : list N :=
  match F with
  | [] => []
  | f :: F' => acc :: psums (acc + nlen f) F'
  end.

Definition fenc (F : list bytes) : bytes :=
  concat F ++ flat_map le32 (psums 0 F) ++ le32 (nlen (concat F)) ++ [FILTER_BASE_LG].

Lemma psums_length : forall F acc, length (psums acc F) = length F.
Proof. induction F; intros; cbn [psums length]; auto. Qed.

Lemma nlen_psums : forall F acc, nlen (psums acc F) = nlen F.
Proof. intros. unfold nlen. rewrite psums_length. reflexivity. Qed.

Lemma nlen_le32 : forall x, nlen (le32 x) = 4.
Proof. intros. unfold nlen. rewrite le32_length. reflexivity. Qed.

Lemma psums_app : forall F acc f,
  psums acc (F ++ [f]) = psums acc F ++ [acc + nlen (concat F)].
Proof.
  induction F as [|g F IH]; intros acc f; cbn [psums app concat].
  - rewrite nlen_nil, N.add_0_r. reflexivity.
  - rewrite IH. rewrite nlen_app. f_equal. f_equal. f_equal. lia.
Qed.

(* offset i (or the total size for i = length F) as read from the offset array *)
Definition off_at (F : list bytes) (i : nat) : N := nlen (concat (firstn i F)).

Lemma psums_nth : forall F acc i, (i < length F)%nat ->
  nth_error (psums acc F) i = Some (acc + off_at F i).
Proof.
  induction F as [|f F IH]; intros acc i Hi; cbn [length] in Hi; [lia|].
  destruct i; cbn [psums nth_error].
  - unfold off_at. cbn. f_equal. lia.
  - rewrite IH by lia. unfold off_at. cbn [firstn concat]. rewrite nlen_app. f_equal. lia.
Qed.

Lemma concat_firstn_split : forall (F : list bytes) i,
  (i < length F)%nat ->
  concat F = concat (firstn i F) ++ nth i F [] ++ concat (skipn (S i) F).
Proof.
  induction F as [|f F IH]; intros i Hi; cbn [length] in Hi; [lia|].
  destruct i; cbn [firstn nth skipn concat app]; [reflexivity|].
  rewrite (IH i) at 1 by lia. rewrite <- app_assoc. reflexivity.
Qed.

Lemma off_at_succ : forall F i, (i < length F)%nat ->
  off_at F (S i) = off_at F i + nlen (nth i F []).
Proof.
  induction F as [|f F IH]; intros i Hi; cbn [length] in Hi; [lia|].
  destruct i; unfold off_at in *; cbn [firstn concat nth].
  - rewrite app_nil_r, nlen_nil. lia.
  - rewrite !nlen_app. specialize (IH i ltac:(lia)). cbn [firstn] in IH. lia.
Qed.

Lemma off_at_le_total : forall F i, off_at F i <= nlen (concat F).
Proof.
  intros. unfold off_at. rewrite <- (firstn_skipn i F) at 2.
  rewrite concat_app, nlen_app. lia.
Qed.

Lemma off_at_length : forall F, off_at F (length F) = nlen (concat F).
Proof. intros. unfold off_at. rewrite firstn_all. reflexivity. Qed.

Lemma flat_map_app' : forall (A B : Type) (f : A -> list B) l1 l2,
  flat_map f (l1 ++ l2) = flat_map f l1 ++ flat_map f l2.
Proof. induction l1; intros; cbn [flat_map app]; [reflexivity|]. rewrite IHl1, app_assoc. reflexivity. Qed.

Lemma read32_at_app : forall pre x rest,
  x < 4294967296 ->
  read32 (pre ++ le32 x ++ rest) (nlen (pre ++ le32 x ++ rest)) (nlen pre) = Ok x.
Proof.
  intros pre x rest Hx. unfold read32.
  rewrite !nlen_app, nlen_le32.
  replace (nlen pre + (4 + nlen rest) <? nlen pre + 4) with false by lia.
  rewrite drop_n_nlen_app. rewrite de32_le32 by exact Hx. reflexivity.
Qed.

Section FilterBlock.
Variable fbuild : list bytes -> bytes.
Variable fmatch : bytes -> bytes -> res bool.

(* the offset-array word number j (j <= length F): off_at F j *)
Lemma fenc_word : forall F j,
  nlen (fenc F) < 4294967296 -> (j <= length F)%nat ->
  read32 (fenc F) (nlen (fenc F)) (nlen (concat F) + 4 * N.of_nat j) = Ok (off_at F j).
Proof.
  intros F j Hsz Hj.
  assert (Htot : nlen (concat F) < 4294967296).
  { unfold fenc in Hsz. rewrite nlen_app in Hsz. lia. }
  destruct (Nat.eq_dec j (length F)) as [->|Hne].
  - rewrite off_at_length.
    assert (E : fenc F = (concat F ++ flat_map le32 (psums 0 F)) ++ le32 (nlen (concat F)) ++ [FILTER_BASE_LG]).
    { unfold fenc. rewrite <- app_assoc. reflexivity. }
    rewrite E.
    replace (nlen (concat F) + 4 * N.of_nat (length F)) with (nlen (concat F ++ flat_map le32 (psums 0 F))).
    + apply read32_at_app. exact Htot.
    + rewrite nlen_app, flat_map_le32_length, nlen_psums. reflexivity.
  - assert (Hlt : (j < length F)%nat) by lia.
    pose proof (psums_nth F 0 j Hlt) as Hn. rewrite N.add_0_l in Hn.
    destruct (nth_error_split _ _ Hn) as (l1 & l2 & Hsplit & Hl1).
    assert (E : fenc F = (concat F ++ flat_map le32 l1) ++ le32 (off_at F j)
                         ++ (flat_map le32 l2 ++ le32 (nlen (concat F)) ++ [FILTER_BASE_LG])).
    { unfold fenc. rewrite Hsplit. rewrite flat_map_app'. cbn [flat_map]. rewrite <- !app_assoc. reflexivity. }
    rewrite E.
    replace (nlen (concat F) + 4 * N.of_nat j) with (nlen (concat F ++ flat_map le32 l1)).
    + apply read32_at_app. pose proof (off_at_le_total F j). lia.
    + rewrite nlen_app, flat_map_le32_length. unfold nlen. rewrite Hl1. reflexivity.
Qed.

Lemma fenc_length : forall F, nlen (fenc F) = nlen (concat F) + 4 * nlen F + 5.
Proof.
  intros. unfold fenc. rewrite !nlen_app, flat_map_le32_length, nlen_psums, nlen_le32.
  unfold FILTER_BASE_LG. rewrite nlen_cons, nlen_nil. lia.
Qed.

Lemma nth_error_last : forall (A : Type) (l : list A) x, nth_error (l ++ [x]) (length l) = Some x.
Proof. intros. rewrite nth_error_app2 by lia. rewrite Nat.sub_diag. reflexivity. Qed.

(* reading filter i of an encoded filter block *)
Lemma filter_block_matches_fenc : forall F off key,
  nlen (fenc F) < 4294967296 ->
  off / 2048 < nlen F ->
  filter_block_matches fmatch (fenc F) off key = fmatch (nth (N.to_nat (off / 2048)) F []) key.
Proof.
  intros F off key Hsz Hlt.
  set (i := N.to_nat (off / 2048)).
  assert (Hi : (i < length F)%nat) by (unfold nlen in Hlt; lia).
  pose proof (fenc_length F) as Hlen.
  set (n := nlen (concat F)) in *.
  unfold filter_block_matches, filter_init.
  replace (nlen (fenc F) <? 5) with false by lia.
  assert (Hlast : nth_error (fenc F) (N.to_nat (nlen (fenc F) - 1)) = Some FILTER_BASE_LG).
  { assert (E : fenc F = (concat F ++ flat_map le32 (psums 0 F) ++ le32 (nlen (concat F))) ++ [FILTER_BASE_LG]).
    { unfold fenc. rewrite <- !app_assoc. reflexivity. }
    rewrite E at 1.
    replace (N.to_nat (nlen (fenc F) - 1))
      with (length (concat F ++ flat_map le32 (psums 0 F) ++ le32 (nlen (concat F)))).
    - apply nth_error_last.
    - rewrite E. unfold nlen. rewrite !app_length. cbn [length]. lia. }
  rewrite Hlast.
  pose proof (fenc_word F (length F) Hsz ltac:(lia)) as Hw.
  rewrite off_at_length in Hw. fold n in Hw.
  replace (nlen (fenc F) - 5) with (n + 4 * N.of_nat (length F)) by (unfold nlen in *; lia).
  rewrite Hw. cbn [rbind].
  replace (n + 4 * N.of_nat (length F) <? n) with false by lia.
  cbn [rbind]. unfold filter_matches.
  cbn [fr_base_lg fr_num fr_data fr_size fr_offset].
  replace (FILTER_BASE_LG mod 64) with 11 by reflexivity.
  replace (2 ^ 11) with 2048 by reflexivity.
  replace ((n + 4 * N.of_nat (length F) - n) / 4) with (nlen F) by (unfold nlen; lia).
  replace (off / 2048 <? nlen F) with true by lia.
  replace (n + off / 2048 * 4) with (n + 4 * N.of_nat i) by (unfold i; lia).
  pose proof (fenc_word F i Hsz ltac:(lia)) as Hwi. fold n in Hwi.
  pose proof (fenc_word F (S i) Hsz ltac:(lia)) as Hwsi. fold n in Hwsi.
  rewrite Hwi. cbn [rbind].
  replace (n + 4 * N.of_nat i + 4) with (n + 4 * N.of_nat (S i)) by lia.
  rewrite Hwsi. cbn [rbind].
  rewrite (off_at_succ F i Hi).
  pose proof (off_at_le_total F (S i)) as Hle. rewrite (off_at_succ F i Hi) in Hle. fold n in Hle.
  replace ((off_at F i <=? off_at F i + nlen (nth i F [])) && (off_at F i + nlen (nth i F []) <=? n))
    with true by lia.
  replace (off_at F i + nlen (nth i F []) - off_at F i) with (nlen (nth i F [])) by lia.
  rewrite slice_ok by (auto; lia). cbn [rbind].
  f_equal.
  unfold fenc. rewrite (concat_firstn_split F i Hi). rewrite <- !app_assoc.
  unfold off_at. rewrite drop_n_nlen_app. apply take_n_nlen_app.
Qed.

(* the policy has no false negatives *)
Hypothesis policy_sound : forall keys key, In key keys -> fmatch (fbuild keys) key = Ok true.

Definition covered (F : list bytes) (pending : list bytes) (g : N * list bytes) : Prop :=
  forall k, In k (snd g) ->
    (fst g / 2048 < nlen F /\ fmatch (nth (N.to_nat (fst g / 2048)) F []) k = Ok true) \/
    (fst g / 2048 = nlen F /\ In k pending).

Record fbinv (f : fbuilder) (F : list bytes) (pending : list bytes) (G : list (N * list bytes)) : Prop := {
  fi_chunks : concat (rev (fb_chunks f)) = concat F;
  fi_rsize : fb_rsize f = nlen (concat F);
  fi_offsets : rev (fb_offsets f) = psums 0 F;
  fi_noffsets : fb_noffsets f = nlen F;
  fi_keys : rev (fb_keys f) = pending;
  fi_cov : Forall (covered F pending) G;
  fi_max : Forall (fun g => fst g / 2048 <= nlen F) G
}.

Lemma nth_app_l : forall (F : list bytes) more i, (i < length F)%nat -> nth i (F ++ more) [] = nth i F [].
Proof. intros. apply app_nth1. exact H. Qed.


Lemma fb_generate_inv : forall f F pending G,
  fbinv f F pending G ->
  exists flt,
    (forall k, In k pending -> fmatch flt k = Ok true) /\
    fbinv (fb_generate fbuild f) (F ++ [flt]) []
          (* groups waiting for filter number (length F) are now served by it *)
          G.
Proof.
  intros f F pending G Hinv.
  assert (Hcommon : forall flt,
            (forall k, In k pending -> fmatch flt k = Ok true) ->
            Forall (covered (F ++ [flt]) []) G /\ Forall (fun g => fst g / 2048 <= nlen (F ++ [flt])) G).
  { intros flt Hm. split.
    - eapply Forall_impl; [|exact (fi_cov _ _ _ _ Hinv)].
      intros g Hc k Hk. destruct (Hc k Hk) as [[A B]|[A B]].
      + left. split; [rewrite nlen_app; lia|]. rewrite nth_app_l by (unfold nlen in A; lia). exact B.
      + left. split; [rewrite nlen_app, nlen_cons, nlen_nil; lia|].
        rewrite A. unfold nlen. rewrite Nat2N.id. rewrite app_nth2 by lia. rewrite Nat.sub_diag. cbn [nth].
        apply Hm. exact B.
    - eapply Forall_impl; [|exact (fi_max _ _ _ _ Hinv)]. intros g Hg. cbn beta in *. rewrite nlen_app. lia. }
  unfold fb_generate. pose proof (fi_keys _ _ _ _ Hinv) as Hk.
  destruct (fb_keys f) as [|k0 ks] eqn:Ek.
  - cbn [rev] in Hk. subst pending. exists [].
    split; [intros k []|].
    destruct (Hcommon []) as [C1 C2]; [intros k []|].
    constructor; cbn [fb_chunks fb_rsize fb_offsets fb_noffsets fb_keys rev]; auto.
    + rewrite (fi_chunks _ _ _ _ Hinv), concat_app. cbn [concat]. rewrite !app_nil_r. reflexivity.
    + rewrite (fi_rsize _ _ _ _ Hinv), concat_app. cbn [concat]. rewrite !app_nil_r. reflexivity.
    + rewrite (fi_offsets _ _ _ _ Hinv), psums_app, (fi_rsize _ _ _ _ Hinv). reflexivity.
    + rewrite (fi_noffsets _ _ _ _ Hinv), nlen_app, nlen_cons, nlen_nil. lia.
  - exists (fbuild (rev (k0 :: ks))).
    assert (Hm : forall k, In k pending -> fmatch (fbuild (rev (k0 :: ks))) k = Ok true).
    { intros k Hin. apply policy_sound. rewrite Hk. exact Hin. }
    split; [exact Hm|].
    destruct (Hcommon _ Hm) as [C1 C2].
    constructor; cbn [fb_chunks fb_rsize fb_offsets fb_noffsets fb_keys rev]; auto.
    + rewrite concat_app, (fi_chunks _ _ _ _ Hinv), concat_app. cbn [concat]. rewrite !app_nil_r. reflexivity.
    + rewrite (fi_rsize _ _ _ _ Hinv), concat_app, nlen_app. cbn [concat]. rewrite app_nil_r. reflexivity.
    + rewrite (fi_offsets _ _ _ _ Hinv), psums_app, (fi_rsize _ _ _ _ Hinv). reflexivity.
    + rewrite (fi_noffsets _ _ _ _ Hinv), nlen_app, nlen_cons, nlen_nil. lia.
Qed.

Lemma fb_generate_iter_inv : forall n f F pending G,
  fbinv f F pending G ->
  exists F', fbinv (N.iter n (fb_generate fbuild) f) F' (if n =? 0 then pending else []) G /\
             nlen F' = nlen F + n.
Proof.
  intros n. induction n using N.peano_ind; intros f F pending G Hinv.
  - cbn. exists F. split; [exact Hinv|lia].
  - rewrite N.iter_succ.
    destruct (IHn f F pending G Hinv) as [F1 [H1 L1]].
    destruct (fb_generate_inv _ _ _ _ H1) as [flt [_ H2]].
    exists (F1 ++ [flt]). replace (N.succ n =? 0) with false by lia.
    split; [exact H2|]. rewrite nlen_app, nlen_cons, nlen_nil. lia.
Qed.

Lemma fold_add_key_keys : forall ks f,
  fb_keys (fold_left fb_add_key ks f) = rev ks ++ fb_keys f /\
  fb_chunks (fold_left fb_add_key ks f) = fb_chunks f /\
  fb_rsize (fold_left fb_add_key ks f) = fb_rsize f /\
  fb_offsets (fold_left fb_add_key ks f) = fb_offsets f /\
  fb_noffsets (fold_left fb_add_key ks f) = fb_noffsets f.
Proof.
  induction ks as [|k ks IH]; intros f; cbn [fold_left rev app]; [auto|].
  destruct (IH (fb_add_key f k)) as (A & B & C & D & E).
  rewrite A, B, C, D, E. cbn [fb_add_key fb_keys fb_chunks fb_rsize fb_offsets fb_noffsets].
  rewrite <- app_assoc. auto.
Qed.

(* one group: start_block(off) then add_key for every key *)
Lemma fb_add_group_inv : forall f F pending G g,
  fbinv f F pending G ->
  nlen F <= fst g / 2048 ->
  exists F' pending', fbinv (fb_add_group fbuild f g) F' pending' (G ++ [g]) /\ nlen F' = fst g / 2048.
Proof.
  intros f F pending G [off ks] Hinv Hmono. cbn [fst] in Hmono.
  unfold fb_add_group, fb_start_block. cbn [fst snd]. unfold FILTER_BASE.
  rewrite (fi_noffsets _ _ _ _ Hinv).
  destruct (fb_generate_iter_inv (off / 2048 - nlen F) f F pending G Hinv) as [F1 [H1 L1]].
  set (f1 := N.iter (off / 2048 - nlen F) (fb_generate fbuild) f) in *.
  set (p1 := if off / 2048 - nlen F =? 0 then pending else []) in *.
  destruct (fold_add_key_keys ks f1) as (A & B & C & D & E).
  exists F1, (p1 ++ ks). split; [|lia].
  constructor.
  - rewrite B. apply (fi_chunks _ _ _ _ H1).
  - rewrite C. apply (fi_rsize _ _ _ _ H1).
  - rewrite D. apply (fi_offsets _ _ _ _ H1).
  - rewrite E. apply (fi_noffsets _ _ _ _ H1).
  - rewrite A, rev_app_distr, rev_involutive, (fi_keys _ _ _ _ H1). reflexivity.
  - apply Forall_app. split.
    + eapply Forall_impl; [|exact (fi_cov _ _ _ _ H1)].
      intros g Hc k Hk. destruct (Hc k Hk) as [X|[X Y]]; [left; exact X|right; split; [exact X|apply in_or_app; left; exact Y]].
    + constructor; [|constructor]. intros k Hk. cbn [fst snd] in *. right. split; [lia|apply in_or_app; right; exact Hk].
  - apply Forall_app. split; [exact (fi_max _ _ _ _ H1)|]. constructor; [|constructor]. cbn [fst]. lia.
Qed.

(* block offsets are issued in non-decreasing order of filter index *)
Fixpoint groups_sorted (prev : N) (groups : list (N * list bytes)) : Prop :=
  match groups with
  | [] => True
  | g :: gs => prev <= fst g / 2048 /\ groups_sorted (fst g / 2048) gs
  end.

Lemma fb_add_groups_inv : forall groups f F pending G,
  fbinv f F pending G -> groups_sorted (nlen F) groups ->
  exists F' pending', fbinv (fold_left (fb_add_group fbuild) groups f) F' pending' (G ++ groups).
Proof.
  induction groups as [|g gs IH]; intros f F pending G Hinv Hs.
  - cbn [fold_left]. rewrite app_nil_r. eauto.
  - destruct Hs as [H1 H2]. cbn [fold_left].
    destruct (fb_add_group_inv f F pending G g Hinv H1) as (F1 & p1 & Hi & L1).
    rewrite <- L1 in H2.
    destruct (IH _ _ _ _ Hi H2) as (F2 & p2 & Hi2).
    exists F2, p2. rewrite <- app_assoc in Hi2. exact Hi2.
Qed.

Lemma fbinv_empty : fbinv fb_empty [] [] [].
Proof. constructor; cbn; auto. Qed.

(* (a) a key added under a block offset matches at that offset *)
Theorem filter_block_no_false_negative : forall groups off ks k,
  groups_sorted 0 groups ->
  nlen (filter_block_build fbuild groups) < 4294967296 ->
  In (off, ks) groups -> In k ks ->
  filter_block_matches fmatch (filter_block_build fbuild groups) off k = Ok true.
Proof.
  intros groups off ks k Hs Hsz Hg Hk.
  destruct (fb_add_groups_inv groups fb_empty [] [] [] fbinv_empty Hs) as (F & pending & Hinv).
  cbn [app] in Hinv.
  set (f := fold_left (fb_add_group fbuild) groups fb_empty) in *.
  (* finish: generate once more if keys are pending *)
  assert (Hfin : exists F', filter_block_build fbuild groups = fenc F' /\
                   Forall (covered F' []) groups).
  { unfold filter_block_build, fb_finish. fold f.
    destruct (fb_keys f) as [|k0 kt] eqn:Ek.
    - exists F. split.
      + unfold fenc. rewrite (fi_chunks _ _ _ _ Hinv), (fi_offsets _ _ _ _ Hinv), (fi_rsize _ _ _ _ Hinv). reflexivity.
      + pose proof (fi_keys _ _ _ _ Hinv) as Hkeys. rewrite Ek in Hkeys. cbn [rev] in Hkeys. subst pending.
        exact (fi_cov _ _ _ _ Hinv).
    - destruct (fb_generate_inv _ _ _ _ Hinv) as [flt [_ H2]].
      exists (F ++ [flt]). split.
      + unfold fenc. rewrite (fi_chunks _ _ _ _ H2), (fi_offsets _ _ _ _ H2), (fi_rsize _ _ _ _ H2). reflexivity.
      + exact (fi_cov _ _ _ _ H2). }
  destruct Hfin as (F' & Heq & Hcov).
  rewrite Heq in *.
  rewrite Forall_forall in Hcov. specialize (Hcov (off, ks) Hg k Hk). cbn [fst snd] in Hcov.
  destruct Hcov as [[A B]|[_ []]].
  rewrite filter_block_matches_fenc by assumption. exact B.
Qed.

End FilterBlock.
