(* WriteLatchProofs.v -- proofs about the write-path error latch (WriteLatch.v). *)
From Coq Require Import List NArith Bool Lia.
From LCDB Require Import WriteLatch.
Import ListNotations.

Lemma recovered_app_whole l r : wl_recovered (map WlWhole l ++ r) = l ++ wl_recovered r.
Proof. induction l as [|x l IH]; simpl; congruence. Qed.

Lemma recovered_whole l : wl_recovered (map WlWhole l) = l.
Proof. rewrite <- (app_nil_r (map WlWhole l)), recovered_app_whole; simpl; apply app_nil_r. Qed.

(* the log file is the acknowledged records, followed -- only once the latch is set -- by at most
   one more record, whole (its fsync failed) or torn (its append failed part-way) *)
Definition tail_ok (t : list wl_rec) : Prop :=
  t = [] \/ exists i, t = [WlWhole i] \/ t = [WlTorn i].

Definition Inv (s : wl_state) : Prop :=
  (wl_bg s = false -> wl_logf s = map WlWhole (wl_mem s)) /\
  (wl_bg s = true -> exists t, wl_logf s = map WlWhole (wl_mem s) ++ t /\ tail_ok t).

Lemma inv_init : Inv wl_init.
Proof. split; intro H; [reflexivity | discriminate H]. Qed.

Lemma step_latched s o : wl_bg s = true -> wl_step s o = (s, false).
Proof. intro H; unfold wl_step; rewrite H; reflexivity. Qed.

Lemma step_inv s o : Inv s -> Inv (fst (wl_step s o)).
Proof.
  intros [Hf Ht]. unfold wl_step. destruct (wl_bg s) eqn:Hb; [split; simpl; intro; [congruence | auto]|].
  specialize (Hf eq_refl).
  destruct (lw_app o) eqn:Ha.
  - destruct (lw_sync o && negb (lw_sync_ok o)) eqn:Hs; simpl.
    + split; simpl; [discriminate|]. intros _. exists [WlWhole (lw_id o)]. rewrite Hf. split; [reflexivity|].
      right; exists (lw_id o); left; reflexivity.
    + split; simpl; [|discriminate]. intros _. rewrite Hf, map_app. reflexivity.
  - split; simpl; [discriminate|]. intros _. exists [WlTorn (lw_id o)]. rewrite Hf. split; [reflexivity|].
    right; exists (lw_id o); right; reflexivity.
  - split; simpl; [discriminate|]. intros _. exists []. rewrite Hf, app_nil_r. split; [reflexivity | left; reflexivity].
Qed.

Lemma step_mem s o : wl_mem (fst (wl_step s o)) = wl_mem s ++ (if snd (wl_step s o) then [lw_id o] else []).
Proof.
  unfold wl_step. destruct (wl_bg s); [simpl; symmetry; apply app_nil_r|].
  destruct (lw_app o); [destruct (lw_sync o && negb (lw_sync_ok o))|..]; simpl; try reflexivity; symmetry; apply app_nil_r.
Qed.

(* an acknowledgement means the call's I/O did not fail; a failing call is reported and latches *)
Lemma step_ack_clean s o : snd (wl_step s o) = true -> wl_bg s = false /\ wl_op_faulty o = false.
Proof.
  unfold wl_step, wl_op_faulty. destruct (wl_bg s); [discriminate|].
  destruct (lw_app o); [destruct (lw_sync o && negb (lw_sync_ok o))|..]; simpl; intro H; try discriminate; auto.
Qed.

Lemma step_fault_latches s o : wl_bg s = false -> wl_op_faulty o = true ->
  snd (wl_step s o) = false /\ wl_bg (fst (wl_step s o)) = true.
Proof.
  unfold wl_step, wl_op_faulty. intros Hb. rewrite Hb.
  destruct (lw_app o); [destruct (lw_sync o && negb (lw_sync_ok o))|..]; simpl; intro H; try discriminate; auto.
Qed.

Lemma step_clean_acks s o : wl_bg s = false -> wl_op_faulty o = false ->
  snd (wl_step s o) = true /\ wl_bg (fst (wl_step s o)) = false.
Proof.
  unfold wl_step, wl_op_faulty. intros Hb. rewrite Hb.
  destruct (lw_app o); [destruct (lw_sync o && negb (lw_sync_ok o))|..]; simpl; intro H; try discriminate; auto.
Qed.

Lemma run_cons stp s o r :
  wl_run stp s (o :: r) =
  (fst (wl_run stp (fst (stp s o)) r), snd (stp s o) :: snd (wl_run stp (fst (stp s o)) r)).
Proof.
  cbn [wl_run]. destruct (stp s o) as [s1 a]. cbn [fst snd].
  destruct (wl_run stp s1 r) as [s2 acks]. reflexivity.
Qed.

Lemma run_latched os : forall s, wl_bg s = true ->
  wl_run wl_step s os = (s, repeat false (length os)).
Proof.
  induction os as [|o r IH]; intros s Hb; [reflexivity|].
  rewrite run_cons, (step_latched s o Hb). cbn [fst snd]. rewrite (IH s Hb). reflexivity.
Qed.

Lemma run_inv os : forall s, Inv s -> Inv (fst (wl_run wl_step s os)).
Proof.
  induction os as [|o r IH]; intros s H; [exact H|].
  rewrite run_cons. cbn [fst]. apply IH, step_inv, H.
Qed.

Lemma run_length stp os : forall s, length (snd (wl_run stp s os)) = length os.
Proof.
  induction os as [|o r IH]; intros s; [reflexivity|]. rewrite run_cons. cbn [snd length]. rewrite IH. reflexivity.
Qed.

Lemma run_mem os : forall s,
  wl_mem (fst (wl_run wl_step s os)) = wl_mem s ++ wl_acked_ids os (snd (wl_run wl_step s os)).
Proof.
  induction os as [|o r IH]; intros s; [simpl; symmetry; apply app_nil_r|].
  rewrite run_cons. cbn [fst snd wl_acked_ids]. rewrite IH, step_mem.
  destruct (snd (wl_step s o)); [rewrite <- app_assoc; reflexivity | rewrite app_nil_r; reflexivity].
Qed.

(* shape of the acknowledgements of a session: OK up to the first failing call, errors from it on *)
Lemma run_shape os : forall s, wl_bg s = false ->
  exists n, snd (wl_run wl_step s os) = repeat true n ++ repeat false (length os - n) /\
            (n <= length os)%nat /\
            forallb (fun o => negb (wl_op_faulty o)) (firstn n os) = true /\
            ((n < length os)%nat -> exists o, nth_error os n = Some o /\ wl_op_faulty o = true) /\
            wl_bg (fst (wl_run wl_step s os)) = negb (Nat.eqb n (length os)).
Proof.
  induction os as [|o r IH]; intros s Hb.
  - exists 0%nat. simpl. repeat split; auto. intro H; inversion H.
  - rewrite run_cons. cbn [fst snd]. destruct (wl_op_faulty o) eqn:Hf.
    + destruct (step_fault_latches s o Hb Hf) as [Ha Hl]. rewrite Ha, (run_latched r _ Hl).
      exists 0%nat. cbn [fst snd repeat app firstn forallb length Nat.sub Nat.eqb negb].
      repeat split; auto; try lia. intros _. exists o. split; [reflexivity | exact Hf].
    + destruct (step_clean_acks s o Hb Hf) as [Ha Hl]. rewrite Ha.
      destruct (IH _ Hl) as (n & Hs & Hn & Hall & Hnext & Hbg).
      exists (S n). rewrite Hs. cbn [repeat app firstn forallb length Nat.sub Nat.eqb].
      rewrite Hf. cbn [negb andb]. repeat split; auto; try lia.
      intros Hlt. apply Hnext. lia.
Qed.

(* what recovery of the session's log returns, relative to what was acknowledged *)
Lemma inv_recovered s : Inv s ->
  wl_recovered (wl_logf s) = wl_mem s \/ (wl_bg s = true /\ exists i, wl_recovered (wl_logf s) = wl_mem s ++ [i]).
Proof.
  intros [Hf Ht]. destruct (wl_bg s) eqn:Hb.
  - destruct (Ht eq_refl) as (t & Hl & [Hn | (i & [Hw | Hw])]); subst t; rewrite Hl, recovered_app_whole; simpl.
    + left; apply app_nil_r.
    + right; split; [reflexivity | exists i; reflexivity].
    + left; apply app_nil_r.
  - left. rewrite (Hf eq_refl). apply recovered_whole.
Qed.

Theorem latch_session os :
  let r := wl_run wl_step wl_init os in
  let acked := wl_acked_ids os (snd r) in
  wl_mem (fst r) = acked /\
  (wl_recovered (wl_logf (fst r)) = acked \/
   (wl_bg (fst r) = true /\ exists i, wl_recovered (wl_logf (fst r)) = acked ++ [i])).
Proof.
  cbv zeta. pose proof (run_mem os wl_init) as Hm. simpl in Hm. split; [exact Hm|].
  rewrite <- Hm. apply inv_recovered, run_inv, inv_init.
Qed.

(* the extra wl_recovered record, when there is one, is that of the call that failed (reported) *)
Lemma step_logf_ids s o : forall i, In i (wl_recovered (wl_logf (fst (wl_step s o)))) ->
  In i (wl_recovered (wl_logf s)) \/ (i = lw_id o /\ wl_bg s = false).
Proof.
  intros i. unfold wl_step. destruct (wl_bg s) eqn:Hb; [simpl; auto|].
  assert (Hrec : forall l x, In i (wl_recovered (l ++ [x])) -> In i (wl_recovered l) \/ x = WlWhole i).
  { induction l as [|y l IH]; intros x H.
    - destruct x; simpl in H; [destruct H as [H|[]]; subst; auto | destruct H].
    - destruct y; simpl in H |- *; [|destruct H]. destruct H as [H|H]; [auto|].
      destruct (IH x H); auto. }
  destruct (lw_app o); [destruct (lw_sync o && negb (lw_sync_ok o))|..]; simpl; intro H; auto;
    destruct (Hrec _ _ H) as [H1|H1]; auto; inversion H1; auto.
Qed.

(* before the fix: a torn record in the middle of the log, acknowledged writes behind it are lost *)
Theorem nolatch_loses_acknowledged :
  exists os, let r := wl_run wl_step_nolatch wl_init os in
             exists i, In i (wl_acked_ids os (snd r)) /\ ~ In i (wl_recovered (wl_logf (fst r))).
Proof.
  exists [ {| lw_id := 1; lw_sync := false; lw_app := WlAPartial; lw_sync_ok := true |};
           {| lw_id := 2; lw_sync := true; lw_app := WlAOk; lw_sync_ok := true |} ].
  cbv zeta. exists 2%N. vm_compute. split; [left; reflexivity | intros []].
Qed.

(* the user-visible statement: whatever the environment does, every acknowledged write of the
   session is returned by log recovery, in order, and recovery returns at most one record more *)
Theorem latch_no_acknowledged_loss os :
  let r := wl_run wl_step wl_init os in
  exists extra, wl_recovered (wl_logf (fst r)) = wl_acked_ids os (snd r) ++ extra /\ (length extra <= 1)%nat.
Proof.
  cbv zeta. destruct (latch_session os) as [_ [H | [_ [i H]]]].
  - exists []. rewrite app_nil_r. split; [exact H | simpl; lia].
  - exists [i]. split; [exact H | simpl; lia].
Qed.
