(* FsInv.v -- the invariant [Inv_fs] of the record-level file model and its
   preservation by every step that the protocol rules R0..R7 accept.
   Part A: structure (names, objects, typing).  Part B: the durable state
   (every crash image recovers).  Part C: acknowledgements and flushes. *)
From Coq Require Import Lia ZifyBool ZifyNat ZifyN.
From LCDB Require Import FsModel FsLemmas.
Local Open Scope N_scope.

(* ================================================================== Part A *)
Definition created_at (d : disk) (i : nat) (f : fname) (o : nat) : Prop :=
  nth_error (d_ops d) i = Some (DCreate f o).

Definition prev_ok (e : medit) : Prop := me_prev e = None \/ me_prev e = Some 0.

Definition typed (f : fname) (x : fobj) : Prop :=
  match f with
  | FLog _ => exists bs, batches_of (o_recs x) = Some bs
  | FTable _ => o_recs x = [] \/ exists ents, o_recs x = [PTable ents]
  | FManifest _ => exists eds, edits_of (o_recs x) = Some eds /\ Forall prev_ok eds
  | FTmp _ => o_recs x = [] \/ exists m, o_recs x = [PCurrent m]
  | FCurrent => False
  end.

Record Inv_struct (p : pstate) : Prop := {
  is_ops : ops_wf (d_ops (p_disk p)) (length (d_objs (p_disk p)));
  is_dsync : (d_dsync (p_disk p) <= length (d_ops (p_disk p)))%nat;
  is_created : forall f, In f (p_created p) <-> In f (created_names (d_ops (p_disk p)));
  is_typed : forall i f o x, created_at (p_disk p) i f o -> nth_error (d_objs (p_disk p)) o = Some x ->
      typed f x /\ (o_synced x <= length (o_recs x))%nat /\ ((0 < o_synced x)%nat -> (i < d_dsync (p_disk p))%nat);
  is_logs_names : map fst (p_logs p) = flat_map log_num (created_names (d_ops (p_disk p)));
  is_logs_sorted : StronglySorted N.lt (0 :: map fst (p_logs p));
  is_logs_recs : forall n bs i o x, In (n, bs) (p_logs p) -> created_at (p_disk p) i (FLog n) o ->
      nth_error (d_objs (p_disk p)) o = Some x -> batches_of (o_recs x) = Some bs }.

(* ---- projections of pstep *)
Lemma pstep_logs : forall p e, p_logs (pstep p e) =
  match e with
  | ECreate (FLog n) => p_logs p ++ [(n, [])]
  | EAppend (FLog n) (PBatch s ops) => add_batch n (s, ops) (p_logs p)
  | _ => p_logs p
  end.
Proof.
  intros p e; destruct e as [f|f pl| | |a b|f|id b sy|id ok]; try reflexivity.
  destruct f; try reflexivity; destruct pl; reflexivity.
Qed.

Lemma pstep_created : forall p e, p_created (pstep p e) =
  match e with ECreate f => f :: p_created p | _ => p_created p end.
Proof.
  intros p e; destruct e as [f|f pl| | |a b|f|id b sy|id ok]; try reflexivity.
  destruct f; try reflexivity; destruct pl; reflexivity.
Qed.

Lemma pstep_cov : forall p e, p_cov (pstep p e) =
  match e with
  | EAppend (FManifest _) (PEdit ed) => match me_log ed with Some l => N.max (p_cov p) l | None => p_cov p end
  | _ => p_cov p
  end.
Proof.
  intros p e; destruct e as [f|f pl| | |a b|f|id b sy|id ok]; try reflexivity.
  destruct f; try reflexivity; destruct pl; reflexivity.
Qed.

Lemma pstep_call : forall p e, p_call (pstep p e) =
  match e with
  | EAppend (FLog n) (PBatch s _) =>
      match p_call p with Some (id, b, sy, _) => Some (id, b, sy, Some (n, s)) | None => None end
  | ECall id b sy => Some (id, b, sy, None)
  | EAck _ _ => None
  | _ => p_call p
  end.
Proof.
  intros p e; destruct e as [f|f pl| | |a b|f|id b sy|id ok]; try reflexivity.
  destruct f; try reflexivity; destruct pl; reflexivity.
Qed.

Lemma chk_all_iff : forall p e, chk_all p e = true <->
  chk_R0 p e = true /\ chk_R1 p e = true /\ chk_R2 p e = true /\ chk_R3 p e = true /\
  chk_R4 p e = true /\ chk_R5 p e = true /\ chk_R6 p e = true /\ chk_R7 p e = true.
Proof. intros; unfold chk_all; rewrite !andb_true_iff; tauto. Qed.

(* ---- log list helpers *)
Lemma newest_log_ge : forall (l : list (N * list brec)) a, a <= fold_left (fun a x => N.max a (fst x)) l a.
Proof.
  intro l; induction l as [|x r IH]; intro a; cbn [fold_left]; [lia|].
  specialize (IH (N.max a (fst x))); lia.
Qed.

Lemma newest_log_in : forall (l : list (N * list brec)) a n, In n (map fst l) ->
  n <= fold_left (fun a x => N.max a (fst x)) l a.
Proof.
  intro l; induction l as [|x r IH]; intros a n H; [contradiction|].
  cbn [fold_left]. destruct H as [<-|H].
  - pose proof (newest_log_ge r (N.max a (fst x))); lia.
  - apply IH; exact H.
Qed.

Lemma newest_log_snoc : forall (l : list (N * list brec)) x, newest_log (l ++ [x]) = N.max (newest_log l) (fst x).
Proof. intros; unfold newest_log; rewrite fold_left_app; reflexivity. Qed.

Lemma newest_log_spec : forall (l : list (N * list brec)), StronglySorted N.lt (0 :: map fst l) ->
  newest_log l = last (map fst l) 0.
Proof.
  intro l; induction l as [|x l IH] using rev_ind; intro H; [reflexivity|].
  rewrite newest_log_snoc, map_app. cbn [map]. rewrite last_last.
  rewrite map_app in H. cbn [map] in H.
  assert (Hl : StronglySorted N.lt (0 :: map fst l)).
  { inversion H as [|a r Hs Hf]; subst. constructor.
    - clear -Hs. induction (map fst l) as [|y r IH]; [constructor|].
      cbn [app] in Hs. inversion Hs as [|a b Hs' Hf']; subst. constructor; [apply IH; exact Hs'|].
      rewrite Forall_forall in Hf' |- *; intros; apply Hf'; apply in_or_app; left; assumption.
    - rewrite Forall_forall in Hf |- *; intros; apply Hf; apply in_or_app; left; assumption. }
  rewrite (IH Hl).
  assert (forall y, In y (0 :: map fst l) -> y < fst x).
  { clear -H. intros y Hy. change (0 :: map fst l ++ [fst x]) with ((0 :: map fst l) ++ [fst x]) in H.
    induction (0 :: map fst l) as [|z r IH]; [contradiction|].
    cbn [app] in H. inversion H as [|a b Hs Hf]; subst. destruct Hy as [<-|Hy].
    - rewrite Forall_forall in Hf; apply Hf; apply in_or_app; right; left; reflexivity.
    - apply IH; assumption. }
  assert (last (map fst l) 0 < fst x).
  { apply H0. destruct (map fst l) as [|y r] eqn:E; [left; reflexivity|].
    right. rewrite <- E. assert (map fst l <> []) by congruence.
    destruct (exists_last H1) as [l' [a ->]]. rewrite last_last. apply in_or_app; right; left; reflexivity. }
  lia.
Qed.

Lemma last_cons_default : forall (l : list N) x a b, last (x :: l) a = last (x :: l) b.
Proof.
  intro l; induction l as [|y r IH]; intros x a b; [reflexivity|].
  change (last (x :: y :: r) a) with (last (y :: r) a).
  change (last (x :: y :: r) b) with (last (y :: r) b). apply IH.
Qed.

Lemma sorted0_snoc : forall l n, StronglySorted N.lt (0 :: l) -> last l 0 < n -> StronglySorted N.lt (0 :: l ++ [n]).
Proof.
  intros l n H Hn.
  assert (G : forall a l, StronglySorted N.lt (a :: l) -> last l a < n -> StronglySorted N.lt (a :: l ++ [n])).
  { clear. intros a l; revert a; induction l as [|y r IH]; intros a H Hn.
    - cbn in *. repeat constructor; assumption.
    - inversion H as [|? ? Hs Hf]; subst. cbn [app].
      assert (Hl : last r y < n).
      { destruct r as [|z r']; [exact Hn|].
        change (last (y :: z :: r') a) with (last (z :: r') a) in Hn.
        rewrite (last_cons_default r' z y a). exact Hn. }
      specialize (IH y Hs Hl). constructor; [exact IH|].
      inversion Hf as [|? ? Hay Hf']; subst. constructor; [exact Hay|].
      apply Forall_app; split; [exact Hf'|]. constructor; [|constructor].
      inversion IH as [|? ? _ Hf2]; subst. rewrite Forall_forall in Hf2.
      assert (y < n) by (apply Hf2; apply in_or_app; right; left; reflexivity). lia. }
  apply G; assumption.
Qed.

Lemma sorted0_nodup : forall l, StronglySorted N.lt (0 :: l) -> NoDup l.
Proof.
  intros l H; inversion H as [|? ? Hs _]; subst. clear H.
  induction Hs as [|y r Hs IH Hf]; constructor; [|exact IH].
  intro Hin. rewrite Forall_forall in Hf. specialize (Hf _ Hin). lia.
Qed.

Lemma add_batch_fst : forall n b l, map fst (add_batch n b l) = map fst l.
Proof.
  intros n b l; induction l as [|[m bs] r IH]; cbn [add_batch map]; [reflexivity|].
  destruct (m =? n); cbn [map fst]; [reflexivity|f_equal; exact IH].
Qed.

Lemma in_add_batch : forall n b l m bs, NoDup (map fst l) ->
  (In (m, bs) (add_batch n b l) <->
   (m <> n /\ In (m, bs) l) \/ (m = n /\ exists bs0, In (n, bs0) l /\ bs = bs0 ++ [b])).
Proof.
  intros n b l; induction l as [|[k ks] r IH]; intros m bs ND; cbn [add_batch].
  - cbn; split; [contradiction|]. intros [[_ []]|[_ [? [[] _]]]].
  - cbn [map fst] in ND. inversion ND as [|? ? Hn ND']; subst.
    destruct (k =? n) eqn:E.
    + apply N.eqb_eq in E; subst k. cbn [In]. split.
      * intros [H|H].
        -- injection H as <- <-. right; split; [reflexivity|]. exists ks; split; [left; reflexivity|reflexivity].
        -- left; split; [|right; exact H]. intros ->. apply Hn. apply in_map_iff. exists (n, bs); auto.
      * intros [[Hm [H|H]]|[-> [bs0 [[H|H] ->]]]].
        -- injection H as -> ->; congruence.
        -- right; exact H.
        -- injection H as ->; left; reflexivity.
        -- exfalso; apply Hn. apply in_map_iff. exists (n, bs0); auto.
    + apply N.eqb_neq in E. cbn [In]. rewrite (IH m bs ND'). split.
      * intros [H|[[Hm H]|[-> [bs0 [H ->]]]]].
        -- injection H as <- <-. left; split; [exact E|left; reflexivity].
        -- left; split; [exact Hm|right; exact H].
        -- right; split; [reflexivity|]. exists bs0; split; [right; exact H|reflexivity].
      * intros [[Hm [H|H]]|[-> [bs0 [[H|H] ->]]]].
        -- left; exact H.
        -- right; left; split; assumption.
        -- injection H as -> ->; congruence.
        -- right; right; split; [reflexivity|]. exists bs0; split; [exact H|reflexivity].
Qed.

(* ---- where bound objects come from *)
Lemma in_firstn_nth : forall {A} (l : list A) k x, In x (firstn k l) -> exists i, (i < k)%nat /\ nth_error l i = Some x.
Proof.
  intros A l; induction l as [|y r IH]; intros k x H.
  - rewrite firstn_nil in H; contradiction.
  - destruct k as [|k]; [contradiction|]. cbn [firstn] in H. destruct H as [->|H].
    + exists O; split; [lia|reflexivity].
    + destruct (IH _ _ H) as [i [Hi Hn]]. exists (S i); split; [lia|exact Hn].
Qed.

Lemma in_firstn_in : forall {A} (l : list A) k x, In x (firstn k l) -> In x l.
Proof. intros A l k x H. rewrite <- (firstn_skipn k l). apply in_or_app; left; exact H. Qed.

Lemma nsk_created : forall d n k f o, ops_wf (d_ops d) n -> nsk d k f = Some o ->
  (f <> FCurrent -> exists i, (i < k)%nat /\ created_at d i f o) /\
  (f = FCurrent -> exists i t, (i < k)%nat /\ created_at d i (FTmp t) o).
Proof.
  intros d n k f o W H. unfold nsk in H.
  assert (Hren : forall a b, In (DRename a b) (firstn k (d_ops d)) -> (exists t, a = FTmp t) /\ b = FCurrent).
  { intros a b Hin. eapply ow_ren; eauto using in_firstn_in. }
  assert (Hnc : ~ In FCurrent (created_names (firstn k (d_ops d)))).
  { intro Hin. apply in_created_names in Hin. destruct Hin as [o' Hin].
    eapply ow_nocur; eauto. apply in_created_names; exists o'; eauto using in_firstn_in. }
  destruct (ns_origin _ Hren Hnc _ _ H) as [I1 I2]. split.
  - intro Hf. apply in_firstn_nth in I1; [|exact Hf]. exact I1.
  - intro Hf. destruct (I2 Hf) as [t Ht]. apply in_firstn_nth in Ht. destruct Ht as [i [Hi Hn]]. exists i, t; auto.
Qed.

Lemma created_unique : forall d n i1 i2 f1 f2 o, ops_wf (d_ops d) n ->
  created_at d i1 f1 o -> created_at d i2 f2 o -> f1 = f2 /\ i1 = i2.
Proof.
  intros d n i1 i2 f1 f2 o W H1 H2.
  assert (f1 = f2).
  { eapply create_unique_name; eauto using nth_error_In. rewrite (ow_ids _ _ W). apply seq_NoDup. }
  subst f2. split; [reflexivity|]. eapply create_unique_pos; eauto using ow_nodup.
Qed.

Lemma created_at_lt : forall d n i f o, ops_wf (d_ops d) n -> created_at d i f o -> (o < n)%nat.
Proof.
  intros d n i f o W H. assert (In o (create_ids (d_ops d))).
  { apply in_create_ids; exists f; eapply nth_error_In; eauto. }
  rewrite (ow_ids _ _ W) in H0. apply in_seq in H0. lia.
Qed.

Lemma created_name_neq_cur : forall d n i f o, ops_wf (d_ops d) n -> created_at d i f o -> f <> FCurrent.
Proof.
  intros d n i f o W H ->. eapply ow_nocur; eauto. apply in_created_names; exists o; eapply nth_error_In; eauto.
Qed.

(* ---- effect of a step on the disk, by cases *)
Lemma created_at_snoc_old : forall d d' op i f o, d_ops d' = d_ops d ++ [op] ->
  created_at d i f o -> created_at d' i f o.
Proof. intros d d' op i f o E H; unfold created_at in *; rewrite E; apply nth_error_snoc_old; exact H. Qed.

Lemma created_at_snoc_inv : forall d d' op i f o, d_ops d' = d_ops d ++ [op] ->
  created_at d' i f o -> created_at d i f o \/ (i = length (d_ops d) /\ op = DCreate f o).
Proof.
  intros d d' op i f o E H; unfold created_at in *; rewrite E in H.
  destruct (Nat.lt_ge_cases i (length (d_ops d))) as [Hlt|Hge].
  - left. rewrite nth_error_app1 in H by exact Hlt. exact H.
  - right. rewrite nth_error_app2 in H by exact Hge.
    destruct (i - length (d_ops d))%nat as [|j] eqn:Ej; cbn in H.
    + injection H as ->. split; [lia|reflexivity].
    + destruct j; discriminate.
Qed.
