(* FsInv.v -- the invariant [Inv_fs] of the record-level file model and its
   preservation by every step that the protocol rules R0..R7 accept.
   Part A: structure (names, objects, typing).  Part B: the durable state
   (every crash image recovers).  Part C: acknowledgements and flushes. *)
From Coq Require Import Lia ZifyBool ZifyNat ZifyN.
From LCDB Require Import FsModel FsLemmas.
Local Open Scope N_scope.

(* ================================================================== Part A *)
Definition created_at (d : disk) (i : nat) (f : fname) (o : nat) : Prop :=
  nth_error (d_ops d) i = Some (DCreate f o).

Definition prev_ok (e : medit) : Prop := me_prev e = None \/ me_prev e = Some 0.

Definition typed (f : fname) (x : fobj) : Prop :=
  match f with
  | FLog _ => exists bs, batches_of (o_recs x) = Some bs
  | FTable _ => o_recs x = [] \/ exists ents, o_recs x = [PTable ents]
  | FManifest _ => exists eds, edits_of (o_recs x) = Some eds /\ Forall prev_ok eds
  | FTmp _ => o_recs x = [] \/ exists m, o_recs x = [PCurrent m]
  | FCurrent => False
  end.

Record Inv_struct (p : pstate) : Prop := {
  is_ops : ops_wf (d_ops (p_disk p)) (length (d_objs (p_disk p)));
  is_dsync : (d_dsync (p_disk p) <= length (d_ops (p_disk p)))%nat;
  is_created : forall f, In f (p_created p) <-> In f (created_names (d_ops (p_disk p)));
  is_typed : forall i f o x, created_at (p_disk p) i f o -> nth_error (d_objs (p_disk p)) o = Some x ->
      typed f x /\ (o_synced x <= length (o_recs x))%nat /\ ((0 < o_synced x)%nat -> (i < d_dsync (p_disk p))%nat);
  is_logs_names : map fst (p_logs p) = flat_map log_num (created_names (d_ops (p_disk p)));
  is_logs_sorted : StronglySorted N.lt (0 :: map fst (p_logs p));
  is_logs_recs : forall n bs i o x, In (n, bs) (p_logs p) -> created_at (p_disk p) i (FLog n) o ->
      nth_error (d_objs (p_disk p)) o = Some x -> batches_of (o_recs x) = Some bs }.

(* ---- projections of pstep *)
Lemma pstep_logs : forall p e, p_logs (pstep p e) =
  match e with
  | ECreate (FLog n) => p_logs p ++ [(n, [])]
  | EAppend (FLog n) (PBatch s ops) => add_batch n (s, ops) (p_logs p)
  | _ => p_logs p
  end.
Proof.
  intros p e; destruct e as [f|f pl| | |a b|f|id b sy|id ok]; try reflexivity.
  destruct f; try reflexivity; destruct pl; reflexivity.
Qed.

Lemma pstep_created : forall p e, p_created (pstep p e) =
  match e with ECreate f => f :: p_created p | _ => p_created p end.
Proof.
  intros p e; destruct e as [f|f pl| | |a b|f|id b sy|id ok]; try reflexivity.
  destruct f; try reflexivity; destruct pl; reflexivity.
Qed.

Lemma pstep_cov : forall p e, p_cov (pstep p e) =
  match e with
  | EAppend (FManifest _) (PEdit ed) => match me_log ed with Some l => N.max (p_cov p) l | None => p_cov p end
  | _ => p_cov p
  end.
Proof.
  intros p e; destruct e as [f|f pl| | |a b|f|id b sy|id ok]; try reflexivity.
  destruct f; try reflexivity; destruct pl; reflexivity.
Qed.

Lemma pstep_call : forall p e, p_call (pstep p e) =
  match e with
  | EAppend (FLog n) (PBatch s _) =>
      match p_call p with Some (id, b, sy, _) => Some (id, b, sy, Some (n, s)) | None => None end
  | ECall id b sy => Some (id, b, sy, None)
  | EAck _ _ => None
  | _ => p_call p
  end.
Proof.
  intros p e; destruct e as [f|f pl| | |a b|f|id b sy|id ok]; try reflexivity.
  destruct f; try reflexivity; destruct pl; reflexivity.
Qed.

Lemma chk_all_iff : forall p e, chk_all p e = true <->
  chk_R0 p e = true /\ chk_R1 p e = true /\ chk_R2 p e = true /\ chk_R3 p e = true /\
  chk_R4 p e = true /\ chk_R5 p e = true /\ chk_R6 p e = true /\ chk_R7 p e = true.
Proof. intros; unfold chk_all; rewrite !andb_true_iff; tauto. Qed.

(* ---- log list helpers *)
Lemma newest_log_ge : forall (l : list (N * list brec)) a, a <= fold_left (fun a x => N.max a (fst x)) l a.
Proof.
  intro l; induction l as [|x r IH]; intro a; cbn [fold_left]; [lia|].
  specialize (IH (N.max a (fst x))); lia.
Qed.

Lemma newest_log_in : forall (l : list (N * list brec)) a n, In n (map fst l) ->
  n <= fold_left (fun a x => N.max a (fst x)) l a.
Proof.
  intro l; induction l as [|x r IH]; intros a n H; [contradiction|].
  cbn [fold_left]. destruct H as [<-|H].
  - pose proof (newest_log_ge r (N.max a (fst x))); lia.
  - apply IH; exact H.
Qed.

Lemma newest_log_snoc : forall (l : list (N * list brec)) x, newest_log (l ++ [x]) = N.max (newest_log l) (fst x).
Proof. intros; unfold newest_log; rewrite fold_left_app; reflexivity. Qed.

Lemma newest_log_spec : forall (l : list (N * list brec)), StronglySorted N.lt (0 :: map fst l) ->
  newest_log l = last (map fst l) 0.
Proof.
  intro l; induction l as [|x l IH] using rev_ind; intro H; [reflexivity|].
  rewrite newest_log_snoc, map_app. cbn [map]. rewrite last_last.
  rewrite map_app in H. cbn [map] in H.
  assert (Hl : StronglySorted N.lt (0 :: map fst l)).
  { inversion H as [|a r Hs Hf]; subst. constructor.
    - clear -Hs. induction (map fst l) as [|y r IH]; [constructor|].
      cbn [app] in Hs. inversion Hs as [|a b Hs' Hf']; subst. constructor; [apply IH; exact Hs'|].
      rewrite Forall_forall in Hf' |- *; intros; apply Hf'; apply in_or_app; left; assumption.
    - rewrite Forall_forall in Hf |- *; intros; apply Hf; apply in_or_app; left; assumption. }
  rewrite (IH Hl).
  assert (forall y, In y (0 :: map fst l) -> y < fst x).
  { clear -H. intros y Hy. change (0 :: map fst l ++ [fst x]) with ((0 :: map fst l) ++ [fst x]) in H.
    induction (0 :: map fst l) as [|z r IH]; [contradiction|].
    cbn [app] in H. inversion H as [|a b Hs Hf]; subst. destruct Hy as [<-|Hy].
    - rewrite Forall_forall in Hf; apply Hf; apply in_or_app; right; left; reflexivity.
    - apply IH; assumption. }
  assert (last (map fst l) 0 < fst x).
  { apply H0. destruct (map fst l) as [|y r] eqn:E; [left; reflexivity|].
    right. rewrite <- E. assert (map fst l <> []) by congruence.
    destruct (exists_last H1) as [l' [a ->]]. rewrite last_last. apply in_or_app; right; left; reflexivity. }
  lia.
Qed.

Lemma last_cons_default : forall (l : list N) x a b, last (x :: l) a = last (x :: l) b.
Proof.
  intro l; induction l as [|y r IH]; intros x a b; [reflexivity|].
  change (last (x :: y :: r) a) with (last (y :: r) a).
  change (last (x :: y :: r) b) with (last (y :: r) b). apply IH.
Qed.

Lemma sorted0_snoc : forall l n, StronglySorted N.lt (0 :: l) -> last l 0 < n -> StronglySorted N.lt (0 :: l ++ [n]).
Proof.
  intros l n H Hn.
  assert (G : forall a l, StronglySorted N.lt (a :: l) -> last l a < n -> StronglySorted N.lt (a :: l ++ [n])).
  { clear. intros a l; revert a; induction l as [|y r IH]; intros a H Hn.
    - cbn in *. repeat constructor; assumption.
    - inversion H as [|? ? Hs Hf]; subst. cbn [app].
      assert (Hl : last r y < n).
      { destruct r as [|z r']; [exact Hn|].
        change (last (y :: z :: r') a) with (last (z :: r') a) in Hn.
        rewrite (last_cons_default r' z y a). exact Hn. }
      specialize (IH y Hs Hl). constructor; [exact IH|].
      inversion Hf as [|? ? Hay Hf']; subst. constructor; [exact Hay|].
      apply Forall_app; split; [exact Hf'|]. constructor; [|constructor].
      inversion IH as [|? ? _ Hf2]; subst. rewrite Forall_forall in Hf2.
      assert (y < n) by (apply Hf2; apply in_or_app; right; left; reflexivity). lia. }
  apply G; assumption.
Qed.

Lemma sorted0_nodup : forall l, StronglySorted N.lt (0 :: l) -> NoDup l.
Proof.
  intros l H; inversion H as [|? ? Hs _]; subst. clear H.
  induction Hs as [|y r Hs IH Hf]; constructor; [|exact IH].
  intro Hin. rewrite Forall_forall in Hf. specialize (Hf _ Hin). lia.
Qed.

Lemma add_batch_fst : forall n b l, map fst (add_batch n b l) = map fst l.
Proof.
  intros n b l; induction l as [|[m bs] r IH]; cbn [add_batch map]; [reflexivity|].
  destruct (m =? n); cbn [map fst]; [reflexivity|f_equal; exact IH].
Qed.

Lemma in_add_batch : forall n b l m bs, NoDup (map fst l) ->
  (In (m, bs) (add_batch n b l) <->
   (m <> n /\ In (m, bs) l) \/ (m = n /\ exists bs0, In (n, bs0) l /\ bs = bs0 ++ [b])).
Proof.
  intros n b l; induction l as [|[k ks] r IH]; intros m bs ND; cbn [add_batch].
  - cbn; split; [contradiction|]. intros [[_ []]|[_ [? [[] _]]]].
  - cbn [map fst] in ND. inversion ND as [|? ? Hn ND']; subst.
    destruct (k =? n) eqn:E.
    + apply N.eqb_eq in E; subst k. cbn [In]. split.
      * intros [H|H].
        -- injection H as <- <-. right; split; [reflexivity|]. exists ks; split; [left; reflexivity|reflexivity].
        -- left; split; [|right; exact H]. intros ->. apply Hn. apply in_map_iff. exists (n, bs); auto.
      * intros [[Hm [H|H]]|[-> [bs0 [[H|H] ->]]]].
        -- injection H as -> ->; congruence.
        -- right; exact H.
        -- injection H as ->; left; reflexivity.
        -- exfalso; apply Hn. apply in_map_iff. exists (n, bs0); auto.
    + apply N.eqb_neq in E. cbn [In]. rewrite (IH m bs ND'). split.
      * intros [H|[[Hm H]|[-> [bs0 [H ->]]]]].
        -- injection H as <- <-. left; split; [exact E|left; reflexivity].
        -- left; split; [exact Hm|right; exact H].
        -- right; split; [reflexivity|]. exists bs0; split; [right; exact H|reflexivity].
      * intros [[Hm [H|H]]|[-> [bs0 [[H|H] ->]]]].
        -- left; exact H.
        -- right; left; split; assumption.
        -- injection H as -> ->; congruence.
        -- right; right; split; [reflexivity|]. exists bs0; split; [exact H|reflexivity].
Qed.

(* ---- where bound objects come from *)
Lemma in_firstn_nth : forall {A} (l : list A) k x, In x (firstn k l) -> exists i, (i < k)%nat /\ nth_error l i = Some x.
Proof.
  intros A l; induction l as [|y r IH]; intros k x H.
  - rewrite firstn_nil in H; contradiction.
  - destruct k as [|k]; [contradiction|]. cbn [firstn] in H. destruct H as [->|H].
    + exists O; split; [lia|reflexivity].
    + destruct (IH _ _ H) as [i [Hi Hn]]. exists (S i); split; [lia|exact Hn].
Qed.

Lemma in_firstn_in : forall {A} (l : list A) k x, In x (firstn k l) -> In x l.
Proof. intros A l k x H. rewrite <- (firstn_skipn k l). apply in_or_app; left; exact H. Qed.

Lemma nsk_created : forall d n k f o, ops_wf (d_ops d) n -> nsk d k f = Some o ->
  (f <> FCurrent -> exists i, (i < k)%nat /\ created_at d i f o) /\
  (f = FCurrent -> exists i t, (i < k)%nat /\ created_at d i (FTmp t) o).
Proof.
  intros d n k f o W H. unfold nsk in H.
  assert (Hren : forall a b, In (DRename a b) (firstn k (d_ops d)) -> (exists t, a = FTmp t) /\ b = FCurrent).
  { intros a b Hin. eapply ow_ren; eauto using in_firstn_in. }
  assert (Hnc : ~ In FCurrent (created_names (firstn k (d_ops d)))).
  { intro Hin. apply in_created_names in Hin. destruct Hin as [o' Hin].
    eapply ow_nocur; eauto. apply in_created_names; exists o'; eauto using in_firstn_in. }
  destruct (ns_origin _ Hren Hnc _ _ H) as [I1 I2]. split.
  - intro Hf. apply in_firstn_nth in I1; [|exact Hf]. exact I1.
  - intro Hf. destruct (I2 Hf) as [t Ht]. apply in_firstn_nth in Ht. destruct Ht as [i [Hi Hn]]. exists i, t; auto.
Qed.

Lemma created_unique : forall d n i1 i2 f1 f2 o, ops_wf (d_ops d) n ->
  created_at d i1 f1 o -> created_at d i2 f2 o -> f1 = f2 /\ i1 = i2.
Proof.
  intros d n i1 i2 f1 f2 o W H1 H2.
  assert (f1 = f2).
  { eapply create_unique_name; eauto using nth_error_In. rewrite (ow_ids _ _ W). apply seq_NoDup. }
  subst f2. split; [reflexivity|]. eapply create_unique_pos; eauto using ow_nodup.
Qed.

Lemma created_at_lt : forall d n i f o, ops_wf (d_ops d) n -> created_at d i f o -> (o < n)%nat.
Proof.
  intros d n i f o W H. assert (In o (create_ids (d_ops d))).
  { apply in_create_ids; exists f; eapply nth_error_In; eauto. }
  rewrite (ow_ids _ _ W) in H0. apply in_seq in H0. lia.
Qed.

Lemma created_name_neq_cur : forall d n i f o, ops_wf (d_ops d) n -> created_at d i f o -> f <> FCurrent.
Proof.
  intros d n i f o W H ->. eapply ow_nocur; eauto. apply in_created_names; exists o; eapply nth_error_In; eauto.
Qed.

Lemma nth_snoc_inv : forall {A} (l : list A) x i y, nth_error (l ++ [x]) i = Some y ->
  nth_error l i = Some y \/ (i = length l /\ x = y).
Proof.
  intros A l x i y H. destruct (Nat.lt_ge_cases i (length l)) as [Hlt|Hge].
  - left. rewrite nth_error_app1 in H by exact Hlt. exact H.
  - right. rewrite nth_error_app2 in H by exact Hge.
    destruct (i - length l)%nat as [|j] eqn:Ej; cbn in H.
    + injection H as ->. split; [lia|reflexivity].
    + destruct j; discriminate.
Qed.

(* ---- effect of a step on the disk, by cases *)
Lemma created_at_snoc_old : forall d d' op i f o, d_ops d' = d_ops d ++ [op] ->
  created_at d i f o -> created_at d' i f o.
Proof. intros d d' op i f o E H; unfold created_at in *; rewrite E; apply nth_error_snoc_old; exact H. Qed.

Lemma created_at_snoc_inv : forall d d' op i f o, d_ops d' = d_ops d ++ [op] ->
  created_at d' i f o -> created_at d i f o \/ (i = length (d_ops d) /\ op = DCreate f o).
Proof.
  intros d d' op i f o E H; unfold created_at in *; rewrite E in H.
  destruct (Nat.lt_ge_cases i (length (d_ops d))) as [Hlt|Hge].
  - left. rewrite nth_error_app1 in H by exact Hlt. exact H.
  - right. rewrite nth_error_app2 in H by exact Hge.
    destruct (i - length (d_ops d))%nat as [|j] eqn:Ej; cbn in H.
    + injection H as ->. split; [lia|reflexivity].
    + destruct j; discriminate.
Qed.

Lemma NoDup_snoc : forall {A} (l : list A) x, NoDup l -> ~ In x l -> NoDup (l ++ [x]).
Proof.
  intros A l x ND Hn; induction ND as [|y r Hy ND IH]; cbn [app].
  - constructor; [intros []|constructor].
  - constructor.
    + intro Hin. apply in_app_or in Hin. destruct Hin as [Hin|[->|[]]]; [contradiction|].
      apply Hn; left; reflexivity.
    + apply IH. intro Hin; apply Hn; right; exact Hin.
Qed.

Lemma in_log_nums : forall names n, In n (flat_map log_num names) <-> In (FLog n) names.
Proof.
  intros names n; rewrite in_flat_map; split.
  - intros [f [Hin Hn]]. destruct f; cbn in Hn; try contradiction. destruct Hn as [->|[]]; exact Hin.
  - intro H; exists (FLog n); split; [exact H|left; reflexivity].
Qed.

Lemma in_logs_created : forall p n, Inv_struct p -> In n (map fst (p_logs p)) ->
  exists i o, created_at (p_disk p) i (FLog n) o.
Proof.
  intros p n I H. rewrite (is_logs_names _ I) in H. apply in_log_nums in H.
  apply in_created_names in H. destruct H as [o H]. apply In_nth_error in H. destruct H as [i H].
  exists i, o; exact H.
Qed.

Lemma typed_new : forall f, f <> FCurrent -> typed f (mkObj [] 0).
Proof.
  intros f Hf; destruct f; cbn [typed o_recs]; auto.
  - exists []; reflexivity.
  - exists []; split; [reflexivity|constructor].
Qed.

(* ---- ECreate *)
Lemma struct_create : forall p f, Inv_struct p ->
  chk_R0 p (ECreate f) = true -> chk_R6 p (ECreate f) = true -> Inv_struct (pstep p (ECreate f)).
Proof.
  intros p f I H0 H6.
  cbn [chk_R0] in H0. apply negb_true_iff, fname_eqb_neq in H0.
  cbn [chk_R6] in H6. apply andb_true_iff in H6. destruct H6 as [Hfresh Hlog].
  apply negb_true_iff in Hfresh.
  assert (Hnew : ~ In f (created_names (d_ops (p_disk p)))).
  { intro Hin. apply (is_created _ I) in Hin.
    assert (existsb (fname_eqb f) (p_created p) = true).
    { apply existsb_exists; exists f; split; [exact Hin|apply fname_eqb_refl]. }
    congruence. }
  pose proof (is_ops _ I) as W.
  set (d := p_disk p) in *.
  assert (Ed : p_disk (pstep p (ECreate f)) =
               mkDisk (d_objs d ++ [mkObj [] 0]) (d_ops d ++ [DCreate f (length (d_objs d))]) (d_dsync d)).
  { rewrite pstep_disk; reflexivity. }
  assert (W' : ops_wf (d_ops d ++ [DCreate f (length (d_objs d))]) (length (d_objs d ++ [mkObj [] 0]))).
  { constructor.
    - rewrite create_ids_snoc, (ow_ids _ _ W), app_length. cbn [length].
      replace (length (d_objs d) + 1)%nat with (S (length (d_objs d))) by lia.
      rewrite seq_S; reflexivity.
    - rewrite created_names_snoc. apply NoDup_snoc; [apply (ow_nodup _ _ W)|exact Hnew].
    - rewrite created_names_snoc. intro Hin. apply in_app_or in Hin. destruct Hin as [Hin|[Hin|[]]].
      + apply (ow_nocur _ _ W); exact Hin.
      + congruence.
    - intros a b Hin. apply in_app_or in Hin. destruct Hin as [Hin|[Hin|[]]]; [|discriminate].
      apply (ow_ren _ _ W); exact Hin.
    - intro Hin. apply in_app_or in Hin. destruct Hin as [Hin|[Hin|[]]]; [|discriminate].
      apply (ow_unl _ _ W); exact Hin. }
  constructor; rewrite ?Ed; cbn [d_ops d_objs d_dsync].
  - exact W'.
  - rewrite app_length; cbn [length]. pose proof (is_dsync _ I). fold d in H. lia.
  - intro g. rewrite pstep_created, created_names_snoc. cbn [In]. rewrite in_app_iff. cbn [In].
    rewrite (is_created _ I g). fold d. intuition congruence.
  - intros i g o x Hc Hx.
    destruct (nth_snoc_inv _ _ _ _ Hc) as [Hold|[-> Hnew']].
    + pose proof (created_at_lt _ _ _ _ _ W Hold) as Hlt.
      rewrite nth_error_app1 in Hx by exact Hlt.
      exact (is_typed _ I _ _ _ _ Hold Hx).
    + injection Hnew' as Ef Eo. subst g o. rewrite nth_error_snoc_new in Hx. injection Hx as <-.
      split; [apply typed_new; exact H0|]. cbn [o_synced o_recs length]. split; lia.
  - rewrite pstep_logs, created_names_snoc, flat_map_app. cbn [flat_map]. rewrite app_nil_r.
    destruct f; cbn [log_num]; rewrite ?app_nil_r; try exact (is_logs_names _ I).
    rewrite map_app. cbn [map fst]. f_equal. exact (is_logs_names _ I).
  - rewrite pstep_logs. destruct f; try exact (is_logs_sorted _ I).
    rewrite map_app. cbn [map fst]. apply sorted0_snoc; [exact (is_logs_sorted _ I)|].
    rewrite <- (newest_log_spec _ (is_logs_sorted _ I)). apply N.ltb_lt; exact Hlog.
  - intros n bs i o x Hin Hc Hx. rewrite pstep_logs in Hin.
    assert (Hold : In (n, bs) (p_logs p) -> batches_of (o_recs x) = Some bs).
    { intro Hin'. destruct (nth_snoc_inv _ _ _ _ Hc) as [Hold|[-> Hnew']].
      - pose proof (created_at_lt _ _ _ _ _ W Hold) as Hlt.
        rewrite nth_error_app1 in Hx by exact Hlt.
        exact (is_logs_recs _ I _ _ _ _ _ Hin' Hold Hx).
      - injection Hnew' as Ef _. subst f. exfalso; apply Hnew.
        assert (In n (map fst (p_logs p))) by (apply in_map_iff; exists (n, bs); auto).
        rewrite (is_logs_names _ I) in H. apply in_log_nums in H. exact H. }
    destruct f; try (apply Hold; exact Hin).
    apply in_app_or in Hin. destruct Hin as [Hin|[Hin|[]]]; [apply Hold; exact Hin|].
    injection Hin as <- <-.
    destruct (nth_snoc_inv _ _ _ _ Hc) as [Hold'|[-> Hnew']].
    + exfalso; apply Hnew. apply in_created_names; exists o. eapply nth_error_In; exact Hold'.
    + injection Hnew' as Eo. subst o. rewrite nth_error_snoc_new in Hx. injection Hx as <-. reflexivity.
Qed.

(* ---- steps that only add a non-create directory operation *)
Lemma struct_dirop : forall p p' op, Inv_struct p ->
  p_disk p' = mkDisk (d_objs (p_disk p)) (d_ops (p_disk p) ++ [op]) (d_dsync (p_disk p)) ->
  p_logs p' = p_logs p -> p_created p' = p_created p ->
  (match op with
   | DCreate _ _ => False
   | DRename a b => (exists t, a = FTmp t) /\ b = FCurrent
   | DUnlink f => f <> FCurrent
   end) ->
  Inv_struct p'.
Proof.
  intros p p' op I Ed El Ec Hop. pose proof (is_ops _ I) as W.
  assert (Hcn : created_names (d_ops (p_disk p) ++ [op]) = created_names (d_ops (p_disk p))).
  { rewrite created_names_snoc. destruct op; [contradiction| |]; apply app_nil_r. }
  constructor; rewrite ?Ed, ?El, ?Ec; cbn [d_ops d_objs d_dsync]; rewrite ?Hcn.
  - constructor.
    + rewrite create_ids_snoc. destruct op; [contradiction| |]; rewrite app_nil_r; apply (ow_ids _ _ W).
    + rewrite Hcn; apply (ow_nodup _ _ W).
    + rewrite Hcn; apply (ow_nocur _ _ W).
    + intros a b Hin. apply in_app_or in Hin. destruct Hin as [Hin|[Hin|[]]]; [apply (ow_ren _ _ W); exact Hin|].
      subst op. exact Hop.
    + intro Hin. apply in_app_or in Hin. destruct Hin as [Hin|[Hin|[]]]; [apply (ow_unl _ _ W); exact Hin|].
      subst op. congruence.
  - rewrite app_length; cbn [length]. pose proof (is_dsync _ I); lia.
  - exact (is_created _ I).
  - intros i f o x Hc Hx. destruct (nth_snoc_inv _ _ _ _ Hc) as [Hold|[-> Hnew]].
    + exact (is_typed _ I _ _ _ _ Hold Hx).
    + subst op; contradiction.
  - exact (is_logs_names _ I).
  - exact (is_logs_sorted _ I).
  - intros n bs i o x Hin Hc Hx. destruct (nth_snoc_inv _ _ _ _ Hc) as [Hold|[-> Hnew]].
    + exact (is_logs_recs _ I _ _ _ _ _ Hin Hold Hx).
    + subst op; contradiction.
Qed.

(* ---- steps that leave the disk alone, or only move the sync mark *)
Lemma struct_same : forall p p' ds, Inv_struct p ->
  p_disk p' = mkDisk (d_objs (p_disk p)) (d_ops (p_disk p)) ds ->
  (d_dsync (p_disk p) <= ds <= length (d_ops (p_disk p)))%nat ->
  p_logs p' = p_logs p -> p_created p' = p_created p -> Inv_struct p'.
Proof.
  intros p p' ds I Ed Hds El Ec.
  constructor; rewrite ?Ed, ?El, ?Ec; cbn [d_ops d_objs d_dsync].
  - exact (is_ops _ I).
  - lia.
  - exact (is_created _ I).
  - intros i f o x Hc Hx. destruct (is_typed _ I _ _ _ _ Hc Hx) as [T [S1 S2]].
    split; [exact T|split; [exact S1|]]. intro H0; specialize (S2 H0); lia.
  - exact (is_logs_names _ I).
  - exact (is_logs_sorted _ I).
  - exact (is_logs_recs _ I).
Qed.

(* ---- steps that update one object *)
Lemma struct_upd : forall p p' o g ds f i0 x0, Inv_struct p ->
  p_disk p' = mkDisk (upd_nth (d_objs (p_disk p)) o g) (d_ops (p_disk p)) ds ->
  (d_dsync (p_disk p) <= ds <= length (d_ops (p_disk p)))%nat ->
  p_created p' = p_created p -> map fst (p_logs p') = map fst (p_logs p) ->
  created_at (p_disk p) i0 f o -> nth_error (d_objs (p_disk p)) o = Some x0 ->
  (typed f (g x0) /\ (o_synced (g x0) <= length (o_recs (g x0)))%nat /\ ((0 < o_synced (g x0))%nat -> (i0 < ds)%nat)) ->
  (forall n bs, In (n, bs) (p_logs p') ->
     (f <> FLog n /\ In (n, bs) (p_logs p)) \/ (f = FLog n /\ batches_of (o_recs (g x0)) = Some bs)) ->
  Inv_struct p'.
Proof.
  intros p p' o g ds f i0 x0 I Ed Hds Ec El Hc0 Hx0 Hg Hlogs. pose proof (is_ops _ I) as W.
  constructor; rewrite ?Ed, ?Ec, ?El; cbn [d_ops d_objs d_dsync].
  - rewrite length_upd_nth; exact W.
  - lia.
  - exact (is_created _ I).
  - intros i f' o' x Hc Hx. change (created_at (p_disk p) i f' o') in Hc.
    destruct (Nat.eq_dec o o') as [<-|Hne].
    + destruct (created_unique _ _ _ _ _ _ _ W Hc Hc0) as [-> ->].
      rewrite (nth_error_upd_nth_eq _ _ _ _ Hx0) in Hx. injection Hx as <-. exact Hg.
    + rewrite nth_error_upd_nth_neq in Hx by exact Hne.
      destruct (is_typed _ I _ _ _ _ Hc Hx) as [T [S1 S2]].
      split; [exact T|split; [exact S1|]]. intro H0; specialize (S2 H0); lia.
  - exact (is_logs_names _ I).
  - exact (is_logs_sorted _ I).
  - intros n bs i o' x Hin Hc Hx. change (created_at (p_disk p) i (FLog n) o') in Hc.
    destruct (Hlogs _ _ Hin) as [[Hf Hin']|[Hf Hb]].
    + assert (o <> o').
      { intros <-. destruct (created_unique _ _ _ _ _ _ _ W Hc Hc0) as [E _]. congruence. }
      rewrite nth_error_upd_nth_neq in Hx by exact H.
      exact (is_logs_recs _ I _ _ _ _ _ Hin' Hc Hx).
    + subst f.
      assert (i = i0) by (eapply create_unique_pos; [apply (ow_nodup _ _ W)|exact Hc|exact Hc0]). subst i.
      assert (o' = o).
      { unfold created_at in Hc, Hc0. rewrite Hc in Hc0. injection Hc0 as ->. reflexivity. }
      subst o'. rewrite (nth_error_upd_nth_eq _ _ _ _ Hx0) in Hx. injection Hx as <-. exact Hb.
Qed.

Lemma disk_eta : forall d, d = mkDisk (d_objs d) (d_ops d) (d_dsync d).
Proof. intro d; destruct d; reflexivity. Qed.

Lemma lookup_created : forall p f o, Inv_struct p -> ns_lookup (p_disk p) f = Some o ->
  exists i g x, created_at (p_disk p) i g o /\ nth_error (d_objs (p_disk p)) o = Some x /\
    (f <> FCurrent -> g = f) /\ (f = FCurrent -> exists t, g = FTmp t).
Proof.
  intros p f o I H. pose proof (is_ops _ I) as W. rewrite ns_lookup_nsk in H.
  destruct (nsk_created _ _ _ _ _ W H) as [N1 N2].
  destruct (fname_eq_dec f FCurrent) as [->|Hf].
  - destruct (N2 eq_refl) as [i [t [_ Hc]]].
    pose proof (created_at_lt _ _ _ _ _ W Hc) as Hlt.
    destruct (nth_error (d_objs (p_disk p)) o) as [x|] eqn:Ex; [|apply nth_error_None in Ex; lia].
    exists i, (FTmp t), x. repeat split; eauto; congruence.
  - destruct (N1 Hf) as [i [_ Hc]].
    pose proof (created_at_lt _ _ _ _ _ W Hc) as Hlt.
    destruct (nth_error (d_objs (p_disk p)) o) as [x|] eqn:Ex; [|apply nth_error_None in Ex; lia].
    exists i, f, x. repeat split; eauto; congruence.
Qed.

Lemma obj_at_some : forall d f x, obj_at d f = Some x ->
  exists o, ns_lookup d f = Some o /\ nth_error (d_objs d) o = Some x.
Proof. intros d f x H; unfold obj_at in H. destruct (ns_lookup d f) as [o|]; [eauto|discriminate]. Qed.

Lemma in_logs_of_created : forall p i n o, Inv_struct p -> created_at (p_disk p) i (FLog n) o ->
  In n (map fst (p_logs p)).
Proof.
  intros p i n o I Hc. rewrite (is_logs_names _ I). apply in_log_nums. apply in_created_names.
  exists o; eapply nth_error_In; exact Hc.
Qed.

Lemma struct_step : forall p e, Inv_struct p -> chk_all p e = true -> Inv_struct (pstep p e).
Proof.
  intros p e I Hchk. apply chk_all_iff in Hchk.
  destruct Hchk as [H0 [_ [_ [_ [_ [_ [H6 _]]]]]]].
  pose proof (is_ops _ I) as W.
  destruct e as [f|f pl| | |a b|f|id b sy|id ok].
  - apply struct_create; assumption.
  - (* append *)
    cbn [chk_R0] in H0. destruct (obj_at (p_disk p) f) as [x|] eqn:Ex; [|discriminate].
    destruct (obj_at_some _ _ _ Ex) as [o [Hl Hx]].
    destruct (lookup_created _ _ _ I Hl) as [i [g [x' [Hc [Hx' [Hg1 Hg2]]]]]].
    rewrite Hx in Hx'; injection Hx' as <-.
    assert (Hf : f <> FCurrent) by (intros ->; discriminate).
    specialize (Hg1 Hf); subst g.
    destruct (is_typed _ I _ _ _ _ Hc Hx) as [T [S1 S2]].
    apply (struct_upd p _ o (obj_append pl) (d_dsync (p_disk p)) f i x I).
    + rewrite pstep_disk. cbn [fs_step]. rewrite Hl. reflexivity.
    + pose proof (is_dsync _ I); lia.
    + rewrite pstep_created; reflexivity.
    + rewrite pstep_logs. destruct f; try reflexivity. destruct pl; try reflexivity. apply add_batch_fst.
    + exact Hc.
    + exact Hx.
    + unfold obj_append; cbn [o_recs o_synced]. rewrite app_length; cbn [length]. split; [|split; [lia|exact S2]].
      destruct f, pl; try discriminate; cbn [typed o_recs] in T |- *.
      * destruct T as [bs Hb]. exists (bs ++ [(first_seq, ops)]). rewrite batches_of_app, Hb. reflexivity.
      * destruct (o_recs x); [|discriminate]. right; exists ents; reflexivity.
      * destruct T as [eds [He Hp]]. exists (eds ++ [e]). rewrite edits_of_app, He. split; [reflexivity|].
        apply Forall_app; split; [exact Hp|]. constructor; [|constructor].
        unfold prev_ok. destruct (me_prev e) as [v|]; [|left; reflexivity].
        apply N.eqb_eq in H0; subst v; right; reflexivity.
      * destruct (o_recs x); [|discriminate]. right; exists m; reflexivity.
    + intros n bs Hin. rewrite pstep_logs in Hin.
      assert (ND : NoDup (map fst (p_logs p))) by (apply sorted0_nodup; exact (is_logs_sorted _ I)).
      destruct f as [m|m|m| |m]; try (left; split; [discriminate|exact Hin]).
      destruct pl as [s ops|ed|ents|cm]; try discriminate.
      apply (in_add_batch m (s, ops) (p_logs p) n bs ND) in Hin.
      destruct Hin as [[Hne Hin]|[-> [bs0 [Hin ->]]]].
      * left; split; [congruence|exact Hin].
      * right; split; [reflexivity|]. unfold obj_append; cbn [o_recs].
        rewrite batches_of_app, (is_logs_recs _ I _ _ _ _ _ Hin Hc Hx). reflexivity.
  - (* fsync *)
    destruct (ns_lookup (p_disk p) f) as [o|] eqn:Hl.
    + destruct (lookup_created _ _ _ I Hl) as [i [g [x [Hc [Hx _]]]]].
      destruct (is_typed _ I _ _ _ _ Hc Hx) as [T [S1 S2]].
      apply (struct_upd p _ o obj_sync (length (d_ops (p_disk p))) g i x I).
      * rewrite pstep_disk. cbn [fs_step]. rewrite Hl. reflexivity.
      * pose proof (is_dsync _ I); lia.
      * rewrite pstep_created; reflexivity.
      * rewrite pstep_logs; reflexivity.
      * exact Hc.
      * exact Hx.
      * unfold obj_sync; cbn [o_recs o_synced]. split; [|split; [lia|]].
        -- destruct g; exact T.
        -- intros _. apply nth_error_Some. unfold created_at in Hc; congruence.
      * intros n bs Hin. rewrite pstep_logs in Hin.
        destruct (fname_eq_dec g (FLog n)) as [->|Hne]; [right|left; split; assumption].
        split; [reflexivity|]. unfold obj_sync; cbn [o_recs]. exact (is_logs_recs _ I _ _ _ _ _ Hin Hc Hx).
    + apply (struct_same p _ (d_dsync (p_disk p)) I).
      * rewrite pstep_disk. cbn [fs_step]. rewrite Hl. apply disk_eta.
      * pose proof (is_dsync _ I); lia.
      * rewrite pstep_logs; reflexivity.
      * rewrite pstep_created; reflexivity.
  - apply (struct_same p _ (length (d_ops (p_disk p))) I).
    + rewrite pstep_disk. reflexivity.
    + pose proof (is_dsync _ I); lia.
    + rewrite pstep_logs; reflexivity.
    + rewrite pstep_created; reflexivity.
  - (* rename *)
    cbn [chk_R0] in H0. destruct a; try discriminate. destruct b; try discriminate.
    destruct (ns_lookup (p_disk p) (FTmp n)) as [o|] eqn:Hl.
    + apply (struct_dirop p _ (DRename (FTmp n) FCurrent) I).
      * rewrite pstep_disk. cbn [fs_step]. rewrite Hl. reflexivity.
      * rewrite pstep_logs; reflexivity.
      * rewrite pstep_created; reflexivity.
      * split; [exists n; reflexivity|reflexivity].
    + apply (struct_same p _ (d_dsync (p_disk p)) I).
      * rewrite pstep_disk. cbn [fs_step]. rewrite Hl. apply disk_eta.
      * pose proof (is_dsync _ I); lia.
      * rewrite pstep_logs; reflexivity.
      * rewrite pstep_created; reflexivity.
  - (* unlink *)
    cbn [chk_R0] in H0. apply andb_true_iff in H0. destruct H0 as [Hf Hb].
    apply negb_true_iff, fname_eqb_neq in Hf.
    destruct (ns_lookup (p_disk p) f) as [o|] eqn:Hl; [|discriminate].
    apply (struct_dirop p _ (DUnlink f) I).
    + rewrite pstep_disk. cbn [fs_step]. rewrite Hl. reflexivity.
    + rewrite pstep_logs; reflexivity.
    + rewrite pstep_created; reflexivity.
    + exact Hf.
  - apply (struct_same p _ (d_dsync (p_disk p)) I).
    + rewrite pstep_disk. cbn [fs_step]. apply disk_eta.
    + pose proof (is_dsync _ I); lia.
    + rewrite pstep_logs; reflexivity.
    + rewrite pstep_created; reflexivity.
  - apply (struct_same p _ (d_dsync (p_disk p)) I).
    + rewrite pstep_disk. cbn [fs_step]. apply disk_eta.
    + pose proof (is_dsync _ I); lia.
    + rewrite pstep_logs; reflexivity.
    + rewrite pstep_created; reflexivity.
Qed.

