(* Properties_C01b.v -- C01, the selection side: lcdb's OWN compaction input selection
   (Policy.v: exact replicas of ldb_versions_compact_range, ldb_versions_pick_compaction,
   ldb_versions_setup_other_inputs, add_boundary_inputs, ldb_version_get_overlapping_inputs,
   ldb_version_pick_level_for_memtable_output; tied to the code by K2: every compaction observed
   on the real library must be among the replica's predictions, checks/k2lib.py policy_inputs)
   always satisfies the input-side guards under which the model's compaction / move / flush
   steps were proved correct (Properties_C01).  Statements only; proofs in PolicyProofs.v,
   PolicyBoundary.v, PolicyOverlap.v, PolicyFlush.v. *)
From LCDB Require Import Base Engine EngineSpec Policy PolicyOverlap PolicyBoundary PolicyFlush PolicyProofs.
Local Open Scope N_scope.

(* the restart loop of get_overlapping_inputs and the while(search) loop of
   add_boundary_inputs terminate within the fuel of the replicas: more fuel changes nothing *)
Theorem C01_overlapping_inputs_fuel : forall ucmp, total_order ucmp ->
  forall lvl0 fs ub ue k, Forall (EngineStepsInv.FOK ucmp) fs ->
  ov_loop ucmp (ov_fuel fs + k) lvl0 fs ub ue = overlapping_inputs ucmp lvl0 fs ub ue.
Proof. intros ucmp TO. exact (@overlapping_inputs_fuel ucmp TO). Qed.
Print Assumptions C01_overlapping_inputs_fuel.

Theorem C01_boundary_loop_fuel : forall ucmp, total_order ucmp ->
  forall fs key k, Forall (EngineStepsInv.FOK ucmp) fs ->
  boundary_loop ucmp (S (length fs) + k) fs key = boundary_loop ucmp (S (length fs)) fs key.
Proof. intros ucmp TO. exact (@boundary_loop_fuel ucmp TO). Qed.
Print Assumptions C01_boundary_loop_fuel.

(* every non-empty selection of a manual compaction (any range, any truncation point [keep],
   expanded or not) and of an automatic compaction (any seed file, expanded or not) satisfies
   the input-side conjuncts of Engine.compaction_guard *)
Theorem C01_policy_satisfies_guards : forall ucmp, total_order ucmp -> forall s L,
  inv_b ucmp s = true -> (S L < NUM_LEVELS)%nat ->
  let guards (c : compaction) :=
    let lv := levels s in
    let i0 := fst (compaction_inputs s c) in
    let merged := compaction_merged ucmp s c in
    all_in (c_in0 c) (level_files lv (c_level c)) = true /\
    all_in (c_in1 c) (level_files lv (S (c_level c))) = true /\
    newer_outside ucmp (level_entries (remove_files (level_files lv (c_level c)) (c_in0 c))) (level_entries i0) = true /\
    forallb (file_disjoint_from ucmp merged) (remove_files (level_files lv (S (c_level c))) (c_in1 c)) = true /\
    newer_outside ucmp (level_entries (remove_files (level_files lv (S (c_level c))) (c_in1 c))) merged = true in
  (forall b e keep expand cuts outs nf,
     fst (manual_inputs ucmp s L b e keep expand) <> [] ->
     guards (to_compaction L (manual_inputs ucmp s L b e keep expand) cuts outs nf)) /\
  (forall seed expand cuts outs nf,
     fst (picked_inputs ucmp s L seed expand) <> [] ->
     guards (to_compaction L (picked_inputs ucmp s L seed expand) cuts outs nf)).
Proof. intros ucmp TO. exact (@policy_satisfies_guards ucmp TO). Qed.
Print Assumptions C01_policy_satisfies_guards.

(* with fresh, increasing output numbers, positive cuts and as many output numbers as output
   runs, the selected compaction is an enabled step of the model *)
Theorem C01_policy_step_exists : forall ucmp, total_order ucmp -> forall s L,
  inv_b ucmp s = true -> (S L < NUM_LEVELS)%nat ->
  forall sel, (exists b e keep expand, sel = manual_inputs ucmp s L b e keep expand) \/
              (exists seed expand, sel = picked_inputs ucmp s L seed expand) ->
  fst sel <> [] ->
  forall cuts outs nf,
  let c := to_compaction L sel cuts outs nf in
  forallb (fresh_num s) (c_outs c) && strictly_increasing (c_outs c)
    && forallb (fun n => n <? c_nf c) (c_outs c) && (next_file s <=? c_nf c)
    && forallb (fun n => (0 <? n)%nat) (c_cuts c) = true ->
  length outs = length (split_at cuts (compaction_kept ucmp s c)) ->
  compaction_guard ucmp s c = true /\ do_compact ucmp s c <> None.
Proof. intros ucmp TO. exact (@policy_step_exists ucmp TO). Qed.
Print Assumptions C01_policy_step_exists.

(* ... and that step keeps the invariant and every readable view *)
Theorem C01_policy_compaction_correct : forall ucmp, total_order ucmp -> forall s L,
  inv_b ucmp s = true -> (S L < NUM_LEVELS)%nat ->
  forall sel, (exists b e keep expand, sel = manual_inputs ucmp s L b e keep expand) \/
              (exists seed expand, sel = picked_inputs ucmp s L seed expand) ->
  fst sel <> [] ->
  forall cuts outs nf,
  let c := to_compaction L sel cuts outs nf in
  output_guards s c = true ->
  length outs = length (split_at cuts (compaction_kept ucmp s c)) ->
  exists s', step ucmp s (OCompact c) = Some s' /\ inv_b ucmp s' = true /\
             forall k q, readable s q -> view ucmp s' k q = view ucmp s k q.
Proof. intros ucmp TO. exact (@policy_compaction_correct ucmp TO). Qed.
Print Assumptions C01_policy_compaction_correct.

(* ldb_compaction_is_trivial_move: one level-L file and no level-(L+1) input may be moved *)
Theorem C01_policy_trivial_move : forall ucmp, total_order ucmp -> forall s L,
  inv_b ucmp s = true -> (S L < NUM_LEVELS)%nat ->
  forall sel, (exists b e keep expand, sel = manual_inputs ucmp s L b e keep expand) \/
              (exists seed expand, sel = picked_inputs ucmp s L seed expand) ->
  forall f gp, sel = ([f], []) -> is_trivial_move sel gp = true ->
  move_guard ucmp s L (fnum f) = true /\ do_move ucmp s L (fnum f) <> None.
Proof. intros ucmp TO. exact (@policy_trivial_move ucmp TO). Qed.
Print Assumptions C01_policy_trivial_move.

(* the level ldb_version_pick_level_for_memtable_output chooses for a flushed memtable
   (any outcome [gp] of the grandparent-bytes test) satisfies the flush guard *)
Theorem C01_flush_policy_ok : forall ucmp, total_order ucmp -> forall s e0 r gp,
  inv_b ucmp s = true -> imm s = Some (e0 :: r) ->
  flush_level_ok ucmp (levels s) (e0 :: r)
    (pick_level_for_memtable_output ucmp (levels s) (ek e0) (ek (last r e0)) gp) = true.
Proof. intros ucmp TO. exact (@flush_policy_ok ucmp TO). Qed.
Print Assumptions C01_flush_policy_ok.
