(* Properties_C17b.v -- C17b: CURRENT always names a complete MANIFEST (old or new,
   never a mixture), in every crash image of every accepted trace.  Record-level
   model FsModel.v, proofs FsProofs.v (rule R4 + the invariant Inv_dur of FsDur.v). *)
From LCDB Require Import FsModel FsProofs.
Local Open Scope N_scope.

Theorem C17_current_complete : forall tr, wf_protocol tr = true ->
  forall p img, crash_image (firstn p tr) img ->
  iget img FCurrent = None \/
  exists m, iget img FCurrent = Some [PCurrent m] /\ complete_manifest img m.
Proof. exact FsProofs.C17_current_complete. Qed.
Print Assumptions C17_current_complete.

Theorem C17_bad_trace_rename_before_manifest_sync_refuted :
  wf_protocol bad_rename_before_manifest_sync = false /\
  first_violation bad_rename_before_manifest_sync = Some (4, 38) /\
  In (1, true, 3, (1, ex_w1)) (acks bad_rename_before_manifest_sync) /\
  exists img, crash_image bad_rename_before_manifest_sync img /\ lost_in img 3 (1, ex_w1) = true.
Proof. exact bad_trace_rename_before_manifest_sync_refuted. Qed.
Print Assumptions C17_bad_trace_rename_before_manifest_sync_refuted.
