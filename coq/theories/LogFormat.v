(* LogFormat.v -- model of src/log_writer.c and src/log_reader.c
   (initial_offset = 0, as used by db_impl.c / version_set.c / repair.c).
   Pinned to the LevelDB log format: 32 KiB blocks, 7-byte header
   (masked CRC-32C of type||payload, LE16 length, type), FULL/FIRST/MIDDLE/LAST
   fragments, zero trailers.  Definitions only. *)
From LCDB Require Export Base Crc32c.
Local Open Scope N_scope.

Definition BLOCK : N := 32768.
Definition HEADER : N := 7.

Definition T_ZERO : N := 0.
Definition T_FULL : N := 1.
Definition T_FIRST : N := 2.
Definition T_MIDDLE : N := 3.
Definition T_LAST : N := 4.

(* ------------------------------------------------------------------ *)
(* Writer                                                              *)
(* ------------------------------------------------------------------ *)

(* emit_physical_record: header ++ payload *)
Definition phys_record (ty : N) (payload : bytes) : bytes :=
  let crc := crc_mask (crc_extend (crc_value [ty]) payload) in
  let len := nlen payload in
  le32 crc ++ [len mod 256; len / 256; ty] ++ payload.

Definition frag_type (is_begin is_end : bool) : N :=
  match is_begin, is_end with
  | true, true => T_FULL
  | true, false => T_FIRST
  | false, true => T_LAST
  | false, false => T_MIDDLE
  end.

(* One iteration of the do-while loop of ldb_writer_add_record, returning the
   bytes appended, the new block offset and the unconsumed data ([None] when
   this was the last fragment). *)
Definition add_record_step (off : N) (is_begin : bool) (data : bytes)
  : bytes * N * option bytes :=
  let leftover := BLOCK - off in
  let pad := if leftover <? HEADER then repeat 0 (N.to_nat leftover) else [] in
  let off1 := if leftover <? HEADER then 0 else off in
  let avail := BLOCK - off1 - HEADER in
  let left := nlen data in
  let flen := if left <? avail then left else avail in
  let is_end := left =? flen in
  let frag := take_n flen data in
  let out := pad ++ phys_record (frag_type is_begin is_end) frag in
  (out, off1 + HEADER + flen, if is_end then None else Some (drop_n flen data)).

Fixpoint add_record_loop (fuel : nat) (off : N) (is_begin : bool) (data : bytes)
  : bytes * N :=
  let '(out, off', rest) := add_record_step off is_begin data in
  match rest with
  | None => (out, off')
  | Some data' =>
      match fuel with
      | O => (out, off')            (* unreachable: see add_record_fuel_ok *)
      | S f => let '(out2, off2) := add_record_loop f off' false data' in
               (out ++ out2, off2)
      end
  end.

(* Every non-final iteration leaves the block full, so later iterations each
   consume BLOCK-HEADER = 32761 bytes; the first may consume 0. *)
Definition add_record_fuel (data : bytes) : nat :=
  N.to_nat (nlen data / 32761) + 2.

(* ldb_writer_add_record at block offset [off] *)
Definition add_record (off : N) (data : bytes) : bytes * N :=
  add_record_loop (add_record_fuel data) off true data.

(* write a sequence of records starting at file length [len0]
   (ldb_writer_init sets block_offset = length % BLOCK) *)
Fixpoint write_records (off : N) (rs : list bytes) : bytes :=
  match rs with
  | [] => []
  | r :: rs' => let '(out, off') := add_record off r in out ++ write_records off' rs'
  end.

Definition write_log_from (len0 : N) (rs : list bytes) : bytes :=
  write_records (len0 mod BLOCK) rs.

Definition write_log (rs : list bytes) : bytes := write_log_from 0 rs.

(* ------------------------------------------------------------------ *)
(* Reader                                                              *)
(* ------------------------------------------------------------------ *)

(* Physical layer events (read_physical_record) *)
Inductive pev :=
| PRec (ty : N) (payload : bytes)
| PBad (report : option N)      (* LDB_BAD_RECORD; Some n = report_corruption(n) first *)
| PEof.

(* Parse the buffer holding one block. [eof] = this read returned < BLOCK bytes.
   Fuel: every accepted record consumes >= 7 bytes. *)
Fixpoint parse_block (fuel : nat) (checksum : bool) (eof : bool) (buf : bytes) : list pev :=
  match fuel with
  | O => []
  | S f =>
    let size := nlen buf in
    if size <? HEADER then
      (if eof then [PEof] else [])         (* trailer skip / truncated header at EOF *)
    else
      match buf with
      | c0 :: c1 :: c2 :: c3 :: a :: b :: ty :: body =>
          let len := a + 256 * b in
          if size <? HEADER + len then
            (if eof then [PEof] else [PBad (Some size)])
          else if (ty =? T_ZERO) && (len =? 0) then
            PBad None :: (if eof then [PEof] else [])
          else
            let payload := take_n len body in
            let expect := crc_unmask (c0 + 256 * c1 + 65536 * c2 + 16777216 * c3) in
            let actual := crc_value (ty :: payload) in
            if checksum && negb (actual =? expect) then
              PBad (Some size) :: (if eof then [PEof] else [])
            else
              PRec ty payload :: parse_block f checksum eof (drop_n len body)
      | _ => []  (* unreachable: size >= 7 *)
      end
  end.

(* Split the file into the successive reads of LDB_BLOCK_SIZE bytes.  A read
   shorter than BLOCK sets eof; if the file length is a multiple of BLOCK a
   final empty read sets it. *)
Fixpoint split_blocks (fuel : nat) (file : bytes) : list (bytes * bool) :=
  match fuel with
  | O => []
  | S f =>
      let blk := take_n BLOCK file in
      if nlen blk <? BLOCK then [(blk, true)]
      else (blk, false) :: split_blocks f (drop_n BLOCK file)
  end.

Definition phys_events (checksum : bool) (file : bytes) : list pev :=
  flat_map (fun be => parse_block (S (length (fst be))) checksum (snd be) (fst be))
           (split_blocks (S (N.to_nat (nlen file / BLOCK))) file).

(* Logical layer events *)
Inductive lev :=
| Rec (r : bytes)
| Drop (n : N).

(* ldb_reader_read_record, iterated until it returns 0 (EOF).
   State: in_fragmented_record, scratch.  Both are reset when a record is returned. *)
Fixpoint logical (evs : list pev) (in_frag : bool) (scratch : bytes) : list lev :=
  match evs with
  | [] => []
  | PEof :: _ => []
  | PBad rep :: evs' =>
      (match rep with Some n => [Drop n] | None => [] end) ++
      (if in_frag then [Drop (nlen scratch)] else []) ++
      logical evs' false (if in_frag then [] else scratch)
  | PRec ty frag :: evs' =>
      if ty =? T_FULL then
        (if in_frag && negb (nlen scratch =? 0) then [Drop (nlen scratch)] else []) ++
        Rec frag :: logical evs' false []
      else if ty =? T_FIRST then
        (if in_frag && negb (nlen scratch =? 0) then [Drop (nlen scratch)] else []) ++
        logical evs' true frag
      else if ty =? T_MIDDLE then
        if in_frag then logical evs' true (scratch ++ frag)
        else Drop (nlen frag) :: logical evs' in_frag scratch
      else if ty =? T_LAST then
        if in_frag then Rec (scratch ++ frag) :: logical evs' false []
        else Drop (nlen frag) :: logical evs' in_frag scratch
      else if ty =? 5 then
        []     (* a type byte of 5 collides with the reader's internal LDB_EOF code: read_record returns 0 *)
      else if ty =? 6 then
        (* ... and 6 with LDB_BAD_RECORD *)
        (if in_frag then [Drop (nlen scratch)] else []) ++ logical evs' false []
      else
        Drop (nlen frag + (if in_frag then nlen scratch else 0)) :: logical evs' false []
  end.

Definition read_log_events (checksum : bool) (file : bytes) : list lev :=
  logical (phys_events checksum file) false [].

Definition read_log (file : bytes) : list lev := read_log_events true file.

Definition records_of (evs : list lev) : list bytes :=
  flat_map (fun e => match e with Rec r => [r] | Drop _ => [] end) evs.
Definition drops_of (evs : list lev) : list N :=
  flat_map (fun e => match e with Rec _ => [] | Drop n => [n] end) evs.
