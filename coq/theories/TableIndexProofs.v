(* TableIndexProofs.v -- the shape of a built table, as seen by the table reader:
   [table_open (table_build es)] succeeds and yields a table whose
     - data blocks are the entry list cut into non-empty pieces, each readable at its
       handle, the handles having strictly increasing offsets;
     - index block is [index_of blocks]: one entry per data block, keyed by the
       separator between the last key of the block and the first key of the next block
       (short successor for the last block), valued by the encoded handle;
     - filter (when a policy is configured) answers "may match" for every key of a data
       block at the offset of that block.
   Then: for sorted entries and a comparator whose separator / successor satisfy their
   contracts, every index key is >= every key of its block and < every key of all later
   blocks ([index_rel]).  The contracts are proved for the two lcdb comparators.
   The compression function is arbitrary, as long as the Snappy decoder inverts it
   wherever its output is kept and it only shrinks blocks below 4 GiB. *)
From LCDB Require Import Base Varint Crc32c Block Trie Filter Snappy TableFormat IKey.
From LCDB Require Import BaseProofs VarintProofs Crc32cProofs BlockProofs BlockIterProofs BlockSeekProofs
  FilterProofs FilterBlockProofs SnappyProofs TableProofs TableBuildProofs IKeyProofs BlockCursorProofs.
Require Import Lia ZifyBool ZifyNat ZifyN.
Ltac Zify.zify_post_hook ::= Z.div_mod_to_equations.
Local Open Scope N_scope.

(* ------------------------------------------------------------------ *)
(* list helpers                                                        *)
(* ------------------------------------------------------------------ *)
Definition firstk (l : list entry) : bytes := fst (hd ([], []) l).
Definition lastk (l : list entry) : bytes := fst (last l ([], [])).
Definition firstk_opt (l : list entry) : option bytes :=
  match l with [] => None | e :: _ => Some (fst e) end.

Lemma lastk_app : forall a b, b <> [] -> lastk (a ++ b) = lastk b.
Proof.
  intros a b Hb. unfold lastk. f_equal.
  induction a as [|x a IH]; [reflexivity|].
  cbn [app]. rewrite <- IH. cbn [last]. destruct (a ++ b) eqn:E; [|reflexivity].
  apply app_eq_nil in E. destruct E; congruence.
Qed.

Lemma lastk_snoc : forall a k v, lastk (a ++ [(k, v)]) = k.
Proof. intros. rewrite lastk_app by discriminate. reflexivity. Qed.

Lemma firstk_opt_app : forall a b, a <> [] -> firstk_opt (a ++ b) = firstk_opt a.
Proof. intros [|x a] b H; [congruence|reflexivity]. Qed.

Lemma firstk_opt_some : forall a, a <> [] -> firstk_opt a = Some (firstk a).
Proof. intros [|x a] H; [congruence|reflexivity]. Qed.

(* ------------------------------------------------------------------ *)
(* block handles in file order                                         *)
(* ------------------------------------------------------------------ *)
Definition hend (h : handle) : N := fst h + snd h + 5.

Fixpoint blocks_from (off : N) (bl : list (handle * list entry)) : Prop :=
  match bl with
  | [] => True
  | fb :: r => off <= fst (fst fb) /\ blocks_from (hend (fst fb)) r
  end.

Lemma blocks_from_snoc : forall bl o x,
  blocks_from o bl -> Forall (fun fb => hend (fst fb) <= fst (fst x)) bl -> o <= fst (fst x) ->
  blocks_from o (bl ++ [x]).
Proof.
  induction bl as [|fb bl IH]; intros o x Hb Hall Ho; cbn [app blocks_from].
  - auto.
  - destruct Hb as [A B]. inversion Hall; subst. split; [exact A|]. apply IH; auto.
Qed.

Lemma blocks_from_ge : forall bl o fb, blocks_from o bl -> In fb bl -> o <= fst (fst fb).
Proof.
  induction bl as [|x bl IH]; intros o fb Hb Hin; [destruct Hin|].
  destruct Hb as [A B]. destruct Hin as [->|Hin]; [exact A|].
  specialize (IH _ _ B Hin). unfold hend in IH. lia.
Qed.

Lemma blocks_from_fun : forall bl o h b b',
  blocks_from o bl -> In (h, b) bl -> In (h, b') bl -> b = b'.
Proof.
  induction bl as [|x bl IH]; intros o h b b' Hb H1 H2; [destruct H1|].
  destruct Hb as [A B]. destruct H1 as [->|H1]; destruct H2 as [H2|H2].
  - congruence.
  - pose proof (blocks_from_ge _ _ _ B H2) as G. cbn [fst] in G. unfold hend in G. lia.
  - subst x. pose proof (blocks_from_ge _ _ _ B H1) as G. cbn [fst] in G. unfold hend in G. lia.
  - eapply IH; eauto.
Qed.

Definition grp (fb : handle * list entry) : N * list bytes := (fst (fst fb), map fst (snd fb)).

Lemma groups_sorted_blocks : forall bl p o oend,
  blocks_from o bl -> p <= o / 2048 -> o <= oend ->
  Forall (fun fb => hend (fst fb) <= oend) bl ->
  groups_sorted p (map grp bl ++ [(oend, [])]).
Proof.
  induction bl as [|fb bl IH]; intros p o oend Hb Hp Ho Hall; cbn [map app groups_sorted fst].
  - split; [|exact Logic.I]. assert (o / 2048 <= oend / 2048) by (apply N.div_le_mono; lia). lia.
  - destruct Hb as [A B]. inversion Hall; subst.
    assert (o / 2048 <= fst (fst fb) / 2048) by (apply N.div_le_mono; lia).
    split; [unfold grp; cbn [fst]; lia|].
    apply (IH _ (hend (fst fb)) oend); auto.
    unfold grp; cbn [fst]. apply N.div_le_mono; [lia|]. unfold hend. lia.
Qed.

(* ------------------------------------------------------------------ *)
(* writing raw blocks                                                  *)
(* ------------------------------------------------------------------ *)
Lemma write_raw_stored : forall chunks offset contents chunks' offset' h,
  write_raw_block chunks offset contents 0 = (chunks', offset', h) ->
  offset = nlen (file_of chunks) ->
  file_of chunks' = file_of chunks ++ contents ++ block_trailer contents 0 /\
  offset' = nlen (file_of chunks') /\ h = (offset, nlen contents) /\
  offset' = offset + nlen contents + 5 /\
  stored_at (file_of chunks') h contents.
Proof.
  intros chunks offset contents chunks' offset' h H Ho.
  unfold write_raw_block in H. inversion H; subst; clear H.
  rewrite !file_of_cons. rewrite <- app_assoc.
  change (0 :: le32 (crc_mask (crc_extend (crc_value contents) [0]))) with (block_trailer contents 0).
  split; [reflexivity|]. split.
  { rewrite !nlen_app, nlen_block_trailer. unfold TRAILER_SIZE. lia. }
  split; [reflexivity|]. split; [reflexivity|].
  exists (file_of chunks), contents, 0, []. rewrite app_nil_r.
  cbn [fst snd]. split; [reflexivity|]. split; [reflexivity|]. split; [reflexivity|]. left. auto.
Qed.

Lemma fold_add_group_snoc : forall fbuild G g f,
  fold_left (fb_add_group fbuild) (G ++ [g]) f = fb_add_group fbuild (fold_left (fb_add_group fbuild) G f) g.
Proof. intros. rewrite fold_left_app. reflexivity. Qed.

Section Build.
Variable sep : bytes -> bytes -> bytes.
Variable succ : bytes -> bytes.
Variable has_filter : bool.
Variable fbuild : list bytes -> bytes.
Variable fmatch : bytes -> bytes -> res bool.
Variable compress : bytes -> bytes.
Variables block_size interval compression : N.
(* the Snappy decoder inverts the compression function wherever its output is kept, and
   only blocks below 4 GiB are ever kept in compressed form *)
Hypothesis Hcompress : compression = 1 -> forall raw,
  nlen (compress raw) < nlen raw - nlen raw / 8 ->
  snappy_decode_size (compress raw) <> None /\ snappy_decode (compress raw) = Ok (Some raw) /\
  nlen raw < 4294967296.
Hypothesis policy_sound : forall keys key, In key keys -> fmatch (fbuild keys) key = Ok true.

Lemma write_block_stored : forall chunks offset b chunks' offset' h,
  write_block compress compression chunks offset b = (chunks', offset', h) ->
  offset = nlen (file_of chunks) ->
  (exists more, file_of chunks' = file_of chunks ++ more) /\
  offset' = nlen (file_of chunks') /\ fst h = offset /\ offset' = hend h /\
  stored_at (file_of chunks') h (bb_finish b) /\
  (snd h = nlen (bb_finish b) \/ nlen (bb_finish b) < 4294967296).
Proof.
  intros chunks offset b chunks' offset' h H Ho.
  unfold write_block in H.
  destruct (block_contents compress compression (bb_finish b)) as [contents ty] eqn:Ec.
  unfold write_raw_block in H. inversion H; subst chunks' offset' h; clear H.
  rewrite !file_of_cons. rewrite <- app_assoc.
  change (ty :: le32 (crc_mask (crc_extend (crc_value contents) [ty]))) with (block_trailer contents ty).
  split; [eexists; reflexivity|]. split.
  { rewrite !nlen_app, nlen_block_trailer. unfold TRAILER_SIZE. lia. }
  split; [reflexivity|]. split; [unfold hend, TRAILER_SIZE; cbn [fst snd]; lia|].
  assert (Hcases : (ty = 0 /\ contents = bb_finish b) \/
                   (ty = 1 /\ snappy_decode_size contents <> None /\
                    snappy_decode contents = Ok (Some (bb_finish b)) /\ nlen (bb_finish b) < 4294967296)).
  { unfold block_contents in Ec. destruct (compression =? 1) eqn:Ecomp.
    - destruct (nlen (compress (bb_finish b)) <? nlen (bb_finish b) - nlen (bb_finish b) / 8) eqn:E.
      + inversion Ec; subst. right. split; [reflexivity|]. apply Hcompress; lia.
      + inversion Ec; subst. left. auto.
    - inversion Ec; subst. left. auto. }
  split.
  - exists (file_of chunks), contents, ty, []. rewrite app_nil_r.
    cbn [fst snd]. split; [reflexivity|]. split; [symmetry; exact Ho|]. split; [reflexivity|].
    destruct Hcases as [[-> ->]|(-> & A & B & _)]; [left; auto|right; auto].
  - cbn [snd]. destruct Hcases as [[_ ->]|(_ & _ & _ & C)]; [left; reflexivity|right; exact C].
Qed.

(* ---- the index block, as a function of the data blocks ---- *)
Definition next_first (bl : list (handle * list entry)) (nxt : option bytes) : option bytes :=
  match bl with [] => nxt | fb :: _ => Some (firstk (snd fb)) end.

Definition index_key (bes : list entry) (nxt : option bytes) : bytes :=
  match nxt with Some k => sep (lastk bes) k | None => succ (lastk bes) end.

Fixpoint index_of (bl : list (handle * list entry)) (nxt : option bytes) : list entry :=
  match bl with
  | [] => []
  | fb :: bl' => (index_key (snd fb) (next_first bl' nxt), handle_encode (fst fb)) :: index_of bl' nxt
  end.

Lemma index_of_snoc : forall bl fb nxt,
  index_of (bl ++ [fb]) nxt
  = index_of bl (Some (firstk (snd fb))) ++ [(index_key (snd fb) nxt, handle_encode (fst fb))].
Proof.
  induction bl as [|x bl IH]; intros fb nxt; cbn [app index_of]; [reflexivity|].
  rewrite IH. f_equal. f_equal. destruct bl; reflexivity.
Qed.

Lemma index_of_app : forall bpre fb bpost nxt,
  index_of (bpre ++ fb :: bpost) nxt
  = index_of bpre (Some (firstk (snd fb)))
    ++ (index_key (snd fb) (next_first bpost nxt), handle_encode (fst fb)) :: index_of bpost nxt.
Proof.
  induction bpre as [|x bpre IH]; intros fb bpost nxt; cbn [app index_of]; [reflexivity|].
  rewrite IH. f_equal. f_equal. destruct bpre; reflexivity.
Qed.

Lemma index_of_length : forall bl nxt, length (index_of bl nxt) = length bl.
Proof. induction bl; intros; cbn [index_of length]; auto. Qed.

Lemma index_of_values : forall bl nxt, map snd (index_of bl nxt) = map hkey bl.
Proof. induction bl as [|x bl IH]; intros; cbn [index_of map snd]; [reflexivity|]. rewrite IH. reflexivity. Qed.

(* ---- invariant of the table builder ---- *)
Record tinv2 (t : tbuilder) (fl : list (handle * list entry)) (cur : list entry) : Prop := {
  t2_off : tb_offset t = nlen (file_of (tb_chunks t));
  t2_data : tb_data t = bb_add_all interval bb_empty cur;
  t2_stored : Forall (fun fb => stored_at (file_of (tb_chunks t)) (fst fb) (block_build interval (snd fb))
                                /\ snd fb <> []
                                /\ (snd (fst fb) = nlen (block_build interval (snd fb)) \/
                                    nlen (block_build interval (snd fb)) < 4294967296)) fl;
  t2_from : blocks_from 0 fl;
  t2_ends : Forall (fun fb => hend (fst fb) <= tb_offset t) fl;
  t2_pending : match tb_pending t with
               | None => tb_index t = bb_add_all 1 bb_empty (index_of fl (firstk_opt cur)) /\
                         (cur = [] -> fl = [])
               | Some h => cur = [] /\ exists fl' bes, fl = fl' ++ [(h, bes)] /\
                           tb_index t = bb_add_all 1 bb_empty (index_of fl' (Some (firstk bes)))
               end;
  t2_last : tb_last_key t = lastk (concat (map snd fl) ++ cur);
  t2_filter : has_filter = true ->
              tb_filter t = fold_left (fb_add_group fbuild)
                              (map grp fl ++ [(tb_offset t, map fst cur)]) fb_empty
}.

Lemma tinv2_empty : tinv2 (tb_empty fbuild) [] [].
Proof.
  constructor; cbn [tb_empty tb_offset tb_chunks tb_data tb_pending tb_index tb_last_key tb_filter
                    map app concat index_of blocks_from]; auto.
Qed.

Lemma stored_forall_app : forall file more (fl : list (handle * list entry)),
  Forall (fun fb => stored_at file (fst fb) (block_build interval (snd fb)) /\ snd fb <> []
                    /\ (snd (fst fb) = nlen (block_build interval (snd fb)) \/
                        nlen (block_build interval (snd fb)) < 4294967296)) fl ->
  Forall (fun fb => stored_at (file ++ more) (fst fb) (block_build interval (snd fb)) /\ snd fb <> []
                    /\ (snd (fst fb) = nlen (block_build interval (snd fb)) \/
                        nlen (block_build interval (snd fb)) < 4294967296)) fl.
Proof.
  intros file more fl H. eapply Forall_impl; [|exact H].
  intros fb (A & B & C). split; [apply stored_at_app; exact A|auto].
Qed.

Lemma tb_flush_inv2 : forall t fl cur,
  tinv2 t fl cur ->
  exists fl', tinv2 (tb_flush has_filter fbuild compress compression t) fl' [] /\
              concat (map snd fl') = concat (map snd fl) ++ cur.
Proof.
  intros t fl cur Hinv. unfold tb_flush.
  destruct (bb_is_empty (tb_data t)) eqn:E.
  - rewrite (t2_data _ _ _ Hinv) in E. apply bb_add_all_empty_iff in E. subst cur.
    exists fl. split; [exact Hinv|]. rewrite app_nil_r. reflexivity.
  - assert (Hcur : cur <> []).
    { intros ->. rewrite (t2_data _ _ _ Hinv) in E. cbn in E. discriminate. }
    destruct (write_block compress compression (tb_chunks t) (tb_offset t) (tb_data t))
      as [[chunks' offset'] h] eqn:Ew.
    destruct (write_block_stored _ _ _ _ _ _ Ew (t2_off _ _ _ Hinv)) as ([more Hf] & Ho' & Hh & Hoff & Hst & Hsz).
    pose proof (t2_pending _ _ _ Hinv) as Hp.
    destruct (tb_pending t) as [hp|] eqn:Ep; [destruct Hp as [Hc _]; congruence|].
    destruct Hp as [Hidx _].
    assert (Hdata : bb_finish (tb_data t) = block_build interval cur).
    { rewrite (t2_data _ _ _ Hinv). reflexivity. }
    rewrite Hdata in *.
    exists (fl ++ [(h, cur)]). split.
    + constructor; cbn [tb_offset tb_chunks tb_data tb_index tb_pending tb_last_key tb_filter].
      * exact Ho'.
      * reflexivity.
      * apply Forall_app. split.
        -- rewrite Hf. apply stored_forall_app. apply (t2_stored _ _ _ Hinv).
        -- constructor; [|constructor]. cbn [fst snd]. split; [exact Hst|]. split; [exact Hcur|exact Hsz].
      * apply blocks_from_snoc; [apply (t2_from _ _ _ Hinv)| |lia].
        cbn [fst]. rewrite Hh. apply (t2_ends _ _ _ Hinv).
      * apply Forall_app. split.
        -- eapply Forall_impl; [|exact (t2_ends _ _ _ Hinv)]. intros fb Hle. cbn beta in *.
           unfold hend in Hoff. lia.
        -- constructor; [|constructor]. cbn [fst]. lia.
      * split; [reflexivity|]. exists fl, cur. split; [reflexivity|].
        rewrite Hidx. rewrite (firstk_opt_some cur Hcur). reflexivity.
      * rewrite (t2_last _ _ _ Hinv). rewrite concat_map_snd_app. cbn [snd]. rewrite app_nil_r. reflexivity.
      * intros Hf1. rewrite Hf1. rewrite (t2_filter _ _ _ Hinv Hf1).
        rewrite map_app. cbn [map]. change (grp (h, cur)) with (fst h, map fst cur). rewrite Hh.
        rewrite (fold_add_group_snoc fbuild (map grp fl ++ [(tb_offset t, map fst cur)]) (offset', [])).
        unfold fb_add_group at 1. cbn [fst snd fold_left]. reflexivity.
    + rewrite concat_map_snd_app. reflexivity.
Qed.

Lemma tb_add_inv2 : forall t fl cur k v,
  tinv2 t fl cur ->
  exists fl' cur',
    tinv2 (tb_add sep has_filter fbuild compress block_size interval compression t k v) fl' cur' /\
    concat (map snd fl') ++ cur' = (concat (map snd fl) ++ cur) ++ [(k, v)].
Proof.
  intros t fl cur k v Hinv.
  unfold tb_add.
  set (index1 := match tb_pending t with
                 | Some h => bb_add 1 (tb_index t) (sep (tb_last_key t) k) (handle_encode h)
                 | None => tb_index t end).
  set (filter1 := if has_filter then fb_add_key (tb_filter t) k else tb_filter t).
  set (data1 := bb_add interval (tb_data t) k v).
  set (t1 := mk_tb (tb_chunks t) (tb_offset t) data1 index1 k filter1 None).
  assert (H1 : tinv2 t1 fl (cur ++ [(k, v)])).
  { pose proof (t2_pending _ _ _ Hinv) as Hp.
    constructor; unfold t1; cbn [tb_offset tb_chunks tb_data tb_index tb_pending tb_last_key tb_filter].
    - apply (t2_off _ _ _ Hinv).
    - subst data1. rewrite (t2_data _ _ _ Hinv), bb_add_all_snoc. reflexivity.
    - apply (t2_stored _ _ _ Hinv).
    - apply (t2_from _ _ _ Hinv).
    - apply (t2_ends _ _ _ Hinv).
    - split; [|intros Hnil; destruct cur; discriminate].
      subst index1. destruct (tb_pending t) as [hp|] eqn:Ep.
      + destruct Hp as [Hc (fl0 & bes & Hfl & Hidx)]. subst cur. cbn [app firstk_opt fst].
        rewrite Hidx, Hfl, index_of_snoc. cbn [fst snd index_key].
        rewrite bb_add_all_snoc. cbn [fst snd].
        rewrite (t2_last _ _ _ Hinv), Hfl, app_nil_r, concat_map_snd_app. cbn [snd].
        pose proof (t2_stored _ _ _ Hinv) as Hs. rewrite Hfl in Hs.
        apply Forall_app in Hs. destruct Hs as [_ Hs]. inversion Hs as [|? ? (_ & Hne & _) _]; subst.
        cbn [snd] in Hne. rewrite lastk_app by exact Hne. reflexivity.
      + destruct Hp as [Hidx Hnil]. rewrite Hidx.
        destruct cur as [|e cur']; [|reflexivity].
        rewrite (Hnil eq_refl). reflexivity.
    - rewrite app_assoc. symmetry. apply lastk_snoc.
    - intros Hf1. subst filter1. rewrite Hf1. rewrite (t2_filter _ _ _ Hinv Hf1).
      rewrite !fold_add_group_snoc. unfold fb_add_group. cbn [fst snd].
      rewrite map_app, fold_left_app. reflexivity. }
  destruct (block_size <=? bb_estimate data1).
  - destruct (tb_flush_inv2 t1 _ _ H1) as [fl' [Hf Hc]]. exists fl', [].
    split; [exact Hf|]. rewrite app_nil_r, Hc, app_assoc. reflexivity.
  - exists fl, (cur ++ [(k, v)]). split; [exact H1|]. rewrite app_assoc. reflexivity.
Qed.

Lemma tb_add_all_inv2 : forall es t fl cur,
  tinv2 t fl cur ->
  exists fl' cur',
    tinv2 (fold_left (fun t e => tb_add sep has_filter fbuild compress block_size interval compression
                                        t (fst e) (snd e)) es t) fl' cur' /\
    concat (map snd fl') ++ cur' = (concat (map snd fl) ++ cur) ++ es.
Proof.
  induction es as [|[k v] es IH]; intros t fl cur Hinv.
  - cbn [fold_left]. rewrite app_nil_r. eauto.
  - cbn [fold_left fst snd].
    destruct (tb_add_inv2 t fl cur k v Hinv) as (fl1 & cur1 & H' & E1).
    destruct (IH _ _ _ H') as (fl2 & cur2 & H'' & E2).
    exists fl2, cur2. split; [exact H''|]. rewrite E2, E1, <- app_assoc. reflexivity.
Qed.

(* ---- the opened table ---- *)
Record built_table (file : bytes) (es : list entry) (t : table) (bl : list (handle * list entry)) : Prop := {
  bt_es : es = concat (map snd bl);
  bt_nonempty : Forall (fun fb => snd fb <> []) bl;
  bt_from : blocks_from 0 bl;
  bt_file : t_file t = file;
  bt_fsize : t_fsize t = nlen file;
  bt_blocks : forall verify, Forall (fun fb =>
                read_block file (nlen file) verify (fst fb) = Ok (RBok (block_build interval (snd fb)))) bl;
  bt_bsize : Forall (fun fb => nlen (block_build interval (snd fb)) < 4294967296 /\
                               hend (fst fb) <= nlen file) bl;
  bt_index : block_init (block_build 1 (index_of bl None)) = Ok (t_index t);
  bt_isize : nlen (block_build 1 (index_of bl None)) < 4294967296;
  bt_filter : if has_filter
              then exists fr, t_filter t = Some fr /\ fr_ok fr /\
                     forall fb k, In fb bl -> In k (map fst (snd fb)) ->
                       filter_matches fmatch fr (fst (fst fb)) k = Ok true
              else t_filter t = None
}.

Lemma sorted_by_single : forall cmp (e : entry), sorted_by cmp [e].
Proof.
  intros cmp e pre k v mid k' v' post H.
  apply (f_equal (@length entry)) in H. rewrite !app_length in H. cbn [length] in H.
  rewrite app_length in H. cbn [length] in H. lia.
Qed.

Theorem table_build_open : forall paranoid es,
  let file := table_build sep succ has_filter fbuild compress block_size interval compression es in
  wf_bytes file = true -> nlen file < 4294967296 ->
  exists t bl, table_open has_filter paranoid file = Ok (inr t) /\ built_table file es t bl.
Proof.
  intros paranoid es file Hwf Hlen.
  destruct (tb_add_all_inv2 es (tb_empty fbuild) [] [] tinv2_empty) as (fl0 & cur0 & Hinv0 & Hes0).
  cbn [map concat app] in Hes0.
  set (t0 := fold_left (fun t e => tb_add sep has_filter fbuild compress block_size interval compression
                                          t (fst e) (snd e)) es (tb_empty fbuild)) in *.
  destruct (tb_flush_inv2 t0 _ _ Hinv0) as [fl [Hinv Hes1]].
  rewrite Hes0 in Hes1.
  set (t1 := tb_flush has_filter fbuild compress compression t0) in *.
  set (fgroups := map grp fl ++ [(tb_offset t1, [])]).
  set (fblock := filter_block_build fbuild fgroups).
  (* decompose tb_finish *)
  assert (Hfile : exists chunks4 mh ih,
            file = file_of chunks4 ++ footer_encode mh ih /\
            stored_at (file_of chunks4) ih (block_build 1 (index_of fl None)) /\
            (snd ih = nlen (block_build 1 (index_of fl None)) \/
             nlen (block_build 1 (index_of fl None)) < 4294967296) /\
            (exists more, file_of chunks4 = file_of (tb_chunks t1) ++ more) /\
            (if has_filter
             then exists fh, stored_at (file_of chunks4) mh (block_build interval [(FILTER_KEY, handle_encode fh)]) /\
                             (snd mh = nlen (block_build interval [(FILTER_KEY, handle_encode fh)]) \/
                              nlen (block_build interval [(FILTER_KEY, handle_encode fh)]) < 4294967296) /\
                             stored_at (file_of chunks4) fh fblock /\ snd fh = nlen fblock
             else True) /\
            (exists rawm, stored_at (file_of chunks4) mh rawm)).
  { subst file. unfold table_build, tb_finish. fold t0. fold t1.
    set (X2 := if has_filter
               then write_raw_block (tb_chunks t1) (tb_offset t1) (fb_finish fbuild (tb_filter t1)) 0
               else (tb_chunks t1, tb_offset t1, (0, 0))).
    assert (H2 : exists chunks2 offset2 fh more2, X2 = (chunks2, offset2, fh) /\
                   file_of chunks2 = file_of (tb_chunks t1) ++ more2 /\ offset2 = nlen (file_of chunks2) /\
                   (has_filter = true -> stored_at (file_of chunks2) fh fblock /\ snd fh = nlen fblock)).
    { subst X2. destruct has_filter eqn:Ehf.
      - destruct (write_raw_block (tb_chunks t1) (tb_offset t1) (fb_finish fbuild (tb_filter t1)) 0)
          as [[c2 o2] fh] eqn:E.
        destruct (write_raw_stored _ _ _ _ _ _ E (t2_off _ _ _ Hinv)) as (A & B & Hh & _ & St).
        exists c2, o2, fh. eexists. split; [reflexivity|]. split; [exact A|]. split; [exact B|].
        intros _. rewrite (t2_filter _ _ _ Hinv Ehf) in St, Hh. split; [exact St|].
        rewrite Hh. reflexivity.
      - exists (tb_chunks t1), (tb_offset t1), (0, 0), []. split; [reflexivity|].
        rewrite app_nil_r. split; [reflexivity|]. split; [apply (t2_off _ _ _ Hinv)|discriminate]. }
    destruct H2 as (chunks2 & offset2 & fh & more2 & -> & Hf2 & Ho2 & Hst2).
    set (meta := if has_filter then bb_add interval bb_empty FILTER_KEY (handle_encode fh) else bb_empty).
    destruct (write_block compress compression chunks2 offset2 meta) as [[chunks3 offset3] mh] eqn:E3.
    destruct (write_block_stored _ _ _ _ _ _ E3 Ho2) as ([more3 Hf3] & Ho3 & _ & _ & Hst3 & Hsz3).
    set (index1 := match tb_pending t1 with
                   | Some h => bb_add 1 (tb_index t1) (succ (tb_last_key t1)) (handle_encode h)
                   | None => tb_index t1 end).
    destruct (write_block compress compression chunks3 offset3 index1) as [[chunks4 offset4] ih] eqn:E4.
    destruct (write_block_stored _ _ _ _ _ _ E4 Ho3) as ([more4 Hf4] & Ho4 & _ & _ & Hst4 & Hsz4).
    assert (Hidx : index1 = bb_add_all 1 bb_empty (index_of fl None)).
    { subst index1. pose proof (t2_pending _ _ _ Hinv) as Hp.
      destruct (tb_pending t1) as [hp|].
      - destruct Hp as [_ (fl' & bes & Hfl & Hidx)].
        rewrite Hidx, Hfl, index_of_snoc, bb_add_all_snoc. cbn [fst snd index_key].
        rewrite (t2_last _ _ _ Hinv), Hfl, app_nil_r, concat_map_snd_app. cbn [snd].
        pose proof (t2_stored _ _ _ Hinv) as Hs. rewrite Hfl in Hs.
        apply Forall_app in Hs. destruct Hs as [_ Hs]. inversion Hs as [|? ? (_ & Hne & _) _]; subst.
        cbn [snd] in Hne. rewrite lastk_app by exact Hne. reflexivity.
      - destruct Hp as [Hidx Hnil]. rewrite Hidx, (Hnil eq_refl). reflexivity. }
    exists chunks4, mh, ih.
    split; [exact (file_of_cons _ _)|].
    split; [rewrite Hidx in Hst4; exact Hst4|].
    split; [rewrite Hidx in Hsz4; exact Hsz4|].
    split.
    { exists (more2 ++ more3 ++ more4).
      rewrite Hf4, Hf3, Hf2, <- !app_assoc. reflexivity. }
    split.
    { destruct has_filter eqn:Ehf; [|exact Logic.I].
      destruct (Hst2 eq_refl) as [Hst2a Hst2b].
      exists fh. split; [|split; [|split]].
      - rewrite Hf4. apply stored_at_app. exact Hst3.
      - exact Hsz3.
      - rewrite Hf4, Hf3. apply stored_at_app. apply stored_at_app. exact Hst2a.
      - exact Hst2b. }
    eexists. rewrite Hf4. apply stored_at_app. exact Hst3. }
  destruct Hfile as (chunks4 & mh & ih & Hfile & Hsti & Hisz & [more Hmore] & Hmeta & [rawm Hstm]).
  clearbody file.
  assert (Hlen64 : nlen file < 18446744073709551616) by lia.
  assert (Hsti' : stored_at file ih (block_build 1 (index_of fl None))) by (rewrite Hfile; apply stored_at_app; exact Hsti).
  assert (Hstm' : stored_at file mh rawm) by (rewrite Hfile; apply stored_at_app; exact Hstm).
  pose proof (stored_at_bound _ _ _ Hsti') as Hbi. pose proof (stored_at_bound _ _ _ Hstm') as Hbm.
  assert (Hfoot : nlen (footer_encode mh ih) = 48) by (apply footer_encode_length; lia).
  assert (Hes_eq : es = concat (map snd fl)).
  { symmetry. exact Hes1. }
  assert (Hblocks : Forall (fun fb => stored_at file (fst fb) (block_build interval (snd fb)) /\ snd fb <> []
                    /\ (snd (fst fb) = nlen (block_build interval (snd fb)) \/
                        nlen (block_build interval (snd fb)) < 4294967296)) fl).
  { rewrite Hfile, Hmore, <- app_assoc. apply stored_forall_app. apply (t2_stored _ _ _ Hinv). }
  (* table_open *)
  unfold table_open.
  assert (Hsz : nlen file = nlen (file_of chunks4) + 48) by (rewrite Hfile, nlen_app, Hfoot; reflexivity).
  unfold FOOTER_SIZE. replace (nlen file <? 48) with false by lia.
  rewrite slice_ok by (auto; lia). cbn [rbind].
  assert (Hfooter : take_n 48 (drop_n (nlen file - 48) file) = footer_encode mh ih).
  { rewrite Hfile at 2. rewrite drop_n_app_exact by lia.
    rewrite <- (app_nil_r (footer_encode mh ih)) at 1. apply take_n_app_exact. symmetry. exact Hfoot. }
  rewrite Hfooter. rewrite footer_decode_encode by lia. cbn [rbind].
  rewrite (read_block_stored file ih _ paranoid Hsti' Hwf Hlen64). cbn [rbind].
  destruct (block_init_ok (block_build 1 (index_of fl None))) as [blk (Hblk & _ & Hdata)].
  rewrite Hblk. cbn [rbind].
  (* the filter *)
  assert (Hflt : exists flt, table_read_meta has_filter file (nlen file) paranoid mh = Ok flt /\
            (if has_filter
             then exists fr, flt = Some fr /\ fr_ok fr /\
                    forall fb k, In fb fl -> In k (map fst (snd fb)) ->
                      filter_matches fmatch fr (fst (fst fb)) k = Ok true
             else flt = None)).
  { unfold table_read_meta. destruct has_filter eqn:Ehf; cbn [negb]; [|exists None; auto].
    destruct Hmeta as (fh & Hstmh & Hmsz & Hstfh & Hfsz).
    assert (Hstmh' : stored_at file mh (block_build interval [(FILTER_KEY, handle_encode fh)]))
      by (rewrite Hfile; apply stored_at_app; exact Hstmh).
    assert (Hstfh' : stored_at file fh fblock) by (rewrite Hfile; apply stored_at_app; exact Hstfh).
    pose proof (stored_at_bound _ _ _ Hstfh') as Hbf.
    rewrite (read_block_stored file mh _ paranoid Hstmh' Hwf Hlen64). cbn [rbind].
    pose proof (handle_encode_length fh ltac:(lia) ltac:(lia)) as Hhl.
    set (mes := [(FILTER_KEY, handle_encode fh)]) in *.
    destruct (block_build_cursor false interval mes) as (mblk & mit0 & Hmi & Hmc & Hcur0).
    { split; [|cbn; lia]. constructor; [|constructor]. split; cbn [fst snd]; [cbn; lia|lia]. }
    { intros H; discriminate. }
    { lia. }
    rewrite Hmi. cbn [rbind]. rewrite Hmc. cbn [rbind].
    destruct (bcur_seek bytes_compare false interval mes (sorted_by_single _ _) bytes_compare_lt_trans
                ltac:(intros x y z H1 H2; apply bytes_compare_eq_iff in H2; subst; exact H1)
                FILTER_KEY mit0 None Hcur0 ltac:(intros H; discriminate)) as (mit1 & Hseek & Hcur1).
    rewrite Hseek. cbn [rbind].
    assert (Href : ref_seek bytes_compare mes FILTER_KEY = Some ([], (FILTER_KEY, handle_encode fh), [])).
    { unfold ref_seek, mes. cbn [split_lt fst]. rewrite bytes_compare_refl. reflexivity. }
    rewrite Href in Hcur1.
    rewrite (bcur_valid_some _ _ _ _ _ _ _ Hcur1).
    destruct (bcur_key_value _ _ _ _ _ _ _ Hcur1) as (_ & Hk & Hv). cbn [fst snd] in Hk, Hv.
    rewrite Hk, bytes_eqb_refl. cbn [andb]. rewrite Hv. cbn [rbind].
    unfold table_read_filter. rewrite <- (app_nil_r (handle_encode fh)).
    rewrite handle_decode_encode by lia.
    rewrite (read_block_stored file fh _ paranoid Hstfh' Hwf Hlen64). cbn [rbind].
    destruct (filter_init_ok fblock) as [fr [Hfi Hfrok]]. rewrite Hfi. cbn [rbind].
    exists (Some fr). split; [reflexivity|]. exists fr. split; [reflexivity|]. split; [exact Hfrok|].
    intros fb k Hfb Hk'.
    assert (Hm : filter_block_matches fmatch fblock (fst (fst fb)) k = Ok true).
    { apply (filter_block_no_false_negative fbuild fmatch policy_sound fgroups (fst (fst fb)) (map fst (snd fb)) k).
      - apply (groups_sorted_blocks fl 0 0 (tb_offset t1)); [apply (t2_from _ _ _ Hinv)|cbn; lia|lia|apply (t2_ends _ _ _ Hinv)].
      - fold fblock. lia.
      - unfold fgroups. apply in_or_app. left. apply (in_map grp) in Hfb. exact Hfb.
      - exact Hk'. }
    unfold filter_block_matches in Hm. rewrite Hfi in Hm. cbn [rbind] in Hm. exact Hm. }
  destruct Hflt as (flt & Hrm & Hfltspec). rewrite Hrm. cbn [rbind].
  eexists. exists fl. split; [reflexivity|].
  constructor; cbn [t_file t_fsize t_index t_filter].
  - exact Hes_eq.
  - eapply Forall_impl; [|exact Hblocks]. intros fb (_ & A & _). exact A.
  - apply (t2_from _ _ _ Hinv).
  - reflexivity.
  - reflexivity.
  - intros verify. eapply Forall_impl; [|exact Hblocks]. intros fb (A & _ & _).
    apply (read_block_stored file (fst fb) _ verify A Hwf Hlen64).
  - eapply Forall_impl; [|exact Hblocks]. intros fb (A & _ & C).
    pose proof (stored_at_bound _ _ _ A). unfold hend. lia.
  - exact Hblk.
  - lia.
  - exact Hfltspec.
Qed.

End Build.

(* ------------------------------------------------------------------ *)
(* comparators: order axioms and separator contracts                   *)
(* ------------------------------------------------------------------ *)
Record cmp_order (cmp : bytes -> bytes -> comparison) : Prop := {
  co_antisym : forall x y, cmp x y = CompOpp (cmp y x);
  co_lt_trans : forall x y z, cmp x y = Lt -> cmp y z = Lt -> cmp x z = Lt;
  co_lt_eq : forall x y z, cmp x y = Lt -> cmp y z = Eq -> cmp x z = Lt;
  co_eq_lt : forall x y z, cmp x y = Eq -> cmp y z = Lt -> cmp x z = Lt
}.

Definition sep_contract (cmp : bytes -> bytes -> comparison) (sep : bytes -> bytes -> bytes) : Prop :=
  forall a b, cmp a b = Lt -> cmp a (sep a b) <> Gt /\ cmp (sep a b) b = Lt.
Definition succ_contract (cmp : bytes -> bytes -> comparison) (succ : bytes -> bytes) : Prop :=
  forall a, cmp a (succ a) <> Gt.

Section Order.
Variable cmp : bytes -> bytes -> comparison.
Hypothesis Hord : cmp_order cmp.

Lemma co_refl : forall x, cmp x x = Eq.
Proof.
  intros x. pose proof (co_antisym _ Hord x x) as H. destruct (cmp x x); cbn in H; congruence.
Qed.

Lemma co_gt_lt : forall x y, cmp x y = Gt -> cmp y x = Lt.
Proof. intros x y H. rewrite (co_antisym _ Hord y x), H. reflexivity. Qed.

Lemma co_lt_gt : forall x y, cmp x y = Lt -> cmp y x = Gt.
Proof. intros x y H. rewrite (co_antisym _ Hord y x), H. reflexivity. Qed.

Lemma co_eq_sym : forall x y, cmp x y = Eq -> cmp y x = Eq.
Proof. intros x y H. rewrite (co_antisym _ Hord y x), H. reflexivity. Qed.

Lemma co_le_lt : forall x y z, cmp x y <> Gt -> cmp y z = Lt -> cmp x z = Lt.
Proof.
  intros x y z H1 H2. destruct (cmp x y) eqn:E; [|  |congruence].
  - eapply co_eq_lt; eauto.
  - eapply co_lt_trans; eauto.
Qed.

Lemma co_lt_le : forall x y z, cmp x y = Lt -> cmp y z <> Gt -> cmp x z = Lt.
Proof.
  intros x y z H1 H2. destruct (cmp y z) eqn:E; [| |congruence].
  - eapply co_lt_eq; eauto.
  - eapply co_lt_trans; eauto.
Qed.

Lemma co_le_trans : forall x y z, cmp x y <> Gt -> cmp y z <> Gt -> cmp x z <> Gt.
Proof.
  intros x y z H1 H2 H3. apply co_gt_lt in H3.
  (* z < x <= y  gives z < y, contradicting y <= z *)
  pose proof (co_lt_le _ _ _ H3 H1) as H4. apply co_lt_gt in H4. congruence.
Qed.

Lemma co_not_lt_ge : forall x y, cmp x y <> Lt -> cmp y x <> Gt.
Proof. intros x y H H1. apply co_gt_lt in H1. congruence. Qed.

Lemma co_lt_not_ge : forall x y, cmp x y = Lt -> cmp y x <> Lt.
Proof. intros x y H H1. apply co_lt_gt in H. congruence. Qed.

(* the index entries and the data blocks: every index key is >= the keys of its block
   and < the keys of all later blocks *)
Inductive index_rel : list entry -> list (handle * list entry) -> Prop :=
| ir_nil : index_rel [] []
| ir_cons : forall s h bes idx bl,
    (forall e, In e bes -> cmp (fst e) s <> Gt) ->
    (forall e, In e (concat (map snd bl)) -> cmp s (fst e) = Lt) ->
    index_rel idx bl ->
    index_rel ((s, handle_encode h) :: idx) ((h, bes) :: bl).

Lemma index_rel_length : forall idx bl, index_rel idx bl -> length idx = length bl.
Proof. induction 1; cbn [length]; congruence. Qed.

(* facts at a position of the index *)
Record isplit (ipre : list entry) (x : entry) (ipost : list entry)
              (bpre : list (handle * list entry)) (h : handle) (bes : list entry)
              (bpost : list (handle * list entry)) : Prop := {
  is_val : snd x = handle_encode h;
  is_len : length bpre = length ipre;
  is_ge : forall e, In e bes -> cmp (fst e) (fst x) <> Gt;
  is_lt : forall e, In e (concat (map snd bpost)) -> cmp (fst x) (fst e) = Lt;
  is_pre_ge : forall e, In e (concat (map snd bpre)) -> exists y, In y ipre /\ cmp (fst e) (fst y) <> Gt;
  is_pre_lt : forall y e, In y ipre -> In e (bes ++ concat (map snd bpost)) -> cmp (fst y) (fst e) = Lt;
  is_post : index_rel ipost bpost
}.

Lemma index_rel_split : forall ipre x ipost idx bl,
  index_rel idx bl -> idx = ipre ++ x :: ipost ->
  exists bpre h bes bpost, bl = bpre ++ (h, bes) :: bpost /\ isplit ipre x ipost bpre h bes bpost.
Proof.
  induction ipre as [|y ipre IH]; intros x ipost idx bl Hrel Hidx.
  - cbn [app] in Hidx. subst idx. inversion Hrel as [|s h bes idx' bl' A B C]; subst.
    exists [], h, bes, bl'. split; [reflexivity|].
    constructor; cbn [fst snd map concat length]; auto.
    + intros e [].
    + intros y e [].
  - cbn [app] in Hidx. subst idx. inversion Hrel as [|s h bes idx' bl' A B C]; subst.
    destruct (IH x ipost _ _ C eq_refl) as (bpre & h' & bes' & bpost & Hbl & S).
    exists ((h, bes) :: bpre), h', bes', bpost. split; [rewrite Hbl; reflexivity|].
    constructor.
    + apply (is_val _ _ _ _ _ _ _ S).
    + cbn [length]. rewrite (is_len _ _ _ _ _ _ _ S). reflexivity.
    + apply (is_ge _ _ _ _ _ _ _ S).
    + apply (is_lt _ _ _ _ _ _ _ S).
    + intros e He. cbn [map concat snd] in He. apply in_app_or in He. destruct He as [He|He].
      * exists (s, handle_encode h). split; [left; reflexivity|]. cbn [fst]. apply A. exact He.
      * destruct (is_pre_ge _ _ _ _ _ _ _ S e He) as [y [Y1 Y2]]. exists y. split; [right; exact Y1|exact Y2].
    + intros y e [<-|Hy] He.
      * cbn [fst]. apply B. rewrite Hbl, map_app, concat_app. apply in_or_app. right.
        cbn [map concat snd]. exact He.
      * apply (is_pre_lt _ _ _ _ _ _ _ S y e Hy He).
    + apply (is_post _ _ _ _ _ _ _ S).
Qed.

Lemma app_inj_len : forall (A : Type) (a a' b b' : list A),
  length a = length a' -> a ++ b = a' ++ b' -> a = a' /\ b = b'.
Proof.
  induction a as [|x a IH]; intros [|x' a'] b b' Hl H; try discriminate Hl; cbn [app] in *.
  - auto.
  - inversion H; subst. destruct (IH a' b b' ltac:(cbn in Hl; lia) H2) as [-> ->]. auto.
Qed.

Lemma index_rel_split_block : forall bpre h bes bpost idx bl,
  index_rel idx bl -> bl = bpre ++ (h, bes) :: bpost ->
  exists ipre x ipost, idx = ipre ++ x :: ipost /\ isplit ipre x ipost bpre h bes bpost.
Proof.
  intros bpre h bes bpost idx bl Hrel Hbl.
  pose proof (index_rel_length _ _ Hrel) as Hlen.
  set (n := length bpre).
  assert (Hn : (n < length idx)%nat).
  { rewrite Hlen, Hbl, app_length. cbn [length]. lia. }
  destruct (skipn n idx) as [|x ipost] eqn:Es.
  { apply (f_equal (@length entry)) in Es. rewrite skipn_length in Es. cbn in Es. lia. }
  assert (Hidx : idx = firstn n idx ++ x :: ipost) by (rewrite <- Es; symmetry; apply firstn_skipn).
  destruct (index_rel_split _ _ _ _ _ Hrel Hidx) as (bpre' & h' & bes' & bpost' & Hbl' & S).
  assert (Hl : length bpre = length bpre').
  { rewrite (is_len _ _ _ _ _ _ _ S), firstn_length. lia. }
  rewrite Hbl in Hbl'. destruct (app_inj_len _ _ _ _ _ Hl Hbl') as [E1 E2].
  inversion E2; subst bpre' h' bes' bpost'.
  exists (firstn n idx), x, ipost. auto.
Qed.

Lemma index_rel_sorted : forall idx bl,
  index_rel idx bl -> Forall (fun fb => snd fb <> []) bl -> sorted_by cmp idx.
Proof.
  intros idx bl Hrel Hne pre k v mid k' v' post Hidx.
  destruct (index_rel_split _ _ _ _ _ Hrel Hidx) as (bpre & h & bes & bpost & Hbl & S).
  destruct (index_rel_split mid (k', v') post _ _ (is_post _ _ _ _ _ _ _ S) eq_refl)
    as (b2pre & h' & bes' & b2post & Hbl2 & S2).
  assert (Hne' : bes' <> []).
  { rewrite Forall_forall in Hne. apply (Hne (h', bes')). rewrite Hbl, Hbl2.
    apply in_or_app. right. right. apply in_or_app. right. left. reflexivity. }
  destruct bes' as [|e bes']; [congruence|].
  pose proof (is_ge _ _ _ _ _ _ _ S2 e (or_introl eq_refl)) as H1. cbn [fst] in H1.
  pose proof (is_lt _ _ _ _ _ _ _ S e) as H2. cbn [fst] in H2.
  apply (co_lt_le k (fst e) k'); [|exact H1].
  apply H2. rewrite Hbl2, map_app, concat_app. apply in_or_app. right.
  cbn [map concat snd]. left. reflexivity.
Qed.

(* ---- from the separators to index_rel ---- *)
Variable sep : bytes -> bytes -> bytes.
Variable succ : bytes -> bytes.
Hypothesis Hsep : sep_contract cmp sep.
Hypothesis Hsucc : succ_contract cmp succ.

Lemma lt_not_gt : forall c : comparison, c = Lt -> c <> Gt.
Proof. intros c ->. discriminate. Qed.

Lemma in_le_lastk : forall l e, sorted_by cmp l -> In e l -> cmp (fst e) (lastk l) <> Gt.
Proof.
  intros l e Hs Hin.
  destruct l as [|x l]; [destruct Hin|].
  assert (Hl : x :: l <> []) by discriminate.
  rewrite (app_removelast_last ([], []) Hl) in Hin, Hs.
  unfold lastk. set (la := last (x :: l) ([], [])) in *.
  apply in_app_or in Hin. destruct Hin as [Hin|[<-|[]]].
  - apply lt_not_gt. exact (sorted_by_cross cmp _ _ e la Hs Hin (or_introl eq_refl)).
  - rewrite co_refl. discriminate.
Qed.

Lemma firstk_le_in : forall l e, sorted_by cmp l -> In e l -> cmp (firstk l) (fst e) <> Gt.
Proof.
  intros l e Hs Hin. destruct l as [|x l]; [destruct Hin|].
  unfold firstk. cbn [hd]. destruct Hin as [<-|Hin].
  - rewrite co_refl. discriminate.
  - change (x :: l) with ([x] ++ l) in Hs.
    apply lt_not_gt. exact (sorted_by_cross cmp _ _ x e Hs (or_introl eq_refl) Hin).
Qed.

Lemma lastk_in : forall l, l <> [] -> exists e, In e l /\ fst e = lastk l.
Proof.
  intros l Hl. exists (last l ([], [])). split; [|reflexivity].
  rewrite (app_removelast_last ([], []) Hl) at 2. apply in_or_app. right. left. reflexivity.
Qed.

Lemma firstk_in : forall l, l <> [] -> exists e, In e l /\ fst e = firstk l.
Proof. intros [|x l] Hl; [congruence|]. exists x. split; [left; reflexivity|reflexivity]. Qed.

Theorem index_of_rel : forall bl nxt,
  Forall (fun fb => snd fb <> []) bl ->
  sorted_by cmp (concat (map snd bl)) ->
  (forall k, nxt = Some k -> forall e, In e (concat (map snd bl)) -> cmp (fst e) k = Lt) ->
  index_rel (index_of sep succ bl nxt) bl.
Proof.
  induction bl as [|[h bes] bl IH]; intros nxt Hne Hs Hnxt; cbn [index_of]; [constructor|].
  inversion Hne as [|? ? Hbes Hne']; subst. cbn [snd fst] in *.
  cbn [map concat snd] in Hs, Hnxt.
  assert (Hsb : sorted_by cmp bes) by (eapply sorted_by_app_l; exact Hs).
  assert (Hsl : sorted_by cmp (concat (map snd bl))) by (eapply sorted_by_app_r; exact Hs).
  destruct (lastk_in bes Hbes) as [el [Hel1 Hel2]].
  constructor.
  - (* the index key is >= every key of the block *)
    intros e He. apply (co_le_trans (fst e) (lastk bes)); [apply in_le_lastk; assumption|].
    unfold index_key. destruct (next_first bl nxt) as [k'|] eqn:En; [|apply Hsucc].
    apply Hsep. rewrite <- Hel2.
    destruct bl as [|[h1 b1] bl1]; cbn [next_first] in En.
    + apply (Hnxt k' En). apply in_or_app. left. exact Hel1.
    + inversion En; subst k'. inversion Hne' as [|? ? Hb1 _]; subst. cbn [snd] in Hb1.
      destruct (firstk_in b1 Hb1) as [ef [Hef1 Hef2]]. rewrite <- Hef2.
      apply (sorted_by_cross cmp _ _ el ef Hs Hel1). cbn [map concat snd]. apply in_or_app. left. exact Hef1.
  - (* ... and < every key of the later blocks *)
    intros e He. destruct bl as [|[h1 b1] bl1]; [destruct He|].
    cbn [next_first index_key snd].
    inversion Hne' as [|? ? Hb1 _]; subst. cbn [snd] in Hb1.
    destruct (firstk_in b1 Hb1) as [ef [Hef1 Hef2]].
    assert (Hlt : cmp (lastk bes) (firstk b1) = Lt).
    { rewrite <- Hel2, <- Hef2. apply (sorted_by_cross cmp _ _ el ef Hs Hel1).
      cbn [map concat snd]. apply in_or_app. left. exact Hef1. }
    destruct (Hsep _ _ Hlt) as [_ H2].
    apply (co_lt_le _ (firstk b1)); [exact H2|].
    cbn [map concat snd] in He, Hsl. apply in_app_or in He. destruct He as [He|He].
    + apply firstk_le_in; [eapply sorted_by_app_l; exact Hsl|exact He].
    + rewrite <- Hef2. apply lt_not_gt. exact (sorted_by_cross cmp _ _ ef e Hsl Hef1 He).
  - apply IH; auto. intros k Hk e He. apply (Hnxt k Hk). apply in_or_app. right. exact He.
Qed.

End Order.

(* ------------------------------------------------------------------ *)
(* the two lcdb comparators                                            *)
(* ------------------------------------------------------------------ *)
Lemma bytes_order : cmp_order bytes_compare.
Proof.
  constructor.
  - apply bytes_compare_antisym.
  - apply bytes_compare_lt_trans.
  - intros x y z H1 H2. apply bytes_compare_eq_iff in H2. subst. exact H1.
  - intros x y z H1 H2. apply bytes_compare_eq_iff in H1. subst. exact H2.
Qed.

Lemma tbl_sep_eq : forall a b, tbl_sep a b = shortest_separator a b.
Proof.
  intros. reflexivity.
Qed.

Lemma tbl_succ_eq : forall a, tbl_succ a = short_successor a.
Proof. intros. reflexivity. Qed.

Lemma bytes_sep_contract : sep_contract bytes_compare tbl_sep.
Proof.
  intros a b H. rewrite tbl_sep_eq. destruct (shortest_separator_contract a b H) as [A B].
  unfold bytes_leb, bytes_ltb in *. split.
  - intros G. rewrite G in A. discriminate.
  - destruct (bytes_compare (shortest_separator a b) b); congruence.
Qed.

Lemma bytes_succ_contract : succ_contract bytes_compare tbl_succ.
Proof.
  intros a. rewrite tbl_succ_eq. pose proof (short_successor_contract a) as A.
  unfold bytes_leb in A. intros G. rewrite G in A. discriminate.
Qed.

Lemma tbl_user_key_eq : forall k, tbl_user_key k = ikey_user k.
Proof.
  intros k. unfold tbl_user_key, ikey_user, take_n, nlen. f_equal. lia.
Qed.

Lemma tbl_tag_eq : forall k, tbl_tag k = ikey_tag k.
Proof.
  intros k. unfold tbl_tag, ikey_tag, drop_n, nlen.
  replace (N.to_nat (N.of_nat (length k) - 8)) with (length k - 8)%nat by lia. reflexivity.
Qed.

Lemma tbl_ikey_compare_eq : forall a b, tbl_ikey_compare a b = ikey_compare a b.
Proof. intros. unfold tbl_ikey_compare, ikey_compare. rewrite !tbl_user_key_eq, !tbl_tag_eq. reflexivity. Qed.

Lemma ikey_order : cmp_order tbl_ikey_compare.
Proof.
  constructor.
  - intros x y. rewrite !tbl_ikey_compare_eq. apply ikey_compare_antisym.
  - apply tbl_ikey_compare_lt_trans.
  - apply tbl_ikey_compare_lt_eq.
  - intros x y z. unfold tbl_ikey_compare.
    destruct (bytes_compare (tbl_user_key x) (tbl_user_key y)) eqn:E1; intros H1 H2; try discriminate.
    apply bytes_compare_eq_iff in E1. apply N.compare_eq_iff in H1.
    rewrite E1, <- H1. exact H2.
Qed.

Lemma tbl_seek_tag_eq : tbl_seek_tag = seek_tag.
Proof. reflexivity. Qed.

Lemma tbl_isep_eq : forall a b, tbl_isep a b = ikc_shortest_separator a b.
Proof.
  intros. unfold tbl_isep, ikc_shortest_separator.
  rewrite !tbl_user_key_eq, tbl_sep_eq, tbl_seek_tag_eq. reflexivity.
Qed.

Lemma tbl_isucc_eq : forall a, tbl_isucc a = ikc_short_successor a.
Proof.
  intros. unfold tbl_isucc, ikc_short_successor.
  rewrite !tbl_user_key_eq, tbl_succ_eq, tbl_seek_tag_eq. reflexivity.
Qed.

Lemma ikey_sep_contract : sep_contract tbl_ikey_compare tbl_isep.
Proof.
  intros a b H. rewrite tbl_isep_eq, !tbl_ikey_compare_eq. rewrite tbl_ikey_compare_eq in H.
  apply ikc_shortest_separator_contract. exact H.
Qed.

Lemma ikey_succ_contract : succ_contract tbl_ikey_compare tbl_isucc.
Proof.
  intros a. rewrite tbl_isucc_eq, tbl_ikey_compare_eq. apply ikc_short_successor_contract.
Qed.
