(* TableGetProofs.v -- ldb_table_internal_get on a built table (any compression function
   that the Snappy decoder inverts; table file below 4 GiB):
   - the call never fails (status OK, no out-of-bounds access);
   - a key that is in the table is found, with its value, whatever the filter;
   - for any key, the entry handed to the caller is either nothing or THE successor of
     the key in the entry list (the first entry whose key is not below the target):
     never another entry.  "Nothing" for a key that has a successor happens when the
     filter rejects the key, or when the key falls between the last key of a block and
     the (shortened) index separator of that block.
   The index seek lands on the right block because the separator stored for block i is
   >= every key of block i and < every key of the later blocks (TableIndexProofs). *)
From LCDB Require Import Base Varint Crc32c Block Trie Filter Snappy TableFormat.
From LCDB Require Import BaseProofs VarintProofs Crc32cProofs BlockProofs BlockIterProofs BlockSeekProofs
  FilterProofs FilterBlockProofs SnappyProofs TableProofs TableBuildProofs BlockCursorProofs TableIndexProofs.
Require Import Lia ZifyBool ZifyNat ZifyN.
Ltac Zify.zify_post_hook ::= Z.div_mod_to_equations.
Local Open Scope N_scope.

(* ---- the reference seek ---- *)
Lemma ref_seek_some : forall cmp l k pre e post,
  ref_seek cmp l k = Some (pre, e, post) ->
  l = pre ++ e :: post /\ Forall (fun x => cmp (fst x) k = Lt) pre /\ cmp (fst e) k <> Lt.
Proof.
  intros cmp l k pre e post H. unfold ref_seek in H.
  destruct (split_lt_spec cmp k l) as (A & B & C).
  destruct (snd (split_lt cmp k l)) as [|e' post'] eqn:E; [discriminate|].
  inversion H; subst. auto.
Qed.

Lemma ref_seek_none : forall cmp l k,
  ref_seek cmp l k = None -> Forall (fun x => cmp (fst x) k = Lt) l.
Proof.
  intros cmp l k H. unfold ref_seek in H.
  destruct (split_lt_spec cmp k l) as (A & B & C).
  destruct (snd (split_lt cmp k l)) as [|e' post'] eqn:E; [|discriminate].
  rewrite app_nil_r in A. rewrite A. exact B.
Qed.

Lemma in_concat_split : forall (bl : list (handle * list entry)) e,
  In e (concat (map snd bl)) ->
  exists bpre h bes bpost, bl = bpre ++ (h, bes) :: bpost /\ In e bes.
Proof.
  induction bl as [|[h bes] bl IH]; intros e Hin; [destruct Hin|].
  cbn [map concat snd] in Hin. apply in_app_or in Hin. destruct Hin as [Hin|Hin].
  - exists [], h, bes, bl. auto.
  - destruct (IH e Hin) as (bpre & h' & bes' & bpost & -> & Hin').
    exists ((h, bes) :: bpre), h', bes', bpost. auto.
Qed.

Lemma concat_blocks_split : forall (bpre : list (handle * list entry)) h bes bpost,
  concat (map snd (bpre ++ (h, bes) :: bpost))
  = concat (map snd bpre) ++ bes ++ concat (map snd bpost).
Proof. intros. rewrite map_app, concat_app. reflexivity. Qed.

(* the filter reader looks at the key only through the policy *)
Lemma filter_matches_ext : forall fmatch fr off k k',
  (forall f, fmatch f k = fmatch f k') ->
  filter_matches fmatch fr off k = filter_matches fmatch fr off k'.
Proof.
  intros fmatch fr off k k' H. unfold filter_matches.
  destruct (off / 2 ^ fr_base_lg fr <? fr_num fr); [|reflexivity].
  destruct (read32 (fr_data fr) (fr_size fr) (fr_offset fr + off / 2 ^ fr_base_lg fr * 4)) as [a|]; [|reflexivity].
  cbn [rbind].
  destruct (read32 (fr_data fr) (fr_size fr) (fr_offset fr + off / 2 ^ fr_base_lg fr * 4 + 4)) as [b|]; [|reflexivity].
  cbn [rbind].
  destruct ((a <=? b) && (b <=? fr_offset fr)); [|reflexivity].
  destruct (slice (fr_data fr) (fr_size fr) a (b - a)) as [f|]; [|reflexivity].
  cbn [rbind]. apply H.
Qed.

Lemma length_blocks_le' : forall (fl : list (handle * list entry)),
  Forall (fun fb => snd fb <> []) fl -> (length fl <= length (concat (map snd fl)))%nat.
Proof.
  induction fl as [|fb fl IH]; intros H; [cbn; lia|].
  inversion H; subst. cbn [map concat length]. rewrite app_length.
  destruct (snd fb); [congruence|]. cbn [length]. specialize (IH H3). lia.
Qed.

Lemma in_block_len' : forall (fl : list (handle * list entry)) fb,
  In fb fl -> nlen (snd fb) <= nlen (concat (map snd fl)).
Proof.
  induction fl as [|x fl IH]; intros fb Hin; [destruct Hin|].
  cbn [map concat]. rewrite nlen_app. destruct Hin as [->|Hin]; [lia|].
  specialize (IH fb Hin). lia.
Qed.

Section Get.
Variable cmp : bytes -> bytes -> comparison.
Variable isint : bool.
Variable sep : bytes -> bytes -> bytes.
Variable succ : bytes -> bytes.
Variable has_filter : bool.
Variable fbuild : list bytes -> bytes.
Variable fmatch : bytes -> bytes -> res bool.
Variable interval : N.
Hypothesis Hord : cmp_order cmp.
Hypothesis Hsep : sep_contract cmp sep.
Hypothesis Hsucc : succ_contract cmp succ.

(* data keys satisfy dkey; the comparator hooks keep index keys usable (as in TableBuildProofs) *)
Variable dkey : bytes -> Prop.
Hypothesis Hdkey : forall k, dkey k -> ikeyok isint k.
Hypothesis Hsepok : forall a b, dkey a -> ikeyok isint (sep a b).
Hypothesis Hsuccok : forall a, dkey a -> ikeyok isint (succ a).

Definition eok (e : entry) : Prop := wf_entry e /\ dkey (fst e).

Variable file : bytes.
Variable es : list entry.
Variable t : table.
Variable bl : list (handle * list entry).
Hypothesis Hbt : built_table sep succ has_filter fmatch interval file es t bl.
Hypothesis Hes : Forall eok es.
Hypothesis Hcount : nlen es + 1 < 4294967296.
Hypothesis Hsorted : sorted_by cmp es.
Hypothesis Hlen : nlen file < 4294967296.

Let idx : list entry := index_of sep succ bl None.

Lemma Hlt_trans : forall x y z, cmp x y = Lt -> cmp y z = Lt -> cmp x z = Lt.
Proof. exact (co_lt_trans _ Hord). Qed.
Lemma Hlt_eq : forall x y z, cmp x y = Lt -> cmp y z = Eq -> cmp x z = Lt.
Proof. exact (co_lt_eq _ Hord). Qed.

Lemma block_in_es : forall fb e, In fb bl -> In e (snd fb) -> In e es.
Proof.
  intros fb e Hfb He. rewrite (bt_es _ _ _ _ _ _ _ _ _ Hbt).
  apply in_concat. exists (snd fb). split; [apply in_map; exact Hfb|exact He].
Qed.

Lemma block_eok : forall fb, In fb bl -> Forall eok (snd fb).
Proof.
  intros fb Hfb. apply Forall_forall. intros e He.
  rewrite Forall_forall in Hes. apply Hes. eapply block_in_es; eauto.
Qed.

Lemma block_sorted : forall bpre h bes bpost, bl = bpre ++ (h, bes) :: bpost -> sorted_by cmp bes.
Proof.
  intros bpre h bes bpost Hbl. pose proof Hsorted as Hs.
  rewrite (bt_es _ _ _ _ _ _ _ _ _ Hbt), Hbl, concat_blocks_split in Hs.
  eapply sorted_by_mid. exact Hs.
Qed.

Lemma idx_rel : index_rel cmp idx bl.
Proof.
  apply (index_of_rel cmp Hord sep succ Hsep Hsucc).
  - apply (bt_nonempty _ _ _ _ _ _ _ _ _ Hbt).
  - rewrite <- (bt_es _ _ _ _ _ _ _ _ _ Hbt). exact Hsorted.
  - intros k H; discriminate.
Qed.

Lemma idx_sorted : sorted_by cmp idx.
Proof. eapply index_rel_sorted; [exact Hord|exact idx_rel|apply (bt_nonempty _ _ _ _ _ _ _ _ _ Hbt)]. Qed.

Lemma handle_bound : forall fb, In fb bl -> fst (fst fb) < 4294967296 /\ snd (fst fb) < 4294967296.
Proof.
  intros fb Hfb. pose proof (bt_bsize _ _ _ _ _ _ _ _ _ Hbt) as Hb.
  rewrite Forall_forall in Hb. destruct (Hb fb Hfb) as [_ Hb2]. unfold hend in Hb2. lia.
Qed.

(* every data block is a cursor-ready block *)
Lemma data_block_cursor : forall fb, In fb bl ->
  exists blk it0, block_init (block_build interval (snd fb)) = Ok blk /\ biter_create blk = Ok it0 /\
                  bcur isint interval (snd fb) it0 None.
Proof.
  intros fb Hfb. pose proof (block_eok fb Hfb) as Hok.
  apply block_build_cursor.
  - split.
    + eapply Forall_impl; [|exact Hok]. intros e [A _]. exact A.
    + pose proof (in_block_len' bl fb Hfb) as Hle. rewrite <- (bt_es _ _ _ _ _ _ _ _ _ Hbt) in Hle. lia.
  - intros Hi. eapply Forall_impl; [|exact Hok]. intros e [_ B]. apply Hdkey in B. apply B. exact Hi.
  - pose proof (bt_bsize _ _ _ _ _ _ _ _ _ Hbt) as Hb. rewrite Forall_forall in Hb.
    destruct (Hb fb Hfb) as [Hb1 _]. lia.
Qed.

Lemma index_of_ok : forall (l : list (handle * list entry)) nxt,
  Forall (fun fb => snd fb <> [] /\ Forall eok (snd fb) /\
                    fst (fst fb) < 4294967296 /\ snd (fst fb) < 4294967296) l ->
  Forall (fun e => ikeyok isint (fst e) /\ nlen (snd e) <= 20) (index_of sep succ l nxt).
Proof.
  induction l as [|fb l IH]; intros nxt H; cbn [index_of]; [constructor|].
  inversion H as [|? ? (Hne & Hok & Hb1 & Hb2) H']; subst.
  constructor; [|apply IH; exact H'].
  cbn [fst snd]. split.
  - destruct (lastk_in (snd fb) Hne) as [e [He1 He2]].
    assert (Hd : dkey (lastk (snd fb))).
    { rewrite <- He2. rewrite Forall_forall in Hok. apply (Hok e He1). }
    unfold index_key. destruct (next_first l nxt); [apply Hsepok|apply Hsuccok]; exact Hd.
  - unfold handle in *. pose proof (handle_encode_length (fst fb) ltac:(lia) ltac:(lia)). lia.
Qed.

Lemma idx_ok : Forall (fun e => ikeyok isint (fst e) /\ nlen (snd e) <= 20) idx.
Proof.
  apply index_of_ok. apply Forall_forall. intros fb Hfb.
  pose proof (bt_nonempty _ _ _ _ _ _ _ _ _ Hbt) as Hne. rewrite Forall_forall in Hne.
  split; [apply Hne; exact Hfb|]. split; [apply block_eok; exact Hfb|apply handle_bound; exact Hfb].
Qed.

Lemma index_block_cursor :
  exists it0, biter_create (t_index t) = Ok it0 /\ bcur isint 1 idx it0 None.
Proof.
  destruct (block_build_cursor isint 1 idx) as (blk & it0 & Hbi & Hbc & Hcur).
  - split.
    + eapply Forall_impl; [|exact idx_ok]. intros [ek ev] [[A _] B]. split; cbn [fst snd] in *; [exact A|lia].
    + assert (Hl : (length idx <= length es)%nat).
      { unfold idx. rewrite index_of_length. rewrite (bt_es _ _ _ _ _ _ _ _ _ Hbt).
        apply length_blocks_le'. apply (bt_nonempty _ _ _ _ _ _ _ _ _ Hbt). }
      unfold nlen in *. lia.
  - intros Hi. eapply Forall_impl; [|exact idx_ok]. intros e [[_ A] _]. apply A. exact Hi.
  - pose proof (bt_isize _ _ _ _ _ _ _ _ _ Hbt). fold idx in H. lia.
  - pose proof (bt_index _ _ _ _ _ _ _ _ _ Hbt) as Hi. fold idx in Hi. rewrite Hbi in Hi.
    inversion Hi; subst blk. exists it0. auto.
Qed.

(* reading the data block named by an index value *)
Lemma blockreader_built : forall verify fb, In fb bl ->
  exists d0, table_blockreader t verify (handle_encode (fst fb)) = Ok d0 /\
             bcur isint interval (snd fb) d0 None.
Proof.
  intros verify fb Hfb. unfold table_blockreader.
  destruct (handle_bound fb Hfb) as [B1 B2].
  rewrite <- (app_nil_r (handle_encode (fst fb))). rewrite handle_decode_encode by lia.
  rewrite (bt_file _ _ _ _ _ _ _ _ _ Hbt), (bt_fsize _ _ _ _ _ _ _ _ _ Hbt).
  pose proof (bt_blocks _ _ _ _ _ _ _ _ _ Hbt verify) as Hb. rewrite Forall_forall in Hb.
  rewrite (Hb fb Hfb). cbn [rbind].
  destruct (data_block_cursor fb Hfb) as (blk & d0 & -> & Hc & Hcur). cbn [rbind].
  exists d0. auto.
Qed.

(* ---- ldb_table_internal_get ---- *)
Hypothesis fmatch_safe : forall f k, fmatch f k <> OOB.

Theorem table_get_core : forall verify k,
  (isint = true -> 8 <= nlen k) ->
  exists r, table_get cmp isint fmatch t verify k = Ok (r, SOk) /\
    match ref_seek cmp idx k with
    | None => r = None
    | Some (ipre, x, ipost) =>
        exists bpre h bes bpost, bl = bpre ++ (h, bes) :: bpost /\
          isplit cmp ipre x ipost bpre h bes bpost /\
          (r = zip_obs (ref_seek cmp bes k) \/
           (has_filter = true /\ r = None /\
            forall k', In k' (map fst bes) -> ~ (forall f, fmatch f k = fmatch f k')))
    end.
Proof.
  intros verify k Hk. unfold table_get.
  destruct index_block_cursor as (it0 & -> & Hcur0). cbn [rbind].
  destruct (bcur_seek cmp isint 1 idx idx_sorted Hlt_trans Hlt_eq k it0 None Hcur0 Hk) as (it1 & -> & Hcur1).
  cbn [rbind]. rewrite (bcur_valid _ _ _ _ _ Hcur1), (bcur_status _ _ _ _ _ Hcur1).
  destruct (ref_seek cmp idx k) as [[[ipre x] ipost]|] eqn:Eseek; [|exists None; auto].
  destruct (bcur_key_value _ _ _ _ _ _ _ Hcur1) as (Hidx & _ & ->). cbn [rbind].
  destruct (index_rel_split cmp ipre x ipost idx bl idx_rel Hidx) as (bpre & h & bes & bpost & Hbl & S).
  assert (Hfb : In (h, bes) bl) by (rewrite Hbl; apply in_or_app; right; left; reflexivity).
  rewrite (is_val _ _ _ _ _ _ _ _ S).
  destruct (handle_bound _ Hfb) as [B1 B2]. cbn [fst snd] in B1, B2.
  (* reading the block and seeking in it *)
  destruct (blockreader_built verify _ Hfb) as (d0 & Hrd & Hd0). cbn [fst snd] in Hrd, Hd0.
  destruct (bcur_seek cmp isint interval bes (block_sorted _ _ _ _ Hbl) Hlt_trans Hlt_eq k d0 None Hd0 Hk)
    as (d1 & Hsk & Hd1).
  assert (Hcont :
    (block_iter <~ table_blockreader t verify (handle_encode h) ;;
     block_iter0 <~ biter_seek cmp isint k block_iter ;;
     found <~ biter_observe block_iter0 ;;
     Ok (found, match biter_status block_iter0 with SOk => SOk | _ => biter_status block_iter0 end))
    = Ok (zip_obs (ref_seek cmp bes k), SOk)).
  { rewrite Hrd. cbn [rbind]. rewrite Hsk. cbn [rbind].
    rewrite (bcur_observe _ _ _ _ _ Hd1). cbn [rbind]. rewrite (bcur_status _ _ _ _ _ Hd1). reflexivity. }
  (* the filter *)
  pose proof (bt_filter _ _ _ _ _ _ _ _ _ Hbt) as Hflt.
  destruct has_filter eqn:Ehf.
  - destruct Hflt as (fr & -> & Hfrok & Hmatch).
    assert (Hdec : handle_decode (handle_encode h) = Some (h, [])).
    { rewrite <- (app_nil_r (handle_encode h)). apply handle_decode_encode; lia. }
    rewrite Hdec. cbn [fst].
    pose proof (filter_matches_safe fmatch fmatch_safe fr (fst h) k Hfrok) as Hsafe.
    destruct (filter_matches fmatch fr (fst h) k) as [m|] eqn:Em; [|congruence]. cbn [rbind].
    destruct m; cbn [negb].
    + rewrite Hcont. eexists. split; [reflexivity|].
      exists bpre, h, bes, bpost. split; [exact Hbl|]. split; [exact S|]. left. reflexivity.
    + exists None. split; [reflexivity|].
      exists bpre, h, bes, bpost. split; [exact Hbl|]. split; [exact S|]. right.
      split; [reflexivity|]. split; [reflexivity|].
      intros k' Hin Heq. specialize (Hmatch (h, bes) k' Hfb Hin). cbn [fst snd] in Hmatch.
      rewrite (filter_matches_ext fmatch fr (fst h) k k' Heq) in Em. congruence.
  - rewrite Hflt. cbn [rbind]. rewrite Hcont. eexists. split; [reflexivity|].
    exists bpre, h, bes, bpost. split; [exact Hbl|]. split; [exact S|]. left. reflexivity.
Qed.

(* never a wrong entry: nothing, or the successor of the target in the entry list *)
Theorem table_get_sound : forall verify k,
  (isint = true -> 8 <= nlen k) ->
  exists r, table_get cmp isint fmatch t verify k = Ok (r, SOk) /\
            (r = None \/ r = zip_obs (ref_seek cmp es k)).
Proof.
  intros verify k Hk. destruct (table_get_core verify k Hk) as (r & Hget & Hspec).
  exists r. split; [exact Hget|].
  destruct (ref_seek cmp idx k) as [[[ipre x] ipost]|] eqn:Eseek; [|left; exact Hspec].
  destruct Hspec as (bpre & h & bes & bpost & Hbl & S & [Hr|(_ & Hr & _)]); [|left; exact Hr].
  destruct (ref_seek cmp bes k) as [[[bp e] bq]|] eqn:Eb; [|left; exact Hr].
  right. rewrite Hr. cbn [zip_obs].
  destruct (ref_seek_some _ _ _ _ _ _ Eb) as (Hbes & Hbp & He).
  destruct (ref_seek_some _ _ _ _ _ _ Eseek) as (_ & Hipre & _).
  rewrite (ref_seek_unique cmp es k (concat (map snd bpre) ++ bp) e (bq ++ concat (map snd bpost))).
  - reflexivity.
  - rewrite (bt_es _ _ _ _ _ _ _ _ _ Hbt), Hbl, concat_blocks_split, Hbes.
    rewrite <- !app_assoc. reflexivity.
  - apply Forall_app. split; [|exact Hbp].
    apply Forall_forall. intros e' He'.
    destruct (is_pre_ge _ _ _ _ _ _ _ _ S e' He') as (y & Hy1 & Hy2).
    rewrite Forall_forall in Hipre. apply (co_le_lt cmp Hord _ (fst y)); [exact Hy2|apply Hipre; exact Hy1].
  - exact He.
Qed.

(* a present key is found, with its value *)
Theorem table_get_present : forall verify k v,
  (isint = true -> 8 <= nlen k) -> In (k, v) es ->
  table_get cmp isint fmatch t verify k = Ok (Some (k, v), SOk).
Proof.
  intros verify k v Hk Hin. destruct (table_get_core verify k Hk) as (r & Hget & Hspec).
  rewrite Hget. f_equal. f_equal.
  rewrite (bt_es _ _ _ _ _ _ _ _ _ Hbt) in Hin.
  destruct (in_concat_split bl (k, v) Hin) as (bpre' & h' & bes' & bpost' & Hbl' & Hin').
  destruct (index_rel_split_block cmp bpre' h' bes' bpost' idx bl idx_rel Hbl') as (ipre' & x' & ipost' & Hidx' & S').
  assert (Eseek : ref_seek cmp idx k = Some (ipre', x', ipost')).
  { apply ref_seek_unique; [exact Hidx'| |].
    - apply Forall_forall. intros y Hy.
      apply (is_pre_lt _ _ _ _ _ _ _ _ S' y (k, v) Hy). apply in_or_app. left. exact Hin'.
    - intros Hlt.
      pose proof (is_ge _ _ _ _ _ _ _ _ S' (k, v) Hin') as Hge. cbn [fst] in Hge.
      apply (co_lt_gt cmp Hord) in Hlt. congruence. }
  rewrite Eseek in Hspec.
  destruct Hspec as (bpre & h & bes & bpost & Hbl & S & Hr).
  assert (Hsame : bpre = bpre' /\ (h, bes) :: bpost = (h', bes') :: bpost').
  { apply app_inj_len; [|congruence].
    rewrite (is_len _ _ _ _ _ _ _ _ S), (is_len _ _ _ _ _ _ _ _ S'). reflexivity. }
  destruct Hsame as [-> Hsame]. inversion Hsame; subst h' bes' bpost'. clear Hsame.
  assert (Hfound : ref_seek cmp bes k = Some (fst (split_lt cmp k bes), (k, v), tl (snd (split_lt cmp k bes)))
                   \/ zip_obs (ref_seek cmp bes k) = Some (k, v)).
  { right. destruct (in_split _ _ Hin') as (p1 & p2 & Hp).
    rewrite (ref_seek_unique cmp bes k p1 (k, v) p2 Hp); [reflexivity| |].
    - apply Forall_forall. intros y Hy. pose proof (block_sorted _ _ _ _ Hbl) as Hsb. rewrite Hp in Hsb.
      change ((k, v) :: p2) with ([(k, v)] ++ p2) in Hsb. rewrite app_assoc in Hsb.
      apply sorted_by_app_l in Hsb.
      exact (sorted_by_cross cmp p1 [(k, v)] y (k, v) Hsb Hy (or_introl eq_refl)).
    - cbn [fst]. rewrite (co_refl cmp Hord). discriminate. }
  destruct Hfound as [Hf|Hf].
  - destruct Hr as [Hr|(_ & _ & Hnot)].
    + rewrite Hr, Hf. reflexivity.
    + exfalso. apply (Hnot k); [apply (in_map fst) in Hin'; exact Hin'|reflexivity].
  - destruct Hr as [Hr|(_ & _ & Hnot)].
    + rewrite Hr. exact Hf.
    + exfalso. apply (Hnot k); [apply (in_map fst) in Hin'; exact Hin'|reflexivity].
Qed.

(* a key above every key of the table is not found *)
Theorem table_get_above_all : forall verify k,
  (isint = true -> 8 <= nlen k) ->
  Forall (fun e => cmp (fst e) k = Lt) es ->
  table_get cmp isint fmatch t verify k = Ok (None, SOk).
Proof.
  intros verify k Hk Hall. destruct (table_get_sound verify k Hk) as (r & Hget & [Hr|Hr]).
  - rewrite Hget, Hr. reflexivity.
  - rewrite Hget, Hr. f_equal. f_equal.
    destruct (ref_seek cmp es k) as [[[p e] q]|] eqn:E; [|reflexivity].
    destruct (ref_seek_some _ _ _ _ _ _ E) as (He & _ & Hge).
    exfalso. apply Hge. rewrite Forall_forall in Hall. apply Hall. rewrite He.
    apply in_or_app. right. left. reflexivity.
Qed.

End Get.

(* ------------------------------------------------------------------ *)
(* table_get command on a built table                                  *)
(* ------------------------------------------------------------------ *)
Section Lookup.
Variable cmp : bytes -> bytes -> comparison.
Variable isint : bool.
Variable sep : bytes -> bytes -> bytes.
Variable succ : bytes -> bytes.
Variable has_filter : bool.
Variable fbuild : list bytes -> bytes.
Variable fmatch : bytes -> bytes -> res bool.
Variable compress : bytes -> bytes.
Variables block_size interval compression : N.
Hypothesis Hcompress : compression = 1 -> forall raw,
  nlen (compress raw) < nlen raw - nlen raw / 8 ->
  snappy_decode_size (compress raw) <> None /\ snappy_decode (compress raw) = Ok (Some raw) /\
  nlen raw < 4294967296.
Hypothesis policy_sound : forall keys key, In key keys -> fmatch (fbuild keys) key = Ok true.
Hypothesis fmatch_safe : forall f k, fmatch f k <> OOB.
Hypothesis Hord : cmp_order cmp.
Hypothesis Hsep : sep_contract cmp sep.
Hypothesis Hsucc : succ_contract cmp succ.
Variable dkey : bytes -> Prop.
Hypothesis Hdkey : forall k, dkey k -> ikeyok isint k.
Hypothesis Hsepok : forall a b, dkey a -> ikeyok isint (sep a b).
Hypothesis Hsuccok : forall a, dkey a -> ikeyok isint (succ a).

Theorem table_lookup_build : forall paranoid verify es,
  Forall (eok dkey) es -> nlen es + 1 < 4294967296 -> sorted_by cmp es ->
  let file := table_build sep succ has_filter fbuild compress block_size interval compression es in
  wf_bytes file = true -> nlen file < 4294967296 ->
  forall k, (isint = true -> 8 <= nlen k) ->
  exists r, table_lookup cmp isint has_filter fmatch paranoid verify file k = Ok (inr (r, SOk)) /\
    (r = None \/ r = zip_obs (ref_seek cmp es k)) /\
    (forall v, In (k, v) es -> r = Some (k, v)) /\
    (Forall (fun e => cmp (fst e) k = Lt) es -> r = None).
Proof.
  intros paranoid verify es Hes Hcount Hsorted file Hwf Hlen k Hk.
  destruct (table_build_open sep succ has_filter fbuild fmatch compress block_size interval compression
              Hcompress policy_sound paranoid es Hwf Hlen) as (t & bl & Hopen & Hbt).
  fold file in Hopen, Hbt.
  unfold table_lookup. rewrite Hopen. cbn [rbind].
  destruct (table_get_sound cmp isint sep succ has_filter fmatch interval Hord Hsep Hsucc
              dkey Hdkey Hsepok Hsuccok file es t bl Hbt Hes Hcount Hsorted Hlen fmatch_safe verify k Hk)
    as (r & Hget & Hr).
  exists r. rewrite Hget. cbn [rbind]. split; [reflexivity|]. split; [exact Hr|]. split.
  - intros v Hin.
    pose proof (table_get_present cmp isint sep succ has_filter fmatch interval Hord Hsep Hsucc
                  dkey Hdkey Hsepok Hsuccok file es t bl Hbt Hes Hcount Hsorted Hlen fmatch_safe verify k v Hk Hin) as Hp.
    rewrite Hget in Hp. inversion Hp. reflexivity.
  - intros Hall.
    pose proof (table_get_above_all cmp isint sep succ has_filter fmatch interval Hord Hsep Hsucc
                  dkey Hdkey Hsepok Hsuccok file es t bl Hbt Hes Hcount Hsorted Hlen fmatch_safe verify k Hk Hall) as Hp.
    rewrite Hget in Hp. inversion Hp. reflexivity.
Qed.

End Lookup.

(* ---- the two driver instances ---- *)
Lemma user_fmatch_safe : forall f k, user_fmatch f k <> OOB.
Proof. intros. unfold user_fmatch, bloom_match. apply bloom_match_safe. Qed.

Lemma internal_fmatch_safe : forall f k, internal_fmatch f k <> OOB.
Proof. intros. unfold internal_fmatch, bloom_match. apply bloom_match_safe. Qed.

Theorem table_lookup_build_bytewise :
  forall bits compress block_size interval compression paranoid verify es,
  (compression = 1 -> forall raw, nlen (compress raw) < nlen raw - nlen raw / 8 ->
     snappy_decode_size (compress raw) <> None /\ snappy_decode (compress raw) = Ok (Some raw) /\
     nlen raw < 4294967296) ->
  Forall (fun e => nlen (fst e) < 4294967296 /\ nlen (snd e) < 4294967296) es ->
  nlen es + 1 < 4294967296 ->
  sorted_by bytes_compare es ->
  let file := table_build_i 0 bits compress block_size interval compression es in
  wf_bytes file = true -> nlen file < 4294967296 ->
  forall k,
  exists r, table_lookup (inst_cmp 0) (inst_internal 0) (inst_has_filter bits) (inst_fmatch 0)
                         paranoid verify file k = Ok (inr (r, SOk)) /\
    (r = None \/ r = zip_obs (ref_seek bytes_compare es k)) /\
    (forall v, In (k, v) es -> r = Some (k, v)) /\
    (Forall (fun e => bytes_compare (fst e) k = Lt) es -> r = None).
Proof.
  intros bits compress block_size interval compression paranoid verify es Hc Hes Hn Hs file Hwf Hlen k.
  destruct bytewise_hooks as (H1 & H2 & H3).
  apply (table_lookup_build bytes_compare false tbl_sep tbl_succ (inst_has_filter bits) (user_fbuild bits)
           user_fmatch compress block_size interval compression Hc (user_policy_sound bits) user_fmatch_safe
           bytes_order bytes_sep_contract bytes_succ_contract dkey_bytewise H1 H2 H3
           paranoid verify es); auto.
  - eapply Forall_impl; [|exact Hes]. intros e [A B]. split; [split; assumption|exact A].
  - intros H; discriminate.
Qed.

Theorem table_lookup_build_internal :
  forall bits compress block_size interval compression paranoid verify es,
  (compression = 1 -> forall raw, nlen (compress raw) < nlen raw - nlen raw / 8 ->
     snappy_decode_size (compress raw) <> None /\ snappy_decode (compress raw) = Ok (Some raw) /\
     nlen raw < 4294967296) ->
  Forall (fun e => nlen (fst e) < 4294967296 /\ 8 <= nlen (fst e) /\ nlen (snd e) < 4294967296) es ->
  nlen es + 1 < 4294967296 ->
  sorted_by tbl_ikey_compare es ->
  let file := table_build_i 1 bits compress block_size interval compression es in
  wf_bytes file = true -> nlen file < 4294967296 ->
  forall k, 8 <= nlen k ->
  exists r, table_lookup (inst_cmp 1) (inst_internal 1) (inst_has_filter bits) (inst_fmatch 1)
                         paranoid verify file k = Ok (inr (r, SOk)) /\
    (r = None \/ r = zip_obs (ref_seek tbl_ikey_compare es k)) /\
    (forall v, In (k, v) es -> r = Some (k, v)) /\
    (Forall (fun e => tbl_ikey_compare (fst e) k = Lt) es -> r = None).
Proof.
  intros bits compress block_size interval compression paranoid verify es Hc Hes Hn Hs file Hwf Hlen k Hk.
  destruct internal_hooks as (H1 & H2 & H3).
  apply (table_lookup_build tbl_ikey_compare true tbl_isep tbl_isucc (inst_has_filter bits) (internal_fbuild bits)
           internal_fmatch compress block_size interval compression Hc (internal_policy_sound bits) internal_fmatch_safe
           ikey_order ikey_sep_contract ikey_succ_contract dkey_internal H1 H2 H3
           paranoid verify es); auto.
  eapply Forall_impl; [|exact Hes]. intros e (A & B & C). split; [split; assumption|split; assumption].
Qed.
