(* Properties_C12.v -- placeholder until FsModel lands. *)
From LCDB Require Import Base LogFormat LogFormatClosed.
Theorem C12_log_cut_is_record_prefix : forall rs n,
  Forall (fun r => wf_bytes r = true) rs -> (n <= length (write_log rs))%nat ->
  exists k, read_log (firstn n (write_log rs)) = map Rec (firstn k rs).
Proof. exact read_cut_prefix. Qed.
Print Assumptions C12_log_cut_is_record_prefix.
