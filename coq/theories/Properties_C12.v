(* Properties_C12.v -- C12: I/O failures are reported and never cost acknowledged data.
   At record level a failed call is a call whose acknowledgement is [EAck id false] (rule R7 of
   wf_protocol: a call is acknowledged OK iff its record was appended; since fix cf9b327 a failed
   append latches the error, so nothing is appended behind a torn record).  The durability of what
   WAS acknowledged, after a kill at any point or a clean close, is then the process-crash theorem;
   the cut lemma covers a partially written final record.  That real runs under injected faults
   behave like this is established by the fault-injection tie (checks/c12.py), not by proof. *)
From LCDB Require Import Base LogFormat LogFormatClosed FsModel FsProofs.
Local Open Scope N_scope.

Theorem C12_partial_append_is_a_clean_cut : forall rs n,
  Forall (fun r => wf_bytes r = true) rs -> (n <= length (write_log rs))%nat ->
  exists k, read_log (firstn n (write_log rs)) = map Rec (firstn k rs).
Proof. exact read_cut_prefix. Qed.
Print Assumptions C12_partial_append_is_a_clean_cut.

Theorem C12_acknowledged_survive_kill_or_close : forall tr, wf_protocol tr = true -> forall p,
  iget (written_image (firstn p tr)) FCurrent <> None ->
  exists s old, recover (written_image (firstn p tr)) = Some s /\
    Forall (fun b => flushed (firstn p tr) b /\
                     exists n, In b (log_batches (firstn p tr) n) /\ n < r_log s) old /\
    (old ++ applied_batches s = acked_before tr p \/
     exists b, in_flight tr p b /\ old ++ applied_batches s = acked_before tr p ++ [b]).
Proof. exact FsProofs.C03_process_crash. Qed.
Print Assumptions C12_acknowledged_survive_kill_or_close.
