(* Properties_C12.v -- C12: I/O failures are reported and never cost acknowledged data.
   At record level a failed call is a call whose acknowledgement is [EAck id false] (rule R7 of
   wf_protocol: a call is acknowledged OK iff its record was appended; since fix cf9b327 a failed
   append latches the error, so nothing is appended behind a torn record).  The durability of what
   WAS acknowledged, after a kill at any point or a clean close, is then the process-crash theorem;
   the cut lemma covers a partially written final record.  That real runs under injected faults
   behave like this is established by the fault-injection tie (checks/c12.py), not by proof.
   The second half of the file is about the status flow of ldb_write itself (WriteLatch.v, an
   executable model of one session of the write path under EVERY choice of append / fsync outcome):
   a failing call is reported and latches the error, an acknowledgement means the call's I/O was
   clean, the acknowledgements of a session are OK... up to the first failing call and errors from it
   on, the memtable holds exactly the acknowledged batches, and log recovery returns exactly those
   plus at most the one reported-failed record; without the latch (the code before fix cf9b327) an
   acknowledged write behind a torn record is lost (refutation witness).  The model's
   acknowledgement vector is compared with the real library's under injected log faults
   (kind `latch-vs-model`). *)
From LCDB Require Import Base LogFormat LogFormatClosed FsModel FsProofs WriteLatch WriteLatchProofs.
Local Open Scope N_scope.

Theorem C12_partial_append_is_a_clean_cut : forall rs n,
  Forall (fun r => wf_bytes r = true) rs -> (n <= length (write_log rs))%nat ->
  exists k, read_log (firstn n (write_log rs)) = map Rec (firstn k rs).
Proof. exact read_cut_prefix. Qed.
Print Assumptions C12_partial_append_is_a_clean_cut.

Theorem C12_acknowledged_survive_kill_or_close : forall tr, wf_protocol tr = true -> forall p,
  iget (written_image (firstn p tr)) FCurrent <> None ->
  exists s old, recover (written_image (firstn p tr)) = Some s /\
    Forall (fun b => flushed (firstn p tr) b /\
                     exists n, In b (log_batches (firstn p tr) n) /\ n < r_log s) old /\
    (old ++ applied_batches s = acked_before tr p \/
     exists b, in_flight tr p b /\ old ++ applied_batches s = acked_before tr p ++ [b]).
Proof. exact FsProofs.C03_process_crash. Qed.
Print Assumptions C12_acknowledged_survive_kill_or_close.

(* ---- the error latch of the write path (WriteLatch.v) ---- *)
Theorem C12_failing_write_is_reported_and_latched : forall s o, wl_bg s = false -> wl_op_faulty o = true ->
  snd (wl_step s o) = false /\ wl_bg (fst (wl_step s o)) = true.
Proof. exact step_fault_latches. Qed.
Print Assumptions C12_failing_write_is_reported_and_latched.
Theorem C12_acknowledged_means_clean_io : forall s o, snd (wl_step s o) = true ->
  wl_bg s = false /\ wl_op_faulty o = false.
Proof. exact step_ack_clean. Qed.
Print Assumptions C12_acknowledged_means_clean_io.
Theorem C12_latched_session_refuses_all : forall os s, wl_bg s = true ->
  wl_run wl_step s os = (s, repeat false (length os)).
Proof. exact run_latched. Qed.
Print Assumptions C12_latched_session_refuses_all.
Theorem C12_session_acks_shape : forall os s, wl_bg s = false ->
  exists n, snd (wl_run wl_step s os) = repeat true n ++ repeat false (length os - n) /\
            (n <= length os)%nat /\
            forallb (fun o => negb (wl_op_faulty o)) (firstn n os) = true /\
            ((n < length os)%nat -> exists o, nth_error os n = Some o /\ wl_op_faulty o = true) /\
            wl_bg (fst (wl_run wl_step s os)) = negb (Nat.eqb n (length os)).
Proof. exact run_shape. Qed.
Print Assumptions C12_session_acks_shape.
Theorem C12_session_recovers_acknowledged : forall os,
  let r := wl_run wl_step wl_init os in
  let acked := wl_acked_ids os (snd r) in
  wl_mem (fst r) = acked /\
  (wl_recovered (wl_logf (fst r)) = acked \/
   (wl_bg (fst r) = true /\ exists i, wl_recovered (wl_logf (fst r)) = acked ++ [i])).
Proof. exact latch_session. Qed.
Print Assumptions C12_session_recovers_acknowledged.
Theorem C12_without_latch_acknowledged_lost_refuted :
  exists os, let r := wl_run wl_step_nolatch wl_init os in
             exists i, In i (wl_acked_ids os (snd r)) /\ ~ In i (wl_recovered (wl_logf (fst r))).
Proof. exact nolatch_loses_acknowledged. Qed.
Print Assumptions C12_without_latch_acknowledged_lost_refuted.
(* non-vacuity: a session with a clean write, a torn append and a later write *)
Example C12_latch_example :
  latch_case [ {| lw_id := 1; lw_sync := true; lw_app := WlAOk; lw_sync_ok := true |};
               {| lw_id := 2; lw_sync := false; lw_app := WlAPartial; lw_sync_ok := true |};
               {| lw_id := 3; lw_sync := false; lw_app := WlAOk; lw_sync_ok := true |} ]
  = ([true; false; false], true, [1], [1]).
Proof. vm_compute. reflexivity. Qed.
Theorem C12_session_no_acknowledged_loss : forall os,
  let r := wl_run wl_step wl_init os in
  exists extra, wl_recovered (wl_logf (fst r)) = wl_acked_ids os (snd r) ++ extra /\ (length extra <= 1)%nat.
Proof. exact latch_no_acknowledged_loss. Qed.
Print Assumptions C12_session_no_acknowledged_loss.
