(* IKeyProofs.v -- proofs about IKey.v: internal-key encode/parse round trip,
   the internal-key order is a strict total order, and the separator / successor
   contracts of the bytewise and internal-key comparators. *)
From LCDB Require Import Base Varint BaseProofs VarintProofs IKey.
From Coq Require Import Lia ZifyBool ZifyNat ZifyN.
Local Open Scope N_scope.

Ltac Zify.zify_post_hook ::= Z.div_mod_to_equations.

#[local] Arguments N.mul : simpl never.
#[local] Arguments N.add : simpl never.
#[local] Arguments N.div : simpl never.
#[local] Arguments N.modulo : simpl never.
#[local] Arguments N.ltb : simpl never.
#[local] Arguments N.leb : simpl never.

(* ------------------------------------------------------------------ *)
(* Encode / parse                                                      *)
(* ------------------------------------------------------------------ *)

Lemma ikey_user_app : forall u x, ikey_user (u ++ le64 x) = u.
Proof.
  intros u x. unfold ikey_user. rewrite app_length, le64_length.
  replace (length u + 8 - 8)%nat with (length u) by lia.
  rewrite firstn_app, Nat.sub_diag, firstn_all. cbn [firstn]. apply app_nil_r.
Qed.

Lemma ikey_tail_app : forall u (t : bytes),
  length t = 8%nat -> skipn (length (u ++ t) - 8) (u ++ t) = t.
Proof.
  intros u t Ht. rewrite app_length, Ht.
  replace (length u + 8 - 8)%nat with (length u) by lia.
  rewrite skipn_app, Nat.sub_diag, skipn_all. reflexivity.
Qed.

Lemma ikey_tag_app : forall u x,
  x < 18446744073709551616 -> ikey_tag (u ++ le64 x) = x.
Proof.
  intros u x Hx. unfold ikey_tag. rewrite ikey_tail_app by apply le64_length.
  rewrite <- (app_nil_r (le64 x)). rewrite de64_le64 by exact Hx. reflexivity.
Qed.

Lemma pack_seqtype_small : forall s t,
  s < 72057594037927936 -> t < 256 -> pack_seqtype s t = s * 256 + t.
Proof. intros s t Hs Ht. unfold pack_seqtype. lia. Qed.

Theorem ikey_parse_encode : forall k s t,
  s < 2 ^ 56 -> t <= 1 -> ikey_parse (ikey_encode k s t) = Some (k, s, t).
Proof.
  intros k s t Hs Ht. change (2 ^ 56) with 72057594037927936 in Hs.
  unfold ikey_parse, ikey_encode.
  rewrite pack_seqtype_small by lia.
  rewrite nlen_app. unfold nlen at 2. rewrite le64_length.
  replace (nlen k + N.of_nat 8 <? 8) with false by (symmetry; apply N.ltb_ge; lia).
  rewrite ikey_tag_app by lia. rewrite ikey_user_app.
  replace ((s * 256 + t) mod 256) with t by lia.
  replace ((s * 256 + t) / 256) with s by lia.
  replace (1 <? t) with false by (symmetry; apply N.ltb_ge; lia).
  reflexivity.
Qed.

Theorem ikey_parse_short : forall k, nlen k < 8 -> ikey_parse k = None.
Proof.
  intros k H. unfold ikey_parse.
  replace (nlen k <? 8) with true by (symmetry; apply N.ltb_lt; exact H). reflexivity.
Qed.

(* a parsed key re-encodes to the same bytes (well-formed bytes) *)
Lemma firstn_skipn_tail : forall (k : bytes),
  k = ikey_user k ++ skipn (length k - 8) k.
Proof. intros k. unfold ikey_user. symmetry. apply firstn_skipn. Qed.

Lemma de64_wf8_inj : forall l1 l2 v,
  length l1 = 8%nat -> length l2 = 8%nat ->
  wf_bytes l1 = true -> wf_bytes l2 = true ->
  de64 l1 = Some v -> de64 l2 = Some v -> l1 = l2.
Proof.
  intros l1 l2 v H1 H2 W1 W2 D1 D2.
  do 8 (destruct l1 as [|? l1]; [discriminate H1|]). destruct l1; [|discriminate H1].
  do 8 (destruct l2 as [|? l2]; [discriminate H2|]). destruct l2; [|discriminate H2].
  unfold wf_bytes in W1, W2. cbn [forallb] in W1, W2.
  rewrite !andb_true_iff in W1, W2. unfold is_byte in W1, W2.
  repeat match goal with H : _ /\ _ |- _ => destruct H end.
  repeat match goal with H : (_ <? _) = true |- _ => apply N.ltb_lt in H end.
  unfold de64 in D1, D2. cbn [skipn] in D1, D2.
  destruct (de32 [n; n0; n1; n2; n3; n4; n5; n6]) as [lo1|] eqn:L1; [|discriminate D1].
  destruct (de32 [n3; n4; n5; n6]) as [hi1|] eqn:U1; [|discriminate D1].
  destruct (de32 [n7; n8; n9; n10; n11; n12; n13; n14]) as [lo2|] eqn:L2; [|discriminate D2].
  destruct (de32 [n11; n12; n13; n14]) as [hi2|] eqn:U2; [|discriminate D2].
  injection D1 as D1. injection D2 as D2.
  assert (B1 : lo1 < 4294967296) by (eapply de32_bound; [| | | |exact L1]; assumption).
  assert (B2 : lo2 < 4294967296) by (eapply de32_bound; [| | | |exact L2]; assumption).
  assert (Hlo : lo1 = lo2) by lia.
  assert (Hhi : hi1 = hi2) by lia.
  subst lo2 hi2.
  assert (E1 : le32 lo1 = [n; n0; n1; n2]) by (apply le32_de32; assumption).
  assert (E2 : le32 lo1 = [n7; n8; n9; n10]) by (apply le32_de32; assumption).
  assert (E3 : le32 hi1 = [n3; n4; n5; n6]) by (apply le32_de32; assumption).
  assert (E4 : le32 hi1 = [n11; n12; n13; n14]) by (apply le32_de32; assumption).
  rewrite E1 in E2. rewrite E3 in E4. injection E2 as -> -> -> ->. injection E4 as -> -> -> ->.
  reflexivity.
Qed.

Lemma de64_len8 : forall l : bytes, length l = 8%nat -> exists v, de64 l = Some v.
Proof.
  intros l H.
  do 8 (destruct l as [|? l]; [discriminate H|]).
  unfold de64. cbn [de32 skipn]. eexists. reflexivity.
Qed.

Lemma ikey_tail_length : forall k : bytes, (8 <= length k)%nat -> length (skipn (length k - 8) k) = 8%nat.
Proof. intros k H. rewrite skipn_length. lia. Qed.

(* ------------------------------------------------------------------ *)
(* The internal-key order                                              *)
(* ------------------------------------------------------------------ *)

Theorem ikey_compare_refl : forall a, ikey_compare a a = Eq.
Proof.
  intros a. unfold ikey_compare. rewrite bytes_compare_refl. apply N.compare_refl.
Qed.

Theorem ikey_compare_antisym : forall a b,
  ikey_compare a b = CompOpp (ikey_compare b a).
Proof.
  intros a b. unfold ikey_compare.
  rewrite (bytes_compare_antisym (ikey_user a) (ikey_user b)).
  destruct (bytes_compare (ikey_user b) (ikey_user a)); cbn [CompOpp]; try reflexivity.
  apply N.compare_antisym.
Qed.

Theorem ikey_compare_lt_gt : forall a b,
  ikey_compare a b = Lt <-> ikey_compare b a = Gt.
Proof.
  intros a b. rewrite (ikey_compare_antisym a b).
  destruct (ikey_compare b a); cbn [CompOpp]; split; congruence.
Qed.

Theorem ikey_compare_lt_trans : forall a b c,
  ikey_compare a b = Lt -> ikey_compare b c = Lt -> ikey_compare a c = Lt.
Proof.
  intros a b c H1 H2. unfold ikey_compare in *.
  destruct (bytes_compare (ikey_user a) (ikey_user b)) eqn:Hab; [| |discriminate H1];
  destruct (bytes_compare (ikey_user b) (ikey_user c)) eqn:Hbc; try discriminate H2.
  - apply bytes_compare_eq_iff in Hab. apply bytes_compare_eq_iff in Hbc.
    rewrite Hab, Hbc, bytes_compare_refl.
    apply N.compare_lt_iff in H1. apply N.compare_lt_iff in H2. apply N.compare_lt_iff.
    eapply N.lt_trans; eassumption.
  - apply bytes_compare_eq_iff in Hab. rewrite Hab, Hbc. reflexivity.
  - apply bytes_compare_eq_iff in Hbc. rewrite <- Hbc, Hab. reflexivity.
  - rewrite (bytes_compare_lt_trans _ _ _ Hab Hbc). reflexivity.
Qed.

Theorem ikey_compare_irrefl : forall a, ikey_compare a a <> Lt.
Proof. intros a. rewrite ikey_compare_refl. discriminate. Qed.

(* Eq means equal, on keys that have the 8-byte tag and well-formed bytes *)
Definition wf_ikey (k : bytes) : bool := (8 <=? nlen k) && wf_bytes k.

Lemma wf_ikey_split : forall k, wf_ikey k = true -> (8 <= length k)%nat /\ wf_bytes k = true.
Proof.
  intros k H. unfold wf_ikey in H. apply andb_true_iff in H. destruct H as [H1 H2].
  apply N.leb_le in H1. unfold nlen in H1. split; [lia|exact H2].
Qed.

Theorem ikey_compare_eq : forall a b,
  wf_ikey a = true -> wf_ikey b = true -> ikey_compare a b = Eq -> a = b.
Proof.
  intros a b Ha Hb H. apply wf_ikey_split in Ha. apply wf_ikey_split in Hb.
  destruct Ha as [La Wa]. destruct Hb as [Lb Wb].
  unfold ikey_compare in H.
  destruct (bytes_compare (ikey_user a) (ikey_user b)) eqn:Hu; try discriminate H.
  apply bytes_compare_eq_iff in Hu. apply N.compare_eq_iff in H.
  rewrite (firstn_skipn_tail a), (firstn_skipn_tail b). rewrite Hu. f_equal.
  unfold ikey_tag in H.
  destruct (de64_len8 _ (ikey_tail_length a La)) as [va Hva].
  destruct (de64_len8 _ (ikey_tail_length b Lb)) as [vb Hvb].
  rewrite Hva, Hvb in H. subst vb.
  apply (de64_wf8_inj _ _ va).
  - apply ikey_tail_length; exact La.
  - apply ikey_tail_length; exact Lb.
  - rewrite <- (firstn_skipn (length a - 8) a) in Wa. apply wf_bytes_app in Wa. apply Wa.
  - rewrite <- (firstn_skipn (length b - 8) b) in Wb. apply wf_bytes_app in Wb. apply Wb.
  - exact Hva.
  - exact Hvb.
Qed.

Theorem ikey_compare_eq_iff : forall a b,
  wf_ikey a = true -> wf_ikey b = true -> (ikey_compare a b = Eq <-> a = b).
Proof.
  intros a b Ha Hb. split.
  - apply ikey_compare_eq; assumption.
  - intros ->. apply ikey_compare_refl.
Qed.

(* strict total order on well-formed internal keys *)
Theorem ikey_compare_total : forall a b,
  wf_ikey a = true -> wf_ikey b = true ->
  ikey_compare a b = Lt \/ a = b \/ ikey_compare b a = Lt.
Proof.
  intros a b Ha Hb. destruct (ikey_compare a b) eqn:H.
  - right. left. apply ikey_compare_eq; assumption.
  - left. reflexivity.
  - right. right. apply ikey_compare_lt_gt. exact H.
Qed.

Theorem ikey_compare_strict_total_order :
  (forall a, ikey_compare a a <> Lt) /\
  (forall a b c, ikey_compare a b = Lt -> ikey_compare b c = Lt -> ikey_compare a c = Lt) /\
  (forall a b, ikey_compare a b = Lt -> ikey_compare b a <> Lt) /\
  (forall a b, wf_ikey a = true -> wf_ikey b = true ->
               ikey_compare a b = Lt \/ a = b \/ ikey_compare b a = Lt).
Proof.
  repeat split.
  - apply ikey_compare_irrefl.
  - apply ikey_compare_lt_trans.
  - intros a b H. apply ikey_compare_lt_gt in H. rewrite H. discriminate.
  - apply ikey_compare_total.
Qed.

(* order of encoded keys: user key ascending, then sequence descending, then type descending *)
Theorem ikey_compare_encode : forall u1 s1 t1 u2 s2 t2,
  s1 < 2 ^ 56 -> s2 < 2 ^ 56 -> t1 <= 1 -> t2 <= 1 ->
  ikey_compare (ikey_encode u1 s1 t1) (ikey_encode u2 s2 t2) =
  match bytes_compare u1 u2 with
  | Eq => match N.compare s2 s1 with Eq => N.compare t2 t1 | c => c end
  | c => c
  end.
Proof.
  intros u1 s1 t1 u2 s2 t2 H1 H2 T1 T2.
  change (2 ^ 56) with 72057594037927936 in *.
  unfold ikey_compare, ikey_encode. rewrite !ikey_user_app.
  rewrite !pack_seqtype_small by lia. rewrite !ikey_tag_app by lia.
  destruct (bytes_compare u1 u2); try reflexivity.
  destruct (N.compare s2 s1) eqn:Hs.
  - apply N.compare_eq_iff in Hs. subst s2.
    destruct (N.compare t2 t1) eqn:Ht.
    + apply N.compare_eq_iff in Ht. subst. apply N.compare_refl.
    + change (t2 < t1) in Ht. apply N.compare_lt_iff. lia.
    + rewrite N.compare_gt_iff in Ht. apply N.compare_gt_iff. lia.
  - change (s2 < s1) in Hs. apply N.compare_lt_iff. lia.
  - rewrite N.compare_gt_iff in Hs. apply N.compare_gt_iff. lia.
Qed.

(* ------------------------------------------------------------------ *)
(* Lookup keys                                                         *)
(* ------------------------------------------------------------------ *)

Theorem lkey_internal_key_eq : forall u s,
  lkey_internal_key u s = ikey_encode u s VALTYPE_SEEK.
Proof.
  intros u s. unfold lkey_internal_key, lkey_build, lkey_kstart, ikey_encode.
  rewrite skipn_app, Nat.sub_diag, skipn_all. reflexivity.
Qed.

Theorem lkey_user_key_eq : forall u s, lkey_user_key u s = u.
Proof.
  intros u s. unfold lkey_user_key. rewrite lkey_internal_key_eq.
  unfold ikey_encode. apply ikey_user_app.
Qed.

Theorem lkey_memtable_key_eq : forall u s,
  nlen u + 8 < 4294967296 ->
  lkey_memtable_key u s = slice_write (ikey_encode u s VALTYPE_SEEK).
Proof.
  intros u s H. unfold lkey_memtable_key, lkey_build, slice_write, ikey_encode.
  rewrite nlen_app. unfold nlen at 3. rewrite le64_length.
  replace ((nlen u + 8) mod 4294967296) with (nlen u + N.of_nat 8) by lia.
  reflexivity.
Qed.

(* ------------------------------------------------------------------ *)
(* Bytewise separator / successor contracts (all byte strings)         *)
(* ------------------------------------------------------------------ *)

Lemma bytes_leb_refl : forall a, bytes_leb a a = true.
Proof. intros a. unfold bytes_leb. rewrite bytes_compare_refl. reflexivity. Qed.

Lemma shortest_separator_same : forall a, shortest_separator a a = a.
Proof.
  induction a as [|x a IH]; cbn [shortest_separator]; [reflexivity|].
  rewrite N.eqb_refl, IH. reflexivity.
Qed.

Theorem shortest_separator_contract : forall a b,
  bytes_compare a b = Lt ->
  bytes_leb a (shortest_separator a b) = true /\
  bytes_ltb (shortest_separator a b) b = true.
Proof.
  induction a as [|x a IH]; intros [|y b] H; cbn [bytes_compare] in H; try discriminate H.
  - cbn [shortest_separator]. split; reflexivity.
  - cbn [shortest_separator].
    destruct (N.compare x y) eqn:Hxy.
    + apply N.compare_eq_iff in Hxy. subst y. rewrite N.eqb_refl.
      destruct (IH b H) as [H1 H2].
      unfold bytes_leb, bytes_ltb in *. cbn [bytes_compare]. rewrite N.compare_refl.
      split; assumption.
    + change (x < y) in Hxy.
      replace (x =? y) with false by (symmetry; apply N.eqb_neq; lia).
      destruct ((x <? 255) && (x + 1 <? y)) eqn:Hc.
      * apply andb_true_iff in Hc. destruct Hc as [_ Hc]. apply N.ltb_lt in Hc.
        unfold bytes_leb, bytes_ltb. cbn [bytes_compare].
        replace (x ?= x + 1) with Lt by (symmetry; apply N.compare_lt_iff; lia).
        replace (x + 1 ?= y) with Lt by (symmetry; apply N.compare_lt_iff; lia).
        split; reflexivity.
      * split; [apply bytes_leb_refl|].
        unfold bytes_ltb. cbn [bytes_compare].
        replace (x ?= y) with Lt by (symmetry; apply N.compare_lt_iff; lia). reflexivity.
    + discriminate H.
Qed.

Theorem short_successor_contract : forall a, bytes_leb a (short_successor a) = true.
Proof.
  induction a as [|x a IH]; cbn [short_successor]; [reflexivity|].
  destruct (x =? 255).
  - unfold bytes_leb in *. cbn [bytes_compare]. rewrite N.compare_refl. exact IH.
  - unfold bytes_leb. cbn [bytes_compare].
    replace (x ?= x + 1) with Lt by (symmetry; apply N.compare_lt_iff; lia). reflexivity.
Qed.

(* both never lengthen the key *)
Theorem shortest_separator_length : forall a b,
  (length (shortest_separator a b) <= length a)%nat.
Proof.
  induction a as [|x a IH]; intros [|y b]; cbn [shortest_separator length]; try lia.
  destruct (x =? y).
  - cbn [length]. specialize (IH b). lia.
  - destruct ((x <? 255) && (x + 1 <? y)); cbn [length]; lia.
Qed.

Theorem short_successor_length : forall a, (length (short_successor a) <= length a)%nat.
Proof.
  induction a as [|x a IH]; cbn [short_successor length]; [lia|].
  destruct (x =? 255); cbn [length]; lia.
Qed.

(* well-formed bytes stay well-formed (the incremented byte was < 255) *)
Theorem shortest_separator_wf : forall a b,
  wf_bytes a = true -> wf_bytes (shortest_separator a b) = true.
Proof.
  induction a as [|x a IH]; intros [|y b] H; cbn [shortest_separator]; try exact H.
  apply wf_bytes_cons in H. destruct H as [Hx Ha].
  destruct (x =? y).
  - apply wf_bytes_cons. split; [exact Hx|apply IH; exact Ha].
  - destruct ((x <? 255) && (x + 1 <? y)) eqn:Hc.
    + apply andb_true_iff in Hc. destruct Hc as [Hc _]. apply N.ltb_lt in Hc.
      apply wf_bytes_cons. split; [lia|reflexivity].
    + apply wf_bytes_cons. split; assumption.
Qed.

Theorem short_successor_wf : forall a,
  wf_bytes a = true -> wf_bytes (short_successor a) = true.
Proof.
  induction a as [|x a IH]; intros H; cbn [short_successor]; [reflexivity|].
  apply wf_bytes_cons in H. destruct H as [Hx Ha].
  destruct (x =? 255) eqn:Hc.
  - apply wf_bytes_cons. split; [exact Hx|apply IH; exact Ha].
  - apply N.eqb_neq in Hc. apply wf_bytes_cons. split; [lia|reflexivity].
Qed.

(* ------------------------------------------------------------------ *)
(* Internal-key separator / successor contracts                        *)
(* ------------------------------------------------------------------ *)

Lemma ikey_user_seek : forall u, ikey_user (u ++ seek_tag) = u.
Proof. intros u. unfold seek_tag. apply ikey_user_app. Qed.

Theorem ikc_shortest_separator_contract : forall a b,
  ikey_compare a b = Lt ->
  ikey_compare a (ikc_shortest_separator a b) <> Gt /\
  ikey_compare (ikc_shortest_separator a b) b = Lt.
Proof.
  intros a b H. unfold ikc_shortest_separator.
  destruct ((nlen (shortest_separator (ikey_user a) (ikey_user b)) <? nlen (ikey_user a)) &&
            bytes_ltb (ikey_user a) (shortest_separator (ikey_user a) (ikey_user b))) eqn:Hc.
  - apply andb_true_iff in Hc. destruct Hc as [Hlen Hlt]. apply N.ltb_lt in Hlen.
    assert (Hu : bytes_compare (ikey_user a) (ikey_user b) = Lt).
    { unfold ikey_compare in H.
      destruct (bytes_compare (ikey_user a) (ikey_user b)) eqn:Hu; try discriminate H; [|reflexivity].
      apply bytes_compare_eq_iff in Hu. rewrite Hu, shortest_separator_same in Hlen. lia. }
    destruct (shortest_separator_contract _ _ Hu) as [_ Hsb].
    unfold ikey_compare. rewrite !ikey_user_seek.
    unfold bytes_ltb in Hlt, Hsb.
    destruct (bytes_compare (ikey_user a) (shortest_separator (ikey_user a) (ikey_user b)));
      try discriminate Hlt.
    destruct (bytes_compare (shortest_separator (ikey_user a) (ikey_user b)) (ikey_user b));
      try discriminate Hsb.
    split; [discriminate|reflexivity].
  - rewrite ikey_compare_refl. split; [discriminate|exact H].
Qed.

Theorem ikc_short_successor_contract : forall a,
  ikey_compare a (ikc_short_successor a) <> Gt.
Proof.
  intros a. unfold ikc_short_successor.
  destruct ((nlen (short_successor (ikey_user a)) <? nlen (ikey_user a)) &&
            bytes_ltb (ikey_user a) (short_successor (ikey_user a))) eqn:Hc.
  - apply andb_true_iff in Hc. destruct Hc as [_ Hlt].
    unfold ikey_compare. rewrite ikey_user_seek. unfold bytes_ltb in Hlt.
    destruct (bytes_compare (ikey_user a) (short_successor (ikey_user a))); try discriminate Hlt.
    discriminate.
  - rewrite ikey_compare_refl. discriminate.
Qed.

(* the results are internal keys again: at least 8 bytes, never longer than the input *)
Theorem ikc_shortest_separator_length : forall a b,
  (8 <= length a)%nat ->
  (8 <= length (ikc_shortest_separator a b) <= length a)%nat.
Proof.
  intros a b Ha. unfold ikc_shortest_separator.
  destruct ((nlen (shortest_separator (ikey_user a) (ikey_user b)) <? nlen (ikey_user a)) &&
            bytes_ltb (ikey_user a) (shortest_separator (ikey_user a) (ikey_user b))) eqn:Hc; [|lia].
  apply andb_true_iff in Hc. destruct Hc as [Hlen _]. apply N.ltb_lt in Hlen.
  unfold nlen in Hlen. rewrite app_length. unfold seek_tag. rewrite le64_length.
  assert (Hu : length (ikey_user a) = (length a - 8)%nat).
  { unfold ikey_user. rewrite firstn_length. lia. }
  lia.
Qed.

Theorem ikc_short_successor_length : forall a,
  (8 <= length a)%nat ->
  (8 <= length (ikc_short_successor a) <= length a)%nat.
Proof.
  intros a Ha. unfold ikc_short_successor.
  destruct ((nlen (short_successor (ikey_user a)) <? nlen (ikey_user a)) &&
            bytes_ltb (ikey_user a) (short_successor (ikey_user a))) eqn:Hc; [|lia].
  apply andb_true_iff in Hc. destruct Hc as [Hlen _]. apply N.ltb_lt in Hlen.
  unfold nlen in Hlen. rewrite app_length. unfold seek_tag. rewrite le64_length.
  assert (Hu : length (ikey_user a) = (length a - 8)%nat).
  { unfold ikey_user. rewrite firstn_length. lia. }
  lia.
Qed.

Print Assumptions ikey_compare_strict_total_order.
Print Assumptions ikc_shortest_separator_contract.
