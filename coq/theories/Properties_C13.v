(* Properties_C13.v -- theorems for property C13, allocator part (file numbers).
   Statements only; the proofs are in EngineTop.v. *)
From LCDB Require Import Base Engine EngineSpec EngineRead EngineSteps EngineTop.
Local Open Scope N_scope.

(* live table numbers are below the counter and pairwise distinct *)
Theorem C13_numbers_fresh : forall ucmp, total_order ucmp -> forall ops s,
  run ucmp init_state ops = Some s ->
  (forall f, In f (concat (levels s)) -> fnum f < next_file s) /\
  NoDup (map fnum (concat (levels s))).
Proof. exact numbers_fresh. Qed.
Print Assumptions C13_numbers_fresh.

(* the counter never goes back while the database is open *)
Theorem C13_next_file_monotone : forall ucmp s o s',
  step ucmp s o = Some s' -> not_reopen o = true -> next_file s <= next_file s'.
Proof. exact next_file_monotone. Qed.
Print Assumptions C13_next_file_monotone.

(* while open, a created table gets a number the allocator had not handed out *)
Theorem C13_created_numbers_alloc : forall ucmp, total_order ucmp -> forall s o s',
  inv_b ucmp s = true -> step ucmp s o = Some s' -> not_reopen o = true ->
  forall f, In f (concat (levels s')) ->
  In f (concat (levels s)) \/ next_file s <= fnum f < next_file s'.
Proof. exact created_numbers_alloc. Qed.
Print Assumptions C13_created_numbers_alloc.

(* every step, reopen included: a created table is numbered above every table that was
   live before the step, and below the new counter *)
Theorem C13_created_numbers_fresh : forall ucmp, total_order ucmp -> forall s o s',
  inv_b ucmp s = true -> step ucmp s o = Some s' ->
  forall f, In f (concat (levels s')) ->
  In f (concat (levels s)) \/
  ((forall g, In g (concat (levels s)) -> fnum g < fnum f) /\ fnum f < next_file s').
Proof. exact created_numbers_fresh. Qed.
Print Assumptions C13_created_numbers_fresh.

(* ... so never the number of a file that was live *)
Theorem C13_created_numbers_not_live : forall ucmp, total_order ucmp -> forall s o s',
  inv_b ucmp s = true -> step ucmp s o = Some s' ->
  forall f, In f (concat (levels s')) -> ~ In f (concat (levels s)) ->
  forall g, In g (concat (levels s)) -> fnum g <> fnum f.
Proof. exact created_numbers_not_live. Qed.
Print Assumptions C13_created_numbers_not_live.

(* along a whole run without reopen *)
Theorem C13_run_created_numbers_fresh : forall ucmp, total_order ucmp -> forall ops s s',
  inv_b ucmp s = true -> run ucmp s ops = Some s' -> no_reopen ops = true ->
  next_file s <= next_file s' /\
  forall f, In f (concat (levels s')) ->
            In f (concat (levels s)) \/ next_file s <= fnum f < next_file s'.
Proof. exact run_created_numbers_fresh. Qed.
Print Assumptions C13_run_created_numbers_fresh.

(* the unrestricted forms fail for OReopen: the model's reopen restarts the counter from
   the MANIFEST value, which only has to exceed the live table numbers *)
Theorem C13_next_file_not_monotone_across_reopen :
  ~ (forall ucmp s o s', step ucmp s o = Some s' -> next_file s <= next_file s').
Proof. exact next_file_monotone_statement_false. Qed.
Print Assumptions C13_next_file_not_monotone_across_reopen.

Theorem C13_reopen_may_number_below_old_counter :
  ~ (forall ucmp s o s', inv_b ucmp s = true -> step ucmp s o = Some s' ->
     forall f, In f (concat (levels s')) -> ~ In f (concat (levels s)) -> next_file s <= fnum f).
Proof. exact created_numbers_fresh_statement_false. Qed.
Print Assumptions C13_reopen_may_number_below_old_counter.
