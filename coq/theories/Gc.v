(* Gc.v -- model of ldb_remove_obsolete_files (src/db_impl.c): which directory entries the
   garbage collector keeps and which it unlinks, as a function of
     - the set of table numbers that are "live": every file of every version that is still
       referenced (the current one, and the ones pinned by iterators / in-flight reads), plus
       the pending outputs of running compactions / flushes,
     - versions->log_number, versions->prev_log_number, versions->manifest_file_number.
   File names are parsed with the model of ldb_parse_filename (Filename.v).  Definitions only;
   proofs in GcProofs.v.  Property C13. *)
From LCDB Require Export Base Filename.
Local Open Scope N_scope.

Record gc_state := {
  g_live : list N;       (* pending_outputs + ldb_versions_add_files *)
  g_log : N;             (* versions->log_number *)
  g_prevlog : N;         (* versions->prev_log_number *)
  g_manifest : N         (* versions->manifest_file_number *)
}.

Definition memN (n : N) (l : list N) : bool := existsb (N.eqb n) l.

(* the `switch (type)` of ldb_remove_obsolete_files *)
Definition keep_file (st : gc_state) (t : ftype) (n : N) : bool :=
  match t with
  | FLog => (g_log st <=? n) || (n =? g_prevlog st)
  | FDesc => g_manifest st <=? n
  | FTable => memN n (g_live st)
  | FTemp => memN n (g_live st)
  | FCurrent => true
  | FLock => true
  | FInfo => true
  end.

(* names that do not parse are never touched *)
Definition gc_keeps (st : gc_state) (name : bytes) : bool :=
  match parse_filename name with
  | None => true
  | Some (t, n) => keep_file st t n
  end.

(* directory after / files unlinked by one collection (the listing is the one ldb_get_children returned) *)
Definition gc (st : gc_state) (dir : list bytes) : list bytes := filter (gc_keeps st) dir.
Definition gc_removed (st : gc_state) (dir : list bytes) : list bytes :=
  filter (fun x => negb (gc_keeps st x)) dir.

(* ---- what "needed" means (the specification side) ---------------------------------------- *)

(* a version = the table numbers it references; `pinned` = every version still referenced *)
Definition live_of (pending : list N) (pinned : list (list N)) : list N := pending ++ concat pinned.

(* a name somebody still needs:
   - a table (either suffix) or temp file whose number is referenced by a pinned version or is a pending output,
   - a log that may hold records not yet in a table of the installed version (number >= log_number) or the
     previous incarnation's log while it is being recovered,
   - the MANIFEST in use (or a newer incarnation's),
   - CURRENT, LOCK, the info logs, and anything that is not a database file name at all. *)
Definition needed (st : gc_state) (name : bytes) : Prop :=
  match parse_filename name with
  | None => True
  | Some (FTable, n) | Some (FTemp, n) => In n (g_live st)
  | Some (FLog, n) => g_log st <= n \/ n = g_prevlog st
  | Some (FDesc, n) => g_manifest st <= n
  | Some (FCurrent, _) | Some (FLock, _) | Some (FInfo, _) => True
  end.
