(* LifecycleProofs.v -- proofs about Lifecycle.v (property C20). *)
From LCDB Require Import Base BaseProofs Engine EngineSpec EngineRead Filename FilenameProofs Edit Lifecycle.
From LCDB Require Import EngineStepsBase EngineStepsInv EngineStepsFlush EngineSteps EngineTop IteratorProofs.
Require Import Lia.
Local Open Scope N_scope.

(* ================================================================== 1. locks, one process *)
Lemma dir_in_In d l : dir_in d l = true <-> In d l.
Proof.
  unfold dir_in. rewrite existsb_exists. split.
  - intros (x & Hx & He). apply bytes_eqb_eq in He. subst x. exact Hx.
  - intros H. exists d. split; [exact H|apply bytes_eqb_refl].
Qed.

Lemma dir_in_false d l : dir_in d l = false <-> ~ In d l.
Proof.
  split.
  - intros Hf Hin. apply dir_in_In in Hin. congruence.
  - intros Hn. destruct (dir_in d l) eqn:E; [|reflexivity]. apply dir_in_In in E. contradiction.
Qed.

Lemma dir_remove_split d l : In d l ->
  exists a b, l = a ++ d :: b /\ dir_remove d l = a ++ b /\ ~ In d a.
Proof.
  induction l as [|x r IH]; intros Hin; [destruct Hin|].
  cbn [dir_remove]. destruct (bytes_eqb d x) eqn:E.
  - apply bytes_eqb_eq in E. subst x. exists [], r. repeat split; auto.
  - apply bytes_eqb_neq in E. destruct Hin as [->|Hin]; [contradiction|].
    destruct (IH Hin) as (a & b & -> & Hr & Hna). exists (x :: a), b.
    split; [reflexivity|]. split; [cbn; rewrite Hr; reflexivity|].
    intros [->|H]; [contradiction|auto].
Qed.

Lemma dir_remove_notin d l : ~ In d l -> dir_remove d l = l.
Proof.
  induction l as [|x r IH]; intros Hn; [reflexivity|].
  cbn [dir_remove]. destruct (bytes_eqb d x) eqn:E.
  - apply bytes_eqb_eq in E. subst x. exfalso. apply Hn. left; reflexivity.
  - rewrite IH; [reflexivity|]. intros H. apply Hn. right; exact H.
Qed.

Lemma dir_remove_In d l x : NoDup l -> (In x (dir_remove d l) <-> In x l /\ x <> d).
Proof.
  intros Hnd. destruct (in_dec (list_eq_dec N.eq_dec) d l) as [Hin|Hn].
  - destruct (dir_remove_split d l Hin) as (a & b & -> & -> & Hna).
    apply NoDup_remove_2 in Hnd. rewrite !in_app_iff in *. cbn [In]. split.
    + intros H. split; [tauto|]. intros ->. tauto.
    + intros ([H|[H|H]] & Hne); [tauto|congruence|tauto].
  - rewrite dir_remove_notin by exact Hn. split; [|tauto].
    intros H. split; [exact H|]. intros ->. contradiction.
Qed.

Lemma dir_remove_NoDup d l : NoDup l -> NoDup (dir_remove d l).
Proof.
  intros Hnd. destruct (in_dec (list_eq_dec N.eq_dec) d l) as [Hin|Hn].
  - destruct (dir_remove_split d l Hin) as (a & b & -> & -> & _). apply NoDup_remove_1 in Hnd. exact Hnd.
  - rewrite dir_remove_notin by exact Hn. exact Hnd.
Qed.

Lemma handle_dir_split h hs d : handle_dir h hs = Some d ->
  exists a b, hs = a ++ (h, d) :: b /\ handle_remove h hs = a ++ b.
Proof.
  induction hs as [|[h' d'] r IH]; intros H; [discriminate|].
  cbn [handle_dir] in H. cbn [handle_remove]. destruct (h =? h') eqn:E.
  - apply N.eqb_eq in E. subst h'. injection H as ->. exists [], r. split; reflexivity.
  - destruct (IH H) as (a & b & -> & Hr). exists ((h', d') :: a), b. split; [reflexivity|].
    cbn. rewrite Hr. reflexivity.
Qed.

Lemma dir_handle_Some d hs : In d (map snd hs) -> exists h, dir_handle d hs = Some h /\ handle_dir h hs <> None.
Proof.
  induction hs as [|[h' d'] r IH]; intros Hin; [destruct Hin|].
  cbn [dir_handle]. destruct (bytes_eqb d d') eqn:E.
  - exists h'. split; [reflexivity|]. cbn [handle_dir]. rewrite N.eqb_refl. discriminate.
  - apply bytes_eqb_neq in E. destruct Hin as [Hd|Hin]; [cbn in Hd; congruence|].
    destruct (IH Hin) as (h & Hh & Hne). exists h. split; [exact Hh|].
    cbn [handle_dir]. destruct (h =? h'); [discriminate|exact Hne].
Qed.

(* with unique handle identifiers, the handle found for d is a handle on d *)
Lemma dir_handle_dir d hs h : NoDup (map fst hs) -> dir_handle d hs = Some h -> handle_dir h hs = Some d.
Proof.
  induction hs as [|[h' d'] r IH]; intros Hnd H; [discriminate|].
  cbn [dir_handle] in H. cbn [map fst] in Hnd. inversion Hnd as [|? ? Hni Hnd']; subst.
  cbn [handle_dir]. destruct (bytes_eqb d d') eqn:E.
  - injection H as ->. rewrite N.eqb_refl. apply bytes_eqb_eq in E. congruence.
  - specialize (IH Hnd' H). destruct (h =? h') eqn:Eh; [|exact IH].
    apply N.eqb_eq in Eh. subst h'. exfalso. apply Hni.
    destruct (handle_dir_split h r d IH) as (a & b & -> & _). rewrite map_app, in_app_iff. right. left. reflexivity.
Qed.

Record LInv (s : lk_state) : Prop := {
  li_locks_nodup : NoDup (locks s);
  li_dirs_nodup : NoDup (open_dirs s);
  li_ids_nodup : NoDup (map fst (handles s));
  li_ids_bound : forall x, In x (handles s) -> fst x < next_handle s;
  li_held : forall d, In d (locks s) <-> In d (open_dirs s) }.

Lemma lk_init_LInv : LInv lk_init.
Proof. constructor; cbn; try constructor; try tauto; intros x []. Qed.

Lemma open_gen_LInv ok s d : LInv s -> LInv (fst (lc_open_gen ok s d)).
Proof.
  intros [H1 H2 H3 H4 H5]. unfold lc_open_gen, lock_file.
  destruct (dir_in d (locks s)) eqn:E; [constructor; assumption|].
  apply dir_in_false in E. destruct ok; cbn [fst].
  - constructor; unfold open_dirs in *; cbn [locks handles next_handle map fst snd].
    + constructor; assumption.
    + constructor; [|assumption]. rewrite <- H5. exact E.
    + constructor; [|assumption]. intros Hin. apply in_map_iff in Hin. destruct Hin as (x & Hx & Hin).
      specialize (H4 x Hin). lia.
    + intros x [<-|Hx]; [cbn; lia|]. specialize (H4 x Hx). lia.
    + intros d0. cbn [In]. rewrite H5. tauto.
  - assert (Hu : unlock_file d (d :: locks s) = locks s).
    { unfold unlock_file. cbn [dir_remove]. rewrite bytes_eqb_refl. reflexivity. }
    rewrite Hu. constructor; assumption.
Qed.

Lemma close_handle_LInv s h : LInv s -> LInv (fst (lc_close_handle s h)).
Proof.
  intros [H1 H2 H3 H4 H5]. unfold lc_close_handle.
  destruct (handle_dir h (handles s)) as [d|] eqn:E; cbn [fst]; [|constructor; assumption].
  destruct (handle_dir_split h (handles s) d E) as (a & b & Hs & Hr).
  unfold open_dirs in *. rewrite Hs in *. rewrite Hr. clear Hr.
  rewrite map_app in *. cbn [map fst snd] in *.
  constructor; cbn [locks handles next_handle]; unfold open_dirs; cbn [handles].
  - apply dir_remove_NoDup. exact H1.
  - rewrite map_app. apply NoDup_remove_1 in H2. exact H2.
  - rewrite map_app. apply NoDup_remove_1 in H3. exact H3.
  - intros x Hx. apply H4. rewrite in_app_iff in *. cbn [In]. tauto.
  - intros d0. unfold unlock_file. rewrite dir_remove_In by exact H1. rewrite H5.
    pose proof (NoDup_remove_2 _ _ _ H2) as Hni. rewrite map_app, !in_app_iff in *. cbn [In]. split.
    + intros ([H|[H|H]] & Hne); [tauto|congruence|tauto].
    + intros H. split; [tauto|]. intros ->. tauto.
Qed.

Lemma close_LInv s d : LInv s -> LInv (fst (lc_close s d)).
Proof.
  intros H. unfold lc_close. destruct (dir_handle d (handles s)); [apply close_handle_LInv; exact H|exact H].
Qed.

Lemma lk_step_LInv s o : LInv s -> LInv (fst (lk_step s o)).
Proof.
  intros H. destruct o; cbn [lk_step].
  - apply open_gen_LInv; exact H.
  - apply open_gen_LInv; exact H.
  - apply close_LInv; exact H.
  - apply close_handle_LInv; exact H.
Qed.

Lemma lk_run_LInv ops : forall s, LInv s -> LInv (lk_run s ops).
Proof.
  induction ops as [|o r IH]; intros s H; cbn [lk_run]; [exact H|].
  apply IH. apply lk_step_LInv. exact H.
Qed.

Lemma count_nodup d l : NoDup l -> (length (filter (bytes_eqb d) l) <= 1)%nat.
Proof.
  induction l as [|x r IH]; intros Hnd; [cbn; lia|].
  inversion Hnd as [|? ? Hni Hnd']; subst. cbn [filter]. destruct (bytes_eqb d x) eqn:E.
  - apply bytes_eqb_eq in E. subst x.
    assert (Hz : filter (bytes_eqb d) r = []).
    { destruct (filter (bytes_eqb d) r) as [|y t] eqn:F; [reflexivity|].
      assert (Hy : In y (filter (bytes_eqb d) r)) by (rewrite F; left; reflexivity).
      apply filter_In in Hy. destruct Hy as [Hy Hey]. apply bytes_eqb_eq in Hey. subst y. contradiction. }
    rewrite Hz. cbn. lia.
  - apply IH. exact Hnd'.
Qed.

(* the facts of C20_exclusive, for any state satisfying the invariant *)
Lemma second_open_fails ok s d : LInv s -> In d (open_dirs s) -> lc_open_gen ok s d = (s, RLocked).
Proof.
  intros HI Hin. unfold lc_open_gen, lock_file.
  apply (li_held s HI) in Hin. apply dir_in_In in Hin. rewrite Hin. reflexivity.
Qed.

Lemma open_succeeds s d : LInv s -> ~ In d (open_dirs s) ->
  snd (lc_open s d) = ROpened (next_handle s) /\ In d (open_dirs (fst (lc_open s d))).
Proof.
  intros HI Hn. unfold lc_open, lc_open_gen, lock_file.
  rewrite <- (li_held s HI) in Hn. apply dir_in_false in Hn. rewrite Hn. cbn. auto.
Qed.

Lemma failed_open_releases s d : LInv s -> ~ In d (open_dirs s) -> lc_failed_open s d = (s, RFailed).
Proof.
  intros HI Hn. unfold lc_failed_open, lc_open_gen, lock_file.
  rewrite <- (li_held s HI) in Hn. apply dir_in_false in Hn. rewrite Hn.
  unfold unlock_file. cbn [dir_remove]. rewrite bytes_eqb_refl. destruct s; reflexivity.
Qed.

Lemma close_releases s d : LInv s -> In d (open_dirs s) ->
  snd (lc_close s d) = RClosed /\ ~ In d (open_dirs (fst (lc_close s d))) /\
  (forall d', d' <> d -> (In d' (open_dirs (fst (lc_close s d))) <-> In d' (open_dirs s))).
Proof.
  intros HI Hin. unfold lc_close.
  destruct (dir_handle_Some d (handles s) Hin) as (h & Hh & _). rewrite Hh.
  pose proof (dir_handle_dir d (handles s) h (li_ids_nodup s HI) Hh) as Hd.
  unfold lc_close_handle. rewrite Hd. cbn [fst snd]. split; [reflexivity|].
  destruct (handle_dir_split h (handles s) d Hd) as (a & b & Hs & Hr).
  pose proof (li_dirs_nodup s HI) as Hnd. unfold open_dirs in *. cbn [handles]. rewrite Hr. rewrite Hs in *.
  rewrite !map_app in *. cbn [map snd] in *. pose proof (NoDup_remove_2 _ _ _ Hnd) as Hni.
  split; [exact Hni|]. intros d' Hne. rewrite !in_app_iff. cbn [In]. split; [tauto|].
  intros [H|[H|H]]; [tauto|congruence|tauto].
Qed.

(* ================================================================== 1b. several processes *)
Lemma pd_eqb_eq x y : pd_eqb x y = true <-> x = y.
Proof.
  destruct x as [p d], y as [p' d']. unfold pd_eqb. cbn [fst snd]. rewrite andb_true_iff, N.eqb_eq, bytes_eqb_eq.
  split; [intros [-> ->]; reflexivity|intros H; injection H; auto].
Qed.

Lemma pd_in_In x l : pd_in x l = true <-> In x l.
Proof.
  unfold pd_in. rewrite existsb_exists. split.
  - intros (y & Hy & He). apply pd_eqb_eq in He. subst y. exact Hy.
  - intros H. exists x. split; [exact H|apply pd_eqb_eq; reflexivity].
Qed.

Lemma os_close_id p d l : ~ In (p, d) l -> os_close p d l = l.
Proof.
  intros Hn. unfold os_close. induction l as [|y r IH]; [reflexivity|].
  cbn [filter]. destruct (pd_eqb (p, d) y) eqn:E.
  - apply pd_eqb_eq in E. subst y. exfalso. apply Hn. left; reflexivity.
  - cbn [negb]. rewrite IH; [reflexivity|]. intros H. apply Hn. right; exact H.
Qed.

Lemma os_close_remove x l : NoDup (map snd l) ->
  filter (fun y => negb (pd_eqb x y)) l = pd_remove x l.
Proof.
  induction l as [|y r IH]; intros Hnd; [reflexivity|].
  cbn [map] in Hnd. inversion Hnd as [|? ? Hni Hnd']; subst.
  cbn [filter pd_remove]. destruct (pd_eqb x y) eqn:E; cbn [negb].
  - apply pd_eqb_eq in E. subst y. destruct x as [p d].
    apply (os_close_id p d r). intros Hin. apply Hni. apply in_map_iff. exists (p, d). split; [reflexivity|exact Hin].
  - rewrite IH by exact Hnd'. reflexivity.
Qed.

Lemma pd_remove_sub x l y : In y (pd_remove x l) -> In y l.
Proof.
  induction l as [|z r IH]; cbn [pd_remove]; [tauto|].
  destruct (pd_eqb x z); cbn [In]; [tauto|]. intros [H|H]; [tauto|right; apply IH; exact H].
Qed.

Lemma pd_remove_nodup x l : NoDup (map snd l) -> NoDup (map snd (pd_remove x l)).
Proof.
  induction l as [|z r IH]; intros Hnd; [constructor|].
  cbn [map] in Hnd. inversion Hnd as [|? ? Hni Hnd']; subst. cbn [pd_remove].
  destruct (pd_eqb x z); [exact Hnd'|]. cbn [map]. constructor; [|apply IH; exact Hnd'].
  intros Hin. apply Hni. apply in_map_iff in Hin. destruct Hin as (y & Hy & Hin).
  apply in_map_iff. exists y. split; [exact Hy|]. eapply pd_remove_sub; exact Hin.
Qed.

(* with the table consulted before the LOCK file is opened: the three lists coincide and
   no directory occurs twice *)
Definition PInv (s : mp_state) : Prop :=
  p_os s = p_table s /\ p_handles s = p_table s /\ NoDup (map snd (p_table s)).

Lemma pstep_checked_PInv s o : PInv s -> PInv (fst (mp_step true s o)).
Proof.
  intros (H1 & H2 & H3). destruct o as [p d|p d]; cbn [mp_step].
  - unfold p_lock_file. destruct (pd_in (p, d) (p_table s)) eqn:E; [cbn; repeat split; assumption|].
    assert (Hn : ~ In (p, d) (p_table s)).
    { intros Hin. apply pd_in_In in Hin. congruence. }
    destruct (os_conflict p d (p_os s)) eqn:C; cbn [fst p_table p_os p_handles].
    + rewrite H1. rewrite os_close_id by exact Hn. repeat split; assumption.
    + rewrite H1, H2. repeat split. cbn [map snd]. constructor; [|exact H3].
      intros Hin. apply in_map_iff in Hin. destruct Hin as ([p' d'] & Hd & Hin). cbn [snd] in Hd. subst d'.
      destruct (N.eq_dec p' p) as [->|Hne]; [contradiction|].
      assert (Hc : os_conflict p d (p_os s) = true).
      { unfold os_conflict. apply existsb_exists. exists (p', d). rewrite H1. split; [exact Hin|].
        cbn [fst snd]. rewrite bytes_eqb_refl. apply N.eqb_neq in Hne. rewrite Hne. reflexivity. }
      congruence.
  - destruct (pd_in (p, d) (p_handles s)) eqn:E; cbn [fst]; [|repeat split; assumption].
    cbn [p_table p_os p_handles]. unfold os_close. rewrite H1, H2. rewrite os_close_remove by exact H3.
    repeat split. apply pd_remove_nodup. exact H3.
Qed.

Lemma prun_checked_PInv ops : forall s, PInv s -> PInv (mp_run true s ops).
Proof.
  induction ops as [|o r IH]; intros s H; cbn [mp_run]; [exact H|]. apply IH. apply pstep_checked_PInv. exact H.
Qed.

Lemma p_count_nodup d l : NoDup (map snd l) -> (length (filter (fun y : N * dir => bytes_eqb d (snd y)) l) <= 1)%nat.
Proof.
  induction l as [|x r IH]; intros Hnd; [cbn; lia|].
  cbn [map] in Hnd. inversion Hnd as [|? ? Hni Hnd']; subst. cbn [filter]. destruct (bytes_eqb d (snd x)) eqn:E.
  - apply bytes_eqb_eq in E.
    assert (Hz : filter (fun y : N * dir => bytes_eqb d (snd y)) r = []).
    { destruct (filter (fun y : N * dir => bytes_eqb d (snd y)) r) as [|y t] eqn:F; [reflexivity|].
      assert (Hy : In y (filter (fun y : N * dir => bytes_eqb d (snd y)) r)) by (rewrite F; left; reflexivity).
      apply filter_In in Hy. destruct Hy as [Hy Hey]. apply bytes_eqb_eq in Hey.
      exfalso. apply Hni. apply in_map_iff. exists y. split; [congruence|exact Hy]. }
    rewrite Hz. cbn. lia.
  - apply IH. exact Hnd'.
Qed.

(* ================================================================== 2. destroy *)
Lemma destroy_remaining_In n l :
  In n (destroy_remaining l) <-> In n l /\ parse_filename n = None.
Proof.
  unfold destroy_remaining. rewrite filter_In. split.
  - intros [H1 H2]. split; [exact H1|]. destruct (parse_filename n); [discriminate|reflexivity].
  - intros [H1 H2]. split; [exact H1|]. rewrite H2. reflexivity.
Qed.

Lemma destroy_remaining_nil l : destroy_remaining l = [] <-> forall n, In n l -> owned n = true.
Proof.
  split.
  - intros H n Hin. unfold owned. destruct (parse_filename n) eqn:E; [reflexivity|].
    assert (Hr : In n (destroy_remaining l)) by (apply destroy_remaining_In; auto). rewrite H in Hr. destruct Hr.
  - intros H. destruct (destroy_remaining l) as [|n t] eqn:E; [reflexivity|].
    assert (Hr : In n (destroy_remaining l)) by (rewrite E; left; reflexivity).
    apply destroy_remaining_In in Hr. destruct Hr as [Hin Hp]. specialize (H n Hin). unfold owned in H.
    rewrite Hp in H. discriminate.
Qed.

Lemma destroy_remaining_idem l : destroy_remaining (destroy_remaining l) = destroy_remaining l.
Proof.
  unfold destroy_remaining. induction l as [|n r IH]; [reflexivity|].
  cbn [filter]. destruct (parse_filename n) eqn:E; [exact IH|]. cbn [filter]. rewrite E. rewrite IH. reflexivity.
Qed.

(* ================================================================== 3. backup *)
Section Backup.
Variable ucmp : bytes -> bytes -> comparison.
Hypothesis TO : total_order ucmp.

Lemma backup_is_step s bounds nums nf :
  backup_state ucmp s bounds nums nf = step ucmp s (OReopen bounds nums nf).
Proof. reflexivity. Qed.

Lemma backup_last_seq s bounds nums nf b :
  backup_state ucmp s bounds nums nf = Some b -> last_seq b = last_seq s /\ snaps b = [] /\ hist b = hist s.
Proof.
  unfold backup_state. intros H. apply (reopen_inv ucmp) in H.
  destruct H as (fs & top & _ & _ & _ & _ & ->). cbn. auto.
Qed.

Lemma backup_Inv2 s bounds nums nf b :
  Inv2 ucmp s -> backup_state ucmp s bounds nums nf = Some b -> Inv2 ucmp b.
Proof.
  intros HI H. rewrite backup_is_step in H. eapply (step_preserves_Inv2 ucmp TO); eauto.
Qed.

Lemma backup_views s bounds nums nf b :
  Inv2 ucmp s -> backup_state ucmp s bounds nums nf = Some b ->
  forall k q, readable s q -> view ucmp b k q = view ucmp s k q.
Proof.
  intros HI H k q Hq. rewrite backup_is_step in H.
  apply (step_preserves_views ucmp TO s (OReopen bounds nums nf) b HI H); [exact I|exact Hq].
Qed.

Lemma backup_contents s bounds nums nf b :
  Inv2 ucmp s -> backup_state ucmp s bounds nums nf = Some b ->
  forall k, view ucmp b k (last_seq s) = view ucmp s k (last_seq s).
Proof.
  intros HI H k. apply (backup_views s bounds nums nf b HI H). apply (readable_last ucmp TO). exact (proj1 HI).
Qed.

(* what the public read functions return on the two databases *)
Lemma backup_get s bounds nums nf b :
  Inv2 ucmp s -> backup_state ucmp s bounds nums nf = Some b ->
  forall k, visible (get ucmp b k (last_seq b)) = visible (get ucmp s k (last_seq s)).
Proof.
  intros HI H k. pose proof (backup_Inv2 s bounds nums nf b HI H) as HIb.
  destruct (backup_last_seq s bounds nums nf b H) as (Hl & _ & _). rewrite Hl.
  rewrite (get_view ucmp TO b k (last_seq s) (proj1 HIb)).
  rewrite (get_view ucmp TO s k (last_seq s) (proj1 HI)).
  apply (backup_contents s bounds nums nf b HI H).
Qed.

Lemma backup_scan s bounds nums nf b :
  Inv2 ucmp s -> backup_state ucmp s bounds nums nf = Some b ->
  forall k v,
  (exists k', ucmp k' k = Eq /\ In (k', v) (live_view ucmp b (last_seq b))) <->
  (exists k', ucmp k' k = Eq /\ In (k', v) (live_view ucmp s (last_seq s))).
Proof.
  intros HI H k v. pose proof (backup_Inv2 s bounds nums nf b HI H) as HIb.
  rewrite (iterator_agrees_with_get ucmp TO b k (last_seq b) v (proj1 HIb)).
  rewrite (iterator_agrees_with_get ucmp TO s k (last_seq s) v (proj1 HI)).
  rewrite (backup_get s bounds nums nf b HI H k). tauto.
Qed.

(* a backup can always be taken: recovery with nothing cut into tables *)
Lemma backup_exists s :
  exists b, backup_state ucmp s [] [] (next_file s + N.of_nat (length (concat (levels s))) +
            fold_right (fun f m => N.max (fnum f + 1) m) 0 (concat (levels s))) = Some b.
Proof.
  set (mx := fold_right (fun f m => N.max (fnum f + 1) m) 0 (concat (levels s))).
  assert (Hmx : forall f, In f (concat (levels s)) -> fnum f < mx).
  { unfold mx. induction (concat (levels s)) as [|g r IH]; intros f Hf; [destruct Hf|].
    cbn [fold_right]. destruct Hf as [<-|Hf]; [lia|]. specialize (IH f Hf). lia. }
  destruct (reopen_same_layout_exists ucmp s
              (next_file s + N.of_nat (length (concat (levels s))) + mx)) as (b & Hb & _).
  - intros f Hf. specialize (Hmx f Hf). lia.
  - exists b. exact Hb.
Qed.

(* ---- source and backup evolve independently ---- *)
Lemma wrun_split : forall ops w w',
  wrun ucmp w ops = Some w' <->
  run ucmp (w_src w) (src_ops ops) = Some (w_src w') /\ run ucmp (w_bak w) (bak_ops ops) = Some (w_bak w').
Proof.
  induction ops as [|o r IH]; intros w w'.
  - cbn. destruct w as [a b], w' as [a' b']. cbn. split.
    + intros H. injection H as -> ->. auto.
    + intros [H1 H2]. injection H1 as ->. injection H2 as ->. reflexivity.
  - destruct o as [o|o]; cbn [wrun wstep src_ops bak_ops run].
    + destruct (step ucmp (w_src w) o) as [s1|]; [|split; [discriminate|intros [H _]; discriminate]].
      rewrite IH. cbn [w_src w_bak]. tauto.
    + destruct (step ucmp (w_bak w) o) as [b1|]; [|split; [discriminate|intros [_ H]; discriminate]].
      rewrite IH. cbn [w_src w_bak]. tauto.
Qed.

End Backup.

(* ================================================================== 4. comparator *)
Lemma edits_check_true edits req :
  edits_check edits req = true <-> forall e c, In e edits -> e_comparator e = Some c -> c = req.
Proof.
  unfold edits_check, open_check. rewrite forallb_forall. split.
  - intros H e c Hin Hc. specialize (H e Hin). rewrite Hc in H. apply bytes_eqb_eq in H. exact H.
  - intros H e Hin. destruct (e_comparator e) as [c|] eqn:E; [|reflexivity].
    apply bytes_eqb_eq. eapply H; eauto.
Qed.
