(* Group.v -- model of ldb_build_batch_group (src/db_impl.c): which queued writers the head of the
   writer queue merges into its group commit.  A queue entry is (encoded batch size in bytes, sync flag,
   has a batch -- a NULL batch is a flush request that only waits).  The result is the number of queue
   entries the group covers, counted from the head: the C code's *last_writer is entry number n-1, the
   entries 0..n-1 are popped and acknowledged by the leader, and exactly those of them that have a batch
   were appended to the group batch.  Definitions only; proofs in GroupProofs.v.  Properties C02, C04, C08. *)
From Coq Require Import List NArith Bool.
Import ListNotations.
Local Open Scope N_scope.

Record gw := mkGW { gw_size : N; gw_sync : bool; gw_batch : bool }.

(* "if the original write is small, limit the growth" *)
Definition group_max_size (first_size : N) : N :=
  if first_size <=? 131072 then first_size + 131072 else 1048576.

(* the for loop over first->next ...: returns how many FOLLOWERS are covered *)
Fixpoint group_grow (fsync : bool) (maxs size : N) (rest : list gw) : nat :=
  match rest with
  | [] => O
  | w :: r =>
      if gw_sync w && negb fsync then O                       (* a sync write never joins a non-sync leader *)
      else if gw_batch w then
        let size' := size + gw_size w in
        if maxs <? size' then O                               (* "do not make batch too big" *)
        else S (group_grow fsync maxs size' r)
      else S (group_grow fsync maxs size r)                   (* no batch: covered, nothing appended *)
  end.

Definition build_group (q : list gw) : nat :=
  match q with
  | [] => O
  | f :: r => S (group_grow (gw_sync f) (group_max_size (gw_size f)) (gw_size f) r)
  end.

(* the members whose batches make up the group batch, and the bytes it holds *)
Definition group_members (q : list gw) : list gw := filter gw_batch (firstn (build_group q) q).
Definition group_bytes (q : list gw) : N := fold_right (fun w a => gw_size w + a) 0 (group_members q).

(* the leader fsyncs the log iff ITS OWN options say so *)
Definition group_is_synced (q : list gw) : bool :=
  match q with [] => false | f :: _ => gw_sync f end.
