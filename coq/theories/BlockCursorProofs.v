(* BlockCursorProofs.v -- a packaged form of the block-cursor simulation of
   BlockSeekProofs.v, usable from the table layer: [bcur isint I es it z] says that the
   block iterator [it] runs over the block [block_build I es] and stands at the list
   position [z] (a zipper over [es], or None = off the list).  Each block-iterator
   operation moves a [bcur] state as the reference cursor does. *)
From LCDB Require Import Base Varint Block BaseProofs VarintProofs BlockProofs BlockIterProofs BlockSeekProofs.
Require Import Lia ZifyBool ZifyNat ZifyN.
Ltac Zify.zify_post_hook ::= Z.div_mod_to_equations.
Local Open Scope N_scope.

(* strict sortedness of the keys of an entry list, in the form BlockSeekProofs uses *)
Definition sorted_by (cmp : bytes -> bytes -> comparison) (es : list entry) : Prop :=
  forall pre k v mid k' v' post, es = pre ++ (k, v) :: mid ++ (k', v') :: post -> cmp k k' = Lt.

Lemma sorted_by_mid : forall cmp a b c, sorted_by cmp (a ++ b ++ c) -> sorted_by cmp b.
Proof.
  intros cmp a b c H pre k v mid k' v' post Hb.
  apply (H (a ++ pre) k v mid k' v' (post ++ c)).
  rewrite Hb. rewrite <- ?app_assoc. cbn [app]. rewrite <- ?app_assoc. reflexivity.
Qed.

Lemma sorted_by_app_l : forall cmp a b, sorted_by cmp (a ++ b) -> sorted_by cmp a.
Proof. intros cmp a b H. apply (sorted_by_mid cmp [] a b). exact H. Qed.

Lemma sorted_by_app_r : forall cmp a b, sorted_by cmp (a ++ b) -> sorted_by cmp b.
Proof. intros cmp a b H. apply (sorted_by_mid cmp a b []). rewrite app_nil_r. exact H. Qed.

Lemma sorted_by_cross : forall cmp a b x y,
  sorted_by cmp (a ++ b) -> In x a -> In y b -> cmp (fst x) (fst y) = Lt.
Proof.
  intros cmp a b [k v] [k' v'] H Hx Hy.
  destruct (in_split _ _ Hx) as [a1 [a2 ->]]. destruct (in_split _ _ Hy) as [b1 [b2 ->]].
  cbn [fst]. apply (H a1 k v (a2 ++ b1) k' v' b2).
  rewrite <- ?app_assoc. cbn [app]. rewrite <- ?app_assoc. reflexivity.
Qed.

(* the static facts about a built block that the simulation of BlockSeekProofs needs *)
Record bctx (isint : bool) (I : N) (es : list entry) (TR : bytes) (num : N) : Prop := {
  bc_wf : Forall wf_entry es;
  bc_ge8 : keys_ge8 isint es;
  bc_TR : nlen TR = 4 * num + 4;
  bc_num : 1 <= num;
  bc_restarts : forall j, j < num -> exists off, rp I es TR j = Ok off /\ restart_entry I es off;
  bc_rp0 : rp I es TR 0 = Ok 0;
  bc_empty : es = [] -> num = 1
}.

Definition bcur (isint : bool) (I : N) (es : list entry) (it : biter) (z : option zip) : Prop :=
  exists TR num, bctx isint I es TR num /\ sim I es TR num it z.

(* block_init + biter_create on a built block give a cursor off the list *)
Theorem block_build_cursor : forall isint I es,
  wf_entries es -> keys_ge8 isint es ->
  nlen (block_build I es) < 4294967296 ->
  exists blk it0,
    block_init (block_build I es) = Ok blk /\ biter_create blk = Ok it0 /\
    bcur isint I es it0 None.
Proof.
  intros isint I es [Hwf Hcount] H8 Hsize.
  unfold block_build, bb_finish in *.
  assert (Hinv0 : bb_inv bb_empty) by (unfold bb_inv; cbn; lia).
  destruct (bb_add_all_inv es I bb_empty Hinv0) as [[Hn H1] Hle].
  cbn [bb_empty bb_nrestarts] in Hle.
  destruct (bb_restarts_last es I bb_empty [] eq_refl) as [l' Hl'].
  destruct (bb_add_all_restarts I es [] bb_empty eq_refl eq_refl eq_refl) as [Hrec Hbsize].
  { constructor; [left; reflexivity|constructor]. }
  cbn [app] in Hrec, Hbsize.
  rewrite bb_add_all_buffer in *. cbn [bb_empty bb_buffer bb_chunks rev concat app bb_counter bb_last] in *.
  set (bb := bb_add_all I bb_empty es) in *.
  change (enc_entries I 0 [] es) with (encp I es) in *.
  set (n := bb_nrestarts bb) in *.
  set (rs := rev (bb_restarts bb)) in *.
  assert (Hrs0 : exists rs', rs = 0 :: rs') by (subst rs; rewrite Hl', rev_app_distr; eexists; reflexivity).
  assert (Hrslen : nlen rs = n) by (subst rs; unfold nlen; rewrite rev_length; fold (nlen (bb_restarts bb)); lia).
  set (TR := flat_map le32 rs ++ le32 n) in *.
  assert (HTR : nlen TR = 4 * n + 4).
  { subst TR. rewrite nlen_app, flat_map_le32_length, Hrslen.
    replace (nlen (le32 n)) with 4 by (unfold nlen; rewrite le32_length; reflexivity). lia. }
  set (E := nlen (encp I es)) in *.
  assert (Hsz : nlen (encp I es ++ TR) = E + 4 * n + 4) by (rewrite nlen_app, HTR; lia).
  assert (HrsE : Forall (fun off => restart_rec I es off) rs).
  { subst rs. apply Forall_rev. exact Hrec. }
  assert (Hrp : forall j, j < n -> exists off, rp I es TR j = Ok off /\ restart_entry I es off).
  { intros j Hj.
    destruct (nth_error rs (N.to_nat j)) as [off|] eqn:En.
    2:{ apply nth_error_None in En. unfold nlen in Hrslen. lia. }
    assert (Hin : In off rs) by (eapply nth_error_In; exact En).
    rewrite Forall_forall in HrsE. specialize (HrsE off Hin).
    assert (Hre : restart_entry I es off /\ off <= E).
    { destruct HrsE as [->|(p & r & A & B & C & D)].
      - split; [|lia]. exists [], es. split; [reflexivity|]. split; [reflexivity|]. split; [left; reflexivity|].
        destruct es; [right; reflexivity|left; discriminate].
      - split.
        + exists p, r. split; [exact A|]. split; [exact C|]. split; [right; exact D|left; exact B].
        + rewrite C. unfold E. rewrite A. apply encp_app_le. }
    destruct Hre as [Hre HoffE].
    exists off. split; [|exact Hre].
    unfold rp. subst TR.
    replace (j * 4) with (N.of_nat (N.to_nat j) * 4) by lia.
    rewrite (de32_flat_map_nth rs (le32 n) (N.to_nat j) off En) by lia.
    fold E. replace (E <? off) with false by lia. reflexivity. }
  assert (Hrp0 : rp I es TR 0 = Ok 0).
  { destruct Hrs0 as [rs' Hrs']. unfold rp. subst TR. rewrite Hrs'. cbn [flat_map].
    rewrite <- !app_assoc. change (drop_n (0 * 4) (le32 0 ++ flat_map le32 rs' ++ le32 n)) with (le32 0 ++ flat_map le32 rs' ++ le32 n).
    rewrite de32_le32 by lia. replace (nlen (encp I es) <? 0) with false by lia. reflexivity. }
  assert (Hempty : es = [] -> n = 1) by (intros ->; reflexivity).
  assert (Hlast : drop_n (E + 4 * n + 4 - 4) (encp I es ++ TR) = le32 n).
  { subst TR. rewrite !app_assoc. apply drop_n_app_exact.
    rewrite nlen_app, flat_map_le32_length, Hrslen. fold E. lia. }
  assert (Hrarr : drop_n E (encp I es ++ TR) = TR) by (apply drop_n_nlen_app).
  set (blk0 := mk_block (encp I es ++ TR) (E + 4 * n + 4) (E + 4 * n + 4) E).
  set (it0 := mk_biter (encp I es ++ TR) false E n TR E n [] 0 0 (encp I es ++ TR) (encp I es ++ TR) SOk).
  assert (Hbi : block_init (encp I es ++ TR) = Ok blk0).
  { unfold block_init. rewrite Hsz.
    replace (E + 4 * n + 4 <? 4) with false by lia.
    unfold read32. replace (E + 4 * n + 4 <? E + 4 * n + 4 - 4 + 4) with false by lia.
    rewrite Hlast. rewrite <- (app_nil_r (le32 n)) at 1. rewrite de32_le32 by lia. cbn [rbind].
    replace ((E + 4 * n + 4 - 4) / 4 <? n) with false by lia.
    unfold blk0. replace (E + 4 * n + 4 - (1 + n) * 4) with E by lia. reflexivity. }
  assert (Hbc : biter_create blk0 = Ok it0).
  { unfold biter_create, blk0. cbn [blk_size blk_data blk_len blk_restarts].
    replace (E + 4 * n + 4 <? 4) with false by lia.
    unfold read32. replace (E + 4 * n + 4 <? E + 4 * n + 4 - 4 + 4) with false by lia.
    rewrite Hlast. rewrite <- (app_nil_r (le32 n)) at 1. rewrite de32_le32 by lia. cbn [rbind].
    replace (n =? 0) with false by lia. rewrite Hrarr. reflexivity. }
  exists blk0, it0. split; [exact Hbi|]. split; [exact Hbc|].
  exists TR, n. split.
  - constructor; assumption.
  - cbn [sim]. unfold invalid, statics, it0.
    cbn [bi_data bi_empty bi_restarts bi_num bi_rarr bi_status bi_cur].
    split; [repeat split; reflexivity|]. split; [|reflexivity].
    unfold binv1. cbn [bi_data bi_restarts bi_num bi_rarr bi_ridx bi_vrest bi_voff bi_vlen bi_next].
    repeat split; try reflexivity; try lia. symmetry. exact Hrarr.
Qed.

(* ------------------------------------------------------------------ *)
(* facts that do not depend on the order                                *)
(* ------------------------------------------------------------------ *)
Lemma bcur_status : forall isint I es it z, bcur isint I es it z -> biter_status it = SOk.
Proof.
  intros isint I es it z (TR & num & _ & Hs).
  destruct (sim_statics _ _ _ _ _ _ Hs) as [(_ & _ & _ & _ & _ & S6) _]. exact S6.
Qed.

Lemma bcur_binv : forall isint I es it z, bcur isint I es it z -> binv it.
Proof.
  intros isint I es it z (TR & num & _ & Hs).
  destruct (sim_statics _ _ _ _ _ _ Hs) as [_ Hb]. right. exact Hb.
Qed.

Lemma bcur_not_empty : forall isint I es it z, bcur isint I es it z -> bi_empty it = false.
Proof.
  intros isint I es it z (TR & num & _ & Hs).
  destruct (sim_statics _ _ _ _ _ _ Hs) as [(_ & S2 & _) _]. exact S2.
Qed.

Lemma bcur_valid_some : forall isint I es it pre e post,
  bcur isint I es it (Some (pre, e, post)) -> biter_valid it = true.
Proof.
  intros isint I es it pre e post (TR & num & C & Hs). cbn [sim] in Hs.
  exact (at_valid bytes_compare I es TR num (bc_TR _ _ _ _ _ C) (bc_num _ _ _ _ _ C) (bc_restarts _ _ _ _ _ C)
           it pre (fst e) (snd e) post Hs).
Qed.

Lemma bcur_valid_none : forall isint I es it, bcur isint I es it None -> biter_valid it = false.
Proof.
  intros isint I es it (TR & num & C & Hs). cbn [sim] in Hs.
  exact (invalid_not_valid bytes_compare I es TR num (bc_TR _ _ _ _ _ C) (bc_num _ _ _ _ _ C) (bc_restarts _ _ _ _ _ C) it Hs).
Qed.

Lemma bcur_valid : forall isint I es it z,
  bcur isint I es it z -> biter_valid it = match z with Some _ => true | None => false end.
Proof.
  intros isint I es it [[[pre e] post]|] H; [eapply bcur_valid_some|eapply bcur_valid_none]; exact H.
Qed.

Lemma bcur_observe : forall isint I es it z,
  bcur isint I es it z -> biter_observe it = Ok (zip_obs z).
Proof.
  intros isint I es it z (TR & num & C & Hs).
  exact (sim_observe bytes_compare I es TR num (bc_TR _ _ _ _ _ C) (bc_num _ _ _ _ _ C) (bc_restarts _ _ _ _ _ C) it z Hs).
Qed.

Lemma bcur_key_value : forall isint I es it pre e post,
  bcur isint I es it (Some (pre, e, post)) ->
  es = pre ++ e :: post /\ biter_key it = fst e /\ biter_value it = Ok (snd e).
Proof.
  intros isint I es it pre [k v] post H.
  pose proof (bcur_observe _ _ _ _ _ H) as Ho. pose proof (bcur_valid_some _ _ _ _ _ _ _ H) as Hv.
  destruct H as (TR & num & C & Hs). cbn [sim fst snd] in Hs.
  split; [exact (at_es _ _ _ _ _ _ _ _ _ Hs)|].
  split; [exact (at_key _ _ _ _ _ _ _ _ _ Hs)|].
  unfold biter_observe in Ho. rewrite Hv in Ho. cbn [zip_obs] in Ho.
  destruct (biter_value it) as [v0|]; cbn [rbind] in Ho; [|discriminate].
  inversion Ho. reflexivity.
Qed.

Lemma bcur_zip_es : forall isint I es it pre e post,
  bcur isint I es it (Some (pre, e, post)) -> es = pre ++ e :: post.
Proof. intros. eapply bcur_key_value. eassumption. Qed.

(* ------------------------------------------------------------------ *)
(* the five operations                                                  *)
(* ------------------------------------------------------------------ *)
Section Ops.
Variable cmp : bytes -> bytes -> comparison.
Variable isint : bool.
Variable I : N.
Variable es : list entry.
Hypothesis Hsorted : sorted_by cmp es.
Hypothesis Hlt_trans : forall x y z, cmp x y = Lt -> cmp y z = Lt -> cmp x z = Lt.
Hypothesis Hlt_eq : forall x y z, cmp x y = Lt -> cmp y z = Eq -> cmp x z = Lt.

Lemma bcur_first : forall it z, bcur isint I es it z ->
  exists it', biter_first isint it = Ok it' /\ bcur isint I es it' (ref_first es).
Proof.
  intros it z (TR & num & C & Hs).
  destruct (first_sim cmp isint I es TR num (bc_wf _ _ _ _ _ C) (bc_ge8 _ _ _ _ _ C) (bc_TR _ _ _ _ _ C)
              (bc_num _ _ _ _ _ C) (bc_restarts _ _ _ _ _ C) (bc_rp0 _ _ _ _ _ C) (bc_empty _ _ _ _ _ C)
              Hsorted Hlt_trans Hlt_eq it z Hs) as [it' [A B]].
  exists it'. split; [exact A|]. exists TR, num. auto.
Qed.

Lemma bcur_last : forall it z, bcur isint I es it z ->
  exists it', biter_last isint it = Ok it' /\ bcur isint I es it' (ref_last es).
Proof.
  intros it z (TR & num & C & Hs).
  destruct (last_sim cmp isint I es TR num (bc_wf _ _ _ _ _ C) (bc_ge8 _ _ _ _ _ C) (bc_TR _ _ _ _ _ C)
              (bc_num _ _ _ _ _ C) (bc_restarts _ _ _ _ _ C) (bc_empty _ _ _ _ _ C)
              Hsorted Hlt_trans Hlt_eq it z Hs) as [it' [A B]].
  exists it'. split; [exact A|]. exists TR, num. auto.
Qed.

Lemma bcur_next : forall it pre e post, bcur isint I es it (Some (pre, e, post)) ->
  exists it', biter_next isint it = Ok it' /\ bcur isint I es it' (ref_next (pre, e, post)).
Proof.
  intros it pre e post (TR & num & C & Hs).
  destruct (next_sim cmp isint I es TR num (bc_wf _ _ _ _ _ C) (bc_ge8 _ _ _ _ _ C) (bc_TR _ _ _ _ _ C)
              (bc_num _ _ _ _ _ C) (bc_restarts _ _ _ _ _ C) it pre e post Hs) as [it' [A B]].
  exists it'. split; [exact A|]. exists TR, num. auto.
Qed.

Lemma bcur_prev : forall it pre e post, bcur isint I es it (Some (pre, e, post)) ->
  exists it', biter_prev isint it = Ok it' /\ bcur isint I es it' (ref_prev (pre, e, post)).
Proof.
  intros it pre e post (TR & num & C & Hs).
  destruct (prev_sim cmp isint I es TR num (bc_wf _ _ _ _ _ C) (bc_ge8 _ _ _ _ _ C) (bc_TR _ _ _ _ _ C)
              (bc_num _ _ _ _ _ C) (bc_restarts _ _ _ _ _ C) (bc_rp0 _ _ _ _ _ C) (bc_empty _ _ _ _ _ C)
              Hsorted Hlt_trans Hlt_eq it pre e post Hs) as [it' [A B]].
  exists it'. split; [exact A|]. exists TR, num. auto.
Qed.

Lemma bcur_seek : forall target it z, bcur isint I es it z ->
  (isint = true -> 8 <= nlen target) ->
  exists it', biter_seek cmp isint target it = Ok it' /\ bcur isint I es it' (ref_seek cmp es target).
Proof.
  intros target it z (TR & num & C & Hs) Ht.
  destruct (seek_sim cmp isint I es TR num (bc_wf _ _ _ _ _ C) (bc_ge8 _ _ _ _ _ C) (bc_TR _ _ _ _ _ C)
              (bc_num _ _ _ _ _ C) (bc_restarts _ _ _ _ _ C) (bc_rp0 _ _ _ _ _ C) (bc_empty _ _ _ _ _ C)
              Hsorted Hlt_trans Hlt_eq target it z Hs Ht) as [it' [A B]].
  exists it'. split; [exact A|]. exists TR, num. auto.
Qed.

End Ops.
