(* CursorProofs.v -- theory of cursors over strictly sorted lists, and the lifting
   of a step-wise simulation between two iterators to arbitrary scripts. *)
From LCDB Require Import Base Cursor.
From Coq Require Import Sorting.Sorted.
Require Import Lia ZifyBool ZifyNat ZifyN.

(* ------------------------------------------------------------------ find_index *)
Section Find.
Context {A : Type}.

Lemma find_index_some (p : A -> bool) l i :
  find_index p l = Some i ->
  exists x, nth_error l i = Some x /\ p x = true /\
            forall j y, (j < i)%nat -> nth_error l j = Some y -> p y = false.
Proof.
  revert i. induction l as [|a r IH]; intros i H; cbn [find_index] in H.
  - discriminate.
  - destruct (p a) eqn:Pa.
    + inversion H; subst i. exists a. split; [reflexivity|]. split; [exact Pa|]. intros j y Hj. lia.
    + destruct (find_index p r) as [i'|] eqn:F; cbn [option_map] in H; [|discriminate].
      inversion H; subst i. destruct (IH i' eq_refl) as (x & Hx & Px & Hmin).
      exists x. split; [exact Hx|]. split; [exact Px|].
      intros j y Hj Hy. destruct j as [|j'].
      * cbn in Hy. inversion Hy; subst y. exact Pa.
      * cbn in Hy. apply (Hmin j' y); [lia|exact Hy].
Qed.

Lemma find_index_none (p : A -> bool) l :
  find_index p l = None <-> forall x, In x l -> p x = false.
Proof.
  induction l as [|a r IH]; cbn [find_index].
  - split; [intros _ x []|reflexivity].
  - destruct (p a) eqn:Pa.
    + split; [discriminate|]. intros H. rewrite (H a (or_introl eq_refl)) in Pa. discriminate.
    + destruct (find_index p r) as [i'|] eqn:F; cbn [option_map].
      * split; [discriminate|]. intros H.
        assert (N : Some i' = None); [|discriminate].
        apply IH. intros x Hx. apply H. right. exact Hx.
      * split; [|reflexivity]. intros _ x [<-|Hx]; [exact Pa|].
        apply (proj1 IH eq_refl). exact Hx.
Qed.

Lemma find_index_ext (p p' : A -> bool) l :
  (forall x, In x l -> p x = p' x) -> find_index p l = find_index p' l.
Proof.
  induction l as [|a r IH]; intros H; cbn [find_index].
  - reflexivity.
  - rewrite <- (H a (or_introl eq_refl)). rewrite IH; [reflexivity|].
    intros x Hx. apply H. right. exact Hx.
Qed.

Lemma find_last_index_some (p : A -> bool) l i :
  find_last_index p l = Some i ->
  exists x, nth_error l i = Some x /\ p x = true /\
            forall j y, (i < j)%nat -> nth_error l j = Some y -> p y = false.
Proof.
  revert i. induction l as [|a r IH]; intros i H; cbn [find_last_index] in H.
  - discriminate.
  - destruct (find_last_index p r) as [i'|] eqn:F.
    + inversion H; subst i. destruct (IH i' eq_refl) as (x & Hx & Px & Hmax).
      exists x. split; [exact Hx|]. split; [exact Px|].
      intros j y Hj Hy. destruct j as [|j']; [lia|]. cbn in Hy. apply (Hmax j' y); [lia|exact Hy].
    + destruct (p a) eqn:Pa; [|discriminate]. inversion H; subst i.
      exists a. split; [reflexivity|]. split; [exact Pa|].
      intros j y Hj Hy. destruct j as [|j']; [lia|]. cbn in Hy.
      clear IH. revert j' y Hy Hj F. induction r as [|b r IHr]; intros j' y Hy Hj F.
      * destruct j'; discriminate.
      * cbn [find_last_index] in F. destruct (find_last_index p r) eqn:F'; [discriminate|].
        destruct (p b) eqn:Pb; [discriminate|].
        destruct j' as [|j'']; cbn in Hy.
        -- inversion Hy; subst y. exact Pb.
        -- apply (IHr j'' y Hy); [lia|reflexivity].
Qed.

Lemma find_last_index_none (p : A -> bool) l :
  find_last_index p l = None <-> forall x, In x l -> p x = false.
Proof.
  induction l as [|a r IH]; cbn [find_last_index].
  - split; [intros _ x []|reflexivity].
  - destruct (find_last_index p r) as [i'|] eqn:F.
    + split; [discriminate|]. intros H.
      assert (N : Some i' = None); [|discriminate].
      apply IH. intros x Hx. apply H. right. exact Hx.
    + destruct (p a) eqn:Pa.
      * split; [discriminate|]. intros H. rewrite (H a (or_introl eq_refl)) in Pa. discriminate.
      * split; [|reflexivity]. intros _ x [<-|Hx]; [exact Pa|]. apply (proj1 IH eq_refl). exact Hx.
Qed.

Lemma find_last_index_ext (p p' : A -> bool) l :
  (forall x, In x l -> p x = p' x) -> find_last_index p l = find_last_index p' l.
Proof.
  induction l as [|a r IH]; intros H; cbn [find_last_index].
  - reflexivity.
  - rewrite <- (H a (or_introl eq_refl)). rewrite IH; [reflexivity|].
    intros x Hx. apply H. right. exact Hx.
Qed.

(* ------------------------------------------------------------------ well-formed cursors *)
Lemma c_first_wf (l : list A) : c_wf l (c_first l).
Proof. destruct l; cbn; lia. Qed.

Lemma c_last_wf (l : list A) : c_wf l (c_last l).
Proof. unfold c_last. destruct (length l) eqn:E; cbn; [exact I|]. lia. Qed.

Lemma c_seek_wf p (l : list A) : c_wf l (c_seek p l).
Proof.
  unfold c_seek. destruct (find_index p l) as [i|] eqn:F; cbn; [|exact I].
  destruct (find_index_some p l i F) as (x & Hx & _).
  apply nth_error_Some. congruence.
Qed.

Lemma c_seek_last_wf p (l : list A) : c_wf l (c_seek_last p l).
Proof.
  unfold c_seek_last. destruct (find_last_index p l) as [i|] eqn:F; cbn; [|exact I].
  destruct (find_last_index_some p l i F) as (x & Hx & _).
  apply nth_error_Some. congruence.
Qed.

Lemma c_next_wf (l : list A) c : c_wf l (c_next l c).
Proof.
  destruct c as [i|]; [|exact I]. unfold c_next.
  destruct (S i <? length l)%nat eqn:E; [|exact I]. unfold c_wf. lia.
Qed.

Lemma c_prev_wf (l : list A) c : c_wf l c -> c_wf l (c_prev l c).
Proof. destruct c as [[|i]|]; cbn; auto. lia. Qed.

Lemma c_get_wf_none (l : list A) c : c_wf l c -> c_get l c = None -> c = None.
Proof.
  destruct c as [i|]; cbn; [|reflexivity]. intros Hi Hn.
  apply nth_error_None in Hn. lia.
Qed.

Lemma c_get_in (l : list A) c x : c_get l c = Some x -> In x l.
Proof. destruct c as [i|]; cbn; [|discriminate]. apply nth_error_In. Qed.

Lemma c_seek_ext (p p' : A -> bool) l :
  (forall x, In x l -> p x = p' x) -> c_seek p l = c_seek p' l.
Proof. apply find_index_ext. Qed.

Lemma c_seek_last_ext (p p' : A -> bool) l :
  (forall x, In x l -> p x = p' x) -> c_seek_last p l = c_seek_last p' l.
Proof. apply find_last_index_ext. Qed.

Lemma c_seek_none p (l : list A) : c_seek p l = None <-> forall x, In x l -> p x = false.
Proof. apply find_index_none. Qed.

Lemma c_seek_last_none p (l : list A) : c_seek_last p l = None <-> forall x, In x l -> p x = false.
Proof. apply find_last_index_none. Qed.

Lemma c_first_seek (l : list A) : c_first l = c_seek (fun _ => true) l.
Proof. destruct l; reflexivity. Qed.

Lemma c_last_seek (l : list A) : c_last l = c_seek_last (fun _ => true) l.
Proof.
  unfold c_last, c_seek_last. induction l as [|a r IH]; [reflexivity|].
  cbn [length find_last_index]. rewrite <- IH. destruct (length r); reflexivity.
Qed.

End Find.

(* ------------------------------------------------------------------ strictly sorted lists *)
Section Sorted.
Context {A : Type}.
Variable lt : A -> A -> bool.
Hypothesis lt_irrefl : forall a, lt a a = false.
Hypothesis lt_trans : forall a b c, lt a b = true -> lt b c = true -> lt a c = true.

Definition SrtBy (l : list A) : Prop := StronglySorted (fun a b => lt a b = true) l.

Lemma lt_asym a b : lt a b = true -> lt b a = false.
Proof.
  intros H. destruct (lt b a) eqn:E; [|reflexivity].
  pose proof (lt_trans a b a H E) as X. rewrite lt_irrefl in X. discriminate.
Qed.

Lemma SrtBy_nth l : SrtBy l -> forall i j a b,
  (i < j)%nat -> nth_error l i = Some a -> nth_error l j = Some b -> lt a b = true.
Proof.
  induction 1 as [|x r Hr IH Hall]; intros i j a b Hij Ha Hb.
  - destruct i; discriminate.
  - destruct j as [|j']; [lia|]. cbn in Hb. destruct i as [|i'].
    + cbn in Ha. inversion Ha; subst a. rewrite Forall_forall in Hall. apply Hall.
      eapply nth_error_In; eassumption.
    + cbn in Ha. apply (IH i' j'); [lia|assumption|assumption].
Qed.

Lemma SrtBy_nth_inj l : SrtBy l -> forall i j a,
  nth_error l i = Some a -> nth_error l j = Some a -> i = j.
Proof.
  intros Hs i j a Hi Hj.
  destruct (Nat.lt_trichotomy i j) as [L|[E|L]]; [|exact E|].
  - pose proof (SrtBy_nth l Hs i j a a L Hi Hj) as H. rewrite lt_irrefl in H. discriminate.
  - pose proof (SrtBy_nth l Hs j i a a L Hj Hi) as H. rewrite lt_irrefl in H. discriminate.
Qed.

(* two well-formed cursors showing the same thing are the same cursor *)
Lemma cursor_eq l c c' :
  SrtBy l -> c_wf l c -> c_wf l c' -> c_get l c = c_get l c' -> c = c'.
Proof.
  intros Hs Hc Hc' E. destruct (c_get l c) as [x|] eqn:G.
  - destruct c as [i|]; [|discriminate]. destruct c' as [j|]; [|discriminate].
    cbn [c_get] in G, E. f_equal. apply (SrtBy_nth_inj l Hs i j x G). symmetry. exact E.
  - rewrite (c_get_wf_none l c Hc G). symmetry. apply (c_get_wf_none l c' Hc'). symmetry. exact E.
Qed.

(* the first element satisfying p is the least one *)
Lemma c_seek_min l p x :
  SrtBy l -> In x l -> p x = true -> (forall y, In y l -> p y = true -> lt y x = false) ->
  c_get l (c_seek p l) = Some x.
Proof.
  intros Hs Hin Px Hmin. unfold c_seek.
  destruct (find_index p l) as [i|] eqn:F.
  - destruct (find_index_some p l i F) as (z & Hz & Pz & Hfirst). cbn [c_get].
    apply In_nth_error in Hin. destruct Hin as [ix Hix].
    destruct (Nat.lt_trichotomy i ix) as [L|[E|L]].
    + pose proof (SrtBy_nth l Hs i ix z x L Hz Hix) as H.
      rewrite (Hmin z (nth_error_In _ _ Hz) Pz) in H. discriminate.
    + subst ix. congruence.
    + rewrite (Hfirst ix x L Hix) in Px. discriminate.
  - rewrite (proj1 (find_index_none p l) F x Hin) in Px. discriminate.
Qed.

Lemma c_seek_last_max l p x :
  SrtBy l -> In x l -> p x = true -> (forall y, In y l -> p y = true -> lt x y = false) ->
  c_get l (c_seek_last p l) = Some x.
Proof.
  intros Hs Hin Px Hmax. unfold c_seek_last.
  destruct (find_last_index p l) as [i|] eqn:F.
  - destruct (find_last_index_some p l i F) as (z & Hz & Pz & Hlast). cbn [c_get].
    apply In_nth_error in Hin. destruct Hin as [ix Hix].
    destruct (Nat.lt_trichotomy i ix) as [L|[E|L]].
    + rewrite (Hlast ix x L Hix) in Px. discriminate.
    + subst ix. congruence.
    + pose proof (SrtBy_nth l Hs ix i x z L Hix Hz) as H.
      rewrite (Hmax z (nth_error_In _ _ Hz) Pz) in H. discriminate.
  - rewrite (proj1 (find_last_index_none p l) F x Hin) in Px. discriminate.
Qed.

(* what seek yields, read backwards *)
Lemma c_seek_get (l : list A) p x :
  c_get l (c_seek p l) = Some x ->
  In x l /\ p x = true.
Proof.
  unfold c_seek. destruct (find_index p l) as [i|] eqn:F; cbn [c_get]; [|discriminate].
  intros Hx. destruct (find_index_some p l i F) as (z & Hz & Pz & _).
  assert (z = x) by congruence. subst z. split; [eapply nth_error_In; eauto|exact Pz].
Qed.

Lemma c_seek_get_min l p x :
  SrtBy l -> c_get l (c_seek p l) = Some x ->
  forall y, In y l -> p y = true -> lt y x = false.
Proof.
  unfold c_seek. intros Hs. destruct (find_index p l) as [i|] eqn:F; cbn [c_get]; [|discriminate].
  intros Hx y Hy Py. destruct (find_index_some p l i F) as (z & Hz & Pz & Hfirst).
  assert (z = x) by congruence. subst z.
  apply In_nth_error in Hy. destruct Hy as [j Hj].
  destruct (Nat.lt_trichotomy j i) as [L|[E|L]].
  - rewrite (Hfirst j y L Hj) in Py. discriminate.
  - subst j. assert (y = x) by congruence. subst y. apply lt_irrefl.
  - apply lt_asym. eapply SrtBy_nth; eauto.
Qed.

Lemma c_seek_last_get (l : list A) p x :
  c_get l (c_seek_last p l) = Some x ->
  In x l /\ p x = true.
Proof.
  unfold c_seek_last. destruct (find_last_index p l) as [i|] eqn:F; cbn [c_get]; [|discriminate].
  intros Hx. destruct (find_last_index_some p l i F) as (z & Hz & Pz & _).
  assert (z = x) by congruence. subst z. split; [eapply nth_error_In; eauto|exact Pz].
Qed.

Lemma c_seek_last_get_max l p x :
  SrtBy l -> c_get l (c_seek_last p l) = Some x ->
  forall y, In y l -> p y = true -> lt x y = false.
Proof.
  unfold c_seek_last. intros Hs. destruct (find_last_index p l) as [i|] eqn:F; cbn [c_get]; [|discriminate].
  intros Hx y Hy Py. destruct (find_last_index_some p l i F) as (z & Hz & Pz & Hlast).
  assert (z = x) by congruence. subst z.
  apply In_nth_error in Hy. destruct Hy as [j Hj].
  destruct (Nat.lt_trichotomy j i) as [L|[E|L]].
  - apply lt_asym. eapply SrtBy_nth; eauto.
  - subst j. assert (y = x) by congruence. subst y. apply lt_irrefl.
  - rewrite (Hlast j y L Hj) in Py. discriminate.
Qed.

(* next / prev as seeks *)
Lemma c_next_seek l c x :
  SrtBy l -> c_get l c = Some x -> c_next l c = c_seek (fun y => lt x y) l.
Proof.
  intros Hs G. apply (cursor_eq l); [exact Hs|apply c_next_wf|apply c_seek_wf|].
  destruct c as [i|]; [|discriminate]. cbn [c_get] in G. cbn [c_next].
  destruct (S i <? length l)%nat eqn:E.
  - cbn [c_get]. destruct (nth_error l (S i)) as [y|] eqn:Hy.
    2:{ apply nth_error_None in Hy. lia. }
    symmetry. apply c_seek_min; [exact Hs|eapply nth_error_In; eauto| |].
    + eapply SrtBy_nth; [exact Hs| |exact G|exact Hy]. lia.
    + intros z Hz Lz. apply In_nth_error in Hz. destruct Hz as [k Hk].
      destruct (Nat.lt_trichotomy k (S i)) as [L|[E'|L]].
      * assert (k = i \/ k < i)%nat as [->|L'] by lia.
        -- assert (z = x) by congruence. subst z. rewrite lt_irrefl in Lz. discriminate.
        -- rewrite (lt_asym z x) in Lz; [discriminate|]. eapply SrtBy_nth; [exact Hs|exact L'|exact Hk|exact G].
      * subst k. assert (z = y) by congruence. subst z. apply lt_irrefl.
      * apply lt_asym. eapply SrtBy_nth; [exact Hs|exact L|exact Hy|exact Hk].
  - cbn [c_get]. symmetry.
    assert (N : c_seek (fun y => lt x y) l = None).
    { apply c_seek_none. intros z Hz. apply In_nth_error in Hz. destruct Hz as [k Hk].
      assert (k < length l)%nat by (apply nth_error_Some; congruence).
      assert (k = i \/ k < i)%nat as [->|L'] by lia.
      - assert (z = x) by congruence. subst z. apply lt_irrefl.
      - apply lt_asym. eapply SrtBy_nth; [exact Hs|exact L'|exact Hk|exact G]. }
    rewrite N. reflexivity.
Qed.

Lemma c_prev_seek l c x :
  SrtBy l -> c_get l c = Some x -> c_prev l c = c_seek_last (fun y => lt y x) l.
Proof.
  intros Hs G.
  assert (Hwf : c_wf l c).
  { destruct c as [i|]; [|exact I]. cbn in G |- *. apply nth_error_Some. congruence. }
  apply (cursor_eq l); [exact Hs|apply c_prev_wf; exact Hwf|apply c_seek_last_wf|].
  destruct c as [i|]; [|discriminate]. cbn [c_get] in G.
  destruct i as [|i']; cbn [c_prev c_get].
  - symmetry. assert (N : c_seek_last (fun y => lt y x) l = None).
    { apply c_seek_last_none. intros z Hz. apply In_nth_error in Hz. destruct Hz as [k Hk].
      destruct k as [|k'].
      - assert (z = x) by congruence. subst z. apply lt_irrefl.
      - apply lt_asym. eapply SrtBy_nth; [exact Hs| |exact G|exact Hk]. lia. }
    rewrite N. reflexivity.
  - destruct (nth_error l i') as [y|] eqn:Hy.
    2:{ apply nth_error_None in Hy. assert (S i' < length l)%nat by (apply nth_error_Some; congruence). lia. }
    symmetry. apply c_seek_last_max; [exact Hs|eapply nth_error_In; eauto| |].
    + eapply SrtBy_nth; [exact Hs| |exact Hy|exact G]. lia.
    + intros z Hz Lz. apply In_nth_error in Hz. destruct Hz as [k Hk].
      destruct (Nat.lt_trichotomy k i') as [L|[E'|L]].
      * apply lt_asym. eapply SrtBy_nth; [exact Hs|exact L|exact Hk|exact Hy].
      * subst k. assert (z = y) by congruence. subst z. apply lt_irrefl.
      * assert (k = S i' \/ S i' < k)%nat as [->|L'] by lia.
        -- assert (z = x) by congruence. subst z. rewrite lt_irrefl in Lz. discriminate.
        -- rewrite (lt_asym x z) in Lz; [discriminate|]. eapply SrtBy_nth; [exact Hs|exact L'|exact G|exact Hk].
Qed.

(* elements of a strictly sorted list are comparable or equal *)
Lemma SrtBy_cases l a b : SrtBy l -> In a l -> In b l -> a = b \/ lt a b = true \/ lt b a = true.
Proof.
  intros Hs Ha Hb. apply In_nth_error in Ha, Hb. destruct Ha as [i Hi]. destruct Hb as [j Hj].
  destruct (Nat.lt_trichotomy i j) as [L|[E|L]].
  - right. left. eapply SrtBy_nth; eauto.
  - subst j. left. congruence.
  - right. right. eapply SrtBy_nth; eauto.
Qed.

End Sorted.

(* ------------------------------------------------------------------ simulations and scripts *)
Section Bisim.
Context {St1 St2 T O : Type}.
Variable I1 : iter_ops St1 T O.
Variable I2 : iter_ops St2 T O.
Variable R : St1 -> St2 -> Prop.

(* step-wise simulation; next / prev only from valid states (what scripts do) *)
Record bisim : Prop := {
  bs_cmp : forall o t, i_cmp I1 o t = i_cmp I2 o t;
  bs_get : forall a b, R a b -> i_get I1 a = i_get I2 b;
  bs_first : forall a b, R a b -> R (i_first I1 a) (i_first I2 b);
  bs_last : forall a b, R a b -> R (i_last I1 a) (i_last I2 b);
  bs_seek : forall t a b, R a b -> R (i_seek I1 t a) (i_seek I2 t b);
  bs_next : forall a b, R a b -> i_get I1 a <> None -> R (i_next I1 a) (i_next I2 b);
  bs_prev : forall a b, R a b -> i_get I1 a <> None -> R (i_prev I1 a) (i_prev I2 b)
}.

(* total version, for iterators used as the internal iterator of another one *)
Record bisim_t : Prop := {
  bt_get : forall a b, R a b -> i_get I1 a = i_get I2 b;
  bt_first : forall a b, R a b -> R (i_first I1 a) (i_first I2 b);
  bt_last : forall a b, R a b -> R (i_last I1 a) (i_last I2 b);
  bt_seek : forall t a b, R a b -> R (i_seek I1 t a) (i_seek I2 t b);
  bt_next : forall a b, R a b -> R (i_next I1 a) (i_next I2 b);
  bt_prev : forall a b, R a b -> R (i_prev I1 a) (i_prev I2 b)
}.

Hypothesis B : bisim.

Lemma bisim_step a b c :
  R a b -> R (fst (step_cmd I1 a c)) (fst (step_cmd I2 b c)) /\
           snd (step_cmd I1 a c) = snd (step_cmd I2 b c).
Proof.
  intros H.
  assert (Hobs : forall a' b', R a' b' -> observe I1 a' = observe I2 b').
  { intros a' b' H'. unfold observe. rewrite (bs_get B a' b' H'). reflexivity. }
  assert (Hval : i_valid I1 a = i_valid I2 b).
  { unfold i_valid. rewrite (bs_get B a b H). reflexivity. }
  destruct c as [| | | |t|t|t|t|t]; cbn [step_cmd].
  - cbn [fst snd]. split; [apply (bs_first B); exact H|apply Hobs, (bs_first B); exact H].
  - cbn [fst snd]. split; [apply (bs_last B); exact H|apply Hobs, (bs_last B); exact H].
  - rewrite <- Hval. destruct (i_valid I1 a) eqn:V; cbn [fst snd].
    + assert (Hn : i_get I1 a <> None).
      { unfold i_valid in V. destruct (i_get I1 a); [discriminate|discriminate]. }
      split; [apply (bs_next B); assumption|apply Hobs, (bs_next B); assumption].
    + split; [exact H|reflexivity].
  - rewrite <- Hval. destruct (i_valid I1 a) eqn:V; cbn [fst snd].
    + assert (Hn : i_get I1 a <> None).
      { unfold i_valid in V. destruct (i_get I1 a); [discriminate|discriminate]. }
      split; [apply (bs_prev B); assumption|apply Hobs, (bs_prev B); assumption].
    + split; [exact H|reflexivity].
  - cbn [fst snd]. split; [apply (bs_seek B); exact H|apply Hobs, (bs_seek B); exact H].
  - cbn [fst snd]. unfold it_seek_ge.
    split; [apply (bs_seek B); exact H|apply Hobs, (bs_seek B); exact H].
  - cbn [fst snd].
    assert (Hs : R (it_seek_gt I1 t a) (it_seek_gt I2 t b)).
    { unfold it_seek_gt. pose proof (bs_seek B t a b H) as H1.
      rewrite <- (bs_get B _ _ H1). destruct (i_get I1 (i_seek I1 t a)) as [o|] eqn:G; [|exact H1].
      rewrite <- (bs_cmp B). destruct (i_cmp I1 o t); try exact H1.
      apply (bs_next B); [exact H1|congruence]. }
    split; [exact Hs|apply Hobs; exact Hs].
  - cbn [fst snd].
    assert (Hs : R (it_seek_le I1 t a) (it_seek_le I2 t b)).
    { unfold it_seek_le. pose proof (bs_seek B t a b H) as H1.
      rewrite <- (bs_get B _ _ H1). destruct (i_get I1 (i_seek I1 t a)) as [o|] eqn:G.
      - rewrite <- (bs_cmp B). destruct (i_cmp I1 o t); try exact H1.
        apply (bs_prev B); [exact H1|congruence].
      - apply (bs_last B); exact H1. }
    split; [exact Hs|apply Hobs; exact Hs].
  - cbn [fst snd].
    assert (Hs : R (it_seek_lt I1 t a) (it_seek_lt I2 t b)).
    { unfold it_seek_lt. pose proof (bs_seek B t a b H) as H1.
      rewrite <- (bs_get B _ _ H1). destruct (i_get I1 (i_seek I1 t a)) as [o|] eqn:G.
      - apply (bs_prev B); [exact H1|congruence].
      - apply (bs_last B); exact H1. }
    split; [exact Hs|apply Hobs; exact Hs].
Qed.

Theorem bisim_scripts a b : R a b -> simulates I1 a I2 b.
Proof.
  intros H script. revert a b H. induction script as [|c r IH]; intros a b H.
  - reflexivity.
  - cbn [run_script]. destruct (bisim_step a b c H) as [HR Ho].
    destruct (step_cmd I1 a c) as [a' o1]. destruct (step_cmd I2 b c) as [b' o2].
    cbn [fst snd] in HR, Ho. subst o2. f_equal. apply IH. exact HR.
Qed.

Theorem bisim_run_state a b script : R a b -> R (run_state I1 a script) (run_state I2 b script).
Proof.
  revert a b. induction script as [|c r IH]; intros a b H.
  - exact H.
  - cbn [run_state]. apply IH. apply bisim_step. exact H.
Qed.

End Bisim.

Lemma bisim_t_bisim {St1 St2 T O} (I1 : iter_ops St1 T O) (I2 : iter_ops St2 T O) R :
  (forall o t, i_cmp I1 o t = i_cmp I2 o t) -> bisim_t I1 I2 R -> bisim I1 I2 R.
Proof.
  intros Hc B. constructor.
  - exact Hc.
  - apply (bt_get _ _ _ B).
  - apply (bt_first _ _ _ B).
  - apply (bt_last _ _ _ B).
  - apply (bt_seek _ _ _ B).
  - intros a b H _. apply (bt_next _ _ _ B). exact H.
  - intros a b H _. apply (bt_prev _ _ _ B). exact H.
Qed.

Lemma simulates_trans {St1 St2 St3 T O} (I1 : iter_ops St1 T O) (I2 : iter_ops St2 T O)
      (I3 : iter_ops St3 T O) a b c :
  simulates I1 a I2 b -> simulates I2 b I3 c -> simulates I1 a I3 c.
Proof. intros H1 H2 script. rewrite (H1 script). apply H2. Qed.
