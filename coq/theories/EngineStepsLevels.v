(* EngineStepsLevels.v -- editing one level of a version: file-number bookkeeping. *)
From LCDB Require Import Base Engine EngineSpec EngineStepsBase EngineStepsInv.
From Coq Require Import Sorting.Sorted Permutation.
Require Import Lia ZifyBool ZifyNat ZifyN.
Local Open Scope N_scope.

Lemma level_files_set lv L fs i :
  (L < length lv)%nat ->
  level_files (set_level lv L fs) i = if (i =? L)%nat then fs else level_files lv i.
Proof.
  intros H. destruct (i =? L)%nat eqn:E.
  - apply Nat.eqb_eq in E. subst. apply level_files_set_eq; auto.
  - apply Nat.eqb_neq in E. apply level_files_set_neq; auto.
Qed.

(* replacing level L by files that are either old files of level L or carry unused numbers *)
Lemma ND_set_level lv L fs' :
  ND lv -> (L < length lv)%nat -> NoDup (map fnum fs') ->
  (forall f, In f fs' ->
     In f (level_files lv L) \/ (forall j g, j <> L -> In g (level_files lv j) -> fnum g <> fnum f)) ->
  ND (set_level lv L fs').
Proof.
  intros [H1 H2] HL Hnd Hor. split.
  - intros i. destruct (Nat.eq_dec i L) as [->|Hne].
    + rewrite level_files_set_eq; auto.
    + rewrite level_files_set_neq; auto.
  - intros i j f g Hij Hf Hg.
    destruct (Nat.eq_dec i L) as [->|Hi]; destruct (Nat.eq_dec j L) as [->|Hj]; try congruence.
    + rewrite level_files_set_eq in Hf; auto. rewrite level_files_set_neq in Hg; auto.
      destruct (Hor f Hf) as [Ho|Ho].
      * apply (H2 L j f g); auto.
      * intros E. apply (Ho j g); auto.
    + rewrite level_files_set_neq in Hf; auto. rewrite level_files_set_eq in Hg; auto.
      destruct (Hor g Hg) as [Ho|Ho].
      * apply (H2 i L f g); auto.
      * apply (Ho i f); auto.
    + rewrite level_files_set_neq in Hf, Hg; auto. apply (H2 i j f g); auto.
Qed.

Lemma NoDup_map_filter {A B} (g : A -> B) (p : A -> bool) (l : list A) :
  NoDup (map g l) -> NoDup (map g (filter p l)).
Proof.
  induction l as [|a r IH]; intros H; cbn [filter map]; auto.
  cbn [map] in H. inversion H; subst. destruct (p a); auto.
  cbn [map]. constructor; auto. intros Hin. apply H2.
  apply in_map_iff in Hin. destruct Hin as (x & Hx1 & Hx2). apply filter_In in Hx2.
  apply in_map_iff. exists x. tauto.
Qed.
