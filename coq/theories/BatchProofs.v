(* BatchProofs.v -- proofs about Batch.v: a batch built through put/del iterates
   back to the same operations; append concatenates; a wrong header count is
   reported. *)
From LCDB Require Import Base Varint BaseProofs VarintProofs MetaLemmas Batch.
From Coq Require Import Lia ZifyBool ZifyNat ZifyN.
Local Open Scope N_scope.

Ltac Zify.zify_post_hook ::= Z.div_mod_to_equations.

#[local] Arguments N.mul : simpl never.
#[local] Arguments N.add : simpl never.
#[local] Arguments N.div : simpl never.
#[local] Arguments N.modulo : simpl never.
#[local] Arguments N.ltb : simpl never.
#[local] Arguments N.leb : simpl never.

(* ------------------------------------------------------------------ *)
(* Header                                                              *)
(* ------------------------------------------------------------------ *)

Lemma firstn8_le64 : forall x rest, firstn 8 (le64 x ++ rest) = le64 x.
Proof. intros x rest. reflexivity. Qed.

Lemma skipn12_hdr : forall x c rest, skipn 12 (le64 x ++ le32 c ++ rest) = rest.
Proof. intros x c rest. reflexivity. Qed.

Lemma hdr_length : forall x c rest,
  length (le64 x ++ le32 c ++ rest) = (12 + length rest)%nat.
Proof. intros. rewrite !app_length, le64_length, le32_length. lia. Qed.

Lemma batch_count_mk : forall s c body,
  c < 4294967296 -> batch_count (le64 s ++ le32 c ++ body) = c.
Proof.
  intros s c body Hc. unfold batch_count.
  rewrite skipn8_le64, de32_le32 by exact Hc. reflexivity.
Qed.

Lemma batch_set_count_mk : forall s c body c',
  batch_set_count (le64 s ++ le32 c ++ body) c' = le64 s ++ le32 (c' mod 4294967296) ++ body.
Proof.
  intros s c body c'. unfold batch_set_count.
  rewrite firstn8_le64, skipn12_hdr. reflexivity.
Qed.

Lemma batch_sequence_mk : forall s rest,
  s < 18446744073709551616 -> batch_sequence (le64 s ++ rest) = s.
Proof. intros s rest Hs. unfold batch_sequence. rewrite de64_le64 by exact Hs. reflexivity. Qed.

Lemma batch_apply_mk : forall s c body o,
  c < 4294967296 ->
  batch_apply (le64 s ++ le32 c ++ body) o =
  le64 s ++ le32 ((c + 1) mod 4294967296) ++ (body ++ enc_op o).
Proof.
  intros s c body o Hc. destruct o as [k v|k]; unfold batch_apply, batch_put, batch_del, enc_op;
    rewrite batch_count_mk by exact Hc; rewrite batch_set_count_mk;
    rewrite <- !app_assoc; reflexivity.
Qed.

Lemma fold_apply_mk : forall ops s c body,
  c < 4294967296 ->
  fold_left batch_apply ops (le64 s ++ le32 c ++ body) =
  le64 s ++ le32 ((c + nlen ops) mod 4294967296) ++ (body ++ enc_ops ops).
Proof.
  induction ops as [|o ops IH]; intros s c body Hc; cbn [fold_left].
  - unfold enc_ops. cbn [flat_map]. rewrite app_nil_r, nlen_nil.
    replace ((c + 0) mod 4294967296) with c by lia. reflexivity.
  - rewrite batch_apply_mk by exact Hc.
    rewrite IH by lia.
    unfold enc_ops. cbn [flat_map]. rewrite nlen_cons, <- !app_assoc.
    replace (((c + 1) mod 4294967296 + nlen ops) mod 4294967296)
      with ((c + (1 + nlen ops)) mod 4294967296) by lia.
    reflexivity.
Qed.

(* the byte layout of a batch built through the API *)
Theorem batch_build_layout : forall seq ops,
  batch_build seq ops =
  le64 (seq mod 18446744073709551616) ++ le32 (nlen ops mod 4294967296) ++ enc_ops ops.
Proof.
  intros seq ops. unfold batch_build.
  replace (batch_set_sequence batch_empty seq)
    with (le64 (seq mod 18446744073709551616) ++ le32 0 ++ []) by reflexivity.
  rewrite fold_apply_mk by lia. cbn [app].
  replace ((0 + nlen ops) mod 4294967296) with (nlen ops mod 4294967296) by (f_equal; lia).
  reflexivity.
Qed.

(* ------------------------------------------------------------------ *)
(* The record loop, fuel-free                                          *)
(* ------------------------------------------------------------------ *)

Lemma iter_loop_nil : forall f, batch_iter_loop f [] = ([], BOk).
Proof. intros [|f]; reflexivity. Qed.

Lemma iter_loop_fuel : forall f1 f2 x,
  (length x <= f1)%nat -> (length x <= f2)%nat ->
  batch_iter_loop f1 x = batch_iter_loop f2 x.
Proof.
  induction f1 as [|f1 IH]; intros f2 x H1 H2.
  - destruct x; [|cbn [length] in H1; lia]. rewrite !iter_loop_nil. reflexivity.
  - destruct x as [|t rest]; [rewrite !iter_loop_nil; reflexivity|].
    destruct f2 as [|f2]; [cbn [length] in H2; lia|].
    cbn [length] in H1, H2. cbn [batch_iter_loop].
    destruct (t =? 1).
    + destruct (slice_read rest) as [[k r1]|] eqn:E1; [|reflexivity].
      destruct (slice_read r1) as [[v r2]|] eqn:E2; [|reflexivity].
      apply slice_read_shrinks in E1. apply slice_read_shrinks in E2.
      rewrite (IH f2 r2) by lia. reflexivity.
    + destruct (t =? 0); [|reflexivity].
      destruct (slice_read rest) as [[k r1]|] eqn:E1; [|reflexivity].
      apply slice_read_shrinks in E1.
      rewrite (IH f2 r1) by lia. reflexivity.
Qed.

Definition iter_all (x : bytes) : list bop * bstatus := batch_iter_loop (length x) x.

Lemma iter_all_nil : iter_all [] = ([], BOk).
Proof. reflexivity. Qed.

Lemma iter_all_cons : forall t rest,
  iter_all (t :: rest) =
  if t =? 1 then
    match slice_read rest with
    | None => ([], BBadPut)
    | Some (k, r1) =>
      match slice_read r1 with
      | None => ([], BBadPut)
      | Some (v, r2) => let '(ops, st) := iter_all r2 in (BPut k v :: ops, st)
      end
    end
  else if t =? 0 then
    match slice_read rest with
    | None => ([], BBadDelete)
    | Some (k, r1) => let '(ops, st) := iter_all r1 in (BDel k :: ops, st)
    end
  else ([], BUnknownTag).
Proof.
  intros t rest. unfold iter_all. cbn [length batch_iter_loop].
  destruct (t =? 1).
  - destruct (slice_read rest) as [[k r1]|] eqn:E1; [|reflexivity].
    destruct (slice_read r1) as [[v r2]|] eqn:E2; [|reflexivity].
    apply slice_read_shrinks in E1. apply slice_read_shrinks in E2.
    rewrite (iter_loop_fuel (length rest) (length r2) r2) by lia. reflexivity.
  - destruct (t =? 0); [|reflexivity].
    destruct (slice_read rest) as [[k r1]|] eqn:E1; [|reflexivity].
    apply slice_read_shrinks in E1.
    rewrite (iter_loop_fuel (length rest) (length r1) r1) by lia. reflexivity.
Qed.

Lemma batch_iterate_eq : forall b,
  batch_iterate b =
  if nlen b <? BATCH_HEADER then ([], BTooSmall)
  else
    let '(ops, st) := iter_all (skipn 12 b) in
    match st with
    | BOk => if nlen ops =? batch_count b then (ops, BOk) else (ops, BWrongCount)
    | e => (ops, e)
    end.
Proof.
  intros b. unfold batch_iterate, iter_all.
  rewrite (iter_loop_fuel (length b) (length (skipn 12 b)) (skipn 12 b))
    by (rewrite skipn_length; lia).
  reflexivity.
Qed.

(* decoding the encoding of a list of operations, followed by anything *)
Lemma iter_all_enc : forall ops y,
  forallb wf_op ops = true ->
  iter_all (enc_ops ops ++ y) = let '(oy, st) := iter_all y in (ops ++ oy, st).
Proof.
  induction ops as [|o ops IH]; intros y H.
  - cbn [enc_ops flat_map app]. destruct (iter_all y). reflexivity.
  - cbn [forallb] in H. apply andb_true_iff in H. destruct H as [Ho Hops].
    unfold enc_ops. cbn [flat_map]. fold (enc_ops ops). rewrite <- app_assoc.
    destruct o as [k v|k]; cbn [wf_op] in Ho; unfold enc_op; rewrite <- !app_assoc; cbn [app].
    + apply andb_true_iff in Ho. destruct Ho as [Hk Hv].
      apply N.ltb_lt in Hk. apply N.ltb_lt in Hv.
      rewrite iter_all_cons. cbn [N.eqb Pos.eqb].
      rewrite slice_read_write by exact Hk. rewrite slice_read_write by exact Hv.
      rewrite IH by exact Hops. destruct (iter_all y). reflexivity.
    + apply N.ltb_lt in Ho.
      rewrite iter_all_cons. cbn [N.eqb Pos.eqb].
      rewrite slice_read_write by exact Ho.
      rewrite IH by exact Hops. destruct (iter_all y). reflexivity.
Qed.

(* a loop that ends with BOk on x continues unchanged into whatever follows x *)
Lemma iter_all_app_gen : forall n x ox y,
  (length x <= n)%nat ->
  iter_all x = (ox, BOk) ->
  iter_all (x ++ y) = let '(oy, st) := iter_all y in (ox ++ oy, st).
Proof.
  induction n as [|n IH]; intros x ox y Hn Hx.
  - destruct x; [|cbn [length] in Hn; lia].
    rewrite iter_all_nil in Hx. injection Hx as Hox. subst ox.
    cbn [app]. destruct (iter_all y). reflexivity.
  - destruct x as [|t rest].
    + rewrite iter_all_nil in Hx. injection Hx as Hox. subst ox.
      cbn [app]. destruct (iter_all y). reflexivity.
    + cbn [length] in Hn. rewrite iter_all_cons in Hx.
      cbn [app]. rewrite iter_all_cons.
      destruct (t =? 1).
      * destruct (slice_read rest) as [[k r1]|] eqn:E1; [|discriminate Hx].
        destruct (slice_read r1) as [[v r2]|] eqn:E2; [|discriminate Hx].
        rewrite (slice_read_app _ _ _ y E1). rewrite (slice_read_app _ _ _ y E2).
        apply slice_read_shrinks in E1. apply slice_read_shrinks in E2.
        destruct (iter_all r2) as [o2 s2] eqn:E3.
        injection Hx as Hox Hs. subst ox s2.
        rewrite (IH r2 o2 y) by (first [lia | exact E3]).
        destruct (iter_all y). reflexivity.
      * destruct (t =? 0); [|discriminate Hx].
        destruct (slice_read rest) as [[k r1]|] eqn:E1; [|discriminate Hx].
        rewrite (slice_read_app _ _ _ y E1).
        apply slice_read_shrinks in E1.
        destruct (iter_all r1) as [o2 s2] eqn:E3.
        injection Hx as Hox Hs. subst ox s2.
        rewrite (IH r1 o2 y) by (first [lia | exact E3]).
        destruct (iter_all y). reflexivity.
Qed.

Lemma iter_all_app : forall x ox y,
  iter_all x = (ox, BOk) ->
  iter_all (x ++ y) = let '(oy, st) := iter_all y in (ox ++ oy, st).
Proof. intros x ox y H. apply (iter_all_app_gen (length x)); [lia|exact H]. Qed.

(* ------------------------------------------------------------------ *)
(* Theorems                                                            *)
(* ------------------------------------------------------------------ *)

Lemma wf_ops_split : forall ops,
  wf_ops ops = true -> forallb wf_op ops = true /\ nlen ops < 4294967296.
Proof.
  intros ops H. unfold wf_ops in H. apply andb_true_iff in H. destruct H as [H1 H2].
  apply N.ltb_lt in H2. split; assumption.
Qed.

Theorem batch_iterate_build : forall seq ops,
  wf_ops ops = true -> batch_iterate (batch_build seq ops) = (ops, BOk).
Proof.
  intros seq ops H. apply wf_ops_split in H. destruct H as [Hwf Hn].
  rewrite batch_build_layout, batch_iterate_eq.
  unfold nlen at 1. rewrite hdr_length. unfold BATCH_HEADER.
  replace (N.of_nat (12 + length (enc_ops ops)) <? 12) with false
    by (symmetry; apply N.ltb_ge; lia).
  rewrite skipn12_hdr.
  rewrite <- (app_nil_r (enc_ops ops)) at 1.
  rewrite iter_all_enc by exact Hwf. rewrite iter_all_nil. rewrite app_nil_r.
  rewrite batch_count_mk by lia.
  replace (nlen ops mod 4294967296) with (nlen ops) by lia.
  rewrite N.eqb_refl. reflexivity.
Qed.

Theorem batch_sequence_build : forall seq ops,
  seq < 18446744073709551616 -> batch_sequence (batch_build seq ops) = seq.
Proof.
  intros seq ops H. rewrite batch_build_layout.
  replace (seq mod 18446744073709551616) with seq by lia.
  apply batch_sequence_mk. exact H.
Qed.

Theorem batch_count_build : forall seq ops,
  nlen ops < 4294967296 -> batch_count (batch_build seq ops) = nlen ops.
Proof.
  intros seq ops H. rewrite batch_build_layout.
  rewrite batch_count_mk by lia. lia.
Qed.

(* append of two built batches is the batch built from the concatenation *)
Theorem batch_append_build : forall s1 s2 o1 o2,
  batch_append (batch_build s1 o1) (batch_build s2 o2) = batch_build s1 (o1 ++ o2).
Proof.
  intros s1 s2 o1 o2. rewrite !batch_build_layout. unfold batch_append.
  rewrite !batch_count_mk by lia. rewrite batch_set_count_mk, skipn12_hdr.
  unfold enc_ops. rewrite flat_map_app, nlen_app, <- !app_assoc.
  replace ((nlen o1 mod 4294967296 + nlen o2 mod 4294967296) mod 4294967296)
    with ((nlen o1 + nlen o2) mod 4294967296) by lia.
  reflexivity.
Qed.

(* facts extracted from a successful iterate *)
Lemma batch_iterate_ok_inv : forall b ops,
  batch_iterate b = (ops, BOk) ->
  12 <= nlen b /\ iter_all (skipn 12 b) = (ops, BOk) /\ nlen ops = batch_count b.
Proof.
  intros b ops H. rewrite batch_iterate_eq in H. unfold BATCH_HEADER in H.
  destruct (nlen b <? 12) eqn:Hl; [discriminate H|]. apply N.ltb_ge in Hl.
  destruct (iter_all (skipn 12 b)) as [o st] eqn:E.
  destruct st; try discriminate H.
  destruct (nlen o =? batch_count b) eqn:Hc; [|discriminate H].
  injection H as Ho. subst o. apply N.eqb_eq in Hc. repeat split; assumption.
Qed.

Lemma firstn8_length : forall (b : bytes), 12 <= nlen b -> length (firstn 8 b) = 8%nat.
Proof. intros b H. unfold nlen in H. rewrite firstn_length. lia. Qed.

Lemma skipn_firstn8 : forall (a : bytes) n rest,
  12 <= nlen a -> skipn (8 + n) (firstn 8 a ++ rest) = skipn n rest.
Proof.
  intros a n rest H. rewrite skipn_app. rewrite firstn8_length by exact H.
  replace (8 + n - 8)%nat with n by lia.
  rewrite skipn_all2 by (rewrite firstn8_length by exact H; lia).
  reflexivity.
Qed.

(* general append: any two batches that iterate cleanly *)
Theorem batch_append_iterate : forall a b oa ob,
  batch_iterate a = (oa, BOk) -> batch_iterate b = (ob, BOk) ->
  nlen oa + nlen ob < 4294967296 ->
  batch_iterate (batch_append a b) = (oa ++ ob, BOk) /\
  batch_count (batch_append a b) = batch_count a + batch_count b /\
  batch_sequence (batch_append a b) = batch_sequence a.
Proof.
  intros a b oa ob Ha Hb Hsum.
  apply batch_iterate_ok_inv in Ha. destruct Ha as [Hla [Hia Hca]].
  apply batch_iterate_ok_inv in Hb. destruct Hb as [Hlb [Hib Hcb]].
  assert (Hcount : batch_count (batch_append a b) = batch_count a + batch_count b).
  { unfold batch_append, batch_set_count, batch_count at 1.
    rewrite <- !app_assoc.
    change 8%nat with (8 + 0)%nat at 1. rewrite skipn_firstn8 by exact Hla.
    cbn [skipn]. rewrite de32_le32 by lia. lia. }
  split; [|split].
  - rewrite batch_iterate_eq. rewrite Hcount.
    unfold batch_append, batch_set_count.
    rewrite <- !app_assoc.
    assert (Hlen : 12 <= nlen (firstn 8 a ++ le32 ((batch_count a + batch_count b) mod 4294967296)
                                  ++ skipn 12 a ++ skipn 12 b)).
    { unfold nlen. rewrite !app_length, firstn8_length, le32_length by exact Hla. lia. }
    unfold BATCH_HEADER.
    replace (nlen (firstn 8 a ++ le32 ((batch_count a + batch_count b) mod 4294967296)
                     ++ skipn 12 a ++ skipn 12 b) <? 12) with false
      by (symmetry; apply N.ltb_ge; exact Hlen).
    change 12%nat with (8 + 4)%nat at 1. rewrite skipn_firstn8 by exact Hla.
    rewrite skipn4_le32.
    rewrite (iter_all_app _ oa _ Hia). rewrite Hib.
    rewrite nlen_app, Hca, Hcb, N.eqb_refl. reflexivity.
  - exact Hcount.
  - unfold batch_sequence, batch_append, batch_set_count, de64.
    assert (H8 : exists a0 a1 a2 a3 a4 a5 a6 a7 t, a = a0 :: a1 :: a2 :: a3 :: a4 :: a5 :: a6 :: a7 :: t).
    { unfold nlen in Hla.
      do 8 (destruct a as [|? a]; [cbn [length] in Hla; lia|]). repeat eexists. }
    destruct H8 as [a0 [a1 [a2 [a3 [a4 [a5 [a6 [a7 [t Heq]]]]]]]]]. subst a.
    cbn [firstn app skipn de32]. unfold le32. cbn [app]. reflexivity.
Qed.

(* a header count that differs from the number of records is reported *)
Theorem batch_iterate_count_mismatch : forall b ops,
  12 <= nlen b ->
  iter_all (skipn 12 b) = (ops, BOk) ->
  nlen ops <> batch_count b ->
  batch_iterate b = (ops, BWrongCount).
Proof.
  intros b ops Hl Hi Hc. rewrite batch_iterate_eq. unfold BATCH_HEADER.
  replace (nlen b <? 12) with false by (symmetry; apply N.ltb_ge; exact Hl).
  rewrite Hi. replace (nlen ops =? batch_count b) with false
    by (symmetry; apply N.eqb_neq; exact Hc).
  reflexivity.
Qed.

(* ... in particular for a built batch whose count field was overwritten *)
Theorem batch_iterate_build_wrong_count : forall seq ops c,
  wf_ops ops = true -> c mod 4294967296 <> nlen ops ->
  batch_iterate (batch_set_count (batch_build seq ops) c) = (ops, BWrongCount).
Proof.
  intros seq ops c H Hc. apply wf_ops_split in H. destruct H as [Hwf Hn].
  rewrite batch_build_layout, batch_set_count_mk.
  apply batch_iterate_count_mismatch.
  - unfold nlen. rewrite hdr_length. lia.
  - rewrite skipn12_hdr. rewrite <- (app_nil_r (enc_ops ops)).
    rewrite iter_all_enc by exact Hwf. rewrite iter_all_nil, app_nil_r. reflexivity.
  - rewrite batch_count_mk by lia. intros Heq. apply Hc. symmetry. exact Heq.
Qed.

(* the status is BOk only if the count matches: iterate never accepts a wrong count *)
Theorem batch_iterate_ok_count : forall b ops,
  batch_iterate b = (ops, BOk) -> nlen ops = batch_count b.
Proof. intros b ops H. apply batch_iterate_ok_inv in H. apply H. Qed.

Theorem batch_iterate_too_small : forall b,
  nlen b < 12 -> batch_iterate b = ([], BTooSmall).
Proof.
  intros b H. unfold batch_iterate, BATCH_HEADER.
  replace (nlen b <? 12) with true by (symmetry; apply N.ltb_lt; exact H). reflexivity.
Qed.

Print Assumptions batch_iterate_build.
Print Assumptions batch_append_iterate.
