(* Properties_C04.v -- C04: write batches are all-or-nothing.
   (a) crash side: a cut log reads back as whole records only (no report), a record is a whole
       batch whose decoded entry count must equal its header count, group commit (batch append)
       preserves each member's operations and order, and the record-level crash theorem says the
       recovered state is made of whole batches applied in order.
   (b) concurrent side (LTS of lcdb's critical sections): the published sequence is always the end
       of a whole batch, and every reader's captured view is a prefix of the committed batches. *)
From Coq Require Import List NArith Bool Arith.
From LCDB Require Import Base LogFormat LogFormatClosed Batch BatchProofs FsModel FsProofs Lts LtsProofs.
Local Open Scope N_scope.

Theorem C04_log_cut_is_record_prefix : forall rs n,
  Forall (fun r => wf_bytes r = true) rs -> (n <= length (write_log rs))%nat ->
  exists k, read_log (firstn n (write_log rs)) = map Rec (firstn k rs).
Proof. exact read_cut_prefix. Qed.
Print Assumptions C04_log_cut_is_record_prefix.

Theorem C04_batch_roundtrip : forall seq ops,
  wf_ops ops = true -> batch_iterate (batch_build seq ops) = (ops, BOk).
Proof. exact batch_iterate_build. Qed.
Print Assumptions C04_batch_roundtrip.

Theorem C04_batch_count_checked : forall b ops,
  batch_iterate b = (ops, BOk) -> nlen ops = batch_count b.
Proof. exact batch_iterate_ok_count. Qed.
Print Assumptions C04_batch_count_checked.

Theorem C04_batch_count_mismatch_rejected : forall seq ops c,
  wf_ops ops = true -> c mod 4294967296 <> nlen ops ->
  batch_iterate (batch_set_count (batch_build seq ops) c) = (ops, BWrongCount).
Proof. exact batch_iterate_build_wrong_count. Qed.
Print Assumptions C04_batch_count_mismatch_rejected.

Theorem C04_group_append_keeps_members : forall a b oa ob,
  batch_iterate a = (oa, BOk) -> batch_iterate b = (ob, BOk) ->
  nlen oa + nlen ob < 4294967296 ->
  batch_iterate (batch_append a b) = (oa ++ ob, BOk) /\
  batch_count (batch_append a b) = batch_count a + batch_count b /\
  batch_sequence (batch_append a b) = batch_sequence a.
Proof. exact batch_append_iterate. Qed.
Print Assumptions C04_group_append_keeps_members.

(* after a process crash at ANY point of ANY protocol-conforming trace the recovered state is a
   sequence of WHOLE batches: exactly the acknowledged ones in order (+ possibly the one in flight) *)
Theorem C04_recovered_whole_batches : forall tr, wf_protocol tr = true -> forall p,
  iget (written_image (firstn p tr)) FCurrent <> None ->
  exists s old, recover (written_image (firstn p tr)) = Some s /\
    Forall (fun b => flushed (firstn p tr) b /\
                     exists n, In b (log_batches (firstn p tr) n) /\ n < r_log s) old /\
    (old ++ applied_batches s = acked_before tr p \/
     exists b, in_flight tr p b /\ old ++ applied_batches s = acked_before tr p ++ [b]).
Proof. exact FsProofs.C03_process_crash. Qed.
Print Assumptions C04_recovered_whole_batches.

Theorem C04_published_on_batch_boundary : forall th s, reachable th s ->
  l_last_seq s = length (concat (l_committed s)) /\ firstn (l_last_seq s) (l_store s) = concat (l_committed s) /\
  (forall t q k, l_pc s t = PRead q k -> exists j, firstn q (l_store s) = concat (firstn j (l_committed s))) /\
  (forall h, In h (l_snaps s) -> exists j, firstn h (l_store s) = concat (firstn j (l_committed s))).
Proof. exact published_on_batch_boundary. Qed.
Print Assumptions C04_published_on_batch_boundary.

Theorem C04_group_commit_keeps_batches : forall s t s' n, l_pc s t = PLogged n -> lts_step s (WLeaderPublish t) = Some s' ->
  l_committed s' = l_committed s ++ group_batches (firstn n (l_queue s)).
Proof. exact group_commit_keeps_batches. Qed.
Print Assumptions C04_group_commit_keeps_batches.
