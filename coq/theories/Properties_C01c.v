(* Properties_C01c.v -- C01 ("reads return the latest write ... regardless of cache
   evictions, ..."), the two abstractions the engine model (Engine.v) makes about lcdb's
   in-memory structures, justified on executable replicas that are tied to the C code by
   K1 differentials (checks/extra_c01.py):

   1. The LRU cache (src/util/cache.c; block cache and table cache) is TRANSPARENT.
      Cache.v is an exact sequential model of the 16-shard cache (hash sharding, lru /
      in-use lists, refs, in_cache, usage, eviction, capacity 0).  For every client script
      (inserts, lookups, releases of held handles, erases, prunes, in any order, any
      capacity): a lookup returns a miss or the value most recently inserted for that key;
      usage is bounded; an entry pinned by a handle is never freed; every inserted entry is
      handed to its deleter exactly once.  Hence the engine model may read tables and blocks
      directly, as if there were no cache.

   2. The memtable (src/skiplist.c + src/memtable.c) IS A SORTED LIST.  Skiplist.v models the
      pointer structure as the C code builds it (arena of nodes, per-level next links,
      max_height, the prev[] array of find_greater_or_equal).  For every comparator that is a
      total order, every sequence of pairwise inequivalent keys and EVERY height sequence
      in 1..12: level 0 lists the inserted keys in sorted order, every level is the sublist of
      the taller nodes, find_greater_or_equal is [find] on the sorted list (what
      Engine.seek_ge assumes), find_less_than / find_last and the iterator move as in the
      sorted list; and the replica of ldb_memtable_get over the encoded entries equals
      Engine.get_in_run over the [entry] list that Engine.do_write maintains.

   Statements only; proofs in CacheProofs.v, SkiplistProofs.v (+ SkiplistLemmas / SkiplistInv /
   SkiplistInvInsert), MemtableProofs.v, MemtableGet.v. *)
From LCDB Require Import Base Engine EngineSpec Cache CacheSpec CacheInv3 CacheProofs
     Skiplist SkiplistSpec SkiplistProofs Memtable MemtableProofs MemtableGet.
Require Import Permutation.
Local Open Scope N_scope.

(* ------------------------------------------------------------------ the LRU cache *)

(* after ANY script, a lookup of k returns a miss or the value most recently inserted for k
   and not erased since (CacheSpec.spec_latest) -- never a stale or foreign value *)
Theorem C01_cache_transparent :
  forall capacity ops st fr, reached capacity ops st fr ->
  forall k c' h v, lru_lookup (cs_cache st) k = (c', Some (h, v)) ->
  spec_latest ops k = Some v.
Proof. exact cache_transparent. Qed.
Print Assumptions C01_cache_transparent.

(* at most one in-cache entry per key *)
Theorem C01_cache_at_most_one :
  forall capacity ops st fr, reached capacity ops st fr ->
  forall i s, is_shard st i s ->
  forall e1 e2, In e1 (sh_heap s) -> In e2 (sh_heap s) ->
  ce_in_cache e1 = true -> ce_in_cache e2 = true -> ce_key e1 = ce_key e2 -> e1 = e2.
Proof. exact cache_at_most_one. Qed.
Print Assumptions C01_cache_at_most_one.

(* usage = sum of the charges of the in-cache entries (size_t arithmetic).
   [charges_ok ops]: every charge passed to insert is a size_t (< 2^64), as in C. *)
Theorem C01_cache_usage :
  forall capacity ops st fr, charges_ok ops -> reached capacity ops st fr ->
  forall i s, is_shard st i s ->
  sh_usage s = sum_charges (in_cache_entries s) mod two64.
Proof. exact cache_usage_wf. Qed.
Print Assumptions C01_cache_usage.

(* after every insert the shard that took the entry is within max(capacity, what client
   handles pin): eviction only happens inside insert and only takes unreferenced entries.
   (The literal "usage <= capacity whenever no handle is outstanding" is not a property of
   this cache, nor of LevelDB's: capacity 1, insert a, insert b (both held, charge 1 each),
   release both: usage 2, nothing outstanding -- release never evicts.) *)
Theorem C01_cache_bounded :
  forall capacity ops st fr, charges_ok ops -> reached capacity ops st fr ->
  forall k v ch st' obs f, ch < two64 -> cache_step st (CInsert k v ch) = (st', obs, f) ->
  forall s', is_shard st' (shard_index k) s' ->
  sh_usage s' <= N.max (sh_cap s') (sum_charges (pinned_entries s')).
Proof. exact cache_bounded_wf. Qed.
Print Assumptions C01_cache_bounded.

(* when no handle is outstanding at the time of the insert: usage <= max(capacity, charge) *)
Theorem C01_cache_bounded_unpinned :
  forall capacity ops st fr, charges_ok ops -> reached capacity ops st fr ->
  Forall (fun o => o = None) (cs_slots st) ->
  forall k v ch st' obs f, ch < two64 -> cache_step st (CInsert k v ch) = (st', obs, f) ->
  forall s', is_shard st' (shard_index k) s' ->
  sh_usage s' <= N.max (sh_cap s') ch.
Proof. exact cache_bounded_unpinned_wf. Qed.
Print Assumptions C01_cache_bounded_unpinned.

(* every held handle names a live entry; no step frees an entry that is still held *)
Theorem C01_cache_pinned_never_freed :
  forall capacity ops st fr, reached capacity ops st fr ->
  (forall i id, In (Some (i, id)) (cs_slots st) ->
     exists e, heap_get (sh_heap (get_shard (cs_cache st) i)) id = Some e /\ 1 <= ce_refs e) /\
  (forall op st' obs f, cache_step st op = (st', obs, f) ->
     forall e, In e f -> ~ In (Some (shard_index (ce_key e), ce_id e)) (cs_slots st')).
Proof. exact cache_pinned. Qed.
Print Assumptions C01_cache_pinned_never_freed.

(* deleter calls so far + live entries = inserts so far; over the whole life (script, release
   of every held handle, ldb_lru_destroy) every inserted entry is freed exactly once *)
Theorem C01_cache_freed_plus_live :
  forall capacity ops st fr, reached capacity ops st fr ->
  Permutation (map kv fr ++ map kv (all_heap (cs_cache st))) (inserted_kv ops).
Proof. exact cache_freed_plus_live. Qed.
Print Assumptions C01_cache_freed_plus_live.

Theorem C01_cache_deleter_exactly_once :
  forall capacity ops,
  all_heap (fst (lifecycle capacity ops)) = [] /\
  Permutation (map kv (snd (lifecycle capacity ops))) (inserted_kv ops).
Proof. exact cache_exactly_once. Qed.
Print Assumptions C01_cache_deleter_exactly_once.

(* ------------------------------------------------------------------ the skiplist *)

Theorem C01_skiplist_is_sorted_list :
  forall (K : Type) (cmp : K -> K -> comparison), cmp_order cmp ->
  forall keys hs, keys_distinct cmp keys -> heights_ok keys hs ->
  Skiplist.skiplist_contents (sl_build cmp keys hs) = sort_keys cmp keys.
Proof. exact SkiplistProofs.skiplist_contents. Qed.
Print Assumptions C01_skiplist_is_sorted_list.

Theorem C01_skiplist_levels :
  forall (K : Type) (cmp : K -> K -> comparison), cmp_order cmp ->
  forall keys hs, keys_distinct cmp keys -> heights_ok keys hs ->
  let sl := sl_build cmp keys hs in
  (forall l, (l < MAX_HEIGHT)%nat ->
     level_nodes sl l = filter (fun n => (l <? node_height sl n)%nat) (level_nodes sl 0)) /\
  map (node_height sl) (seq 1 (length keys)) = hs /\
  sl_maxh sl = fold_right Nat.max 1%nat hs.
Proof. exact skiplist_levels. Qed.
Print Assumptions C01_skiplist_levels.

Theorem C01_skiplist_seek :
  forall (K : Type) (cmp : K -> K -> comparison), cmp_order cmp ->
  forall keys hs, keys_distinct cmp keys -> heights_ok keys hs ->
  forall k, key_at (sl_build cmp keys hs) (fst (find_ge cmp (sl_build cmp keys hs) k))
            = find (ge_key cmp k) (sort_keys cmp keys).
Proof. exact skiplist_seek. Qed.
Print Assumptions C01_skiplist_seek.

Theorem C01_skiplist_find_lt_last :
  forall (K : Type) (cmp : K -> K -> comparison), cmp_order cmp ->
  forall keys hs, keys_distinct cmp keys -> heights_ok keys hs ->
  let sl := sl_build cmp keys hs in
  (forall k, node_key sl (find_lt cmp sl k) = find (lt_key cmp k) (rev (sort_keys cmp keys)) /\
             (find_lt cmp sl k = O <-> find (lt_key cmp k) (rev (sort_keys cmp keys)) = None)) /\
  node_key sl (find_last sl) = hd_error (rev (sort_keys cmp keys)) /\
  (find_last sl = O <-> keys = []).
Proof. exact skiplist_find_lt. Qed.
Print Assumptions C01_skiplist_find_lt_last.

Theorem C01_skiplist_iterator :
  forall (K : Type) (cmp : K -> K -> comparison), cmp_order cmp ->
  forall keys hs, keys_distinct cmp keys -> heights_ok keys hs ->
  let sl := sl_build cmp keys hs in
  let order := level_nodes sl 0 in
  let sorted := sort_keys cmp keys in
  length order = length sorted /\
  (forall i n, nth_error order i = Some n -> n <> O /\ node_key sl n = nth_error sorted i) /\
  it_first sl = nth_error order 0 /\
  it_last sl = nth_error order (length order - 1) /\
  (forall i n, nth_error order i = Some n -> it_next sl n = nth_error order (S i)) /\
  (forall i n, nth_error order i = Some n ->
     it_prev cmp sl n = match i with O => None | S j => nth_error order j end) /\
  (forall k, exists i, it_seek cmp sl k = nth_error order i /\
     (forall j x, (j < i)%nat -> nth_error sorted j = Some x -> cmp x k = Lt) /\
     (forall x, nth_error sorted i = Some x -> cmp x k <> Lt)).
Proof. exact skiplist_iterator. Qed.
Print Assumptions C01_skiplist_iterator.

(* ------------------------------------------------------------------ the memtable *)

(* ldb_skiplist_compare over encoded entries is a total order whenever the user comparator is *)
Theorem C01_memtable_comparator_order :
  forall ucmp, total_order ucmp -> cmp_order (mt_compare ucmp).
Proof. exact mt_compare_order. Qed.
Print Assumptions C01_memtable_comparator_order.

Theorem C01_memtable_entry_roundtrip : forall k seq ty v,
  seq < MAXSEQ1 -> ty < 256 -> nlen k + 8 < 4294967296 -> nlen v < 4294967296 ->
  mem_entry_decode (mem_entry_encode k seq ty v) = Some (k, seq, ty, v).
Proof. exact mem_entry_roundtrip. Qed.
Print Assumptions C01_memtable_entry_roundtrip.

(* ldb_memtable_get over the skiplist of encoded entries (any heights) = Engine.get_in_run
   over the sorted entry list of the engine model *)
Theorem C01_memtable_get_is_seek : forall ucmp, total_order ucmp ->
  forall adds hs k q,
  Forall add_ok adds -> adds_distinct ucmp adds -> heights_ok (map enc_add adds) hs ->
  q < MAXSEQ1 -> nlen k + 8 < 4294967296 ->
  memtable_get ucmp (memtable_add_all ucmp sl_empty adds hs) k q
  = get_in_run ucmp (fold_left (fun m e => insert_sorted ucmp e m) (map entry_of_add adds) []) k q.
Proof. exact memtable_get_is_seek. Qed.
Print Assumptions C01_memtable_get_is_seek.

(* level 0 of the memtable skiplist (what the memtable iterator walks, what a flush hands to
   the table builder) is the engine model's sorted run, entry by entry *)
Theorem C01_memtable_contents_is_run : forall ucmp, total_order ucmp ->
  forall adds hs,
  Forall add_ok adds -> adds_distinct ucmp adds -> heights_ok (map enc_add adds) hs ->
  Skiplist.skiplist_contents (memtable_add_all ucmp sl_empty adds hs)
  = map enc_entry (fold_left (fun m e => insert_sorted ucmp e m) (map entry_of_add adds) []).
Proof. exact memtable_contents_is_run. Qed.
Print Assumptions C01_memtable_contents_is_run.
