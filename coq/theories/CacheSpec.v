(* CacheSpec.v -- Prop-level vocabulary and theorem STATEMENTS for the LRU cache model
   (Cache.v).  No proofs here; every [..._statement] is proved in CacheProofs.v.

   All statements quantify over every client script [ops] (Cache.cop): inserts,
   lookups, releases of held handles, erases, prunes in any order, on any capacity.
   The script discipline (a handle is released only while held, once) is built into
   Cache.cache_step: CRelease of an empty slot does nothing. *)
From LCDB Require Export Cache.
Require Import Permutation.
Local Open Scope N_scope.

(* the value most recently inserted for k and not erased since *)
Definition spec_latest (ops : list cop) (k : bytes) : option N :=
  fold_left (fun m op =>
    match op with
    | CInsert k' v _ => if bytes_eqb k' k then Some v else m
    | CErase k' => if bytes_eqb k' k then None else m
    | _ => m
    end) ops None.

(* every (key, value) ever inserted, in order *)
Fixpoint inserted_kv (ops : list cop) : list (bytes * N) :=
  match ops with
  | [] => []
  | CInsert k v _ :: r => (k, v) :: inserted_kv r
  | _ :: r => inserted_kv r
  end.

Definition kv (e : centry) : bytes * N := (ce_key e, ce_val e).

Definition all_heap (c : lru_cache) : list centry := concat (map sh_heap (lc_shards c)).

Definition in_cache_entries (s : lru_shard) : list centry := filter ce_in_cache (sh_heap s).
Definition sum_charges (l : list centry) : N := fold_right (fun e acc => ce_charge e + acc) 0 l.
(* in the cache and referenced by at least one client handle *)
Definition pinned_entries (s : lru_shard) : list centry :=
  filter (fun e => ce_in_cache e && (2 <=? ce_refs e)) (sh_heap s).

(* reachable: the state after running a script from ldb_lru_create(capacity);
   [fr] = every entry handed to the deleter so far, in call order *)
Definition reached (capacity : N) (ops : list cop) (st : cstate) (fr : list centry) : Prop :=
  exists obs, cache_run (cache_init capacity) ops = (st, obs, fr).

Definition is_shard (st : cstate) (i : nat) (s : lru_shard) : Prop :=
  nth_error (lc_shards (cs_cache st)) i = Some s.

(* (a) a lookup returns a miss or the value most recently inserted for the key
       (and not erased since): never a stale or foreign value, whatever was evicted *)
Definition cache_transparent_statement : Prop :=
  forall capacity ops st fr, reached capacity ops st fr ->
  forall k c' h v, lru_lookup (cs_cache st) k = (c', Some (h, v)) ->
  spec_latest ops k = Some v.

(* (b) at most one in-cache entry per key *)
Definition cache_at_most_one_statement : Prop :=
  forall capacity ops st fr, reached capacity ops st fr ->
  forall i s, is_shard st i s ->
  forall e1 e2, In e1 (sh_heap s) -> In e2 (sh_heap s) ->
  ce_in_cache e1 = true -> ce_in_cache e2 = true -> ce_key e1 = ce_key e2 -> e1 = e2.

(* NOTE on (c1), (c2) and the corollary: as written here they quantify over charges that are
   arbitrary N, and are FALSE for a charge >= 2^64 (CacheProofs.usage_counterexample,
   bounded_counterexample: the model's usage arithmetic is that of a size_t).  The versions
   that are proved carry the typing hypothesis "every charge is a size_t"
   (CacheInv3.charges_ok ops, and ch < two64 for the insert at hand):
   CacheProofs.cache_usage_wf, cache_bounded_wf, cache_bounded_unpinned_wf. *)
(* (c1) usage is the sum of the charges of the in-cache entries (size_t arithmetic) *)
Definition cache_usage_statement : Prop :=
  forall capacity ops st fr, reached capacity ops st fr ->
  forall i s, is_shard st i s ->
  sh_usage s = sum_charges (in_cache_entries s) mod two64.

(* (c2) after every insert the shard that took the entry is within its capacity, except for
   what clients pin: usage <= max(capacity, charges of the in-cache entries that are
   referenced by handles).  [Eviction only happens inside insert and only takes unreferenced
   entries, so "usage <= capacity whenever no handle is outstanding" is NOT a property of
   this cache (LevelDB's neither): release never evicts.] *)
Definition cache_bounded_statement : Prop :=
  forall capacity ops st fr, reached capacity ops st fr ->
  forall k v ch st' obs f, cache_step st (CInsert k v ch) = (st', obs, f) ->
  forall s', is_shard st' (shard_index k) s' ->
  sh_usage s' <= N.max (sh_cap s') (sum_charges (pinned_entries s')).

(* corollary of (c2): when no handle was outstanding before the insert, the only pinned
   entry is the new one *)
Definition cache_bounded_unpinned_statement : Prop :=
  forall capacity ops st fr, reached capacity ops st fr ->
  Forall (fun o => o = None) (cs_slots st) ->
  forall k v ch st' obs f, cache_step st (CInsert k v ch) = (st', obs, f) ->
  forall s', is_shard st' (shard_index k) s' ->
  sh_usage s' <= N.max (sh_cap s') ch.

(* (d1) at every moment: deleter calls so far + live entries = the inserts so far
        (as multisets of (key, value)): nothing freed twice, nothing invented, nothing lost *)
Definition cache_freed_plus_live_statement : Prop :=
  forall capacity ops st fr, reached capacity ops st fr ->
  Permutation (map kv fr ++ map kv (all_heap (cs_cache st))) (inserted_kv ops).

(* the whole life: script, release of every handle still held, ldb_lru_destroy *)
Definition lifecycle (capacity : N) (ops : list cop) : lru_cache * list centry :=
  let '(st1, _, f1) := cache_run (cache_init capacity) ops in
  let '(st2, _, f2) := cache_run st1 (release_all_ops st1) in
  let '(c3, f3) := lru_destroy (cs_cache st2) in
  (c3, f1 ++ f2 ++ f3).

(* (d2) every inserted entry's deleter runs exactly once: over the whole life the deleter
        calls are a permutation of the inserts, and nothing is left *)
Definition cache_exactly_once_statement : Prop :=
  forall capacity ops,
  all_heap (fst (lifecycle capacity ops)) = [] /\
  Permutation (map kv (snd (lifecycle capacity ops))) (inserted_kv ops).

(* (e) pinned entries are never freed: every handle a client holds names a live entry of
       its shard, and no step frees an entry for which a handle is still held afterwards *)
Definition cache_pinned_statement : Prop :=
  forall capacity ops st fr, reached capacity ops st fr ->
  (forall i id, In (Some (i, id)) (cs_slots st) ->
     exists e, heap_get (sh_heap (get_shard (cs_cache st) i)) id = Some e /\ 1 <= ce_refs e) /\
  (forall op st' obs f, cache_step st op = (st', obs, f) ->
     forall e, In e f -> ~ In (Some (shard_index (ce_key e), ce_id e)) (cs_slots st')).
