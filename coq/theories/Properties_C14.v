(* Properties_C14.v -- theorems for property C14 (the reported layout is well formed).
   Statements only; the proofs are in EngineSteps.v, EngineStepsInv.v and EngineTop.v. *)
From LCDB Require Import Base Engine EngineSpec EngineRead EngineSteps EngineTop.
From Coq Require Import Sorting.Sorted.
Local Open Scope N_scope.

Theorem C14_get_is_newest_visible : forall ucmp, total_order ucmp -> forall s k q,
  inv_b ucmp s = true -> get ucmp s k q = result_of (best ucmp (all_entries s) k q).
Proof. exact get_correct. Qed.
Print Assumptions C14_get_is_newest_visible.

(* the executable invariant holds in every reachable state *)
Theorem C14_inv_reachable : forall ucmp, total_order ucmp -> forall ops s,
  run ucmp init_state ops = Some s -> inv_b ucmp s = true.
Proof. exact inv_reachable. Qed.
Print Assumptions C14_inv_reachable.

Theorem C14_step_preserves_inv : forall ucmp, total_order ucmp -> forall s o s',
  inv_b ucmp s = true -> step ucmp s o = Some s' -> inv_b ucmp s' = true.
Proof. exact step_preserves_inv. Qed.
Print Assumptions C14_step_preserves_inv.

(* what the invariant says about the layout *)
Theorem C14_layout_wellformed : forall ucmp, total_order ucmp -> forall s,
  inv_b ucmp s = true ->
  (* seven levels; memtables and files strictly sorted by internal key, files non-empty *)
  length (levels s) = 7%nat /\
  StronglySorted (fun a b => ilt ucmp a b = true) (mem s) /\
  StronglySorted (fun a b => ilt ucmp a b = true) (imm_run s) /\
  (forall i f, In f (level_files (levels s) i) ->
     fents f <> [] /\ StronglySorted (fun a b => ilt ucmp a b = true) (fents f)) /\
  (* levels >= 1: files sorted and pairwise disjoint *)
  (forall i, (1 <= i)%nat ->
     StronglySorted (fun f g => forall x y, In x (fents f) -> In y (fents g) -> ilt ucmp x y = true)
                    (level_files (levels s) i)) /\
  (* recency: for one user key, shallower places / newer level-0 files hold newer entries *)
  (forall o m, ueq ucmp (ek o) (ek m) = true -> In o (mem s) -> In m (imm_run s) -> es m < es o) /\
  (forall o m i f, ueq ucmp (ek o) (ek m) = true -> In o (mem s) \/ In o (imm_run s) ->
     In f (level_files (levels s) i) -> In m (fents f) -> es m < es o) /\
  (forall o m f g, ueq ucmp (ek o) (ek m) = true ->
     In f (level_files (levels s) 0) -> In g (level_files (levels s) 0) -> fnum g < fnum f ->
     In o (fents f) -> In m (fents g) -> es m < es o) /\
  (forall o m i j f g, ueq ucmp (ek o) (ek m) = true -> (i < j)%nat ->
     In f (level_files (levels s) i) -> In g (level_files (levels s) j) ->
     In o (fents f) -> In m (fents g) -> es m < es o) /\
  (* sequences, file numbers, snapshots *)
  (forall e, In e (all_entries s) -> es e <= last_seq s) /\
  (forall f, In f (concat (levels s)) -> fnum f < next_file s) /\
  NoDup (map fnum (concat (levels s))) /\
  (forall q, In q (snaps s) -> q <= last_seq s) /\ sorted_le (snaps s) = true.
Proof. exact layout_wellformed. Qed.
Print Assumptions C14_layout_wellformed.

(* closing and reopening without turning replayed log entries into tables (the write
   buffer was empty, or the log is reused) reproduces the same layout *)
Theorem C14_reopen_same_layout : forall ucmp s nf s',
  do_reopen ucmp s [] [] nf = Some s' ->
  levels s' = levels s /\ imm s' = None /\ last_seq s' = last_seq s /\
  (mem s = [] -> imm s = None -> mem s' = []).
Proof. exact reopen_same_layout. Qed.
Print Assumptions C14_reopen_same_layout.

(* such a reopen is possible with any counter above the live table numbers *)
Theorem C14_reopen_same_layout_exists : forall ucmp s nf,
  (forall f, In f (concat (levels s)) -> fnum f < nf) ->
  exists s', do_reopen ucmp s [] [] nf = Some s' /\ levels s' = levels s.
Proof. exact reopen_same_layout_exists. Qed.
Print Assumptions C14_reopen_same_layout_exists.

(* non-vacuity: the final state of the run of EngineTop.Example *)
Theorem C14_example :
  run bytes_compare init_state Example.all_ops = Some Example.s3 /\
  inv_b bytes_compare Example.s3 = true /\
  map (map fnum) (levels Example.s3) = [[5]; [4]; [2]; []; []; []; []].
Proof. split. exact Example.run_all. split. exact Example.c14_instance. reflexivity. Qed.
Print Assumptions C14_example.
