(* CacheInv3.v -- the invariant of the 16-shard cache along a client script (Cache.cache_run):
   every shard satisfies CacheInv.sinv with rc = the number of slots holding a handle on the
   entry, at most one in-cache entry per key, keys live in their own shard, in-cache values are
   the latest inserted ones. *)
From LCDB Require Import Base BaseProofs Cache CacheSpec CacheLemmas CacheInv CacheInv2.
From Coq Require Import Lia ZifyBool ZifyNat ZifyN Permutation.
Local Open Scope N_scope.

Ltac Zify.zify_post_hook ::= Z.div_mod_to_equations.

(* ------------------------------------------------------------------ *)
(* handle counts                                                        *)
(* ------------------------------------------------------------------ *)
Definition ch_dec : forall x y : option chandle, {x = y} + {x <> y}.
Proof. decide equality. decide equality; [apply N.eq_dec|apply Nat.eq_dec]. Defined.

Definition hcnt (slots : list (option chandle)) (i : nat) (id : N) : N :=
  N.of_nat (count_occ ch_dec slots (Some (i, id))).

Ltac gen_counts := unfold chandle in *.

Lemma hcnt_pos_in : forall slots i id, In (Some (i, id)) slots <-> 1 <= hcnt slots i id.
Proof.
  intros slots i id. unfold hcnt. rewrite (count_occ_In ch_dec). gen_counts. lia.
Qed.

Lemma hcnt_zero_notin : forall slots i id, hcnt slots i id = 0 -> ~ In (Some (i, id)) slots.
Proof.
  intros slots i id H. apply (count_occ_not_In ch_dec). unfold hcnt in H. gen_counts. lia.
Qed.

Ltac destr_dec := match goal with |- context [ch_dec ?a ?b] => destruct (ch_dec a b) end.
Ltac fin_dec := solve [subst; lia | exfalso; congruence].

Lemma hcnt_snoc_same : forall slots i id y,
  hcnt (slots ++ [Some (i, id)]) i y = hcnt slots i y + (if y =? id then 1 else 0).
Proof.
  intros slots i id y. unfold hcnt. rewrite count_occ_app. cbn [count_occ]. gen_counts.
  repeat destr_dec; destruct (N.eqb_spec y id) as [E'|E']; fin_dec.
Qed.

Lemma hcnt_snoc_other : forall slots i id j y, j <> i ->
  hcnt (slots ++ [Some (i, id)]) j y = hcnt slots j y.
Proof.
  intros slots i id j y Hne. unfold hcnt. rewrite count_occ_app. cbn [count_occ]. gen_counts.
  repeat destr_dec; fin_dec.
Qed.

Lemma hcnt_snoc_none : forall slots j y, hcnt (slots ++ [None]) j y = hcnt slots j y.
Proof.
  intros slots j y. unfold hcnt. rewrite count_occ_app. cbn [count_occ]. gen_counts.
  repeat destr_dec; fin_dec.
Qed.

Lemma hcnt_release : forall slots n i id, nth n slots None = Some (i, id) ->
  In (Some (i, id)) slots /\
  (forall y, hcnt (set_nth n None slots) i y = if y =? id then hcnt slots i id - 1 else hcnt slots i y) /\
  (forall j y, j <> i -> hcnt (set_nth n None slots) j y = hcnt slots j y) /\
  (forall h, In (Some h) (set_nth n None slots) -> In (Some h) slots).
Proof.
  intros slots n i id H.
  assert (Hlt : (n < length slots)%nat).
  { destruct (Nat.lt_ge_cases n (length slots)) as [L|L]; [exact L|].
    rewrite (nth_overflow _ _ L) in H. discriminate H. }
  pose proof (nth_error_nth' slots None Hlt) as Hne. rewrite H in Hne.
  destruct (set_nth_split _ n slots _ Hne) as [l1 [l2 [E1 [E2 E3]]]].
  rewrite (E3 None). rewrite E1. split; [apply in_or_app; right; left; reflexivity|].
  clear H Hlt Hne E1 E2 E3.
  split; [|split].
  - intros y. unfold hcnt. rewrite !count_occ_app. cbn [count_occ]. gen_counts.
    repeat destr_dec; destruct (N.eqb_spec y id) as [E'|E']; fin_dec.
  - intros j y Hj. unfold hcnt. rewrite !count_occ_app. cbn [count_occ]. gen_counts.
    repeat destr_dec; fin_dec.
  - intros h Hh. apply in_app_or in Hh. apply in_or_app. destruct Hh as [Hh|[Hh|Hh]].
    + left. exact Hh.
    + discriminate Hh.
    + right. right. exact Hh.
Qed.

Lemma hcnt_all_none : forall slots, (forall x, In x slots -> x = None) -> forall i id, hcnt slots i id = 0.
Proof.
  intros slots H i id. unfold hcnt.
  assert (count_occ ch_dec slots (Some (i, id)) = 0%nat) as ->; [|reflexivity].
  apply count_occ_not_In. intros Hin. discriminate (H _ Hin).
Qed.

(* ------------------------------------------------------------------ *)
(* script bookkeeping                                                   *)
(* ------------------------------------------------------------------ *)
Definition charge_ok (op : cop) : Prop :=
  match op with CInsert _ _ ch => ch < two64 | _ => True end.
Definition charges_ok (ops : list cop) : Prop := Forall charge_ok ops.

Lemma charges_ok_snoc : forall ops op, charges_ok (ops ++ [op]) -> charges_ok ops /\ charge_ok op.
Proof.
  intros ops op H. apply Forall_app in H. destruct H as [H1 H2]. split; [exact H1|].
  inversion H2; assumption.
Qed.

Lemma charges_ok_app_l : forall ops l, charges_ok (ops ++ l) -> charges_ok ops.
Proof. intros ops l H. apply Forall_app in H. apply H. Qed.

Lemma spec_latest_snoc : forall ops op k,
  spec_latest (ops ++ [op]) k =
  match op with
  | CInsert k' v _ => if bytes_eqb k' k then Some v else spec_latest ops k
  | CErase k' => if bytes_eqb k' k then None else spec_latest ops k
  | _ => spec_latest ops k
  end.
Proof.
  intros ops op k. unfold spec_latest. rewrite fold_left_app. cbn [fold_left].
  destruct op; reflexivity.
Qed.

Lemma inserted_kv_app : forall a b, inserted_kv (a ++ b) = inserted_kv a ++ inserted_kv b.
Proof.
  induction a as [|op a IH]; intros b; [reflexivity|].
  cbn [app]. destruct op; cbn [inserted_kv app]; rewrite IH; reflexivity.
Qed.

Lemma inserted_kv_releases : forall l, inserted_kv (map CRelease l) = [].
Proof. induction l as [|n l IH]; [reflexivity|]. cbn [map inserted_kv]. exact IH. Qed.

(* ------------------------------------------------------------------ *)
(* the cache invariant                                                  *)
(* ------------------------------------------------------------------ *)
Record shard_ok (ops : list cop) (slots : list (option chandle)) (i : nat) (s : lru_shard) : Prop := {
  sk_inv : sinv (charges_ok ops) (hcnt slots i) s;
  sk_amo : amo (sh_heap s);
  sk_idx : forall e, In e (sh_heap s) -> shard_index (ce_key e) = i;
  sk_latest : forall e, In e (sh_heap s) -> ce_in_cache e = true ->
      spec_latest ops (ce_key e) = Some (ce_val e) }.

Record cinv (ops : list cop) (st : cstate) : Prop := {
  ci_len : length (lc_shards (cs_cache st)) = 16%nat;
  ci_shards : forall i s, nth_error (lc_shards (cs_cache st)) i = Some s ->
      shard_ok ops (cs_slots st) i s;
  ci_slots : forall i id, In (Some (i, id)) (cs_slots st) -> (i < 16)%nat }.

Lemma cinv_get : forall ops st i, cinv ops st -> (i < 16)%nat ->
  nth_error (lc_shards (cs_cache st)) i = Some (get_shard (cs_cache st) i) /\
  shard_ok ops (cs_slots st) i (get_shard (cs_cache st) i).
Proof.
  intros ops st i Hinv Hi. unfold get_shard.
  assert (H : nth_error (lc_shards (cs_cache st)) i = Some (nth i (lc_shards (cs_cache st)) (shard_new 0))).
  { apply nth_error_nth'. rewrite (ci_len _ _ Hinv). exact Hi. }
  split; [exact H|]. apply (ci_shards _ _ Hinv). exact H.
Qed.

Lemma nth_error_get_shard : forall c i s, nth_error (lc_shards c) i = Some s -> get_shard c i = s.
Proof. intros c i s H. unfold get_shard. apply nth_error_nth. exact H. Qed.

(* transfer along a step that only shrinks the in-cache set *)
Lemma shard_ok_sub : forall ops ops' slots slots' i s s',
  shard_ok ops slots i s ->
  sinv (charges_ok ops') (hcnt slots' i) s' ->
  heap_sub (sh_heap s) (sh_heap s') ->
  (forall e', In e' (sh_heap s') -> ce_in_cache e' = true ->
     spec_latest ops' (ce_key e') = spec_latest ops (ce_key e')) ->
  shard_ok ops' slots' i s'.
Proof.
  intros ops ops' slots slots' i s s' [Hinv Hamo Hidx Hlat] Hinv' Hsub Hl. constructor.
  - exact Hinv'.
  - eapply amo_sub; [apply (si_nodup _ _ _ Hinv')|exact Hsub|exact Hamo].
  - intros e He. destruct (Hsub e He) as [y [Hy [[_ [Sk _]] _]]]. rewrite <- Sk. apply Hidx, Hy.
  - intros e He Hic. destruct (Hsub e He) as [y [Hy [[_ [Sk [Sv _]]] Icy]]].
    rewrite (Hl e He Hic). rewrite <- Sk, <- Sv. apply Hlat; [exact Hy|apply Icy, Hic].
Qed.

Lemma shard_ok_frame : forall ops ops' slots slots' i s,
  shard_ok ops slots i s ->
  (charges_ok ops' -> charges_ok ops) ->
  (forall y, hcnt slots' i y = hcnt slots i y) ->
  (forall k', shard_index k' = i -> spec_latest ops' k' = spec_latest ops k') ->
  shard_ok ops' slots' i s.
Proof.
  intros ops ops' slots slots' i s Hsk HB Hc Hl.
  apply (shard_ok_sub ops ops' slots slots' i s s Hsk).
  - apply (sinv_ext _ (hcnt slots i)); [intros x; symmetry; apply Hc|].
    apply (sinv_mono (charges_ok ops)); [exact HB|apply (sk_inv _ _ _ _ Hsk)].
  - apply heap_sub_refl.
  - intros e He _. apply Hl. apply (sk_idx _ _ _ _ Hsk). exact He.
Qed.

(* ---- all_heap ---- *)
Lemma all_heap_put : forall c i s s' f extra, nth_error (lc_shards c) i = Some s ->
  Permutation (map kv f ++ map kv (sh_heap s')) (map kv (sh_heap s) ++ extra) ->
  Permutation (map kv f ++ map kv (all_heap (put_shard c i s'))) (map kv (all_heap c) ++ extra).
Proof.
  intros c i s s' f extra Hn Hp. unfold all_heap, put_shard. cbn [lc_shards].
  destruct (set_nth_split _ i (lc_shards c) s Hn) as [l1 [l2 [E1 [_ E3]]]].
  rewrite (E3 s'), E1. rewrite !map_app. cbn [map]. rewrite !concat_app. cbn [concat].
  rewrite !map_app.
  set (A := map kv (concat (map sh_heap l1))). set (C := map kv (concat (map sh_heap l2))).
  set (F := map kv f) in *. set (S' := map kv (sh_heap s')) in *. set (S := map kv (sh_heap s)) in *.
  (* F ++ A ++ S' ++ C ~ (A ++ S ++ C) ++ extra *)
  eapply perm_trans; [apply Permutation_app_swap_app|].
  rewrite <- app_assoc. apply Permutation_app_head.
  (* F ++ S' ++ C ~ (S ++ C) ++ extra *)
  rewrite app_assoc. eapply perm_trans; [apply Permutation_app_tail; exact Hp|].
  rewrite <- !app_assoc. apply Permutation_app_head. apply Permutation_app_comm.
Qed.

Lemma put_shard_nth_eq : forall c i s', (i < length (lc_shards c))%nat ->
  nth_error (lc_shards (put_shard c i s')) i = Some s'.
Proof. intros c i s' H. unfold put_shard. cbn [lc_shards]. apply nth_error_set_nth_eq. exact H. Qed.

Lemma put_shard_nth_neq : forall c i j s', j <> i ->
  nth_error (lc_shards (put_shard c i s')) j = nth_error (lc_shards c) j.
Proof. intros c i j s' H. unfold put_shard. cbn [lc_shards]. apply nth_error_set_nth_neq. exact H. Qed.

(* ---- one shard changes ---- *)
Lemma put_step : forall ops ops' st i s s' slots' f extra,
  cinv ops st -> nth_error (lc_shards (cs_cache st)) i = Some s ->
  shard_ok ops' slots' i s' ->
  (charges_ok ops' -> charges_ok ops) ->
  (forall j y, j <> i -> hcnt slots' j y = hcnt (cs_slots st) j y) ->
  (forall k', shard_index k' <> i -> spec_latest ops' k' = spec_latest ops k') ->
  (forall j y, In (Some (j, y)) slots' -> (j < 16)%nat) ->
  Permutation (map kv f ++ map kv (sh_heap s')) (map kv (sh_heap s) ++ extra) ->
  (forall e, In e f -> (forall x, In x (sh_heap s') -> ce_id x <> ce_id e) /\ shard_index (ce_key e) = i) ->
  cinv ops' (mkCS (put_shard (cs_cache st) i s') slots') /\
  Permutation (map kv f ++ map kv (all_heap (put_shard (cs_cache st) i s')))
              (map kv (all_heap (cs_cache st)) ++ extra) /\
  (forall e, In e f -> ~ In (Some (shard_index (ce_key e), ce_id e)) slots').
Proof.
  intros ops ops' st i s s' slots' f extra Hinv Hn Hsk HB Hc Hl Hsl Hp Hf.
  assert (Hi : (i < length (lc_shards (cs_cache st)))%nat).
  { apply nth_error_Some. rewrite Hn. discriminate. }
  split; [|split].
  - constructor; cbn [cs_cache cs_slots].
    + unfold put_shard. cbn [lc_shards]. rewrite set_nth_length. apply (ci_len _ _ Hinv).
    + intros j sj Hj. destruct (Nat.eq_dec j i) as [E|E].
      * subst j. rewrite (put_shard_nth_eq _ _ _ Hi) in Hj. injection Hj as <-. exact Hsk.
      * rewrite (put_shard_nth_neq _ _ _ _ E) in Hj.
        apply (shard_ok_frame ops ops' (cs_slots st) slots' j sj (ci_shards _ _ Hinv j sj Hj) HB).
        -- intros y. apply Hc. exact E.
        -- intros k' Hk'. apply Hl. congruence.
    + exact Hsl.
  - apply (all_heap_put _ _ s); assumption.
  - intros e He. destruct (Hf e He) as [H1 H2]. rewrite H2.
    apply hcnt_zero_notin. apply (si_rc0 _ _ _ (sk_inv _ _ _ _ Hsk)). exact H1.
Qed.

(* ---- no shard changes ---- *)
Lemma frame_step : forall ops ops' st c' slots',
  cinv ops st -> lc_shards c' = lc_shards (cs_cache st) ->
  (charges_ok ops' -> charges_ok ops) ->
  (forall j y, hcnt slots' j y = hcnt (cs_slots st) j y) ->
  (forall k', spec_latest ops' k' = spec_latest ops k') ->
  (forall j y, In (Some (j, y)) slots' -> (j < 16)%nat) ->
  cinv ops' (mkCS c' slots').
Proof.
  intros ops ops' st c' slots' Hinv Hsh HB Hc Hl Hsl. constructor; cbn [cs_cache cs_slots].
  - rewrite Hsh. apply (ci_len _ _ Hinv).
  - intros j sj Hj. rewrite Hsh in Hj.
    apply (shard_ok_frame ops ops' (cs_slots st) slots' j sj (ci_shards _ _ Hinv j sj Hj) HB).
    + intros y. apply Hc.
    + intros k' _. apply Hl.
  - exact Hsl.
Qed.

(* ---- map_shards ---- *)
Lemma map_shards_spec : forall g l l' f, map_shards g l = (l', f) ->
  length l' = length l /\
  (forall i s', nth_error l' i = Some s' -> exists s fi, nth_error l i = Some s /\ g s = (s', fi)) /\
  (forall e, In e f -> exists i s s' fi, nth_error l i = Some s /\ nth_error l' i = Some s' /\
                                       g s = (s', fi) /\ In e fi) /\
  ((forall s s' fi, In s l -> g s = (s', fi) ->
      Permutation (map kv fi ++ map kv (sh_heap s')) (map kv (sh_heap s))) ->
   Permutation (map kv f ++ map kv (concat (map sh_heap l'))) (map kv (concat (map sh_heap l)))).
Proof.
  intros g. induction l as [|a t IH]; intros l' f H.
  - cbn [map_shards] in H. injection H as <- <-. split; [reflexivity|]. split; [|split].
    + intros i s' Hi. destruct i; discriminate Hi.
    + intros e [].
    + intros _. reflexivity.
  - cbn [map_shards] in H. destruct (g a) as [a' f1] eqn:Ea.
    destruct (map_shards g t) as [t' f2] eqn:Et. injection H as <- <-.
    destruct (IH t' f2 eq_refl) as [H1 [H2 [H3 H4]]].
    split; [cbn [length]; rewrite H1; reflexivity|]. split; [|split].
    + intros i s' Hi. destruct i as [|i].
      * cbn [nth_error] in Hi. injection Hi as <-. exists a, f1. split; [reflexivity|exact Ea].
      * cbn [nth_error] in Hi. destruct (H2 i s' Hi) as [s [fi [A B]]]. exists s, fi. split; assumption.
    + intros e He. apply in_app_or in He. destruct He as [He|He].
      * exists 0%nat, a, a', f1. repeat split; assumption.
      * destruct (H3 e He) as [i [s [s' [fi [A [B [C D]]]]]]].
        exists (S i), s, s', fi. repeat split; assumption.
    + intros Hall. cbn [map concat]. rewrite !map_app.
      assert (P1 := Hall a a' f1 (or_introl eq_refl) Ea).
      assert (P2 := H4 (fun s s' fi Hs => Hall s s' fi (or_intror Hs))).
      set (F1 := map kv f1) in *. set (F2 := map kv f2) in *.
      set (A' := map kv (sh_heap a')) in *. set (A := map kv (sh_heap a)) in *.
      set (T' := map kv (concat (map sh_heap t'))) in *. set (T := map kv (concat (map sh_heap t))) in *.
      (* (F1 ++ F2) ++ A' ++ T' ~ A ++ T *)
      rewrite <- app_assoc.
      eapply perm_trans; [apply Permutation_app_head; apply Permutation_app_swap_app|].
      rewrite app_assoc. eapply perm_trans; [apply Permutation_app_tail; exact P1|].
      apply Permutation_app_head. exact P2.
Qed.

(* ------------------------------------------------------------------ *)
(* one script step                                                      *)
(* ------------------------------------------------------------------ *)
Lemma insert_descends : forall B rc s e0 h' x, sinv B rc s -> ce_id e0 = sh_next s ->
  heap_sub (sh_heap s ++ [e0]) h' -> In x h' ->
  (ce_id x = sh_next s -> same_static e0 x) /\
  (ce_id x <> sh_next s -> exists y, In y (sh_heap s) /\ same_static y x /\ (ce_in_cache x = true -> ce_in_cache y = true)).
Proof.
  intros B rc s e0 h' x Hinv Hid Hsub Hx.
  destruct (Hsub x Hx) as [y [Hy [Ss Ic]]]. apply in_app_or in Hy. destruct Hy as [Hy|[Hy|[]]].
  - split.
    + intros E. exfalso. pose proof (si_next _ _ _ Hinv y Hy) as L. destruct Ss as [Sid _]. lia.
    + intros _. exists y. repeat split; try assumption; apply Ss.
  - subst y. split.
    + intros _. exact Ss.
    + intros E. exfalso. apply E. destruct Ss as [Sid _]. congruence.
Qed.

Lemma step_inv : forall ops st op st' obs f, cinv ops st -> cache_step st op = (st', obs, f) ->
  cinv (ops ++ [op]) st' /\
  Permutation (map kv f ++ map kv (all_heap (cs_cache st')))
              (map kv (all_heap (cs_cache st)) ++ inserted_kv [op]) /\
  (forall e, In e f -> ~ In (Some (shard_index (ce_key e), ce_id e)) (cs_slots st')).
Proof.
  intros ops st op st' obs f Hinv H.
  assert (Hframe : forall c', lc_shards c' = lc_shards (cs_cache st) ->
            (forall k', spec_latest (ops ++ [op]) k' = spec_latest ops k') ->
            inserted_kv [op] = [] ->
            cinv (ops ++ [op]) (mkCS c' (cs_slots st)) /\
            Permutation (map kv [] ++ map kv (all_heap c'))
                        (map kv (all_heap (cs_cache st)) ++ inserted_kv [op]) /\
            (forall e, In e [] -> ~ In (Some (shard_index (ce_key e), ce_id e)) (cs_slots st))).
  { intros c' Hsh Hl Hi. split; [|split].
    - apply (frame_step ops _ st c' (cs_slots st) Hinv Hsh).
      + intros HB. apply (charges_ok_app_l _ _ HB).
      + intros j y. reflexivity.
      + exact Hl.
      + apply (ci_slots _ _ Hinv).
    - rewrite Hi, app_nil_r. cbn [map app]. unfold all_heap. rewrite Hsh. reflexivity.
    - intros e []. }
  destruct op as [k v charge|k|n|k| | |].
  - (* CInsert *)
    cbn [cache_step] in H. unfold lru_insert in H.
    destruct (cinv_get ops st (shard_index k) Hinv (shard_index_lt k)) as [Hnth Hsk].
    set (i := shard_index k) in *. set (s := get_shard (cs_cache st) i) in *.
    destruct (shard_insert s k v charge) as [[s' id] f0] eqn:Ei.
    cbv beta iota zeta in H. injection H as <- <- <-. cbn [cs_cache cs_slots].
    set (ops' := ops ++ [CInsert k v charge]).
    assert (HB : charges_ok ops' -> charges_ok ops /\ charge < two64).
    { intros HB. apply charges_ok_snoc in HB. exact HB. }
    pose proof (sinv_mono _ (charges_ok ops') _ _ (fun H => proj1 (HB H)) (sk_inv _ _ _ _ Hsk)) as Hinv0.
    destruct (shard_insert_ok _ _ s k v charge s' id f0 Hinv0 (sk_amo _ _ _ _ Hsk)
                (fun H => proj2 (HB H)) Ei)
      as [Hid [Hinv' [Hamo' [[e0 [E1 [E2 [E3 [E4 Hst]]]]] [Hcap [Hnew Hb]]]]]].
    assert (Hid0 : ce_id e0 = sh_next s) by congruence.
    apply (put_step ops ops' st i s s' _ f0 [(k, v)] Hinv Hnth).
    + constructor.
      * apply (sinv_ext _ _ _ _ (fun x => eq_sym (hcnt_snoc_same (cs_slots st) i id x)) Hinv').
      * exact Hamo'.
      * intros e He. destruct (so_sub _ _ _ Hst e He) as [y [Hy [[_ [Sk _]] _]]].
        rewrite <- Sk. apply in_app_or in Hy. destruct Hy as [Hy|[Hy|[]]].
        -- apply (sk_idx _ _ _ _ Hsk). exact Hy.
        -- subst y. rewrite E2. reflexivity.
      * intros e He Hic. unfold ops'. rewrite spec_latest_snoc.
        destruct (insert_descends _ _ s e0 _ e Hinv0 Hid0 (so_sub _ _ _ Hst) He) as [D1 D2].
        destruct (bytes_eqb k (ce_key e)) eqn:Ek.
        -- apply bytes_eqb_eq in Ek. pose proof (Hnew e He Hic (eq_sym Ek)) as Hide.
           destruct (D1 ltac:(congruence)) as [_ [_ [Sv _]]]. congruence.
        -- apply bytes_eqb_neq in Ek.
           assert (Hne : ce_id e <> sh_next s).
           { intros E. destruct (D1 E) as [_ [Sk _]]. apply Ek. congruence. }
           destruct (D2 Hne) as [y [Hy [[_ [Sk [Sv _]]] Icy]]].
           rewrite <- Sk, <- Sv. apply (sk_latest _ _ _ _ Hsk); [exact Hy|apply Icy, Hic].
    + intros HB'. apply (HB HB').
    + intros j y Hj. apply hcnt_snoc_other. exact Hj.
    + intros k' Hk'. unfold ops'. rewrite spec_latest_snoc.
      destruct (bytes_eqb k k') eqn:Ek; [|reflexivity].
      apply bytes_eqb_eq in Ek. subst k'. exfalso. apply Hk'. reflexivity.
    + intros j y Hj. apply in_app_or in Hj. destruct Hj as [Hj|[Hj|[]]].
      * apply (ci_slots _ _ Hinv j y Hj).
      * injection Hj as <- _. apply shard_index_lt.
    + pose proof (so_perm _ _ _ Hst) as P. rewrite map_app in P. cbn [map] in P.
      assert (Hkv : kv e0 = (k, v)) by (unfold kv; rewrite E2, E3; reflexivity).
      rewrite Hkv in P. exact P.
    + intros e He. destruct (so_freed _ _ _ Hst e He) as [F1 [y [Hy [_ [Sk _]]]]].
      split; [exact F1|]. rewrite <- Sk. apply in_app_or in Hy. destruct Hy as [Hy|[Hy|[]]].
      * apply (sk_idx _ _ _ _ Hsk). exact Hy.
      * subst y. rewrite E2. reflexivity.
  - (* CLookup *)
    cbn [cache_step] in H. unfold lru_lookup in H.
    destruct (cinv_get ops st (shard_index k) Hinv (shard_index_lt k)) as [Hnth Hsk].
    set (i := shard_index k) in *. set (s := get_shard (cs_cache st) i) in *.
    set (ops' := ops ++ [CLookup k]).
    assert (HB : charges_ok ops' -> charges_ok ops) by (intros HB; apply (charges_ok_app_l _ _ HB)).
    assert (Hl : forall k', spec_latest ops' k' = spec_latest ops k').
    { intros k'. unfold ops'. rewrite spec_latest_snoc. reflexivity. }
    pose proof (sinv_mono _ (charges_ok ops') _ _ HB (sk_inv _ _ _ _ Hsk)) as Hinv0.
    destruct (shard_lookup s k) as [s' r] eqn:El.
    pose proof (shard_lookup_ok _ _ s k s' r Hinv0 El) as Hlk.
    destruct r as [[id v]|].
    + cbv beta iota zeta in H. injection H as <- <- <-. cbn [cs_cache cs_slots].
      destruct Hlk as [e [Hin [Hic [Hk [Hid [Hv [Hinv' [Hst Hcap]]]]]]]].
      apply (put_step ops ops' st i s s' _ [] [] Hinv Hnth).
      * apply (shard_ok_sub ops ops' (cs_slots st) _ i s s' Hsk).
        -- apply (sinv_ext _ _ _ _ (fun x => eq_sym (hcnt_snoc_same (cs_slots st) i id x)) Hinv').
        -- apply (so_sub _ _ _ Hst).
        -- intros e' _ _. apply Hl.
      * exact HB.
      * intros j y Hj. apply hcnt_snoc_other. exact Hj.
      * intros k' _. apply Hl.
      * intros j y Hj. apply in_app_or in Hj. destruct Hj as [Hj|[Hj|[]]].
        -- apply (ci_slots _ _ Hinv j y Hj).
        -- injection Hj as <- _. apply shard_index_lt.
      * rewrite app_nil_r. apply (so_perm _ _ _ Hst).
      * intros e' [].
    + cbv beta iota zeta in H. injection H as <- <- <-. cbn [cs_cache cs_slots]. subst s'.
      apply (put_step ops ops' st i s s _ [] [] Hinv Hnth).
      * apply (shard_ok_frame ops ops' (cs_slots st) _ i s Hsk HB).
        -- intros y. apply hcnt_snoc_none.
        -- intros k' _. apply Hl.
      * exact HB.
      * intros j y _. apply hcnt_snoc_none.
      * intros k' _. apply Hl.
      * intros j y Hj. apply in_app_or in Hj. destruct Hj as [Hj|[Hj|[]]].
        -- apply (ci_slots _ _ Hinv j y Hj).
        -- discriminate Hj.
      * rewrite app_nil_r. reflexivity.
      * intros e' [].
  - (* CRelease *)
    cbn [cache_step] in H.
    destruct (nth n (cs_slots st) None) as [[i id]|] eqn:En.
    + unfold lru_release in H. cbn [fst snd] in H.
      destruct (hcnt_release _ _ _ _ En) as [Hin [Hsame [Hother Hsub]]].
      pose proof (ci_slots _ _ Hinv i id Hin) as Hi.
      destruct (cinv_get ops st i Hinv Hi) as [Hnth Hsk].
      set (s := get_shard (cs_cache st) i) in *.
      destruct (shard_release s id) as [s' f0] eqn:Er.
      cbv beta iota zeta in H. injection H as <- <- <-. cbn [cs_cache cs_slots].
      set (ops' := ops ++ [CRelease n]).
      assert (HB : charges_ok ops' -> charges_ok ops) by (intros HB; apply (charges_ok_app_l _ _ HB)).
      assert (Hl : forall k', spec_latest ops' k' = spec_latest ops k').
      { intros k'. unfold ops'. rewrite spec_latest_snoc. reflexivity. }
      pose proof (sinv_mono _ (charges_ok ops') _ _ HB (sk_inv _ _ _ _ Hsk)) as Hinv0.
      unfold shard_release in Er.
      destruct (shard_unref_ok _ _ s id s' f0 Hinv0 (proj1 (hcnt_pos_in _ _ _) Hin) Er)
        as [Hinv' [Hst _]].
      apply (put_step ops ops' st i s s' _ f0 [] Hinv Hnth).
      * apply (shard_ok_sub ops ops' (cs_slots st) _ i s s' Hsk).
        -- apply (sinv_ext _ _ _ _ (fun x => eq_sym (Hsame x)) Hinv').
        -- apply (so_sub _ _ _ Hst).
        -- intros e' _ _. apply Hl.
      * exact HB.
      * exact Hother.
      * intros k' _. apply Hl.
      * intros j y Hj. apply (ci_slots _ _ Hinv j y). apply Hsub. exact Hj.
      * rewrite app_nil_r. apply (so_perm _ _ _ Hst).
      * intros e He. destruct (so_freed _ _ _ Hst e He) as [F1 [y [Hy [_ [Sk _]]]]].
        split; [exact F1|]. rewrite <- Sk. apply (sk_idx _ _ _ _ Hsk). exact Hy.
    + injection H as <- <- <-. destruct st as [c slots]. apply Hframe; [reflexivity| |reflexivity].
      intros k'. rewrite spec_latest_snoc. reflexivity.
  - (* CErase *)
    cbn [cache_step] in H. unfold lru_erase in H.
    destruct (cinv_get ops st (shard_index k) Hinv (shard_index_lt k)) as [Hnth Hsk].
    set (i := shard_index k) in *. set (s := get_shard (cs_cache st) i) in *.
    destruct (shard_erase s k) as [s' f0] eqn:Ee.
    cbv beta iota zeta in H. injection H as <- <- <-. cbn [cs_cache cs_slots].
    set (ops' := ops ++ [CErase k]).
    assert (HB : charges_ok ops' -> charges_ok ops) by (intros HB; apply (charges_ok_app_l _ _ HB)).
    pose proof (sinv_mono _ (charges_ok ops') _ _ HB (sk_inv _ _ _ _ Hsk)) as Hinv0.
    unfold shard_erase in Ee.
    destruct (shard_erase_ok _ _ s k s' f0 Hinv0 Ee) as [Hinv' [Hst [_ [_ [_ Hgone]]]]].
    apply (put_step ops ops' st i s s' _ f0 [] Hinv Hnth).
    + apply (shard_ok_sub ops ops' (cs_slots st) _ i s s' Hsk Hinv' (so_sub _ _ _ Hst)).
      intros e' He' Hic'. unfold ops'. rewrite spec_latest_snoc.
      destruct (bytes_eqb k (ce_key e')) eqn:Ek; [|reflexivity].
      apply bytes_eqb_eq in Ek. exfalso.
      exact (Hgone (sk_amo _ _ _ _ Hsk) e' He' Hic' (eq_sym Ek)).
    + exact HB.
    + intros j y _. reflexivity.
    + intros k' Hk'. unfold ops'. rewrite spec_latest_snoc.
      destruct (bytes_eqb k k') eqn:Ek; [|reflexivity].
      apply bytes_eqb_eq in Ek. subst k'. exfalso. apply Hk'. reflexivity.
    + apply (ci_slots _ _ Hinv).
    + rewrite app_nil_r. apply (so_perm _ _ _ Hst).
    + intros e He. destruct (so_freed _ _ _ Hst e He) as [F1 [y [Hy [_ [Sk _]]]]].
      split; [exact F1|]. rewrite <- Sk. apply (sk_idx _ _ _ _ Hsk). exact Hy.
  - (* CPrune *)
    cbn [cache_step] in H. unfold lru_prune in H.
    destruct (map_shards shard_prune (lc_shards (cs_cache st))) as [l' f0] eqn:Em.
    cbv beta iota zeta in H. injection H as <- <- <-. cbn [cs_cache cs_slots].
    destruct (map_shards_spec _ _ _ _ Em) as [M1 [M2 [M3 M4]]].
    set (ops' := ops ++ [CPrune]).
    assert (HB : charges_ok ops' -> charges_ok ops) by (intros HB; apply (charges_ok_app_l _ _ HB)).
    assert (Hl : forall k', spec_latest ops' k' = spec_latest ops k').
    { intros k'. unfold ops'. rewrite spec_latest_snoc. reflexivity. }
    assert (Hone : forall i s s' fi, nth_error (lc_shards (cs_cache st)) i = Some s ->
              shard_prune s = (s', fi) ->
              shard_ok ops' (cs_slots st) i s' /\ step_ok (sh_heap s) (sh_heap s') fi /\
              forall e, In e fi -> shard_index (ce_key e) = i).
    { intros i s s' fi Hn Hp. pose proof (ci_shards _ _ Hinv i s Hn) as Hsk.
      pose proof (sinv_mono _ (charges_ok ops') _ _ HB (sk_inv _ _ _ _ Hsk)) as Hinv0.
      unfold shard_prune in Hp.
      destruct (prune_loop_ok _ _ _ s s' fi Hinv0 Hp) as [Hinv' [Hst _]].
      split; [|split; [exact Hst|]].
      - apply (shard_ok_sub ops ops' (cs_slots st) _ i s s' Hsk Hinv' (so_sub _ _ _ Hst)).
        intros e' _ _. apply Hl.
      - intros e He. destruct (so_freed _ _ _ Hst e He) as [_ [y [Hy [_ [Sk _]]]]].
        rewrite <- Sk. apply (sk_idx _ _ _ _ Hsk). exact Hy. }
    split; [|split].
    + constructor; cbn [cs_cache cs_slots lc_shards].
      * rewrite M1. apply (ci_len _ _ Hinv).
      * intros i s' Hi. destruct (M2 i s' Hi) as [s [fi [A B]]].
        apply (Hone i s s' fi A B).
      * apply (ci_slots _ _ Hinv).
    + cbn [inserted_kv]. rewrite app_nil_r. unfold all_heap. cbn [lc_shards]. apply M4.
      intros s s' fi Hs Hp. apply In_nth_error in Hs. destruct Hs as [i Hs].
      apply (so_perm _ _ _ (proj1 (proj2 (Hone i s s' fi Hs Hp)))).
    + intros e He. destruct (M3 e He) as [i [s [s' [fi [A [A' [Bp C]]]]]]].
      destruct (Hone i s s' fi A Bp) as [Hsk' [Hst Hidx]].
      rewrite (Hidx e C). apply hcnt_zero_notin.
      apply (si_rc0 _ _ _ (sk_inv _ _ _ _ Hsk')).
      apply (so_freed _ _ _ Hst e C).
  - (* CUsage *)
    cbn [cache_step] in H. injection H as <- <- <-. destruct st as [c slots].
    apply Hframe; [reflexivity| |reflexivity]. intros k'. rewrite spec_latest_snoc. reflexivity.
  - (* CNewId *)
    cbn [cache_step] in H. unfold lru_new_id in H. cbv beta iota zeta in H.
    injection H as <- <- <-.
    apply Hframe; [reflexivity| |reflexivity]. intros k'. rewrite spec_latest_snoc. reflexivity.
Qed.

(* ------------------------------------------------------------------ *)
(* whole scripts                                                        *)
(* ------------------------------------------------------------------ *)
Lemma run_inv : forall l ops st st' obs fr, cinv ops st -> cache_run st l = (st', obs, fr) ->
  cinv (ops ++ l) st' /\
  Permutation (map kv fr ++ map kv (all_heap (cs_cache st')))
              (map kv (all_heap (cs_cache st)) ++ inserted_kv l).
Proof.
  induction l as [|op l IH]; intros ops st st' obs fr Hinv H.
  - cbn [cache_run] in H. injection H as <- <- <-. rewrite !app_nil_r. split; [exact Hinv|].
    cbn [map app]. reflexivity.
  - cbn [cache_run] in H. destruct (cache_step st op) as [[st1 o1] f1] eqn:Es.
    destruct (cache_run st1 l) as [[st2 o2] f2] eqn:Er. injection H as <- <- <-.
    destruct (step_inv ops st op st1 o1 f1 Hinv Es) as [Hinv1 [P1 _]].
    destruct (IH (ops ++ [op]) st1 st2 o2 f2 Hinv1 Er) as [Hinv2 P2].
    rewrite <- app_assoc in Hinv2. cbn [app] in Hinv2. split; [exact Hinv2|].
    change (op :: l) with ([op] ++ l). rewrite inserted_kv_app. rewrite map_app, <- app_assoc.
    eapply perm_trans; [apply Permutation_app_head; exact P2|].
    rewrite !app_assoc. apply Permutation_app_tail. exact P1.
Qed.

Lemma sinv_new : forall B cap, sinv B (fun _ => 0) (shard_new cap).
Proof.
  intros B cap. unfold shard_new. constructor; cbn [sh_heap sh_lru sh_next sh_usage sh_cap].
  - constructor.
  - intros e [].
  - constructor.
  - intros id. split; [intros []|intros [e [[] _]]].
  - intros e [].
  - intros id _. reflexivity.
  - intros _ e [].
  - intros _ e [].
  - intros _. reflexivity.
Qed.

Lemma cinv_init : forall capacity, cinv [] (cache_init capacity).
Proof.
  intros capacity. unfold cache_init, lru_create. constructor; cbn [cs_cache cs_slots lc_shards].
  - apply repeat_length.
  - intros i s Hs. apply nth_error_In in Hs. apply repeat_spec in Hs. subst s. constructor.
    + apply (sinv_ext _ (fun _ => 0)); [intros x; reflexivity|apply sinv_new].
    + intros e1 e2 [].
    + intros e [].
    + intros e [].
  - intros i id [].
Qed.

Lemma reached_inv : forall capacity ops st fr, reached capacity ops st fr ->
  cinv ops st /\ Permutation (map kv fr ++ map kv (all_heap (cs_cache st))) (inserted_kv ops).
Proof.
  intros capacity ops st fr [obs H].
  destruct (run_inv ops [] _ st obs fr (cinv_init capacity) H) as [H1 H2].
  cbn [app] in H1. split; [exact H1|].
  assert (E : all_heap (cs_cache (cache_init capacity)) = []).
  { unfold cache_init, lru_create, all_heap. cbn [cs_cache lc_shards]. reflexivity. }
  rewrite E in H2. cbn [map app] in H2. exact H2.
Qed.
