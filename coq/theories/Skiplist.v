(* Skiplist.v -- structural model of lcdb's skiplist (src/skiplist.c) and of its
   height generator (ldb_skiplist_randheight over the PRNG of src/util/random.c).

   The structure is modelled as the C code builds it: an arena of nodes addressed by
   index (node 0 is the head, a new node gets the next index), every node carrying its
   key and one [next] link per level of its height (the head has LDB_MAX_HEIGHT links),
   and [max_height].  ldb_skiplist_insert, find_greater_or_equal (with the prev[]
   array), find_less_than, find_last and the iterator are replicas of the C loops
   (fuelled; SkiplistProofs shows that the fuel never runs out on a well-formed list).
   The height of a new node is a PARAMETER of [sl_insert], so that the theorems hold for
   every height sequence; the replica of ldb_skiplist_randheight + ldb_rand_* is given
   separately ([rand_heights]) and tied to the C code by the differential.

   Keys are abstract ([K] with a three-way comparator): the C skiplist stores
   const uint8_t* and compares through ldb_skiplist_compare = comparator of the
   length-prefixed contents; Memtable.v instantiates [K].
   Definitions only; proofs are in SkiplistProofs.v. *)
From LCDB Require Export Base.
Local Open Scope N_scope.

Definition MAX_HEIGHT : nat := 12.

(* ------------------------------------------------------------------ *)
(* ldb_rand_* (util/random.c) and ldb_skiplist_randheight               *)
(* ------------------------------------------------------------------ *)
Definition RAND_M : N := 2147483647.      (* 2^31 - 1 *)

(* ldb_rand_init: seed & 0x7fffffff, bad seeds replaced by 1 *)
Definition rand_init (seed : N) : N :=
  let s := seed mod 2147483648 in
  if (s =? 0) || (s =? RAND_M) then 1 else s.

(* ldb_rand_next: the new seed is also the value returned *)
Definition rand_next (s : N) : N :=
  let product := s * 16807 in
  let s1 := ((product / 2147483648) + (product mod 2147483648)) mod 4294967296 in
  if RAND_M <? s1 then s1 - RAND_M else s1.

(* height = 1; while (height < 12 && one_in(4)) height++   (at most 11 draws) *)
Fixpoint rand_height_loop (fuel : nat) (h : nat) (s : N) : nat * N :=
  match fuel with
  | O => (h, s)
  | S f =>
      if (h <? MAX_HEIGHT)%nat then
        let s' := rand_next s in
        if s' mod 4 =? 0 then rand_height_loop f (S h) s' else (h, s')
      else (h, s)
  end.
Definition rand_height (s : N) : nat * N := rand_height_loop MAX_HEIGHT 1 s.

(* the heights of n consecutive inserts *)
Fixpoint rand_heights (n : nat) (s : N) : list nat :=
  match n with
  | O => []
  | S n' => let '(h, s') := rand_height s in h :: rand_heights n' s'
  end.

(* ------------------------------------------------------------------ *)
(* the structure                                                        *)
(* ------------------------------------------------------------------ *)
Section Skiplist.
Variable K : Type.
Variable cmp : K -> K -> comparison.

Record snode := mkNode { nkey : option K; nnext : list (option nat) }.
Record skiplist := mkSL { sl_nodes : list snode; sl_maxh : nat }.

(* ldb_skiplist_init *)
Definition sl_empty : skiplist := mkSL [mkNode None (repeat None MAX_HEIGHT)] 1.

Definition nodes_next (ns : list snode) (x lvl : nat) : option nat :=
  match nth_error ns x with
  | Some n => nth lvl (nnext n) None
  | None => None
  end.
Definition node_next (sl : skiplist) (x lvl : nat) : option nat := nodes_next (sl_nodes sl) x lvl.

Definition node_key (sl : skiplist) (x : nat) : option K :=
  match nth_error (sl_nodes sl) x with
  | Some n => nkey n
  | None => None
  end.

Fixpoint set_nth {A} (n : nat) (x : A) (l : list A) : list A :=
  match l, n with
  | [], _ => []
  | _ :: r, O => x :: r
  | y :: r, S n' => y :: set_nth n' x r
  end.

(* ldb_skipnode_set(node x, lvl, v) *)
Definition nodes_set_next (ns : list snode) (x lvl : nat) (v : option nat) : list snode :=
  match nth_error ns x with
  | Some n => set_nth x (mkNode (nkey n) (set_nth lvl v (nnext n))) ns
  | None => ns
  end.

(* key_after_node: n != NULL && compare(n->key, key) < 0 *)
Definition key_after_node (sl : skiplist) (key : K) (n : option nat) : bool :=
  match n with
  | None => false
  | Some i =>
      match node_key sl i with
      | Some k => match cmp k key with Lt => true | _ => false end
      | None => false
      end
  end.

(* find_greater_or_equal.  prev[] is filled from level max_height-1 down to 0, one slot
   per level, so it is accumulated by consing: the result list has prev[0] first. *)
Fixpoint find_ge_loop (fuel : nat) (sl : skiplist) (key : K) (x level : nat) (prev : list nat)
  : option nat * list nat :=
  match fuel with
  | O => (None, prev)
  | S f =>
      let next := node_next sl x level in
      if key_after_node sl key next then
        match next with
        | Some n => find_ge_loop f sl key n level prev
        | None => (None, prev)                  (* unreachable: key_after_node None = false *)
        end
      else
        match level with
        | O => (next, x :: prev)
        | S l' => find_ge_loop f sl key x l' (x :: prev)
        end
  end.

Definition sl_fuel (sl : skiplist) : nat := length (sl_nodes sl) + sl_maxh sl.

Definition find_ge (sl : skiplist) (key : K) : option nat * list nat :=
  find_ge_loop (sl_fuel sl) sl key 0 (sl_maxh sl - 1) [].

(* find_less_than: the last node with a key < key, the head (0) when there is none *)
Fixpoint find_lt_loop (fuel : nat) (sl : skiplist) (key : K) (x level : nat) : nat :=
  match fuel with
  | O => x
  | S f =>
      let next := node_next sl x level in
      if key_after_node sl key next then
        match next with
        | Some n => find_lt_loop f sl key n level
        | None => x
        end
      else
        match level with
        | O => x
        | S l' => find_lt_loop f sl key x l'
        end
  end.
Definition find_lt (sl : skiplist) (key : K) : nat :=
  find_lt_loop (sl_fuel sl) sl key 0 (sl_maxh sl - 1).

(* find_last: the last node, the head when the list is empty *)
Fixpoint find_last_loop (fuel : nat) (sl : skiplist) (x level : nat) : nat :=
  match fuel with
  | O => x
  | S f =>
      match node_next sl x level with
      | Some n => find_last_loop f sl n level
      | None =>
          match level with
          | O => x
          | S l' => find_last_loop f sl x l'
          end
      end
  end.
Definition find_last (sl : skiplist) : nat :=
  find_last_loop (sl_fuel sl) sl 0 (sl_maxh sl - 1).

(* the linking loop of ldb_skiplist_insert: for (i = 0; i < height; i++)
     x->next[i] = prev[i]->next[i]; prev[i]->next[i] = x;                 *)
Fixpoint link_loop (ns : list snode) (x : nat) (prev : list nat) (i : nat) : list snode :=
  match prev with
  | [] => ns
  | p :: r =>
      let ns1 := nodes_set_next ns x i (nodes_next ns p i) in
      let ns2 := nodes_set_next ns1 p i (Some x) in
      link_loop ns2 x r (S i)
  end.

(* ldb_skiplist_insert with the height the generator returned.
   REQUIRES (as in C): nothing equal to key is in the list; 1 <= height <= 12. *)
Definition sl_insert (sl : skiplist) (key : K) (height : nat) : skiplist :=
  let '(_, prev) := find_ge sl key in
  let prev' := prev ++ repeat O (height - sl_maxh sl) in      (* prev[i] = head for the new levels *)
  let maxh' := if (sl_maxh sl <? height)%nat then height else sl_maxh sl in
  let x := length (sl_nodes sl) in
  let ns := sl_nodes sl ++ [mkNode (Some key) (repeat None height)] in
  mkSL (link_loop ns x (firstn height prev') O) maxh'.

Fixpoint sl_insert_all (sl : skiplist) (keys : list K) (heights : list nat) : skiplist :=
  match keys, heights with
  | k :: ks, h :: hs => sl_insert_all (sl_insert sl k h) ks hs
  | _, _ => sl
  end.

Definition sl_build (keys : list K) (heights : list nat) : skiplist :=
  sl_insert_all sl_empty keys heights.

(* ldb_skiplist_contains *)
Definition sl_contains (sl : skiplist) (key : K) : bool :=
  match fst (find_ge sl key) with
  | Some n => match node_key sl n with
              | Some k => match cmp key k with Eq => true | _ => false end
              | None => false
              end
  | None => false
  end.

(* ---- iterator (ldb_skipiter_t): the current node, None = not valid ---- *)
Definition not_head (n : nat) : option nat := match n with O => None | _ => Some n end.

Definition it_seek (sl : skiplist) (key : K) : option nat := fst (find_ge sl key).
Definition it_first (sl : skiplist) : option nat := node_next sl 0 0.
Definition it_last (sl : skiplist) : option nat := not_head (find_last sl).
Definition it_next (sl : skiplist) (n : nat) : option nat := node_next sl n 0.
Definition it_prev (sl : skiplist) (n : nat) : option nat :=
  match node_key sl n with
  | Some k => not_head (find_lt sl k)
  | None => None
  end.

(* walking one level from a node: the keys of the chain (for the theorems and
   for the white-box dump of the differential) *)
Fixpoint chain_from (fuel : nat) (sl : skiplist) (lvl : nat) (o : option nat) : list nat :=
  match fuel with
  | O => []
  | S f =>
      match o with
      | None => []
      | Some n => n :: chain_from f sl lvl (node_next sl n lvl)
      end
  end.
(* the nodes of level lvl, head excluded *)
Definition level_nodes (sl : skiplist) (lvl : nat) : list nat :=
  chain_from (length (sl_nodes sl)) sl lvl (node_next sl 0 lvl).

Fixpoint keys_of (sl : skiplist) (l : list nat) : list K :=
  match l with
  | [] => []
  | n :: r => match node_key sl n with Some k => k :: keys_of sl r | None => keys_of sl r end
  end.

Definition skiplist_contents (sl : skiplist) : list K := keys_of sl (level_nodes sl 0).

(* height of a node = number of links *)
Definition node_height (sl : skiplist) (x : nat) : nat :=
  match nth_error (sl_nodes sl) x with Some n => length (nnext n) | None => O end.

End Skiplist.

Arguments mkNode {K}.
Arguments mkSL {K}.
Arguments nkey {K}.
Arguments nnext {K}.
Arguments sl_nodes {K}.
Arguments sl_maxh {K}.
Arguments sl_empty {K}.
Arguments node_next {K}.
Arguments nodes_next {K}.
Arguments node_key {K}.
Arguments nodes_set_next {K}.
Arguments sl_fuel {K}.
Arguments find_last {K}.
Arguments find_last_loop {K}.
Arguments link_loop {K}.
Arguments it_first {K}.
Arguments it_last {K}.
Arguments it_next {K}.
Arguments chain_from {K}.
Arguments level_nodes {K}.
Arguments keys_of {K}.
Arguments skiplist_contents {K}.
Arguments node_height {K}.
Arguments key_after_node {K}.
Arguments find_ge_loop {K}.
Arguments find_ge {K}.
Arguments find_lt_loop {K}.
Arguments find_lt {K}.
Arguments sl_insert {K}.
Arguments sl_insert_all {K}.
Arguments sl_build {K}.
Arguments sl_contains {K}.
Arguments it_seek {K}.
Arguments it_prev {K}.

(* ------------------------------------------------------------------ *)
(* The [skiplist] command of the differential: byte-string keys,         *)
(* bytewise comparator (ldb_bytewise_comparator over the length-prefixed *)
(* contents), heights from the PRNG replica.                             *)
(* ------------------------------------------------------------------ *)
Inductive skop := SkFirst | SkLast | SkSeek (t : bytes) | SkNext | SkPrev.

Definition sl_step (sl : skiplist bytes) (it : option nat) (op : skop) : option nat :=
  match op with
  | SkFirst => it_first sl
  | SkLast => it_last sl
  | SkSeek t => it_seek bytes_compare sl t
  | SkNext => match it with Some n => it_next sl n | None => None end     (* skipped when not valid *)
  | SkPrev => match it with Some n => it_prev bytes_compare sl n | None => None end
  end.

Fixpoint sl_run (sl : skiplist bytes) (it : option nat) (ops : list skop) : list (option bytes) :=
  match ops with
  | [] => []
  | op :: r =>
      let it' := sl_step sl it op in
      (match it' with Some n => node_key sl n | None => None end) :: sl_run sl it' r
  end.

(* result: the height of every inserted node (in insertion order, as the generator chose
   them), max_height, for every level below max_height the chain of node numbers
   (1 = first inserted key), and the observations of the iterator script *)
Definition skiplist_script (seed : N) (keys : list bytes) (ops : list skop)
  : list nat * nat * list (list nat) * list (option bytes) :=
  let hs := rand_heights (length keys) (rand_init seed) in
  let sl := sl_build bytes_compare keys hs in
  (map (node_height sl) (seq 1 (length keys)), sl_maxh sl,
   map (level_nodes sl) (seq 0 (sl_maxh sl)), sl_run sl None ops).
