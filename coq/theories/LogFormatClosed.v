(* LogFormatClosed.v -- the reader theorems of LogFormatProofs.v with the four
   codec facts discharged by BaseProofs.v / Crc32cProofs.v.  Importing this
   file gives the closed theorems under their plain names (they shadow the
   hypothesis-taking versions of LogFormatProofs.v, which are re-exported
   together with all hypothesis-free results: write_log_app,
   write_log_from_app, read_log_no_invention_structural, phys_events_verified,
   zero_header_silent_refuted, the fuel adequacy lemmas, ...). *)
From LCDB Require Import Base Crc32c LogFormat BaseProofs Crc32cProofs.
From LCDB Require Export LogFormatProofs.
Local Open Scope N_scope.

Local Notation close T :=
  (T Crc32cProofs.crc_unmask_mask Crc32cProofs.crc_extend_bound
     Crc32cProofs.crc_value_cons BaseProofs.de32_le32) (only parsing).

(* one physical record emitted by the writer parses back to itself *)
Theorem parse_phys : forall c e ty p buf,
  is_wtype ty -> wf_bytes p = true ->
  parse c e (phys_record ty p ++ buf) = PRec ty p :: parse c e buf.
Proof. exact (close LogFormatProofs.parse_phys). Qed.

(* reading back one add_record at block offset [off], whatever follows *)
Theorem add_record_read : forall c off r X,
  off <= BLOCK -> wf_bytes r = true ->
  logical (pe_at c off (fst (add_record off r) ++ X)) false [] =
    Rec r :: logical (pe_at c (snd (add_record off r)) X) false [].
Proof. exact (close LogFormatProofs.add_record_read). Qed.

(* 2. round trip, with or without checksum verification *)
Theorem read_write_roundtrip_events : forall c rs,
  Forall (fun r => wf_bytes r = true) rs ->
  read_log_events c (write_log rs) = map Rec rs.
Proof. exact (close LogFormatProofs.read_write_roundtrip_events). Qed.

Theorem read_write_roundtrip : forall rs,
  Forall (fun r => wf_bytes r = true) rs -> read_log (write_log rs) = map Rec rs.
Proof. exact (close LogFormatProofs.read_write_roundtrip). Qed.

Theorem read_write_roundtrip_reopen : forall rs1 rs2,
  Forall (fun r => wf_bytes r = true) (rs1 ++ rs2) ->
  read_log (write_log rs1 ++ write_log_from (nlen (write_log rs1)) rs2) = map Rec (rs1 ++ rs2).
Proof. exact (close LogFormatProofs.read_write_roundtrip_reopen). Qed.

(* 3. cutting the file at any byte *)
Theorem read_cut_events : forall c rs n,
  Forall (fun r => wf_bytes r = true) rs -> (n <= length (write_log rs))%nat ->
  exists k,
    read_log_events c (firstn n (write_log rs)) = map Rec (firstn k rs) /\
    (length (write_log (firstn k rs)) <= n)%nat /\
    ((k < length rs)%nat -> (n < length (write_log (firstn (S k) rs)))%nat).
Proof. exact (close LogFormatProofs.read_cut_events). Qed.

Theorem read_cut : forall rs n,
  Forall (fun r => wf_bytes r = true) rs -> (n <= length (write_log rs))%nat ->
  exists k,
    read_log (firstn n (write_log rs)) = map Rec (firstn k rs) /\
    (length (write_log (firstn k rs)) <= n)%nat /\
    (k < length rs -> n < length (write_log (firstn (S k) rs)))%nat.
Proof. exact (close LogFormatProofs.read_cut). Qed.

Corollary read_cut_prefix : forall rs n,
  Forall (fun r => wf_bytes r = true) rs -> (n <= length (write_log rs))%nat ->
  exists k, read_log (firstn n (write_log rs)) = map Rec (firstn k rs).
Proof. exact (close LogFormatProofs.read_cut_prefix). Qed.

(* a cut never produces a Drop event and never a record that was not written *)
Corollary read_cut_no_drop : forall rs n,
  Forall (fun r => wf_bytes r = true) rs -> (n <= length (write_log rs))%nat ->
  drops_of (read_log (firstn n (write_log rs))) = [] /\
  exists k, records_of (read_log (firstn n (write_log rs))) = firstn k rs.
Proof.
  intros rs n H Hn. destruct (read_cut_prefix rs n H Hn) as (k & ->).
  assert (Hd : forall l, drops_of (map Rec l) = []).
  { induction l as [|x l IH]; [reflexivity|exact IH]. }
  assert (Hr : forall l, records_of (map Rec l) = l).
  { induction l as [|x l IH]; [reflexivity|]. cbn [map]. unfold records_of in *.
    cbn [flat_map app]. f_equal. exact IH. }
  split; [apply Hd|]. exists k. apply Hr.
Qed.

Print Assumptions write_log_app.
Print Assumptions read_write_roundtrip.
Print Assumptions read_write_roundtrip_reopen.
Print Assumptions read_cut.
Print Assumptions read_log_no_invention_structural.
Print Assumptions phys_events_verified.
Print Assumptions zero_header_silent_refuted.
Print Assumptions add_record_fuel_ok.
Print Assumptions parse_block_fuel_ok.
Print Assumptions split_blocks_fuel_ok.
