(* IterTests.v -- TESTS (not theorems): exhaustive vm_compute comparison of the
   iterator replicas with the cursor specification on small inputs.  All scripts
   up to a length bound over a fixed command alphabet are enumerated. *)
From LCDB Require Import Base Cursor Engine EngineSpec EngineRead Merger DbIter.
Local Open Scope N_scope.

Definition obs_eqb (a b : obs (bytes * bytes)) : bool :=
  match a, b with
  | OSkip, OSkip => true
  | OInvalid, OInvalid => true
  | OAt (k, v), OAt (k', v') => bytes_eqb k k' && bytes_eqb v v'
  | _, _ => false
  end.

Definition entry_eqb (a b : entry) : bool :=
  bytes_eqb (ek a) (ek b) && (es a =? es b) && Bool.eqb (et a) (et b) && bytes_eqb (ev a) (ev b).

Definition obse_eqb (a b : obs entry) : bool :=
  match a, b with
  | OSkip, OSkip => true
  | OInvalid, OInvalid => true
  | OAt x, OAt y => entry_eqb x y
  | _, _ => false
  end.

Fixpoint scripts {T} (cmds : list (cmd T)) (n : nat) : list (list (cmd T)) :=
  match n with
  | O => [[]]
  | S n' => [] :: flat_map (fun c => map (cons c) (scripts cmds n')) cmds
  end.

Definition alphabet (keys : list bytes) : list (cmd bytes) :=
  [CFirst; CLast; CNext; CPrev]
  ++ flat_map (fun k => [CSeek k; CSeekGt k; CSeekLe k; CSeekLt k]) keys.

Definition k0 : bytes := [96].
Definition ka : bytes := [97].
Definition kb : bytes := [98].
Definition kc : bytes := [99].
Definition kd : bytes := [100].

(* five entries: a live / deleted / overwritten mix *)
Definition run5 : list entry :=
  [mkE ka 5 true [5]; mkE ka 3 false []; mkE kb 4 false []; mkE kb 2 true [2]; mkE kc 1 true [1]].
Definition run5' : list entry :=
  [mkE ka 6 false []; mkE ka 1 true [1]; mkE kb 7 true [7]; mkE kc 9 true [9]; mkE kc 2 false []].

Definition dbiter_vs_view (ucmp : bytes -> bytes -> comparison) (l : list entry) (q : N)
           (sc : list (cmd bytes)) : bool :=
  list_eqb obs_eqb
    (run_script (dbiter_ops ucmp (cursor_ops (itge ucmp) (itcmp ucmp) l) (S (S (length l))) q)
                (d_init None) sc)
    (run_script (view_cursor ucmp (live_of_sorted ucmp q None l)) None sc).

(* the direct sorted-map reading of the same scripts *)
Definition view_vs_map (ucmp : bytes -> bytes -> comparison) (l : list entry) (q : N)
           (sc : list (cmd bytes)) : bool :=
  list_eqb obs_eqb
    (run_script (view_cursor ucmp (live_of_sorted ucmp q None l)) None sc)
    (map_script (kvcmp ucmp) (live_of_sorted ucmp q None l) None sc).

Example test_dbiter_run5_all_scripts_len4 :
  forallb (fun q => forallb (dbiter_vs_view bytes_compare run5 q) (scripts (alphabet [ka; kb]) 4))
          [0; 2; 3; 4; 5] = true.
Proof. vm_compute. reflexivity. Qed.

Example test_dbiter_run5'_all_scripts_len4 :
  forallb (fun q => forallb (dbiter_vs_view bytes_compare run5' q) (scripts (alphabet [kb; kd]) 4))
          [1; 5; 6; 8; 9] = true.
Proof. vm_compute. reflexivity. Qed.

Example test_view_vs_map_run5 :
  forallb (fun q => forallb (view_vs_map bytes_compare run5 q) (scripts (alphabet [k0; ka; kb; kd]) 3))
          [0; 2; 3; 4; 5] = true.
Proof. vm_compute. reflexivity. Qed.

(* ---------------------------------------------------------------- merger vs cursor over the merge *)
Definition icmds (targets : list itarget) : list (cmd itarget) :=
  [CFirst; CLast; CNext; CPrev] ++ map CSeek targets.

Definition merger_vs_cursor (ucmp : bytes -> bytes -> comparison) (runs : list (list entry))
           (sc : list (cmd itarget)) : bool :=
  list_eqb obse_eqb
    (run_script (internal_ops ucmp) (m_init runs) sc)
    (run_script (cursor_ops (itge ucmp) (itcmp ucmp) (sort_entries ucmp (concat runs))) None sc).

Definition runs3 : list (list entry) :=
  [ [mkE ka 5 true [5]; mkE kc 4 false []];
    [];
    [mkE ka 3 false []; mkE kb 2 true [2]; mkE kd 6 true [6]];
    [mkE kb 7 true [7]] ].

Example test_merger_runs3_all_scripts_len5 :
  forallb (merger_vs_cursor bytes_compare runs3) (scripts (icmds [(kb, 9); (kb, 3); (kd, 1)]) 5) = true.
Proof. vm_compute. reflexivity. Qed.

(* ---------------------------------------------------------------- the whole stack on the example state *)
Definition db_vs_view (s : state) (q : N) (sc : list (cmd bytes)) : bool :=
  list_eqb obs_eqb
    (run_script (db_iter_ops bytes_compare s q) (db_iter_init s) sc)
    (run_script (view_cursor bytes_compare (live_view bytes_compare s q)) None sc).

Example test_db_iterator_ex_state_len3 :
  forallb (fun q => forallb (db_vs_view ex_state q) (scripts (alphabet [ka; kc]) 3))
          [20; 18; 13; 9; 3; 0] = true.
Proof. vm_compute. reflexivity. Qed.
