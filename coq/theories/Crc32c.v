(* Crc32c.v -- bit-serial reference model of CRC-32C (Castagnoli, reflected
   polynomial 0x82F63B78) as used by src/util/crc32c.c, plus the LevelDB
   mask/unmask.  Definitions only. *)
From LCDB Require Export Base.
Local Open Scope N_scope.

Definition POLY : N := 2197175160.      (* 0x82F63B78 *)
Definition MASK_DELTA : N := 2726488792. (* 0xa282ead8 *)
Definition M32 : N := 4294967295.

Definition crc_bit (c : N) : N :=
  if N.odd c then N.lxor (N.div2 c) POLY else N.div2 c.

Definition crc_byte (c b : N) : N :=
  let c := N.lxor c b in
  crc_bit (crc_bit (crc_bit (crc_bit (crc_bit (crc_bit (crc_bit (crc_bit c))))))).

(* ldb_crc32c_extend(init, data, n) *)
Definition crc_extend (init : N) (data : bytes) : N :=
  N.lxor (fold_left crc_byte data (N.lxor init M32)) M32.

(* ldb_crc32c_value(data, n) *)
Definition crc_value (data : bytes) : N := crc_extend 0 data.

(* ldb_crc32c_mask: ((crc >> 15) | (crc << 17)) + kMaskDelta, 32-bit *)
Definition crc_mask (crc : N) : N :=
  ((crc / 32768 + (crc mod 32768) * 131072) + MASK_DELTA) mod 4294967296.

(* ldb_crc32c_unmask: rot = masked - kMaskDelta; (rot >> 17) | (rot << 15) *)
Definition crc_unmask (m : N) : N :=
  let rot := (m + 4294967296 - MASK_DELTA) mod 4294967296 in
  rot / 131072 + (rot mod 131072) * 32768.
