(* BlockProofs.v -- proofs about Block.v:
   (b) block_entries_build: decoding a built block returns exactly the entries
       (any keys, any restart interval >= 1; no sortedness needed);
   (d) memory safety of the block iterator: no operation of any script on any
       byte string ever returns OOB. *)
From LCDB Require Import Base Varint Block BaseProofs VarintProofs.
Require Import Lia ZifyBool ZifyNat ZifyN.
Ltac Zify.zify_post_hook ::= Z.div_mod_to_equations.
Local Open Scope N_scope.

(* ------------------------------------------------------------------ *)
(* list helpers                                                        *)
(* ------------------------------------------------------------------ *)
Lemma take_n_app_exact : forall (a b : bytes) n, n = nlen a -> take_n n (a ++ b) = a.
Proof. intros. subst. apply take_n_nlen_app. Qed.

Lemma drop_n_app_exact : forall (a b : bytes) n, n = nlen a -> drop_n n (a ++ b) = b.
Proof. intros. subst. apply drop_n_nlen_app. Qed.

Lemma take_n_0 : forall (l : bytes), take_n 0 l = [].
Proof. reflexivity. Qed.

Lemma drop_n_0 : forall (l : bytes), drop_n 0 l = l.
Proof. reflexivity. Qed.

Lemma take_drop_n : forall n (l : bytes), take_n n l ++ drop_n n l = l.
Proof. intros. unfold take_n, drop_n. apply firstn_skipn. Qed.

Lemma nlen_take_n_le : forall n (l : bytes), n <= nlen l -> nlen (take_n n l) = n.
Proof. intros. unfold take_n, nlen in *. rewrite firstn_length. lia. Qed.

Lemma nlen_drop_n : forall n (l : bytes), nlen (drop_n n l) = nlen l - n.
Proof. intros. unfold drop_n, nlen. rewrite skipn_length. lia. Qed.

Lemma nlen_length : forall (A : Type) (l : list A), nlen l = N.of_nat (length l).
Proof. reflexivity. Qed.

(* ------------------------------------------------------------------ *)
(* shared_len                                                          *)
(* ------------------------------------------------------------------ *)
Lemma shared_len_le_l : forall a b, shared_len a b <= nlen a.
Proof.
  induction a; intros b; destruct b; cbn [shared_len]; try (rewrite ?nlen_cons; lia).
  destruct (a =? n); [|rewrite nlen_cons; lia].
  specialize (IHa b). rewrite nlen_cons. lia.
Qed.

Lemma shared_len_le_r : forall a b, shared_len a b <= nlen b.
Proof.
  induction a; intros b; destruct b; cbn [shared_len]; try (rewrite ?nlen_cons; lia).
  destruct (a =? n); [|rewrite nlen_cons; lia].
  specialize (IHa b). rewrite nlen_cons. lia.
Qed.

Lemma take_n_succ_cons : forall n (x : N) (l : bytes), take_n (N.succ n) (x :: l) = x :: take_n n l.
Proof. intros. unfold take_n. rewrite N2Nat.inj_succ. reflexivity. Qed.

Lemma shared_len_prefix : forall a b,
  take_n (shared_len a b) a = take_n (shared_len a b) b.
Proof.
  induction a; intros b; destruct b; cbn [shared_len]; try reflexivity.
  destruct (a =? n) eqn:E; [|reflexivity].
  apply N.eqb_eq in E. subst. rewrite !take_n_succ_cons. f_equal. apply IHa.
Qed.

(* ------------------------------------------------------------------ *)
(* entry headers                                                       *)
(* ------------------------------------------------------------------ *)
Lemma varint32_write_small : forall x, x < 128 -> varint32_write x = [x].
Proof. intros. unfold varint32_write. replace (x <? 128) with true by lia. reflexivity. Qed.

Lemma varint32_write_big : forall x, 128 <= x ->
  exists t, varint32_write x = (x mod 128 + 128) :: t.
Proof.
  intros. unfold varint32_write. replace (x <? 128) with false by lia.
  destruct (x <? 16384); [eexists; reflexivity|].
  destruct (x <? 2097152); [eexists; reflexivity|].
  destruct (x <? 268435456); eexists; reflexivity.
Qed.

Definition hd3_small (l : bytes) : bool :=
  match l with
  | a :: b :: c :: _ => (a <? 128) && (b <? 128) && (c <? 128)
  | _ => false
  end.

Lemma hd3_small_false_1 : forall a r, 128 <= a -> hd3_small (a :: r) = false.
Proof.
  intros. destruct r as [|b [|c r]]; cbn [hd3_small]; try reflexivity.
  replace (a <? 128) with false by lia. reflexivity.
Qed.

Lemma hd3_small_false_2 : forall a b r, 128 <= b -> hd3_small (a :: b :: r) = false.
Proof.
  intros. destruct r as [|c r]; cbn [hd3_small]; try reflexivity.
  replace (b <? 128) with false by lia. rewrite andb_false_r. reflexivity.
Qed.

Lemma hd3_small_false_3 : forall a b c r, 128 <= c -> hd3_small (a :: b :: c :: r) = false.
Proof.
  intros. cbn [hd3_small]. replace (c <? 128) with false by lia. apply andb_false_r.
Qed.

Definition decode_header_slow (l : bytes) : option (N * N * N * bytes) :=
  match varint32_read l with
  | None => None
  | Some (shared, w1) =>
    match varint32_read w1 with
    | None => None
    | Some (non_shared, w2) =>
      match varint32_read w2 with
      | None => None
      | Some (value_length, w3) =>
          if nlen w3 <? non_shared + value_length then None
          else Some (shared, non_shared, value_length, w3)
      end
    end
  end.

Lemma decode_header_slow_eq : forall l,
  (3 <= length l)%nat -> hd3_small l = false -> decode_header l = decode_header_slow l.
Proof.
  intros l Hl Hs. destruct l as [|a [|b [|c r]]]; cbn [length] in Hl; try lia.
  unfold decode_header. cbn [hd3_small] in Hs. rewrite Hs. reflexivity.
Qed.

Lemma varint32_write_nonempty : forall x, (1 <= length (varint32_write x))%nat.
Proof.
  intros. unfold varint32_write.
  repeat match goal with |- context [if ?c then _ else _] => destruct c end; cbn [length]; lia.
Qed.

(* the header of an encoded entry decodes to its three numbers *)
Lemma decode_header_encode : forall s ns vl tail,
  s < 4294967296 -> ns < 4294967296 -> vl < 4294967296 ->
  ns + vl <= nlen tail ->
  decode_header (varint32_write s ++ varint32_write ns ++ varint32_write vl ++ tail)
  = Some (s, ns, vl, tail).
Proof.
  intros s ns vl tail Hs Hns Hvl Htail.
  destruct (N.ltb_spec s 128) as [S1|S1];
  [destruct (N.ltb_spec ns 128) as [S2|S2];
   [destruct (N.ltb_spec vl 128) as [S3|S3]|]|].
  - (* fast path *)
    rewrite !varint32_write_small by assumption. cbn [app decode_header].
    replace (s <? 128) with true by lia. replace (ns <? 128) with true by lia.
    replace (vl <? 128) with true by lia. cbn [andb].
    replace (nlen tail <? ns + vl) with false by lia. reflexivity.
  - rewrite decode_header_slow_eq.
    + unfold decode_header_slow.
      rewrite varint32_read_write by assumption.
      rewrite varint32_read_write by assumption.
      rewrite varint32_read_write by assumption.
      replace (nlen tail <? ns + vl) with false by lia. reflexivity.
    + rewrite !app_length. pose proof (varint32_write_nonempty s).
      pose proof (varint32_write_nonempty ns). pose proof (varint32_write_nonempty vl). lia.
    + rewrite (varint32_write_small s), (varint32_write_small ns) by assumption.
      destruct (varint32_write_big vl S3) as [t ->]. cbn [app].
      apply hd3_small_false_3. lia.
  - rewrite decode_header_slow_eq.
    + unfold decode_header_slow.
      rewrite varint32_read_write by assumption.
      rewrite varint32_read_write by assumption.
      rewrite varint32_read_write by assumption.
      replace (nlen tail <? ns + vl) with false by lia. reflexivity.
    + rewrite !app_length. pose proof (varint32_write_nonempty s).
      pose proof (varint32_write_nonempty ns). pose proof (varint32_write_nonempty vl). lia.
    + rewrite (varint32_write_small s) by assumption.
      destruct (varint32_write_big ns S2) as [t ->]. cbn [app].
      apply hd3_small_false_2. lia.
  - rewrite decode_header_slow_eq.
    + unfold decode_header_slow.
      rewrite varint32_read_write by assumption.
      rewrite varint32_read_write by assumption.
      rewrite varint32_read_write by assumption.
      replace (nlen tail <? ns + vl) with false by lia. reflexivity.
    + rewrite !app_length. pose proof (varint32_write_nonempty s).
      pose proof (varint32_write_nonempty ns). pose proof (varint32_write_nonempty vl). lia.
    + destruct (varint32_write_big s S1) as [t ->]. cbn [app].
      apply hd3_small_false_1. lia.
Qed.

(* ------------------------------------------------------------------ *)
(* specification-level encoding of the entry area                      *)
(* ------------------------------------------------------------------ *)
Fixpoint enc_entries (interval counter : N) (last : bytes) (es : list entry) : bytes :=
  match es with
  | [] => []
  | (k, v) :: es' =>
      let restart := negb (counter <? interval) in
      let shared := if restart then 0 else shared_len last k in
      encode_entry shared k v
      ++ enc_entries interval ((if restart then 0 else counter) + 1) k es'
  end.

Definition wf_entry (e : entry) : Prop :=
  nlen (fst e) < 4294967296 /\ nlen (snd e) < 4294967296.

Definition wf_entries (es : list entry) : Prop :=
  Forall wf_entry es /\ nlen es + 1 < 4294967296.

Lemma entries_loop_unfold : forall fuel isint key l,
  entries_loop fuel isint key l =
  match l with
  | [] => Some []
  | _ :: _ =>
      match fuel with
      | O => None
      | S fuel' =>
          match decode_header l with
          | None => None
          | Some (shared, non_shared, value_length, rest) =>
              if nlen key <? shared then None
              else if isint && (shared + non_shared <? 8) then None
              else
                let k := take_n shared key ++ take_n non_shared rest in
                let rest1 := drop_n non_shared rest in
                match entries_loop fuel' isint k (drop_n value_length rest1) with
                | None => None
                | Some es => Some ((k, take_n value_length rest1) :: es)
                end
          end
      end
  end.
Proof. intros. destruct fuel; reflexivity. Qed.

Lemma encode_entry_nonempty : forall s k v, exists a t, encode_entry s k v = a :: t.
Proof.
  intros. unfold encode_entry. pose proof (varint32_write_nonempty (s mod two32)).
  destruct (varint32_write (s mod two32)) as [|a t]; [cbn [length] in *; lia|].
  eexists; eexists; reflexivity.
Qed.

(* decoding the encoded entry area returns the entries *)
Definition keys_ge8 (isint : bool) (es : list entry) : Prop :=
  isint = true -> Forall (fun e => 8 <= nlen (fst e)) es.

Lemma keys_ge8_tail : forall isint e es, keys_ge8 isint (e :: es) -> keys_ge8 isint es.
Proof. intros isint e es H Hi. specialize (H Hi). inversion H; assumption. Qed.

Lemma entries_loop_enc : forall isint es interval counter last fuel,
  Forall wf_entry es -> keys_ge8 isint es ->
  (length es <= fuel)%nat ->
  entries_loop fuel isint last (enc_entries interval counter last es) = Some es.
Proof.
  intros isint.
  induction es as [|[k v] es IH]; intros interval counter last fuel Hwf H8 Hfuel.
  - rewrite entries_loop_unfold. reflexivity.
  - inversion Hwf as [|? ? [Hk Hv] Hwf']; subst. cbn [fst snd] in Hk, Hv.
    assert (Hk8 : isint && (nlen k <? 8) = false).
    { destruct isint; [|reflexivity]. specialize (H8 eq_refl). inversion H8; subst.
      cbn [fst] in *. cbn [andb]. lia. }
    apply keys_ge8_tail in H8.
    cbn [enc_entries]. cbn [length] in Hfuel.
    destruct fuel as [|fuel]; [lia|].
    set (restart := negb (counter <? interval)).
    set (shared := if restart then 0 else shared_len last k).
    set (tail := enc_entries interval ((if restart then 0 else counter) + 1) k es).
    assert (Hsh_k : shared <= nlen k).
    { subst shared. destruct restart; [lia|apply shared_len_le_r]. }
    assert (Hsh_l : shared <= nlen last).
    { subst shared. destruct restart; [lia|apply shared_len_le_l]. }
    assert (Hpre : take_n shared last = take_n shared k).
    { subst shared. destruct restart; [reflexivity|apply shared_len_prefix]. }
    rewrite entries_loop_unfold.
    destruct (encode_entry_nonempty shared k v) as [a [t Hne]].
    assert (Hcons : exists a' t', encode_entry shared k v ++ tail = a' :: t').
    { rewrite Hne. eexists; eexists; reflexivity. }
    destruct Hcons as [a' [t' Hcons]]. rewrite Hcons. rewrite <- Hcons. clear Hcons Hne a t a' t'.
    unfold encode_entry. rewrite <- !app_assoc.
    unfold two32. rewrite !N.mod_small by lia.
    rewrite decode_header_encode; try lia.
    2:{ rewrite !nlen_app, nlen_drop_n. lia. }
    replace (nlen last <? shared) with false by lia.
    replace (shared + (nlen k - shared)) with (nlen k) by lia.
    rewrite Hk8.
    cbv zeta.
    rewrite (take_n_app_exact (drop_n shared k)) by (rewrite nlen_drop_n; lia).
    rewrite (drop_n_app_exact (drop_n shared k)) by (rewrite nlen_drop_n; lia).
    rewrite (take_n_app_exact v) by reflexivity.
    rewrite (drop_n_app_exact v) by reflexivity.
    rewrite Hpre, take_drop_n.
    subst tail. rewrite IH by (auto; lia). reflexivity.
Qed.

(* ------------------------------------------------------------------ *)
(* the builder state machine produces the specification-level encoding *)
(* ------------------------------------------------------------------ *)
Lemma bb_add_buffer : forall interval b k v,
  bb_buffer (bb_add interval b k v) =
  bb_buffer b ++ encode_entry (if negb (bb_counter b <? interval) then 0 else shared_len (bb_last b) k) k v.
Proof.
  intros. unfold bb_buffer, bb_add. cbn [bb_chunks rev].
  rewrite concat_app. cbn [concat]. rewrite app_nil_r. reflexivity.
Qed.

Lemma bb_add_all_buffer : forall es interval b,
  bb_buffer (bb_add_all interval b es) =
  bb_buffer b ++ enc_entries interval (bb_counter b) (bb_last b) es.
Proof.
  induction es as [|[k v] es IH]; intros interval b.
  - cbn [bb_add_all fold_left enc_entries]. rewrite app_nil_r. reflexivity.
  - unfold bb_add_all in *. cbn [fold_left fst snd].
    rewrite IH. rewrite bb_add_buffer. cbn [enc_entries].
    rewrite <- app_assoc. reflexivity.
Qed.

Definition bb_inv (b : bbuilder) : Prop :=
  bb_nrestarts b = nlen (bb_restarts b) /\ 1 <= bb_nrestarts b.

Lemma bb_add_inv : forall interval b k v, bb_inv b -> bb_inv (bb_add interval b k v).
Proof.
  intros interval b k v [H1 H2]. unfold bb_inv, bb_add. cbn [bb_nrestarts bb_restarts].
  destruct (negb (bb_counter b <? interval)); [rewrite nlen_cons|]; lia.
Qed.

Lemma bb_add_nrestarts : forall interval b k v,
  bb_nrestarts (bb_add interval b k v) <= bb_nrestarts b + 1.
Proof.
  intros. unfold bb_add. cbn [bb_nrestarts].
  destruct (negb (bb_counter b <? interval)); lia.
Qed.

Lemma bb_add_all_inv : forall es interval b,
  bb_inv b ->
  bb_inv (bb_add_all interval b es) /\
  bb_nrestarts (bb_add_all interval b es) <= bb_nrestarts b + nlen es.
Proof.
  induction es as [|[k v] es IH]; intros interval b Hinv.
  - cbn. split; [exact Hinv|lia].
  - unfold bb_add_all in *. cbn [fold_left fst snd].
    destruct (IH interval (bb_add interval b k v) (bb_add_inv _ _ _ _ Hinv)) as [A B].
    split; [exact A|].
    pose proof (bb_add_nrestarts interval b k v). rewrite nlen_cons. lia.
Qed.

Lemma flat_map_le32_length : forall l, nlen (flat_map le32 l) = 4 * nlen l.
Proof.
  induction l; [reflexivity|].
  cbn [flat_map]. rewrite nlen_app, IHl, nlen_cons.
  unfold nlen at 1. rewrite le32_length. lia.
Qed.

(* a block of the shape produced by bb_finish decodes to the entries of its area *)
Lemma block_entries_layout : forall isint area rs n es,
  n = nlen rs -> 1 <= n -> n < 4294967296 ->
  entries_loop (S (length area)) isint [] area = Some es ->
  block_entries_gen isint (area ++ flat_map le32 rs ++ le32 n) = Some es.
Proof.
  intros isint area rs n es Hn H1 Hlt Hdec.
  unfold block_entries_gen.
  set (b := area ++ flat_map le32 rs ++ le32 n).
  assert (Hsize : nlen b = nlen area + 4 * n + 4).
  { subst b. rewrite !nlen_app, flat_map_le32_length. unfold nlen at 3. rewrite le32_length. lia. }
  rewrite Hsize.
  replace (nlen area + 4 * n + 4 <? 4) with false by lia.
  replace (nlen area + 4 * n + 4 - 4) with (nlen (area ++ flat_map le32 rs)).
  2:{ rewrite nlen_app, flat_map_le32_length. lia. }
  subst b. rewrite app_assoc. rewrite drop_n_nlen_app.
  rewrite <- (app_nil_r (le32 n)). rewrite de32_le32 by exact Hlt.
  rewrite nlen_app, flat_map_le32_length.
  replace ((nlen area + 4 * nlen rs) / 4 <? n) with false by lia.
  replace (n =? 0) with false by lia.
  replace (nlen area + 4 * n + 4 - (1 + n) * 4) with (nlen area) by lia.
  rewrite app_nil_r. rewrite <- app_assoc. rewrite take_n_nlen_app.
  exact Hdec.
Qed.

Lemma enc_entries_length : forall es interval counter last,
  (length es <= length (enc_entries interval counter last es))%nat.
Proof.
  induction es as [|[k v] es IH]; intros; cbn [enc_entries length]; [lia|].
  rewrite app_length.
  destruct (encode_entry_nonempty (if negb (counter <? interval) then 0 else shared_len last k) k v)
    as [a [t ->]]. cbn [length].
  specialize (IH interval ((if negb (counter <? interval) then 0 else counter) + 1) k). lia.
Qed.

(* (b) decoding a built block returns exactly the entries *)
Theorem block_entries_gen_build : forall isint interval es,
  wf_entries es -> keys_ge8 isint es ->
  block_entries_gen isint (block_build interval es) = Some es.
Proof.
  intros isint interval es [Hwf Hcount] H8.
  unfold block_build, bb_finish.
  assert (Hinv0 : bb_inv bb_empty) by (unfold bb_inv; cbn; lia).
  destruct (bb_add_all_inv es interval bb_empty Hinv0) as [[Hn H1] Hle].
  cbn [bb_empty bb_nrestarts] in Hle.
  rewrite bb_add_all_buffer. cbn [bb_empty bb_buffer bb_chunks rev concat app bb_counter bb_last].
  apply block_entries_layout.
  - rewrite Hn. unfold nlen. rewrite rev_length. reflexivity.
  - exact H1.
  - lia.
  - apply entries_loop_enc; [exact Hwf|exact H8|].
    pose proof (enc_entries_length es interval 0 []). lia.
Qed.

Theorem block_entries_build : forall interval es,
  1 <= interval -> wf_entries es ->
  block_entries (block_build interval es) = Some es.
Proof.
  intros interval es _ Hwf. apply block_entries_gen_build; [exact Hwf|].
  intro H; discriminate.
Qed.

(* ================================================================== *)
(* (d) Memory safety of the block reader and iterator                  *)
(* ================================================================== *)
Lemma skipn_skipn' : forall (A : Type) a b (l : list A), skipn a (skipn b l) = skipn (b + a) l.
Proof.
  intros A a b. induction b; intros l; cbn [skipn Nat.add]; [reflexivity|].
  destruct l; [destruct a; reflexivity|apply IHb].
Qed.

Lemma drop_n_drop_n : forall a b (l : bytes), drop_n a (drop_n b l) = drop_n (b + a) l.
Proof.
  intros. unfold drop_n. rewrite skipn_skipn'. f_equal. lia.
Qed.

Lemma de32_some : forall l, 4 <= nlen l -> exists v, de32 l = Some v.
Proof.
  intros l H. destruct l as [|a [|b [|c [|d r]]]]; unfold nlen in H; cbn [length] in H; try lia.
  eexists. reflexivity.
Qed.

Lemma take_exact_ok : forall sub len, len <= nlen sub -> take_exact sub len = Ok (take_n len sub).
Proof.
  intros. unfold take_exact. rewrite nlen_take_n_le by assumption.
  rewrite N.eqb_refl. reflexivity.
Qed.

Lemma read32_ok : forall data size off,
  size = nlen data -> off + 4 <= size -> exists v, read32 data size off = Ok v.
Proof.
  intros data size off Hs Ho. unfold read32.
  replace (size <? off + 4) with false by lia.
  destruct (de32_some (drop_n off data)) as [v Hv]; [rewrite nlen_drop_n; lia|].
  rewrite Hv. eexists. reflexivity.
Qed.

(* ---- decode_entry ---- *)
Lemma decode_entry_ok : forall sub p limit,
  limit - p <= nlen sub ->
  exists r, decode_entry sub p limit = Ok r /\
    match r with
    | None => True
    | Some (s, ns, vl, used, krest) =>
        krest = drop_n used sub /\ p + used + ns + vl <= limit
    end.
Proof.
  intros sub p limit Hlen. unfold decode_entry.
  destruct (limit <? p) eqn:E1; [eexists; split; [reflexivity|exact I]|].
  destruct (limit - p <? 3) eqn:E2; [eexists; split; [reflexivity|exact I]|].
  destruct sub as [|a [|b [|c rest]]]; try (unfold nlen in Hlen; cbn [length] in Hlen; lia).
  destruct ((a <? 128) && (b <? 128) && (c <? 128)) eqn:E3.
  - destruct (limit - p - 3 <? b + c) eqn:E4; eexists; (split; [reflexivity|]); [exact I|].
    split; [reflexivity|lia].
  - set (sub := a :: b :: c :: rest) in *.
    set (wlen := N.min (limit - p) 15).
    rewrite nlen_take_n_le by lia. rewrite N.eqb_refl. cbn [negb].
    destruct (varint32_read (take_n wlen sub)) as [[s w1]|]; [|eexists; split; [reflexivity|exact I]].
    destruct (varint32_read w1) as [[ns w2]|]; [|eexists; split; [reflexivity|exact I]].
    destruct (varint32_read w2) as [[vl w3]|]; [|eexists; split; [reflexivity|exact I]].
    destruct (limit - p - (wlen - nlen w3) <? ns + vl) eqn:E5; eexists; (split; [reflexivity|]); [exact I|].
    split; [reflexivity|lia].
Qed.

(* ---- iterator invariant ---- *)
Definition binv1 (it : biter) : Prop :=
  bi_restarts it + 4 * bi_num it + 4 = nlen (bi_data it) /\
  bi_rarr it = drop_n (bi_restarts it) (bi_data it) /\
  bi_ridx it <= bi_num it /\
  bi_vrest it = drop_n (bi_voff it) (bi_data it) /\
  bi_next it = drop_n (bi_voff it + bi_vlen it) (bi_data it) /\
  bi_voff it + bi_vlen it <= bi_restarts it.

Definition binv (it : biter) : Prop := bi_empty it = true \/ binv1 it.

Lemma get_restart_point_ok : forall it idx,
  binv1 it -> idx <= bi_num it ->
  exists off, get_restart_point it idx = Ok off /\ off <= bi_restarts it.
Proof.
  intros it idx (H1 & H2 & _) Hidx. unfold get_restart_point.
  destruct (de32_some (drop_n (idx * 4) (bi_rarr it))) as [v Hv].
  { rewrite H2, !nlen_drop_n. lia. }
  rewrite Hv. eexists. split; [reflexivity|].
  destruct (bi_restarts it <? v) eqn:E; lia.
Qed.

Lemma seek_to_restart_point_ok : forall it idx,
  binv1 it -> idx <= bi_num it ->
  exists it', seek_to_restart_point it idx = Ok it' /\ binv1 it' /\
              bi_data it' = bi_data it /\ bi_restarts it' = bi_restarts it /\
              bi_num it' = bi_num it /\ bi_empty it' = bi_empty it.
Proof.
  intros it idx Hinv Hidx. unfold seek_to_restart_point.
  destruct (get_restart_point_ok it idx Hinv Hidx) as [off [-> Hoff]]. cbn [rbind].
  destruct Hinv as (H1 & H2 & H3 & H4 & H5 & H6).
  eexists. split; [reflexivity|].
  unfold binv1. cbn [bi_data bi_restarts bi_num bi_rarr bi_ridx bi_vrest bi_voff bi_vlen bi_next bi_empty].
  rewrite N.add_0_r. repeat split; auto.
Qed.

Lemma set_pos_inv : forall it cur ridx, binv1 it -> ridx <= bi_num it -> binv1 (set_pos it cur ridx).
Proof.
  intros it cur ridx (H1 & H2 & H3 & H4 & H5 & H6) Hr. unfold binv1, set_pos.
  cbn [bi_data bi_restarts bi_num bi_rarr bi_ridx bi_vrest bi_voff bi_vlen bi_next]. repeat split; auto.
Qed.

Lemma biter_corrupt_inv : forall it, binv1 it -> binv1 (biter_corrupt it).
Proof.
  intros it (H1 & H2 & H3 & H4 & H5 & H6). unfold binv1, biter_corrupt.
  cbn [bi_data bi_restarts bi_num bi_rarr bi_ridx bi_vrest bi_voff bi_vlen bi_next].
  repeat split; auto; try lia.
Qed.

(* facts preserved by every internal step *)
Definition same_block (it it' : biter) : Prop :=
  bi_data it' = bi_data it /\ bi_restarts it' = bi_restarts it /\
  bi_num it' = bi_num it /\ bi_empty it' = bi_empty it.

Lemma same_block_refl : forall it, same_block it it.
Proof. intros. repeat split. Qed.

Lemma same_block_trans : forall a b c, same_block a b -> same_block b c -> same_block a c.
Proof. intros a b c (A1 & A2 & A3 & A4) (B1 & B2 & B3 & B4). repeat split; congruence. Qed.

Section SafetyWithComparator.
Variable cmp : bytes -> bytes -> comparison.
Variable is_internal : bool.

Lemma advance_ridx_ok : forall fuel it,
  binv1 it ->
  exists it', advance_ridx fuel it = Ok it' /\ binv1 it' /\ same_block it it' /\
              bi_voff it' = bi_voff it /\ bi_vlen it' = bi_vlen it.
Proof.
  induction fuel as [|x fuel IH]; intros it Hinv; cbn [advance_ridx].
  - exists it. split; [reflexivity|]. split; [exact Hinv|]. split; [apply same_block_refl|]. split; reflexivity.
  - destruct (bi_ridx it + 1 <? bi_num it) eqn:E.
    + destruct (get_restart_point_ok it (bi_ridx it + 1) Hinv ltac:(lia)) as [rp [-> _]]. cbn [rbind].
      destruct (rp <? bi_cur it).
      * destruct (IH (set_ridx it (bi_ridx it + 1))) as [it' (A & B & C & D & F)].
        { apply set_pos_inv; [exact Hinv|lia]. }
        exists it'. split; [exact A|]. split; [exact B|]. split; [exact C|]. split; [exact D|exact F].
      * exists it. split; [reflexivity|]. split; [exact Hinv|]. split; [apply same_block_refl|]. split; reflexivity.
    + exists it. split; [reflexivity|]. split; [exact Hinv|]. split; [apply same_block_refl|]. split; reflexivity.
Qed.

Lemma parse_next_key_ok : forall it,
  binv1 it ->
  exists it' b, parse_next_key is_internal it = Ok (it', b) /\ binv1 it' /\ same_block it it'.
Proof.
  intros it Hinv. unfold parse_next_key.
  destruct (bi_restarts it <=? next_entry_offset it) eqn:E.
  - eexists; eexists. split; [reflexivity|]. split; [apply set_pos_inv; [exact Hinv|lia]|].
    repeat split.
  - pose proof Hinv as (H1 & H2 & H3 & H4 & H5 & H6).
    unfold next_entry_offset in *.
    destruct (decode_entry_ok (bi_next it) (bi_voff it + bi_vlen it) (bi_restarts it)) as [r [-> Hr]].
    { rewrite H5, nlen_drop_n. lia. }
    cbn [rbind].
    destruct r as [[[[[s ns] vl] used] krest]|].
    2:{ eexists; eexists. split; [reflexivity|]. split; [apply biter_corrupt_inv; exact Hinv|].
        repeat split. }
    destruct Hr as [Hk Hb].
    destruct (nlen (bi_key it) <? s).
    { eexists; eexists. split; [reflexivity|]. split; [apply biter_corrupt_inv; exact Hinv|].
      repeat split. }
    destruct (is_internal && (s + ns <? 8)).
    { eexists; eexists. split; [reflexivity|]. split; [apply biter_corrupt_inv; exact Hinv|].
      repeat split. }
    rewrite take_exact_ok.
    2:{ rewrite Hk, H5, !nlen_drop_n. lia. }
    cbn [rbind].
    match goal with |- context [advance_ridx ?f ?i] => set (it1 := i) end.
    assert (Hinv1 : binv1 it1).
    { unfold binv1, it1.
      cbn [bi_data bi_restarts bi_num bi_rarr bi_ridx bi_vrest bi_voff bi_vlen bi_next].
      repeat split; auto;
        try (rewrite Hk, H5, !drop_n_drop_n; f_equal; lia); try lia. }
    destruct (advance_ridx_ok (bi_data it) it1 Hinv1) as [it2 (A & B & C & D & F)].
    rewrite A. cbn [rbind].
    exists it2, true. split; [reflexivity|]. split; [exact B|].
    eapply same_block_trans; [|exact C]. unfold same_block, it1. cbn. repeat split.
Qed.

Lemma scan_until_ok : forall fuel bound it,
  binv1 it ->
  exists it', scan_until is_internal fuel bound it = Ok it' /\ binv1 it' /\ same_block it it'.
Proof.
  induction fuel as [|x fuel IH]; intros bound it Hinv; cbn [scan_until];
    destruct (parse_next_key_ok it Hinv) as [it1 [b (A & B & C)]]; rewrite A; cbn [rbind].
  - destruct (b && (next_entry_offset it1 <? bound)); exists it1; auto.
  - destruct (b && (next_entry_offset it1 <? bound)).
    + destruct (IH bound it1 B) as [it2 (D & E & F)].
      exists it2. split; [exact D|]. split; [exact E|]. eapply same_block_trans; eauto.
    + exists it1; auto.
Qed.

Lemma seek_linear_ok : forall fuel target it,
  binv1 it ->
  exists it', seek_linear cmp is_internal fuel target it = Ok it' /\ binv1 it' /\ same_block it it'.
Proof.
  induction fuel as [|x fuel IH]; intros target it Hinv; cbn [seek_linear];
    destruct (parse_next_key_ok it Hinv) as [it1 [b (A & B & C)]]; rewrite A; cbn [rbind].
  - destruct (negb b); [exists it1; auto|].
    destruct (cmp (bi_key it1) target); exists it1; auto.
  - destruct (negb b); [exists it1; auto|].
    destruct (cmp (bi_key it1) target); try (exists it1; auto; fail).
    destruct (IH target it1 B) as [it2 (D & E & F)].
    exists it2. split; [exact D|]. split; [exact E|]. eapply same_block_trans; eauto.
Qed.

Lemma prev_restart_ok : forall fuel original it,
  binv1 it ->
  exists r, prev_restart fuel original it = Ok r /\
    match r with None => True | Some it1 => binv1 it1 /\ same_block it it1 end.
Proof.
  induction fuel as [|x fuel IH]; intros original it Hinv; cbn [prev_restart];
    pose proof Hinv as (_ & _ & H3 & _);
    destruct (get_restart_point_ok it (bi_ridx it) Hinv H3) as [rp [-> _]]; cbn [rbind].
  - destruct (original <=? rp).
    + destruct (bi_ridx it =? 0); exists None; auto.
    + exists (Some it). split; [reflexivity|]. split; [exact Hinv|apply same_block_refl].
  - destruct (original <=? rp).
    + destruct (bi_ridx it =? 0); [exists None; auto|].
      destruct (IH original (set_ridx it (bi_ridx it - 1))) as [r [A B]].
      { apply set_pos_inv; [exact Hinv|lia]. }
      exists r. split; [exact A|]. destruct r as [it1|]; [|exact I].
      destruct B as [B1 B2]. split; [exact B1|]. exact B2.
    + exists (Some it). split; [reflexivity|]. split; [exact Hinv|apply same_block_refl].
Qed.

Lemma seek_bsearch_ok : forall fuel target it lo hi,
  binv1 it -> lo <= bi_num it -> hi <= bi_num it ->
  exists r, seek_bsearch cmp is_internal fuel target it lo hi = Ok r /\
    match r with inl _ => True | inr l => l <= bi_num it end.
Proof.
  induction fuel as [|fuel IH]; intros target it lo hi Hinv Hlo Hhi; cbn [seek_bsearch].
  - destruct (lo <? hi); exists (inr lo); auto.
  - destruct (lo <? hi) eqn:E; [|exists (inr lo); auto].
    destruct (get_restart_point_ok it ((lo + hi + 1) / 2) Hinv ltac:(lia)) as [off [-> Hoff]].
    cbn [rbind].
    pose proof Hinv as (H1 & _).
    destruct (decode_entry_ok (drop_n off (bi_data it)) off (bi_restarts it)) as [r [-> Hr]].
    { rewrite nlen_drop_n. lia. }
    cbn [rbind].
    destruct r as [[[[[s ns] vl] used] krest]|]; [|exists (inl tt); auto].
    destruct Hr as [Hk Hb].
    destruct (negb (s =? 0)); [exists (inl tt); auto|].
    destruct (is_internal && (ns <? 8)); [exists (inl tt); auto|].
    rewrite take_exact_ok by (rewrite Hk, !nlen_drop_n; lia).
    cbn [rbind].
    destruct (cmp (take_n ns krest) target); apply IH; auto; lia.
Qed.

Lemma binv_cases : forall it, binv it -> bi_empty it = false -> binv1 it.
Proof. intros it [H|H] E; [congruence|exact H]. Qed.

Lemma biter_next_ok : forall it, binv it -> exists it', biter_next is_internal it = Ok it' /\ binv it'.
Proof.
  intros it Hinv. unfold biter_next. destruct (bi_empty it) eqn:E; [exists it; auto|].
  destruct (parse_next_key_ok it (binv_cases it Hinv E)) as [it1 [b (A & B & C)]].
  rewrite A. cbn [rbind]. exists it1. split; [reflexivity|right; exact B].
Qed.

Lemma biter_first_ok : forall it, binv it -> exists it', biter_first is_internal it = Ok it' /\ binv it'.
Proof.
  intros it Hinv. unfold biter_first. destruct (bi_empty it) eqn:E; [exists it; auto|].
  destruct (seek_to_restart_point_ok it 0 (binv_cases it Hinv E) ltac:(lia)) as [it0 (A0 & B0 & _)].
  rewrite A0. cbn [rbind].
  destruct (parse_next_key_ok it0 B0) as [it1 [b (A & B & C)]].
  rewrite A. cbn [rbind]. exists it1. split; [reflexivity|right; exact B].
Qed.

Lemma biter_last_ok : forall it, binv it -> exists it', biter_last is_internal it = Ok it' /\ binv it'.
Proof.
  intros it Hinv. unfold biter_last. destruct (bi_empty it) eqn:E; [exists it; auto|].
  destruct (seek_to_restart_point_ok it (bi_num it - 1) (binv_cases it Hinv E) ltac:(lia)) as [it0 (A0 & B0 & _)].
  rewrite A0. cbn [rbind].
  destruct (scan_until_ok (bi_data it) (bi_restarts it) it0 B0) as [it1 (A & B & C)].
  exists it1. split; [exact A|right; exact B].
Qed.

Lemma biter_prev_ok : forall it, binv it -> exists it', biter_prev is_internal it = Ok it' /\ binv it'.
Proof.
  intros it Hinv. unfold biter_prev. destruct (bi_empty it) eqn:E; [exists it; auto|].
  pose proof (binv_cases it Hinv E) as H1.
  destruct (prev_restart_ok (bi_data it) (bi_cur it) it H1) as [r [-> Hr]]. cbn [rbind].
  destruct r as [it1|].
  - destruct Hr as [B1 (S1 & S2 & S3 & S4)].
    destruct (seek_to_restart_point_ok it1 (bi_ridx it1) B1) as [it2 (A2 & B2 & _)].
    { destruct B1 as (_ & _ & H & _). exact H. }
    rewrite A2. cbn [rbind].
    destruct (scan_until_ok (bi_data it) (bi_cur it) it2 B2) as [it3 (A3 & B3 & _)].
    exists it3. split; [exact A3|right; exact B3].
  - eexists. split; [reflexivity|]. right. apply set_pos_inv; [exact H1|lia].
Qed.

Lemma biter_seek_ok : forall target it,
  binv it -> exists it', biter_seek cmp is_internal target it = Ok it' /\ binv it'.
Proof.
  intros target it Hinv. unfold biter_seek. destruct (bi_empty it) eqn:E; [exists it; auto|].
  pose proof (binv_cases it Hinv E) as H1.
  destruct (is_internal && (nlen target <? 8)).
  { eexists. split; [reflexivity|]. right. apply biter_corrupt_inv. exact H1. }
  set (ckc := if biter_valid it then cmp (bi_key it) target else Eq).
  destruct (biter_valid it && match ckc with Eq => true | _ => false end); [exists it; auto|].
  pose proof H1 as (_ & _ & H3 & _).
  destruct (seek_bsearch_ok 64 target it
              (match ckc with Lt => bi_ridx it | _ => 0 end)
              (match ckc with Gt => bi_ridx it | _ => bi_num it - 1 end) H1) as [r [-> Hr]].
  { destruct ckc; lia. }
  { destruct ckc; lia. }
  cbn [rbind].
  destruct r as [u|lft].
  { eexists. split; [reflexivity|]. right. apply biter_corrupt_inv. exact H1. }
  destruct ((lft =? bi_ridx it) && match ckc with Lt => true | _ => false end).
  - cbn [rbind].
    destruct (seek_linear_ok (bi_data it) target it H1) as [it2 (A & B & _)].
    exists it2. split; [exact A|right; exact B].
  - destruct (seek_to_restart_point_ok it lft H1 Hr) as [it1 (A1 & B1 & _)].
    rewrite A1. cbn [rbind].
    destruct (seek_linear_ok (bi_data it) target it1 B1) as [it2 (A & B & _)].
    exists it2. split; [exact A|right; exact B].
Qed.

Lemma biter_observe_ok : forall it, binv it -> exists o, biter_observe it = Ok o.
Proof.
  intros it Hinv. unfold biter_observe.
  destruct (biter_valid it) eqn:V; [|eexists; reflexivity].
  unfold biter_valid in V. destruct (bi_empty it) eqn:E; [discriminate|].
  pose proof (binv_cases it Hinv E) as (H1 & _ & _ & H4 & _ & H6).
  unfold biter_value. rewrite take_exact_ok by (rewrite H4, nlen_drop_n; lia).
  cbn [rbind]. eexists. reflexivity.
Qed.

Lemma biter_step_ok : forall op it,
  binv it -> exists it', biter_step cmp is_internal op it = Ok it' /\ binv it'.
Proof.
  intros op it Hinv. destruct op; cbn [biter_step].
  - apply biter_first_ok; exact Hinv.
  - apply biter_last_ok; exact Hinv.
  - apply biter_seek_ok; exact Hinv.
  - destruct (biter_valid it); [apply biter_next_ok; exact Hinv|exists it; auto].
  - destruct (biter_valid it); [apply biter_prev_ok; exact Hinv|exists it; auto].
Qed.

Lemma biter_run_ok : forall ops it,
  binv it -> exists r, biter_run cmp is_internal ops it = Ok r.
Proof.
  induction ops as [|op ops IH]; intros it Hinv; cbn [biter_run].
  - eexists; reflexivity.
  - destruct (biter_step_ok op it Hinv) as [it1 [-> B]]. cbn [rbind].
    destruct (biter_observe_ok it1 B) as [o ->]. cbn [rbind].
    destruct (IH it1 B) as [[os it2] ->]. cbn [rbind]. eexists; reflexivity.
Qed.

End SafetyWithComparator.

(* ---- block_init / biter_create ---- *)
Definition blk_ok (blk : block) : Prop :=
  blk_len blk = nlen (blk_data blk) /\
  (blk_size blk = 0 \/
   (blk_size blk = nlen (blk_data blk) /\ 4 <= blk_size blk /\
    exists n, de32 (drop_n (blk_size blk - 4) (blk_data blk)) = Some n /\
              n <= (blk_size blk - 4) / 4 /\
              blk_restarts blk = blk_size blk - (1 + n) * 4)).

Lemma block_init_ok : forall b, exists blk, block_init b = Ok blk /\ blk_ok blk /\ blk_data blk = b.
Proof.
  intros b. unfold block_init.
  destruct (nlen b <? 4) eqn:E.
  - eexists. split; [reflexivity|]. split; [|reflexivity].
    split; [reflexivity|left; reflexivity].
  - destruct (de32_some (drop_n (nlen b - 4) b)) as [n Hn]; [rewrite nlen_drop_n; lia|].
    unfold read32. replace (nlen b <? nlen b - 4 + 4) with false by lia. rewrite Hn. cbn [rbind].
    destruct ((nlen b - 4) / 4 <? n) eqn:E2.
    + eexists. split; [reflexivity|]. split; [|reflexivity].
      split; [reflexivity|left; reflexivity].
    + eexists. split; [reflexivity|]. split; [|reflexivity].
      split; [reflexivity|right]. cbn [blk_size blk_data blk_restarts].
      split; [reflexivity|]. split; [lia|]. exists n. split; [exact Hn|]. split; [lia|reflexivity].
Qed.

Lemma biter_create_ok : forall blk, blk_ok blk -> exists it, biter_create blk = Ok it /\ binv it.
Proof.
  intros blk [Hlen Hb]. unfold biter_create.
  destruct (blk_size blk <? 4) eqn:E.
  - eexists. split; [reflexivity|left; reflexivity].
  - destruct Hb as [Hz|(Hs & H4 & n & Hn & Hle & Hr)]; [lia|].
    unfold read32. rewrite Hlen. replace (nlen (blk_data blk) <? blk_size blk - 4 + 4) with false by lia.
    rewrite Hn. cbn [rbind].
    destruct (n =? 0) eqn:E0.
    + eexists. split; [reflexivity|left; reflexivity].
    + eexists. split; [reflexivity|]. right. unfold binv1.
      cbn [bi_data bi_restarts bi_num bi_rarr bi_ridx bi_vrest bi_voff bi_vlen bi_next].
      repeat split; try reflexivity; try lia.
Qed.

(* (d) the block iterator never reads outside the block: for ALL byte strings,
   comparators and scripts the model never returns OOB *)
Theorem block_run_safe : forall cmp is_internal b ops, block_run cmp is_internal b ops <> OOB.
Proof.
  intros cmp is_internal b ops. unfold block_run.
  destruct (block_init_ok b) as [blk (-> & Hok & _)]. cbn [rbind].
  destruct (biter_create_ok blk Hok) as [it (-> & Hinv)]. cbn [rbind].
  destruct (biter_run_ok cmp is_internal ops it Hinv) as [[os it'] ->]. cbn [rbind].
  discriminate.
Qed.
